/-
  Helper lemmas for C18: the reference calendar `Umya.Spec.Calendar`.

  `omega` is incomplete on nested literal divisions and becomes very slow when many division
  facts are in the context, so every arithmetic step is its own small lemma with exactly the
  hypotheses it needs, and the assembling proofs only pass terms around.
-/
import Umya.Spec.Calendar
namespace Umya.Lemmas.Calendar
open Umya.Spec.Calendar

/-! ### year-of-era: Hinnant's `(doe - doe/1460 + doe/36524 - doe/146096) / 365` -/

theorem L1 (doe c : Int) (h0 : 0 ≤ doe) (h1 : doe ≤ 146096) (hc : doe / 36524 - doe / 146096 = c) :
    0 ≤ c ∧ c ≤ 3 ∧ 0 ≤ doe - 36524 * c ∧ doe - 36524 * c ≤ 36524 ∧ (c < 3 → doe - 36524 * c ≤ 36523) := by
  omega

theorem L2 (r : Int) (h0 : 0 ≤ r) (h1 : r ≤ 36524) :
    0 ≤ r / 1461 ∧ r / 1461 ≤ 24 ∧ 0 ≤ r % 1461 ∧ r % 1461 ≤ 1460 ∧ r = 1461 * (r / 1461) + r % 1461 := by
  omega

theorem L3 (c q s : Int) (hc0 : 0 ≤ c) (hc3 : c ≤ 3) (hq0 : 0 ≤ q) (hq1 : q ≤ 24) (hs0 : 0 ≤ s) (hs1 : s ≤ 1460) :
    0 ≤ (24 * c + q + s) / 1460 ∧ (24 * c + q + s) / 1460 ≤ 1 ∧
    (36524 * c + 1461 * q + s) / 1460 = 25 * c + q + (24 * c + q + s) / 1460 := by
  omega

theorem L4 (c q s e : Int) (hc0 : 0 ≤ c) (hc3 : c ≤ 3) (hq0 : 0 ≤ q) (hq1 : q ≤ 24) (hs0 : 0 ≤ s) (hs1 : s ≤ 1460)
    (he : (24 * c + q + s) / 1460 = e) : 0 ≤ s - e ∧ s - e ≤ 1459 ∧ (e = 1 → 1460 ≤ 24 * c + q + s) ∧ (e = 0 → 24 * c + q + s < 1460) ∧ (e = 0 ∨ e = 1) := by
  omega

theorem L5 (a b : Int) (hb0 : 0 ≤ b) (hb1 : b ≤ 1459) : (365 * a + b) / 365 = a + b / 365 ∧ 0 ≤ b / 365 ∧ b / 365 ≤ 3 := by
  omega

theorem L6 (doe c q s e t : Int)
    (hdoe : doe = 36524 * c + 1461 * q + s)
    (h1460 : doe / 1460 = 25 * c + q + e)
    (hfg : doe / 36524 - doe / 146096 = c)
    (hb0 : 0 ≤ s - e) (hb1 : s - e ≤ 1459) (ht : (s - e) / 365 = t) :
    (doe - doe / 1460 + doe / 36524 - doe / 146096) / 365 = 100 * c + 4 * q + t := by
  have hN : doe - doe / 1460 + doe / 36524 - doe / 146096 = 365 * (100 * c + 4 * q) + (s - e) := by
    omega
  rw [hN, (L5 _ _ hb0 hb1).1, ht]

theorem L7 (c q s e t : Int) (hc0 : 0 ≤ c) (hc3 : c ≤ 3) (hq0 : 0 ≤ q) (hq1 : q ≤ 24) (_hs0 : 0 ≤ s) (_hs1 : s ≤ 1460)
    (hr2 : c < 3 → 1461 * q + s ≤ 36523)
    (he01 : e = 0 ∨ e = 1) (he1 : e = 1 → 1460 ≤ 24 * c + q + s) (he0 : e = 0 → 24 * c + q + s < 1460)
    (ht : (s - e) / 365 = t) (ht0 : 0 ≤ t) (ht3 : t ≤ 3) :
    0 ≤ s - 365 * t ∧ (s - 365 * t ≤ 364 ∨ (s - 365 * t = 365 ∧ t = 3 ∧ (q ≤ 23 ∨ c = 3))) := by
  rcases he01 with h | h <;> subst h <;> omega

theorem L8 (doe c r q s : Int) (hr : doe - 36524 * c = r) (hrqs : r = 1461 * q + s) :
    doe = 36524 * c + 1461 * q + s := by omega
theorem L9 (doe c q s t : Int) (h : doe = 36524 * c + 1461 * q + s) :
    doe = 36524 * c + 1461 * q + 365 * t + (s - 365 * t) := by omega
theorem L10 (c q s : Int) (h : c < 3 → 1461 * q + s ≤ 36523) : c < 3 → 1461 * q + s ≤ 36523 := h

theorem yoe_core (doe : Int) (h0 : 0 ≤ doe) (h1 : doe ≤ 146096) :
    ∃ c q t u : Int, 0 ≤ c ∧ c ≤ 3 ∧ 0 ≤ q ∧ q ≤ 24 ∧ 0 ≤ t ∧ t ≤ 3 ∧ 0 ≤ u ∧
      (u ≤ 364 ∨ (u = 365 ∧ t = 3 ∧ (q ≤ 23 ∨ c = 3))) ∧
      doe = 36524 * c + 1461 * q + 365 * t + u ∧
      (doe - doe / 1460 + doe / 36524 - doe / 146096) / 365 = 100 * c + 4 * q + t := by
  obtain ⟨c, hc⟩ : ∃ c, doe / 36524 - doe / 146096 = c := ⟨_, rfl⟩
  obtain ⟨hc0, hc3, hr0, hr1, hr2⟩ := L1 doe c h0 h1 hc
  obtain ⟨r, hr⟩ : ∃ r, doe - 36524 * c = r := ⟨_, rfl⟩
  rw [hr] at hr0 hr1 hr2
  obtain ⟨hq0, hq1, hs0, hs1, hrqs⟩ := L2 r hr0 hr1
  obtain ⟨q, hq⟩ : ∃ q, r / 1461 = q := ⟨_, rfl⟩
  obtain ⟨s, hs⟩ : ∃ s, r % 1461 = s := ⟨_, rfl⟩
  rw [hq] at hq0 hq1 hrqs
  rw [hs] at hs0 hs1 hrqs
  have hdoe := L8 doe c r q s hr hrqs
  obtain ⟨_, _, h1460⟩ := L3 c q s hc0 hc3 hq0 hq1 hs0 hs1
  obtain ⟨e, he⟩ : ∃ e, (24 * c + q + s) / 1460 = e := ⟨_, rfl⟩
  obtain ⟨hb0, hb1, he1, he0, he01⟩ := L4 c q s e hc0 hc3 hq0 hq1 hs0 hs1 he
  rw [he, ← hdoe] at h1460
  obtain ⟨t, ht⟩ : ∃ t, (s - e) / 365 = t := ⟨_, rfl⟩
  obtain ⟨_, ht0, ht3⟩ := L5 0 (s - e) hb0 hb1
  rw [ht] at ht0 ht3
  have hy := L6 doe c q s e t hdoe h1460 hc hb0 hb1 ht
  have hr2' : c < 3 → 1461 * q + s ≤ 36523 := by intro h; have := hr2 h; rw [hrqs] at this; exact this
  obtain ⟨hu0, hu⟩ := L7 c q s e t hc0 hc3 hq0 hq1 hs0 hs1 hr2' he01 he1 he0 ht ht0 ht3
  exact ⟨c, q, t, s - 365 * t, hc0, hc3, hq0, hq1, ht0, ht3, hu0, hu, L9 doe c q s t hdoe, hy⟩

/-! ### decoding a day number -/

theorem era_doe (z : Int) : 0 ≤ z + 719468 - (z + 719468) / 146097 * 146097 ∧
    z + 719468 - (z + 719468) / 146097 * 146097 ≤ 146096 := by omega

theorem Y_div (c q t : Int) (_hc0 : 0 ≤ c) (hq0 : 0 ≤ q) (hq1 : q ≤ 24) (ht0 : 0 ≤ t) (ht3 : t ≤ 3) :
    (100 * c + 4 * q + t) / 4 = 25 * c + q ∧ (100 * c + 4 * q + t) / 100 = c := by omega

theorem doy_eq (doe c q t u Y : Int) (hY : Y = 100 * c + 4 * q + t) (h4 : Y / 4 = 25 * c + q) (h100 : Y / 100 = c)
    (hdoe : doe = 36524 * c + 1461 * q + 365 * t + u) : doe - (365 * Y + Y / 4 - Y / 100) = u := by
  rw [h4, h100, hY, hdoe]; omega

/-- month length in the March-based numbering; `feb29` says whether day 29 of month 11 exists -/
def MonthLenOk (mp d : Int) (feb29 : Prop) : Prop :=
  ((mp = 0 ∨ mp = 2 ∨ mp = 4 ∨ mp = 5 ∨ mp = 7 ∨ mp = 9 ∨ mp = 10) → d ≤ 31) ∧
  ((mp = 1 ∨ mp = 3 ∨ mp = 6 ∨ mp = 8) → d ≤ 30) ∧
  (mp = 11 → d ≤ 29 ∧ (d = 29 → feb29))

theorem month_core (u : Int) (h0 : 0 ≤ u) (h1 : u ≤ 365) :
    ∃ mp d : Int, (5 * u + 2) / 153 = mp ∧ u - (153 * mp + 2) / 5 + 1 = d ∧ 0 ≤ mp ∧ mp ≤ 11 ∧ 1 ≤ d ∧
      (153 * mp + 2) / 5 + d - 1 = u ∧ MonthLenOk mp d (u = 365) := by
  obtain ⟨mp, hmp⟩ : ∃ mp, (5 * u + 2) / 153 = mp := ⟨_, rfl⟩
  have hb : 0 ≤ mp ∧ mp ≤ 11 := by omega
  refine ⟨mp, _, hmp, rfl, hb.1, hb.2, ?_, by omega, ?_⟩
  · have : mp = 0 ∨ mp = 1 ∨ mp = 2 ∨ mp = 3 ∨ mp = 4 ∨ mp = 5 ∨ mp = 6 ∨ mp = 7 ∨ mp = 8 ∨ mp = 9 ∨ mp = 10 ∨ mp = 11 := by omega
    rcases this with h | h | h | h | h | h | h | h | h | h | h | h <;> subst h <;> omega
  · unfold MonthLenOk
    have : mp = 0 ∨ mp = 1 ∨ mp = 2 ∨ mp = 3 ∨ mp = 4 ∨ mp = 5 ∨ mp = 6 ∨ mp = 7 ∨ mp = 8 ∨ mp = 9 ∨ mp = 10 ∨ mp = 11 := by omega
    rcases this with h | h | h | h | h | h | h | h | h | h | h | h <;> subst h <;> omega

theorem civilFromDays_eq (z era doe Y u mp : Int) (hera : (z + 719468) / 146097 = era)
    (hdoe : z + 719468 - era * 146097 = doe)
    (hY : (doe - doe / 1460 + doe / 36524 - doe / 146096) / 365 = Y)
    (hu : doe - (365 * Y + Y / 4 - Y / 100) = u) (hmp : (5 * u + 2) / 153 = mp) :
    civilFromDays z =
      (if (if mp < 10 then mp + 3 else mp - 9) ≤ 2 then Y + era * 400 + 1 else Y + era * 400,
       if mp < 10 then mp + 3 else mp - 9, u - (153 * mp + 2) / 5 + 1) := by
  subst hera hdoe hY hu hmp; rfl

theorem daysFromCivil_eq (y m d y' era yoe mp : Int) (hy : (if m ≤ 2 then y - 1 else y) = y')
    (hera : y' / 400 = era) (hyoe : y' - era * 400 = yoe) (hmp : (if m > 2 then m - 3 else m + 9) = mp) :
    daysFromCivil y m d =
      era * 146097 + (yoe * 365 + yoe / 4 - yoe / 100 + ((153 * mp + 2) / 5 + d - 1)) - 719468 := by
  subst hy hera hyoe hmp; rfl

/-! ### `daysFromCivil ∘ civilFromDays = id` -/

/-- civil month number of a March-based month -/
def monthOf (mp : Int) : Int := if mp < 10 then mp + 3 else mp - 9

theorem monthOf_props (mp : Int) (h0 : 0 ≤ mp) (h1 : mp ≤ 11) :
    (if monthOf mp > 2 then monthOf mp - 3 else monthOf mp + 9) = mp ∧ 1 ≤ monthOf mp ∧ monthOf mp ≤ 12 ∧
    (monthOf mp ≤ 2 ↔ 10 ≤ mp) := by
  unfold monthOf
  by_cases h : mp < 10
  · rw [if_pos h, if_pos (by omega)]; omega
  · rw [if_neg h, if_neg (by omega)]; omega

/-- Everything one needs to know about `civilFromDays z`. -/
structure Decomp (z : Int) where
  era : Int
  c : Int
  q : Int
  t : Int
  u : Int
  mp : Int
  d : Int
  hc : 0 ≤ c ∧ c ≤ 3
  hq : 0 ≤ q ∧ q ≤ 24
  ht : 0 ≤ t ∧ t ≤ 3
  hu0 : 0 ≤ u
  hu : u ≤ 364 ∨ (u = 365 ∧ t = 3 ∧ (q ≤ 23 ∨ c = 3))
  hz : z + 719468 = era * 146097 + (36524 * c + 1461 * q + 365 * t + u)
  hmp : 0 ≤ mp ∧ mp ≤ 11
  hd : 1 ≤ d
  hdoy : (153 * mp + 2) / 5 + d - 1 = u
  hlen : MonthLenOk mp d (u = 365)
  hcfd : civilFromDays z =
    (if monthOf mp ≤ 2 then 100 * c + 4 * q + t + era * 400 + 1 else 100 * c + 4 * q + t + era * 400,
     monthOf mp, d)

theorem hz_of (z era doe c q t u : Int) (h1 : z + 719468 - era * 146097 = doe)
    (h2 : doe = 36524 * c + 1461 * q + 365 * t + u) :
    z + 719468 = era * 146097 + (36524 * c + 1461 * q + 365 * t + u) := by omega

theorem u_le (u t q c : Int) (hu : u ≤ 364 ∨ (u = 365 ∧ t = 3 ∧ (q ≤ 23 ∨ c = 3))) : u ≤ 365 := by omega

theorem decomp (z : Int) : Nonempty (Decomp z) := by
  obtain ⟨era, hera⟩ : ∃ e, (z + 719468) / 146097 = e := ⟨_, rfl⟩
  obtain ⟨doe, hdoe⟩ : ∃ e, z + 719468 - era * 146097 = e := ⟨_, rfl⟩
  have hb := era_doe z
  rw [hera, hdoe] at hb
  obtain ⟨c, q, t, u, hc0, hc3, hq0, hq1, ht0, ht3, hu0, hu, hdoe', hY⟩ := yoe_core doe hb.1 hb.2
  obtain ⟨h4, h100⟩ := Y_div c q t hc0 hq0 hq1 ht0 ht3
  have hu' := doy_eq doe c q t u _ rfl h4 h100 hdoe'
  obtain ⟨mp, d, hmp, hd, hmp0, hmp1, hd1, hdoy, hlen⟩ := month_core u hu0 (u_le u t q c hu)
  have hcfd := civilFromDays_eq z era doe _ u mp hera hdoe hY hu' hmp
  rw [hd] at hcfd
  exact ⟨⟨era, c, q, t, u, mp, d, ⟨hc0, hc3⟩, ⟨hq0, hq1⟩, ⟨ht0, ht3⟩, hu0, hu, hz_of z era doe c q t u hdoe hdoe',
    ⟨hmp0, hmp1⟩, hd1, hdoy, hlen, hcfd⟩⟩

theorem era_back (Y era : Int) (h0 : 0 ≤ Y) (h1 : Y ≤ 399) :
    (Y + era * 400) / 400 = era ∧ Y + era * 400 - era * 400 = Y := by omega

theorem Y_bounds (c q t : Int) (hc : 0 ≤ c ∧ c ≤ 3) (hq : 0 ≤ q ∧ q ≤ 24) (ht : 0 ≤ t ∧ t ≤ 3) :
    0 ≤ 100 * c + 4 * q + t ∧ 100 * c + 4 * q + t ≤ 399 := by omega

theorem final_sum (z era c q t u Y : Int) (hY : Y = 100 * c + 4 * q + t) (h4 : Y / 4 = 25 * c + q) (h100 : Y / 100 = c)
    (hz : z + 719468 = era * 146097 + (36524 * c + 1461 * q + 365 * t + u)) :
    era * 146097 + (Y * 365 + Y / 4 - Y / 100 + u) - 719468 = z := by
  rw [h4, h100, hY]; omega

theorem daysFromCivil_civilFromDays (z : Int) :
    daysFromCivil (civilFromDays z).1 (civilFromDays z).2.1 (civilFromDays z).2.2 = z := by
  obtain ⟨D⟩ := decomp z
  rw [D.hcfd]
  obtain ⟨hm1, _, _, hm2⟩ := monthOf_props D.mp D.hmp.1 D.hmp.2
  obtain ⟨hY0, hY1⟩ := Y_bounds D.c D.q D.t D.hc D.hq D.ht
  obtain ⟨he1, he2⟩ := era_back _ D.era hY0 hY1
  obtain ⟨h4, h100⟩ := Y_div D.c D.q D.t D.hc.1 D.hq.1 D.hq.2 D.ht.1 D.ht.2
  have hy : (if monthOf D.mp ≤ 2 then
      (if monthOf D.mp ≤ 2 then 100 * D.c + 4 * D.q + D.t + D.era * 400 + 1 else 100 * D.c + 4 * D.q + D.t + D.era * 400) - 1
      else (if monthOf D.mp ≤ 2 then 100 * D.c + 4 * D.q + D.t + D.era * 400 + 1 else 100 * D.c + 4 * D.q + D.t + D.era * 400))
      = 100 * D.c + 4 * D.q + D.t + D.era * 400 := by
    by_cases h : monthOf D.mp ≤ 2
    · rw [if_pos h, if_pos h]; omega
    · rw [if_neg h, if_neg h]
  rw [daysFromCivil_eq _ _ _ _ D.era _ D.mp hy he1 he2 hm1, D.hdoy]
  exact final_sum z D.era D.c D.q D.t D.u _ rfl h4 h100 D.hz

/-! ### `civilFromDays` yields valid dates -/

theorem isLeap_iff (y : Int) : isLeap y = true ↔ (y % 4 = 0 ∧ (y % 100 ≠ 0 ∨ y % 400 = 0)) := by
  simp [isLeap]

theorem dim31 (y m : Int) (h : m = 1 ∨ m = 3 ∨ m = 5 ∨ m = 7 ∨ m = 8 ∨ m = 10 ∨ m = 12) :
    daysInMonth y m = 31 := by unfold daysInMonth; rw [if_pos h]

theorem dim30 (y m : Int) (h : m = 4 ∨ m = 6 ∨ m = 9 ∨ m = 11) : daysInMonth y m = 30 := by
  unfold daysInMonth; rw [if_neg (by omega), if_pos h]

theorem dimFeb (y : Int) : daysInMonth y 2 = if isLeap y then 29 else 28 := by
  unfold daysInMonth; rw [if_neg (by decide), if_neg (by decide), if_pos rfl]

theorem leap_of_decomp (era c q t : Int) (hq : 0 ≤ q ∧ q ≤ 24) (ht : t = 3) (h : q ≤ 23 ∨ c = 3) :
    isLeap (100 * c + 4 * q + t + era * 400 + 1) = true := by
  rw [isLeap_iff]; subst ht; omega

theorem civilFromDays_valid (z : Int) :
    ValidDate (civilFromDays z).1 (civilFromDays z).2.1 (civilFromDays z).2.2 := by
  obtain ⟨D⟩ := decomp z
  rw [D.hcfd]
  obtain ⟨_, hm1, hm12, _⟩ := monthOf_props D.mp D.hmp.1 D.hmp.2
  refine ⟨hm1, hm12, D.hd, ?_⟩
  have hl := D.hlen
  unfold MonthLenOk at hl
  obtain ⟨h31, h30, hfeb⟩ := hl
  have hcases : D.mp = 0 ∨ D.mp = 1 ∨ D.mp = 2 ∨ D.mp = 3 ∨ D.mp = 4 ∨ D.mp = 5 ∨ D.mp = 6 ∨ D.mp = 7 ∨
      D.mp = 8 ∨ D.mp = 9 ∨ D.mp = 10 ∨ D.mp = 11 := by have := D.hmp; omega
  show D.d ≤ daysInMonth (if monthOf D.mp ≤ 2 then 100 * D.c + 4 * D.q + D.t + D.era * 400 + 1
    else 100 * D.c + 4 * D.q + D.t + D.era * 400) (monthOf D.mp)
  rcases hcases with h | h | h | h | h | h | h | h | h | h | h | h
  · rw [dim31 _ _ (by rw [h]; decide)]; exact h31 (by omega)
  · rw [dim30 _ _ (by rw [h]; decide)]; exact h30 (by omega)
  · rw [dim31 _ _ (by rw [h]; decide)]; exact h31 (by omega)
  · rw [dim30 _ _ (by rw [h]; decide)]; exact h30 (by omega)
  · rw [dim31 _ _ (by rw [h]; decide)]; exact h31 (by omega)
  · rw [dim31 _ _ (by rw [h]; decide)]; exact h31 (by omega)
  · rw [dim30 _ _ (by rw [h]; decide)]; exact h30 (by omega)
  · rw [dim31 _ _ (by rw [h]; decide)]; exact h31 (by omega)
  · rw [dim30 _ _ (by rw [h]; decide)]; exact h30 (by omega)
  · rw [dim31 _ _ (by rw [h]; decide)]; exact h31 (by omega)
  · rw [dim31 _ _ (by rw [h]; decide)]; exact h31 (by omega)
  · have hm : monthOf D.mp = 2 := by rw [h]; decide
    rw [hm, if_pos (by decide : (2 : Int) ≤ 2), dimFeb]
    obtain ⟨h29, hx⟩ := hfeb h
    by_cases hd : D.d = 29
    · have hu := hx hd
      have hU := D.hu
      have : D.t = 3 ∧ (D.q ≤ 23 ∨ D.c = 3) := by omega
      rw [leap_of_decomp D.era D.c D.q D.t D.hq this.1 this.2, if_pos rfl]; exact h29
    · split <;> omega

/-! ### `daysFromCivil` is strictly monotone on valid dates -/

/-- first day (March 1) of the March-based year `Y`, up to the constant 719468 -/
def yearStart (Y : Int) : Int := 365 * Y + Y / 4 - Y / 100 + Y / 400

theorem era_sum (Y era yoe X : Int) (hera : Y / 400 = era) (hyoe : Y - era * 400 = yoe) :
    era * 146097 + (yoe * 365 + yoe / 4 - yoe / 100 + X) - 719468 = yearStart Y + X - 719468 := by
  unfold yearStart
  have h4 : Y / 4 = 100 * era + yoe / 4 := by omega
  have h100 : Y / 100 = 4 * era + yoe / 100 := by omega
  omega

/-- March-based year and month of a civil (year, month) -/
def marchYear (y m : Int) : Int := if m ≤ 2 then y - 1 else y
def marchMonth (m : Int) : Int := if m > 2 then m - 3 else m + 9

theorem daysFromCivil_linear (y m d : Int) :
    daysFromCivil y m d = yearStart (marchYear y m) + ((153 * marchMonth m + 2) / 5 + d - 1) - 719468 := by
  rw [daysFromCivil_eq y m d (marchYear y m) _ _ (marchMonth m) rfl rfl rfl rfl]
  exact era_sum _ _ _ _ rfl rfl

theorem march_key (y m : Int) (h1 : 1 ≤ m) (h12 : m ≤ 12) :
    12 * marchYear y m + marchMonth m = 12 * y + m - 3 ∧ 0 ≤ marchMonth m ∧ marchMonth m ≤ 11 := by
  unfold marchYear marchMonth
  by_cases h : m ≤ 2
  · rw [if_pos h, if_neg (by omega)]; omega
  · rw [if_neg h, if_pos (by omega)]; omega

theorem yearStart_mono (a b : Int) (h : a ≤ b) : yearStart a ≤ yearStart b := by
  unfold yearStart
  have h1 : a / 4 ≤ b / 4 := by omega
  have h2 : a / 400 ≤ b / 400 := by omega
  have h3 : b / 100 - a / 100 ≤ b - a := by omega
  omega

theorem yearStart_step (Y : Int) : yearStart Y + 365 ≤ yearStart (Y + 1) ∧
    (isLeap (Y + 1) = true → yearStart Y + 366 = yearStart (Y + 1)) := by
  rw [isLeap_iff]; unfold yearStart
  have h1 : (Y + 1) / 4 = Y / 4 + (if (Y + 1) % 4 = 0 then 1 else 0) := by split <;> omega
  have h2 : (Y + 1) / 100 = Y / 100 + (if (Y + 1) % 100 = 0 then 1 else 0) := by split <;> omega
  have h3 : (Y + 1) / 400 = Y / 400 + (if (Y + 1) % 400 = 0 then 1 else 0) := by split <;> omega
  rw [h1, h2, h3]
  constructor
  · split <;> split <;> split <;> omega
  · intro h; split <;> split <;> split <;> omega

theorem marchMonth_lits : marchMonth 1 = 10 ∧ marchMonth 2 = 11 ∧ marchMonth 3 = 0 ∧ marchMonth 4 = 1 ∧
    marchMonth 5 = 2 ∧ marchMonth 6 = 3 ∧ marchMonth 7 = 4 ∧ marchMonth 8 = 5 ∧ marchMonth 9 = 6 ∧
    marchMonth 10 = 7 ∧ marchMonth 11 = 8 ∧ marchMonth 12 = 9 := by decide

/-- A valid date, month by month. -/
theorem valid_cases (y m d : Int) (hv : ValidDate y m d) :
    1 ≤ d ∧ ((m = 1 ∧ d ≤ 31) ∨ (m = 2 ∧ d ≤ 28) ∨ (m = 2 ∧ d = 29 ∧ isLeap y = true) ∨ (m = 3 ∧ d ≤ 31) ∨
      (m = 4 ∧ d ≤ 30) ∨ (m = 5 ∧ d ≤ 31) ∨ (m = 6 ∧ d ≤ 30) ∨ (m = 7 ∧ d ≤ 31) ∨ (m = 8 ∧ d ≤ 31) ∨
      (m = 9 ∧ d ≤ 30) ∨ (m = 10 ∧ d ≤ 31) ∨ (m = 11 ∧ d ≤ 30) ∨ (m = 12 ∧ d ≤ 31)) := by
  obtain ⟨h1, h12, hd1, hd⟩ := hv
  refine ⟨hd1, ?_⟩
  have hm : m = 1 ∨ m = 2 ∨ m = 3 ∨ m = 4 ∨ m = 5 ∨ m = 6 ∨ m = 7 ∨ m = 8 ∨ m = 9 ∨ m = 10 ∨ m = 11 ∨ m = 12 := by omega
  rcases hm with h | h | h | h | h | h | h | h | h | h | h | h <;> subst h
  · rw [dim31 _ _ (by decide)] at hd; omega
  · rw [dimFeb] at hd
    cases hl : isLeap y
    · rw [hl] at hd; simp at hd; omega
    · rw [hl] at hd; simp at hd
      rcases (by omega : d ≤ 28 ∨ d = 29) with h | h
      · exact Or.inr (Or.inl ⟨rfl, h⟩)
      · exact Or.inr (Or.inr (Or.inl ⟨rfl, h, rfl⟩))
  · rw [dim31 _ _ (by decide)] at hd; omega
  · rw [dim30 _ _ (by decide)] at hd; omega
  · rw [dim31 _ _ (by decide)] at hd; omega
  · rw [dim30 _ _ (by decide)] at hd; omega
  · rw [dim31 _ _ (by decide)] at hd; omega
  · rw [dim31 _ _ (by decide)] at hd; omega
  · rw [dim30 _ _ (by decide)] at hd; omega
  · rw [dim31 _ _ (by decide)] at hd; omega
  · rw [dim30 _ _ (by decide)] at hd; omega
  · rw [dim31 _ _ (by decide)] at hd; omega

/-- the day-of-year of a valid date lies inside its March-based year -/
theorem valid_doy (y m d : Int) (hv : ValidDate y m d) :
    0 ≤ (153 * marchMonth m + 2) / 5 + d - 1 ∧
    yearStart (marchYear y m) + ((153 * marchMonth m + 2) / 5 + d - 1) < yearStart (marchYear y m + 1) := by
  obtain ⟨hd1, hc⟩ := valid_cases y m d hv
  have hs := yearStart_step (marchYear y m)
  rcases hc with ⟨h, hd⟩ | ⟨h, hd⟩ | ⟨h, hd, hl⟩ | ⟨h, hd⟩ | ⟨h, hd⟩ | ⟨h, hd⟩ | ⟨h, hd⟩ | ⟨h, hd⟩ | ⟨h, hd⟩ |
      ⟨h, hd⟩ | ⟨h, hd⟩ | ⟨h, hd⟩ | ⟨h, hd⟩ <;> subst h
  case inr.inr.inl =>
    have hy : marchYear y 2 + 1 = y := by unfold marchYear; rw [if_pos (by decide)]; omega
    rw [hy] at hs ⊢
    have := hs.2 hl
    have hmm : marchMonth 2 = 11 := by decide
    rw [hmm]; omega
  all_goals
    obtain ⟨e1, e2, e3, e4, e5, e6, e7, e8, e9, e10, e11, e12⟩ := marchMonth_lits
    simp only [e1, e2, e3, e4, e5, e6, e7, e8, e9, e10, e11, e12]; omega

/-- inside one March-based year, the day-of-year grows with (month, day) -/
theorem doy_lt (y m1 d1 m2 d2 : Int) (hv : ValidDate y m1 d1) (hd2 : 1 ≤ d2) (h2 : marchMonth m2 ≤ 11)
    (hlt : marchMonth m1 < marchMonth m2) :
    (153 * marchMonth m1 + 2) / 5 + d1 - 1 < (153 * marchMonth m2 + 2) / 5 + d2 - 1 := by
  obtain ⟨hd1, hc⟩ := valid_cases y m1 d1 hv
  generalize marchMonth m2 = mp2 at *
  rcases hc with ⟨h, hd⟩ | ⟨h, hd⟩ | ⟨h, hd, hl⟩ | ⟨h, hd⟩ | ⟨h, hd⟩ | ⟨h, hd⟩ | ⟨h, hd⟩ | ⟨h, hd⟩ | ⟨h, hd⟩ |
      ⟨h, hd⟩ | ⟨h, hd⟩ | ⟨h, hd⟩ | ⟨h, hd⟩ <;> subst h
  all_goals
    obtain ⟨e1, e2, e3, e4, e5, e6, e7, e8, e9, e10, e11, e12⟩ := marchMonth_lits
    simp only [e1, e2, e3, e4, e5, e6, e7, e8, e9, e10, e11, e12] at hlt ⊢; omega

theorem lex_transfer (y1 m1 y2 m2 Y1 p1 Y2 p2 : Int)
    (k1 : 12 * Y1 + p1 = 12 * y1 + m1 - 3 ∧ 0 ≤ p1 ∧ p1 ≤ 11)
    (k2 : 12 * Y2 + p2 = 12 * y2 + m2 - 3 ∧ 0 ≤ p2 ∧ p2 ≤ 11)
    (hm1 : 1 ≤ m1 ∧ m1 ≤ 12) (hm2 : 1 ≤ m2 ∧ m2 ≤ 12) :
    (y1 < y2 ∨ (y1 = y2 ∧ m1 < m2) → Y1 < Y2 ∨ (Y1 = Y2 ∧ p1 < p2)) ∧
    (y1 = y2 ∧ m1 = m2 → Y1 = Y2 ∧ p1 = p2) := by omega

theorem chainA (a b c _d x1 x2 k : Int) (h1 : a + x1 < b) (h2 : b ≤ c) (h3 : 0 ≤ x2) :
    a + x1 - k < c + x2 - k := by omega

theorem daysFromCivil_strictMono (y1 m1 d1 y2 m2 d2 : Int) (hv1 : ValidDate y1 m1 d1)
    (hv2 : ValidDate y2 m2 d2) (hlt : dateLt (y1, m1, d1) (y2, m2, d2)) :
    daysFromCivil y1 m1 d1 < daysFromCivil y2 m2 d2 := by
  rw [daysFromCivil_linear, daysFromCivil_linear]
  have k1 := march_key y1 m1 hv1.1 hv1.2.1
  have k2 := march_key y2 m2 hv2.1 hv2.2.1
  obtain ⟨tr1, tr2⟩ := lex_transfer y1 m1 y2 m2 _ _ _ _ k1 k2 ⟨hv1.1, hv1.2.1⟩ ⟨hv2.1, hv2.2.1⟩
  have hd1 := valid_doy y1 m1 d1 hv1
  have hd2 := valid_doy y2 m2 d2 hv2
  unfold dateLt at hlt
  simp only at hlt
  rcases hlt with h | ⟨hy, h | ⟨hm, hd⟩⟩
  · rcases tr1 (Or.inl h) with hY | ⟨hY, hp⟩
    · exact chainA _ _ _ 0 _ _ _ hd1.2 (yearStart_mono _ _ (by omega)) hd2.1
    · rw [hY]
      have := doy_lt y1 m1 d1 m2 d2 hv1 hv2.2.2.1 k2.2.2 hp
      omega
  · rcases tr1 (Or.inr ⟨hy, h⟩) with hY | ⟨hY, hp⟩
    · exact chainA _ _ _ 0 _ _ _ hd1.2 (yearStart_mono _ _ (by omega)) hd2.1
    · rw [hY]
      have := doy_lt y1 m1 d1 m2 d2 hv1 hv2.2.2.1 k2.2.2 hp
      omega
  · obtain ⟨hY, hp⟩ := tr2 ⟨hy, hm⟩
    rw [hY, hp]; omega

/-- `civilFromDays ∘ daysFromCivil = id` on valid dates -/
theorem civilFromDays_daysFromCivil (y m d : Int) (hv : ValidDate y m d) :
    civilFromDays (daysFromCivil y m d) = (y, m, d) := by
  have hback := daysFromCivil_civilFromDays (daysFromCivil y m d)
  have hval := civilFromDays_valid (daysFromCivil y m d)
  generalize civilFromDays (daysFromCivil y m d) = r at *
  obtain ⟨y', m', d'⟩ := r
  simp only at hback hval
  by_cases h1 : dateLt (y', m', d') (y, m, d)
  · have := daysFromCivil_strictMono _ _ _ _ _ _ hval hv h1; omega
  · by_cases h2 : dateLt (y, m, d) (y', m', d')
    · have := daysFromCivil_strictMono _ _ _ _ _ _ hv hval h2; omega
    · unfold dateLt at h1 h2
      simp only at h1 h2
      have : y' = y ∧ m' = m ∧ d' = d := by omega
      obtain ⟨rfl, rfl, rfl⟩ := this; rfl

end Umya.Lemmas.Calendar
