/-
  Helper lemmas for C15 (and the KDF part of C14): the model's encodings agree with the ones the
  specification defines independently; attribute lookup on written attribute lists.
-/
import Umya.Model.PwHash
import Umya.Spec.PwHash
namespace Umya.PwHash
open Umya.Crypto Umya.Dec

theorem le32_eq_leBytes (n : Nat) : le32 n = Umya.Spec.PwHash.leBytes 4 n := by
  simp [le32, Umya.Spec.PwHash.leBytes, Nat.div_div_eq_div_mul]

theorem utf16le_eq (s : List Char) : utf16le s = Umya.Spec.PwHash.utf16le s := by
  induction s with
  | nil => rfl
  | cons c cs ih =>
    have hc : utf16le (c :: cs) = utf16le [c] ++ utf16le cs := by
      simp [utf16le]
    rw [hc, Umya.Spec.PwHash.utf16le, ih]
    congr 1
    simp only [utf16le, utf16Units, List.flatMap_cons, List.flatMap_nil, List.append_nil]
    split <;> simp [Umya.Spec.PwHash.leBytes]

/-! ### XML-safe text -/

def xmlSafe (c : Char) : Bool := !(c == '<' || c == '>' || c == '&' || c == '\'' || c == '"')

theorem escapeChar_safe (c : Char) (h : xmlSafe c = true) : escapeChar c = [c] := by
  unfold xmlSafe at h
  simp only [Bool.not_eq_true', Bool.or_eq_false_iff, beq_eq_false_iff_ne, ne_eq] at h
  obtain ⟨⟨⟨⟨h1, h2⟩, h3⟩, h4⟩, h5⟩ := h
  simp [escapeChar, h1, h2, h3, h4, h5]

theorem escape_safe (s : List Char) (h : s.all xmlSafe = true) : escape s = s := by
  induction s with
  | nil => rfl
  | cons c cs ih =>
    simp only [List.all_cons, Bool.and_eq_true] at h
    simp only [escape, List.flatMap_cons] at ih ⊢
    rw [escapeChar_safe c h.1, ih h.2]
    rfl

theorem isDigit_safe (c : Char) (h : isDigit c = true) : xmlSafe c = true := by
  unfold isDigit at h
  simp only [Bool.and_eq_true, decide_eq_true_eq] at h
  unfold xmlSafe
  simp only [Bool.not_eq_true', Bool.or_eq_false_iff, beq_eq_false_iff_ne, ne_eq]
  refine ⟨⟨⟨⟨?_, ?_⟩, ?_⟩, ?_⟩, ?_⟩ <;> (intro hc; subst hc; revert h; decide)

theorem decDigits_safe (n : Nat) : (decDigits n).all xmlSafe = true := by
  have h := decDigits_all_digit n
  rw [List.all_eq_true] at h ⊢
  intro c hc
  exact isDigit_safe c (h c hc)

def safeOpt : Option (List Char) → Bool
  | some s => s.all xmlSafe
  | none => true

/-- the values of one kind survive `escape` unchanged and the spin count fits `u32` -/
def PwFields.safe (f : PwFields) : Bool :=
  safeOpt f.algorithmName && safeOpt f.hashValue && safeOpt f.saltValue && safeOpt f.password &&
  (match f.spinCount with | some n => decide (n < 4294967296) | none => true)

/-! ### attribute lookup -/

theorem getAttribute_nil (key : List Char) : getAttribute [] key = none := rfl

/-- value found for a name whose optional attribute comes first: the (escaped) value, else `alt` -/
def pick (v : Option (List Char)) (alt : Option (List Char)) : Option (List Char) :=
  match v with
  | some x => some (escape x)
  | none => alt

theorem getAttribute_optAttr_append (n key : List Char) (v : Option (List Char)) (rest : List Attr) :
    getAttribute (optAttr n v ++ rest) key =
      if n == key then pick v (getAttribute rest key) else getAttribute rest key := by
  cases v with
  | none => simp [optAttr, pick]
  | some x =>
    by_cases h : (n == key) = true
    · simp [optAttr, getAttribute, h, pick]
    · simp only [Bool.not_eq_true] at h
      simp [optAttr, getAttribute, h]

theorem pick_safe (v : Option (List Char)) (h : safeOpt v = true) : pick v none = v := by
  cases v with
  | none => rfl
  | some x =>
    simp only [safeOpt] at h
    simp only [pick, escape_safe x h]

theorem readSpin (v : Option Nat)
    (h : (match v with | some n => decide (n < 4294967296) | none => true) = true) :
    (match pick (v.map decDigits) none with
      | none => some none
      | some s => (parseU32 s).map some) = some v := by
  cases v with
  | none => rfl
  | some n =>
    simp only [decide_eq_true_eq] at h
    simp only [Option.map_some, pick, escape_safe _ (decDigits_safe n), parseU32_decDigits n h]

/-! ### the concrete attribute names -/
@[simp] theorem sheetNames_alg : sheetNames.alg = "algorithmName".toList := rfl
@[simp] theorem sheetNames_hash : sheetNames.hash = "hashValue".toList := rfl
@[simp] theorem sheetNames_salt : sheetNames.salt = "saltValue".toList := rfl
@[simp] theorem sheetNames_spin : sheetNames.spin = "spinCount".toList := rfl
@[simp] theorem sheetNames_password : sheetNames.password = "password".toList := rfl
@[simp] theorem workbookNames_alg : workbookNames.alg = "workbookAlgorithmName".toList := rfl
@[simp] theorem workbookNames_hash : workbookNames.hash = "workbookHashValue".toList := rfl
@[simp] theorem workbookNames_salt : workbookNames.salt = "workbookSaltValue".toList := rfl
@[simp] theorem workbookNames_spin : workbookNames.spin = "workbookSpinCount".toList := rfl
@[simp] theorem workbookNames_password : workbookNames.password = "workbookPassword".toList := rfl
@[simp] theorem revisionsNames_alg : revisionsNames.alg = "revisionsAlgorithmName".toList := rfl
@[simp] theorem revisionsNames_hash : revisionsNames.hash = "revisionsHashValue".toList := rfl
@[simp] theorem revisionsNames_salt : revisionsNames.salt = "revisionsSaltValue".toList := rfl
@[simp] theorem revisionsNames_spin : revisionsNames.spin = "revisionsSpinCount".toList := rfl
@[simp] theorem revisionsNames_password : revisionsNames.password = "revisionsPassword".toList := rfl

theorem getAttribute_optAttr (n key : List Char) (v : Option (List Char)) :
    getAttribute (optAttr n v) key = if n == key then pick v none else none := by
  have h := getAttribute_optAttr_append n key v []
  simpa [getAttribute_nil] using h

theorem readFields_sheet (f : PwFields) (h : f.safe = true) :
    readFields sheetNames (writeFields sheetNames f) = some f := by
  obtain ⟨a, b, c, d, e⟩ := f
  simp only [PwFields.safe, Bool.and_eq_true] at h
  obtain ⟨⟨⟨⟨ha, hb⟩, hc⟩, he⟩, hd⟩ := h
  simp only [readFields, writeFields, List.append_assoc, getAttribute_optAttr_append,
    getAttribute_optAttr, sheetNames_alg, sheetNames_hash, sheetNames_salt, sheetNames_spin,
    sheetNames_password]
  simp [pick_safe _ ha, pick_safe _ hb, pick_safe _ hc, pick_safe _ he]
  exact readSpin d hd

theorem readFields_workbook (f g : PwFields) (h : f.safe = true) :
    readFields workbookNames (writeFields workbookNames f ++ writeFields revisionsNames g) = some f := by
  obtain ⟨a, b, c, d, e⟩ := f
  simp only [PwFields.safe, Bool.and_eq_true] at h
  obtain ⟨⟨⟨⟨ha, hb⟩, hc⟩, he⟩, hd⟩ := h
  simp only [readFields, writeFields, List.append_assoc, getAttribute_optAttr_append,
    getAttribute_optAttr, workbookNames_alg, workbookNames_hash, workbookNames_salt, workbookNames_spin,
    workbookNames_password, revisionsNames_alg, revisionsNames_hash, revisionsNames_salt,
    revisionsNames_spin, revisionsNames_password]
  simp [pick_safe _ ha, pick_safe _ hb, pick_safe _ hc, pick_safe _ he]
  exact readSpin d hd

theorem readFields_revisions (f g : PwFields) (h : g.safe = true) :
    readFields revisionsNames (writeFields workbookNames f ++ writeFields revisionsNames g) = some g := by
  obtain ⟨a, b, c, d, e⟩ := g
  simp only [PwFields.safe, Bool.and_eq_true] at h
  obtain ⟨⟨⟨⟨ha, hb⟩, hc⟩, he⟩, hd⟩ := h
  simp only [readFields, writeFields, List.append_assoc, getAttribute_optAttr_append,
    getAttribute_optAttr, workbookNames_alg, workbookNames_hash, workbookNames_salt, workbookNames_spin,
    workbookNames_password, revisionsNames_alg, revisionsNames_hash, revisionsNames_salt,
    revisionsNames_spin, revisionsNames_password]
  simp [pick_safe _ ha, pick_safe _ hb, pick_safe _ hc, pick_safe _ he]
  exact readSpin d hd

/-- names of the attributes `writeFields` emits -/
theorem writeFields_names (n : Names) (f : PwFields) (a : Attr) (ha : a ∈ writeFields n f) :
    a.1 = n.alg ∨ a.1 = n.hash ∨ a.1 = n.salt ∨ a.1 = n.spin ∨ (a.1 = n.password ∧ f.password.isSome = true) := by
  obtain ⟨x1, x2, x3, x4, x5⟩ := f
  simp only [writeFields, List.mem_append] at ha
  rcases ha with (((h | h) | h) | h) | h
  · cases x1 <;> simp_all [optAttr]
  · cases x2 <;> simp_all [optAttr]
  · cases x3 <;> simp_all [optAttr]
  · cases x4 <;> simp_all [optAttr]
  · cases x5 <;> simp_all [optAttr]

end Umya.PwHash
