/-
  Helper lemmas for C20: the UTF-16 encoders of the CSV model are inverted by the strict decoder.
-/
import Umya.Model.Csv
namespace Umya.Lemmas.Utf16
open Umya.Csv

theorem char_range (c : Char) : c.toNat < 0xD800 ∨ (0xDFFF < c.toNat ∧ c.toNat < 0x110000) := by
  have := c.valid
  simpa [UInt32.isValidChar, Nat.isValidChar] using this

theorem toNat_ofNat_lt (n : Nat) (h : n < 256) : (UInt8.ofNat n).toNat = n :=
  UInt8.toNat_ofNat_of_lt' (by simpa [UInt8.size] using h)

/-- every unit of `encode_utf16` fits 16 bits -/
theorem utf16Units_lt (c : Char) : ∀ u ∈ utf16Units c, u < 65536 := by
  have hc := char_range c
  intro u hu
  unfold utf16Units at hu
  split at hu
  · simp at hu; omega
  · simp at hu; omega

theorem unitsOfBytes_unitBytes (be : Bool) (us : List Nat) (h : ∀ u ∈ us, u < 65536) :
    unitsOfBytes be (us.flatMap (unitBytes be)) = some us := by
  induction us with
  | nil => simp [unitsOfBytes]
  | cons u us ih =>
    have hu : u < 65536 := h u (by simp)
    have ih' := ih (fun x hx => h x (by simp [hx]))
    have h1 : (UInt8.ofNat (u / 256)).toNat = u / 256 := toNat_ofNat_lt _ (by omega)
    have h2 : (UInt8.ofNat (u % 256)).toNat = u % 256 := toNat_ofNat_lt _ (by omega)
    cases be
    · simp only [List.flatMap_cons, unitBytes, Bool.false_eq_true, if_false, List.cons_append, List.nil_append,
        unitsOfBytes] at ih' ⊢
      rw [ih']
      simp only [h1, h2]
      congr 2; omega
    · simp only [List.flatMap_cons, unitBytes, if_true, List.cons_append, List.nil_append, unitsOfBytes] at ih' ⊢
      rw [ih']
      simp only [h1, h2]
      congr 2; omega

theorem utf16Units_bmp (c : Char) (h : c.toNat < 0x10000) : utf16Units c = [c.toNat] := by
  simp [utf16Units, h]

theorem utf16Units_astral (c : Char) (h : ¬ c.toNat < 0x10000) :
    utf16Units c = [0xD800 + (c.toNat - 0x10000) / 0x400, 0xDC00 + (c.toNat - 0x10000) % 0x400] := by
  simp [utf16Units, h]

theorem charsOfUnits_utf16Units (s : Text) : charsOfUnits (s.flatMap utf16Units) = some s := by
  induction s with
  | nil => simp [charsOfUnits]
  | cons c s ih =>
    have hc := char_range c
    simp only [List.flatMap_cons]
    by_cases hb : c.toNat < 0x10000
    · rw [utf16Units_bmp c hb]
      simp only [List.cons_append, List.nil_append]
      unfold charsOfUnits
      have : c.toNat < 0xD800 ∨ 0xE000 ≤ c.toNat := by omega
      rw [if_pos this, ih, Char.ofNat_toNat]
    · rw [utf16Units_astral c hb]
      simp only [List.cons_append, List.nil_append]
      unfold charsOfUnits
      have h1 : ¬ (0xD800 + (c.toNat - 0x10000) / 0x400 < 0xD800 ∨ 0xE000 ≤ 0xD800 + (c.toNat - 0x10000) / 0x400) := by omega
      have h2 : 0xD800 + (c.toNat - 0x10000) / 0x400 < 0xDC00 := by omega
      have h3 : 0xDC00 ≤ 0xDC00 + (c.toNat - 0x10000) % 0x400 ∧ 0xDC00 + (c.toNat - 0x10000) % 0x400 < 0xE000 := by omega
      have h4 : 0x10000 + (0xD800 + (c.toNat - 0x10000) / 0x400 - 0xD800) * 0x400
          + (0xDC00 + (c.toNat - 0x10000) % 0x400 - 0xDC00) = c.toNat := by omega
      rw [if_neg h1, if_pos h2]
      simp only [if_pos h3, ih, h4, Char.ofNat_toNat]

theorem flatMap_flatMap_units (be : Bool) (s : Text) :
    encodeUtf16 be s = (s.flatMap utf16Units).flatMap (unitBytes be) := by
  unfold encodeUtf16
  induction s with
  | nil => rfl
  | cons c s ih => simp [List.flatMap_cons, List.flatMap_append, ih]

theorem decode_encode (be : Bool) (s : Text) : decodeUtf16 be (encodeUtf16 be s) = some s := by
  unfold decodeUtf16
  rw [flatMap_flatMap_units, unitsOfBytes_unitBytes]
  · exact charsOfUnits_utf16Units s
  · intro u hu
    rw [List.mem_flatMap] at hu
    obtain ⟨c, _, hc⟩ := hu
    exact utf16Units_lt c u hc

end Umya.Lemmas.Utf16
