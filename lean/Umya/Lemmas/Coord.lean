/-
  Helper lemmas about the coordinate codecs (`Umya.Model.Coord`).
-/
import Umya.Model.Coord
namespace Umya.Coord
open Umya.Dec

/-! ### letters -/

theorem letter_toNat (d : Nat) : (letter d).toNat = 65 + d % 26 := by
  have : ∀ k : Fin 26, (Char.ofNat (65 + k.val)).toNat = 65 + k.val := by decide
  exact this ⟨d % 26, Nat.mod_lt _ (by decide)⟩

theorem isUpperAZ_letter (d : Nat) : isUpperAZ (letter d) = true := by
  have h := letter_toNat d
  have : d % 26 < 26 := Nat.mod_lt _ (by decide)
  simp [isUpperAZ, h]; omega

theorem isUpperAZ_iff (c : Char) : isUpperAZ c = true ↔ 65 ≤ c.toNat ∧ c.toNat ≤ 90 := by
  simp [isUpperAZ]

theorem letter_of_upper (c : Char) (h : isUpperAZ c = true) (k : Nat)
    (hk : k % 26 = c.toNat - 65) : letter k = c := by
  have h' := (isUpperAZ_iff c).1 h
  apply Char.toNat_inj.1 ?_ |> fun x => x
  rw [letter_toNat, hk]; omega

theorem upcase_upper (c : Char) (h : isUpperAZ c = true) : upcase c = c := by
  have h' := (isUpperAZ_iff c).1 h
  have : isLowerAZ c = false := by simp [isLowerAZ]; omega
  simp [upcase, this]

/-! ### `alphaRev` -/

/-- value of a little-endian bijective base-26 numeral -/
def valRev : List Char → Nat
  | [] => 0
  | c :: r => (c.toNat - 65 + 1) + 26 * valRev r

theorem valRev_alphaRev (v : Nat) : valRev (alphaRev v) = v + 1 := by
  induction v using Nat.strongRecOn with
  | _ v ih =>
    rw [alphaRev]
    split
    · rename_i h
      simp only [valRev, letter_toNat]; omega
    · rename_i h
      simp only [valRev, letter_toNat, ih (v / 26 - 1) (by omega)]; omega

theorem alphaRev_all_upper (v : Nat) : (alphaRev v).all isUpperAZ = true := by
  induction v using Nat.strongRecOn with
  | _ v ih =>
    rw [alphaRev]
    split
    · simp [isUpperAZ_letter]
    · rename_i h
      simp only [List.all_cons, isUpperAZ_letter, ih (v / 26 - 1) (by omega), Bool.and_self]

theorem alphaRev_ne_nil (v : Nat) : alphaRev v ≠ [] := by
  rw [alphaRev]; split <;> simp

theorem alphaRev_length_le3 (v : Nat) (h : v < 18278) : (alphaRev v).length ≤ 3 := by
  rw [alphaRev]; split
  · simp
  · rw [alphaRev]; split
    · simp
    · rw [alphaRev]; split
      · simp
      · omega

theorem alphaRev_length_pos (v : Nat) : 1 ≤ (alphaRev v).length := by
  rw [alphaRev]; split <;> simp

theorem foldl_eq_valRev (s : List Char) :
    alphaToIndexGen s.reverse = valRev s := by
  induction s with
  | nil => rfl
  | cons c r ih =>
    simp only [alphaToIndexGen, List.reverse_cons, List.foldl_append, List.foldl_cons,
      List.foldl_nil, valRev]
    simp only [alphaToIndexGen] at ih
    rw [ih]; omega

theorem valRev_pos (s : List Char) (h : s ≠ []) : 1 ≤ valRev s := by
  cases s with
  | nil => exact absurd rfl h
  | cons c r => simp [valRev]; omega

/-- the printer inverts the positional value on every non-empty upper-case numeral -/
theorem alphaRev_valRev (s : List Char) (hu : s.all isUpperAZ = true) (hne : s ≠ []) :
    alphaRev (valRev s - 1) = s := by
  induction s with
  | nil => exact absurd rfl hne
  | cons c r ih =>
    simp only [List.all_cons, Bool.and_eq_true] at hu
    have hc := (isUpperAZ_iff c).1 hu.1
    by_cases hr : r = []
    · subst hr
      simp only [valRev]
      rw [alphaRev, if_pos (by omega), letter_of_upper c hu.1 _ (by omega)]
    · have hp := valRev_pos r hr
      have e : (valRev (c :: r) - 1) / 26 - 1 = valRev r - 1 := by simp only [valRev]; omega
      rw [alphaRev, if_neg (by simp only [valRev]; omega), e, ih hu.2 hr,
        letter_of_upper c hu.1 _ (by simp only [valRev]; omega)]

/-! ### the three-letter table version -/

theorem go_eq (cs : List Char) (i acc : Nat) :
    alphaToIndex.go cs i acc = acc + 26 ^ i * valRev cs := by
  induction cs generalizing i acc with
  | nil => simp [alphaToIndex.go, valRev]
  | cons c r ih =>
    simp only [alphaToIndex.go, valRev, ih]
    rw [Nat.pow_succ]
    generalize 26 ^ i = p
    generalize valRev r = q
    generalize c.toNat - 65 + 1 = d
    rw [Nat.mul_add, Nat.add_assoc]
    congr 1
    rw [Nat.mul_assoc, Nat.mul_comm 26 q, ← Nat.mul_assoc]

theorem map_upcase_upper (s : List Char) (h : s.all isUpperAZ = true) : s.map upcase = s := by
  induction s with
  | nil => rfl
  | cons c r ih =>
    simp only [List.all_cons, Bool.and_eq_true] at h
    simp [upcase_upper c h.1, ih h.2]

theorem alphaToIndex_upper (s : List Char) (hu : s.all isUpperAZ = true) (hl : s.length ≤ 3) :
    alphaToIndex s = .ok (valRev s.reverse) := by
  unfold alphaToIndex
  simp only [map_upcase_upper s hu]
  have h1 : ¬ s.length > 3 := by omega
  have h2 : s.any (fun c => decide (c.toNat < 65)) = false := by
    rw [List.any_eq_false]
    intro c hc
    have := (isUpperAZ_iff c).1 (List.all_eq_true.1 hu c hc)
    simp; omega
  simp [h1, h2, go_eq]

/-! ### the regex pieces -/

theorem takeUpper_append (n : Nat) (ls rest : List Char) (hu : ls.all isUpperAZ = true)
    (hl : ls.length ≤ n)
    (hr : ls.length = n ∨ rest = [] ∨ ∃ c r, rest = c :: r ∧ isUpperAZ c = false) :
    takeUpper n (ls ++ rest) = (ls, rest) := by
  induction ls generalizing n with
  | nil =>
    cases n with
    | zero => simp [takeUpper]
    | succ n =>
      rcases hr with h | h | ⟨c, r, h, hc⟩
      · simp at h
      · simp [h, takeUpper]
      · simp [h, takeUpper, hc]
  | cons c r ih =>
    cases n with
    | zero => simp at hl
    | succ n =>
      simp only [List.all_cons, Bool.and_eq_true] at hu
      simp only [List.cons_append, takeUpper, hu.1, if_true]
      have := ih n hu.2 (by simpa using hl) (by
        rcases hr with h | h | h
        · left; simpa using h
        · right; left; exact h
        · right; right; exact h)
      rw [this]

theorem takeWhile_digits_append (ds rest : List Char) (hd : ds.all isDigit = true)
    (hr : rest = [] ∨ ∃ c r, rest = c :: r ∧ isDigit c = false) :
    (ds ++ rest).takeWhile isDigit = ds := by
  induction ds with
  | nil =>
    rcases hr with h | ⟨c, r, h, hc⟩
    · simp [h]
    · simp [h, List.takeWhile, hc]
  | cons d r ih =>
    simp only [List.all_cons, Bool.and_eq_true] at hd
    simp [List.takeWhile, hd.1, ih hd.2]

theorem isDigit_not_upper (c : Char) (h : isDigit c = true) : isUpperAZ c = false := by
  simp [isDigit] at h
  simp [isUpperAZ]; omega

theorem decDigits_head (n : Nat) : ∃ c r, decDigits n = c :: r ∧ isDigit c = true := by
  have hall := decDigits_all_digit n
  cases h : decDigits n with
  | nil => exact absurd h (decDigits_ne_nil n)
  | cons c r =>
    rw [h] at hall
    simp only [List.all_cons, Bool.and_eq_true] at hall
    exact ⟨c, r, rfl, hall.1⟩

theorem indexToAlpha_upper (n : Nat) : (indexToAlpha n).all isUpperAZ = true := by
  simp [indexToAlpha, List.all_reverse, alphaRev_all_upper]

theorem indexToAlpha_head (n : Nat) : ∃ c r, indexToAlpha n = c :: r ∧ isUpperAZ c = true := by
  have hall := indexToAlpha_upper n
  cases h : indexToAlpha n with
  | nil =>
    exfalso
    have : (alphaRev (n - 1)).reverse = [] := h
    simp at this
    exact alphaRev_ne_nil _ this
  | cons c r =>
    rw [h] at hall
    simp only [List.all_cons, Bool.and_eq_true] at hall
    exact ⟨c, r, rfl, hall.1⟩

theorem alphaVal_indexToAlpha (n : Nat) (h : 1 ≤ n) : alphaVal (indexToAlpha n) = n := by
  simp only [alphaVal, indexToAlpha, foldl_eq_valRev, valRev_alphaRev]; omega

/-! ### the two regex groups on printed references -/

theorem matchColGroup_nil : matchColGroup [] = none := by
  simp [matchColGroup, takeUpTo3Upper, takeUpper]

theorem matchRowGroup_nil : matchRowGroup [] = none := by
  simp [matchRowGroup]

theorem rowRefText_head (x : Ref) : ∃ ch rs, rowRefText x = ch :: rs ∧ isUpperAZ ch = false := by
  obtain ⟨d, ds, hd, hdig⟩ := decDigits_head x.num
  cases hl : x.lock
  · exact ⟨d, ds, by simp [rowRefText, hl, hd], isDigit_not_upper d hdig⟩
  · exact ⟨'$', decDigits x.num, by simp [rowRefText, hl], by decide⟩

theorem takeWhile_decDigits (n : Nat) : (decDigits n).takeWhile isDigit = decDigits n := by
  have := takeWhile_digits_append (decDigits n) [] (decDigits_all_digit _) (Or.inl rfl)
  simpa using this

theorem decDigits_isEmpty (n : Nat) : (decDigits n).isEmpty = false := by
  cases h : decDigits n with
  | nil => exact absurd h (decDigits_ne_nil _)
  | cons _ _ => rfl

theorem matchRowGroup_rowText (x : Ref) (_h : x.num < 4294967296) :
    matchRowGroup (rowRefText x) = some (x.lock, decDigits x.num) := by
  obtain ⟨d, ds, hd, hdig⟩ := decDigits_head x.num
  cases hl : x.lock
  · have hnd : d ≠ '$' := by intro h; subst h; simp [isDigit] at hdig
    simp only [rowRefText, hl, Bool.false_eq_true, if_false, List.nil_append]
    unfold matchRowGroup
    split
    · rename_i heq; rw [hd] at heq; injection heq with h1 _; exact absurd h1 hnd
    · simp [takeWhile_decDigits, decDigits_isEmpty]
  · simp only [rowRefText, hl, if_true, List.cons_append, List.nil_append]
    unfold matchRowGroup
    simp [takeWhile_decDigits, decDigits_isEmpty]

theorem matchColGroup_rowText (x : Ref) : matchColGroup (rowRefText x) = none := by
  obtain ⟨d, ds, hd, hdig⟩ := decDigits_head x.num
  have hnu := isDigit_not_upper d hdig
  cases hl : x.lock
  · have hnd : d ≠ '$' := by intro h; subst h; simp [isDigit] at hdig
    simp only [rowRefText, hl, Bool.false_eq_true, if_false, List.nil_append, hd]
    unfold matchColGroup
    split
    · rename_i heq; injection heq with h1 _; exact absurd h1 hnd
    · simp [takeUpTo3Upper, takeUpper, hnu]
  · simp only [rowRefText, hl, if_true, List.cons_append, List.nil_append, hd]
    unfold matchColGroup
    simp [takeUpTo3Upper, takeUpper, hnu]

theorem matchColGroup_colText (y : Ref) (rest : List Char) (hy : 1 ≤ y.num ∧ y.num ≤ 18278)
    (hrest : rest = [] ∨ ∃ ch rs, rest = ch :: rs ∧ isUpperAZ ch = false) :
    matchColGroup (colRefText y ++ rest) = some (y.lock, indexToAlpha y.num, rest) := by
  have hup := indexToAlpha_upper y.num
  have hlen : (indexToAlpha y.num).length ≤ 3 := by
    simp only [indexToAlpha, List.length_reverse]; exact alphaRev_length_le3 _ (by omega)
  have htake : takeUpTo3Upper (indexToAlpha y.num ++ rest) = (indexToAlpha y.num, rest) :=
    takeUpper_append 3 _ _ hup hlen (Or.inr hrest)
  obtain ⟨a, as, has, haup⟩ := indexToAlpha_head y.num
  have hne : (indexToAlpha y.num).isEmpty = false := by rw [has]; rfl
  cases hl : y.lock
  · have hna : a ≠ '$' := by intro h; subst h; simp [isUpperAZ] at haup
    simp only [colRefText, hl, Bool.false_eq_true, if_false, List.nil_append]
    unfold matchColGroup
    split
    · rename_i heq; rw [has] at heq; injection heq with h1 _; exact absurd h1 hna
    · simp [htake, hne]
  · simp only [colRefText, hl, if_true, List.cons_append, List.nil_append]
    unfold matchColGroup
    simp [htake, hne]

end Umya.Coord
