/-
  Coherence under the compound operations and under `step`.
-/
import Umya.Lemmas.Coherent2
namespace Umya.Sheet
open Umya.Coord (Res)

theorem foldl_coherent {α} (f : Sheet → α → Sheet) (l : List α) (s : Sheet)
    (hf : ∀ s x, Coherent s → Coherent (f s x)) (h : Coherent s) : Coherent (l.foldl f s) := by
  induction l generalizing s with
  | nil => exact h
  | cons x xs ih => exact ih _ (hf s x h)

theorem setVal_coherent (s : Sheet) (c r v : Nat) (h : Coherent s) : Coherent (setVal s c r v) :=
  modify_coherent _ _ _ _ (fun _ => ⟨rfl, rfl⟩) (getMut_coherent s c r h)

theorem setStyle_coherent (s : Sheet) (c r v : Nat) (h : Coherent s) : Coherent (setStyle s c r v) :=
  modify_coherent _ _ _ _ (fun _ => ⟨rfl, rfl⟩) (getMut_coherent s c r h)

theorem setCell_coherent (s : Sheet) (c r v st : Nat) (h : Coherent s) : Coherent (setCell s c r v st) :=
  modify_coherent _ _ _ _ (fun _ => ⟨rfl, rfl⟩) (getMut_coherent s c r h)

theorem setStyleRect_coherent (s : Sheet) (rs re cs ce st : Nat) (h : Coherent s) :
    Coherent (setStyleRect s rs re cs ce st) := by
  unfold setStyleRect
  apply foldl_coherent _ _ _ _ h
  intro s r hs
  apply foldl_coherent _ _ _ _ hs
  intro s c hs
  exact setStyle_coherent s c r st hs

theorem copyCellStyling_coherent (s : Sheet) (a b c d : Nat) (h : Coherent s) :
    Coherent (copyCellStyling s a b c d) := setStyle_coherent _ _ _ _ h

theorem copyRowStyling_coherent (s : Sheet) (src tgt : Nat) (st en : Option Nat) (h : Coherent s) :
    Coherent (copyRowStyling s src tgt st en) := by
  unfold copyRowStyling
  simp only
  apply foldl_coherent
  · intro s c hs; exact copyCellStyling_coherent _ _ _ _ _ hs
  · split
    · exact setRowSty_coherent _ _ _ h
    · exact h

theorem copyColStyling_coherent (s : Sheet) (src tgt : Nat) (st en : Option Nat) (h : Coherent s) :
    Coherent (copyColStyling s src tgt st en) := by
  unfold copyColStyling
  simp only
  apply foldl_coherent
  · intro s c hs; exact copyCellStyling_coherent _ _ _ _ _ hs
  · split
    · exact setColSty_coherent _ _ _ h
    · exact h

theorem moveOrCopy_coherent (s t : Sheet) (rs re cs ce : Nat) (dr dc : Int) (mv : Bool) (h : Coherent s)
    (hok : moveOrCopy s rs re cs ce dr dc mv = .ok t) : Coherent t := by
  unfold moveOrCopy at hok
  split at hok
  · simp at hok
  · split at hok
    · simp at hok
    · split at hok
      · simp at hok
      · injection hok with hok; subst hok
        apply foldl_coherent
        · intro s c hs; exact setCell_coherent _ _ _ _ _ hs
        · split
          · apply foldl_coherent _ _ _ _ h
            intro s p hs
            exact removeCell_coherent _ _ _ (removeCell_coherent _ _ _ hs)
          · exact h

/-! ### cleanup -/

theorem removeCell_rows_comm (s : Sheet) (R : List (Nat × RowM)) (c r : Nat) :
    removeCell { s with rows := R } c r = { removeCell s c r with rows := R } := by
  unfold removeCell
  simp only
  split <;> rfl

theorem foldl_removeCell_rows_comm (cols : List Nat) (s : Sheet) (R : List (Nat × RowM)) (row : Nat) :
    cols.foldl (fun s c => removeCell s c row) { s with rows := R }
      = { cols.foldl (fun s c => removeCell s c row) s with rows := R } := by
  induction cols generalizing s with
  | nil => rfl
  | cons c cs ih =>
    simp only [List.foldl_cons]
    rw [removeCell_rows_comm, ih]

theorem removeCell_rows (s : Sheet) (c r : Nat) : (removeCell s c r).rows = s.rows := by
  unfold removeCell; split <;> rfl

theorem mem_keys_removeCell (s : Sheet) (c r : Nat) (k : Key) :
    k ∈ keysOf (removeCell s c r) ↔ k ∈ keysOf s ∧ k ≠ (r, c) := by
  unfold removeCell
  split
  · simp only [keysOf, keys_eraseKey, List.mem_filter]; simp
  · rename_i hnone
    have := lookup_none_iff.1 hnone
    constructor
    · intro hk; exact ⟨hk, fun e => this (e ▸ hk)⟩
    · intro hk; exact hk.1

theorem mem_keys_foldl_removeCell (cols : List Nat) (s : Sheet) (row : Nat) (k : Key) :
    k ∈ keysOf (cols.foldl (fun s c => removeCell s c row) s) ↔ k ∈ keysOf s ∧ ∀ c ∈ cols, k ≠ (row, c) := by
  induction cols generalizing s with
  | nil => simp
  | cons c cs ih =>
    simp only [List.foldl_cons]
    rw [ih, mem_keys_removeCell]
    simp only [List.mem_cons, forall_eq_or_imp]
    constructor
    · rintro ⟨⟨a, b⟩, d⟩; exact ⟨a, b, d⟩
    · rintro ⟨a, b, d⟩; exact ⟨⟨a, b⟩, d⟩

theorem foldl_removeCell_rows (cols : List Nat) (s : Sheet) (row : Nat) :
    (cols.foldl (fun s c => removeCell s c row) s).rows = s.rows := by
  induction cols generalizing s with
  | nil => rfl
  | cons c cs ih => simp only [List.foldl_cons]; rw [ih, removeCell_rows]

theorem cleanupLoop_coherent (l : List Nat) (s : Sheet) (h : Coherent s) : Coherent (cleanupLoop s l) := by
  induction l generalizing s with
  | nil => exact h
  | cons row rest ih =>
    unfold cleanupLoop
    split
    · exact ih s h
    · simp only
      split
      · exact h
      · apply ih
        have hcomm := foldl_removeCell_rows_comm (colsInRow s row) s (s.rows.filter (·.1 ≠ row)) row
        have e : ({ s with rows := s.rows.filter (·.1 ≠ row) } : Sheet)
            = { cells := s.cells, rowIdx := s.rowIdx, colIdx := s.colIdx, rows := s.rows.filter (·.1 ≠ row), cols := s.cols } := rfl
        rw [hcomm]
        have hF : Coherent ((colsInRow s row).foldl (fun s c => removeCell s c row) s) :=
          foldl_coherent _ _ _ (fun s c hs => removeCell_coherent s c row hs) h
        generalize hT : (colsInRow s row).foldl (fun s c => removeCell s c row) s = T at hF
        have hTrows : T.rows = s.rows := by rw [← hT]; exact foldl_removeCell_rows _ _ _
        have hTkeys : ∀ k, k ∈ keysOf T → k ∈ keysOf s ∧ ∀ c ∈ colsInRow s row, k ≠ (row, c) := by
          intro k hk; rw [← hT] at hk; exact (mem_keys_foldl_removeCell _ _ _ _).1 hk
        refine ⟨hF.nodup, hF.coord, hF.rsorted, hF.rmem, hF.csorted, hF.cmem, ?_, ?_, ?_⟩
        · intro k hk
          have hk1 := hF.rowKnown k hk
          rw [hTrows] at hk1
          obtain ⟨w, hw, ew⟩ := List.mem_map.1 hk1
          apply List.mem_map.2
          refine ⟨w, List.mem_filter.2 ⟨hw, ?_⟩, ew⟩
          simp only [ne_eq, decide_not, Bool.not_eq_true', decide_eq_false_iff_not]
          intro e
          obtain ⟨hks, hne⟩ := hTkeys k hk
          have hidx : k ∈ s.rowIdx := (h.rmem k).2 hks
          have : k.2 ∈ colsInRow s row := by
            unfold colsInRow
            apply List.mem_map.2
            exact ⟨k, List.mem_filter.2 ⟨hidx, by simp [← e, ew]⟩, rfl⟩
          exact hne k.2 this (by rw [← e, ew])
        · intro q hq
          exact h.rowKey q (List.mem_filter.1 hq).1
        · simp only
          have : (s.rows.filter (·.1 ≠ row)).map (·.1) = (s.rows.map (·.1)).filter (· ≠ row) := by
            rw [List.filter_map]; rfl
          rw [this]
          exact List.Pairwise.filter _ h.rowNodup

theorem cleanup_coherent (s : Sheet) (h : Coherent s) : Coherent (cleanup s) := by
  unfold cleanup; exact cleanupLoop_coherent _ _ h

/-! ### every operation -/

theorem step_coherent (s t : Sheet) (op : Op) (h : Coherent s) (hok : step s op = .ok t) : Coherent t := by
  cases op <;> simp only [step] at hok
  case getMut c r => injection hok with e; subst e; exact getMut_coherent _ _ _ h
  case setVal c r v => injection hok with e; subst e; exact setVal_coherent _ _ _ _ h
  case setCell c r v st => injection hok with e; subst e; exact setCell_coherent _ _ _ _ _ h
  case removeCell c r => injection hok with e; subst e; exact removeCell_coherent _ _ _ h
  case setStyle c r st => injection hok with e; subst e; exact setStyle_coherent _ _ _ _ h
  case setStyleRect a b c d st => injection hok with e; subst e; exact setStyleRect_coherent _ _ _ _ _ _ h
  case setRowSty r st => injection hok with e; subst e; exact setRowSty_coherent _ _ _ h
  case setColSty c st => injection hok with e; subst e; exact setColSty_coherent _ _ _ h
  case insRows p n => injection hok with e; subst e; exact insertAdj_coherent _ _ _ _ _ h
  case insCols p n => injection hok with e; subst e; exact insertAdj_coherent _ _ _ _ _ h
  case remRows p n => exact removeAdj_coherent _ _ _ _ _ _ h hok
  case remCols p n => exact removeAdj_coherent _ _ _ _ _ _ h hok
  case move a b c d dr dc => exact moveOrCopy_coherent _ _ _ _ _ _ _ _ _ h hok
  case copy a b c d dr dc => exact moveOrCopy_coherent _ _ _ _ _ _ _ _ _ h hok
  case cleanup => injection hok with e; subst e; exact cleanup_coherent _ h
  case copyRowStyling a b st en => injection hok with e; subst e; exact copyRowStyling_coherent _ _ _ _ _ h
  case copyColStyling a b st en => injection hok with e; subst e; exact copyColStyling_coherent _ _ _ _ _ h

theorem run_coherent (ops : List Op) (s t : Sheet) (h : Coherent s) (hok : run s ops = .ok t) : Coherent t := by
  induction ops generalizing s with
  | nil => simp only [run] at hok; injection hok with e; subst e; exact h
  | cons op ops ih =>
    simp only [run] at hok
    split at hok
    · rename_i s' hs'; exact ih s' (step_coherent s s' op h hs') hok
    · simp at hok

end Umya.Sheet
