/-
  Helper lemmas about the formula tokenizer / adjust functions (`Umya.Model.Formula`)
  and their relation to the reference semantics (`Umya.Spec.Refs`).
-/
import Umya.Model.Formula
import Umya.Spec.Refs
import Umya.Thm.C17
namespace Umya.Formula
open Umya.Coord Umya.Dec Umya.Thm.C17

/-! ### conversions between the Spec's references and the model's corners -/

def toPart (r : Ref) : Part := (r.num, r.lock)
def toCorner (k : Spec.Corner) : Corner := (k.col.map toPart, k.row.map toPart)

theorem indexToAlpha?_pos (n : Nat) (h : 1 ≤ n) : indexToAlpha? n = some (indexToAlpha n) := by
  simp [indexToAlpha?, indexToAlpha, h]

/-- rendering a corner whose column (if any) is ≥ 1 gives the Spec's text -/
theorem renderCorner_text (k : Spec.Corner) (hc : ∀ x, k.col = some x → 1 ≤ x.num) :
    renderCorner (toCorner k) = .ok k.text := by
  obtain ⟨c, r⟩ := k
  cases c with
  | none =>
    cases r with
    | none => simp [renderCorner, toCorner, Spec.Corner.text, optText]
    | some y => simp [renderCorner, toCorner, Spec.Corner.text, optText, toPart, rowRefText]
  | some x =>
    have hx := hc x rfl
    cases r with
    | none =>
      simp [renderCorner, toCorner, Spec.Corner.text, optText, toPart, colRefText, indexToAlpha?_pos _ hx]
    | some y =>
      simp [renderCorner, toCorner, Spec.Corner.text, optText, toPart, colRefText, rowRefText,
        indexToAlpha?_pos _ hx]

theorem optZip_map (p : Option Ref) : optZip (p.map (·.num)) (p.map (·.lock)) = p.map toPart := by
  cases p <;> rfl

/-- `parse_corner` reads back every in-grid corner the Spec prints -/
theorem parseCorner_text (k : Spec.Corner) (hg : k.InGrid) (hne : k.col.isSome ∨ k.row.isSome) :
    parseCorner k.text = some (toCorner k) := by
  have hc : ∀ x, k.col = some x → 1 ≤ x.num ∧ x.num ≤ 18278 := by
    intro x hx; have := hg.1 x hx; simp [Spec.maxCol] at this; omega
  have hr : ∀ x, k.row = some x → x.num < 4294967296 := by
    intro x hx; have := hg.2 x hx; simp [Spec.maxRow] at this; omega
  have hp := indexFromCoordinate_print k.col k.row hc hr
  have hrc := renderCorner_text k (fun x hx => (hc x hx).1)
  have hsome : ((k.col.map (·.num)).isSome || (k.row.map (·.num)).isSome) = true := by
    rcases hne with h | h <;> simp [h]
  have e : ((Option.map toPart k.col, Option.map toPart k.row) : Corner) = toCorner k := rfl
  simp only [Spec.Corner.text] at hrc
  simp only [parseCorner, Spec.Corner.text, hp, optZip_map, e, hrc, hsome]
  simp

/-! ### the sheet qualifier -/

theorem undouble_no_apos (s : List Char) (h : '\'' ∉ s) : undouble s = s := by
  induction s with
  | nil => rfl
  | cons c r ih =>
    have hc : c ≠ '\'' := by intro e; subst e; simp at h
    have hr : '\'' ∉ r := fun e => h (List.mem_cons_of_mem _ e)
    unfold undouble
    split
    · rename_i heq; injection heq with h1 _; exact absurd h1.symm (by simpa using hc.symm)
    · rename_i heq; injection heq with h1 h2; subst h1; subst h2; rw [ih hr]
    · rename_i heq; cases heq

theorem undouble_replaceApos (s : List Char) : undouble (replaceApos s) = s := by
  induction s with
  | nil => rfl
  | cons c r ih =>
    by_cases hc : c = '\''
    · subst hc
      have : replaceApos ('\'' :: r) = '\'' :: '\'' :: replaceApos r := by simp [replaceApos]
      rw [this, undouble]
      · rw [ih]
    · have : replaceApos (c :: r) = c :: replaceApos r := by simp [replaceApos, hc]
      rw [this]
      unfold undouble
      split
      · rename_i heq; injection heq with h1 _; exact absurd h1 hc
      · rename_i heq; injection heq with h1 h2; subst h1; subst h2; rw [ih]
      · rename_i heq; cases heq

theorem dropWhile_all {α} (p : α → Bool) (l : List α) (h : ∀ x ∈ l, p x = true) : l.dropWhile p = [] := by
  induction l with
  | nil => rfl
  | cons a r ih =>
    have ha := h a (List.mem_cons_self ..)
    simp only [List.dropWhile_cons, ha, if_true]
    exact ih (fun x hx => h x (List.mem_cons_of_mem _ hx))

theorem rsplitBang_none (s : List Char) (h : '!' ∉ s) : rsplitBang s = none := by
  unfold rsplitBang
  have hfree : ∀ x ∈ s.reverse, (decide (x ≠ '!')) = true := by
    intro x hx
    have : x ∈ s := List.mem_reverse.1 hx
    simp; intro e; subst e; exact h this
  have := dropWhile_all (fun x => decide (x ≠ '!')) s.reverse hfree
  simp only [this]

theorem bang_free_col (x : Ref) : '!' ∉ colRefText x := by
  intro h
  simp only [colRefText, List.mem_append] at h
  rcases h with h | h
  · split at h <;> simp at h
  · have := List.all_eq_true.1 (indexToAlpha_upper x.num) _ h
    simp [isUpperAZ] at this

theorem bang_free_row (x : Ref) : '!' ∉ rowRefText x := by
  intro h
  simp only [rowRefText, List.mem_append] at h
  rcases h with h | h
  · split at h <;> simp at h
  · have := List.all_eq_true.1 (decDigits_all_digit x.num) _ h
    simp [isDigit] at this

theorem bang_free_corner (k : Spec.Corner) : '!' ∉ k.text := by
  intro h
  simp only [Spec.Corner.text, List.mem_append] at h
  rcases h with h | h
  · cases hk : k.col with
    | none => simp [hk, optText] at h
    | some x => rw [hk] at h; exact bang_free_col x h
  · cases hk : k.row with
    | none => simp [hk, optText] at h
    | some x => rw [hk] at h; exact bang_free_row x h

theorem bang_free_area (a : Spec.Area) : '!' ∉ a.text := by
  cases a with
  | one k => exact bang_free_corner k
  | two a b =>
    intro h
    simp only [Spec.Area.text, List.mem_append, List.mem_cons] at h
    rcases h with h | h | h
    · exact bang_free_corner a h
    · cases h
    · exact bang_free_corner b h

def qualText (r : Spec.CRef) : List Char := match r.sheet with | some q => q.text | none => []
def qualName (r : Spec.CRef) : List Char := match r.sheet with | some q => q.name | none => []

theorem take_len_sub (a b : List Char) : (a ++ b).take ((a ++ b).length - b.length) = a := by
  have : (a ++ b).length - b.length = a.length := by simp
  rw [this]; simp

/-- `split_sheet_qualifier` on a printed reference: the qualifier as written, the sheet name it
    designates (apostrophes removed and un-doubled), the area text -/
theorem splitSheetQualifier_text (r : Spec.CRef) (hq : ∀ q, r.sheet = some q → q.WF) :
    splitSheetQualifier r.text = (qualText r, qualName r, r.area.text) := by
  have hb := bang_free_area r.area
  obtain ⟨sheet, area⟩ := r
  cases sheet with
  | none =>
    simp only [Spec.CRef.text, List.nil_append, splitSheetQualifier, splitAddress,
      rsplitBang_none _ hb, qualText, qualName]
    simp [undouble]
  | some q =>
    have hw := hq q rfl
    obtain ⟨name, quoted⟩ := q
    cases quoted with
    | false =>
      have hap : '\'' ∉ name := hw.2 rfl
      have hlegal : LegalSheetName name := by
        refine ⟨hw.1, ?_⟩
        cases name with
        | nil => simp
        | cons c _ => simp; intro e; subst e; simp at hap
      have e : (Spec.CRef.text ⟨some ⟨name, false⟩, area⟩) = name ++ '!' :: area.text := by
        simp [Spec.CRef.text, Spec.Qual.text]
      have e2 : name ++ '!' :: area.text = (name ++ ['!']) ++ area.text := by simp
      rw [e]
      simp only [splitSheetQualifier, splitAddress, rsplitBang_join name _ hb,
        stripSheetQuote_legal name hlegal, undouble_no_apos name hap, qualText, qualName,
        Spec.Qual.text]
      rw [e2, take_len_sub]; simp
    | true =>
      have e : (Spec.CRef.text ⟨some ⟨name, true⟩, area⟩)
          = ('\'' :: (replaceApos name ++ ['\''])) ++ '!' :: area.text := by
        simp [Spec.CRef.text, Spec.Qual.text]
      have e2 : ('\'' :: (replaceApos name ++ ['\''])) ++ '!' :: area.text
          = ('\'' :: (replaceApos name ++ ['\'', '!'])) ++ area.text := by simp
      rw [e]
      simp only [splitSheetQualifier, splitAddress, rsplitBang_join _ _ hb,
        stripSheetQuote_quoted, undouble_replaceApos, qualText, qualName, Spec.Qual.text]
      rw [e2, take_len_sub]; simp

/-! ### the corners of an area -/

def cornerTexts : Spec.Area → List (List Char)
  | .one k => [k.text]
  | .two a b => [a.text, b.text]

theorem splitColon_area (a : Spec.Area) : splitColon a.text = cornerTexts a := by
  cases a with
  | one k => exact splitColon_one _ (colon_free_text k.col k.row)
  | two a b => exact splitColon_two _ _ (colon_free_text a.col a.row) (colon_free_text b.col b.row)

/-! ### translation of one reference token -/

theorem translatePart_spec (x : Ref) (d : Int) (max : Nat) :
    translatePart (toPart x) d max = (Spec.trPart x d max).map toPart := by
  obtain ⟨n, l⟩ := x
  cases l with
  | true => simp [translatePart, Spec.trPart, toPart]
  | false =>
    simp only [translatePart, Spec.trPart, toPart]
    by_cases h1 : (n : Int) + d < 1
    · have : ¬ (1 ≤ (n : Int) + d ∧ (n : Int) + d ≤ (max : Int)) := by omega
      simp [h1, this]
    · by_cases h2 : (n : Int) + d > (max : Int)
      · have : ¬ (1 ≤ (n : Int) + d ∧ (n : Int) + d ≤ (max : Int)) := by omega
        simp [h2, this]
      · have : (1 ≤ (n : Int) + d ∧ (n : Int) + d ≤ (max : Int)) := by omega
        simp [h1, h2, this, toPart]

theorem trPart_pos (x x' : Ref) (d : Int) (max : Nat) (h : Spec.trPart x d max = some x')
    (hx : 1 ≤ x.num) : 1 ≤ x'.num := by
  simp only [Spec.trPart] at h
  split at h
  · injection h with h; subst h; exact hx
  · split at h
    · injection h with h; subst h; simp; omega
    · cases h

/-- the three ways a part of a corner can come out of the translation -/
theorem trOpt_cases (p : Option Ref) (d : Int) (max : Nat) :
    (p = none ∧ Spec.trOpt p d max = some none) ∨
    (∃ x, p = some x ∧ Spec.trPart x d max = none ∧ Spec.trOpt p d max = none) ∨
    (∃ x x', p = some x ∧ Spec.trPart x d max = some x' ∧ Spec.trOpt p d max = some (some x')) := by
  cases p with
  | none => left; simp [Spec.trOpt]
  | some x =>
    cases h : Spec.trPart x d max with
    | none => right; left; exact ⟨x, rfl, h, by simp [Spec.trOpt, h]⟩
    | some x' => right; right; exact ⟨x, x', rfl, h, by simp [Spec.trOpt, h]⟩

theorem translateCoord_text (k : Spec.Corner) (hg : k.InGrid) (hne : k.col.isSome ∨ k.row.isSome)
    (dc dr : Int) :
    translateCoord k.text dc dr = .ok ((Spec.trCorner k dc dr).map (·.text)) := by
  unfold translateCoord
  rw [parseCorner_text k hg hne]
  simp only [toCorner, Option.map_map]
  have hmc : (fun x => translatePart (toPart x) dc maxCol) = fun x => (Spec.trPart x dc Spec.maxCol).map toPart := by
    funext x; exact translatePart_spec x dc _
  have hmr : (fun x => translatePart (toPart x) dr maxRow) = fun x => (Spec.trPart x dr Spec.maxRow).map toPart := by
    funext x; exact translatePart_spec x dr _
  have e1 : ((fun p => translatePart p dc maxCol) ∘ toPart) = fun x => (Spec.trPart x dc Spec.maxCol).map toPart := hmc
  have e2 : ((fun p => translatePart p dr maxRow) ∘ toPart) = fun x => (Spec.trPart x dr Spec.maxRow).map toPart := hmr
  rw [e1, e2]
  obtain ⟨c, r⟩ := k
  simp only
  rcases trOpt_cases c dc Spec.maxCol with ⟨hc, tc⟩ | ⟨x, hc, px, tc⟩ | ⟨x, x', hc, px, tc⟩ <;>
  rcases trOpt_cases r dr Spec.maxRow with ⟨hr, tr⟩ | ⟨y, hr, py, tr⟩ | ⟨y, y', hr, py, tr⟩ <;>
  subst hc <;> subst hr
  · simp at hne
  · simp [Spec.trCorner, Spec.trOpt, py]
  · have := renderCorner_text ⟨none, some y'⟩ (by simp)
    simp only [toCorner, Option.map] at this
    simp [Spec.trCorner, Spec.trOpt, py, Option.join, this]
  · simp [Spec.trCorner, Spec.trOpt, px]
  · simp [Spec.trCorner, Spec.trOpt, px, py]
  · simp [Spec.trCorner, Spec.trOpt, px, py]
  · have hx' := trPart_pos x x' dc _ px (hg.1 x rfl).1
    have := renderCorner_text ⟨some x', none⟩ (by intro z hz; injection hz with hz; subst hz; exact hx')
    simp only [toCorner, Option.map] at this
    simp [Spec.trCorner, Spec.trOpt, px, Option.join, this]
  · simp [Spec.trCorner, Spec.trOpt, px, py]
  · have hx' := trPart_pos x x' dc _ px (hg.1 x rfl).1
    have := renderCorner_text ⟨some x', some y'⟩ (by intro z hz; injection hz with hz; subst hz; exact hx')
    simp only [toCorner, Option.map] at this
    simp [Spec.trCorner, Spec.trOpt, px, py, Option.join, this]

def refTok (r : Spec.CRef) : Tok := ⟨r.text, .operand, .range, .none⟩
def refErrTok : Tok := ⟨['#', 'R', 'E', 'F', '!'], .operand, .error, .none⟩

/-- the token a reference becomes: itself with a new area, or the `#REF!` error literal -/
def tokOfRef (r : Spec.CRef) (a : Option Spec.Area) : Tok :=
  match a with
  | some a => refTok { r with area := a }
  | none => refErrTok

theorem area_nonempty_one (k : Spec.Corner) (h : (Spec.Area.one k).WF) :
    k.InGrid ∧ (k.col.isSome ∨ k.row.isSome) := ⟨h.2.2, Or.inl h.1⟩

theorem area_nonempty_two (a b : Spec.Corner) (h : (Spec.Area.two a b).WF) :
    a.InGrid ∧ b.InGrid ∧ (a.col.isSome ∨ a.row.isSome) ∧ (b.col.isSome ∨ b.row.isSome) := by
  obtain ⟨hs, ha, hb, _, _⟩ := h
  refine ⟨ha, hb, ?_, ?_⟩
  · rcases hs with h | h | h
    · exact Or.inl h.1
    · exact Or.inl h.1
    · exact Or.inr h.2.1
  · rcases hs with h | h | h
    · exact Or.inl h.2.2.1
    · exact Or.inl h.2.2.1
    · exact Or.inr h.2.2.2

theorem qual_text_eq (r : Spec.CRef) (a : Spec.Area) :
    qualText r ++ a.text = (Spec.CRef.text { r with area := a }) := by
  obtain ⟨sh, ar⟩ := r
  cases sh <;> rfl

/-- `adjustment_formula_coordinate` on one reference token, against the Spec: for every
    well-formed reference (any shape, any `$` flags, any qualifier) and every offset. -/
theorem translateTok_ref (r : Spec.CRef) (hw : r.WF) (dc dr : Int) :
    translateTok dc dr (refTok r) = .ok (tokOfRef r (Spec.trArea r.area dc dr)) := by
  have hsq := splitSheetQualifier_text r hw.2
  have hsc := splitColon_area r.area
  unfold translateTok
  have hro : isRangeOperand (refTok r) = true := rfl
  simp only [hro, if_true]
  have hv : (refTok r).val = r.text := rfl
  rw [hv, hsq]
  simp only [hsc]
  cases ha : r.area with
  | one k =>
    have hwa : (Spec.Area.one k).WF := by have := hw.1; rwa [ha] at this
    obtain ⟨hg, hne⟩ := area_nonempty_one k hwa
    simp only [cornerTexts, translateList, translateCoord_text k hg hne]
    cases hk : Spec.trCorner k dc dr with
    | none => simp [Spec.trArea, hk, tokOfRef, refErrTok, refErrorTok, refTok]
    | some k' =>
      simp only [Option.map, Spec.trArea, hk, tokOfRef, refTok, joinColon]
      first
        | rfl
        | (congr 2; rw [← qual_text_eq])
  | two a b =>
    have hwa : (Spec.Area.two a b).WF := by have := hw.1; rwa [ha] at this
    obtain ⟨hga, hgb, hna, hnb⟩ := area_nonempty_two a b hwa
    simp only [cornerTexts, translateList, translateCoord_text a hga hna, translateCoord_text b hgb hnb]
    cases hka : Spec.trCorner a dc dr with
    | none => simp [Spec.trArea, hka, tokOfRef, refErrTok, refErrorTok, refTok]
    | some a' =>
      cases hkb : Spec.trCorner b dc dr with
      | none => simp [Spec.trArea, hka, hkb, tokOfRef, refErrTok, refErrorTok, refTok]
      | some b' =>
        simp only [Option.map, Spec.trArea, hka, hkb, tokOfRef, refTok, joinColon]
        first
          | rfl
          | (congr 2; rw [← qual_text_eq]; simp [Spec.Area.text])

/-! ### insert: one reference token -/

/-- the `(root_col, offset_col, root_row, offset_row)` arguments an edit on one axis produces -/
def axisArgs (ax : Spec.Axis) (at_ n : Nat) : Nat × Nat × Nat × Nat :=
  match ax with
  | .col => (at_, n, 0, 0)
  | .row => (0, 0, at_, n)

theorem concerns_spec (r : Spec.CRef) (hq : ∀ q, r.sheet = some q → q.WF) (ws selfWs : List Char)
    (hws : ws ≠ []) :
    concerns false (qualName r) ws selfWs = Spec.concernsRef r selfWs ws := by
  obtain ⟨sheet, area⟩ := r
  cases sheet with
  | none =>
    have : ¬ ([] = ws) := fun e => hws e.symm
    simp only [concerns, qualName, Spec.concernsRef]
    by_cases h : ws = selfWs
    · subst h; simp
    · have h' : ¬ selfWs = ws := fun e => h e.symm
      simp [h, h', this]
  | some q =>
    have hne : q.name ≠ [] := (hq q rfl).1
    by_cases h : q.name = ws <;> simp [concerns, qualName, Spec.concernsRef, hne, h]

/-- what the Spec makes of one part on the edited axis: moved behind the insertion point; beyond
    `max` it is cut off at `max` when it ends a range and gone otherwise -/
def insPartS (x : Ref) (at_ n max : Nat) (isEnd : Bool) : Option Ref :=
  if Spec.insNum x.num at_ n ≤ max then some ⟨Spec.insNum x.num at_ n, x.lock⟩
  else if isEnd then some ⟨max, x.lock⟩ else none

/-- `insert_part` on an in-grid part is `insPartS`, whatever the `$` flag, for every count `n ≠ 0` -/
theorem insertPart_spec (x : Ref) (at_ n max : Nat) (isEnd : Bool) (hn : n ≠ 0) (hx : x.num ≤ max) :
    insertPart (toPart x) at_ n max isEnd = (insPartS x at_ n max isEnd).map toPart := by
  by_cases h1 : x.num < at_
  · have h1' : ¬ at_ ≤ x.num := by omega
    simp [insertPart, insPartS, toPart, Spec.insNum, h1, h1', hx]
  · have h1' : at_ ≤ x.num := by omega
    by_cases h2 : x.num + n ≤ max
    · simp [insertPart, insPartS, toPart, Spec.insNum, h1, h1', hn, h2]
    · cases isEnd <;> simp [insertPart, insPartS, toPart, Spec.insNum, h1, h1', hn, h2]

/-- the axis that is not edited is called with root 0, offset 0 -/
theorem insertPart_unused (p : Part) (max : Nat) (e : Bool) : insertPart p 0 0 max e = some p := by
  simp [insertPart]

theorem insNum_ge (x at_ n : Nat) : x ≤ Spec.insNum x at_ n := by
  simp only [Spec.insNum]; split <;> omega

theorem insNum_mono (x y at_ n : Nat) (h : x ≤ y) : Spec.insNum x at_ n ≤ Spec.insNum y at_ n := by
  simp only [Spec.insNum]; split <;> split <;> omega

theorem insPartS_pos (x x' : Ref) (at_ n max : Nat) (e : Bool) (h : insPartS x at_ n max e = some x')
    (hx : 1 ≤ x.num) (hm : 1 ≤ max) : 1 ≤ x'.num := by
  have := insNum_ge x.num at_ n
  unfold insPartS at h
  split at h
  · injection h with h; subst h; simp; omega
  · split at h
    · injection h with h; subst h; exact hm
    · cases h

/-- one corner under an insert on axis `ax` -/
def insCornerS (k : Spec.Corner) (ax : Spec.Axis) (at_ n : Nat) (isEnd : Bool) : Option Spec.Corner :=
  match ax with
  | .col =>
    match k.col with
    | none => some k
    | some x => (insPartS x at_ n Spec.maxCol isEnd).map (fun x' => ⟨some x', k.row⟩)
  | .row =>
    match k.row with
    | none => some k
    | some y => (insPartS y at_ n Spec.maxRow isEnd).map (fun y' => ⟨k.col, some y'⟩)

theorem maxCol_eq : maxCol = Spec.maxCol := rfl
theorem maxRow_eq : maxRow = Spec.maxRow := rfl

theorem insertCoord_text (k : Spec.Corner) (hg : k.InGrid) (hne : k.col.isSome ∨ k.row.isSome)
    (ax : Spec.Axis) (at_ n : Nat) (hn : n ≠ 0) (isEnd : Bool) :
    insertCoord (axisArgs ax at_ n).1 (axisArgs ax at_ n).2.1 (axisArgs ax at_ n).2.2.1
        (axisArgs ax at_ n).2.2.2 isEnd k.text
      = .ok ((insCornerS k ax at_ n isEnd).map (·.text)) := by
  unfold insertCoord
  rw [parseCorner_text k hg hne]
  obtain ⟨c, r⟩ := k
  have hren := fun (k' : Spec.Corner) h => renderCorner_text k' h
  cases ax with
  | col =>
    cases c with
    | none =>
      cases r with
      | none => simp at hne
      | some y =>
        have := hren ⟨none, some y⟩ (by simp)
        simp only [toCorner, Option.map] at this
        simp [axisArgs, toCorner, insertPart_unused, insCornerS, Option.join, this]
    | some x =>
      have hx := hg.1 x rfl
      have hp := insertPart_spec x at_ n Spec.maxCol isEnd hn hx.2
      cases hs : insPartS x at_ n Spec.maxCol isEnd with
      | none =>
        rw [hs] at hp
        cases r <;> simp [axisArgs, toCorner, maxCol_eq, hp, insCornerS, hs]
      | some x' =>
        rw [hs] at hp
        have hx' := insPartS_pos x x' at_ n _ isEnd hs hx.1 (by simp [Spec.maxCol])
        cases r with
        | none =>
          have := hren ⟨some x', none⟩ (by intro z hz; injection hz with hz; subst hz; exact hx')
          simp only [toCorner, Option.map] at this
          simp [axisArgs, toCorner, maxCol_eq, hp, insCornerS, hs, Option.join, this]
        | some y =>
          have := hren ⟨some x', some y⟩ (by intro z hz; injection hz with hz; subst hz; exact hx')
          simp only [toCorner, Option.map] at this
          simp [axisArgs, toCorner, maxCol_eq, hp, insCornerS, hs, insertPart_unused, Option.join, this]
  | row =>
    cases r with
    | none =>
      cases c with
      | none => simp at hne
      | some x =>
        have := hren ⟨some x, none⟩ (by intro z hz; injection hz with hz; subst hz; exact (hg.1 x rfl).1)
        simp only [toCorner, Option.map] at this
        simp [axisArgs, toCorner, insertPart_unused, insCornerS, Option.join, this]
    | some y =>
      have hy := hg.2 y rfl
      have hp := insertPart_spec y at_ n Spec.maxRow isEnd hn hy.2
      cases hs : insPartS y at_ n Spec.maxRow isEnd with
      | none =>
        rw [hs] at hp
        cases c <;> simp [axisArgs, toCorner, maxRow_eq, hp, insCornerS, hs, insertPart_unused]
      | some y' =>
        rw [hs] at hp
        cases c with
        | none =>
          have := hren ⟨none, some y'⟩ (by simp)
          simp only [toCorner, Option.map] at this
          simp [axisArgs, toCorner, maxRow_eq, hp, insCornerS, hs, Option.join, this]
        | some x =>
          have := hren ⟨some x, some y'⟩ (by intro z hz; injection hz with hz; subst hz; exact (hg.1 x rfl).1)
          simp only [toCorner, Option.map] at this
          simp [axisArgs, toCorner, maxRow_eq, hp, insCornerS, hs, insertPart_unused, Option.join, this]

/-- an end corner is never lost: it is cut off at the edge of the grid -/
theorem insCornerS_end (k : Spec.Corner) (ax : Spec.Axis) (at_ n : Nat) :
    ∃ k', insCornerS k ax at_ n true = some k' := by
  obtain ⟨c, r⟩ := k
  cases ax with
  | col =>
    cases c with
    | none => exact ⟨_, rfl⟩
    | some x => simp only [insCornerS, insPartS]; split <;> simp
  | row =>
    cases r with
    | none => exact ⟨_, rfl⟩
    | some y => simp only [insCornerS, insPartS]; split <;> simp

/-- the area a reference designates after the insert, corner by corner as the code computes it:
    the start corner (or the single cell) pushed off the grid = nothing left; the end corner is
    cut off at the edge -/
def insAreaM (a : Spec.Area) (ax : Spec.Axis) (at_ n : Nat) : Option Spec.Area :=
  match a with
  | .one k => (insCornerS k ax at_ n false).map .one
  | .two k1 k2 =>
    match insCornerS k1 ax at_ n false, insCornerS k2 ax at_ n true with
    | some a, some b => some (.two a b)
    | _, _ => none

/-- `adjustment_insert_formula_coordinate` on one reference token, corner by corner. -/
theorem insertTok_ref_corners (r : Spec.CRef) (hw : r.WF) (ax : Spec.Axis) (at_ n : Nat) (hn : n ≠ 0)
    (ws selfWs : List Char) (hws : ws ≠ []) :
    insertTok (axisArgs ax at_ n).1 (axisArgs ax at_ n).2.1 (axisArgs ax at_ n).2.2.1
        (axisArgs ax at_ n).2.2.2 ws selfWs false (refTok r)
      = .ok (if Spec.concernsRef r selfWs ws then tokOfRef r (insAreaM r.area ax at_ n) else refTok r) := by
  have hsq := splitSheetQualifier_text r hw.2
  have hsc := splitColon_area r.area
  unfold insertTok
  have hro : isRangeOperand (refTok r) = true := rfl
  have hv : (refTok r).val = r.text := rfl
  simp only [hro, if_true, hv, hsq, concerns_spec r hw.2 ws selfWs hws]
  cases hcr : Spec.concernsRef r selfWs ws with
  | false => simp
  | true =>
    simp only [if_true, hsc]
    cases ha : r.area with
    | one k =>
      have hwa : (Spec.Area.one k).WF := by have := hw.1; rwa [ha] at this
      obtain ⟨hg, hne⟩ := area_nonempty_one k hwa
      simp only [cornerTexts, insertList, insertCoord_text k hg hne ax at_ n hn false]
      cases hk : insCornerS k ax at_ n false with
      | none => simp [insAreaM, hk, tokOfRef, refErrTok, refErrorTok, refTok]
      | some k' =>
        simp only [Option.map, insAreaM, hk, tokOfRef, refTok, joinColon]
        first
          | rfl
          | (congr 2; rw [← qual_text_eq])
    | two a b =>
      have hwa : (Spec.Area.two a b).WF := by have := hw.1; rwa [ha] at this
      obtain ⟨hga, hgb, hna, hnb⟩ := area_nonempty_two a b hwa
      simp only [cornerTexts, insertList, insertCoord_text a hga hna ax at_ n hn false,
        insertCoord_text b hgb hnb ax at_ n hn true]
      cases hka : insCornerS a ax at_ n false with
      | none => simp [insAreaM, hka, tokOfRef, refErrTok, refErrorTok, refTok]
      | some a' =>
        obtain ⟨b', hkb⟩ := insCornerS_end b ax at_ n
        simp only [Option.map, insAreaM, hka, hkb, tokOfRef, refTok, joinColon]
        first
          | rfl
          | (congr 2; rw [← qual_text_eq]; simp [Spec.Area.text])

/-- for a well-formed area (start ≤ end, inside the grid) the corner-wise result is the Spec's
    `insArea`: `none` exactly when the start is pushed off the grid, the end cut off at the edge -/
theorem insAreaM_spec (a : Spec.Area) (hw : a.WF) (ax : Spec.Axis) (at_ n : Nat) :
    insAreaM a ax at_ n = Spec.insArea a ax at_ n := by
  cases a with
  | one k =>
    obtain ⟨c, r⟩ := k
    obtain ⟨hc, hr, _⟩ := hw
    cases c with
    | none => simp at hc
    | some x =>
      cases r with
      | none => simp at hr
      | some y =>
        cases ax with
        | col =>
          by_cases h : Spec.insNum x.num at_ n ≤ Spec.maxCol
          · have h' : ¬ (Spec.insNum x.num at_ n > Spec.maxCol) := by omega
            simp [insAreaM, insCornerS, insPartS, h, h', Spec.insArea, Spec.startOf, Spec.endOf,
              Spec.insAxis, Spec.rebuild]
          · have h' : Spec.insNum x.num at_ n > Spec.maxCol := by omega
            simp [insAreaM, insCornerS, insPartS, h, h', Spec.insArea, Spec.startOf, Spec.endOf,
              Spec.insAxis, Spec.rebuild]
        | row =>
          by_cases h : Spec.insNum y.num at_ n ≤ Spec.maxRow
          · have h' : ¬ (Spec.insNum y.num at_ n > Spec.maxRow) := by omega
            simp [insAreaM, insCornerS, insPartS, h, h', Spec.insArea, Spec.startOf, Spec.endOf,
              Spec.insAxis, Spec.rebuild]
          · have h' : Spec.insNum y.num at_ n > Spec.maxRow := by omega
            simp [insAreaM, insCornerS, insPartS, h, h', Spec.insArea, Spec.startOf, Spec.endOf,
              Spec.insAxis, Spec.rebuild]
  | two k1 k2 =>
    obtain ⟨c1, r1⟩ := k1
    obtain ⟨c2, r2⟩ := k2
    obtain ⟨hs, _, _, _, _⟩ := hw
    cases ax with
    | col =>
      cases c1 with
      | none =>
        cases c2 with
        | none => simp [insAreaM, insCornerS, Spec.insArea, Spec.startOf, Spec.endOf, Spec.insAxis, Spec.rebuild]
        | some x2 => simp at hs
      | some x1 =>
        cases c2 with
        | none => simp at hs
        | some x2 =>
          by_cases h : Spec.insNum x1.num at_ n ≤ Spec.maxCol
          · have h' : ¬ (Spec.insNum x1.num at_ n > Spec.maxCol) := by omega
            by_cases h2 : Spec.insNum x2.num at_ n ≤ Spec.maxCol
            · have hm : min (Spec.insNum x2.num at_ n) Spec.maxCol = Spec.insNum x2.num at_ n := by omega
              simp [insAreaM, insCornerS, insPartS, h, h', h2, hm, Spec.insArea, Spec.startOf, Spec.endOf,
                Spec.insAxis, Spec.rebuild]
            · have hm : min (Spec.insNum x2.num at_ n) Spec.maxCol = Spec.maxCol := by omega
              simp [insAreaM, insCornerS, insPartS, h, h', h2, hm, Spec.insArea, Spec.startOf, Spec.endOf,
                Spec.insAxis, Spec.rebuild]
          · have h' : Spec.insNum x1.num at_ n > Spec.maxCol := by omega
            simp [insAreaM, insCornerS, insPartS, h, h', Spec.insArea, Spec.startOf, Spec.endOf,
              Spec.insAxis, Spec.rebuild]
    | row =>
      cases r1 with
      | none =>
        cases r2 with
        | none => simp [insAreaM, insCornerS, Spec.insArea, Spec.startOf, Spec.endOf, Spec.insAxis, Spec.rebuild]
        | some y2 => simp at hs
      | some y1 =>
        cases r2 with
        | none => simp at hs
        | some y2 =>
          by_cases h : Spec.insNum y1.num at_ n ≤ Spec.maxRow
          · have h' : ¬ (Spec.insNum y1.num at_ n > Spec.maxRow) := by omega
            by_cases h2 : Spec.insNum y2.num at_ n ≤ Spec.maxRow
            · have hm : min (Spec.insNum y2.num at_ n) Spec.maxRow = Spec.insNum y2.num at_ n := by omega
              simp [insAreaM, insCornerS, insPartS, h, h', h2, hm, Spec.insArea, Spec.startOf, Spec.endOf,
                Spec.insAxis, Spec.rebuild]
            · have hm : min (Spec.insNum y2.num at_ n) Spec.maxRow = Spec.maxRow := by omega
              simp [insAreaM, insCornerS, insPartS, h, h', h2, hm, Spec.insArea, Spec.startOf, Spec.endOf,
                Spec.insAxis, Spec.rebuild]
          · have h' : Spec.insNum y1.num at_ n > Spec.maxRow := by omega
            simp [insAreaM, insCornerS, insPartS, h, h', Spec.insArea, Spec.startOf, Spec.endOf,
              Spec.insAxis, Spec.rebuild]

/-- `adjustment_insert_formula_coordinate` on one reference token against the Spec: the parts at
    or behind the insertion point move by the number of inserted lines whatever their `$` flags, a
    reference pushed off the grid becomes `#REF!`, a range pushed partly off is cut at the edge,
    the qualifier is kept as written, references of other sheets are left alone. -/
theorem insertTok_ref (r : Spec.CRef) (hw : r.WF) (ax : Spec.Axis) (at_ n : Nat) (hn : n ≠ 0)
    (ws selfWs : List Char) (hws : ws ≠ []) :
    insertTok (axisArgs ax at_ n).1 (axisArgs ax at_ n).2.1 (axisArgs ax at_ n).2.2.1
        (axisArgs ax at_ n).2.2.2 ws selfWs false (refTok r)
      = .ok (if Spec.concernsRef r selfWs ws then tokOfRef r (Spec.insArea r.area ax at_ n) else refTok r) := by
  rw [insertTok_ref_corners r hw ax at_ n hn ws selfWs hws, insAreaM_spec r.area hw.1 ax at_ n]

/-! ### remove: one reference token -/

theorem removeParts_nil (root off : Nat) : removeParts [] root off = .ok (some []) := by
  simp [removeParts, mapRes, removePartsGo]

theorem removeParts_unused1 (p : Part) : removeParts [p] 0 0 = .ok (some [p]) := by
  simp [removeParts, mapRes, isRemoveCoordinate, removePartsGo, removeCoordinate]

theorem removeParts_unused2 (p q : Part) : removeParts [p, q] 0 0 = .ok (some [p, q]) := by
  simp [removeParts, mapRes, isRemoveCoordinate, removePartsGo, removeCoordinate]

theorem isRemove_spec (x at_ n : Nat) (h1 : 1 ≤ at_) (hn : n ≠ 0) (ho : at_ + n ≤ u32Max) :
    isRemoveCoordinate x at_ n = .ok (Spec.inBand x at_ n) := by
  have h0 : at_ ≠ 0 := by omega
  have h3 : ¬ (at_ + n > u32Max) := by omega
  by_cases hx : at_ ≤ x
  · by_cases hy : x < at_ + n <;> simp [isRemoveCoordinate, Spec.inBand, h0, hn, h3, hx, hy]
  · simp [isRemoveCoordinate, Spec.inBand, h0, hn, hx]

theorem removeCoord_spec (x at_ n : Nat) (hn : n ≠ 0) (hb : Spec.inBand x at_ n = false) :
    removeCoordinate x at_ n = .ok (Spec.remNum x at_ n) := by
  simp only [Spec.inBand, Bool.and_eq_false_iff, decide_eq_false_iff_not] at hb
  by_cases hx : at_ ≤ x
  · have h2 : at_ + n ≤ x := by rcases hb with h | h <;> omega
    have h3 : ¬ (n > x) := by omega
    simp [removeCoordinate, Spec.remNum, hx, hn, h2, h3]
  · have h2 : ¬ (at_ + n ≤ x) := by omega
    simp [removeCoordinate, Spec.remNum, hx, h2]

theorem removeParts_one (x : Ref) (at_ n : Nat) (h1 : 1 ≤ at_) (hn : n ≠ 0) (ho : at_ + n ≤ u32Max) :
    removeParts [toPart x] at_ n
      = .ok (if Spec.inBand x.num at_ n then none
             else some [toPart ⟨Spec.remNum x.num at_ n, x.lock⟩]) := by
  cases hb : Spec.inBand x.num at_ n with
  | true => simp [removeParts, mapRes, toPart, isRemove_spec _ _ _ h1 hn ho, hb]
  | false =>
    simp [removeParts, mapRes, toPart, isRemove_spec _ _ _ h1 hn ho, hb, removePartsGo,
      removeCoord_spec _ _ _ hn hb]

theorem removeParts_two (x y : Ref) (at_ n : Nat) (h1 : 1 ≤ at_) (hn : n ≠ 0) (ho : at_ + n ≤ u32Max) :
    removeParts [toPart x, toPart y] at_ n
      = .ok (if Spec.inBand x.num at_ n && Spec.inBand y.num at_ n then none
             else some [toPart ⟨if Spec.inBand x.num at_ n then at_ else Spec.remNum x.num at_ n, x.lock⟩,
                        toPart ⟨if Spec.inBand y.num at_ n then at_ - 1 else Spec.remNum y.num at_ n, y.lock⟩]) := by
  cases hbx : Spec.inBand x.num at_ n with
  | false =>
    cases hby : Spec.inBand y.num at_ n with
    | false =>
      simp [removeParts, mapRes, toPart, isRemove_spec _ _ _ h1 hn ho, hbx, hby, removePartsGo,
        removeCoord_spec _ _ _ hn hbx, removeCoord_spec _ _ _ hn hby]
    | true =>
      simp [removeParts, mapRes, toPart, isRemove_spec _ _ _ h1 hn ho, hbx, hby, removePartsGo,
        removeCoord_spec _ _ _ hn hbx]
  | true =>
    cases hby : Spec.inBand y.num at_ n with
    | false =>
      simp [removeParts, mapRes, toPart, isRemove_spec _ _ _ h1 hn ho, hbx, hby, removePartsGo,
        removeCoord_spec _ _ _ hn hby]
    | true =>
      simp [removeParts, mapRes, toPart, isRemove_spec _ _ _ h1 hn ho, hbx, hby]

theorem renderCorner_cr (x y : Ref) (h : 1 ≤ x.num) :
    renderCorner (some (toPart x), some (toPart y)) = .ok (colRefText x ++ rowRefText y) := by
  have := renderCorner_text ⟨some x, some y⟩ (by intro z hz; injection hz with hz; subst hz; exact h)
  simpa [toCorner, Spec.Corner.text, optText] using this

theorem renderCorner_c (x : Ref) (h : 1 ≤ x.num) :
    renderCorner (some (toPart x), none) = .ok (colRefText x) := by
  have := renderCorner_text ⟨some x, none⟩ (by intro z hz; injection hz with hz; subst hz; exact h)
  simpa [toCorner, Spec.Corner.text, optText] using this

theorem renderCorner_r (y : Ref) :
    renderCorner (none, some (toPart y)) = .ok (rowRefText y) := by
  have := renderCorner_text ⟨none, some y⟩ (by simp)
  simpa [toCorner, Spec.Corner.text, optText] using this

theorem remNum_pos (x at_ n : Nat) (hx : 1 ≤ x) (h1 : 1 ≤ at_) : 1 ≤ Spec.remNum x at_ n := by
  simp only [Spec.remNum]; split <;> omega

theorem clamp_pos (x y at_ n : Nat) (hx : 1 ≤ x) (hxy : x ≤ y)
    (hbx : Spec.inBand x at_ n = false) (hby : Spec.inBand y at_ n = true) : 1 ≤ at_ - 1 := by
  simp only [Spec.inBand, Bool.and_eq_false_iff, Bool.and_eq_true, decide_eq_false_iff_not,
    decide_eq_true_eq] at hbx hby
  omega

/-! ### the token a leaf expression lexes to -/

def exprTok : Spec.Expr → Tok
  | .ref r => refTok r
  | .err e => ⟨e.text, .operand, .error, .none⟩
  | _ => ⟨[], .unknown, .nothing, .none⟩

theorem exprTok_refOr (r : Spec.CRef) (o : Option Spec.Area) : exprTok (Spec.refOr r o) = tokOfRef r o := by
  cases o <;> rfl

theorem corners_inGrid (a : Spec.Area) (hw : a.WF) (k : Spec.Corner)
    (hk : k = Spec.startOf a ∨ k = Spec.endOf a) : k.InGrid := by
  cases a with
  | one k0 =>
    rcases hk with h | h
    · subst h; exact hw.2.2
    · subst h; exact ⟨(by intro x hx; cases hx), (by intro x hx; cases hx)⟩
  | two a b =>
    rcases hk with h | h
    · subst h; exact hw.2.1
    · subst h; exact hw.2.2.1

end Umya.Formula
