/-
  Helper lemmas for C03, cell level: string items (`stringItem` vs `Spec.Sml.rstText`), the fields of
  `Spec.Sml.decodeCell` one by one, the model's value functions on the texts of the valid grammar.
-/
import Umya.Lemmas.Reader
namespace Umya.Reader.Lemmas
open Umya.Reader Umya.Spec.Xml Umya.Spec.Sml

/-! ## string items (CT_Rst: `si` of the table, `is` of an inline-string cell) -/

/-- a `t` element: character data only; where the reader trims (`trim`, the worksheet part) blanks at
    the ends need `xml:space="preserve"` -/
def validT (trim : Bool) (t : Node) : Bool :=
  plainText (trim && !(t.attr? "xml:space".toList = some "preserve".toList)) t

/-- a rich-text run `r` (CT_RElt: `rPr?`, one `t`): at most one `t`, and it is a valid `t` -/
def validRun (trim : Bool) (r : Node) : Bool :=
  decide ((r.kids "t").length ≤ 1) && (r.kids "t").all (validT trim)

/-- a string item as producers write it (18.4.8): EITHER at most one plain `t` OR one or more runs `r`
    (not both: the library lets the runs replace the plain text, the spec concatenates them);
    phonetic runs `rPh` and `phoneticPr` may follow, they are not part of the value -/
def validRst (trim : Bool) (si : Node) : Bool :=
  if (si.kids "r").isEmpty then decide ((si.kids "t").length ≤ 1) && (si.kids "t").all (validT trim)
  else (si.kids "t").isEmpty && (si.kids "r").all (validRun trim)

theorem tText_valid (trim : Bool) (t : Node) (h : validT trim t = true) : tText trim t = t.ownText :=
  lastText_plain _ t h

theorem flatMap_congr_mem {α β} (l : List α) (f g : α → List β) (h : ∀ x ∈ l, f x = g x) :
    l.flatMap f = l.flatMap g := by
  induction l with
  | nil => rfl
  | cons a r ih =>
    simp only [List.flatMap_cons]
    rw [h a (List.mem_cons_self ..), ih (fun x hx => h x (List.mem_cons_of_mem _ hx))]

theorem run_text (trim : Bool) (r : Node) (h : validRun trim r = true) :
    ((lastKid? r "t").map (tText trim)).getD [] = (r.kids "t").flatMap (·.ownText) := by
  unfold validRun at h
  simp only [Bool.and_eq_true, decide_eq_true_eq] at h
  unfold lastKid?
  match hk : r.kids "t", h with
  | [], _ => rfl
  | [t], ⟨_, h2⟩ =>
    have ht : validT trim t = true := by simpa using h2
    simp [tText_valid trim t ht]
  | _ :: _ :: _, ⟨h1, _⟩ => simp at h1

theorem stringItem_valid (trim : Bool) (si : Node) (h : validRst trim si = true) :
    (stringItem trim si).getD [] = rstText si := by
  unfold validRst at h
  unfold stringItem rstText
  by_cases hr : (si.kids "r").isEmpty = true
  · rw [if_pos hr] at h
    simp only [Bool.and_eq_true, decide_eq_true_eq] at h
    have hr' : si.kids "r" = [] := List.isEmpty_iff.mp hr
    simp only [hr', List.isEmpty_nil, Bool.not_true, Bool.false_eq_true, if_false, List.flatMap_nil, List.append_nil]
    unfold lastKid?
    match hk : si.kids "t", h with
    | [], _ => rfl
    | [t], ⟨_, h2⟩ =>
      have ht : validT trim t = true := by simpa using h2
      by_cases hc : t.children = []
      · have : t.ownText = [] := by
          unfold Node.ownText; rw [hc]; rfl
        simp [hc, this]
      · simp [hc, tText_valid trim t ht]
    | _ :: _ :: _, ⟨h1, _⟩ => simp at h1
  · rw [if_neg hr] at h
    simp only [Bool.and_eq_true] at h
    have ht' : si.kids "t" = [] := List.isEmpty_iff.mp h.1
    have hall : ∀ r ∈ si.kids "r", validRun trim r = true := by simpa using h.2
    simp only [hr, Bool.not_false, if_true, ht', List.flatMap_nil, List.nil_append, Option.getD_some]
    exact flatMap_congr_mem _ _ _ (fun r hr => run_text trim r (hall r hr))

open Umya.Coord

/-! decodeCell, field by field -/
theorem decode_ref (sst : List Text) (c : Node) : (decodeCell sst c).1.ref = (c.attr? "r".toList).getD [] := rfl
theorem decode_formula (sst : List Text) (c : Node) : (decodeCell sst c).1.formula = (c.kid? "f").map (·.ownText) := rfl
theorem decode_style (sst : List Text) (c : Node) : (decodeCell sst c).1.style = ((c.attr? "s".toList).bind natOf).getD 0 := rfl
theorem decode_shared (sst : List Text) (c : Node) : (decodeCell sst c).1.shared = (c.kid? "f").bind fun fe =>
    if fe.attr? "t".toList = some "shared".toList then (fe.attr? "si".toList).bind natOf else none := rfl

/-- the text of `<v>` as the spec reads it -/
def vText (c : Node) : Option Text := (c.kid? "v").map (·.ownText)

theorem decode_absent (sst : List Text) (c : Node) (h : c.attr? ['t'] = none) :
    (decodeCell sst c).1.kind = (if (vText c).isSome then "n" else "") ∧ (decodeCell sst c).1.value = (vText c).getD [] := by
  simp [decodeCell, str, h, vText]

theorem decode_n (sst : List Text) (c : Node) (h : c.attr? ['t'] = some ['n']) :
    (decodeCell sst c).1.kind = (if (vText c).isSome then "n" else "") ∧ (decodeCell sst c).1.value = (vText c).getD [] := by
  simp [decodeCell, str, h, vText]

theorem decode_e (sst : List Text) (c : Node) (h : c.attr? ['t'] = some ['e']) :
    (decodeCell sst c).1.kind = (if (vText c).isSome then "e" else "") ∧ (decodeCell sst c).1.value = (vText c).getD [] := by
  simp [decodeCell, str, h, vText]

theorem decode_str (sst : List Text) (c : Node) (h : c.attr? ['t'] = some ['s', 't', 'r']) :
    (decodeCell sst c).1.kind = (if (vText c).isSome then "s" else "") ∧ (decodeCell sst c).1.value = (vText c).getD [] := by
  simp [decodeCell, str, h, vText]

theorem decode_b (sst : List Text) (c : Node) (h : c.attr? ['t'] = some ['b']) :
    (decodeCell sst c).1.kind = (if (vText c).isSome then "b" else "") ∧
    (decodeCell sst c).1.value = (if vText c = some ['1'] ∨ vText c = some ['t', 'r', 'u', 'e'] then ['T', 'R', 'U', 'E']
         else if vText c = some ['0'] ∨ vText c = some ['f', 'a', 'l', 's', 'e'] then ['F', 'A', 'L', 'S', 'E'] else (vText c).getD []) := by
  simp [decodeCell, str, h, vText]

theorem decode_inline (sst : List Text) (c : Node) (h : c.attr? ['t'] = some ['i', 'n', 'l', 'i', 'n', 'e', 'S', 't', 'r']) :
    (decodeCell sst c).1.kind = "s" ∧ (decodeCell sst c).1.value = ((c.kid? "is").map rstText).getD [] := by
  simp [decodeCell, str, h]

theorem decode_s (sst : List Text) (c : Node) (h : c.attr? ['t'] = some ['s']) :
    (decodeCell sst c).1.kind = (match (vText c).bind natOf with | some _ => "s" | none => "") ∧
    (decodeCell sst c).1.value = (match (vText c).bind natOf with | some i => (sst[i]?).getD [] | none => []) := by
  unfold vText
  cases hv : ((c.kid? "v").map (·.ownText)).bind natOf with
  | none => simp [decodeCell, str, h, hv]
  | some i => cases hs : sst[i]? <;> simp [decodeCell, str, h, hv, hs]

/-! the model's value functions on the texts of the valid grammar -/

/-- the `<v>` of a numeric cell: a non-empty text that Rust's f64 parser accepts and that
    `guess_typed_data` does not take for a boolean word or an error code first (`TRUE`, `#N/A`, …; the
    parser also accepts `inf` / `nan`, which `parseF64Ok` models) -/
def numberOk (v : Text) : Bool :=
  v ≠ [] && v.map upcase ≠ ['T', 'R', 'U', 'E'] && v.map upcase ≠ ['F', 'A', 'L', 'S', 'E'] && !(errorLits.contains (v.map upcase)) && Umya.Formula.parseF64Ok v

/-- the error codes of 18.17.3 -/
def errorCodes : List Text :=
  ["#DIV/0!".toList, "#N/A".toList, "#NAME?".toList, "#NULL!".toList, "#NUM!".toList, "#REF!".toList, "#VALUE!".toList]

/-- the lexical forms of xsd:boolean -/
def boolOk (v : Text) : Bool := v = ['0'] || v = ['1'] || v = ['t', 'r', 'u', 'e'] || v = ['f', 'a', 'l', 's', 'e']

theorem guess_number (v : Text) (hn : numberOk v = true) : guessTyped v = .num v := by
  simp only [numberOk, Bool.and_eq_true, decide_eq_true_eq, Bool.not_eq_true', ne_eq] at hn
  obtain ⟨⟨⟨⟨h1, h2⟩, h3⟩, h4⟩, h5⟩ := hn
  have h4' : v.map upcase ∉ errorLits := by simpa using h4
  simp [guessTyped, h1, h2, h3, h4', h5]

theorem guess_error (v : Text) (h : errorCodes.contains v = true) : guessTyped v = .err v := by
  have h' : v ∈ errorCodes := by simpa using h
  simp only [errorCodes, List.mem_cons, List.not_mem_nil, or_false] at h'
  rcases h' with h | h | h | h | h | h | h <;> subst h <;> decide

theorem lastKid_eq (c : Node) (name : String) (h : (c.kids name).length ≤ 1) : lastKid? c name = c.kid? name := by
  unfold lastKid? Node.kid?; exact getLast_head _ h

/-- the `<is>` branch does nothing unless the cell type is `inlineStr` -/
theorem rawOf_not_inline (sst : List (Option Text)) (c : Node) (ht : (c.attr? "t".toList).getD [] ≠ "inlineStr".toList) :
    rawOf sst c = afterV sst ((c.attr? "t".toList).getD []) (lastKid? c "v") := by
  unfold rawOf
  show Option.map _ (afterV sst ((c.attr? "t".toList).getD []) (lastKid? c "v")) = _
  generalize afterV sst ((c.attr? "t".toList).getD []) (lastKid? c "v") = a
  cases a with
  | none => rfl
  | some r =>
    cases lastKid? c "is" with
    | none => rfl
    | some i => simp only [Option.map_some, if_neg ht]

end Umya.Reader.Lemmas
