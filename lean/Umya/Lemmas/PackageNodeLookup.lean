/-
  `Package.part?` on the assembled package of `Umya/Model/PackageNode.lean`, per part name.
-/
import Umya.Lemmas.PackageNodeParts
namespace Umya.PackageNode
open Umya.Xml Umya.CellXml Umya.CellNode Umya.SheetNode Umya.WorkbookNode Umya.Dec
open Umya.Spec.Xml (Node Attr)
open Umya.Spec.Sml

theorem find_cons (a b : List Char) (r : Node) (l : List Part) :
    (xmlPart a r :: l).find? (fun x => x.name = String.ofList b) =
      if a = b then some (xmlPart a r) else l.find? (fun x => x.name = String.ofList b) := by
  by_cases h : a = b
  · subst h; rw [if_pos rfl, find_cons_eq]
  · rw [if_neg h, find_cons_ne _ _ _ _ h]

macro "fskip" : tactic => `(tactic| rw [find_cons, if_neg (by first | decide | (intro e; simp [nApp, nCore, nRootRels, nTheme, nSst, nStyles, nWorkbookPart, nWorkbookRels, nContentTypes, sheetPartL, sheetRelsL] at e))])
macro "fhit" : tactic => `(tactic| rw [find_cons, if_pos rfl])

/-- the shared-string part: absent for an empty table, else the rendered `<sst>` -/
inductive SstShape (tbl : Table) : List Part → Prop where
  | absent : tbl = [] → SstShape tbl []
  | present (root : Node) : tbl ≠ [] → sstNode (tbl.map siOf) = some root → SstShape tbl [xmlPart nSst root]

theorem sstPartsP_shape (tbl : Table) (sst : List Part) (h : sstPartsP tbl = some sst) : SstShape tbl sst := by
  unfold sstPartsP at h
  split at h
  · cases h; exact .absent ‹_›
  · simp only [Option.map_eq_some_iff] at h
    obtain ⟨root, hr, rfl⟩ := h
    exact .present root ‹_› hr

section
variable (F : Umya.Num.NumFmt)

theorem part_assemble (b : BookP F.Num) (hs : Bool) (roots : List Node) (sst : List Part) (nm : List Char) :
    (assemble F b hs roots sst).part? (String.ofList nm) =
      (([xmlPart nApp b.app, xmlPart nCore b.core, xmlPart nRootRels rootRelsNode, xmlPart nTheme b.theme].find? (fun x => x.name = String.ofList nm)).or
       (((sheetParts 1 roots).find? (fun x => x.name = String.ofList nm)).or
        (((sheetRelsParts F 1 b.sheets).find? (fun x => x.name = String.ofList nm)).or
         ((sst.find? (fun x => x.name = String.ofList nm)).or
          ([xmlPart nStyles b.styles,
            xmlPart nWorkbookPart (workbookNode b.wbFrame (b.sheets.map (·.entry)) b.names),
            xmlPart nWorkbookRels (workbookRelsNode b.sheets.length (wbRelsRest b.sheets.length hs)),
            xmlPart nContentTypes (contentTypesNode b.sheets.length hs)].find? (fun x => x.name = String.ofList nm)))))) := by
  simp only [assemble, Package.part?, List.find?_append, Option.or_assoc]

theorem sst_find_other (tbl : Table) (sst : List Part) (h : SstShape tbl sst) (nm : List Char) (hne : nSst ≠ nm) :
    sst.find? (fun x => x.name = String.ofList nm) = none := by
  cases h with
  | absent _ => rfl
  | present root _ _ => rw [find_cons_ne _ _ _ _ hne]; rfl

/-- closed part names that are neither sheet parts nor sheet relationship parts nor the shared strings -/
theorem part_closed (b : BookP F.Num) (hs : Bool) (roots : List Node) (tbl : Table) (sst : List Part) (hsst : SstShape tbl sst) (nm : List Char)
    (h1 : ∀ i, sheetPartL i ≠ nm) (h2 : ∀ i, sheetRelsL i ≠ nm) (h3 : nSst ≠ nm) :
    (assemble F b hs roots sst).part? (String.ofList nm) =
      (([xmlPart nApp b.app, xmlPart nCore b.core, xmlPart nRootRels rootRelsNode, xmlPart nTheme b.theme].find? (fun x => x.name = String.ofList nm)).or
          ([xmlPart nStyles b.styles,
            xmlPart nWorkbookPart (workbookNode b.wbFrame (b.sheets.map (·.entry)) b.names),
            xmlPart nWorkbookRels (workbookRelsNode b.sheets.length (wbRelsRest b.sheets.length hs)),
            xmlPart nContentTypes (contentTypesNode b.sheets.length hs)].find? (fun x => x.name = String.ofList nm))) := by
  rw [part_assemble, sheetParts_find_other nm h1, sheetRelsParts_find_other F nm h2, sst_find_other tbl sst hsst nm h3]
  simp only [Option.none_or]

theorem ne_sheetPart_of_head {nm : List Char} (c : Char) (r : List Char) (h : nm = c :: r) (hc : c ≠ 'x') : ∀ i, sheetPartL i ≠ nm := by
  intro i e; rw [h] at e; simp only [sheetPartL, List.cons.injEq] at e; exact hc e.1.symm

theorem part_rootRels (b : BookP F.Num) (hs : Bool) (roots : List Node) (tbl : Table) (sst : List Part) (hsst : SstShape tbl sst) :
    (assemble F b hs roots sst).part? (String.ofList nRootRels) = some (xmlPart nRootRels rootRelsNode) := by
  rw [part_closed F b hs roots tbl sst hsst nRootRels (by intro i; simp [sheetPartL, nRootRels]) (by intro i; simp [sheetRelsL, nRootRels]) (by decide)]
  fskip; fskip; fhit; rfl

theorem part_app (b : BookP F.Num) (hs : Bool) (roots : List Node) (tbl : Table) (sst : List Part) (hsst : SstShape tbl sst) :
    (assemble F b hs roots sst).part? (String.ofList nApp) = some (xmlPart nApp b.app) := by
  rw [part_closed F b hs roots tbl sst hsst nApp (by intro i; simp [sheetPartL, nApp]) (by intro i; simp [sheetRelsL, nApp]) (by decide)]
  fhit; rfl

theorem part_core (b : BookP F.Num) (hs : Bool) (roots : List Node) (tbl : Table) (sst : List Part) (hsst : SstShape tbl sst) :
    (assemble F b hs roots sst).part? (String.ofList nCore) = some (xmlPart nCore b.core) := by
  rw [part_closed F b hs roots tbl sst hsst nCore (by intro i; simp [sheetPartL, nCore]) (by intro i; simp [sheetRelsL, nCore]) (by decide)]
  fskip; fhit; rfl

theorem part_theme (b : BookP F.Num) (hs : Bool) (roots : List Node) (tbl : Table) (sst : List Part) (hsst : SstShape tbl sst) :
    (assemble F b hs roots sst).part? (String.ofList nTheme) = some (xmlPart nTheme b.theme) := by
  rw [part_closed F b hs roots tbl sst hsst nTheme (by intro i; simp [sheetPartL, nTheme]) (by intro i; simp [sheetRelsL, nTheme]) (by decide)]
  fskip; fskip; fskip; fhit; rfl

theorem part_styles (b : BookP F.Num) (hs : Bool) (roots : List Node) (tbl : Table) (sst : List Part) (hsst : SstShape tbl sst) :
    (assemble F b hs roots sst).part? (String.ofList nStyles) = some (xmlPart nStyles b.styles) := by
  rw [part_closed F b hs roots tbl sst hsst nStyles (by intro i; simp [sheetPartL, nStyles]) (by intro i; simp [sheetRelsL, nStyles]) (by decide)]
  fskip; fskip; fskip; fskip; rw [List.find?_nil, Option.none_or]; fhit

theorem part_workbook (b : BookP F.Num) (hs : Bool) (roots : List Node) (tbl : Table) (sst : List Part) (hsst : SstShape tbl sst) :
    (assemble F b hs roots sst).part? (String.ofList nWorkbookPart) =
      some (xmlPart nWorkbookPart (workbookNode b.wbFrame (b.sheets.map (·.entry)) b.names)) := by
  rw [part_closed F b hs roots tbl sst hsst nWorkbookPart (by intro i; simp [sheetPartL, nWorkbookPart]) (by intro i; simp [sheetRelsL, nWorkbookPart]) (by decide)]
  fskip; fskip; fskip; fskip; rw [List.find?_nil, Option.none_or]; fskip; fhit

theorem part_workbookRels (b : BookP F.Num) (hs : Bool) (roots : List Node) (tbl : Table) (sst : List Part) (hsst : SstShape tbl sst) :
    (assemble F b hs roots sst).part? (String.ofList nWorkbookRels) =
      some (xmlPart nWorkbookRels (workbookRelsNode b.sheets.length (wbRelsRest b.sheets.length hs))) := by
  rw [part_closed F b hs roots tbl sst hsst nWorkbookRels (by intro i; simp [sheetPartL, nWorkbookRels]) (by intro i; simp [sheetRelsL, nWorkbookRels]) (by decide)]
  fskip; fskip; fskip; fskip; rw [List.find?_nil, Option.none_or]; fskip; fskip; fhit

theorem part_contentTypes (b : BookP F.Num) (hs : Bool) (roots : List Node) (tbl : Table) (sst : List Part) (hsst : SstShape tbl sst) :
    (assemble F b hs roots sst).part? (String.ofList nContentTypes) =
      some (xmlPart nContentTypes (contentTypesNode b.sheets.length hs)) := by
  rw [part_closed F b hs roots tbl sst hsst nContentTypes (by intro i; simp [sheetPartL, nContentTypes]) (by intro i; simp [sheetRelsL, nContentTypes]) (by decide)]
  fskip; fskip; fskip; fskip; rw [List.find?_nil, Option.none_or]; fskip; fskip; fskip; fhit

theorem part_sst (b : BookP F.Num) (hs : Bool) (roots : List Node) (tbl : Table) (sst : List Part) (hsst : SstShape tbl sst) :
    (assemble F b hs roots sst).part? (String.ofList nSst) = sst.head? := by
  rw [part_assemble, sheetParts_find_other nSst (by intro i; simp [sheetPartL, nSst]), sheetRelsParts_find_other F nSst (by intro i; simp [sheetRelsL, nSst])]
  cases hsst with
  | absent _ =>
    fskip; fskip; fskip; fskip; rw [List.find?_nil, Option.none_or, Option.none_or, Option.none_or]
    fskip; fskip; fskip; fskip; rfl
  | present root _ _ =>
    fskip; fskip; fskip; fskip; rw [List.find?_nil, Option.none_or, Option.none_or, Option.none_or]
    fhit; rfl

theorem part_sheet (b : BookP F.Num) (hs : Bool) (roots : List Node) (tbl : Table) (sst : List Part) (hsst : SstShape tbl sst)
    (k : Nat) (hk : 1 ≤ k) (root : Node) (hr : roots[k - 1]? = some root) :
    (assemble F b hs roots sst).part? (String.ofList (sheetPartL k)) = some (xmlPart (sheetPartL k) root) := by
  rw [part_assemble, sheetParts_find roots 1 k hk, hr]
  fskip; fskip; fskip; fskip; rw [List.find?_nil, Option.none_or]; rfl

theorem part_sheetRels (b : BookP F.Num) (hs : Bool) (roots : List Node) (tbl : Table) (sst : List Part) (hsst : SstShape tbl sst)
    (k : Nat) (hk : 1 ≤ k) :
    (assemble F b hs roots sst).part? (String.ofList (sheetRelsL k)) =
      (b.sheets[k - 1]?).bind (fun s => (relsRoot s.sheet.links []).map (xmlPart (sheetRelsL k))) := by
  rw [part_assemble, sheetParts_find_other (sheetRelsL k) (fun i => sheetPart_ne_sheetRels i k), sheetRelsParts_find F b.sheets 1 k hk,
    sst_find_other tbl sst hsst _ (by simp [sheetRelsL, nSst])]
  have h1 : [xmlPart nApp b.app, xmlPart nCore b.core, xmlPart nRootRels rootRelsNode, xmlPart nTheme b.theme].find? (fun x => x.name = String.ofList (sheetRelsL k)) = none := by
    fskip; fskip; fskip; fskip; rfl
  have h2 : [xmlPart nStyles b.styles,
            xmlPart nWorkbookPart (workbookNode b.wbFrame (b.sheets.map (·.entry)) b.names),
            xmlPart nWorkbookRels (workbookRelsNode b.sheets.length (wbRelsRest b.sheets.length hs)),
            xmlPart nContentTypes (contentTypesNode b.sheets.length hs)].find? (fun x => x.name = String.ofList (sheetRelsL k)) = none := by
    fskip; fskip; fskip; fskip; rfl
  rw [h1, h2]
  simp

/-- every part of the package, classified -/
theorem parts_classified (b : BookP F.Num) (hs : Bool) (roots : List Node) (tbl : Table) (sst : List Part) (hsst : SstShape tbl sst)
    (part : Part) (h : part ∈ assemble F b hs roots sst) :
    (∃ nm r, part = xmlPart nm r ∧ nm ∈ [nApp, nCore, nRootRels, nTheme, nSst, nStyles, nWorkbookPart, nWorkbookRels, nContentTypes]) ∨
    (∃ j r, 1 ≤ j ∧ j < 1 + roots.length ∧ part = xmlPart (sheetPartL j) r) ∨
    (∃ j s rr, 1 ≤ j ∧ b.sheets[j - 1]? = some s ∧ relsRoot s.sheet.links [] = some rr ∧ part = xmlPart (sheetRelsL j) rr) := by
  simp only [assemble, List.mem_append] at h
  rcases h with (((h | h) | h) | h) | h
  · simp only [List.mem_cons, List.not_mem_nil, or_false] at h
    rcases h with rfl | rfl | rfl | rfl
    all_goals exact Or.inl ⟨_, _, rfl, by simp⟩
  · exact Or.inr (Or.inl (sheetParts_names roots 1 part h))
  · exact Or.inr (Or.inr (sheetRelsParts_names F b.sheets 1 part h))
  · cases hsst with
    | absent _ => simp at h
    | present root _ _ =>
      simp only [List.mem_singleton] at h
      exact Or.inl ⟨_, _, h, by simp⟩
  · simp only [List.mem_cons, List.not_mem_nil, or_false] at h
    rcases h with rfl | rfl | rfl | rfl
    all_goals exact Or.inl ⟨_, _, rfl, by simp⟩

end
end Umya.PackageNode
