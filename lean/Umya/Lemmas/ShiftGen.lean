/-
  The kernels regenerated from the current Rust source by tools/extract.py (`Umya.Gen.*`) compute
  exactly what the hand-written sheet model uses (`Umya.Sheet.adjIns/adjRem/isRem/…`).
  These proofs run against whatever the translator produced on this run: an equivalent rewrite of a
  kernel still proves, a changed comparison or operator does not.
-/
import Umya.Model.Gen.Kernels
import Umya.Model.Sheet
namespace Umya.Gen
open Umya.Coord (Res)
open Umya.Sheet

theorem gen_insert (n r o : Nat) : adjustment_insert_coordinate n r o = .ok (adjIns n r o) := by
  unfold adjustment_insert_coordinate adjIns
  by_cases h1 : n ≥ r <;> by_cases h2 : o = 0 <;> (simp [rIte, rAnd, rOr, rNot, rGe, rGt, rLe, rLt, rEq, rNe, rAdd, rSub, Res.bind, h1, h2] <;> try omega)

theorem gen_remove (n r o : Nat) : adjustment_remove_coordinate n r o = adjRem n r o := by
  unfold adjustment_remove_coordinate adjRem
  by_cases h1 : n ≥ r <;> by_cases h2 : o = 0 <;> by_cases h3 : o ≤ n <;>
    (simp [rIte, rAnd, rOr, rNot, rGe, rGt, rLe, rLt, rEq, rNe, rAdd, rSub, Res.bind, h1, h2, h3] <;> try omega)

theorem gen_is_remove (n r o : Nat) : is_remove_coordinate n r o = .ok (isRem n r o) := by
  unfold is_remove_coordinate isRem
  by_cases h1 : r = 0 <;> by_cases h2 : o = 0 <;> by_cases h3 : n ≥ r <;> by_cases h4 : n < r + o <;>
    (simp [rIte, rAnd, rOr, rNot, rGe, rGt, rLe, rLt, rEq, rNe, rAdd, rSub, Res.bind, h1, h2, h3, h4] <;> try omega)

theorem gen_row_insert (n r o : Nat) : row_adjustment_insert_value n r o = .ok (adjInsV n r o) := by
  unfold row_adjustment_insert_value adjInsV
  by_cases h1 : n ≥ r <;> (simp [rIte, rAnd, rOr, rNot, rGe, rGt, rLe, rLt, rEq, rNe, rAdd, rSub, Res.bind, h1] <;> try omega)

theorem gen_row_remove (n r o : Nat) : row_adjustment_remove_value n r o = adjRemV n r o := by
  unfold row_adjustment_remove_value adjRemV
  by_cases h1 : n ≥ r <;> by_cases h3 : o ≤ n <;> (simp [rIte, rAnd, rOr, rNot, rGe, rGt, rLe, rLt, rEq, rNe, rAdd, rSub, Res.bind, h1, h3] <;> try omega)

theorem gen_row_is_remove (n r o : Nat) : row_is_remove_value n r o = isRemV n r o := by
  unfold row_is_remove_value isRemV
  by_cases h1 : n ≥ r <;> by_cases h2 : 1 ≤ r + o <;> by_cases h3 : n ≤ r + o - 1 <;>
    (simp [rIte, rAnd, rOr, rNot, rGe, rGt, rLe, rLt, rEq, rNe, rAdd, rSub, Res.bind, h1, h2, h3] <;> try omega)

theorem gen_col_insert (n r o : Nat) : column_adjustment_insert_value n r o = .ok (adjInsV n r o) := by
  unfold column_adjustment_insert_value adjInsV
  by_cases h1 : n ≥ r <;> (simp [rIte, rAnd, rOr, rNot, rGe, rGt, rLe, rLt, rEq, rNe, rAdd, rSub, Res.bind, h1] <;> try omega)

theorem gen_col_remove (n r o : Nat) : column_adjustment_remove_value n r o = adjRemV n r o := by
  unfold column_adjustment_remove_value adjRemV
  by_cases h1 : n ≥ r <;> by_cases h3 : o ≤ n <;> (simp [rIte, rAnd, rOr, rNot, rGe, rGt, rLe, rLt, rEq, rNe, rAdd, rSub, Res.bind, h1, h3] <;> try omega)

theorem gen_col_is_remove (n r o : Nat) : column_is_remove_value n r o = isRemV n r o := by
  unfold column_is_remove_value isRemV
  by_cases h1 : n ≥ r <;> by_cases h2 : 1 ≤ r + o <;> by_cases h3 : n ≤ r + o - 1 <;>
    (simp [rIte, rAnd, rOr, rNot, rGe, rGt, rLe, rLt, rEq, rNe, rAdd, rSub, Res.bind, h1, h2, h3] <;> try omega)

end Umya.Gen
