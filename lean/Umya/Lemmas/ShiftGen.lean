/-
  The kernels regenerated from the current Rust source by tools/extract.py (`Umya.Gen.*`) compute
  exactly what the hand-written sheet model uses (`Umya.Sheet.adjIns/adjRem/isRem/…`).
  These proofs run against whatever the translator produced on this run: an equivalent rewrite of a
  kernel still proves (swapped branches under a negated condition, early returns, reordered or regrouped
  comparisons, hoisted locals), a changed comparison or operator does not.

  The proof script does not follow the shape of the generated term: it unfolds the result combinators to
  `if`s over arithmetic propositions, splits EVERY conditional on both sides, and leaves linear arithmetic
  to `omega`.
-/
import Umya.Model.Gen.Kernels
import Umya.Model.Sheet
namespace Umya.Gen
open Umya.Coord (Res)
open Umya.Sheet

theorem bind_ok' {α β} (a : α) (f : α → Res β) : Res.bind (.ok a) f = f a := rfl
theorem bind_panic' {α β} (f : α → Res β) : Res.bind (.panic : Res α) f = .panic := rfl
theorem bind_ite' {α β} (c : Prop) [Decidable c] (a b : Res α) (f : α → Res β) :
    Res.bind (if c then a else b) f = if c then Res.bind a f else Res.bind b f := by
  split <;> rfl

/-- unfold the combinators (pushing `bind` through every `if`), split every `if` of both sides, close by
    `simp_all` + `omega` -/
macro "kernel_eq" : tactic => `(tactic|
  (simp only [rIte, rAnd, rOr, rNot, rGe, rGt, rLe, rLt, rEq, rNe, rAdd, rSub, bind_ok', bind_panic', bind_ite',
      Bool.and_eq_true, Bool.or_eq_true, decide_eq_true_eq, Bool.not_eq_true', decide_eq_false_iff_not,
      Bool.true_eq_false, Bool.false_eq_true, if_true, if_false, ite_true, ite_false]
   repeat' split
   all_goals (first
     | rfl
     | omega
     | (simp_all <;> omega)
     | (simp_all)
     | (exfalso; simp_all <;> omega))))

theorem gen_insert (n r o : Nat) : adjustment_insert_coordinate n r o = .ok (adjIns n r o) := by
  unfold adjustment_insert_coordinate adjIns
  kernel_eq

theorem gen_remove (n r o : Nat) : adjustment_remove_coordinate n r o = adjRem n r o := by
  unfold adjustment_remove_coordinate adjRem
  kernel_eq

theorem gen_is_remove (n r o : Nat) : is_remove_coordinate n r o = .ok (isRem n r o) := by
  unfold is_remove_coordinate isRem
  kernel_eq

theorem gen_row_insert (n r o : Nat) : row_adjustment_insert_value n r o = .ok (adjInsV n r o) := by
  unfold row_adjustment_insert_value adjInsV
  kernel_eq

theorem gen_row_remove (n r o : Nat) : row_adjustment_remove_value n r o = adjRemV n r o := by
  unfold row_adjustment_remove_value adjRemV
  kernel_eq

theorem gen_row_is_remove (n r o : Nat) : row_is_remove_value n r o = isRemV n r o := by
  unfold row_is_remove_value isRemV
  kernel_eq

theorem gen_col_insert (n r o : Nat) : column_adjustment_insert_value n r o = .ok (adjInsV n r o) := by
  unfold column_adjustment_insert_value adjInsV
  kernel_eq

theorem gen_col_remove (n r o : Nat) : column_adjustment_remove_value n r o = adjRemV n r o := by
  unfold column_adjustment_remove_value adjRemV
  kernel_eq

theorem gen_col_is_remove (n r o : Nat) : column_is_remove_value n r o = isRemV n r o := by
  unfold column_is_remove_value isRemV
  kernel_eq

end Umya.Gen
