/-
  Helper lemmas for `Umya/Thm/C02Sheet.lean`, part 4: `decodeSheet` on the `<worksheet>` tree the model of
  worksheet.rs renders, inside a package that holds the relationships part the model of worksheet_rels.rs
  renders for the same links.
-/
import Umya.Lemmas.SheetNodeSheet
namespace Umya.SheetNode
open Umya.CellXml Umya.CellNode Umya.Dec Umya.Coord
open Umya.Spec.Sml
open Umya.Spec.Xml (Node Attr localName)

/-! ## the frame hypotheses, unpacked -/

theorem frame_segs (fr : Frame) (h : fr.ok = true) :
    Seg 0 4 fr.pre ∧ Seg 6 13 fr.mid1 ∧ Seg 16 17 fr.mid2 ∧ Seg 19 38 fr.post ∧ (∀ k ∈ fr.post, idxOf k ≠ 37) := by
  unfold Frame.ok at h
  simp only [Bool.and_eq_true] at h
  obtain ⟨⟨⟨⟨⟨⟨⟨h1, h2⟩, h3⟩, h4⟩, h5⟩, h6⟩, h7⟩, h8⟩ := h
  refine ⟨seg_of_opaque _ _ _ h1 h2, seg_of_opaque _ _ _ h3 h4, seg_of_opaque _ _ _ h5 h6, seg_of_opaque2 _ h7 h8, ?_⟩
  intro k hk
  have := List.all_eq_true.1 h7 k hk
  simp only [Bool.or_eq_true] at this
  rcases this with h | h
  · have := opaqueOk_spec _ _ k h; omega
  · have := opaqueOk_spec _ _ k h; omega

theorem seg_mergeNodes (merges : List (List Char)) : Seg 14 14 (mergeNodes merges) := by
  unfold mergeNodes
  split
  · exact seg_nil _ _
  · exact seg_single _ 14 rfl rfl

theorem seg_hyperlinkNodes (links : List LinkW) : Seg 18 18 (hyperlinkNodes links) := by
  unfold hyperlinkNodes
  split
  · exact seg_nil _ _
  · exact seg_single _ 18 rfl rfl

theorem seg_phoneticPr : Seg 15 15 [phoneticPr] := seg_single _ 15 rfl (by decide)

theorem seg_sheetData (ns : List Node) : Seg 5 5 [Node.elem nSheetData [] ns] := seg_single _ 5 rfl rfl

theorem mergeNodes_self (merges : List (List Char)) : (mergeNodes merges).filter (isKid nMergeCells) = mergeNodes merges := by
  unfold mergeNodes
  split
  · rfl
  · have : isKid nMergeCells (Node.elem nMergeCells [⟨['c', 'o', 'u', 'n', 't'], decDigits merges.length⟩]
        (merges.map fun m => Node.elem nMergeCell [⟨['r', 'e', 'f'], m⟩] [])) = true := by rw [isKid_elem]; decide
    simp only [List.filter_cons, this, if_true, List.filter_nil]

theorem hyperlinkNodes_self (links : List LinkW) : (hyperlinkNodes links).filter (isKid nHyperlinks) = hyperlinkNodes links := by
  unfold hyperlinkNodes
  split
  · rfl
  · have : isKid nHyperlinks (Node.elem nHyperlinks [] (hlWalk 1 links)) = true := by rw [isKid_elem]; decide
    simp only [List.filter_cons, this, if_true, List.filter_nil]

/-! ## `r:id` users -/

def RidFine (rels : List Rel) (k : Node) : Prop :=
  ∀ rid, k.attr? ['r', ':', 'i', 'd'] = some rid → rels.any (fun (r : Rel) => r.id = str rid) = true

theorem relIds_view (links : List LinkW) (rest : List Node) :
    relIds (relWalk 1 links ++ rest) = (relsView links rest).map (·.id) := by
  simp only [relIds, relsView, List.map_map]
  rfl

theorem ridFine_of_ok (links : List LinkW) (rest : List Node) (fr : Frame)
    (h : fr.ridsOk (relIds (relWalk 1 links ++ rest)) = true) : ∀ k ∈ fr.kids, RidFine (relsView links rest) k := by
  intro k hk rid hrid
  unfold Frame.ridsOk at h
  have := List.all_eq_true.1 h k hk
  rw [hrid] at this
  simp only [relIds_view, List.contains_eq_mem, List.mem_map, decide_eq_true_eq] at this
  obtain ⟨r, hr, hid⟩ := this
  rw [List.any_eq_true]
  exact ⟨r, hr, by simp [hid]⟩

theorem relIds_append (a b : List Node) : relIds (a ++ b) = relIds a ++ relIds b := by
  simp [relIds, List.filter_append]

/-- more relationships in front do not hurt -/
theorem ridsOk_append_right (ids ids' : List String) (fr : Frame) (h : fr.ridsOk ids' = true) : fr.ridsOk (ids ++ ids') = true := by
  unfold Frame.ridsOk at h ⊢
  rw [List.all_eq_true] at h ⊢
  intro k hk
  have := h k hk
  cases hr : k.attr? ['r', ':', 'i', 'd'] with
  | none => rfl
  | some rid =>
    rw [hr] at this
    simp only [List.contains_eq_mem, List.mem_append, decide_eq_true_eq] at this ⊢
    exact Or.inr this

theorem ridFine_noattr (rels : List Rel) (k : Node) (h : k.attr? ['r', ':', 'i', 'd'] = none) : RidFine rels k := by
  intro rid hr; rw [h] at hr; cases hr

theorem e5_nil (path : String) (rels : List Rel) (nm : List Char) (as : List Attr) (l : List Node)
    (h : ∀ k ∈ l, RidFine rels k) : dsE5 path rels (Node.elem nm as l) = [] := by
  unfold dsE5
  apply List.filterMap_eq_nil_iff.2
  intro k hk
  have hk' : k ∈ l := (List.mem_filter.1 (List.mem_filter.1 hk).1).1
  cases hr : k.attr? ['r', ':', 'i', 'd'] with
  | none => rfl
  | some rid => simp [h k hk' rid hr]

/-! ## the whole sheet -/

section
variable (F : Umya.Num.NumFmt)

/-- the groups of a well-formed sheet satisfy the per-row conditions -/
theorem groups_ok (s : SheetW F.Num) (hwf : s.WF) : ∀ g ∈ rowGroups s.rows s.cells, GroupOk F g := by
  intro g hg
  have hsub := rowGroups_sublist s.rows s.cells g hg
  refine ⟨rowGroups_row s.rows s.cells g hg, ?_, fun c hc => hwf.cellsIn c (hsub.subset hc)⟩
  have hp := hwf.cellsAsc.sublist hsub
  have hrow := rowGroups_row s.rows s.cells g hg
  refine (List.Pairwise.and_mem.1 hp).imp ?_
  intro a b hab
  obtain ⟨ha, hb, hlt⟩ := hab
  have := hrow a ha
  have := hrow b hb
  omega

theorem cells_row_le (s : SheetW F.Num) (hwf : s.WF) : s.cells.Pairwise (fun a b => a.row ≤ b.row) :=
  hwf.cellsAsc.imp (fun h => by omega)

theorem cellViews_flat (xf : List Char → Nat) (gs : List (RowW × List (Cell F.Num))) :
    (gs.map (fun g => (cellViews F xf g.2, ([] : List String)))).flatMap (·.1) = cellViews F xf (gs.flatMap (·.2)) := by
  induction gs with
  | nil => rfl
  | cons g gs ih =>
    simp only [List.map_cons, List.flatMap_cons, ih]
    simp [cellViews]

theorem errs_flat {α} (f : α → List CellV) (gs : List α) :
    (gs.map (fun g => (f g, ([] : List String)))).flatMap (·.2) = [] := by
  induction gs with
  | nil => rfl
  | cons g gs ih => simp only [List.map_cons, List.flatMap_cons, ih]; rfl

theorem cellViews_shared (xf : List Char → Nat) (cs : List (Cell F.Num)) : ∀ v ∈ cellViews F xf cs, v.shared = none := by
  intro v hv
  simp only [cellViews, List.mem_map] at hv
  obtain ⟨c, _, rfl⟩ := hv
  rfl

/-- `decodeSheet` on the rendered worksheet -/
theorem renderSheet_decodes (xf : List Char → Nat) (fr : Frame) (tbl : Table) (s : SheetW F.Num) (hwf : s.WF)
    (tbl' : Table) (root : Node) (h : renderSheet F xf fr tbl s = some (tbl', root))
    (nXf nDxf : Nat) (hn : 0 < nXf) (hxf : ∀ ref, xf ref < nXf) (rest : List Node)
    (hfr : fr.ok = true) (hcols : fr.colsOk nXf = true) (hdxf : fr.dxfOk nDxf = true)
    (hrid : fr.ridsOk (relIds (relWalk 1 s.links ++ rest)) = true)
    (p : Package) (path : String)
    (hp : (p.part? path).bind (·.xml) = some root)
    (hr : (p.part? (relsNameOf path)).bind (·.xml) = relsRoot s.links rest)
    (sst : Table) (hx : Extends sst tbl') :
    decodeSheet p path (sst.map itemText) nXf nDxf =
      ({ cells := cellViews F xf s.cells, merges := s.merges, links := s.links.map linkView,
         cols := colVsOf fr.colNodes, rows := s.rows.map rowView, tables := [], noR := false }, []) := by
  -- the writer side
  unfold renderSheet at h
  cases hw : writeRows F tbl (rowGroups s.rows s.cells) with
  | none => simp [hw] at h
  | some q =>
    obtain ⟨t1, ws⟩ := q
    simp only [hw] at h
    obtain ⟨_, rowNodes, hrn, hall⟩ := writeRows_decodes F xf _ tbl t1 ws hw
    simp only [sheetDataNode, hrn, Option.map_some, Option.some.injEq, Prod.mk.injEq] at h
    obtain ⟨ht, hroot⟩ := h
    subst ht
    -- the children
    obtain ⟨spre, smid1, smid2, spost, hpost37⟩ := frame_segs fr hfr
    have ssd := seg_sheetData rowNodes
    have smc := seg_mergeNodes s.merges
    have sph := seg_phoneticPr
    have shl := seg_hyperlinkNodes s.links
    have hseg : Seg 0 38 (fr.pre ++ [Node.elem nSheetData [] rowNodes] ++ fr.mid1 ++ mergeNodes s.merges ++ [phoneticPr] ++
        fr.mid2 ++ hyperlinkNodes s.links ++ fr.post) :=
      seg_append (seg_append (seg_append (seg_append (seg_append (seg_append (seg_append spre ssd (by omega) (by omega) (by omega))
        smid1 (by omega) (by omega) (by omega)) smc (by omega) (by omega) (by omega)) sph (by omega) (by omega) (by omega))
        smid2 (by omega) (by omega) (by omega)) shl (by omega) (by omega) (by omega)) spost (by omega) (by omega) (by omega)
    -- look-ups by name
    have fsd : kidL root nSheetData = some (Node.elem nSheetData [] rowNodes) := by
      rw [← hroot]
      simp only [kidL, kidsL, worksheetNode, Node.children, List.filter_append,
        seg_no nSheetData 5 rfl spre (by omega), seg_no nSheetData 5 rfl smid1 (by omega), seg_no nSheetData 5 rfl smc (by omega),
        seg_no nSheetData 5 rfl sph (by omega), seg_no nSheetData 5 rfl smid2 (by omega), seg_no nSheetData 5 rfl shl (by omega),
        seg_no nSheetData 5 rfl spost (by omega)]
      rfl
    have fcols : kidL root ['c', 'o', 'l', 's'] = (fr.pre.filter (isKid ['c', 'o', 'l', 's'])).head? := by
      rw [← hroot]
      simp only [kidL, kidsL, worksheetNode, Node.children, List.filter_append,
        seg_no ['c', 'o', 'l', 's'] 4 rfl ssd (by omega), seg_no ['c', 'o', 'l', 's'] 4 rfl smid1 (by omega),
        seg_no ['c', 'o', 'l', 's'] 4 rfl smc (by omega), seg_no ['c', 'o', 'l', 's'] 4 rfl sph (by omega),
        seg_no ['c', 'o', 'l', 's'] 4 rfl smid2 (by omega), seg_no ['c', 'o', 'l', 's'] 4 rfl shl (by omega),
        seg_no ['c', 'o', 'l', 's'] 4 rfl spost (by omega), List.append_nil]
    have fmc : kidL root nMergeCells = (mergeNodes s.merges).head? := by
      rw [← hroot]
      simp only [kidL, kidsL, worksheetNode, Node.children, List.filter_append,
        seg_no nMergeCells 14 rfl spre (by omega), seg_no nMergeCells 14 rfl ssd (by omega), seg_no nMergeCells 14 rfl smid1 (by omega),
        seg_no nMergeCells 14 rfl sph (by omega), seg_no nMergeCells 14 rfl smid2 (by omega), seg_no nMergeCells 14 rfl shl (by omega),
        seg_no nMergeCells 14 rfl spost (by omega), mergeNodes_self, List.append_nil, List.nil_append]
    have fhl : kidL root nHyperlinks = (hyperlinkNodes s.links).head? := by
      rw [← hroot]
      simp only [kidL, kidsL, worksheetNode, Node.children, List.filter_append,
        seg_no nHyperlinks 18 rfl spre (by omega), seg_no nHyperlinks 18 rfl ssd (by omega), seg_no nHyperlinks 18 rfl smid1 (by omega),
        seg_no nHyperlinks 18 rfl smc (by omega), seg_no nHyperlinks 18 rfl sph (by omega), seg_no nHyperlinks 18 rfl smid2 (by omega),
        seg_no nHyperlinks 18 rfl spost (by omega), hyperlinkNodes_self, List.append_nil, List.nil_append]
    have fcf : kidsL root ['c', 'o', 'n', 'd', 'i', 't', 'i', 'o', 'n', 'a', 'l', 'F', 'o', 'r', 'm', 'a', 't', 't', 'i', 'n', 'g']
        = fr.mid2.filter (isKid ['c', 'o', 'n', 'd', 'i', 't', 'i', 'o', 'n', 'a', 'l', 'F', 'o', 'r', 'm', 'a', 't', 't', 'i', 'n', 'g']) := by
      rw [← hroot]
      simp only [kidsL, worksheetNode, Node.children, List.filter_append,
        seg_no ['c', 'o', 'n', 'd', 'i', 't', 'i', 'o', 'n', 'a', 'l', 'F', 'o', 'r', 'm', 'a', 't', 't', 'i', 'n', 'g'] 16 rfl spre (by omega), seg_no ['c', 'o', 'n', 'd', 'i', 't', 'i', 'o', 'n', 'a', 'l', 'F', 'o', 'r', 'm', 'a', 't', 't', 'i', 'n', 'g'] 16 rfl ssd (by omega), seg_no ['c', 'o', 'n', 'd', 'i', 't', 'i', 'o', 'n', 'a', 'l', 'F', 'o', 'r', 'm', 'a', 't', 't', 'i', 'n', 'g'] 16 rfl smid1 (by omega),
        seg_no ['c', 'o', 'n', 'd', 'i', 't', 'i', 'o', 'n', 'a', 'l', 'F', 'o', 'r', 'm', 'a', 't', 't', 'i', 'n', 'g'] 16 rfl smc (by omega), seg_no ['c', 'o', 'n', 'd', 'i', 't', 'i', 'o', 'n', 'a', 'l', 'F', 'o', 'r', 'm', 'a', 't', 't', 'i', 'n', 'g'] 16 rfl sph (by omega), seg_no ['c', 'o', 'n', 'd', 'i', 't', 'i', 'o', 'n', 'a', 'l', 'F', 'o', 'r', 'm', 'a', 't', 't', 'i', 'n', 'g'] 16 rfl shl (by omega),
        seg_no ['c', 'o', 'n', 'd', 'i', 't', 'i', 'o', 'n', 'a', 'l', 'F', 'o', 'r', 'm', 'a', 't', 't', 'i', 'n', 'g'] 16 rfl spost (by omega), List.append_nil, List.nil_append]
    have ftp : kidL root ['t', 'a', 'b', 'l', 'e', 'P', 'a', 'r', 't', 's'] = none := by
      rw [← hroot]
      have hpost : fr.post.filter (isKid ['t', 'a', 'b', 'l', 'e', 'P', 'a', 'r', 't', 's']) = [] :=
        seg_filter_none ['t', 'a', 'b', 'l', 'e', 'P', 'a', 'r', 't', 's'] 37 rfl fr.post (fun k hk _ => hpost37 k hk) (fun k hk => (spost.1 k hk).1.2)
      simp only [kidL, kidsL, worksheetNode, Node.children, List.filter_append,
        seg_no ['t', 'a', 'b', 'l', 'e', 'P', 'a', 'r', 't', 's'] 37 rfl spre (by omega), seg_no ['t', 'a', 'b', 'l', 'e', 'P', 'a', 'r', 't', 's'] 37 rfl ssd (by omega), seg_no ['t', 'a', 'b', 'l', 'e', 'P', 'a', 'r', 't', 's'] 37 rfl smid1 (by omega),
        seg_no ['t', 'a', 'b', 'l', 'e', 'P', 'a', 'r', 't', 's'] 37 rfl smc (by omega), seg_no ['t', 'a', 'b', 'l', 'e', 'P', 'a', 'r', 't', 's'] 37 rfl sph (by omega), seg_no ['t', 'a', 'b', 'l', 'e', 'P', 'a', 'r', 't', 's'] 37 rfl smid2 (by omega),
        seg_no ['t', 'a', 'b', 'l', 'e', 'P', 'a', 'r', 't', 's'] 37 rfl shl (by omega), hpost, List.append_nil]
      rfl
    -- rows
    have hrows : dsRows root = rowNodes := by
      simp only [dsRows, fsd, Option.map_some, Option.getD_some, kidsL, Node.children]
      exact all2_isRow F hall
    have hnums : rowNumbers 0 rowNodes = (rowGroups s.rows s.cells).map (·.1.num) := rowNumbers_rendered F hall 0
    have hnums' : (rowGroups s.rows s.cells).map (·.1.num) = s.rows.map (·.num) := by
      have := congrArg (List.map (·.num)) (rowGroups_rows s.rows s.cells)
      rw [List.map_map] at this
      exact this
    have hper : dsPerRow path (sst.map itemText) nXf rowNodes
        = (rowGroups s.rows s.cells).map (fun g => (cellViews F xf g.2, [])) := by
      unfold dsPerRow
      rw [hnums]
      exact perRow_all F path nXf xf t1 sst hx hn hxf hall (groups_ok F s hwf)
    have hflat : (rowGroups s.rows s.cells).flatMap (·.2) = s.cells := by
      apply rowGroups_all _ _ hwf.rowsAsc (cells_row_le F s hwf)
      intro c hc; exact hwf.rowKnown c hc
    have hcells : expandShared [] ((dsPerRow path (sst.map itemText) nXf rowNodes).flatMap (·.1)) = cellViews F xf s.cells := by
      rw [hper, cellViews_flat, hflat, expandShared_id _ _ (cellViews_shared F xf s.cells)]
    have herrs : (dsPerRow path (sst.map itemText) nXf rowNodes).flatMap (·.2) = [] := by
      rw [hper]; exact errs_flat _ _
    have hrowVs : dsRowVs rowNodes = s.rows.map rowView := by
      unfold dsRowVs
      rw [hnums, rowVs_all F hall]
      have := congrArg (List.map rowView) (rowGroups_rows s.rows s.cells)
      rw [List.map_map] at this
      exact this
    have he2 : dsE2 path rowNodes = [] := by
      unfold dsE2
      rw [hnums, hnums', ascending_of_pairwise _ (by rw [List.pairwise_map]; exact hwf.rowsAsc)]
      rfl
    have he2b : dsE2b path rowNodes = [] := by
      unfold dsE2b
      have : ((rowNumbers 0 rowNodes).all (fun r => decide (1 ≤ r ∧ r ≤ 1048576))) = true := by
        rw [hnums, hnums', List.all_eq_true]
        intro n hn'
        obtain ⟨r, hr', rfl⟩ := List.mem_map.1 hn'
        exact decide_eq_true (hwf.rowsIn r hr')
      rw [this]
      rfl
    -- names and order
    have he1 := e1_nil path nWorksheet fr.attrs _ hseg
    rw [show Node.elem nWorksheet fr.attrs (fr.pre ++ [Node.elem nSheetData [] rowNodes] ++ fr.mid1 ++ mergeNodes s.merges ++
        [phoneticPr] ++ fr.mid2 ++ hyperlinkNodes s.links ++ fr.post) = root from hroot] at he1
    -- merged ranges, hyperlinks
    have hrels := relsOf_rendered p path s.links rest hr
    have hmerges : dsMerges root = s.merges := by
      unfold dsMerges
      rw [fmc]
      exact merges_decode s.merges
    have hlinks : dsLinksE path (relsView s.links rest) root = s.links.map (fun l => (linkView l, [])) := by
      unfold dsLinksE
      rw [fhl]
      exact hyperlinks_decode path s.links rest
    -- cols, dxf, tables, r:id users
    have hcolvs : dsColVs root = colVsOf fr.colNodes := by
      unfold dsColVs
      rw [fcols]
      rfl
    have he3b : dsE3b path nXf root = [] := by
      unfold dsE3b
      rw [hcolvs]
      have : (colVsOf fr.colNodes).all (fun c => decide (1 ≤ c.min ∧ c.min ≤ c.max ∧ c.max ≤ 16384 ∧ c.style < nXf)) = true := hcols
      rw [this]
      rfl
    have he6 : dsE6 path nDxf root = [] := by
      unfold dsE6
      have hd : dsDxfIds root = fr.dxfIds := by
        unfold dsDxfIds
        rw [fcf]
        rfl
      rw [hd]
      have : fr.dxfIds.all (fun x => decide (x < nDxf)) = true := hdxf
      rw [this]
      rfl
    have htables : dsTables p path (relsView s.links rest) root = [] := by
      unfold dsTables
      rw [ftp]
      rfl
    have he5 : dsE5 path (relsView s.links rest) root = [] := by
      rw [← hroot]
      apply e5_nil
      intro k hk
      have hop := ridFine_of_ok s.links rest fr hrid
      simp only [List.mem_append, List.mem_singleton] at hk
      have hmem : ∀ k', (k' ∈ fr.pre ∨ k' ∈ fr.mid1 ∨ k' ∈ fr.mid2 ∨ k' ∈ fr.post) → k' ∈ fr.kids := by
        intro k' h'
        simp only [Frame.kids, List.mem_append]
        rcases h' with h' | h' | h' | h'
        · exact Or.inl (Or.inl (Or.inl h'))
        · exact Or.inl (Or.inl (Or.inr h'))
        · exact Or.inl (Or.inr h')
        · exact Or.inr h'
      rcases hk with ((((((hk | hk) | hk) | hk) | hk) | hk) | hk) | hk
      · exact hop k (hmem k (Or.inl hk))
      · subst hk; exact ridFine_noattr _ _ rfl
      · exact hop k (hmem k (Or.inr (Or.inl hk)))
      · unfold mergeNodes at hk
        split at hk
        · simp at hk
        · simp only [List.mem_singleton] at hk; subst hk; exact ridFine_noattr _ _ (by simp [Node.attr?, Node.attrs])
      · subst hk; exact ridFine_noattr _ _ (by decide)
      · exact hop k (hmem k (Or.inr (Or.inr (Or.inl hk))))
      · unfold hyperlinkNodes at hk
        split at hk
        · simp at hk
        · simp only [List.mem_singleton] at hk; subst hk; exact ridFine_noattr _ _ rfl
      · exact hop k (hmem k (Or.inr (Or.inr (Or.inr hk))))
    -- assemble
    rw [decodeSheet_anatomy p path _ nXf nDxf root hp, hrels, hrows, hcells, herrs, hrowVs, he2, he2b, he1.1, he1.2, hmerges,
      hlinks, hcolvs, he3b, he6, htables, he5, noR_all F hall]
    simp

end

end Umya.SheetNode
