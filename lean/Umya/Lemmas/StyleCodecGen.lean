/-
  (T) The enum string tables of the style codec model equal the tables `tools/extract_tables.py` regenerated from
  the current source (`EnumTrait::get_value_string`, `FromStr::from_str`, `Default`) on this run.
-/
import Umya.Model.StyleCodec
import Umya.Model.Gen.Tables
namespace Umya.StyleCodec

/-- what the source says about one enum, computed from the hand model: (variant ↦ text) in declaration order,
    (text ↦ variant) in the order of the `from_str` arms, the default variant -/
def enumSpec {ε : Type} (all : List ε) (ctor : ε → String) (toStr : ε → String) (fromTable : List (String × ε)) (dflt : ε) :
    List (String × String) × List (String × String) × String :=
  (all.map (fun v => (ctor v, toStr v)), fromTable.map (fun p => (p.1, ctor p.2)), ctor dflt)

theorem gen_style_enums :
    Umya.Gen.enum_underline_values = enumSpec Underline.all Underline.ctor Underline.toStr Underline.fromTable .single ∧
    Umya.Gen.enum_font_scheme_values = enumSpec FontScheme.all FontScheme.ctor FontScheme.toStr FontScheme.fromTable .none ∧
    Umya.Gen.enum_vertical_alignment_run_values = enumSpec VertRun.all VertRun.ctor VertRun.toStr VertRun.fromTable .baseline ∧
    Umya.Gen.enum_pattern_values = enumSpec Pattern.all Pattern.ctor Pattern.toStr Pattern.fromTable .none ∧
    Umya.Gen.enum_border_style_values = enumSpec BorderStyle.all BorderStyle.ctor BorderStyle.toStr BorderStyle.fromTable .none ∧
    Umya.Gen.enum_horizontal_alignment_values = enumSpec HAlign.all HAlign.ctor HAlign.toStr HAlign.fromTable .general ∧
    Umya.Gen.enum_vertical_alignment_values = enumSpec VAlign.all VAlign.ctor VAlign.toStr VAlign.fromTable .bottom :=
  ⟨by decide, by decide, by decide, by decide, by decide, by decide, by decide⟩

/-- `all` lists every constructor (so the tables above are complete) -/
theorem enums_all_complete :
    (∀ v : Underline, v ∈ Underline.all) ∧ (∀ v : FontScheme, v ∈ FontScheme.all) ∧ (∀ v : VertRun, v ∈ VertRun.all) ∧
    (∀ v : Pattern, v ∈ Pattern.all) ∧ (∀ v : BorderStyle, v ∈ BorderStyle.all) ∧ (∀ v : HAlign, v ∈ HAlign.all) ∧
    (∀ v : VAlign, v ∈ VAlign.all) :=
  ⟨fun v => by cases v <;> decide, fun v => by cases v <;> decide, fun v => by cases v <;> decide,
   fun v => by cases v <;> decide, fun v => by cases v <;> decide, fun v => by cases v <;> decide,
   fun v => by cases v <;> decide⟩

end Umya.StyleCodec
