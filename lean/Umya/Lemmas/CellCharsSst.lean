/-
  C01 at tree level, the shared-string part: the fact view of the element tree rendered for a written `<si>` is
  the written fact with the run-property tokens erased (`siFact_siElem`); C01's reader turns the rendered `<sst>`
  back into the table up to those tokens (`readSstN_root`); and reading a cell against a table with erased tokens
  is reading it against the table and erasing afterwards (`readCell_erase`).
-/
import Umya.Lemmas.CellChars
namespace Umya.CellTree
open Umya.Xml Umya.CellXml Umya.CellNode Umya.Num Umya.Coord Umya.Dec Umya.InternC01
open Umya.Spec.Xml (Node Attr localName)

/-! ## the fact view of rendered items -/

theorem txOf_tElem (s : Text) : txOf (tElem s) = writeText s := by
  unfold txOf writeText tElem
  rw [ownText_txt]
  by_cases h : needsPreserve s = true <;> simp [preserveAttrs, h, Node.attr?, Node.attrs]

theorem lit_rPr : "rPr".toList = ['r', 'P', 'r'] := rfl

theorem isKid_rPr_t (s : Text) : isKid ['r', 'P', 'r'] (tElem s) = false := by simp [tElem, isKid_elem, localName_t]

theorem runFact_rElem (r : Run) : runFact (rElem r) = { font := r.font.map (fun _ => 0), t := writeText r.text } := by
  obtain ⟨t, f⟩ := r
  unfold runFact
  rw [lastKid_eq, kids_eq, lit_t, lit_rPr]
  cases f <;>
    simp [rElem, Node.children, isKid_t_tN, isKid_rPr_t, isKid_elem, localName_rPr, txOf_tElem]

theorem runFacts_rElems (rs : List Run) :
    (rs.map rElem).map runFact = (rs.map eraseRun).map (fun r => ({ font := r.font, t := writeText r.text } : RunX)) := by
  induction rs with
  | nil => rfl
  | cons r rs ih =>
    simp only [List.map_cons, ih, runFact_rElem]
    rfl

theorem getLast?_single_append_filter_nil {α} (a : α) : [a].getLast? = some a := rfl

/-- **the fact view of a rendered `<si>`** is the written fact of the item with its run-property tokens erased -/
theorem siFact_siElem (it : Item) : siFact (siElem it) = siOf (eraseItem it) := by
  obtain ⟨t, r⟩ := it
  unfold siFact
  rw [lastKid_eq, kids_eq, lit_t, lit_r]
  cases t <;> cases r <;>
    simp only [siElem, Node.children, List.filter_append, List.filter_cons, List.filter_nil, isKid_t_tN, isKid_r_tN,
      isKid_t_ph, isKid_r_ph, kids_t_runs, kids_r_runs, List.nil_append, List.append_nil, if_true, Bool.false_eq_true,
      if_false, List.getLast?_nil, List.getLast?_singleton, Option.map_none, Option.map_some, txOf_tElem, runFacts_rElems,
      siOf, eraseItem, List.map_nil]

theorem sstFacts_root (as : List Attr) (tbl : Table) :
    sstFacts (Node.elem ['s', 's', 't'] as (tbl.map siElem)) = (tbl.map eraseItem).map siOf := by
  unfold sstFacts
  rw [kids_eq, lit_si]
  simp only [Node.children, kids_si, List.map_map]
  apply List.map_congr_left
  intro it _
  exact siFact_siElem it

theorem itemOK_erase (it : Item) (h : ItemOK it) : ItemOK (eraseItem it) := by
  obtain ⟨t, r⟩ := it
  cases r with
  | none => simp [ItemOK, eraseItem]
  | some rs =>
    simp only [ItemOK, eraseItem, Option.map_some, ne_eq, Option.some.injEq, List.map_eq_nil_iff] at h ⊢
    exact h

/-- the rendered shared-string part (any root attributes) reads back as the table, run-property tokens erased -/
theorem readSstN_root (as : List Attr) (tbl : Table) (h : ∀ it ∈ tbl, ItemOK it) :
    readSstN (Node.elem ['s', 's', 't'] as (tbl.map siElem)) = some (tbl.map eraseItem) := by
  unfold readSstN
  rw [sstFacts_root]
  apply readSst_writeSst
  intro it hit
  obtain ⟨it0, h0, rfl⟩ := List.mem_map.1 hit
  exact itemOK_erase it0 (h it0 h0)

/-! ## erasing the tokens commutes with reading a cell -/

section
variable (F : NumFmt)

def eraseP (p : RawValue F.Num × Option Text) : RawValue F.Num × Option Text := (eraseRaw F p.1, p.2)

theorem eraseRaw_guess (s : Text) : eraseRaw F (guess F s) = guess F s := by
  unfold guess
  simp only
  split
  · rfl
  · split
    · rfl
    · split
      · rfl
      · split
        · rfl
        · split <;> rfl

theorem setSSI_erase (it : Item) (raw : RawValue F.Num) (fo : Option Text) :
    setSharedStringItem F (eraseItem it) (eraseRaw F raw) fo = eraseP F (setSharedStringItem F it raw fo) := by
  obtain ⟨t, r⟩ := it
  cases t <;> cases r <;> simp [setSharedStringItem, eraseItem, eraseP, eraseRaw]

theorem applyV_erase (sst : Table) (t sv : Text) (raw : RawValue F.Num) (fo : Option Text) :
    applyV F (sst.map eraseItem) t sv (eraseRaw F raw) fo = (applyV F sst t sv raw fo).map (eraseP F) := by
  unfold applyV
  split
  · simp [eraseP, eraseRaw]
  · split
    · cases parseUsize sv with
      | none => rfl
      | some i =>
        simp only [Option.bind_some, List.getElem?_map]
        cases sst[i]? with
        | none => rfl
        | some it => simp [setSSI_erase]
    · split
      · simp [eraseP, eraseRaw]
      · split
        · simp [eraseP, eraseRaw_guess]
        · simp [eraseP]

theorem readV_erase (sst : Table) (t : Text) (v : VNode) (fo : Option Text) :
    readV F (sst.map eraseItem) t v fo = (readV F sst t v fo).map (eraseP F) := by
  cases v with
  | absent => simp [readV, eraseP, eraseRaw]
  | emptyTag => simp [readV, eraseP, eraseRaw]
  | text raw =>
    simp only [readV]
    cases readText (decide (t ≠ tSTR)) raw with
    | none => rfl
    | some sv =>
      have := applyV_erase F sst t sv .empty fo
      simpa [eraseRaw] using this

theorem readIs_erase (t : Text) (is : Option TX) (prev : Text) (raw : RawValue F.Num) :
    readIs F t is prev (eraseRaw F raw) = (readIs F t is prev raw).map (eraseRaw F) := by
  cases is with
  | none => rfl
  | some tx =>
    simp only [readIs]
    cases readText (!tx.preserve) tx.raw with
    | none => rfl
    | some sv =>
      by_cases h : t = tINLINE <;> simp [h, eraseRaw]

/-- reading a `<c>` against a table whose run-property tokens are erased = reading it against the table and
    erasing the tokens of the result -/
theorem readCell_erase (sst : Table) (x : CellX) :
    readCell F (sst.map eraseItem) x = (readCell F sst x).map (eraseFonts F) := by
  unfold readCell
  split
  · cases readF x.f with
    | none => rfl
    | some formula =>
      simp only [Option.bind_some, readV_erase]
      cases readV F sst x.t x.v formula with
      | none => rfl
      | some p =>
        simp only [Option.map_some, Option.bind_some, eraseP, readIs_erase]
        cases readIs F x.t x.is (svAfterV x.t x.v) p.1 with
        | none => rfl
        | some raw => rfl
  · rfl

theorem mapOpt_map_opt {α β} (f : α → Option β) (g : β → β) (f' : α → Option β) (h : ∀ a, f' a = (f a).map g) :
    ∀ l : List α, mapOpt f' l = (mapOpt f l).map (·.map g)
  | [] => rfl
  | a :: l => by
    simp only [mapOpt, h a, mapOpt_map_opt f g f' h l]
    cases f a with
    | none => rfl
    | some b =>
      cases mapOpt f l with
      | none => rfl
      | some bs => rfl

theorem readSheetN_erase (sst : Table) (root : Node) :
    readSheetN F (sst.map eraseItem) root = (readSheetN F sst root).map (·.map (eraseFonts F)) :=
  mapOpt_map_opt (readCellN F sst) (eraseFonts F) (readCellN F (sst.map eraseItem))
    (fun c => readCell_erase F sst (cellFact c)) _

end

end Umya.CellTree
