/-
  Helper lemmas for the conditional-formatting codec (`Umya/Model/AnnotCf.lean`): enum tables, number codecs,
  `<cfvo>` / `<color>` / scale children, the `<formula>` text, one rule against a growing dxf table, rule lists,
  blocks and block lists.
-/
import Umya.Model.AnnotCf
import Umya.Lemmas.AnnotDv
import Umya.Lemmas.AnnotNames
import Umya.Lemmas.Coord
namespace Umya.AnnotCf
open Umya.Coord Umya.Annot Umya.AnnotDv Umya.Dec Umya.Thm.C17
open Umya.Spec.Xml (Node Attr)

/-! ### enum tables -/

theorem cfType_table (v : CfType) : CfType.fromStr (CfType.toStr v) = some v := by cases v <;> decide
theorem cfOp_table (v : CfOp) : CfOp.fromStr (CfOp.toStr v) = some v := by cases v <;> decide
theorem timePeriod_table (v : TimePeriod) : TimePeriod.fromStr (TimePeriod.toStr v) = some v := by cases v <;> decide
theorem cfvoType_table (v : CfvoType) : CfvoType.fromStr (CfvoType.toStr v) = some v := by cases v <;> decide

/-! ### numbers -/

theorem stripPlus_decDigits (n : Nat) : stripPlus (decDigits n) = decDigits n := by
  obtain ⟨c, r, h, hd⟩ := decDigits_head n
  rw [h]
  have : c ≠ '+' := by intro e; subst e; revert hd; decide
  unfold stripPlus
  split
  · rename_i heq; injection heq with h1 _; exact absurd h1 this
  · rfl

theorem parseDigitsBelow_decDigits (b n : Nat) (h : n < b) : parseDigitsBelow b (decDigits n) = some n := by
  simp [parseDigitsBelow, decDigits_ne_nil, decDigits_all_digit, parseDec_decDigits, h]

theorem parseUsize_decDigits (n : Nat) (h : n < 18446744073709551616) : parseUsize (decDigits n) = some n := by
  simp [parseUsize, stripPlus_decDigits, parseDigitsBelow_decDigits _ _ h]

theorem parseU32p_decDigits (n : Nat) (h : n < 4294967296) : parseU32p (decDigits n) = some n := by
  simp [parseU32p, stripPlus_decDigits, parseDigitsBelow_decDigits _ _ h]

def I32 (z : Int) : Prop := -2147483648 ≤ z ∧ z < 2147483648

theorem parseI32_i32Str (z : Int) (h : I32 z) : parseI32 (i32Str z) = some z := by
  obtain ⟨h1, h2⟩ := h
  unfold i32Str
  by_cases hz : z < 0
  · simp only [hz, if_true, parseI32]
    rw [parseDigitsBelow_decDigits _ _ (by omega)]
    simp only [Option.some.injEq, Int.ofNat_eq_natCast]
    omega
  · simp only [hz, if_false]
    obtain ⟨c, r, hc, hd⟩ := decDigits_head z.natAbs
    have hne : c ≠ '-' := by intro e; subst e; revert hd; decide
    have hsp := stripPlus_decDigits z.natAbs
    rw [hc] at hsp ⊢
    unfold parseI32
    split
    · rename_i heq; injection heq with h1 _; exact absurd h1 hne
    · rw [hsp, ← hc, parseDigitsBelow_decDigits _ _ (by omega)]
      simp only [Option.some.injEq, Int.ofNat_eq_natCast]
      omega

theorem readNum_written {α} (parse : Text → Option α) (toStr : α → Text) (o : Option α)
    (h : ∀ v, o = some v → parse (toStr v) = some v) : readNum parse (o.map toStr) = .ok o := by
  cases o with
  | none => rfl
  | some v => simp [readNum, h v rfl]

/-! ### `<cfvo>` -/

theorem cfvoNames_nodup : cfvoNames.Nodup := by decide

theorem readCfvo_written (x : Cfvo) : readCfvo (render cfvoNames [x.type.map CfvoType.toStr, x.val]) = x := by
  obtain ⟨ty, v⟩ := x
  have a0 := getAttr_render_idx cfvoNames [ty.map CfvoType.toStr, v] cfvoNames_nodup rfl 0 (by decide) (by simp)
  have a1 := getAttr_render_idx cfvoNames [ty.map CfvoType.toStr, v] cfvoNames_nodup rfl 1 (by decide) (by simp)
  simp only [cfvoNames, List.getElem_cons_zero, List.getElem_cons_succ] at a0 a1
  simp only [readCfvo, cfvoNames, a0, a1, readEnum_written _ _ cfvoType_table]

/-! ### `<color>` -/

/-- what the public setters leave in a colour (`set_argb`, `set_indexed`, `set_theme_index` clear one another),
    within `u32`; a colour without any attribute (`Color::default()`) included -/
structure ColorWF (c : Color) : Prop where
  one : (c.theme = none ∧ c.indexed = none) ∨ (c.theme = none ∧ c.argb = none) ∨ (c.indexed = none ∧ c.argb = none)
  themeB : ∀ n, c.theme = some n → n < 4294967296
  indexedB : ∀ n, c.indexed = some n → n < 4294967296

theorem colorNames_nodup : colorNames.Nodup := by decide

theorem readColor_written (c : Color) (h : ColorWF c) : readColor (render colorNames (colorValues c)) = .ok c := by
  obtain ⟨th, ix, ar, ti⟩ := c
  obtain ⟨h1, hb1, hb2⟩ := h
  simp only at h1 hb1 hb2
  have hl : (colorValues ⟨th, ix, ar, ti⟩).length = 4 := by
    unfold colorValues; cases th <;> cases ix <;> rfl
  have a0 := getAttr_render_idx colorNames _ colorNames_nodup hl 0 (by decide) (by omega)
  have a1 := getAttr_render_idx colorNames _ colorNames_nodup hl 1 (by decide) (by omega)
  have a2 := getAttr_render_idx colorNames _ colorNames_nodup hl 2 (by decide) (by omega)
  have a3 := getAttr_render_idx colorNames _ colorNames_nodup hl 3 (by decide) (by omega)
  simp only [colorNames, List.getElem_cons_zero, List.getElem_cons_succ] at a0 a1 a2 a3
  unfold readColor
  simp only [colorNames, a0, a1, a2, a3]
  cases th with
  | some t =>
    have hi : ix = none := by rcases h1 with h | h | h <;> simp_all
    have ha : ar = none := by rcases h1 with h | h | h <;> simp_all
    subst hi ha
    simp [colorValues, readNum, parseU32p_decDigits t (hb1 t rfl)]
  | none =>
    cases ix with
    | some i =>
      have ha : ar = none := by rcases h1 with h | h | h <;> simp_all
      subst ha
      simp [colorValues, readNum, parseU32p_decDigits i (hb2 i rfl)]
    | none => simp [colorValues, readNum]

/-! ### scale-like children -/

structure ScaleWF (s : Scale) : Prop where
  colors : ∀ c ∈ s.colors, ColorWF c

theorem readScaleKids_colors : ∀ (cs : List Color) (s : Scale), (∀ c ∈ cs, ColorWF c) →
    readScaleKids (cs.map writeColor) s = .ok { s with colors := s.colors ++ cs }
  | [], s, _ => by simp [readScaleKids]
  | c :: cs, s, h => by
    have hc := h c (by simp)
    have hcol : ("color".toList : Text) ≠ "cfvo".toList := by decide
    simp only [List.map_cons, writeColor, readScaleKids, hcol, if_false, if_true,
      readColor_written c hc]
    rw [readScaleKids_colors cs _ (fun x hx => h x (List.mem_cons_of_mem _ hx))]
    simp

theorem readScaleKids_written : ∀ (vs : List Cfvo) (cs : List Color) (s : Scale), (∀ c ∈ cs, ColorWF c) →
    readScaleKids (vs.map writeCfvo ++ cs.map writeColor) s = .ok ⟨s.cfvos ++ vs, s.colors ++ cs⟩
  | [], cs, s, h => by simpa using readScaleKids_colors cs s h
  | v :: vs, cs, s, h => by
    simp only [List.map_cons, List.cons_append, writeCfvo, readScaleKids, if_true, readCfvo_written]
    rw [readScaleKids_written vs cs _ h]
    simp

theorem readScale_written (name : Text) (s : Scale) (h : ScaleWF s) :
    ∃ as, writeScale name s = .elem name as (s.cfvos.map writeCfvo ++ s.colors.map writeColor) ∧
      readScaleKids (s.cfvos.map writeCfvo ++ s.colors.map writeColor) {} = .ok s := by
  refine ⟨[], rfl, ?_⟩
  rw [readScaleKids_written s.cfvos s.colors {} h.colors]
  simp

/-! ### `<formula>` -/

/-- formulas the codec carries exactly: a non-empty text `is_address` rejects (kept verbatim), the empty formula,
    or a cell / cell:cell area, bare or on a legal sheet -/
inductive FmlWF : Fml → Prop where
  | text (t : Text) (hne : t ≠ []) (hna : isAddress t = false) : FmlWF ⟨⟨[], {}⟩, some t⟩
  | empty : FmlWF ⟨⟨[], {}⟩, none⟩
  | bare (ρ : Range) (hs : CellShape ρ) (hb : Range.InBounds ρ) : FmlWF ⟨⟨[], ρ⟩, none⟩
  | area (a : Address) (h : AreaOK a) : FmlWF ⟨a, none⟩

theorem dropWhile_all' {α} (p : α → Bool) : ∀ (l : List α), (∀ x ∈ l, p x = true) → l.dropWhile p = []
  | [], _ => rfl
  | a :: l, h => by
    simp only [List.dropWhile_cons, h a (by simp), if_true]
    exact dropWhile_all' p l (fun x hx => h x (List.mem_cons_of_mem _ hx))

theorem rsplitBang_none' (s : Text) (h : '!' ∉ s) : rsplitBang s = none := by
  unfold rsplitBang
  have : s.reverse.dropWhile (fun x => decide (x ≠ '!')) = [] := by
    apply dropWhile_all'
    intro x hx
    have hm : x ∈ s := List.mem_reverse.1 hx
    simp only [ne_eq, decide_not, Bool.not_eq_true', decide_eq_false_iff_not]
    intro e; subst e; exact h hm
  simp only [this]

theorem setAddress_default (s : Text) : setAddress ⟨[], {}⟩ s = Address.parse s := by
  unfold setAddress Address.parse Range.parse
  simp only
  cases Range.setRange {} (splitAddress s).2 with
  | panic => rfl
  | ok ρ =>
    by_cases h : (splitAddress s).1 = []
    · simp [h]
    · simp [h]

theorem addressText_bare (ρ : Range) : Address.text ⟨[], ρ⟩ = ρ.print := by
  simp [Address.text, addressText]

theorem readFml_written (f : Fml) (h : FmlWF f) :
    readFmlKids (if f.text = [] then [] else [Node.text f.text]) {} = .ok f := by
  cases h with
  | text t hne hna =>
    simp only [Fml.text, hne, if_false, readFmlKids, Fml.setAddressStr, hna, Bool.false_eq_true]
  | empty =>
    have : Fml.text ⟨⟨[], {}⟩, none⟩ = [] := by decide
    simp only [this, if_true, readFmlKids]
  | bare ρ hs hb =>
    have ht : Fml.text ⟨⟨[], ρ⟩, none⟩ = ρ.print := by simp [Fml.text, addressText_bare]
    have hne := print_ne_nil ρ (isShape_of_cell ρ hs) hb
    have hia : isAddress ρ.print = true := by
      unfold isAddress
      rw [rsplitBang_none' _ (bang_free_print ρ)]
      exact matchCellRange_print ρ hs hb
    have hpa : Address.parse ρ.print = .ok ⟨[], ρ⟩ := by
      simp only [Address.parse, splitAddress, rsplitBang_none' _ (bang_free_print ρ),
        C17_range ρ (isShape_of_cell ρ hs) hb]
    simp only [ht, hne, if_false, readFmlKids, Fml.setAddressStr, hia, if_true,
      undouble_id _ (apos_free_print ρ), setAddress_default, hpa]
  | area a ha =>
    have ht : Fml.text ⟨a, none⟩ = a.text := rfl
    have hne := (neutral_area a ha).2
    simp only [ht, hne, if_false, readFmlKids, Fml.setAddressStr, isAddress_area a ha, if_true,
      setAddress_default, parse_area a ha]

/-! ### the dxf table -/

theorem internSty_ext : ∀ (t : List Sty) (s : Sty), ∃ l, (internSty t s).1 = t ++ l
  | [], s => ⟨[s], rfl⟩
  | e :: t, s => by
    unfold internSty
    by_cases h : e = s
    · exact ⟨[], by simp [h]⟩
    · obtain ⟨l, hl⟩ := internSty_ext t s
      exact ⟨l, by simp [h, hl]⟩

theorem internSty_get : ∀ (t : List Sty) (s : Sty), (internSty t s).1[(internSty t s).2]? = some s
  | [], s => rfl
  | e :: t, s => by
    unfold internSty
    by_cases h : e = s
    · simp [h]
    · simpa [h] using internSty_get t s

/-- `t'` extends `t` -/
def Ext (t t' : List Sty) : Prop := ∃ l, t' = t ++ l

theorem Ext.refl (t : List Sty) : Ext t t := ⟨[], by simp⟩
theorem Ext.trans {a b c : List Sty} (h1 : Ext a b) (h2 : Ext b c) : Ext a c := by
  obtain ⟨l1, rfl⟩ := h1; obtain ⟨l2, rfl⟩ := h2; exact ⟨l1 ++ l2, by simp⟩

theorem Ext.get {t t' : List Sty} (h : Ext t t') {i : Nat} {s : Sty} (hs : t[i]? = some s) : t'[i]? = some s := by
  obtain ⟨l, rfl⟩ := h
  have hi : i < t.length := by
    rcases Nat.lt_or_ge i t.length with h | h
    · exact h
    · rw [List.getElem?_eq_none h] at hs; cases hs
  rw [List.getElem?_append_left hi]; exact hs

theorem Ext.length_le {t t' : List Sty} (h : Ext t t') : t.length ≤ t'.length := by
  obtain ⟨l, rfl⟩ := h; simp

theorem dxfOf_ext (t : List Sty) (o : Option Sty) : Ext t (dxfOf t o).1 := by
  cases o with
  | none => exact Ext.refl t
  | some s => exact internSty_ext t s

theorem readStyle_written (t t' : List Sty) (o : Option Sty) (hx : Ext (dxfOf t o).1 t')
    (hT : t'.length ≤ 18446744073709551616) :
    readStyle t' ((dxfOf t o).2.map decDigits) = .ok o := by
  cases o with
  | none => rfl
  | some s =>
    have hg := hx.get (internSty_get t s)
    have hlt : (internSty t s).2 < t'.length := by
      rcases Nat.lt_or_ge (internSty t s).2 t'.length with h | h
      · exact h
      · rw [List.getElem?_eq_none h] at hg; cases hg
    have hp := parseUsize_decDigits (internSty t s).2 (by omega)
    simp only [dxfOf, Option.map_some, readStyle, hp, hg]

/-! ### one rule -/

theorem ruleNames_nodup : ruleNames.Nodup := by decide

structure RuleWF (r : Rule) : Prop where
  priority : ∀ z, r.priority = some z → I32 z
  stdDev : ∀ z, r.stdDev = some z → I32 z
  rank : ∀ n, r.rank = some n → n < 4294967296
  colorScale : ∀ s, r.colorScale = some s → ScaleWF s
  dataBar : ∀ s, r.dataBar = some s → ScaleWF s
  iconSet : ∀ s, r.iconSet = some s → ScaleWF s
  formula : ∀ f, r.formula = some f → FmlWF f

theorem readScale_kids (s : Scale) (hs : ScaleWF s) :
    readScaleKids (s.cfvos.map writeCfvo ++ s.colors.map writeColor) {} = .ok s :=
  by
  rw [readScaleKids_written s.cfvos s.colors {} hs.colors]
  simp

theorem readRuleKids_cs (s : Scale) (hs : ScaleWF s) (rest : List Node) (st : KidsSt) :
    readRuleKids (writeScale "colorScale".toList s :: rest) st = readRuleKids rest { st with colorScale := some s } := by
  simp only [writeScale, readRuleKids, if_true, readScale_kids s hs]

theorem readRuleKids_db (s : Scale) (hs : ScaleWF s) (rest : List Node) (st : KidsSt) :
    readRuleKids (writeScale "dataBar".toList s :: rest) st = readRuleKids rest { st with dataBar := some s } := by
  have n1 : ("dataBar".toList : Text) ≠ "colorScale".toList := by decide
  simp only [writeScale, readRuleKids, n1, if_false, if_true, readScale_kids s hs]

theorem readRuleKids_ic (s : Scale) (hs : ScaleWF s) (rest : List Node) (st : KidsSt) :
    readRuleKids (writeScale "iconSet".toList s :: rest) st = readRuleKids rest { st with iconSet := some s } := by
  have n2 : ("iconSet".toList : Text) ≠ "colorScale".toList := by decide
  have n3 : ("iconSet".toList : Text) ≠ "dataBar".toList := by decide
  simp only [writeScale, readRuleKids, n2, n3, if_false, if_true, readScale_kids s hs]

theorem readRuleKids_fm (f : Fml) (hf : FmlWF f) (rest : List Node) (st : KidsSt) :
    readRuleKids (writeFml f :: rest) st = readRuleKids rest { st with formula := some f } := by
  have n4 : ("formula".toList : Text) ≠ "colorScale".toList := by decide
  have n5 : ("formula".toList : Text) ≠ "dataBar".toList := by decide
  have n6 : ("formula".toList : Text) ≠ "iconSet".toList := by decide
  simp only [writeFml, textElem, readRuleKids, n4, n5, n6, if_false, if_true, readFml_written f hf]

theorem readRuleKids_written (cs db ic : Option Scale) (fm : Option Fml)
    (h1 : ∀ s, cs = some s → ScaleWF s) (h2 : ∀ s, db = some s → ScaleWF s) (h3 : ∀ s, ic = some s → ScaleWF s)
    (h4 : ∀ f, fm = some f → FmlWF f) :
    readRuleKids (optNode (writeScale "colorScale".toList) cs ++ optNode (writeScale "dataBar".toList) db ++
      optNode (writeScale "iconSet".toList) ic ++ optNode writeFml fm) {} = .ok ⟨cs, db, ic, fm⟩ := by
  have e4 : ∀ st : KidsSt, readRuleKids (optNode writeFml fm) st = .ok { st with formula := fm.orElse fun _ => st.formula } := by
    intro st
    cases fm with
    | none => cases st; rfl
    | some f => rw [optNode, readRuleKids_fm f (h4 f rfl)]; rfl
  have e3 : ∀ st : KidsSt, readRuleKids (optNode (writeScale "iconSet".toList) ic ++ optNode writeFml fm) st
      = .ok { st with iconSet := ic.orElse fun _ => st.iconSet, formula := fm.orElse fun _ => st.formula } := by
    intro st
    cases ic with
    | none => rw [optNode, List.nil_append, e4]; cases st; rfl
    | some s => rw [optNode, List.singleton_append, readRuleKids_ic s (h3 s rfl), e4]; rfl
  have e2 : ∀ st : KidsSt, readRuleKids (optNode (writeScale "dataBar".toList) db ++
      (optNode (writeScale "iconSet".toList) ic ++ optNode writeFml fm)) st
      = .ok { st with dataBar := db.orElse fun _ => st.dataBar, iconSet := ic.orElse fun _ => st.iconSet,
                      formula := fm.orElse fun _ => st.formula } := by
    intro st
    cases db with
    | none => rw [optNode, List.nil_append, e3]; cases st; rfl
    | some s => rw [optNode, List.singleton_append, readRuleKids_db s (h2 s rfl), e3]; rfl
  rw [List.append_assoc, List.append_assoc]
  cases cs with
  | none => rw [optNode, List.nil_append, e2]; cases db <;> cases ic <;> cases fm <;> rfl
  | some s =>
    rw [optNode, List.singleton_append, readRuleKids_cs s (h1 s rfl), e2]
    cases db <;> cases ic <;> cases fm <;> rfl

theorem rule_attr (vs : List (Option Text)) (hl : vs.length = 13) (i : Nat) (hi : i < 13) :
    getAttr (render ruleNames vs) (ruleNames[i]'(by simpa [ruleNames] using hi)) = vs[i]'(by omega) :=
  getAttr_render_idx ruleNames vs ruleNames_nodup (by simpa [ruleNames] using hl) i _ _

/-- a rule written against the table `t` reads back, against any later state `t'` of the table, as itself —
    in particular with its own style -/
theorem readRule_written (t t' : List Sty) (r : Rule) (h : RuleWF r) (hx : Ext (writeRule t r).1 t')
    (hT : t'.length ≤ 18446744073709551616) : readRule t' (writeRule t r).2 = .ok r := by
  obtain ⟨ty, op, tx, st, pr, pc, bt, rk, si, sd, tp, aa, ea, cs, db, ic, fm⟩ := r
  obtain ⟨hpr, hsd, hrk, hcs, hdb, hic, hfm⟩ := h
  simp only at hpr hsd hrk hcs hdb hic hfm
  simp only [writeRule] at hx ⊢
  have hl : (ruleValues ⟨ty, op, tx, st, pr, pc, bt, rk, si, sd, tp, aa, ea, cs, db, ic, fm⟩ (dxfOf t st).2).length = 13 := rfl
  have a0 := rule_attr _ hl 0 (by decide)
  have a1 := rule_attr _ hl 1 (by decide)
  have a2 := rule_attr _ hl 2 (by decide)
  have a3 := rule_attr _ hl 3 (by decide)
  have a4 := rule_attr _ hl 4 (by decide)
  have a5 := rule_attr _ hl 5 (by decide)
  have a6 := rule_attr _ hl 6 (by decide)
  have a7 := rule_attr _ hl 7 (by decide)
  have a8 := rule_attr _ hl 8 (by decide)
  have a9 := rule_attr _ hl 9 (by decide)
  have a10 := rule_attr _ hl 10 (by decide)
  have a11 := rule_attr _ hl 11 (by decide)
  have a12 := rule_attr _ hl 12 (by decide)
  simp only [ruleNames, ruleValues, List.getElem_cons_zero, List.getElem_cons_succ]
    at a0 a1 a2 a3 a4 a5 a6 a7 a8 a9 a10 a11 a12
  simp only [readRule, ruleNames, ruleValues, ruleKids, a0, a1, a2, a3, a4, a5, a6, a7, a8, a9, a10, a11, a12,
    readStyle_written t t' st hx hT,
    readNum_written parseI32 i32Str pr (fun z hz => parseI32_i32Str z (hpr z hz)),
    readNum_written parseI32 i32Str sd (fun z hz => parseI32_i32Str z (hsd z hz)),
    readNum_written parseU32p decDigits rk (fun n hn => parseU32p_decDigits n (hrk n hn)),
    readRuleKids_written cs db ic fm hcs hdb hic hfm,
    readEnum_written _ _ cfType_table, readEnum_written _ _ cfOp_table, readEnum_written _ _ timePeriod_table,
    map_boolOf_boolStr]

theorem writeRule_ext (t : List Sty) (r : Rule) : Ext t (writeRule t r).1 := dxfOf_ext t r.style

/-! ### rule lists, blocks, block lists -/

theorem writeRules_ext : ∀ (rs : List Rule) (t : List Sty), Ext t (writeRules t rs).1
  | [], t => Ext.refl t
  | r :: rs, t => (writeRule_ext t r).trans (writeRules_ext rs _)

theorem readRules_written : ∀ (rs : List Rule) (t t' : List Sty), (∀ r ∈ rs, RuleWF r) →
    Ext (writeRules t rs).1 t' → t'.length ≤ 18446744073709551616 → readRules t' (writeRules t rs).2 = .ok rs
  | [], _, _, _, _, _ => rfl
  | r :: rs, t, t', h, hx, hT => by
    have hx1 : Ext (writeRule t r).1 t' := (writeRules_ext rs _).trans hx
    have h1 := readRule_written t t' r (h r (by simp)) hx1 hT
    have h2 := readRules_written rs (writeRule t r).1 t' (fun x hx => h x (List.mem_cons_of_mem _ hx)) hx hT
    simp only [writeRules]
    have hw : (writeRule t r).2 = .elem "cfRule".toList (render ruleNames (ruleValues r (dxfOf t r.style).2)) (ruleKids r) := rfl
    rw [hw] at h1 ⊢
    simp only [readRules, if_true, h1, h2]

/-- a block the codecs carry: ranges of the four shapes within the grid (none included), rules well formed (none
    included) -/
structure BlockOK (b : Block) : Prop where
  ranges : RangesOK b.sqref
  rules : ∀ r ∈ b.rules, RuleWF r

/-- a block that is written: `BlockOK` with at least one rule -/
structure BlockWF (b : Block) : Prop where
  ranges : RangesOK b.sqref
  hasRule : b.rules ≠ []
  rules : ∀ r ∈ b.rules, RuleWF r

theorem BlockWF.ok {b : Block} (h : BlockWF b) : BlockOK b := ⟨h.ranges, h.rules⟩

theorem writeBlock_ext (t : List Sty) (b : Block) : Ext t (writeBlock t b).1 := writeRules_ext b.rules t

/-- the element of a block reads back as the block (with or without ranges, with or without rules) -/
theorem readBlock_written (t t' : List Sty) (b : Block) (h : BlockOK b) (hx : Ext (writeBlock t b).1 t')
    (hT : t'.length ≤ 18446744073709551616) : readBlock t' (blockElem t b) = .ok b := by
  have hs : readSqref (some (sqrefText b.sqref)) = .ok b.sqref := by
    simpa [readSqref] using setSqref_text b.sqref h.ranges
  have hr := readRules_written b.rules t t' h.rules hx hT
  simp only [blockElem, readBlock, getAttr, if_true, hs, hr]

theorem writeBlocks_ext : ∀ (bs : List Block) (t : List Sty), Ext t (writeBlocks t bs).1
  | [], t => Ext.refl t
  | b :: bs, t => (writeBlock_ext t b).trans (writeBlocks_ext bs _)

/-- what is read back from the written blocks: the blocks that have a rule, in order -/
theorem readBlocks_written_norm : ∀ (bs : List Block) (t t' : List Sty), (∀ b ∈ bs, BlockOK b) →
    Ext (writeBlocks t bs).1 t' → t'.length ≤ 18446744073709551616 →
    readBlocks t' (writeBlocks t bs).2 = .ok (writtenBlocks bs)
  | [], _, _, _, _, _ => rfl
  | b :: bs, t, t', h, hx, hT => by
    have hx1 : Ext (writeBlock t b).1 t' := (writeBlocks_ext bs _).trans hx
    have h2 := readBlocks_written_norm bs (writeBlock t b).1 t' (fun x hx => h x (List.mem_cons_of_mem _ hx)) hx hT
    cases hrs : b.rules with
    | nil =>
      simp only [writeBlocks, writeBlock, hrs, List.isEmpty_nil, if_true, List.nil_append, writtenBlocks, List.filter_cons,
        Bool.not_true]
      simpa [writeBlock, hrs, writtenBlocks] using h2
    | cons r0 rs0 =>
      have h1 := readBlock_written t t' b (h b (by simp)) hx1 hT
      have hw : ∃ k ks, blockElem t b = .elem "conditionalFormatting".toList [⟨"sqref".toList, sqrefText b.sqref⟩] (k :: ks) := by
        simp only [blockElem, hrs, writeRules]
        exact ⟨_, _, rfl⟩
      obtain ⟨k, ks, hw⟩ := hw
      have he : (writeBlock t b).2 = [blockElem t b] := by simp [writeBlock, hrs]
      rw [hw] at h1 he
      simp only [writeBlocks, he, List.singleton_append, readBlocks, h1, h2, writtenBlocks, List.filter_cons, hrs,
        List.isEmpty_cons, Bool.not_false, if_true]

theorem writtenBlocks_self (bs : List Block) (h : ∀ b ∈ bs, b.rules ≠ []) : writtenBlocks bs = bs := by
  apply List.filter_eq_self.2
  intro b hb
  cases hr : b.rules with
  | nil => exact absurd hr (h b hb)
  | cons r rs => rfl

theorem readBlocks_written (bs : List Block) (t t' : List Sty) (h : ∀ b ∈ bs, BlockWF b)
    (hx : Ext (writeBlocks t bs).1 t') (hT : t'.length ≤ 18446744073709551616) :
    readBlocks t' (writeBlocks t bs).2 = .ok bs := by
  rw [readBlocks_written_norm bs t t' (fun b hb => (h b hb).ok) hx hT, writtenBlocks_self bs (fun b hb => (h b hb).hasRule)]

end Umya.AnnotCf
