/-
  Display of date-formatted cells (C18, last sentence): Excel date-format codes as token lists, the text each
  token stands for, and the rendering of a token list by the model's `strftime` (chrono's `strftime`
  is outside the model; `Umya.Date.strftime` represents it and is tied by the harness).

  A code is a list of tokens `yyyy yy mmm mm m dd d hh h mm(minutes) ss` and separator characters
  `- / : . ,` and blank.  Month `mm` and minute `mm` are written the same way; which one the code
  `format_as_date` takes is decided by its replacement table (`:mm` / `mm:` ↦ minutes, tried before
  `mm` ↦ month).  `simpleCode toks` RUNS the model of that table (`Umya.Date.strftimeOf`, proved equal
  to the tables of date_formater.rs regenerated on every run: `C18_tables_match_source`) on the
  text of the token list and checks that the resulting strftime string is, token by token, the
  specifier the token means.  It is a decidable predicate on token lists (kernel evaluation);
  no general characterisation of the lists that satisfy it is proved.

  Core Lean only.
-/
import Umya.Model.Date
import Umya.Lemmas.DateFmt
namespace Umya.Lemmas.DateDisplay
open Umya.Date Umya.Dec Umya.Spec.Calendar

inductive Tok where
  | yyyy | yy | mmm | mm | m | dd | d | hh | h | mi | ss
  | lit (c : Char)
  /-- full month name, short / full weekday name, hour of the 12-hour clock (written `h` / `hh` like the
      24-hour tokens; Excel reads them so when the code has an `AM/PM` marker), the marker `AM/PM` -/
  | mmmm | ddd | dddd | h12 | hh12 | ampm
  deriving DecidableEq, Repr

def isSep (c : Char) : Bool :=
  c == '-' || c == '/' || c == ':' || c == '.' || c == ',' || c == ' '

/-- a literal token is one of the separator characters -/
def Tok.ok : Tok → Bool
  | .lit c => isSep c
  | _ => true

/-- how the token is written in an Excel format code -/
def tokText : Tok → List Char
  | .yyyy => "yyyy".toList | .yy => "yy".toList | .mmm => "mmm".toList | .mm => "mm".toList
  | .m => "m".toList | .dd => "dd".toList | .d => "d".toList | .hh => "hh".toList | .h => "h".toList
  | .mi => "mm".toList | .ss => "ss".toList | .lit c => [c]
  | .mmmm => "mmmm".toList | .ddd => "ddd".toList | .dddd => "dddd".toList
  | .h12 => "h".toList | .hh12 => "hh".toList | .ampm => "AM/PM".toList

/-- the chrono specifier that means the same -/
def tokSf : Tok → List Char
  | .yyyy => "%Y".toList | .yy => "%y".toList | .mmm => "%b".toList | .mm => "%m".toList
  | .m => "%-m".toList | .dd => "%d".toList | .d => "%-d".toList | .hh => "%H".toList
  | .h => "%-H".toList | .mi => "%M".toList | .ss => "%S".toList | .lit c => [c]
  | .mmmm => "%B".toList | .ddd => "%a".toList | .dddd => "%A".toList
  | .h12 => "%-I".toList | .hh12 => "%I".toList | .ampm => "%P".toList

def monthAbbr (m : Int) : List Char :=
  if m = 1 then "Jan".toList else if m = 2 then "Feb".toList else if m = 3 then "Mar".toList
  else if m = 4 then "Apr".toList else if m = 5 then "May".toList else if m = 6 then "Jun".toList
  else if m = 7 then "Jul".toList else if m = 8 then "Aug".toList else if m = 9 then "Sep".toList
  else if m = 10 then "Oct".toList else if m = 11 then "Nov".toList else if m = 12 then "Dec".toList
  else []

def monthFull (m : Int) : List Char :=
  if m = 1 then "January".toList else if m = 2 then "February".toList else if m = 3 then "March".toList
  else if m = 4 then "April".toList else if m = 5 then "May".toList else if m = 6 then "June".toList
  else if m = 7 then "July".toList else if m = 8 then "August".toList else if m = 9 then "September".toList
  else if m = 10 then "October".toList else if m = 11 then "November".toList
  else if m = 12 then "December".toList else []

/-- day of the week of day number `n` (1970-01-01 = day 0 was a Thursday): 0 = Sunday … 6 = Saturday -/
def weekdayOf (n : Int) : Int := (n + 4) % 7

def dayFull (w : Int) : List Char :=
  if w = 0 then "Sunday".toList else if w = 1 then "Monday".toList else if w = 2 then "Tuesday".toList
  else if w = 3 then "Wednesday".toList else if w = 4 then "Thursday".toList else if w = 5 then "Friday".toList
  else if w = 6 then "Saturday".toList else []

def dayAbbr (w : Int) : List Char :=
  if w = 0 then "Sun".toList else if w = 1 then "Mon".toList else if w = 2 then "Tue".toList
  else if w = 3 then "Wed".toList else if w = 4 then "Thu".toList else if w = 5 then "Fri".toList
  else if w = 6 then "Sat".toList else []

/-- the hour of the 12-hour clock: 0 and 12 o'clock are written 12, 13 … 23 are 1 … 11 -/
def hour12 (h : Int) : Int := if h % 12 = 0 then 12 else h % 12

/-- the text a token stands for, for a date and time of day:
    `yyyy` four digits of the year, `yy` two digits of the year mod 100, `mmm` the English three-letter
    month name, `mm` / `dd` / `hh` / minutes / `ss` two digits, `m` / `d` / `h` shortest decimal -/
def tokShow (dt : DateTime) : Tok → List Char
  | .yyyy => pad4 dt.year
  | .yy => pad2 (dt.year % 100)
  | .mmm => monthAbbr dt.month
  | .mm => pad2 dt.month
  | .m => decDigits dt.month.toNat
  | .dd => pad2 dt.day
  | .d => decDigits dt.day.toNat
  | .hh => pad2 dt.hour
  | .h => decDigits dt.hour.toNat
  | .mi => pad2 dt.minute
  | .ss => pad2 dt.second
  | .lit c => [c]
  | .mmmm => monthFull dt.month
  | .ddd => dayAbbr (weekdayOf dt.dayNo)
  | .dddd => dayFull (weekdayOf dt.dayNo)
  | .h12 => decDigits (hour12 dt.hour).toNat
  | .hh12 => pad2 (hour12 dt.hour)
  | .ampm => if dt.hour < 12 then "AM".toList else "PM".toList     -- Excel writes the marker in capitals

/-- what the CODE shows: as `tokShow`, except that the `AM/PM` marker comes out in lower case
    (`am/pm ↦ %P`, chrono's lower-case marker; the crate's own tests pin `12:00 am`) -/
def tokShowCode (dt : DateTime) : Tok → List Char
  | .ampm => if dt.hour < 12 then "am".toList else "pm".toList
  | t => tokShow dt t

def codeText (toks : List Tok) : List Char := toks.flatMap tokText
def codeSf (toks : List Tok) : List Char := toks.flatMap tokSf
def showToks (dt : DateTime) (toks : List Tok) : List Char := toks.flatMap (tokShow dt)
def showToksCode (dt : DateTime) (toks : List Tok) : List Char := toks.flatMap (tokShowCode dt)

theorem showToksCode_eq (dt : DateTime) (toks : List Tok) (h : toks.contains .ampm = false) :
    showToksCode dt toks = showToks dt toks := by
  induction toks with
  | nil => rfl
  | cons t rest ih =>
    simp only [List.contains_cons, Bool.or_eq_false_iff, beq_eq_false_iff_ne, ne_eq] at h
    have e : tokShowCode dt t = tokShow dt t := by
      cases t <;> first | rfl | exact absurd rfl h.1
    simp only [showToksCode, showToks, List.flatMap_cons, e] at ih ⊢
    rw [ih h.2]

/-- the code `format_as_date` (its replacement tables, as modelled) reads the token list the way
    the tokens mean — in particular every `mm` is taken as month / minute as the list says -/
def simpleCode (toks : List Tok) : Bool :=
  toks.all Tok.ok && decide (strftimeOf (codeText toks) = some (codeSf toks))

/-! ## `strftime` on the specifier string of a token list -/

theorem specPlain_b (dt : DateTime) (hm : 1 ≤ dt.month ∧ dt.month ≤ 12) :
    specPlain dt 'b' = some (monthAbbr dt.month) := by
  have : dt.month = 1 ∨ dt.month = 2 ∨ dt.month = 3 ∨ dt.month = 4 ∨ dt.month = 5 ∨ dt.month = 6 ∨
      dt.month = 7 ∨ dt.month = 8 ∨ dt.month = 9 ∨ dt.month = 10 ∨ dt.month = 11 ∨ dt.month = 12 := by omega
  rcases this with e | e | e | e | e | e | e | e | e | e | e | e <;>
    simp [specPlain, e] <;> decide

theorem specPlain_B (dt : DateTime) (hm : 1 ≤ dt.month ∧ dt.month ≤ 12) :
    specPlain dt 'B' = some (monthFull dt.month) := by
  have : dt.month = 1 ∨ dt.month = 2 ∨ dt.month = 3 ∨ dt.month = 4 ∨ dt.month = 5 ∨ dt.month = 6 ∨
      dt.month = 7 ∨ dt.month = 8 ∨ dt.month = 9 ∨ dt.month = 10 ∨ dt.month = 11 ∨ dt.month = 12 := by omega
  rcases this with e | e | e | e | e | e | e | e | e | e | e | e <;>
    simp [specPlain, e] <;> decide

theorem weekdayOf_cases (n : Int) : weekdayOf n = 0 ∨ weekdayOf n = 1 ∨ weekdayOf n = 2 ∨ weekdayOf n = 3 ∨
    weekdayOf n = 4 ∨ weekdayOf n = 5 ∨ weekdayOf n = 6 := by unfold weekdayOf; omega

theorem specPlain_A (dt : DateTime) : specPlain dt 'A' = some (dayFull (weekdayOf dt.dayNo)) := by
  have e0 : (dt.dayNo + 4) % 7 = weekdayOf dt.dayNo := rfl
  rcases weekdayOf_cases dt.dayNo with e | e | e | e | e | e | e <;>
    simp [specPlain, e0, e] <;> decide

theorem specPlain_a (dt : DateTime) : specPlain dt 'a' = some (dayAbbr (weekdayOf dt.dayNo)) := by
  have e0 : (dt.dayNo + 4) % 7 = weekdayOf dt.dayNo := rfl
  rcases weekdayOf_cases dt.dayNo with e | e | e | e | e | e | e <;>
    simp [specPlain, e0, e] <;> decide

theorem hour12_eq (h : Int) : (h + 11) % 12 + 1 = hour12 h := by unfold hour12; split <;> omega

theorem specPlain_Y (dt : DateTime) (hy : 0 ≤ dt.year ∧ dt.year ≤ 9999) :
    specPlain dt 'Y' = some (pad4 dt.year) := by
  simp [specPlain, yearText, hy]

theorem tok_step (dt : DateTime) (hy : 0 ≤ dt.year ∧ dt.year ≤ 9999) (hm : 1 ≤ dt.month ∧ dt.month ≤ 12)
    (t : Tok) (ht : t.ok = true) (r : List Char) (fuel : Nat) :
    strftime dt (tokSf t ++ r) (fuel + 1) = (strftime dt r fuel).map (tokShowCode dt t ++ ·) := by
  cases t with
  | yyyy =>
    show strftime dt ('%' :: 'Y' :: r) (fuel + 1) = _
    rw [strftime.eq_4 dt 'Y' r fuel (fun _ _ h _ => absurd h (by decide)), specPlain_Y dt hy]
    cases strftime dt r fuel <;> rfl
  | yy =>
    show strftime dt ('%' :: 'y' :: r) (fuel + 1) = _
    rw [strftime.eq_4 dt 'y' r fuel (fun _ _ h _ => absurd h (by decide))]
    cases strftime dt r fuel <;> simp [specPlain, tokShow, tokShowCode]
  | mmm =>
    show strftime dt ('%' :: 'b' :: r) (fuel + 1) = _
    rw [strftime.eq_4 dt 'b' r fuel (fun _ _ h _ => absurd h (by decide)), specPlain_b dt hm]
    cases strftime dt r fuel <;> rfl
  | mm =>
    show strftime dt ('%' :: 'm' :: r) (fuel + 1) = _
    rw [strftime.eq_4 dt 'm' r fuel (fun _ _ h _ => absurd h (by decide))]
    cases strftime dt r fuel <;> simp [specPlain, tokShow, tokShowCode]
  | m =>
    show strftime dt ('%' :: '-' :: 'm' :: r) (fuel + 1) = _
    rw [strftime.eq_3]
    cases strftime dt r fuel <;> simp [specDash, tokShow, tokShowCode]
  | dd =>
    show strftime dt ('%' :: 'd' :: r) (fuel + 1) = _
    rw [strftime.eq_4 dt 'd' r fuel (fun _ _ h _ => absurd h (by decide))]
    cases strftime dt r fuel <;> simp [specPlain, tokShow, tokShowCode]
  | d =>
    show strftime dt ('%' :: '-' :: 'd' :: r) (fuel + 1) = _
    rw [strftime.eq_3]
    cases strftime dt r fuel <;> simp [specDash, tokShow, tokShowCode]
  | hh =>
    show strftime dt ('%' :: 'H' :: r) (fuel + 1) = _
    rw [strftime.eq_4 dt 'H' r fuel (fun _ _ h _ => absurd h (by decide))]
    cases strftime dt r fuel <;> simp [specPlain, tokShow, tokShowCode]
  | h =>
    show strftime dt ('%' :: '-' :: 'H' :: r) (fuel + 1) = _
    rw [strftime.eq_3]
    cases strftime dt r fuel <;> simp [specDash, tokShow, tokShowCode]
  | mi =>
    show strftime dt ('%' :: 'M' :: r) (fuel + 1) = _
    rw [strftime.eq_4 dt 'M' r fuel (fun _ _ h _ => absurd h (by decide))]
    cases strftime dt r fuel <;> simp [specPlain, tokShow, tokShowCode]
  | ss =>
    show strftime dt ('%' :: 'S' :: r) (fuel + 1) = _
    rw [strftime.eq_4 dt 'S' r fuel (fun _ _ h _ => absurd h (by decide))]
    cases strftime dt r fuel <;> simp [specPlain, tokShow, tokShowCode]
  | lit c =>
    simp only [Tok.ok, isSep, Bool.or_eq_true, beq_iff_eq] at ht
    show strftime dt (c :: r) (fuel + 1) = _
    rcases ht with ((((e | e) | e) | e) | e) | e <;> subst e <;>
      simp [strftime, tokShow, tokShowCode] <;> cases strftime dt r fuel <;> rfl
  | mmmm =>
    show strftime dt ('%' :: 'B' :: r) (fuel + 1) = _
    rw [strftime.eq_4 dt 'B' r fuel (fun _ _ h _ => absurd h (by decide)), specPlain_B dt hm]
    cases strftime dt r fuel <;> rfl
  | ddd =>
    show strftime dt ('%' :: 'a' :: r) (fuel + 1) = _
    rw [strftime.eq_4 dt 'a' r fuel (fun _ _ h _ => absurd h (by decide)), specPlain_a dt]
    cases strftime dt r fuel <;> rfl
  | dddd =>
    show strftime dt ('%' :: 'A' :: r) (fuel + 1) = _
    rw [strftime.eq_4 dt 'A' r fuel (fun _ _ h _ => absurd h (by decide)), specPlain_A dt]
    cases strftime dt r fuel <;> rfl
  | h12 =>
    show strftime dt ('%' :: '-' :: 'I' :: r) (fuel + 1) = _
    rw [strftime.eq_3]
    cases strftime dt r fuel <;> simp [specDash, tokShow, tokShowCode, hour12_eq]
  | hh12 =>
    show strftime dt ('%' :: 'I' :: r) (fuel + 1) = _
    rw [strftime.eq_4 dt 'I' r fuel (fun _ _ h _ => absurd h (by decide))]
    cases strftime dt r fuel <;> simp [specPlain, tokShow, tokShowCode, hour12_eq]
  | ampm =>
    show strftime dt ('%' :: 'P' :: r) (fuel + 1) = _
    rw [strftime.eq_4 dt 'P' r fuel (fun _ _ h _ => absurd h (by decide))]
    cases strftime dt r fuel <;> simp [specPlain, tokShowCode]

/-- the model's `strftime` on the specifier string of a token list is the token-by-token text -/
theorem strftime_toks (dt : DateTime) (hy : 0 ≤ dt.year ∧ dt.year ≤ 9999) (hm : 1 ≤ dt.month ∧ dt.month ≤ 12) :
    ∀ (toks : List Tok) (fuel : Nat), toks.all Tok.ok = true → toks.length < fuel →
      strftime dt (codeSf toks) fuel = some (showToksCode dt toks) := by
  intro toks
  induction toks with
  | nil =>
    intro fuel _ _
    simp [codeSf, showToksCode, strftime]
  | cons t rest ih =>
    intro fuel hok hlen
    obtain ⟨f, rfl⟩ : ∃ f, fuel = f + 1 := ⟨fuel - 1, by simp only [List.length_cons] at hlen; omega⟩
    simp only [List.all_cons, Bool.and_eq_true] at hok
    have e : codeSf (t :: rest) = tokSf t ++ codeSf rest := by simp [codeSf]
    rw [e, tok_step dt hy hm t hok.1, ih f hok.2 (by simp only [List.length_cons] at hlen; omega)]
    simp [showToksCode]

theorem codeSf_length (toks : List Tok) : toks.length ≤ (codeSf toks).length := by
  induction toks with
  | nil => simp [codeSf]
  | cons t rest ih =>
    have e : codeSf (t :: rest) = tokSf t ++ codeSf rest := by simp [codeSf]
    have : 1 ≤ (tokSf t).length := by cases t <;> simp [tokSf]
    rw [e, List.length_append, List.length_cons]; omega

/-! ## the date-time of a second count `n·86400 + T` -/

/-- date (reference calendar) and time of day of day number `n` (1970-01-01 = 0), second `T` -/
def civilDateTime (n T : Int) : DateTime :=
  let c := civilFromDays n
  ⟨c.1, c.2.1, c.2.2, T / 3600, T % 3600 / 60, T % 60, n⟩

theorem ofEpochSeconds_day (n T : Int) (hT : 0 ≤ T ∧ T < 86400) :
    ofEpochSeconds (n * 86400 + T) = civilDateTime n T := by
  unfold ofEpochSeconds civilDateTime
  have q1 : (n * 86400 + T) / 86400 = n := by omega
  have q2 : (n * 86400 + T) % 86400 = T := by omega
  simp only [q1, q2]

/-- day numbers of 1899-12-31 … 9999-12-31 have a year in 1899 … 9999 (so `%Y` prints four digits) -/
theorem civil_year_range (n : Int) (h0 : daysFromCivil 1899 12 31 ≤ n) (h1 : n ≤ daysFromCivil 9999 12 31) :
    1899 ≤ (civilFromDays n).1 ∧ (civilFromDays n).1 ≤ 9999 := by
  have hv := Umya.Lemmas.Calendar.civilFromDays_valid n
  have hr := Umya.Lemmas.Calendar.daysFromCivil_civilFromDays n
  have e0 : daysFromCivil 1899 1 1 = -25932 := by decide
  have e1 : daysFromCivil 1899 12 31 = -25568 := by decide
  have e2 : daysFromCivil 9999 12 31 = 2932896 := by decide
  constructor
  · refine Int.not_lt.1 fun hlt => ?_
    have := Umya.Lemmas.Calendar.daysFromCivil_strictMono _ _ _ 1899 1 1 hv (by decide) (Or.inl hlt)
    omega
  · refine Int.not_lt.1 fun hlt => ?_
    have := Umya.Lemmas.Calendar.daysFromCivil_strictMono 9999 12 31 _ _ _ (by decide) hv (Or.inl hlt)
    omega

/-- the text `format_as_date` produces for a token list the code reads as meant, from the second count -/
theorem render_toks (toks : List Tok) (hc : simpleCode toks = true) (n T : Int)
    (h0 : daysFromCivil 1899 12 31 ≤ n) (h1 : n ≤ daysFromCivil 9999 12 31) (hT : 0 ≤ T ∧ T < 86400) :
    ∃ sf, strftimeOf (codeText toks) = some sf ∧
      strftime (ofEpochSeconds (n * 86400 + T)) sf (sf.length + 1) = some (showToksCode (civilDateTime n T) toks) := by
  unfold simpleCode at hc
  simp only [Bool.and_eq_true, decide_eq_true_eq] at hc
  refine ⟨codeSf toks, hc.2, ?_⟩
  rw [ofEpochSeconds_day n T hT]
  have hy := civil_year_range n h0 h1
  have hv := Umya.Lemmas.Calendar.civilFromDays_valid n
  exact strftime_toks (civilDateTime n T) ⟨by show 0 ≤ (civilFromDays n).1; omega, hy.2⟩ ⟨hv.1, hv.2.1⟩ toks _ hc.1
    (by have := codeSf_length toks; omega)

/-! ## `trimBlanks` on a text without blanks at its ends -/

theorem trimBlanks_id (s : List Char) (c c' : Char) (r r' : List Char) (h1 : s = c :: r)
    (h2 : s.reverse = c' :: r') (hc : c ≠ ' ') (hc' : c' ≠ ' ') : trimBlanks s = s := by
  unfold trimBlanks
  have e1 : s.dropWhile (· == ' ') = s := by
    have : (c == ' ') = false := by simpa using hc
    rw [h1, List.dropWhile, this]
  rw [e1, h2]
  have e2 : (c' :: r').dropWhile (· == ' ') = c' :: r' := by
    have : (c' == ' ') = false := by simpa using hc'
    rw [List.dropWhile, this]
  rw [e2, ← h2, List.reverse_reverse]

def noBlank (s : List Char) : Bool := s.all (· != ' ')

theorem trimBlanks_ends (a mid c : List Char) (ha : a ≠ []) (hc : c ≠ []) (hab : noBlank a = true)
    (hcb : noBlank c = true) : trimBlanks (a ++ mid ++ c) = a ++ mid ++ c := by
  obtain ⟨x, a', rfl⟩ := List.exists_cons_of_ne_nil ha
  rcases List.eq_nil_or_concat c with h | ⟨c', z, rfl⟩
  · exact absurd h hc
  · simp only [noBlank, List.all_cons, Bool.and_eq_true, bne_iff_ne, ne_eq] at hab
    simp only [noBlank, List.concat_eq_append, List.all_append, List.all_cons, List.all_nil, Bool.and_true,
      Bool.and_eq_true, bne_iff_ne, ne_eq] at hcb
    exact trimBlanks_id _ x z (a' ++ mid ++ (c'.concat z)) ((x :: a' ++ mid ++ c').reverse) (by simp)
      (by simp [List.concat_eq_append]) hab.1 hcb.2

theorem trimBlanks_noBlank (a : List Char) (ha : a ≠ []) (hab : noBlank a = true) : trimBlanks a = a := by
  obtain ⟨x, a', rfl⟩ := List.exists_cons_of_ne_nil ha
  have h1 : noBlank [x] = true := by
    simp only [noBlank, List.all_cons, Bool.and_eq_true] at hab
    simp [noBlank, hab.1]
  rcases List.eq_nil_or_concat a' with h | ⟨c', z, h⟩
  · subst h
    have := trimBlanks_ends [x] [] [x] (by simp) (by simp) h1 h1
    -- a one-character text: trim directly
    simp only [noBlank, List.all_cons, List.all_nil, Bool.and_true, bne_iff_ne, ne_eq] at h1
    exact trimBlanks_id _ x x [] [] rfl rfl h1 h1
  · subst h
    have h2 : noBlank [z] = true := by
      simp only [noBlank, List.concat_eq_append, List.all_cons, List.all_append, List.all_nil, Bool.and_true,
        Bool.and_eq_true] at hab
      simp [noBlank, hab.2.2]
    have := trimBlanks_ends [x] c' [z] (by simp) (by simp) h1 h2
    simpa [List.concat_eq_append] using this

theorem isDigit_ne_blank (c : Char) (h : isDigit c = true) : (c != ' ') = true := by
  rw [bne_iff_ne]
  intro e; subst e
  exact absurd h (by decide)

theorem noBlank_decDigits (n : Nat) : noBlank (decDigits n) = true := by
  have h := decDigits_all_digit n
  unfold noBlank
  rw [List.all_eq_true] at h ⊢
  intro c hc
  exact isDigit_ne_blank c (h c hc)

theorem noBlank_append (a b : List Char) (ha : noBlank a = true) (hb : noBlank b = true) :
    noBlank (a ++ b) = true := by
  unfold noBlank at *; rw [List.all_append, ha, hb]; rfl

theorem noBlank_pad2 (n : Int) : noBlank (pad2 n) = true ∧ pad2 n ≠ [] := by
  unfold pad2
  split
  · exact ⟨noBlank_append ['0'] _ (by decide) (noBlank_decDigits _), by simp⟩
  · exact ⟨noBlank_decDigits _, decDigits_ne_nil _⟩

theorem noBlank_pad4 (n : Int) : noBlank (pad4 n) = true ∧ pad4 n ≠ [] := by
  unfold pad4
  refine ⟨noBlank_append _ _ ?_ (noBlank_decDigits _), ?_⟩
  · unfold noBlank; rw [List.all_eq_true]; intro c hc
    rw [List.mem_replicate] at hc; rw [hc.2]; decide
  · intro h
    exact decDigits_ne_nil _ (List.append_eq_nil_iff.1 h).2

/-- the text of a token other than the blank has no blank and is not empty -/
theorem tokShow_noBlank (dt : DateTime) (hm : 1 ≤ dt.month ∧ dt.month ≤ 12) (t : Tok) (ht : t.ok = true)
    (hb : t ≠ .lit ' ') : noBlank (tokShow dt t) = true ∧ tokShow dt t ≠ [] := by
  cases t with
  | yyyy => exact noBlank_pad4 _
  | yy => exact noBlank_pad2 _
  | mmm =>
    have : dt.month = 1 ∨ dt.month = 2 ∨ dt.month = 3 ∨ dt.month = 4 ∨ dt.month = 5 ∨ dt.month = 6 ∨
        dt.month = 7 ∨ dt.month = 8 ∨ dt.month = 9 ∨ dt.month = 10 ∨ dt.month = 11 ∨ dt.month = 12 := by omega
    show noBlank (monthAbbr dt.month) = true ∧ monthAbbr dt.month ≠ []
    rcases this with e | e | e | e | e | e | e | e | e | e | e | e <;> rw [e] <;> decide
  | mm => exact noBlank_pad2 _
  | m => exact ⟨noBlank_decDigits _, decDigits_ne_nil _⟩
  | dd => exact noBlank_pad2 _
  | d => exact ⟨noBlank_decDigits _, decDigits_ne_nil _⟩
  | hh => exact noBlank_pad2 _
  | h => exact ⟨noBlank_decDigits _, decDigits_ne_nil _⟩
  | mi => exact noBlank_pad2 _
  | ss => exact noBlank_pad2 _
  | lit c =>
    have hc : c ≠ ' ' := fun e => hb (by rw [e])
    exact ⟨by simp [tokShow, noBlank, hc], by simp [tokShow]⟩
  | mmmm =>
    have : dt.month = 1 ∨ dt.month = 2 ∨ dt.month = 3 ∨ dt.month = 4 ∨ dt.month = 5 ∨ dt.month = 6 ∨
        dt.month = 7 ∨ dt.month = 8 ∨ dt.month = 9 ∨ dt.month = 10 ∨ dt.month = 11 ∨ dt.month = 12 := by omega
    show noBlank (monthFull dt.month) = true ∧ monthFull dt.month ≠ []
    rcases this with e | e | e | e | e | e | e | e | e | e | e | e <;> rw [e] <;> decide
  | ddd =>
    show noBlank (dayAbbr (weekdayOf dt.dayNo)) = true ∧ dayAbbr (weekdayOf dt.dayNo) ≠ []
    rcases weekdayOf_cases dt.dayNo with e | e | e | e | e | e | e <;> rw [e] <;> decide
  | dddd =>
    show noBlank (dayFull (weekdayOf dt.dayNo)) = true ∧ dayFull (weekdayOf dt.dayNo) ≠ []
    rcases weekdayOf_cases dt.dayNo with e | e | e | e | e | e | e <;> rw [e] <;> decide
  | h12 => exact ⟨noBlank_decDigits _, decDigits_ne_nil _⟩
  | hh12 => exact noBlank_pad2 _
  | ampm =>
    show noBlank (if dt.hour < 12 then "AM".toList else "PM".toList) = true ∧
      (if dt.hour < 12 then "AM".toList else "PM".toList) ≠ []
    split <;> decide

theorem tokShowCode_noBlank (dt : DateTime) (hm : 1 ≤ dt.month ∧ dt.month ≤ 12) (t : Tok) (ht : t.ok = true)
    (hb : t ≠ .lit ' ') : noBlank (tokShowCode dt t) = true ∧ tokShowCode dt t ≠ [] := by
  by_cases h : t = .ampm
  · subst h
    show noBlank (if dt.hour < 12 then "am".toList else "pm".toList) = true ∧
      (if dt.hour < 12 then "am".toList else "pm".toList) ≠ []
    split <;> decide
  · have e : tokShowCode dt t = tokShow dt t := by
      cases t <;> first | rfl | exact absurd rfl h
    rw [e]; exact tokShow_noBlank dt hm t ht hb

/-- a code that neither starts nor ends with a blank: the trimming of `to_formatted_string` changes nothing
    (for any token-wise text `sh` whose pieces have no blank and are not empty) -/
theorem trimBlanks_flatMap (sh : Tok → List Char)
    (hsh : ∀ t : Tok, t.ok = true → t ≠ .lit ' ' → noBlank (sh t) = true ∧ sh t ≠ []) (toks : List Tok)
    (hok : toks.all Tok.ok = true) (hne : toks ≠ []) (h1 : toks.head? ≠ some (.lit ' '))
    (h2 : toks.getLast? ≠ some (.lit ' ')) : trimBlanks (toks.flatMap sh) = toks.flatMap sh := by
  obtain ⟨t, rest, rfl⟩ := List.exists_cons_of_ne_nil hne
  simp only [List.all_cons, Bool.and_eq_true] at hok
  have ht : t ≠ .lit ' ' := fun e => h1 (by rw [e]; rfl)
  obtain ⟨n1, n2⟩ := hsh t hok.1 ht
  rcases List.eq_nil_or_concat rest with h | ⟨mid, t', h⟩
  · subst h
    have e : [t].flatMap sh = sh t := by simp
    rw [e]; exact trimBlanks_noBlank _ n2 n1
  · subst h
    rw [List.concat_eq_append] at hok h2
    have hok' : t'.ok = true := by
      have := hok.2; rw [List.all_append] at this
      simp only [List.all_cons, List.all_nil, Bool.and_true, Bool.and_eq_true] at this
      exact this.2
    have ht' : t' ≠ .lit ' ' := fun e => h2 (by rw [e, ← List.cons_append, List.getLast?_append]; rfl)
    obtain ⟨m1, m2⟩ := hsh t' hok' ht'
    have e : (t :: (mid ++ [t'])).flatMap sh = sh t ++ mid.flatMap sh ++ sh t' := by
      simp
    rw [List.concat_eq_append, e]
    exact trimBlanks_ends _ _ _ n2 m2 n1 m1

theorem trimBlanks_showToks (dt : DateTime) (hm : 1 ≤ dt.month ∧ dt.month ≤ 12) (toks : List Tok)
    (hok : toks.all Tok.ok = true) (hne : toks ≠ []) (h1 : toks.head? ≠ some (.lit ' '))
    (h2 : toks.getLast? ≠ some (.lit ' ')) : trimBlanks (showToks dt toks) = showToks dt toks :=
  trimBlanks_flatMap (tokShow dt) (tokShow_noBlank dt hm) toks hok hne h1 h2

theorem trimBlanks_showToksCode (dt : DateTime) (hm : 1 ≤ dt.month ∧ dt.month ≤ 12) (toks : List Tok)
    (hok : toks.all Tok.ok = true) (hne : toks ≠ []) (h1 : toks.head? ≠ some (.lit ' '))
    (h2 : toks.getLast? ≠ some (.lit ' ')) : trimBlanks (showToksCode dt toks) = showToksCode dt toks :=
  trimBlanks_flatMap (tokShowCode dt) (tokShowCode_noBlank dt hm) toks hok hne h1 h2

end Umya.Lemmas.DateDisplay
