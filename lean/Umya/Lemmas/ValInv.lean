/-
  The accumulator `value` is never the text `-` or `+` outside string literals; hence the text
  pass 2 stores in the first intersection token is never mistaken for a sign by pass 3.
-/
import Umya.Lemmas.Lex
namespace Umya.Formula
open Umya.Coord Umya.Dec

def NotSign (v : List Char) : Prop := v ≠ ['-'] ∧ v ≠ ['+']

def VInv (st : LexSt) : Prop :=
  ((st.mode = .path ∨ st.mode = .pathQ ∨ st.mode = .range ∨ st.mode = .error) → st.value ≠ []) ∧
  ((st.mode ≠ .str ∧ st.mode ≠ .strQ) → NotSign st.value)

theorem notSign_nil : NotSign [] := ⟨by simp, by simp⟩

theorem notSign_append (v : List Char) (c : Char) (h1 : c ≠ '-') (h2 : c ≠ '+') : NotSign (v ++ [c]) := by
  cases v with
  | nil => exact ⟨by simpa using h1, by simpa using h2⟩
  | cons a r => exact ⟨by simp, by simp⟩

theorem notSign_append_ne (v w : List Char) (hv : v ≠ []) (hw : w ≠ []) : NotSign (v ++ w) := by
  cases v with
  | nil => exact absurd rfl hv
  | cons a r =>
    cases w with
    | nil => exact absurd rfl hw
    | cons b s => exact ⟨by simp, by simp⟩

@[simp] theorem close_value (st : LexSt) : st.close.value = st.value := by
  unfold LexSt.close; split <;> rfl

theorem close_mode_cases (st : LexSt) : st.close.mode = st.mode ∨ st.close.mode = .dead := by
  unfold LexSt.close; split
  · right; rfl
  · left; rfl

/-- a state whose accumulator is empty and whose mode is not a "collecting" one -/
theorem vinv_of_empty (st : LexSt) (hv : st.value = [])
    (hm : ¬ (st.mode = .path ∨ st.mode = .pathQ ∨ st.mode = .range ∨ st.mode = .error)) : VInv st :=
  ⟨fun h => absurd h hm, fun _ => by rw [hv]; exact notSign_nil⟩

theorem stepNormal_vinv (st : LexSt) (hm : st.mode = .normal) (hv : NotSign st.value) (c : Char) :
    VInv (stepNormal st c) := by
  by_cases hsp : isSpecial c = false
  · rw [sn_other st c hsp]
    simp only [isSpecial, isPlainInfix, Bool.or_eq_false_iff, decide_eq_false_iff_not] at hsp
    have h1 : c ≠ '-' := hsp.1.1.1.1.2.1.1.1.1.1.2
    have h2 : c ≠ '+' := hsp.1.1.1.1.2.1.1.1.1.1.1
    exact ⟨by simp [hm], fun _ => notSign_append _ _ h1 h2⟩
  · have : isSpecial c = true := by
      cases h : isSpecial c
      · exact absurd h hsp
      · rfl
    simp only [isSpecial, Bool.or_eq_true, decide_eq_true_eq] at this
    rcases this with (((((((((((((hc | hc) | hc) | hc) | hc) | hc) | hc) | hc) | hc) | hc) | hc) | hc) | hc) | hc) | hc
    · subst hc; rw [sn_dq]; exact ⟨by simp, by simp⟩
    · subst hc; rw [sn_sq]; exact ⟨by simp, fun _ => ⟨by simp, by simp⟩⟩
    · subst hc; rw [sn_lb]; exact ⟨by simp, fun _ => notSign_append _ _ (by decide) (by decide)⟩
    · subst hc; rw [sn_hash]; exact ⟨by simp, fun _ => ⟨by simp, by simp⟩⟩
    · subst hc; rw [sn_lbrace]; exact vinv_of_empty _ (by simp) (by simp [hm])
    · subst hc; rw [sn_semi]
      split
      · exact vinv_of_empty _ (by simp) (by rename_i h; simp [h])
      · refine vinv_of_empty _ (by simp) ?_
        rcases close_mode_cases (st.flush .operand) with h | h <;> simp [h, hm]
    · subst hc; rw [sn_rbrace]
      split
      · exact vinv_of_empty _ (by simp) (by rename_i h; simp [h])
      · refine vinv_of_empty _ (by simp) ?_
        rcases close_mode_cases ((st.flush .operand).close) with h | h
        · rcases close_mode_cases (st.flush .operand) with h' | h' <;> simp [h, h', hm]
        · simp [h]
    · subst hc; rw [sn_blank]; exact vinv_of_empty _ (by simp) (by simp)
    · subst hc; rw [sn_lt]; exact vinv_of_empty _ (by simp) (by simp)
    · subst hc; rw [sn_gt]; exact vinv_of_empty _ (by simp) (by simp)
    · rw [sn_infix st c hc]; exact vinv_of_empty _ (by simp) (by simp [hm])
    · subst hc; rw [sn_pct]; exact vinv_of_empty _ (by simp) (by simp [hm])
    · subst hc; rw [sn_lp]
      split
      · rename_i h; exact vinv_of_empty _ (by simpa using h) (by simp [hm])
      · exact vinv_of_empty _ (by simp) (by simp [hm])
    · subst hc; rw [sn_comma]
      cases hst : (st.flush .operand).stack with
      | nil => exact vinv_of_empty _ (by simp) (by simp)
      | cons t rest =>
        simp only
        split <;> exact vinv_of_empty _ (by simp) (by simp [hm])
    · subst hc; rw [sn_rp]
      refine vinv_of_empty _ (by simp) ?_
      rcases close_mode_cases (st.flush .operand) with h | h <;> simp [h, hm]

theorem step_vinv (st : LexSt) (hv : VInv st) (c : Char) : VInv (step st c) := by
  cases hm : st.mode with
  | dead => simpa [step, hm] using hv
  | normal =>
    have e : step st c = stepNormal st c := by simp [step, hm]
    rw [e]; exact stepNormal_vinv st hm (hv.2 (by simp [hm])) c
  | skipBlank =>
    by_cases hc : c = ' '
    · have e : step st c = st := by simp [step, hm, hc]
      rw [e]; exact hv
    · have e : step st c = stepNormal { st with mode := .normal } c := by simp [step, hm, hc]
      rw [e]; exact stepNormal_vinv { st with mode := .normal } rfl (hv.2 (by simp [hm])) c
  | cmp a =>
    by_cases hmc : isMultiCmp a c = true
    · have e : step st c = { st.push ⟨[a, c], .opInfix, .logical, .none⟩ with mode := .normal } := by
        simp [step, hm, hmc]
      rw [e]; exact ⟨by simp, fun _ => hv.2 (by simp [hm])⟩
    · have e : step st c = stepNormal { st.push ⟨[a], .opInfix, .nothing, .none⟩ with mode := .normal } c := by
        simp [step, hm, hmc]
      rw [e]
      exact stepNormal_vinv { st.push ⟨[a], .opInfix, .nothing, .none⟩ with mode := .normal } rfl (hv.2 (by simp [hm])) c
  | str =>
    by_cases hc : c = '"'
    · have e : step st c = { st with mode := .strQ } := by simp [step, hm, hc]
      rw [e]; exact ⟨by simp, by simp⟩
    · have e : step st c = { st with value := st.value ++ [c] } := by simp [step, hm, hc]
      rw [e]; exact ⟨by simp [hm], by simp [hm]⟩
  | strQ =>
    by_cases hc : c = '"'
    · have e : step st c = { st with value := st.value ++ ['"'], mode := .str } := by simp [step, hm, hc]
      rw [e]; exact ⟨by simp, by simp⟩
    · have e : step st c = stepNormal
          { st with toks := st.toks ++ [⟨st.value, .operand, .text, .none⟩], value := [], mode := .normal } c := by
        simp [step, hm, hc]
      rw [e]
      exact stepNormal_vinv
        { st with toks := st.toks ++ [⟨st.value, .operand, .text, .none⟩], value := [], mode := .normal } rfl notSign_nil c
  | path =>
    have hne : st.value ≠ [] := hv.1 (Or.inl hm)
    by_cases hc : c = '\''
    · have e : step st c = { st with mode := .pathQ } := by simp [step, hm, hc]
      rw [e]; exact ⟨fun _ => hne, fun _ => hv.2 (by simp [hm])⟩
    · have e : step st c = { st with value := st.value ++ [c] } := by simp [step, hm, hc]
      rw [e]; exact ⟨fun _ => by simp, fun _ => notSign_append_ne _ _ hne (by simp)⟩
  | pathQ =>
    have hne : st.value ≠ [] := hv.1 (Or.inr (Or.inl hm))
    by_cases hc : c = '\''
    · have e : step st c = { st with value := st.value ++ ['\'', '\''], mode := .path } := by
        simp [step, hm, hc]
      rw [e]; exact ⟨fun _ => by simp, fun _ => notSign_append_ne _ _ hne (by simp)⟩
    · have e : step st c = stepNormal { st with value := st.value ++ ['\''], mode := .normal } c := by
        simp [step, hm, hc]
      rw [e]
      exact stepNormal_vinv { st with value := st.value ++ ['\''], mode := .normal } rfl
        (notSign_append_ne _ _ hne (by simp)) c
  | range =>
    have hne : st.value ≠ [] := hv.1 (Or.inr (Or.inr (Or.inl hm)))
    have e : step st c = { st with value := st.value ++ [c], mode := if c = ']' then .normal else .range } := by
      simp [step, hm]
    rw [e]; exact ⟨fun _ => by simp, fun _ => notSign_append_ne _ _ hne (by simp)⟩
  | error =>
    have hne : st.value ≠ [] := hv.1 (Or.inr (Or.inr (Or.inr hm)))
    by_cases hx : st.value ++ [c] ∈ errors
    · have e : step st c = { st with toks := st.toks ++ [⟨st.value ++ [c], .operand, .error, .none⟩], value := [], mode := .normal } := by
        simp [step, hm, hx]
      rw [e]; exact vinv_of_empty _ rfl (by simp)
    · have e : step st c = { st with value := st.value ++ [c] } := by simp [step, hm, hx]
      rw [e]; exact ⟨fun _ => by simp, fun _ => notSign_append_ne _ _ hne (by simp)⟩

theorem vinv_init : VInv {} := vinv_of_empty _ rfl (by simp)

theorem lex_vinv (s : List Char) (st : LexSt) (hv : VInv st) : VInv (s.foldl step st) := by
  induction s generalizing st with
  | nil => exact hv
  | cons c r ih => exact ih _ (step_vinv st hv c)

/-- the left-over accumulator handed to pass 2 is never `-` or `+` when the input does not end
    inside a string literal -/
theorem finish_notSign (st : LexSt) (hv : VInv st) (hm : st.mode ≠ .str) : NotSign (finish st).value := by
  unfold finish
  cases hmode : st.mode with
  | str => exact absurd hmode hm
  | strQ => simp only; split <;> exact notSign_nil
  | pathQ =>
    have hne : st.value ≠ [] := hv.1 (Or.inr (Or.inl hmode))
    simp only; split <;> exact notSign_append_ne _ _ hne (by simp)
  | cmp a => simp only; split <;> exact hv.2 (by simp [hmode])
  | normal => simp only; split <;> exact hv.2 (by simp [hmode])
  | skipBlank => simp only; split <;> exact hv.2 (by simp [hmode])
  | path => simp only; split <;> exact hv.2 (by simp [hmode])
  | range => simp only; split <;> exact hv.2 (by simp [hmode])
  | error => simp only; split <;> exact hv.2 (by simp [hmode])
  | dead => simp only; split <;> exact hv.2 (by simp [hmode])

end Umya.Formula
