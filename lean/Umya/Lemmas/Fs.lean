/-
  Helper lemmas for C13: frame properties of the system calls (a call on path `h` does not
  change what is at another path `d`), content tracking of `write_all` / `BufWriter`.
-/
import Umya.Model.Fs
namespace Umya.Fs

/-! ### finite map -/

theorem get_set_same (fs : Fs) (p : Path) (n : Node) : get (set fs p n) p = some n := by
  simp [set, get]

theorem get_set_ne (fs : Fs) {p q : Path} (n : Node) (h : p ≠ q) : get (set fs p n) q = get fs q := by
  simp [set, get, h]

theorem get_del_same (fs : Fs) (p : Path) : get (del fs p) p = none := by
  induction fs with
  | nil => rfl
  | cons x r ih =>
    obtain ⟨q, n⟩ := x
    by_cases hq : q = p
    · simp [del, hq, ih]
    · simp [del, hq, get, ih]

theorem get_del_ne (fs : Fs) {p q : Path} (h : p ≠ q) : get (del fs p) q = get fs q := by
  induction fs with
  | nil => rfl
  | cons x r ih =>
    obtain ⟨a, n⟩ := x
    by_cases ha : a = p
    · have : a ≠ q := by intro e; exact h (ha ▸ e)
      simp [del, ha, get, ih]
      intro e; exact absurd e h
    · by_cases haq : a = q
      · subst haq; simp [del, ha, get]
      · simp [del, ha, get, haq, ih]

theorem tmpOf_ne (d : Path) : tmpOf d ≠ d := by
  intro h
  have := congrArg List.length h
  simp [tmpOf] at this

/-! ### what an observer of path `d` sees -/

/-- every state of the history has `o` at path `d` -/
def Stable (d : Path) (o : Option Node) (st : St) : Prop := ∀ s ∈ st.states, get s d = o

theorem Stable.tick {d o st} (h : Stable d o st) : Stable d o st.tick := h

theorem Stable.step {d o st} (h : Stable d o st) {fs' : Fs} (h' : get fs' d = o) :
    Stable d o (st.step fs') := by
  intro s hs
  simp only [St.states, St.step, List.mem_cons] at hs
  rcases hs with rfl | rfl | hs
  · exact h'
  · exact h _ (by simp [St.states])
  · exact h _ (by simp [St.states, hs])

theorem Stable.cur {d o st} (h : Stable d o st) : get st.cur d = o := h _ (by simp [St.states])

/-! ### system calls -/

theorem sysWrite_file (φ : Fault) (h : Path) (bs : Bytes) (st : St) (c : Bytes)
    (hf : get st.cur h = some (.file c)) :
    sysWrite φ h bs st = (st.tick, .err) ∨
    ∃ m, m ≤ bs.length ∧
      sysWrite φ h bs st = (st.tick.step (set st.cur h (.file (c ++ bs.take m))), .accept m) := by
  unfold sysWrite
  simp only [hf]
  cases hw : φ.write st.calls c.length bs.length with
  | err => left; rfl
  | accept n => right; exact ⟨min n bs.length, Nat.min_le_right _ _, rfl⟩

theorem sysCreate_cases (φ : Fault) (p : Path) (st : St)
    (hns : ∀ t, get st.cur p ≠ some (.symlink t)) :
    sysCreate φ p st = (st, none) ∨
    sysCreate φ p st = (st.step (set st.cur p (.file [])), some p) := by
  have hres : resolve st.cur 40 p = some p := by
    show resolve st.cur (39 + 1) p = some p
    unfold resolve
    split
    · rename_i t ht; exact absurd ht (hns t)
    · rfl
  unfold sysCreate
  by_cases hc : φ.createFails = true
  · simp [hc]
  · simp only [hc, hres]
    cases hg : get st.cur p with
    | none => right; simp
    | some n =>
      cases n with
      | file b => right; simp
      | symlink t => left; simp
      | dir => left; simp

theorem sysRename_cases (φ : Fault) (src dst : Path) (st : St) (n : Node) (b : Bytes)
    (hs : get st.cur src = some n) (hd : get st.cur dst = some (.file b)) :
    sysRename φ src dst st = (st, .err) ∨
    sysRename φ src dst st = (st.step (set (del st.cur src) dst n), .ok) := by
  unfold sysRename
  by_cases hc : φ.renameFails = true
  · simp [hc]
  · simp [hc, hs, hd]

theorem sysRemove_stable (φ : Fault) {p d : Path} (hpd : p ≠ d) {o st} (h : Stable d o st) :
    Stable d o (sysRemove φ p st).1 := by
  unfold sysRemove
  split
  · exact h
  · split
    · exact h
    · exact h
    · exact h.step (by rw [get_del_ne _ hpd]; exact h.cur)

/-! ### `write_all` -/

/-- `write_all` of `data` on a handle whose file holds `c`: the file ends up holding `c ++ data`
    (ok) or `c` plus a proper prefix of `data` (err); never out of fuel, never a panic;
    nothing at another path `d` changes in any intermediate state. -/
theorem writeAll_spec (φ : Fault) (h d : Path) (o : Option Node) (hd : h ≠ d) :
    ∀ (fuel : Nat) (data : Bytes) (st : St) (c : Bytes),
      data.length ≤ fuel → get st.cur h = some (.file c) → Stable d o st →
      Stable d o (writeAll φ h fuel data st).1 ∧
      (((writeAll φ h fuel data st).2 = .ok ∧
          get (writeAll φ h fuel data st).1.cur h = some (.file (c ++ data))) ∨
       ((writeAll φ h fuel data st).2 = .err ∧
          ∃ k, k < data.length ∧
            get (writeAll φ h fuel data st).1.cur h = some (.file (c ++ data.take k)))) := by
  intro fuel
  induction fuel with
  | zero =>
    intro data st c hl hf hs
    cases data with
    | nil => simp [writeAll, hs, hf]
    | cons b bs => simp at hl
  | succ k ih =>
    intro data st c hl hf hs
    cases data with
    | nil => simp [writeAll, hs, hf]
    | cons b bs =>
      rcases sysWrite_file φ h (b :: bs) st c hf with e | ⟨m, hm, e⟩
      · have ew : writeAll φ h (k + 1) (b :: bs) st = (st.tick, .err) := by rw [writeAll, e]
        rw [ew]
        refine ⟨hs.tick, Or.inr ⟨rfl, 0, by simp, ?_⟩⟩
        simpa [St.tick] using hf
      · cases m with
        | zero =>
          have ew : writeAll φ h (k + 1) (b :: bs) st =
              (st.tick.step (set st.cur h (.file (c ++ (b :: bs).take 0))), .err) := by
            rw [writeAll, e]
          rw [ew]
          refine ⟨hs.tick.step (by rw [get_set_ne _ _ hd]; exact hs.cur), Or.inr ⟨rfl, 0, by simp, ?_⟩⟩
          simp [St.step, get_set_same]
        | succ m =>
          have ew : writeAll φ h (k + 1) (b :: bs) st =
              writeAll φ h k ((b :: bs).drop (m + 1))
                (st.tick.step (set st.cur h (.file (c ++ (b :: bs).take (m + 1))))) := by
            rw [writeAll, e]
          rw [ew]
          have hst' : Stable d o (st.tick.step (set st.cur h (.file (c ++ (b :: bs).take (m + 1))))) :=
            hs.tick.step (by rw [get_set_ne _ _ hd]; exact hs.cur)
          have hf' : get (st.tick.step (set st.cur h (.file (c ++ (b :: bs).take (m + 1))))).cur h
              = some (.file (c ++ (b :: bs).take (m + 1))) := by
            simp only [St.step, get_set_same]
          have hl' : ((b :: bs).drop (m + 1)).length ≤ k := by
            simp only [List.length_drop, List.length_cons] at *
            omega
          have := ih ((b :: bs).drop (m + 1)) _ _ hl' hf' hst'
          refine ⟨this.1, ?_⟩
          rcases this.2 with ⟨r1, r2⟩ | ⟨r1, k', hk', r2⟩
          · left
            refine ⟨r1, ?_⟩
            rw [r2, List.append_assoc, List.take_append_drop]
          · right
            refine ⟨r1, m + 1 + k', ?_, ?_⟩
            · simp only [List.length_drop, List.length_cons] at hk' hm ⊢
              omega
            · rw [r2, List.append_assoc, ← List.take_add]

/-! ### `BufWriter` -/

theorem flushBuf_spec (φ : Fault) (h d : Path) (o : Option Node) (hd : h ≠ d) :
    ∀ (fuel : Nat) (buf : Bytes) (st : St) (c : Bytes),
      buf.length ≤ fuel → get st.cur h = some (.file c) → Stable d o st →
      Stable d o (flushBuf φ h fuel buf st).2.1 ∧
      (((flushBuf φ h fuel buf st).2.2 = .ok ∧ (flushBuf φ h fuel buf st).1 = [] ∧
          get (flushBuf φ h fuel buf st).2.1.cur h = some (.file (c ++ buf))) ∨
       ((flushBuf φ h fuel buf st).2.2 = .err ∧
          ∃ c', get (flushBuf φ h fuel buf st).2.1.cur h = some (.file c'))) := by
  intro fuel
  induction fuel with
  | zero =>
    intro buf st c hl hf hs
    cases buf with
    | nil => simp [flushBuf, hs, hf]
    | cons b bs => simp at hl
  | succ k ih =>
    intro buf st c hl hf hs
    cases buf with
    | nil => simp [flushBuf, hs, hf]
    | cons b bs =>
      rcases sysWrite_file φ h (b :: bs) st c hf with e | ⟨m, hm, e⟩
      · have ew : flushBuf φ h (k + 1) (b :: bs) st = (b :: bs, st.tick, .err) := by rw [flushBuf, e]
        rw [ew]
        exact ⟨hs.tick, Or.inr ⟨rfl, c, by simpa [St.tick] using hf⟩⟩
      · cases m with
        | zero =>
          have ew : flushBuf φ h (k + 1) (b :: bs) st =
              (b :: bs, st.tick.step (set st.cur h (.file (c ++ (b :: bs).take 0))), .err) := by
            rw [flushBuf, e]
          rw [ew]
          refine ⟨hs.tick.step (by rw [get_set_ne _ _ hd]; exact hs.cur),
            Or.inr ⟨rfl, c ++ (b :: bs).take 0, ?_⟩⟩
          simp only [St.step, get_set_same]
        | succ m =>
          have ew : flushBuf φ h (k + 1) (b :: bs) st =
              flushBuf φ h k ((b :: bs).drop (m + 1))
                (st.tick.step (set st.cur h (.file (c ++ (b :: bs).take (m + 1))))) := by
            rw [flushBuf, e]
          rw [ew]
          have hst' : Stable d o (st.tick.step (set st.cur h (.file (c ++ (b :: bs).take (m + 1))))) :=
            hs.tick.step (by rw [get_set_ne _ _ hd]; exact hs.cur)
          have hf' : get (st.tick.step (set st.cur h (.file (c ++ (b :: bs).take (m + 1))))).cur h
              = some (.file (c ++ (b :: bs).take (m + 1))) := by
            simp only [St.step, get_set_same]
          have hl' : ((b :: bs).drop (m + 1)).length ≤ k := by
            simp only [List.length_drop, List.length_cons] at *
            omega
          have := ih ((b :: bs).drop (m + 1)) _ _ hl' hf' hst'
          refine ⟨this.1, ?_⟩
          rcases this.2 with ⟨r1, r2, r3⟩ | ⟨r1, r2⟩
          · left
            refine ⟨r1, r2, ?_⟩
            rw [r3, List.append_assoc, List.take_append_drop]
          · right
            exact ⟨r1, r2⟩

theorem bufFlush_spec (φ : Fault) (bw : BufW) (d : Path) (o : Option Node) (hd : bw.h ≠ d)
    (st : St) (c : Bytes) (hf : get st.cur bw.h = some (.file c)) (hs : Stable d o st) :
    Stable d o (bufFlush φ bw st).2.1 ∧ (bufFlush φ bw st).1.h = bw.h ∧
    (((bufFlush φ bw st).2.2 = .ok ∧ (bufFlush φ bw st).1.buf = [] ∧
        get (bufFlush φ bw st).2.1.cur bw.h = some (.file (c ++ bw.buf))) ∨
     ((bufFlush φ bw st).2.2 = .err ∧ ∃ c', get (bufFlush φ bw st).2.1.cur bw.h = some (.file c'))) := by
  have := flushBuf_spec φ bw.h d o hd bw.buf.length bw.buf st c (Nat.le_refl _) hf hs
  exact ⟨this.1, rfl, this.2⟩

theorem bufFlush_empty (φ : Fault) (h : Path) (st : St) :
    bufFlush φ ⟨h, []⟩ st = (⟨h, []⟩, st, .ok) := by
  simp [bufFlush, flushBuf]

theorem bufDrop_empty (φ : Fault) (h : Path) (st : St) : bufDrop φ ⟨h, []⟩ st = st := by
  simp [bufDrop, bufFlush_empty]

theorem bufDrop_stable (φ : Fault) (bw : BufW) (d : Path) (o : Option Node) (hd : bw.h ≠ d)
    (st : St) (c : Bytes) (hf : get st.cur bw.h = some (.file c)) (hs : Stable d o st) :
    Stable d o (bufDrop φ bw st) :=
  (bufFlush_spec φ bw d o hd st c hf hs).1

/-- a `BufWriter` that is still empty either buffers the data (shorter than the capacity) or
    hands it to the inner writer directly -/
theorem bufWriteAll_empty (φ : Fault) (h : Path) (data : Bytes) (st : St) :
    bufWriteAll φ ⟨h, []⟩ data st =
      if data.length < cap then (⟨h, data⟩, st, .ok)
      else (⟨h, []⟩, (writeAll φ h data.length data st).1, (writeAll φ h data.length data st).2) := by
  unfold bufWriteAll
  by_cases hlt : data.length < cap
  · simp [hlt]
  · have hge : cap ≤ data.length := Nat.le_of_not_lt hlt
    simp only [List.length_nil, Nat.sub_zero, hlt, if_false, bufFlush_empty]
    by_cases hgt : data.length > cap
    · simp [hgt, hge]
    · simp [hgt, hge]

/-! ### the parts of the protocols -/

/-- writing the temp file: either it holds exactly `data` afterwards (ok) or an error is
    returned; nothing at `d` changes meanwhile -/
theorem writeTmp_spec (φ : Fault) (h d : Path) (o : Option Node) (hd : h ≠ d) (data : Bytes)
    (st : St) (hf : get st.cur h = some (.file [])) (hs : Stable d o st) :
    Stable d o (writeTmp φ h data st).1 ∧
    (((writeTmp φ h data st).2 = .ok ∧ get (writeTmp φ h data st).1.cur h = some (.file data)) ∨
     (writeTmp φ h data st).2 = .err) := by
  unfold writeTmp
  rw [bufWriteAll_empty]
  by_cases hlt : data.length < cap
  · simp only [hlt, if_true]
    have fl := bufFlush_spec φ ⟨h, data⟩ d o hd st [] hf hs
    rcases fl.2.2 with ⟨r1, r2, r3⟩ | ⟨r1, c', r3⟩
    · have hb : (bufFlush φ ⟨h, data⟩ st).1 = ⟨h, []⟩ := by
        cases hx : (bufFlush φ ⟨h, data⟩ st).1 with
        | mk h' b' =>
          have h1 := fl.2.1; rw [hx] at h1 r2; simp at h1 r2; rw [h1, r2]
      rw [hb, bufDrop_empty]
      exact ⟨fl.1, Or.inl ⟨r1, by simpa using r3⟩⟩
    · refine ⟨?_, Or.inr r1⟩
      have hh : (bufFlush φ ⟨h, data⟩ st).1.h = h := fl.2.1
      exact bufDrop_stable φ _ d o (by rw [hh]; exact hd) _ c' (by rw [hh]; exact r3) fl.1
  · simp only [hlt, if_false]
    have hw := writeAll_spec φ h d o hd data.length data st [] (Nat.le_refl _) hf hs
    rcases hw.2 with ⟨r1, r2⟩ | ⟨r1, _⟩
    · simp only [r1, bufFlush_empty, bufDrop_empty]
      refine ⟨hw.1, Or.inl ⟨by trivial, ?_⟩⟩
      simpa using r2
    · simp only [r1, bufDrop_empty]
      exact ⟨hw.1, Or.inr (by trivial)⟩

theorem writeChunks_spec (φ : Fault) (h d : Path) (o : Option Node) (hd : h ≠ d) :
    ∀ (chunks : List Bytes) (st : St) (c : Bytes),
      get st.cur h = some (.file c) → Stable d o st →
      Stable d o (writeChunks φ h chunks st).1 ∧
      (((writeChunks φ h chunks st).2 = .ok ∧
          get (writeChunks φ h chunks st).1.cur h = some (.file (c ++ chunks.flatten))) ∨
       (writeChunks φ h chunks st).2 = .err) := by
  intro chunks
  induction chunks with
  | nil => intro st c hf hs; simp [writeChunks, hs, hf]
  | cons x xs ih =>
    intro st c hf hs
    have hw := writeAll_spec φ h d o hd x.length x st c (Nat.le_refl _) hf hs
    rcases hw.2 with ⟨r1, r2⟩ | ⟨r1, _⟩
    · have e : writeAll φ h x.length x st = ((writeAll φ h x.length x st).1, .ok) := by
        rw [← r1]
      have := ih (writeAll φ h x.length x st).1 (c ++ x) r2 hw.1
      unfold writeChunks
      rw [e]
      simp only
      refine ⟨this.1, ?_⟩
      rcases this.2 with ⟨q1, q2⟩ | q1
      · left; refine ⟨q1, ?_⟩; rw [q2]; simp [List.append_assoc]
      · right; exact q1
    · have e : writeAll φ h x.length x st = ((writeAll φ h x.length x st).1, .err) := by
        rw [← r1]
      unfold writeChunks
      rw [e]
      exact ⟨hw.1, Or.inr rfl⟩

/-- outcome of a path save with respect to the destination: an error with the old file in
    every state, or success where the last state holds the new file and all earlier states the
    old one -/
def SaveSpec (dest : Path) (old new : Bytes) (out : St × R) : Prop :=
  (out.2 = .err ∧ Stable dest (some (.file old)) out.1) ∨
  (out.2 = .ok ∧ get out.1.cur dest = some (.file new) ∧
     ∀ s ∈ out.1.hist, get s dest = some (.file old))

theorem finish_spec (φ : Fault) (dest : Path) (old new : Bytes) (st : St) (r : R)
    (hs : Stable dest (some (.file old)) st)
    (hr : (r = .ok ∧ get st.cur (tmpOf dest) = some (.file new)) ∨ r = .err) :
    SaveSpec dest old new (finish φ dest st r) := by
  unfold finish
  rcases hr with ⟨rfl, ht⟩ | rfl
  · rcases sysRename_cases φ (tmpOf dest) dest st _ old ht hs.cur with e | e
    · simp only [e]
      exact Or.inl ⟨rfl, sysRemove_stable φ (tmpOf_ne dest) hs⟩
    · simp only [e]
      refine Or.inr ⟨rfl, ?_, ?_⟩
      · simp [St.step, get_set_same]
      · intro s hsm
        exact hs s (by simpa [St.step, St.states] using hsm)
  · exact Or.inl ⟨rfl, sysRemove_stable φ (tmpOf_ne dest) hs⟩

/-! ### the same for a destination in ANY non-directory state (absent, a regular file, a symlink) -/

theorem sysRename_cases_any (φ : Fault) (src dst : Path) (st : St) (n : Node) (o : Option Node)
    (hs : get st.cur src = some n) (hd : get st.cur dst = o) (hnd : o ≠ some .dir) :
    sysRename φ src dst st = (st, .err) ∨
    sysRename φ src dst st = (st.step (set (del st.cur src) dst n), .ok) := by
  unfold sysRename
  by_cases hc : φ.renameFails = true
  · simp [hc]
  · cases o with
    | none => simp [hc, hs, hd]
    | some m =>
      cases m with
      | file b => simp [hc, hs, hd]
      | symlink t => simp [hc, hs, hd]
      | dir => exact absurd rfl hnd

/-- outcome of a path save with respect to a destination that was in state `o` before (`none` =
    the destination did not exist): an error with `o` in every state, or success where the last
    state holds the new file and all earlier states `o` -/
def SaveSpecAny (dest : Path) (o : Option Node) (new : Bytes) (out : St × R) : Prop :=
  (out.2 = .err ∧ Stable dest o out.1) ∨
  (out.2 = .ok ∧ get out.1.cur dest = some (.file new) ∧ ∀ s ∈ out.1.hist, get s dest = o)

theorem finish_spec_any (φ : Fault) (dest : Path) (o : Option Node) (hnd : o ≠ some .dir) (new : Bytes)
    (st : St) (r : R) (hs : Stable dest o st)
    (hr : (r = .ok ∧ get st.cur (tmpOf dest) = some (.file new)) ∨ r = .err) :
    SaveSpecAny dest o new (finish φ dest st r) := by
  unfold finish
  rcases hr with ⟨rfl, ht⟩ | rfl
  · rcases sysRename_cases_any φ (tmpOf dest) dest st _ o ht hs.cur hnd with e | e
    · simp only [e]
      exact Or.inl ⟨rfl, sysRemove_stable φ (tmpOf_ne dest) hs⟩
    · simp only [e]
      refine Or.inr ⟨rfl, ?_, ?_⟩
      · simp [St.step, get_set_same]
      · intro s hsm
        exact hs s (by simpa [St.step, St.states] using hsm)
  · exact Or.inl ⟨rfl, sysRemove_stable φ (tmpOf_ne dest) hs⟩

end Umya.Fs
