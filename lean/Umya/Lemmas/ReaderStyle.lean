/-
  Helper lemmas for C03, style resolution: the reader model's component readers (`Umya.StyleCodec.*.read`, folds over
  the child events) against the independent decoder's look-ups (`Umya.Spec.Sml.fontV`, `fillV`, `borderV`, …).
  Every `valid…` predicate is an explicit decidable condition on the element tree.
-/
import Umya.Model.ReaderStyleView
import Umya.Lemmas.ReaderBook
import Umya.Lemmas.ReaderPos
namespace Umya.Reader.Lemmas
open Umya.Reader Umya.Spec.Xml Umya.Spec.Sml
open Umya.StyleCodec

/-! ## folds that set independent fields -/

theorem foldOpt_field {α β γ : Type} (step : α → β → Option α) (proj : α → γ) (p : β → Bool) (g : γ → β → γ)
    (h : ∀ a b a', step a b = some a' → proj a' = if p b then g (proj a) b else proj a) :
    ∀ (l : List β) (a a' : α), foldOpt step l a = some a' → (l.filter p).length ≤ 1 →
      proj a' = ((l.find? p).map (g (proj a))).getD (proj a) := by
  intro l
  induction l with
  | nil => intro a a' h1 _; simp only [foldOpt, Option.some.injEq] at h1; subst h1; rfl
  | cons b r ih =>
    intro a a' h1 h2
    simp only [foldOpt] at h1
    cases hs : step a b with
    | none => rw [hs] at h1; simp at h1
    | some a1 =>
      rw [hs] at h1
      simp only [Option.bind_some] at h1
      have hb := h a b a1 hs
      by_cases hp : p b = true
      · simp only [List.filter_cons, hp, if_true, List.length_cons] at h2
        have hr : r.filter p = [] := List.eq_nil_of_length_eq_zero (by omega)
        have := ih a1 a' h1 (by rw [hr]; simp)
        have hf : r.find? p = none := by
          rw [List.find?_eq_none]; intro x hx hpx
          have : x ∈ r.filter p := List.mem_filter.mpr ⟨hx, hpx⟩
          rw [hr] at this; cases this
        rw [hf] at this
        simp only [List.find?_cons, hp, Option.map_some, Option.getD_some]
        simp only [Option.map_none, Option.getD_none] at this
        rw [this, hb, if_pos hp]
      · have hp' : p b = false := by simpa using hp
        simp only [List.filter_cons, hp', Bool.false_eq_true, if_false] at h2
        have := ih a1 a' h1 h2
        simp only [List.find?_cons, hp']
        rw [this, hb]
        simp [hp']



theorem foldOpt_total {α β : Type} (step : α → β → Option α) (ok : β → Bool)
    (h : ∀ a b, ok b = true → ∃ a', step a b = some a') :
    ∀ (l : List β) (a : α), l.all ok = true → ∃ a', foldOpt step l a = some a' := by
  intro l
  induction l with
  | nil => intro a _; exact ⟨a, rfl⟩
  | cons b r ih =>
    intro a hl
    simp only [List.all_cons, Bool.and_eq_true] at hl
    obtain ⟨a1, h1⟩ := h a b hl.1
    obtain ⟨a2, h2⟩ := ih a1 hl.2
    exact ⟨a2, by simp only [foldOpt, h1, Option.bind_some, h2]⟩

theorem foldOpt_const {α β γ : Type} (step : α → β → Option α) (proj : α → γ)
    (h : ∀ a b a', step a b = some a' → proj a' = proj a) :
    ∀ (l : List β) (a a' : α), foldOpt step l a = some a' → proj a' = proj a := by
  intro l
  induction l with
  | nil => intro a a' h1; simp only [foldOpt, Option.some.injEq] at h1; subst h1; rfl
  | cons b r ih =>
    intro a a' h1
    simp only [foldOpt] at h1
    cases hs : step a b with
    | none => rw [hs] at h1; simp at h1
    | some a1 =>
      rw [hs] at h1
      simp only [Option.bind_some] at h1
      rw [ih a1 a' h1, h a b a1 hs]

/-! ## names -/

/-- the element's name carries no prefix -/
def plain (c : Node) : Bool := decide (localName c.name = c.name)

/-- at most one child named `k` -/
def uniq (cs : List Node) (k : String) : Bool := decide ((cs.filter (named k)).length ≤ 1)

theorem named_plain (k : String) (c : Node) (h : plain c = true) :
    named k c = (c.isElem && decide (localName c.name = k.toList)) := by
  simp only [plain, decide_eq_true_eq] at h
  simp only [named, h]

theorem kids_eq_filter (n : Node) (k : String) (h : n.children.all plain = true) :
    n.kids k = n.children.filter (named k) := by
  unfold Node.kids
  apply List.filter_congr
  intro c hc
  rw [named_plain k c (List.all_eq_true.mp h c hc)]

theorem kid?_eq_find (n : Node) (k : String) (h : n.children.all plain = true) :
    n.kid? k = n.children.find? (named k) := by
  unfold Node.kid?
  rw [kids_eq_filter n k h, List.head?_filter]

theorem attr?_eq_getAttr (n : Node) (k : String) : n.attr? k.toList = getAttr n.attrs k := by
  simp [Node.attr?, getAttr]

/-! ## numbers -/

theorem u32Of_of_natOf (v : Text) (n : Nat) (h : natOf v = some n) (hb : n < 4294967296) : u32Of v = some n := by
  obtain ⟨h1, h2, h3⟩ := natOf_some v n h
  have hd : v.all Umya.Dec.isDigit = true := by rw [← all_digit_bridge]; exact h2
  have hp : Umya.Dec.parseU32 v = some n := by
    unfold Umya.Dec.parseU32
    have : v.isEmpty = false := by cases v <;> simp_all
    simp only [this, Bool.false_eq_true, if_false, hd, if_true]
    have : Umya.Dec.parseDec v = n := h3
    simp [this, hb]
  unfold u32Of
  split
  · rename_i r
    simp only [List.all_cons, Bool.and_eq_true] at h2
    exact absurd h2.1 (by decide)
  · exact hp

theorem u32Of_uintOk (v : Text) (h : uintOk u32Bound v = true) : u32Of v = natOf v := by
  unfold uintOk at h
  split at h
  · rename_i n hn
    rw [hn]; exact u32Of_of_natOf v n hn (by simpa [u32Bound] using of_decide_eq_true h)
  · cases h

theorem boolOf_xsdTrue (v : Text) : boolOf v = xsdTrue v := by
  simp only [boolOf, xsdTrue]
  by_cases h1 : v = "true".toList <;> by_cases h2 : v = "1".toList <;> simp_all

/-! ## colour -/

def uniqA (as : List Attr) (k : String) : Bool := decide ((as.filter (fun a => decide (a.name = k.toList))).length ≤ 1)

/-- no attribute twice (XML 1.0 well-formedness), `indexed` / `theme` unsigned decimals that fit `u32` -/
def colorOk (as : List Attr) : Bool :=
  uniqA as "indexed" && uniqA as "theme" && uniqA as "rgb" && uniqA as "tint" &&
  as.all (fun a => if a.name = "indexed".toList ∨ a.name = "theme".toList then uintOk u32Bound a.value else true)


theorem Color.attrStep_spec (cf : Tok → Tok) (c c' : Color) (a : Attr) (h : Color.attrStep cf c a = some c') :
    c'.indexed = (if decide (a.name = "indexed".toList) then u32Of a.value else c.indexed) ∧
    c'.theme = (if decide (a.name = "theme".toList) then u32Of a.value else c.theme) ∧
    c'.argb = (if decide (a.name = "rgb".toList) then some a.value else c.argb) ∧
    c'.tint = (if decide (a.name = "tint".toList) then some (cf a.value) else c.tint) := by
  unfold Color.attrStep at h
  by_cases c1 : a.name = "indexed".toList
  · rw [if_pos c1] at h
    obtain ⟨n, hn, rfl⟩ := Option.map_eq_some_iff.mp h
    simp [c1, hn]
  rw [if_neg c1] at h
  by_cases c2 : a.name = "theme".toList
  · rw [if_pos c2] at h
    obtain ⟨n, hn, rfl⟩ := Option.map_eq_some_iff.mp h
    simp [c2, hn]
  rw [if_neg c2] at h
  by_cases c3 : a.name = "rgb".toList
  · rw [if_pos c3] at h; simp only [Option.some.injEq] at h; subst h; simp [c3]
  rw [if_neg c3] at h
  by_cases c4 : a.name = "tint".toList
  · rw [if_pos c4] at h; simp only [Option.some.injEq] at h; subst h; simp [c4]
  rw [if_neg c4] at h
  simp only [Option.some.injEq] at h; subst h
  simp_all

theorem Color.attrStep_total (cf : Tok → Tok) (c : Color) (a : Attr)
    (h : (if a.name = "indexed".toList ∨ a.name = "theme".toList then uintOk u32Bound a.value else true) = true) :
    ∃ c', Color.attrStep cf c a = some c' := by
  unfold Color.attrStep
  by_cases c1 : a.name = "indexed".toList
  · rw [if_pos (Or.inl c1)] at h
    rw [if_pos c1, u32Of_uintOk _ h]
    obtain ⟨n, hn, _⟩ := uintOk_parse _ _ h
    exact ⟨_, by rw [hn]; rfl⟩
  rw [if_neg c1]
  by_cases c2 : a.name = "theme".toList
  · rw [if_pos (Or.inr c2)] at h
    rw [if_pos c2, u32Of_uintOk _ h]
    obtain ⟨n, hn, _⟩ := uintOk_parse _ _ h
    exact ⟨_, by rw [hn]; rfl⟩
  rw [if_neg c2]
  by_cases c3 : a.name = "rgb".toList
  · rw [if_pos c3]; exact ⟨_, rfl⟩
  rw [if_neg c3]
  by_cases c4 : a.name = "tint".toList
  · rw [if_pos c4]; exact ⟨_, rfl⟩
  rw [if_neg c4]; exact ⟨_, rfl⟩

/-- **colour**: the attribute loop of `Color::set_attributes` on a fresh colour yields the decoder's facts -/
theorem color_agrees (cf : Tok → Tok) (nm : Text) (as : List Attr) (cs : List Node) (h : colorOk as = true) :
    ∃ c, Color.readInto cf {} as = some c ∧ colorFacts c = cfColor cf (colorV (.elem nm as cs)) := by
  simp only [colorOk, Bool.and_eq_true, uniqA, decide_eq_true_eq] at h
  obtain ⟨⟨⟨⟨u1, u2⟩, u3⟩, u4⟩, hall⟩ := h
  obtain ⟨c, hc⟩ := foldOpt_total (Color.attrStep cf)
    (fun a => if a.name = "indexed".toList ∨ a.name = "theme".toList then uintOk u32Bound a.value else true)
    (fun c a ha => Color.attrStep_total cf c a ha) as {} hall
  refine ⟨c, hc, ?_⟩
  have e1 := foldOpt_field (Color.attrStep cf) (·.indexed) (fun a => decide (a.name = "indexed".toList))
    (fun _ a => u32Of a.value) (fun x a x' hx => (Color.attrStep_spec cf x x' a hx).1) as {} c hc u1
  have e2 := foldOpt_field (Color.attrStep cf) (·.theme) (fun a => decide (a.name = "theme".toList))
    (fun _ a => u32Of a.value) (fun x a x' hx => (Color.attrStep_spec cf x x' a hx).2.1) as {} c hc u2
  have e3 := foldOpt_field (Color.attrStep cf) (·.argb) (fun a => decide (a.name = "rgb".toList))
    (fun _ a => some a.value) (fun x a x' hx => (Color.attrStep_spec cf x x' a hx).2.2.1) as {} c hc u3
  have e4 := foldOpt_field (Color.attrStep cf) (·.tint) (fun a => decide (a.name = "tint".toList))
    (fun _ a => some (cf a.value)) (fun x a x' hx => (Color.attrStep_spec cf x x' a hx).2.2.2) as {} c hc u4
  simp only [colorFacts, cfColor, colorV, Node.attr?, Node.attrs, e1, e2, e3, e4]
  have num : ∀ k : String, (k = "indexed" ∨ k = "theme") →
      (((as.find? (fun a => decide (a.name = k.toList))).map (fun a => u32Of a.value)).getD none) =
        ((as.find? (fun a => decide (a.name = k.toList))).map (·.value)).bind natOf := by
    intro k hk
    cases hf : as.find? (fun a => decide (a.name = k.toList)) with
    | none => rfl
    | some a =>
      have hm := List.mem_of_find?_eq_some hf
      have hn := List.find?_some hf
      simp only [decide_eq_true_eq] at hn
      have := List.all_eq_true.mp hall a hm
      have hor : a.name = "indexed".toList ∨ a.name = "theme".toList := by
        rcases hk with rfl | rfl
        · exact Or.inl hn
        · exact Or.inr hn
      rw [if_pos hor] at this
      simp only [Option.map_some, Option.bind_some, Option.getD_some]
      exact u32Of_uintOk _ this
  rw [num "indexed" (Or.inl rfl), num "theme" (Or.inr rfl)]
  congr 1
  · cases as.find? (fun a => decide (a.name = "rgb".toList)) <;> rfl
  · cases as.find? (fun a => decide (a.name = "tint".toList)) <;> rfl

/-! ## font -/

def colorG (cf : Tok → Tok) (c : Color) (n : Node) : Color := (Color.readInto cf c n.attrs).getD c

theorem Font.step_spec (cf : Tok → Tok) (f f' : Font) (n : Node) (h : Font.step cf f n = some f') :
    f'.name = (if named "name" n || named "rFont" n then getAttr n.attrs "val" else f.name) ∧
    f'.size = (if named "sz" n then (getAttr n.attrs "val").map cf else f.size) ∧
    f'.bold = (if named "b" n then boolAttr n.attrs "val" (some true) else f.bold) ∧
    f'.italic = (if named "i" n then boolAttr n.attrs "val" (some true) else f.italic) ∧
    f'.underline = (if named "u" n then enumAttr Underline.fromStr n.attrs "val" (some .single) else f.underline) ∧
    f'.strike = (if named "strike" n then boolAttr n.attrs "val" (some true) else f.strike) ∧
    f'.color = (if named "color" n then colorG cf f.color n else f.color) := by
  cases n with
  | text t => simp only [Font.step, Option.some.injEq] at h; subst h; simp [named, Node.isElem]
  | elem nm as cs =>
    simp only [Font.step] at h
    by_cases c1 : nm = "name".toList ∨ nm = "rFont".toList
    · rw [if_pos c1] at h
      obtain ⟨v, hv, rfl⟩ := Option.map_eq_some_iff.mp h
      rcases c1 with c1 | c1 <;> subst c1 <;> simp [named, Node.isElem, Node.name, Node.attrs, hv]
    rw [if_neg c1] at h
    simp only [not_or] at c1
    by_cases c2 : nm = "sz".toList
    · rw [if_pos c2] at h
      obtain ⟨v, hv, rfl⟩ := Option.map_eq_some_iff.mp h
      subst c2; simp [named, Node.isElem, Node.name, Node.attrs, hv]
    rw [if_neg c2] at h
    by_cases c3 : nm = "family".toList
    · rw [if_pos c3] at h
      subst c3
      split at h
      · obtain ⟨v, hv, rfl⟩ := Option.map_eq_some_iff.mp h
        simp [named, Node.isElem, Node.name, Node.attrs]
      · simp only [Option.some.injEq] at h; subst h; simp [named, Node.isElem, Node.name, Node.attrs]
    rw [if_neg c3] at h
    by_cases c4 : nm = "b".toList
    · rw [if_pos c4] at h; simp only [Option.some.injEq] at h; subst h; subst c4
      simp [named, Node.isElem, Node.name, Node.attrs]
    rw [if_neg c4] at h
    by_cases c5 : nm = "i".toList
    · rw [if_pos c5] at h; simp only [Option.some.injEq] at h; subst h; subst c5
      simp [named, Node.isElem, Node.name, Node.attrs]
    rw [if_neg c5] at h
    by_cases c6 : nm = "u".toList
    · rw [if_pos c6] at h; simp only [Option.some.injEq] at h; subst h; subst c6
      simp [named, Node.isElem, Node.name, Node.attrs]
    rw [if_neg c6] at h
    by_cases c7 : nm = "strike".toList
    · rw [if_pos c7] at h; simp only [Option.some.injEq] at h; subst h; subst c7
      simp [named, Node.isElem, Node.name, Node.attrs]
    rw [if_neg c7] at h
    by_cases c8 : nm = "color".toList
    · rw [if_pos c8] at h
      obtain ⟨c, hc, rfl⟩ := Option.map_eq_some_iff.mp h
      subst c8; simp [named, Node.isElem, Node.name, Node.attrs, colorG, hc]
    rw [if_neg c8] at h
    by_cases c9 : nm = "charset".toList
    · rw [if_pos c9] at h
      subst c9
      split at h
      · obtain ⟨v, hv, rfl⟩ := Option.map_eq_some_iff.mp h
        simp [named, Node.isElem, Node.name, Node.attrs]
      · simp only [Option.some.injEq] at h; subst h; simp [named, Node.isElem, Node.name, Node.attrs]
    rw [if_neg c9] at h
    by_cases c10 : nm = "scheme".toList
    · rw [if_pos c10] at h
      obtain ⟨v, hv, rfl⟩ := Option.map_eq_some_iff.mp h
      subst c10; simp [named, Node.isElem, Node.name, Node.attrs]
    rw [if_neg c10] at h
    by_cases c11 : nm = "vertAlign".toList
    · rw [if_pos c11] at h; simp only [Option.some.injEq] at h; subst h; subst c11
      simp [named, Node.isElem, Node.name, Node.attrs]
    rw [if_neg c11] at h
    simp only [Option.some.injEq] at h; subst h
    simp_all [named, Node.isElem, Node.name, Node.attrs]

theorem named_elem (k : String) (c : Node) (h : named k c = true) : ∃ as cs, c = .elem k.toList as cs := by
  cases c with
  | text t => simp [named, Node.isElem] at h
  | elem nm as cs =>
    have : nm = k.toList := by
      simp only [named, Node.isElem, Node.name, Bool.true_and] at h
      exact of_decide_eq_true h
    subst this
    exact ⟨as, cs, rfl⟩

theorem map_getD_none {α β : Type} (o : Option α) (g : α → Option β) : ((o.map g).getD none) = o.bind g := by
  cases o <;> rfl

theorem fromStrIn_toStr {ε : Type} (table : List (String × ε)) (toStr : ε → String)
    (ht : ∀ p ∈ table, toStr p.2 = p.1) (v : Tok) (e : ε) (h : fromStrIn table v = some e) : (toStr e).toList = v := by
  unfold fromStrIn at h
  obtain ⟨p, hp, rfl⟩ := Option.map_eq_some_iff.mp h
  have h1 := List.find?_some hp
  have h2 := List.mem_of_find?_eq_some hp
  simp only [decide_eq_true_eq] at h1
  rw [ht p h2]; exact h1

theorem Underline.fromStr_toStr (v : Tok) (e : Underline) (h : Underline.fromStr v = some e) : e.toStr.toList = v :=
  fromStrIn_toStr Underline.fromTable Underline.toStr (by decide) v e h
theorem Pattern.fromStr_toStr (v : Tok) (e : Pattern) (h : Pattern.fromStr v = some e) : e.toStr.toList = v :=
  fromStrIn_toStr Pattern.fromTable Pattern.toStr (by decide) v e h
theorem BorderStyle.fromStr_toStr (v : Tok) (e : BorderStyle) (h : BorderStyle.fromStr v = some e) : e.toStr.toList = v :=
  fromStrIn_toStr BorderStyle.fromTable BorderStyle.toStr (by decide) v e h
theorem HAlign.fromStr_toStr (v : Tok) (e : HAlign) (h : HAlign.fromStr v = some e) : e.toStr.toList = v :=
  fromStrIn_toStr HAlign.fromTable HAlign.toStr (by decide) v e h
theorem VAlign.fromStr_toStr (v : Tok) (e : VAlign) (h : VAlign.fromStr v = some e) : e.toStr.toList = v :=
  fromStrIn_toStr VAlign.fromTable VAlign.toStr (by decide) v e h

/-- the `val` attribute, when present, is a word of the enumeration -/
def valIn {ε : Type} (fromStr : Tok → Option ε) (k : String) (as : List Attr) : Bool :=
  match getAttr as k with
  | some v => (fromStr v).isSome
  | none => true

/-- the reader does not panic on this child of `<font>`: `name` / `sz` / `scheme` carry `val`; `family` / `charset`
    a `val` that is an `i32`; `color` is a `colorOk`; the `val` of `u` is a word of ST_UnderlineValues -/
def fontKidOk (c : Node) : Bool :=
  if named "name" c || named "rFont" c || named "sz" c || named "scheme" c then (getAttr c.attrs "val").isSome
  else if named "family" c || named "charset" c then
    (match getAttr c.attrs "val" with | some v => (i32Of v).isSome | none => true)
  else if named "color" c then colorOk c.attrs
  else if named "u" c then valIn Underline.fromStr "val" c.attrs
  else true

/-- **a valid `<font>`** (CT_Font): unprefixed children, each of `name sz b i u strike color` at most once, no
    `rFont` (that is CT_RPrElt), and `fontKidOk` for every child -/
def validFont (n : Node) : Bool :=
  n.children.all plain && n.children.all fontKidOk && !(n.children.any (named "rFont")) &&
  uniq n.children "name" && uniq n.children "sz" && uniq n.children "b" && uniq n.children "i" &&
  uniq n.children "u" && uniq n.children "strike" && uniq n.children "color"


theorem Color.readInto_total (cf : Tok → Tok) (c : Color) (as : List Attr) (h : colorOk as = true) :
    ∃ c', Color.readInto cf c as = some c' := by
  simp only [colorOk, Bool.and_eq_true] at h
  exact foldOpt_total (Color.attrStep cf)
    (fun a => if a.name = "indexed".toList ∨ a.name = "theme".toList then uintOk u32Bound a.value else true)
    (fun c a ha => Color.attrStep_total cf c a ha) as c h.2

theorem Font.step_total (cf : Tok → Tok) (f : Font) (c : Node) (h : fontKidOk c = true) :
    ∃ f', Font.step cf f c = some f' := by
  cases c with
  | text t => exact ⟨f, rfl⟩
  | elem nm as cs =>
    simp only [Font.step]
    by_cases c1 : nm = "name".toList ∨ nm = "rFont".toList
    · rw [if_pos c1]
      have : (getAttr as "val").isSome = true := by
        rcases c1 with c1 | c1 <;> subst c1 <;> simpa [fontKidOk, named, Node.isElem, Node.name, Node.attrs] using h
      obtain ⟨v, hv⟩ := Option.isSome_iff_exists.mp this
      exact ⟨_, by rw [hv]; rfl⟩
    rw [if_neg c1]
    by_cases c2 : nm = "sz".toList
    · rw [if_pos c2]
      have : (getAttr as "val").isSome = true := by
        subst c2; simpa [fontKidOk, named, Node.isElem, Node.name, Node.attrs] using h
      obtain ⟨v, hv⟩ := Option.isSome_iff_exists.mp this
      exact ⟨_, by rw [hv]; rfl⟩
    rw [if_neg c2]
    by_cases c3 : nm = "family".toList
    · rw [if_pos c3]
      subst c3
      simp only [fontKidOk, named, Node.isElem, Node.name, Node.attrs] at h
      cases hv : getAttr as "val" with
      | none => exact ⟨_, rfl⟩
      | some v =>
        rw [hv] at h
        have : (i32Of v).isSome = true := by simpa using h
        obtain ⟨z, hz⟩ := Option.isSome_iff_exists.mp this
        exact ⟨_, by simp only [hz]; rfl⟩
    rw [if_neg c3]
    by_cases c4 : nm = "b".toList
    · rw [if_pos c4]; exact ⟨_, rfl⟩
    rw [if_neg c4]
    by_cases c5 : nm = "i".toList
    · rw [if_pos c5]; exact ⟨_, rfl⟩
    rw [if_neg c5]
    by_cases c6 : nm = "u".toList
    · rw [if_pos c6]; exact ⟨_, rfl⟩
    rw [if_neg c6]
    by_cases c7 : nm = "strike".toList
    · rw [if_pos c7]; exact ⟨_, rfl⟩
    rw [if_neg c7]
    by_cases c8 : nm = "color".toList
    · rw [if_pos c8]
      have : colorOk as = true := by
        subst c8; simpa [fontKidOk, named, Node.isElem, Node.name, Node.attrs] using h
      obtain ⟨c', hc'⟩ := Color.readInto_total cf f.color as this
      exact ⟨_, by rw [hc']; rfl⟩
    rw [if_neg c8]
    by_cases c9 : nm = "charset".toList
    · rw [if_pos c9]
      subst c9
      simp only [fontKidOk, named, Node.isElem, Node.name, Node.attrs] at h
      cases hv : getAttr as "val" with
      | none => exact ⟨_, rfl⟩
      | some v =>
        rw [hv] at h
        have : (i32Of v).isSome = true := by simpa using h
        obtain ⟨z, hz⟩ := Option.isSome_iff_exists.mp this
        exact ⟨_, by simp only [hz]; rfl⟩
    rw [if_neg c9]
    by_cases c10 : nm = "scheme".toList
    · rw [if_pos c10]
      have : (getAttr as "val").isSome = true := by
        subst c10; simpa [fontKidOk, named, Node.isElem, Node.name, Node.attrs] using h
      obtain ⟨v, hv⟩ := Option.isSome_iff_exists.mp this
      exact ⟨_, by rw [hv]; rfl⟩
    rw [if_neg c10]
    by_cases c11 : nm = "vertAlign".toList
    · rw [if_pos c11]; exact ⟨_, rfl⟩
    rw [if_neg c11]; exact ⟨_, rfl⟩

/-- what the found child and `all ok` give -/
theorem found_ok {ok : Node → Bool} {cs : List Node} {k : String} {b : Node} (hall : cs.all ok = true)
    (hf : cs.find? (named k) = some b) : ok b = true ∧ ∃ as ks, b = .elem k.toList as ks :=
  ⟨List.all_eq_true.mp hall b (List.mem_of_find?_eq_some hf), named_elem k b (List.find?_some hf)⟩

/-- the colour child of a font / an edge / a pattern fill, read into a fresh colour -/
theorem colorKid_agrees (cf : Tok → Tok) (cs : List Node) (k : String)
    (hok : ∀ b, cs.find? (named k) = some b → colorOk b.attrs = true) :
    colorFacts (((cs.find? (named k)).map (colorG cf {})).getD {}) =
      cfColor cf (((cs.find? (named k)).map colorV).getD {}) := by
  cases hf : cs.find? (named k) with
  | none => rfl
  | some b =>
    obtain ⟨as, ks, rfl⟩ := named_elem k b (List.find?_some hf)
    obtain ⟨c, hc, hcv⟩ := color_agrees cf k.toList as ks (hok _ hf)
    simp only [Option.map_some, Option.getD_some, colorG, Node.attrs, hc, hcv]

/-- **font**: `Font::set_attributes` on a valid `<font>` does not panic and shows the decoder's facts
    (the size and the tint as the numbers their texts denote: `cf`) -/
theorem font_agrees (cf : Tok → Tok) (n : Node) (h : validFont n = true) :
    ∃ f, Font.read cf n = some f ∧ fontFacts f = cfFont cf (fontV n) := by
  simp only [validFont, Bool.and_eq_true, uniq, decide_eq_true_eq, Bool.not_eq_true'] at h
  obtain ⟨⟨⟨⟨⟨⟨⟨⟨⟨hpl, hok⟩, hrf⟩, u1⟩, u2⟩, u3⟩, u4⟩, u5⟩, u6⟩, u7⟩ := h
  obtain ⟨f, hf⟩ := foldOpt_total (Font.step cf) fontKidOk (fun a b hb => Font.step_total cf a b hb) n.children {} hok
  refine ⟨f, hf, ?_⟩
  have hnr : ∀ c ∈ n.children, named "rFont" c = false := by
    intro c hc
    have := List.any_eq_false.mp hrf c hc
    simpa using this
  have hfil : n.children.filter (fun c => named "name" c || named "rFont" c) = n.children.filter (named "name") :=
    List.filter_congr (fun c hc => by rw [hnr c hc, Bool.or_false])
  have hfind : n.children.find? (fun c => named "name" c || named "rFont" c) = n.children.find? (named "name") := by
    rw [← List.head?_filter, hfil, List.head?_filter]
  have e1 := foldOpt_field (Font.step cf) (·.name) (fun c => named "name" c || named "rFont" c)
    (fun _ b => getAttr b.attrs "val") (fun x b x' hx => (Font.step_spec cf x x' b hx).1) n.children {} f hf (by rw [hfil]; exact u1)
  have e2 := foldOpt_field (Font.step cf) (·.size) (named "sz")
    (fun _ b => (getAttr b.attrs "val").map cf) (fun x b x' hx => (Font.step_spec cf x x' b hx).2.1) n.children {} f hf u2
  have e3 := foldOpt_field (Font.step cf) (·.bold) (named "b")
    (fun _ b => StyleCodec.boolAttr b.attrs "val" (some true)) (fun x b x' hx => (Font.step_spec cf x x' b hx).2.2.1) n.children {} f hf u3
  have e4 := foldOpt_field (Font.step cf) (·.italic) (named "i")
    (fun _ b => StyleCodec.boolAttr b.attrs "val" (some true)) (fun x b x' hx => (Font.step_spec cf x x' b hx).2.2.2.1) n.children {} f hf u4
  have e5 := foldOpt_field (Font.step cf) (·.underline) (named "u")
    (fun _ b => enumAttr Underline.fromStr b.attrs "val" (some .single))
    (fun x b x' hx => (Font.step_spec cf x x' b hx).2.2.2.2.1) n.children {} f hf u5
  have e6 := foldOpt_field (Font.step cf) (·.strike) (named "strike")
    (fun _ b => StyleCodec.boolAttr b.attrs "val" (some true)) (fun x b x' hx => (Font.step_spec cf x x' b hx).2.2.2.2.2.1) n.children {} f hf u6
  have e7 := foldOpt_field (Font.step cf) (·.color) (named "color")
    (fun c b => colorG cf c b) (fun x b x' hx => (Font.step_spec cf x x' b hx).2.2.2.2.2.2) n.children {} f hf u7
  have flag : ∀ k : String,
      ((((n.children.find? (named k)).map (fun b => StyleCodec.boolAttr b.attrs "val" (some true))).getD none).getD false) =
        boolProp n k := by
    intro k
    unfold boolProp
    rw [kid?_eq_find n k hpl]
    cases n.children.find? (named k) with
    | none => rfl
    | some b =>
      simp only [Option.map_some, Option.getD_some, StyleCodec.boolAttr, attr?_eq_getAttr]
      cases getAttr b.attrs "val" with
      | none => rfl
      | some v => simp only [Option.getD_some, boolOf_xsdTrue]; rfl
  simp only [fontFacts, cfFont, fontV, valOf, kid?_eq_find n _ hpl, e1, e2, e3, e4, e5, e6, e7, hfind, flag]
  congr 1
  · simp only [map_getD_none]
    cases n.children.find? (named "name") <;> rfl
  · cases n.children.find? (named "sz") <;> rfl
  · cases hu : n.children.find? (named "u") with
    | none => rfl
    | some b =>
      obtain ⟨hb, as, ks, rfl⟩ := found_ok hok hu
      simp only [fontKidOk, named, Node.isElem, Node.name, Node.attrs, valIn] at hb
      simp only [Option.map_some, Option.getD_some, enumAttr, Node.attrs, attr?_eq_getAttr]
      cases hv : getAttr as "val" with
      | none => rfl
      | some v =>
        rw [hv] at hb
        have : (Underline.fromStr v).isSome = true := by simpa using hb
        obtain ⟨e, he⟩ := Option.isSome_iff_exists.mp this
        simp only [he, Option.getD_some, Underline.fromStr_toStr v e he]
  · apply colorKid_agrees
    intro b hb
    obtain ⟨hk, as, ks, rfl⟩ := found_ok hok hb
    simpa [fontKidOk, named, Node.isElem, Node.name, Node.attrs] using hk

end Umya.Reader.Lemmas
