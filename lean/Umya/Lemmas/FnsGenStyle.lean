/-
  (T) translator, part 3 — state-passing translation of `&mut self` methods: `NumberingFormats::set_style`
  (src/structs/numbering_formats.rs: reuse the id of an entry with the same code hash, else allocate max(175, ids) + 1 and
  insert) and its helper `set_numbering_format`, as compiled from the source on this run, are the hand model's `nfSetStyle`
  (`Umya/Model/Style.lean`), for every table (= for every iteration order of the HashMap), every style and every hash.

  The loop body is a definition of its own (lambda lifting); it is proved equal to a fixed specification by splitting every
  conditional (`fn_eq`), and the fold with early exit (`rt_foldl_ret`) is related to `List.find?` / the running maximum once
  and for all over that specification.
-/
import Umya.Lemmas.FnsGen
import Umya.Model.Style
namespace Umya.Gen
open Umya.Style
set_option linter.unusedSimpArgs false

/-- the compiled record of a model number format -/
def recOf (v : NumFmt) : NumberingFormat_rec := ⟨v.id, v.code, v.builtIn⟩

/-- the compiled table of a model table -/
def tableOf (t : List (Nat × NumFmt)) : List (Nat × NumberingFormat_rec) := t.map (fun p => (p.1, recOf p.2))

/-- `NumberingFormat::get_hash_code` = the key function of the model applied to the format code -/
def hashOf (key : Tok → Tok) (r : NumberingFormat_rec) : List Char := key r.format_code

/-- the early-exit fold over ANY body that (1) leaves with the entry's index exactly on the entries satisfying `P` and
    (2) otherwise keeps the running maximum of the indices (what the body does to the state when it leaves is irrelevant):
    the result is the index of the first entry satisfying `P`, if any; if there is none, the state is the maximum -/
theorem foldl_ret_search {ρ} (f : Nat → Nat × ρ → Option Nat × Nat) (P : ρ → Bool)
    (h1 : ∀ st x, (f st x).1 = if P x.2 then some x.1 else none)
    (h2 : ∀ st x, P x.2 = false → (f st x).2 = if st < x.1 then x.1 else st) (l : List (Nat × ρ)) : ∀ id : Nat,
    (rt_foldl_ret f id l).1 = (l.find? (fun p => P p.2)).map (·.1) ∧
    (l.find? (fun p => P p.2) = none → (rt_foldl_ret f id l).2 = l.foldl (fun m p => if m < p.1 then p.1 else m) id) := by
  induction l with
  | nil => intro id; exact ⟨rfl, fun _ => rfl⟩
  | cons a l ih =>
    intro id
    have e1 := h1 id a
    cases hp : P a.2 with
    | true =>
      rw [hp] at e1
      have : rt_foldl_ret f id (a :: l) = (some a.1, (f id a).2) := by
        simp only [rt_foldl_ret]
        rcases hfa : f id a with ⟨r, s'⟩
        rw [hfa] at e1; simp only at e1; subst e1; rfl
      rw [this]
      simp [List.find?, hp]
    | false =>
      rw [hp] at e1
      have e2 := h2 id a hp
      have : rt_foldl_ret f id (a :: l) = rt_foldl_ret f (if id < a.1 then a.1 else id) l := by
        simp only [rt_foldl_ret]
        rcases hfa : f id a with ⟨r, s'⟩
        rw [hfa] at e1 e2; simp only at e1 e2; subst e1; subst e2; rfl
      rw [this]
      simp only [List.find?, hp, List.foldl]
      exact ih _

theorem foldl_max_ge (l : List (Nat × NumFmt)) : ∀ id, id ≤ l.foldl (fun m p => if m < p.1 then p.1 else m) id := by
  induction l with
  | nil => intro id; exact Nat.le_refl _
  | cons a l ih =>
    intro id
    simp only [List.foldl]
    by_cases h : id < a.1
    · have := ih a.1; simp only [h, if_true]; omega
    · have := ih id; simp only [h, if_false]; omega

theorem foldl_max_bound (l : List (Nat × NumFmt)) : ∀ id, ∀ p ∈ l, p.1 ≤ l.foldl (fun m p => if m < p.1 then p.1 else m) id := by
  induction l with
  | nil => intro id p hp; cases hp
  | cons a l ih =>
    intro id p hp
    simp only [List.foldl]
    rcases List.mem_cons.1 hp with h | h
    · subst h
      by_cases hlt : id < p.1
      · have := foldl_max_ge l p.1; simp only [hlt, if_true]; omega
      · have := foldl_max_ge l id; simp only [hlt, if_false]; omega
    · exact ih _ p h

/-- inserting under a key no entry has = appending -/
theorem map_insert_fresh (l : List (Nat × NumberingFormat_rec)) (k : Nat) (v : NumberingFormat_rec) (h : ∀ p ∈ l, p.1 ≠ k) :
    rt_map_insert l k v = l ++ [(k, v)] := by
  induction l with
  | nil => rfl
  | cons a l ih =>
    have ha : a.1 ≠ k := h a (List.mem_cons_self ..)
    obtain ⟨a1, a2⟩ := a
    simp only [rt_map_insert, List.cons_append]
    rw [if_neg ha, ih (fun p hp => h p (List.mem_cons_of_mem _ hp))]

theorem tableOf_find (key : Tok → Tok) (hc : List Char) (t : List (Nat × NumFmt)) :
    (tableOf t).find? (fun p => decide (hashOf key p.2 = hc)) = (t.find? (fun p => key p.2.code == hc)).map (fun p => (p.1, recOf p.2)) := by
  induction t with
  | nil => rfl
  | cons a t ih =>
    by_cases h : key a.2.code = hc
    · simp [tableOf, List.find?, hashOf, recOf, h]
    · have hb : (key a.2.code == hc) = false := by simpa using h
      simp only [tableOf, List.map, List.find?, hashOf, recOf, h, decide_false, hb]
      exact ih

theorem tableOf_foldl (t : List (Nat × NumFmt)) (id : Nat) :
    (tableOf t).foldl (fun m p => if m < p.1 then p.1 else m) id = t.foldl (fun m p => if m < p.1 then p.1 else m) id := by
  unfold tableOf
  rw [List.foldl_map]

/-- the lifted loop body as it is in the source, whatever its shape (the two tests in either order, any spelling of the
    comparison): it leaves with the index exactly on a hash match, and keeps the running maximum otherwise -/
theorem gen_nf_loop (gh : NumberingFormat_rec → List Char) (hc : List Char) (id index : Nat) (nf : NumberingFormat_rec) :
    (numbering_formats_set_style_loop_0 gh hc id index nf).1 = (if decide (gh nf = hc) then some index else none) ∧
    (decide (gh nf = hc) = false → (numbering_formats_set_style_loop_0 gh hc id index nf).2 = if id < index then index else id) := by
  unfold numbering_formats_set_style_loop_0
  constructor
  · fn_eq
  · intro h
    fn_eq

/-- `set_numbering_format`: insert under the format's own id -/
theorem gen_nf_set_numbering_format (m : List (Nat × NumberingFormat_rec)) (v : NumberingFormat_rec) :
    numbering_formats_set_numbering_format m v = rt_map_insert m v.number_format_id v := by
  unfold numbering_formats_set_numbering_format
  rfl

/-- **`NumberingFormats::set_style` as it is in the source = the model's `nfSetStyle`**: for every table `t` (in any order —
    the list stands for the HashMap's entries in the iteration order of the call), every optional number format and every
    hash function: the same table afterwards, the same id. -/
theorem gen_nf_set_style (key : Tok → Tok) (t : List (Nat × NumFmt)) (o : Option NumFmt) :
    numbering_formats_set_style (hashOf key) (tableOf t) (o.map recOf) =
      (tableOf (nfSetStyle key t o).1, (nfSetStyle key t o).2) := by
  unfold numbering_formats_set_style
  simp only [gen_nf_set_numbering_format]
  cases o with
  | none => simp [nfSetStyle]
  | some v =>
    cases hb : v.builtIn with
    | true => simp [nfSetStyle, recOf, hb]
    | false =>
      have hv : (recOf v).is_build_in = false := hb
      have hk : hashOf key (recOf v) = key v.code := rfl
      have hf := tableOf_find key (key v.code) t
      -- the loop: an early-exit fold over the lifted body, which satisfies the two facts `foldl_ret_search` asks for
      obtain ⟨e1, e2⟩ := foldl_ret_search
        (fun st (x : Nat × NumberingFormat_rec) => numbering_formats_set_style_loop_0 (hashOf key) (key v.code) st x.1 x.2)
        (fun r => decide (hashOf key r = key v.code))
        (fun st x => (gen_nf_loop (hashOf key) (key v.code) st x.1 x.2).1)
        (fun st x h => (gen_nf_loop (hashOf key) (key v.code) st x.1 x.2).2 h) (tableOf t) 175
      simp only [Option.map_some, nfSetStyle, hb, hv, hk, Bool.false_eq_true, if_false]
      generalize hlr : rt_foldl_ret (fun st (x : Nat × NumberingFormat_rec) =>
        numbering_formats_set_style_loop_0 (hashOf key) (key v.code) st x.1 x.2) 175 (tableOf t) = lr at e1 e2
      rw [hf] at e1 e2
      cases hfind : t.find? (fun p => key p.2.code == key v.code) with
      | some p =>
        rw [hfind] at e1
        simp only [Option.map_some] at e1
        simp [e1]
      | none =>
        rw [hfind] at e1 e2
        simp only [Option.map_none] at e1
        have e2' := e2 rfl
        have hfresh : ∀ p ∈ tableOf t, p.1 ≠ maxId t + 1 := by
          intro p hp
          obtain ⟨q, hq, rfl⟩ := List.mem_map.1 hp
          have := foldl_max_bound t 175 q hq
          simp only [maxId]; omega
        have hm : t.foldl (fun m p => if m < p.1 then p.1 else m) 175 = maxId t := rfl
        rw [tableOf_foldl, hm] at e2'
        simp only [e1, e2']
        rw [map_insert_fresh _ _ _ hfresh]
        simp [tableOf, recOf]

end Umya.Gen
