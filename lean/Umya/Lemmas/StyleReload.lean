/-
  The whole-sheet reader model (`reload` = `set_attributes` of every table through the codecs, then
  `make_style`) agrees with the per-index view `styleAt` used by the theorems, and succeeds
  (no `unwrap` panic) on every style sheet satisfying the invariant.
-/
import Umya.Lemmas.Style
namespace Umya.Style

theorem mapOpt_total {α β : Type} {f : α → Option β} {g : α → β} (h : ∀ a, f a = some (g a)) :
    ∀ l : List α, mapOpt f l = some (l.map g)
  | [] => rfl
  | a :: l => by simp [mapOpt, h a, mapOpt_total h l]

theorem mapOpt_get {α β : Type} {f : α → Option β} :
    ∀ (l : List α) (m : List β), mapOpt f l = some m → ∀ i : Nat, m[i]? = (l[i]?).bind f
  | [], m, h, i => by simp [mapOpt] at h; subst h; simp
  | a :: l, m, h, i => by
    unfold mapOpt at h
    cases hfa : f a with
    | none => simp [hfa] at h
    | some b =>
      cases hr : mapOpt f l with
      | none => simp [hfa, hr] at h
      | some r =>
        simp [hfa, hr] at h
        subst h
        cases i with
        | zero => simp [hfa]
        | succ i => simpa using mapOpt_get l r hr i

theorem mapOpt_isSome {α β : Type} {f : α → Option β} :
    ∀ l : List α, (∀ a ∈ l, (f a).isSome = true) → (mapOpt f l).isSome = true
  | [], _ => rfl
  | a :: l, h => by
    have ha := h a (by simp)
    have hl := mapOpt_isSome l (fun b hb => h b (by simp [hb]))
    obtain ⟨b, hb⟩ := Option.isSome_iff_exists.mp ha
    obtain ⟨r, hr⟩ := Option.isSome_iff_exists.mp hl
    simp [mapOpt, hb, hr]

theorem Xf.rt_eq (cs : Codecs) (x : Xf) : Xf.rt cs x = some (Xf.norm cs x) := by
  unfold Xf.rt Xf.norm optRt
  cases ha : x.alignment <;> cases hp : x.protection <;>
    simp [cs.alignment.rt_eq, cs.protection.rt_eq]

theorem reloadNumFmts_eq (cs : Codecs) (t : List (Nat × NumFmt)) :
    reloadNumFmts cs t = some (reloadNumFmtsN cs t) := by
  unfold reloadNumFmts reloadNumFmtsN
  rw [mapOpt_total (g := fun p : Nat × NumFmt =>
      (p.1, ({ id := p.1, code := cs.code.norm p.2.code, builtIn := false } : NumFmt)))
      (fun p => by simp [cs.code.rt_eq])]
  rfl

/-- given the codecs' round-trip hypotheses, reloading is `make_style` on the normalised tables -/
theorem reload_eq (cs : Codecs) (ss : Sheet) : reload cs ss = makeStyle (reloadTables cs ss) := by
  unfold reload
  rw [mapOpt_total cs.font.rt_eq, mapOpt_total cs.fill.rt_eq, mapOpt_total cs.borders.rt_eq,
      mapOpt_total (Xf.rt_eq cs), reloadNumFmts_eq]
  rfl

theorem reload_getStyle (cs : Codecs) (ss r : Sheet) (h : reload cs ss = some r) (i : Nat) :
    getStyle r i = styleAt cs ss i := by
  rw [reload_eq] at h
  unfold makeStyle at h
  cases hm : mapOpt (rebuild (reloadTables cs ss)) (reloadTables cs ss).xfs with
  | none => simp [hm] at h
  | some m =>
    simp [hm] at h
    subst h
    have := mapOpt_get _ m hm i
    unfold getStyle styleAt
    simp only [this, reloadTables, List.getElem?_map]
    cases ss.xfs[i]? <;> simp

theorem reload_succeeds (cs : Codecs) (ss : Sheet) (h : Inv cs ss) : ∃ r, reload cs ss = some r := by
  rw [reload_eq]
  unfold makeStyle
  have : (mapOpt (rebuild (reloadTables cs ss)) (reloadTables cs ss).xfs).isSome = true := by
    apply mapOpt_isSome
    intro a ha
    have ha' : a ∈ ss.xfs.map (Xf.norm cs) := ha
    obtain ⟨x, hx, rfl⟩ := List.mem_map.mp ha'
    obtain ⟨i, hi⟩ := List.mem_iff_getElem?.mp hx
    have hlt : i < ss.made.length := by
      rw [h.len]; exact (List.getElem?_eq_some_iff.mp hi).1
    obtain ⟨x', st, _, hx', _, hr, _, _⟩ := h.rt i ss.made[i] (List.getElem?_eq_getElem hlt)
    rw [hi] at hx'; cases hx'
    rw [hr]; rfl
  obtain ⟨m, hm⟩ := Option.isSome_iff_exists.mp this
  exact ⟨_, by rw [hm]; rfl⟩

/-! ## the concrete pattern-fill codec (after fix 90daeac) -/

theorem Color.norm_idem (c : Color) : c.norm.norm = c.norm := by
  unfold Color.norm
  cases c.theme <;> cases c.indexed <;> simp

theorem Color.norm_isBlank (c : Color) : c.norm.isBlank = c.isBlank := by
  unfold Color.norm Color.isBlank
  cases c.theme <;> cases c.indexed <;> simp

theorem Color.rt_rt (c d : Color) (h : c.rt = some d) : d.rt = some d := by
  unfold Color.rt at h ⊢
  split at h
  · cases h
  · rename_i hb
    cases h
    rw [Color.norm_isBlank, Color.norm_idem]
    simp [hb]

theorem optColor_rt_idem (o : Option Color) : (o.bind Color.rt).bind Color.rt = o.bind Color.rt := by
  cases o with
  | none => rfl
  | some c =>
    cases h : c.rt with
    | none => simp [h]
    | some d => simp [h, Color.rt_rt c d h]

theorem PatternFill.norm_idem (p : PatternFill) : p.norm.norm = p.norm := by
  simp [PatternFill.norm, PatternFill.read, PatternFill.write, optColor_rt_idem]

end Umya.Style
