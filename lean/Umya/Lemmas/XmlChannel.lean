/-
  The escaping channel between the library's writer and an XML 1.0 reader (C02):
  what `write_text_node` / `write_text_node_conversion` / `write_start_tag` emit
  (`Umya.XmlEsc.escape`, `partialEscape`, `attrEscape`; `Umya.Xml.escape`, `partialEscape` are the same
  functions as modelled for C01) is read back exactly by the independent reader of `Umya.Spec.Xml`
  (`textValue`, `attrValue`), for every text.

  The lemmas up to `escape_noCR` stood in `Umya/Thm/C02.lean` (namespace `Umya.Thm.C02`) before the
  cell bridge was added; they were moved here unchanged so that `Umya/Lemmas/CellDecode.lean` can use
  them.  `Umya/Thm/C02.lean` opens this namespace.
-/
import Umya.Lemmas.XmlEsc
import Umya.Spec.XmlLex
namespace Umya.XmlChannel
open Umya.XmlEsc

open Umya.Spec.Xml in
theorem expandGo_escCharOld (lit : Char → List Char) (c : Char) (rest : List Char) (hlit : lit c = [c]) :
    expandGo lit none (escCharOld c ++ rest) = (expandGo lit none rest).map (c :: ·) := by
  unfold escCharOld
  split
  · rename_i h; subst h; simp [expandGo, resolveRef]
  · split
    · rename_i h; subst h; simp [expandGo, resolveRef]
    · split
      · rename_i h; subst h; simp [expandGo, resolveRef]
      · split
        · rename_i h; subst h; simp [expandGo, resolveRef]
        · split
          · rename_i h; subst h; simp [expandGo, resolveRef]
          · rename_i h1 h2 h3 h4 h5
            simp [expandGo, h3, hlit]

open Umya.Spec.Xml in
theorem spec_resolve_refs : resolveRef "#13".toList = some ['\r'] ∧ resolveRef "#10".toList = some ['\n'] ∧
    resolveRef "#9".toList = some ['\t'] := by decide

open Umya.Spec.Xml in
theorem expandGo_ref (lit : Char → List Char) (pat : List Char) (v : List Char) (rest : List Char)
    (hp : resolveRef pat = some v) (hclean : ∀ c ∈ pat, c ≠ ';' ∧ c ≠ '&' ∧ c ≠ '<') :
    expandGo lit none (('&' :: pat) ++ ';' :: rest) = (expandGo lit none rest).map (v ++ ·) := by
  have key : ∀ (p acc : List Char), (∀ c ∈ p, c ≠ ';' ∧ c ≠ '&' ∧ c ≠ '<') →
      expandGo lit (some acc) (p ++ ';' :: rest) = (resolveRef (acc.reverse ++ p)).bind fun v => (expandGo lit none rest).map (v ++ ·) := by
    intro p
    induction p with
    | nil => intro acc _; simp [expandGo]
    | cons c cs ih =>
      intro acc h
      have hc := h c (by simp)
      simp only [List.cons_append, expandGo, hc.1, hc.2.1, hc.2.2, if_false, false_or]
      rw [ih (c :: acc) (fun d hd => h d (List.mem_cons_of_mem _ hd))]
      simp
  simp only [List.cons_append, expandGo, if_true]
  rw [key pat [] hclean]
  simp [hp]

open Umya.Spec.Xml in
theorem expandGo_escChar (lit : Char → List Char) (c : Char) (rest : List Char) (hlit : c ≠ '\r' → lit c = [c]) :
    expandGo lit none (escChar c ++ rest) = (expandGo lit none rest).map (c :: ·) := by
  unfold escChar
  split
  · rename_i h; subst h
    have := expandGo_ref lit "#13".toList ['\r'] rest spec_resolve_refs.1 (by decide)
    simpa using this
  · rename_i h; exact expandGo_escCharOld lit c rest (hlit h)

open Umya.Spec.Xml in
theorem expandGo_attrEscChar (lit : Char → List Char) (c : Char) (rest : List Char)
    (hlit : c ≠ '\r' → c ≠ '\n' → c ≠ '\t' → lit c = [c]) :
    expandGo lit none (attrEscChar c ++ rest) = (expandGo lit none rest).map (c :: ·) := by
  unfold attrEscChar
  split
  · rename_i h; subst h
    have := expandGo_ref lit "#9".toList ['\t'] rest spec_resolve_refs.2.2 (by decide)
    simpa using this
  · split
    · rename_i h; subst h
      have := expandGo_ref lit "#10".toList ['\n'] rest spec_resolve_refs.2.1 (by decide)
      simpa using this
    · rename_i ht hn
      exact expandGo_escChar lit c rest (fun hr => hlit hr hn ht)

theorem normalizeEol_noCR (s : List Char) (h : '\r' ∉ s) : Umya.Spec.Xml.normalizeEol s = s := by
  induction s with
  | nil => rfl
  | cons c r ih =>
    have hc : c ≠ '\r' := by intro e; subst e; simp at h
    have hr : '\r' ∉ r := by intro e; exact h (List.mem_cons_of_mem _ e)
    unfold Umya.Spec.Xml.normalizeEol
    split
    · rename_i heq; injection heq with h1 _; exact absurd h1 hc
    · rename_i heq; injection heq with h1 _; exact absurd h1 hc
    · rename_i heq; injection heq with h1 h2; subst h1; subst h2; rw [ih hr]
    · rename_i heq; simp at heq

theorem attrEscape_noCR (s : List Char) : '\r' ∉ attrEscape s := fun h => (attrEscape_safe s _ h).2.2.2.2.1 rfl

theorem escape_noCR (s : List Char) : '\r' ∉ escape s := by
  intro hm
  simp only [escape, List.mem_flatMap] at hm
  obtain ⟨d, _, hin⟩ := hm
  unfold escChar at hin
  split at hin
  · simp at hin
  · rename_i hr
    exact hr (escCharOld_ws d '\r' hin (Or.inl rfl)).symm

/-! ### the two channels (the statements of `C02_text_channel`, `C02_attr_channel`) -/

theorem textValue_escape (s : List Char) : Umya.Spec.Xml.textValue (escape s) = some s := by
  unfold Umya.Spec.Xml.textValue
  rw [normalizeEol_noCR _ (escape_noCR s)]
  unfold escape
  induction s with
  | nil => rfl
  | cons c r ih => rw [List.flatMap_cons, expandGo_escChar _ c _ (fun _ => rfl), ih]; rfl

theorem attrValue_attrEscape (s : List Char) : Umya.Spec.Xml.attrValue (attrEscape s) = some s := by
  unfold Umya.Spec.Xml.attrValue
  rw [normalizeEol_noCR _ (attrEscape_noCR s)]
  unfold attrEscape
  induction s with
  | nil => rfl
  | cons c r ih =>
    rw [List.flatMap_cons, expandGo_attrEscChar _ c _ (by intro h1 h2 h3; simp [h1, h2, h3]), ih]; rfl

/-! ### `write_text_node_conversion` (`partial_escape`, then `\r` ↦ `&#13;`): `<v>` of `str` / number
    cells and `<f>` -/

open Umya.Spec.Xml in
theorem spec_resolve_named : resolveRef "lt".toList = some ['<'] ∧ resolveRef "gt".toList = some ['>'] ∧
    resolveRef "amp".toList = some ['&'] := by decide

open Umya.Spec.Xml in
theorem expandGo_pescChar (lit : Char → List Char) (c : Char) (rest : List Char) (hlit : c ≠ '\r' → lit c = [c]) :
    expandGo lit none (pescChar c ++ rest) = (expandGo lit none rest).map (c :: ·) := by
  unfold pescChar
  split
  · rename_i h; subst h
    have := expandGo_ref lit "lt".toList ['<'] rest spec_resolve_named.1 (by decide)
    simpa using this
  · split
    · rename_i h; subst h
      have := expandGo_ref lit "gt".toList ['>'] rest spec_resolve_named.2.1 (by decide)
      simpa using this
    · split
      · rename_i h; subst h
        have := expandGo_ref lit "amp".toList ['&'] rest spec_resolve_named.2.2 (by decide)
        simpa using this
      · split
        · rename_i h; subst h
          have := expandGo_ref lit "#13".toList ['\r'] rest spec_resolve_refs.1 (by decide)
          simpa using this
        · rename_i h1 h2 h3 h4
          simp [expandGo, h3, hlit h4]

theorem pescChar_safe (d : Char) : ∀ c ∈ pescChar d, c ≠ '<' ∧ c ≠ '\r' := by
  intro c hd
  unfold pescChar at hd
  split at hd
  · simp at hd; rcases hd with h | h | h | h <;> subst h <;> decide
  · split at hd
    · simp at hd; rcases hd with h | h | h | h <;> subst h <;> decide
    · split at hd
      · simp at hd; rcases hd with h | h | h | h | h <;> subst h <;> decide
      · split at hd
        · simp at hd; rcases hd with h | h | h | h | h <;> subst h <;> decide
        · simp at hd; subst hd
          rename_i h1 _ _ h4
          exact ⟨h1, h4⟩

theorem partialEscape_safe (s : List Char) : ∀ c ∈ partialEscape s, c ≠ '<' ∧ c ≠ '\r' := by
  intro c hc
  simp only [partialEscape, List.mem_flatMap] at hc
  obtain ⟨d, _, hd⟩ := hc
  exact pescChar_safe d c hd

theorem textValue_partialEscape (s : List Char) : Umya.Spec.Xml.textValue (partialEscape s) = some s := by
  unfold Umya.Spec.Xml.textValue
  rw [normalizeEol_noCR _ (fun h => (partialEscape_safe s _ h).2 rfl)]
  unfold partialEscape
  induction s with
  | nil => rfl
  | cons c r ih => rw [List.flatMap_cons, expandGo_pescChar _ c _ (fun _ => rfl), ih]; rfl

/-- escaped character data never contains `<` (it cannot open a tag) -/
theorem escape_noLt (s : List Char) : '<' ∉ escape s := by
  intro hm
  simp only [escape, List.mem_flatMap] at hm
  obtain ⟨d, _, hin⟩ := hm
  unfold escChar at hin
  split at hin
  · simp at hin
  · exact (escCharOld_safe d _ hin).1 rfl

theorem partialEscape_noLt (s : List Char) : '<' ∉ partialEscape s := fun h => (partialEscape_safe s _ h).1 rfl

/-! ### the C01 model of the same writers (`Umya.Xml`) is the same function -/

theorem xml_escChar_eq (c : Char) : Umya.Xml.escChar c = escChar c := by
  unfold Umya.Xml.escChar escChar escCharOld
  repeat' split
  all_goals first | rfl | simp_all

theorem xml_pescChar_eq (c : Char) : Umya.Xml.pescChar c = pescChar c := by
  unfold Umya.Xml.pescChar pescChar
  repeat' split
  all_goals first | rfl | simp_all

theorem xml_escape_eq (s : List Char) : Umya.Xml.escape s = escape s := by
  unfold Umya.Xml.escape escape
  rw [show Umya.Xml.escChar = escChar from funext xml_escChar_eq]

theorem xml_partialEscape_eq (s : List Char) : Umya.Xml.partialEscape s = partialEscape s := by
  unfold Umya.Xml.partialEscape partialEscape
  rw [show Umya.Xml.pescChar = pescChar from funext xml_pescChar_eq]

end Umya.XmlChannel
