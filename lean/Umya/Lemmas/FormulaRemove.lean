/-
  `adjustment_remove_formula_coordinate` on one reference token, against `Spec.remArea`.
-/
import Umya.Lemmas.Formula
namespace Umya.Formula
open Umya.Coord Umya.Dec Umya.Thm.C17

theorem corner_text_cr (x y : Ref) : Spec.Corner.text ⟨some x, some y⟩ = colRefText x ++ rowRefText y := rfl
theorem corner_text_c (x : Ref) : Spec.Corner.text ⟨some x, none⟩ = colRefText x := by
  simp [Spec.Corner.text, optText]
theorem corner_text_r (y : Ref) : Spec.Corner.text ⟨none, some y⟩ = rowRefText y := by
  simp [Spec.Corner.text, optText]

/-- what `removeTok` does once the qualifier is split off, the sheet matches and the corners are parsed -/
def removeCore (q : List Char) (ks : List (Option Corner)) (coords : List (List Char))
    (rc oc rr orr : Nat) (t : Tok) : Res Tok :=
  match removeParts (colsOf ks) rc oc with
  | .panic => .panic
  | .ok none => .ok (refErrorTok t)
  | .ok (some cols') =>
    let ks1 := putCols ks cols'
    match removeParts (rowsOf ks1) rr orr with
    | .panic => .panic
    | .ok none => .ok (refErrorTok t)
    | .ok (some rows') =>
      match renderCorners (putRows ks1 rows') coords with
      | .panic => .panic
      | .ok l => .ok { t with val := q ++ joinColon l }

def cornersOf : Spec.Area → List Spec.Corner
  | .one k => [k]
  | .two a b => [a, b]

theorem parse_cornerTexts (a : Spec.Area) (hw : a.WF) :
    (cornerTexts a).map parseCorner = (cornersOf a).map (fun k => some (toCorner k)) := by
  cases a with
  | one k =>
    obtain ⟨hg, hne⟩ := area_nonempty_one k hw
    simp [cornerTexts, cornersOf, parseCorner_text k hg hne]
  | two a b =>
    obtain ⟨hga, hgb, hna, hnb⟩ := area_nonempty_two a b hw
    simp [cornerTexts, cornersOf, parseCorner_text a hga hna, parseCorner_text b hgb hnb]

theorem removeTok_eq_core (r : Spec.CRef) (hw : r.WF) (rc oc rr orr : Nat) (ws selfWs : List Char)
    (hws : ws ≠ []) :
    removeTok rc oc rr orr ws selfWs false (refTok r)
      = if Spec.concernsRef r selfWs ws
        then removeCore (qualText r) ((cornersOf r.area).map (fun k => some (toCorner k)))
               (cornerTexts r.area) rc oc rr orr (refTok r)
        else .ok (refTok r) := by
  have hsq := splitSheetQualifier_text r hw.2
  have hsc := splitColon_area r.area
  unfold removeTok
  have hro : isRangeOperand (refTok r) = true := rfl
  have hv : (refTok r).val = r.text := rfl
  simp only [hro, if_true, hv, hsq, concerns_spec r hw.2 ws selfWs hws, hsc, parse_cornerTexts r.area hw.1]
  cases Spec.concernsRef r selfWs ws
  · simp
  · simp only [if_true]; rfl

section
variable (at_ n : Nat) (h1 : 1 ≤ at_) (hn : n ≠ 0) (ho : at_ + n ≤ u32Max)
include h1 hn ho

/-- a single cell -/
theorem removeCore_cell (q : List Char) (t : Tok) (x y : Ref) (hx : 1 ≤ x.num) (ax : Spec.Axis) :
    removeCore q [some (some (toPart x), some (toPart y))] [Spec.Corner.text ⟨some x, some y⟩]
        (axisArgs ax at_ n).1 (axisArgs ax at_ n).2.1 (axisArgs ax at_ n).2.2.1 (axisArgs ax at_ n).2.2.2 t
      = .ok (match Spec.remArea (.one ⟨some x, some y⟩) ax at_ n with
             | some a => { t with val := q ++ a.text }
             | none => refErrorTok t) := by
  have p1 := remNum_pos x.num at_ n hx h1
  cases ax with
  | col =>
    cases hb : Spec.inBand x.num at_ n <;>
      simp [removeCore, axisArgs, colsOf, rowsOf, putCols, putRows, renderCorners, removeParts_one _ _ _ h1 hn ho, removeParts_two _ _ _ _ h1 hn ho, removeParts_unused1, removeParts_unused2, removeParts_nil, Spec.remArea, Spec.remAxis, Spec.startOf, Spec.endOf, Spec.rebuild, joinColon, Spec.Area.text, corner_text_cr, corner_text_c, corner_text_r, renderCorner_r, hb, renderCorner_cr, p1]
  | row =>
    cases hb : Spec.inBand y.num at_ n <;>
      simp [removeCore, axisArgs, colsOf, rowsOf, putCols, putRows, renderCorners, removeParts_one _ _ _ h1 hn ho, removeParts_two _ _ _ _ h1 hn ho, removeParts_unused1, removeParts_unused2, removeParts_nil, Spec.remArea, Spec.remAxis, Spec.startOf, Spec.endOf, Spec.rebuild, joinColon, Spec.Area.text, corner_text_cr, corner_text_c, corner_text_r, renderCorner_r, hb, renderCorner_cr, hx]

/-- whole columns -/
theorem removeCore_cols (q : List Char) (t : Tok) (x1 x2 : Ref) (hx1 : 1 ≤ x1.num) (hx2 : 1 ≤ x2.num)
    (hle : x1.num ≤ x2.num) (ax : Spec.Axis) :
    removeCore q [some (some (toPart x1), none), some (some (toPart x2), none)]
        [Spec.Corner.text ⟨some x1, none⟩, Spec.Corner.text ⟨some x2, none⟩]
        (axisArgs ax at_ n).1 (axisArgs ax at_ n).2.1 (axisArgs ax at_ n).2.2.1 (axisArgs ax at_ n).2.2.2 t
      = .ok (match Spec.remArea (.two ⟨some x1, none⟩ ⟨some x2, none⟩) ax at_ n with
             | some a => { t with val := q ++ a.text }
             | none => refErrorTok t) := by
  have p1 := remNum_pos x1.num at_ n hx1 h1
  have p2 := remNum_pos x2.num at_ n hx2 h1
  cases ax with
  | col =>
    cases hb1 : Spec.inBand x1.num at_ n <;> cases hb2 : Spec.inBand x2.num at_ n
    · simp [removeCore, axisArgs, colsOf, rowsOf, putCols, putRows, renderCorners, removeParts_one _ _ _ h1 hn ho, removeParts_two _ _ _ _ h1 hn ho, removeParts_unused1, removeParts_unused2, removeParts_nil, Spec.remArea, Spec.remAxis, Spec.startOf, Spec.endOf, Spec.rebuild, joinColon, Spec.Area.text, corner_text_cr, corner_text_c, corner_text_r, renderCorner_r, hb1, hb2, renderCorner_c, p1, p2]
    · have pc := clamp_pos x1.num x2.num at_ n hx1 hle hb1 hb2
      simp [removeCore, axisArgs, colsOf, rowsOf, putCols, putRows, renderCorners, removeParts_one _ _ _ h1 hn ho, removeParts_two _ _ _ _ h1 hn ho, removeParts_unused1, removeParts_unused2, removeParts_nil, Spec.remArea, Spec.remAxis, Spec.startOf, Spec.endOf, Spec.rebuild, joinColon, Spec.Area.text, corner_text_cr, corner_text_c, corner_text_r, renderCorner_r, hb1, hb2, renderCorner_c, p1, p2, pc]
    · simp [removeCore, axisArgs, colsOf, rowsOf, putCols, putRows, renderCorners, removeParts_one _ _ _ h1 hn ho, removeParts_two _ _ _ _ h1 hn ho, removeParts_unused1, removeParts_unused2, removeParts_nil, Spec.remArea, Spec.remAxis, Spec.startOf, Spec.endOf, Spec.rebuild, joinColon, Spec.Area.text, corner_text_cr, corner_text_c, corner_text_r, renderCorner_r, hb1, hb2, renderCorner_c, p1, p2, h1]
    · simp [removeCore, axisArgs, colsOf, rowsOf, putCols, putRows, renderCorners, removeParts_one _ _ _ h1 hn ho, removeParts_two _ _ _ _ h1 hn ho, removeParts_unused1, removeParts_unused2, removeParts_nil, Spec.remArea, Spec.remAxis, Spec.startOf, Spec.endOf, Spec.rebuild, joinColon, Spec.Area.text, corner_text_cr, corner_text_c, corner_text_r, renderCorner_r, hb1, hb2]
  | row =>
    simp [removeCore, axisArgs, colsOf, rowsOf, putCols, putRows, renderCorners, removeParts_one _ _ _ h1 hn ho, removeParts_two _ _ _ _ h1 hn ho, removeParts_unused1, removeParts_unused2, removeParts_nil, Spec.remArea, Spec.remAxis, Spec.startOf, Spec.endOf, Spec.rebuild, joinColon, Spec.Area.text, corner_text_cr, corner_text_c, corner_text_r, renderCorner_r, renderCorner_c, hx1, hx2]

/-- whole rows -/
theorem removeCore_rows (q : List Char) (t : Tok) (y1 y2 : Ref) (ax : Spec.Axis) :
    removeCore q [some (none, some (toPart y1)), some (none, some (toPart y2))]
        [Spec.Corner.text ⟨none, some y1⟩, Spec.Corner.text ⟨none, some y2⟩]
        (axisArgs ax at_ n).1 (axisArgs ax at_ n).2.1 (axisArgs ax at_ n).2.2.1 (axisArgs ax at_ n).2.2.2 t
      = .ok (match Spec.remArea (.two ⟨none, some y1⟩ ⟨none, some y2⟩) ax at_ n with
             | some a => { t with val := q ++ a.text }
             | none => refErrorTok t) := by
  cases ax with
  | col =>
    simp [removeCore, axisArgs, colsOf, rowsOf, putCols, putRows, renderCorners, removeParts_one _ _ _ h1 hn ho, removeParts_two _ _ _ _ h1 hn ho, removeParts_unused1, removeParts_unused2, removeParts_nil, Spec.remArea, Spec.remAxis, Spec.startOf, Spec.endOf, Spec.rebuild, joinColon, Spec.Area.text, corner_text_cr, corner_text_c, corner_text_r, renderCorner_r]
  | row =>
    cases hb1 : Spec.inBand y1.num at_ n <;> cases hb2 : Spec.inBand y2.num at_ n <;>
      simp [removeCore, axisArgs, colsOf, rowsOf, putCols, putRows, renderCorners, removeParts_one _ _ _ h1 hn ho, removeParts_two _ _ _ _ h1 hn ho, removeParts_unused1, removeParts_unused2, removeParts_nil, Spec.remArea, Spec.remAxis, Spec.startOf, Spec.endOf, Spec.rebuild, joinColon, Spec.Area.text, corner_text_cr, corner_text_c, corner_text_r, renderCorner_r, hb1, hb2]

/-- a cell range -/
theorem removeCore_range (q : List Char) (t : Tok) (x1 y1 x2 y2 : Ref) (hx1 : 1 ≤ x1.num) (hx2 : 1 ≤ x2.num)
    (hle : x1.num ≤ x2.num) (ax : Spec.Axis) :
    removeCore q [some (some (toPart x1), some (toPart y1)), some (some (toPart x2), some (toPart y2))]
        [Spec.Corner.text ⟨some x1, some y1⟩, Spec.Corner.text ⟨some x2, some y2⟩]
        (axisArgs ax at_ n).1 (axisArgs ax at_ n).2.1 (axisArgs ax at_ n).2.2.1 (axisArgs ax at_ n).2.2.2 t
      = .ok (match Spec.remArea (.two ⟨some x1, some y1⟩ ⟨some x2, some y2⟩) ax at_ n with
             | some a => { t with val := q ++ a.text }
             | none => refErrorTok t) := by
  have p1 := remNum_pos x1.num at_ n hx1 h1
  have p2 := remNum_pos x2.num at_ n hx2 h1
  cases ax with
  | col =>
    cases hb1 : Spec.inBand x1.num at_ n <;> cases hb2 : Spec.inBand x2.num at_ n
    · simp [removeCore, axisArgs, colsOf, rowsOf, putCols, putRows, renderCorners, removeParts_one _ _ _ h1 hn ho, removeParts_two _ _ _ _ h1 hn ho, removeParts_unused1, removeParts_unused2, removeParts_nil, Spec.remArea, Spec.remAxis, Spec.startOf, Spec.endOf, Spec.rebuild, joinColon, Spec.Area.text, corner_text_cr, corner_text_c, corner_text_r, renderCorner_r, hb1, hb2, renderCorner_cr, p1, p2]
    · have pc := clamp_pos x1.num x2.num at_ n hx1 hle hb1 hb2
      simp [removeCore, axisArgs, colsOf, rowsOf, putCols, putRows, renderCorners, removeParts_one _ _ _ h1 hn ho, removeParts_two _ _ _ _ h1 hn ho, removeParts_unused1, removeParts_unused2, removeParts_nil, Spec.remArea, Spec.remAxis, Spec.startOf, Spec.endOf, Spec.rebuild, joinColon, Spec.Area.text, corner_text_cr, corner_text_c, corner_text_r, renderCorner_r, hb1, hb2, renderCorner_cr, p1, p2, pc]
    · simp [removeCore, axisArgs, colsOf, rowsOf, putCols, putRows, renderCorners, removeParts_one _ _ _ h1 hn ho, removeParts_two _ _ _ _ h1 hn ho, removeParts_unused1, removeParts_unused2, removeParts_nil, Spec.remArea, Spec.remAxis, Spec.startOf, Spec.endOf, Spec.rebuild, joinColon, Spec.Area.text, corner_text_cr, corner_text_c, corner_text_r, renderCorner_r, hb1, hb2, renderCorner_cr, p1, p2, h1]
    · simp [removeCore, axisArgs, colsOf, rowsOf, putCols, putRows, renderCorners, removeParts_one _ _ _ h1 hn ho, removeParts_two _ _ _ _ h1 hn ho, removeParts_unused1, removeParts_unused2, removeParts_nil, Spec.remArea, Spec.remAxis, Spec.startOf, Spec.endOf, Spec.rebuild, joinColon, Spec.Area.text, corner_text_cr, corner_text_c, corner_text_r, renderCorner_r, hb1, hb2]
  | row =>
    cases hb1 : Spec.inBand y1.num at_ n <;> cases hb2 : Spec.inBand y2.num at_ n <;>
      simp [removeCore, axisArgs, colsOf, rowsOf, putCols, putRows, renderCorners, removeParts_one _ _ _ h1 hn ho, removeParts_two _ _ _ _ h1 hn ho, removeParts_unused1, removeParts_unused2, removeParts_nil, Spec.remArea, Spec.remAxis, Spec.startOf, Spec.endOf, Spec.rebuild, joinColon, Spec.Area.text, corner_text_cr, corner_text_c, corner_text_r, renderCorner_r, hb1, hb2, renderCorner_cr, hx1, hx2]

theorem core_result (r : Spec.CRef) (o : Option Spec.Area) :
    (match o with
     | some a => { refTok r with val := qualText r ++ a.text }
     | none => refErrorTok (refTok r)) = tokOfRef r o := by
  cases o with
  | none => rfl
  | some a => simp only [tokOfRef, refTok]; rw [← qual_text_eq]

/-- `adjustment_remove_formula_coordinate` on one reference token, against the Spec: survivors
    move up, a range that loses an end is clamped, a deleted target becomes `#REF!`; `$` flags and
    the qualifier are kept; references of other sheets are left alone. -/
theorem removeTok_ref (r : Spec.CRef) (hw : r.WF) (ax : Spec.Axis) (ws selfWs : List Char)
    (hws : ws ≠ []) :
    removeTok (axisArgs ax at_ n).1 (axisArgs ax at_ n).2.1 (axisArgs ax at_ n).2.2.1
        (axisArgs ax at_ n).2.2.2 ws selfWs false (refTok r)
      = .ok (if Spec.concernsRef r selfWs ws then tokOfRef r (Spec.remArea r.area ax at_ n)
             else refTok r) := by
  rw [removeTok_eq_core r hw _ _ _ _ ws selfWs hws]
  cases Spec.concernsRef r selfWs ws with
  | false => simp
  | true =>
    simp only [if_true]
    obtain ⟨sheet, area⟩ := r
    have hwa : area.WF := hw.1
    cases area with
    | one k =>
      obtain ⟨c, w⟩ := k
      obtain ⟨hc, hr, hg⟩ := hwa
      cases c with
      | none => simp at hc
      | some x =>
        cases w with
        | none => simp at hr
        | some y =>
          have hx : 1 ≤ x.num := (hg.1 x rfl).1
          have := removeCore_cell at_ n h1 hn ho (qualText ⟨sheet, .one ⟨some x, some y⟩⟩)
            (refTok ⟨sheet, .one ⟨some x, some y⟩⟩) x y hx ax
          simp only [cornersOf, cornerTexts, List.map, toCorner, Option.map]
          rw [this, core_result at_ n h1 hn ho]
    | two a b =>
      obtain ⟨c1, w1⟩ := a
      obtain ⟨c2, w2⟩ := b
      obtain ⟨hs, hga, hgb, hlc, hlr⟩ := hwa
      simp only [cornersOf, cornerTexts, List.map, toCorner, Option.map]
      rcases hs with ⟨h1', h2', h3', h4'⟩ | ⟨h1', h2', h3', h4'⟩ | ⟨h1', h2', h3', h4'⟩
      · cases c1 <;> cases w1 <;> cases c2 <;> cases w2 <;> simp at h1' h2' h3' h4'
        rename_i x1 y1 x2 y2
        have := removeCore_range at_ n h1 hn ho (qualText ⟨sheet, .two ⟨some x1, some y1⟩ ⟨some x2, some y2⟩⟩)
          (refTok ⟨sheet, .two ⟨some x1, some y1⟩ ⟨some x2, some y2⟩⟩) x1 y1 x2 y2
          (hga.1 x1 rfl).1 (hgb.1 x2 rfl).1 (hlc x1 x2 rfl rfl) ax
        rw [this, core_result at_ n h1 hn ho]
      · cases c1 <;> cases w1 <;> cases c2 <;> cases w2 <;> simp at h1' h2' h3' h4'
        rename_i x1 x2
        have := removeCore_cols at_ n h1 hn ho (qualText ⟨sheet, .two ⟨some x1, none⟩ ⟨some x2, none⟩⟩)
          (refTok ⟨sheet, .two ⟨some x1, none⟩ ⟨some x2, none⟩⟩) x1 x2
          (hga.1 x1 rfl).1 (hgb.1 x2 rfl).1 (hlc x1 x2 rfl rfl) ax
        rw [this, core_result at_ n h1 hn ho]
      · cases c1 <;> cases w1 <;> cases c2 <;> cases w2 <;> simp at h1' h2' h3' h4'
        rename_i y1 y2
        have := removeCore_rows at_ n h1 hn ho (qualText ⟨sheet, .two ⟨none, some y1⟩ ⟨none, some y2⟩⟩)
          (refTok ⟨sheet, .two ⟨none, some y1⟩ ⟨none, some y2⟩⟩) y1 y2 ax
        rw [this, core_result at_ n h1 hn ho]

end
end Umya.Formula
