/-
  The shared-string table a save writes, as a function of the cells: the items registered by the cells in writing
  order, interned one after the other (first occurrence wins).  Used for the table under a cell-creating edit.
-/
import Umya.Lemmas.ResaveEdit
import Umya.Lemmas.InternC01
namespace Umya.CellXml
open Umya.Num Umya.InternC01

theorem indexOf?_none' {α : Type} [DecidableEq α] {x : α} : ∀ {t : List α}, indexOf? x t = none ↔ x ∉ t
  | [] => by simp [indexOf?]
  | y :: ys => by
    have ih := @indexOf?_none' α _ x ys
    by_cases h : y = x
    · simp [indexOf?, h]
    · have h' : ¬ x = y := fun e => h e.symm
      simp [indexOf?, h, h', ih]

/-- intern a list of items one after the other -/
def internList {α : Type} [DecidableEq α] (t : List α) (l : List α) : List α := l.foldl (fun t x => (intern t x).1) t

theorem intern_mem {α : Type} [DecidableEq α] (t : List α) (x y : α) : y ∈ (intern t x).1 ↔ y ∈ t ∨ y = x := by
  unfold intern
  cases h : indexOf? x t with
  | none => simp
  | some i =>
    have hx : x ∈ t := List.mem_of_getElem? (indexOf?_some h)
    constructor
    · exact fun hy => Or.inl hy
    · rintro (hy | rfl)
      · exact hy
      · exact hx

theorem intern_prefix {α : Type} [DecidableEq α] (t : List α) (x : α) : ∃ e, (intern t x).1 = t ++ e ∧ e.length ≤ 1 := by
  unfold intern
  cases indexOf? x t with
  | none => exact ⟨[x], rfl, Nat.le_refl _⟩
  | some i => exact ⟨[], by simp, by simp⟩

theorem intern_nodup {α : Type} [DecidableEq α] (t : List α) (x : α) (h : t.Nodup) : (intern t x).1.Nodup := by
  unfold intern
  cases hx : indexOf? x t with
  | none =>
    have : x ∉ t := indexOf?_none'.1 hx
    exact List.nodup_append.2 ⟨h, by simp, by intro a ha b hb; simp at hb; subst hb; exact fun e => this (e ▸ ha)⟩
  | some i => exact h

theorem internList_append {α : Type} [DecidableEq α] (t a b : List α) : internList t (a ++ b) = internList (internList t a) b := by
  simp [internList, List.foldl_append]

theorem internList_mem {α : Type} [DecidableEq α] : ∀ (l t : List α) (y : α), y ∈ internList t l ↔ y ∈ t ∨ y ∈ l
  | [], t, y => by simp [internList]
  | x :: l, t, y => by
    have ih := internList_mem l (intern t x).1 y
    simp only [internList, List.foldl_cons] at ih ⊢
    rw [ih, intern_mem]
    simp only [List.mem_cons]
    constructor
    · rintro ((h | h) | h)
      · exact Or.inl h
      · exact Or.inr (Or.inl h)
      · exact Or.inr (Or.inr h)
    · rintro (h | h | h)
      · exact Or.inl (Or.inl h)
      · exact Or.inl (Or.inr h)
      · exact Or.inr h

theorem internList_prefix {α : Type} [DecidableEq α] : ∀ (l t : List α), ∃ e, internList t l = t ++ e
  | [], t => ⟨[], by simp [internList]⟩
  | x :: l, t => by
    obtain ⟨e1, h1, _⟩ := intern_prefix t x
    obtain ⟨e2, h2⟩ := internList_prefix l (intern t x).1
    refine ⟨e1 ++ e2, ?_⟩
    simp only [internList, List.foldl_cons] at h2 ⊢
    rw [h2, h1, List.append_assoc]

theorem internList_nodup {α : Type} [DecidableEq α] : ∀ (l t : List α), t.Nodup → (internList t l).Nodup
  | [], t, h => by simpa [internList] using h
  | x :: l, t, h => by
    have := internList_nodup l (intern t x).1 (intern_nodup t x h)
    simpa [internList] using this

section
variable (F : NumFmt)

/-- the item `Cell::write_to` registers in the shared-string table for a (resolved) cell, if any: a written cell with
    a non-empty value of data type `s` -/
def regCore (c : Cell F.Num) : Option Item :=
  if blankCore F c then none
  else if c.raw.isEmpty ∧ c.formula.isNone then none
  else if c.raw.isEmpty then none
  else if dataTypeCrate F c = tS then some (itemOf F c.raw) else none

def regOf (c : Cell F.Num) : Option Item := regCore F (Cell.resolved F c)

def regStep (t : Table) : Option Item → Table
  | some it => (intern t it).1
  | none => t

theorem writeV_table (tbl : Table) (dt : Umya.Xml.Text) (raw : RawValue F.Num) :
    (writeV F tbl dt raw).1 = if raw.isEmpty then tbl else if dt = tS then (intern tbl (itemOf F raw)).1 else tbl := by
  unfold writeV
  split
  · rfl
  · split
    · rfl
    · split
      · rfl
      · split
        · rfl
        · split <;> rfl

theorem writeCore_table (tbl t' : Table) (c : Cell F.Num) (ox : Option CellX) (h : writeCore F tbl c = some (t', ox)) :
    t' = regStep tbl (regCore F c) := by
  unfold writeCore at h
  unfold regCore
  split at h
  · rename_i hb; injection h with h; injection h with h1 _; rw [if_pos hb]; exact h1.symm
  · rename_i hb
    rw [if_neg hb]
    split at h
    · cases h
    · split at h
      · rename_i he; injection h with h; injection h with h1 _; rw [if_pos he]; exact h1.symm
      · rename_i he
        injection h with h; injection h with h1 _
        rw [if_neg he, ← h1, writeV_table]
        by_cases hr : c.raw.isEmpty = true
        · simp [hr, regStep]
        · by_cases hd : dataTypeCrate F c = tS
          · simp [hr, hd, regStep]
          · simp [hr, hd, regStep]

theorem writeCells_table : ∀ (cs : List (Cell F.Num)) (tbl t' : Table) (xs : List CellX),
    writeCells F tbl cs = some (t', xs) → t' = internList tbl (cs.filterMap (regOf F))
  | [], tbl, t', xs, h => by
    simp only [writeCells] at h; injection h with h; injection h with h1 _; simp [internList, h1]
  | c :: cs, tbl, t', xs, h => by
    simp only [writeCells] at h
    cases hw : writeTo F tbl c with
    | none => rw [hw] at h; cases h
    | some p =>
      obtain ⟨t1, ox⟩ := p
      rw [hw] at h
      simp only at h
      cases hc : writeCells F t1 cs with
      | none => rw [hc] at h; cases h
      | some q =>
        obtain ⟨t2, ys⟩ := q
        rw [hc] at h
        injection h with h; injection h with h1 _
        have e1 : t1 = regStep tbl (regOf F c) := writeCore_table F tbl t1 _ ox hw
        have e2 := writeCells_table cs t1 t2 ys hc
        rw [← h1, e2, e1]
        cases hr : regOf F c with
        | none => simp [List.filterMap_cons, hr, regStep]
        | some it => simp [List.filterMap_cons, hr, regStep, internList]

theorem writeSheets_table : ∀ (ss : List (List (Cell F.Num))) (tbl t' : Table) (xss : List (List CellX)),
    writeSheets F tbl ss = some (t', xss) → t' = internList tbl (ss.flatten.filterMap (regOf F))
  | [], tbl, t', xss, h => by
    simp only [writeSheets] at h; injection h with h; injection h with h1 _; simp [internList, h1]
  | s :: ss, tbl, t', xss, h => by
    simp only [writeSheets] at h
    cases hw : writeCells F tbl s with
    | none => rw [hw] at h; cases h
    | some p =>
      obtain ⟨t1, xs⟩ := p
      rw [hw] at h
      simp only at h
      cases hc : writeSheets F t1 ss with
      | none => rw [hc] at h; cases h
      | some q =>
        obtain ⟨t2, ys⟩ := q
        rw [hc] at h
        injection h with h; injection h with h1 _
        rw [← h1, writeSheets_table ss t1 t2 ys hc, writeCells_table F s tbl t1 xs hw]
        simp [List.flatten_cons, List.filterMap_append, internList_append]

/-- the items of the table a save writes: those registered by the cells, in writing order, first occurrence wins -/
def itemsOf (cells : List (List (Cell F.Num))) : List Item := cells.flatten.filterMap (regOf F)

theorem writeBook_sst (light : Bool) (cells : List (List (Cell F.Num))) (b : BookX) (h : writeBook F light cells = some b) :
    b.sst = (internList [] (itemsOf F cells)).map siOf := by
  unfold writeBook at h
  cases hw : writeSheets F [] cells with
  | none => rw [hw] at h; cases h
  | some p =>
    obtain ⟨t, xs⟩ := p
    rw [hw] at h
    injection h with h
    rw [← h, writeSheets_table F cells [] t xs hw]; rfl

end
end Umya.CellXml
