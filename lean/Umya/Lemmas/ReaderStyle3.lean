/-
  Helper lemmas for C03, style resolution (continued): `<border>`, alignment, protection, `<numFmt>`, `<xf>`.
-/
import Umya.Lemmas.ReaderStyle2
namespace Umya.Reader.Lemmas
open Umya.Reader Umya.Spec.Xml Umya.Spec.Sml
open Umya.StyleCodec

/-! ## `<border>` -/

def edgeG (cf : Tok → Tok) (b : Border) (n : Node) : Border := (b.readInto cf n).getD b

def isEdgeName (c : Node) : Bool :=
  named "left" c || named "right" c || named "top" c || named "bottom" c || named "diagonal" c ||
  named "vertical" c || named "horizontal" c

theorem Borders.step_spec (cf : Tok → Tok) (b b' : Borders) (n : Node) (h : Borders.step cf b n = some b') :
    b'.left = (if named "left" n then edgeG cf b.left n else b.left) ∧
    b'.right = (if named "right" n then edgeG cf b.right n else b.right) ∧
    b'.top = (if named "top" n then edgeG cf b.top n else b.top) ∧
    b'.bottom = (if named "bottom" n then edgeG cf b.bottom n else b.bottom) ∧
    b'.diagonal = (if named "diagonal" n then edgeG cf b.diagonal n else b.diagonal) ∧
    b'.diagonalUp = b.diagonalUp ∧ b'.diagonalDown = b.diagonalDown := by
  cases n with
  | text t => simp only [Borders.step, Option.some.injEq] at h; subst h; simp [named, Node.isElem]
  | elem nm as cs =>
    simp only [Borders.step] at h
    by_cases c1 : nm = "left".toList
    · rw [if_pos c1] at h
      obtain ⟨e, he, rfl⟩ := Option.map_eq_some_iff.mp h
      subst c1; simp [named, Node.isElem, Node.name, edgeG]; exact (congrArg (fun o => Option.getD o _) he).symm
    rw [if_neg c1] at h
    by_cases c2 : nm = "right".toList
    · rw [if_pos c2] at h
      obtain ⟨e, he, rfl⟩ := Option.map_eq_some_iff.mp h
      subst c2; simp [named, Node.isElem, Node.name, edgeG]; exact (congrArg (fun o => Option.getD o _) he).symm
    rw [if_neg c2] at h
    by_cases c3 : nm = "top".toList
    · rw [if_pos c3] at h
      obtain ⟨e, he, rfl⟩ := Option.map_eq_some_iff.mp h
      subst c3; simp [named, Node.isElem, Node.name, edgeG]; exact (congrArg (fun o => Option.getD o _) he).symm
    rw [if_neg c3] at h
    by_cases c4 : nm = "bottom".toList
    · rw [if_pos c4] at h
      obtain ⟨e, he, rfl⟩ := Option.map_eq_some_iff.mp h
      subst c4; simp [named, Node.isElem, Node.name, edgeG]; exact (congrArg (fun o => Option.getD o _) he).symm
    rw [if_neg c4] at h
    by_cases c5 : nm = "diagonal".toList
    · rw [if_pos c5] at h
      obtain ⟨e, he, rfl⟩ := Option.map_eq_some_iff.mp h
      subst c5; simp [named, Node.isElem, Node.name, edgeG]; exact (congrArg (fun o => Option.getD o _) he).symm
    rw [if_neg c5] at h
    by_cases c6 : nm = "vertical".toList
    · rw [if_pos c6] at h
      obtain ⟨e, he, rfl⟩ := Option.map_eq_some_iff.mp h
      subst c6; simp [named, Node.isElem, Node.name]
    rw [if_neg c6] at h
    by_cases c7 : nm = "horizontal".toList
    · rw [if_pos c7] at h
      obtain ⟨e, he, rfl⟩ := Option.map_eq_some_iff.mp h
      subst c7; simp [named, Node.isElem, Node.name]
    rw [if_neg c7] at h
    simp only [Option.some.injEq] at h; subst h
    simp_all [named, Node.isElem, Node.name]

/-- an edge read into ANY existing `Border` does not panic when the edge is valid -/
theorem Border.readInto_total (cf : Tok → Tok) (b : Border) (e : Node) (h : validEdge e = true) :
    ∃ b', b.readInto cf e = some b' := by
  simp only [validEdge, colorKidOk, Bool.and_eq_true] at h
  exact foldOpt_total (Border.colorStep cf) (fun c => if named "color" c then colorOk c.attrs else true)
    (fun a c hc => Border.colorStep_total cf a c hc) e.children _ h.1.2.2

def borderKidOk (c : Node) : Bool := if isEdgeName c then validEdge c else true

theorem Borders.step_total (cf : Tok → Tok) (b : Borders) (c : Node) (h : borderKidOk c = true) :
    ∃ b', Borders.step cf b c = some b' := by
  cases c with
  | text t => exact ⟨b, rfl⟩
  | elem nm as cs =>
    simp only [Borders.step]
    by_cases c1 : nm = "left".toList
    · rw [if_pos c1]
      have hv : validEdge (.elem nm as cs) = true := by
        subst c1; simpa [borderKidOk, isEdgeName, named, Node.isElem, Node.name] using h
      obtain ⟨e, he⟩ := Border.readInto_total cf b.left _ hv
      exact ⟨_, by rw [he]; rfl⟩
    rw [if_neg c1]
    by_cases c2 : nm = "right".toList
    · rw [if_pos c2]
      have hv : validEdge (.elem nm as cs) = true := by
        subst c2; simpa [borderKidOk, isEdgeName, named, Node.isElem, Node.name] using h
      obtain ⟨e, he⟩ := Border.readInto_total cf b.right _ hv
      exact ⟨_, by rw [he]; rfl⟩
    rw [if_neg c2]
    by_cases c3 : nm = "top".toList
    · rw [if_pos c3]
      have hv : validEdge (.elem nm as cs) = true := by
        subst c3; simpa [borderKidOk, isEdgeName, named, Node.isElem, Node.name] using h
      obtain ⟨e, he⟩ := Border.readInto_total cf b.top _ hv
      exact ⟨_, by rw [he]; rfl⟩
    rw [if_neg c3]
    by_cases c4 : nm = "bottom".toList
    · rw [if_pos c4]
      have hv : validEdge (.elem nm as cs) = true := by
        subst c4; simpa [borderKidOk, isEdgeName, named, Node.isElem, Node.name] using h
      obtain ⟨e, he⟩ := Border.readInto_total cf b.bottom _ hv
      exact ⟨_, by rw [he]; rfl⟩
    rw [if_neg c4]
    by_cases c5 : nm = "diagonal".toList
    · rw [if_pos c5]
      have hv : validEdge (.elem nm as cs) = true := by
        subst c5; simpa [borderKidOk, isEdgeName, named, Node.isElem, Node.name] using h
      obtain ⟨e, he⟩ := Border.readInto_total cf b.diagonal _ hv
      exact ⟨_, by rw [he]; rfl⟩
    rw [if_neg c5]
    by_cases c6 : nm = "vertical".toList
    · rw [if_pos c6]
      have hv : validEdge (.elem nm as cs) = true := by
        subst c6; simpa [borderKidOk, isEdgeName, named, Node.isElem, Node.name] using h
      obtain ⟨e, he⟩ := Border.readInto_total cf b.vertical _ hv
      exact ⟨_, by rw [he]; rfl⟩
    rw [if_neg c6]
    by_cases c7 : nm = "horizontal".toList
    · rw [if_pos c7]
      have hv : validEdge (.elem nm as cs) = true := by
        subst c7; simpa [borderKidOk, isEdgeName, named, Node.isElem, Node.name] using h
      obtain ⟨e, he⟩ := Border.readInto_total cf b.horizontal _ hv
      exact ⟨_, by rw [he]; rfl⟩
    rw [if_neg c7]; exact ⟨_, rfl⟩

/-- a valid `<border>`: unprefixed children, each of `left right top bottom diagonal` at most once, every edge child a
    `validEdge` -/
def validBorder (n : Node) : Bool :=
  n.children.all plain && n.children.all borderKidOk &&
  uniq n.children "left" && uniq n.children "right" && uniq n.children "top" && uniq n.children "bottom" &&
  uniq n.children "diagonal"


theorem edgeKid_agrees (cf : Tok → Tok) (n : Node) (k : String) (hpl : n.children.all plain = true)
    (hok : n.children.all borderKidOk = true) (hk : isEdgeName (.elem k.toList [] []) = true) :
    edgeFacts (((n.children.find? (named k)).map (edgeG cf {})).getD {}) = cfEdge cf (edgeV n k) := by
  unfold edgeV
  rw [kid?_eq_find n k hpl]
  cases hf : n.children.find? (named k) with
  | none => rfl
  | some e =>
    have hn := List.find?_some hf
    have hv := List.all_eq_true.mp hok e (List.mem_of_find?_eq_some hf)
    obtain ⟨as, ks, rfl⟩ := named_elem k e hn
    have hedge : isEdgeName (.elem k.toList as ks) = true := hk
    simp only [borderKidOk, hedge, if_true] at hv
    obtain ⟨b, hb, hbv⟩ := edge_agrees cf _ hv
    simp only [Option.map_some, Option.getD_some, edgeG, hb, hbv]
    rfl

theorem boolAttr_xsd (as : List Attr) (k : String) :
    StyleCodec.boolAttr as k none = (getAttr as k).map xsdTrue := by
  unfold StyleCodec.boolAttr
  cases getAttr as k with
  | none => rfl
  | some v => simp [boolOf_xsdTrue]

/-- **border** -/
theorem border_agrees (cf : Tok → Tok) (n : Node) (h : validBorder n = true) :
    ∃ b, Borders.read cf n = some b ∧ borderFacts b = cfBorder cf (borderV n) := by
  simp only [validBorder, Bool.and_eq_true, uniq, decide_eq_true_eq] at h
  obtain ⟨⟨⟨⟨⟨⟨hpl, hok⟩, u1⟩, u2⟩, u3⟩, u4⟩, u5⟩ := h
  obtain ⟨b, hb⟩ := foldOpt_total (Borders.step cf) borderKidOk (fun a c hc => Borders.step_total cf a c hc) n.children
    { diagonalUp := StyleCodec.boolAttr n.attrs "diagonalUp" none, diagonalDown := StyleCodec.boolAttr n.attrs "diagonalDown" none } hok
  refine ⟨b, hb, ?_⟩
  have e1 := foldOpt_field (Borders.step cf) (·.left) (named "left") (edgeG cf)
    (fun x c x' hx => (Borders.step_spec cf x x' c hx).1) n.children _ b hb u1
  have e2 := foldOpt_field (Borders.step cf) (·.right) (named "right") (edgeG cf)
    (fun x c x' hx => (Borders.step_spec cf x x' c hx).2.1) n.children _ b hb u2
  have e3 := foldOpt_field (Borders.step cf) (·.top) (named "top") (edgeG cf)
    (fun x c x' hx => (Borders.step_spec cf x x' c hx).2.2.1) n.children _ b hb u3
  have e4 := foldOpt_field (Borders.step cf) (·.bottom) (named "bottom") (edgeG cf)
    (fun x c x' hx => (Borders.step_spec cf x x' c hx).2.2.2.1) n.children _ b hb u4
  have e5 := foldOpt_field (Borders.step cf) (·.diagonal) (named "diagonal") (edgeG cf)
    (fun x c x' hx => (Borders.step_spec cf x x' c hx).2.2.2.2.1) n.children _ b hb u5
  have e6 := foldOpt_const (Borders.step cf) (·.diagonalUp)
    (fun x c x' hx => (Borders.step_spec cf x x' c hx).2.2.2.2.2.1) n.children _ b hb
  have e7 := foldOpt_const (Borders.step cf) (·.diagonalDown)
    (fun x c x' hx => (Borders.step_spec cf x x' c hx).2.2.2.2.2.2) n.children _ b hb
  simp only [borderFacts, cfBorder, borderV, e1, e2, e3, e4, e5, e6, e7, boolAttr_xsd, attr?_eq_getAttr]
  have l1 := edgeKid_agrees cf n "left" hpl hok (by decide)
  have l2 := edgeKid_agrees cf n "right" hpl hok (by decide)
  have l3 := edgeKid_agrees cf n "top" hpl hok (by decide)
  have l4 := edgeKid_agrees cf n "bottom" hpl hok (by decide)
  have l5 := edgeKid_agrees cf n "diagonal" hpl hok (by decide)
  show BorderV.mk _ _ _ _ _ _ _ = BorderV.mk _ _ _ _ _ _ _
  congr 1

/-! ## alignment, protection, number format -/

def uintAttrOk (as : List Attr) (k : String) : Bool :=
  match getAttr as k with
  | some v => uintOk u32Bound v
  | none => true

theorem u32Attr_natOf (as : List Attr) (k : String) (h : uintAttrOk as k = true) :
    u32Attr as k none = some ((getAttr as k).bind natOf) := by
  unfold uintAttrOk at h
  unfold u32Attr
  cases hv : getAttr as k with
  | none => rfl
  | some v =>
    rw [hv] at h
    obtain ⟨n, hn, _⟩ := uintOk_parse _ _ h
    simp only [u32Of_uintOk v h, hn, Option.map_some, Option.bind_some]

/-- a valid `<alignment>`: `horizontal` / `vertical`, when present, words of their enumerations; `textRotation` an
    unsigned decimal that fits `u32` -/
def validAlign (n : Node) : Bool :=
  valIn HAlign.fromStr "horizontal" n.attrs && valIn VAlign.fromStr "vertical" n.attrs && uintAttrOk n.attrs "textRotation"

theorem enum_attr_opt {ε : Type} (fromStr : Tok → Option ε) (toStr : ε → String) (k : String) (as : List Attr)
    (hinv : ∀ v e, fromStr v = some e → (toStr e).toList = v) (h : valIn fromStr k as = true) :
    (enumAttr fromStr as k none).map (fun e => (toStr e).toList) = getAttr as k := by
  unfold valIn at h
  unfold enumAttr
  cases hv : getAttr as k with
  | none => rfl
  | some v =>
    rw [hv] at h
    obtain ⟨e, he⟩ := Option.isSome_iff_exists.mp h
    simp only [he, Option.map_some, hinv v e he]

/-- **alignment** -/
theorem align_agrees (n : Node) (h : validAlign n = true) :
    ∃ a, Alignment.read n = some a ∧ alignFacts a = alignV n := by
  simp only [validAlign, Bool.and_eq_true] at h
  obtain ⟨⟨h1, h2⟩, h3⟩ := h
  unfold Alignment.read
  rw [u32Attr_natOf _ _ h3]
  refine ⟨_, rfl, ?_⟩
  simp only [alignFacts, alignV, attr?_eq_getAttr, boolAttr_xsd,
    enum_attr_opt HAlign.fromStr HAlign.toStr "horizontal" n.attrs HAlign.fromStr_toStr h1,
    enum_attr_opt VAlign.fromStr VAlign.toStr "vertical" n.attrs VAlign.fromStr_toStr h2]

/-- **protection** (no hypothesis) -/
theorem prot_agrees (n : Node) : ∃ p, Protection.read n = some p ∧ protFacts p = protV n := by
  refine ⟨_, rfl, ?_⟩
  simp only [protFacts, protV, attr?_eq_getAttr, boolAttr_xsd]

/-- a valid `<numFmt>`: `numFmtId` an unsigned decimal that fits `u32`, `formatCode` present -/
def validNumFmt (n : Node) : Bool :=
  (match getAttr n.attrs "numFmtId" with | some v => uintOk u32Bound v | none => false) &&
  (getAttr n.attrs "formatCode").isSome

/-- **number format element**: what the library stores = the decoder's table entry -/
theorem numFmt_agrees (n : Node) (h : validNumFmt n = true) :
    ∃ v, NumFmt.read n = some v ∧
      (match (n.attr? "numFmtId".toList).bind natOf, n.attr? "formatCode".toList with
       | some i, some c => some (i, c)
       | _, _ => none) = some (v.id, v.code) := by
  simp only [validNumFmt, Bool.and_eq_true] at h
  obtain ⟨h1, h2⟩ := h
  obtain ⟨c, hc⟩ := Option.isSome_iff_exists.mp h2
  cases hi : getAttr n.attrs "numFmtId" with
  | none => rw [hi] at h1; cases h1
  | some iv =>
    rw [hi] at h1
    obtain ⟨i, hn, _⟩ := uintOk_parse _ _ h1
    refine ⟨⟨i, c⟩, ?_, ?_⟩
    · simp only [NumFmt.read, hi, hc, u32Of_uintOk iv h1, hn, Option.map_some]
    · simp only [attr?_eq_getAttr, hi, hc, Option.bind_some, hn]

end Umya.Reader.Lemmas
