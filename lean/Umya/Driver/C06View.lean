/-
  C06 driver, `view` / `page` / `prot` request families (harness side: `harness/src/c06_view.rs`).

  Request:  c06 <family> <kind> <spec of the model value x> <hex raw element of save 1 | -> <hex raw element of save 2 | ->
  Reply:    w=<ok|DIFF..>;r=<getter-level rendering of `read` applied to the REAL element of save 1>;w2=<ok|DIFF..>

  * `w`:  the real element (lexed by the independent XML reader `Umya.Spec.Xml.parse`) is tree-equal, up to
          attribute order, to `write x`;
  * `r`:  `read` of the model applied to the real element, rendered like the harness renders the getters of the
          reloaded workbook;
  * `w2`: the element of the second save (reload, save again) is tree-equal to `write (read (real element))`:
          ties which fields HAVE a value after reload (`norm`).
  The harness always answers `w=ok;r=..;w2=ok`; any other model reply is a disagreement.
-/
import Umya.Driver.Proto
import Umya.Model.AnnotProt
import Umya.Model.AnnotView
import Umya.Model.AnnotPage
namespace Umya.Driver.C06View
open Umya.Proto Umya.Dec Umya.Coord
open Umya.Spec.Xml (Node Attr)
open Umya.AnnotCodec Umya.AnnotProt Umya.AnnotView Umya.AnnotPage

/-- float tokens are Rust's `Display` texts -/
def Z : NumZ := ⟨Umya.Num.textFmt [], ['0']⟩

def hx (t : Text) : String := encodeStr t

/-! ## tree comparison up to attribute order -/

def sortAttrs (as : List Attr) : List Attr :=
  (as.toArray.qsort (fun a b => String.ofList a.name < String.ofList b.name)).toList

partial def treeEq : Node → Node → Bool
  | .text a, .text b => a == b
  | .elem n as ks, .elem n' as' ks' =>
    n == n' && sortAttrs as == sortAttrs as' && ks.length == ks'.length && (ks.zip ks').all (fun p => treeEq p.1 p.2)
  | _, _ => false

def treesEq (a b : List Node) : Bool := a.length == b.length && (a.zip b).all (fun p => treeEq p.1 p.2)

partial def showNode : Node → String
  | .text t => s!"T[{hx t}]"
  | .elem n as ks =>
    let a := " ".intercalate ((sortAttrs as).map fun x => s!"{String.ofList x.name}={hx x.value}")
    s!"<{String.ofList n} {a}>[{"".intercalate (ks.map showNode)}]"

def showNodes (l : List Node) : String := "".intercalate (l.map showNode)

/-- `-` = the element is absent -/
def parseRaw (s : String) : Option (List Node) :=
  if s = "-" then some []
  else (decodeStr s).bind fun t => (Umya.Spec.Xml.parse t).map ([·])

def cmp (real model : List Node) : String :=
  if treesEq real model then "ok" else s!"DIFF(model={showNodes model};real={showNodes real})"

/-! ## field decoding -/

def fOptText (s : String) : Option (Option Text) :=
  if s = "~" then some none
  else if s.startsWith "=" then (decodeStr (s.drop 1).toString).map some
  else none

def fOptNat (s : String) : Option (Option Nat) :=
  if s = "~" then some none else s.toNat?.map some

def fOptBool (s : String) : Option (Option Bool) :=
  if s = "~" then some none else if s = "0" then some (some false) else if s = "1" then some (some true) else none

def fOptNum (s : String) : Option (Option Text) :=
  if s = "~" then some none else some (some s.toList)

def fOptEnum {α} (fromStr : Text → Option α) (s : String) : Option (Option α) :=
  if s = "~" then some none else (fromStr s.toList).map some

def fCoord (s : String) : Option Coord :=
  match s.splitOn "." with
  | [c, r, lc, lr] =>
    match c.toNat?, r.toNat? with
    | some c, some r => some ⟨c, r, lc = "1", lr = "1"⟩
    | _, _ => none
  | _ => none

def fOptCoord (s : String) : Option (Option Coord) :=
  if s = "~" then some none else (fCoord s).map some

def fRanges (s : String) : Option (List Range) :=
  if s = "~" then some []
  else (s.splitOn "+").mapM fun p =>
    match Range.parse p.toList with
    | .ok ρ => some ρ
    | .panic => none

/-! ## rendering at getter level (must match `harness/src/c06_view.rs`) -/

def b01 (b : Bool) : String := if b then "1" else "0"
def gText (v : Option Text) : String := hx (v.getD [])
def gNat (v : Option Nat) : String := toString (v.getD 0)
def gBool (v : Option Bool) : String := b01 (v.getD false)
def gNum (v : Option Text) : String := String.ofList (v.getD ['0'])
def coordStr (c : AnnotView.Coord) : String := s!"{c.col}.{c.row}.{b01 c.lockCol}.{b01 c.lockRow}"

def showSheetProtection (x : SheetProtection) : String :=
  s!"{gText x.algorithmName},{gText x.hashValue},{gText x.saltValue},{gNat x.spinCount},{gText x.password}," ++
    "".intercalate (Flag.all.map fun f => gBool (x.flags f))

def showWorkbookProtection (x : WorkbookProtection) : String :=
  s!"{gText x.workbookAlgorithmName},{gText x.workbookHashValue},{gText x.workbookSaltValue},{gNat x.workbookSpinCount},{gText x.workbookPassword}," ++
  s!"{gText x.revisionsAlgorithmName},{gText x.revisionsHashValue},{gText x.revisionsSaltValue},{gNat x.revisionsSpinCount},{gText x.revisionsPassword}," ++
  s!"{gBool x.lockRevision}{gBool x.lockStructure}{gBool x.lockWindows}"

/-- `indexed` with its has-value state (the harness reads it from the `Debug` rendering), theme, rgb only
    when not indexed (`get_argb()` resolves an index through the palette), tint -/
def showTab : Option (Color Z) → String
  | none => "none"
  | some c =>
    let idx := match c.indexed with | some n => toString n | none => "~"
    let rgb := if c.indexed.isSome then "?" else gText c.argb
    s!"{idx},{gNat c.theme},{rgb},{gNum c.tint}"

def showPane (p : Pane Z) : String :=
  s!"{gNum p.xSplit},{gNum p.ySplit},{coordStr p.topLeft},{(p.activePane.getD PaneV.dflt).toStrS},{(p.state.getD PaneState.dflt).toStrS}"

def showSelection (s : Selection) : String :=
  let ac := match s.activeCell with | some c => coordStr c | none => "~"
  let sq := if s.sqref.isEmpty then "~" else "+".intercalate (s.sqref.map fun ρ => String.ofList ρ.print)
  s!"{(s.pane.getD PaneV.dflt).toStrS},{ac},{sq}"

def showView (v : SheetView Z) : String :=
  let pane := match v.pane with | some p => showPane p | none => "~"
  s!"{gBool v.showGridLines},{gBool v.tabSelected},{gNat v.workbookViewId},{(v.view.getD ViewV.dflt).toStrS}," ++
  s!"{gNat v.zoomScale},{gNat v.zoomScaleNormal},{gNat v.zoomScalePageLayoutView},{gNat v.zoomScaleSheetLayoutView},{gText v.topLeftCell}" ++
  s!";{pane}" ++ "".intercalate (v.selections.map fun s => ";" ++ showSelection s)

def showPageSetup (p : PageSetup Unit) : String :=
  s!"{gNat p.paperSize},{(p.orientation.getD Orientation.default).toStrS},{gNat p.scale},{gNat p.fitToHeight},{gNat p.fitToWidth}," ++
  s!"{gNat p.horizontalDpi},{gNat p.verticalDpi},{b01 p.objectData.isSome}"

def showMargins (m : PageMargins Z) : String :=
  s!"{gNum m.left},{gNum m.right},{gNum m.top},{gNum m.bottom},{gNum m.header},{gNum m.footer}"

/-! ## spec decoding -/

def parseSheetProtection (spec : String) : Option SheetProtection :=
  match spec.splitOn "," with
  | a :: h :: s :: n :: p :: fl =>
    if fl.length ≠ 16 then none else
    match fOptText a, fOptText h, fOptText s, fOptNat n, fOptText p, fl.mapM fOptBool with
    | some a, some h, some s, some n, some p, some fl =>
      some { algorithmName := a, hashValue := h, saltValue := s, spinCount := n, password := p,
             flags := fun f => (fl[Flag.all.idxOf f]?).getD none }
    | _, _, _, _, _, _ => none
  | _ => none

def parseWorkbookProtection (spec : String) : Option WorkbookProtection :=
  match spec.splitOn "," with
  | [a, h, s, n, p, a2, h2, s2, n2, p2, f1, f2, f3] =>
    match fOptText a, fOptText h, fOptText s, fOptNat n, fOptText p, fOptText a2, fOptText h2, fOptText s2, fOptNat n2,
        fOptText p2, fOptBool f1, fOptBool f2, fOptBool f3 with
    | some a, some h, some s, some n, some p, some a2, some h2, some s2, some n2, some p2, some f1, some f2, some f3 =>
      some ⟨a, h, s, n, p, a2, h2, s2, n2, p2, f1, f2, f3⟩
    | _, _, _, _, _, _, _, _, _, _, _, _, _ => none
  | _ => none

def parseTab (spec : String) : Option (Option (Color Z)) :=
  if spec = "none" then some none else
  match spec.splitOn "," with
  | [i, t, a, ti] =>
    match fOptNat i, fOptNat t, fOptText a, fOptNum ti with
    | some i, some t, some a, some ti => some (some { indexed := i, theme := t, argb := a, tint := ti })
    | _, _, _, _ => none
  | _ => none

def parsePane (spec : String) : Option (Option (Pane Z)) :=
  if spec = "~" then some none else
  match spec.splitOn "," with
  | [x, y, tl, ap, st] =>
    match fOptNum x, fOptNum y, fCoord tl, fOptEnum PaneV.fromStr ap, fOptEnum PaneState.fromStr st with
    | some x, some y, some tl, some ap, some st => some (some { xSplit := x, ySplit := y, topLeft := tl, activePane := ap, state := st })
    | _, _, _, _, _ => none
  | _ => none

def parseSelection (spec : String) : Option Selection :=
  match spec.splitOn "," with
  | [p, ac, sq] =>
    match fOptEnum PaneV.fromStr p, fOptCoord ac, fRanges sq with
    | some p, some ac, some sq => some ⟨p, ac, sq⟩
    | _, _, _ => none
  | _ => none

def parseView (spec : String) : Option (SheetView Z) :=
  match spec.splitOn ";" with
  | attrs :: pane :: sels =>
    match attrs.splitOn ",", parsePane pane, sels.mapM parseSelection with
    | [g, t, w, v, z1, z2, z3, z4, tl], some pane, some sels =>
      match fOptBool g, fOptBool t, fOptNat w, fOptEnum ViewV.fromStr v, fOptNat z1, fOptNat z2, fOptNat z3, fOptNat z4, fOptText tl with
      | some g, some t, some w, some v, some z1, some z2, some z3, some z4, some tl =>
        some { showGridLines := g, tabSelected := t, workbookViewId := w, pane := pane, view := v, zoomScale := z1,
               zoomScaleNormal := z2, zoomScalePageLayoutView := z3, zoomScaleSheetLayoutView := z4, topLeftCell := tl,
               selections := sels }
      | _, _, _, _, _, _, _, _, _ => none
    | _, _, _ => none
  | _ => none

def parseViews (spec : String) : Option (List (SheetView Z)) :=
  if spec = "~" then some [] else (spec.splitOn "|").mapM parseView

def parsePageSetup (spec : String) : Option (PageSetup Unit) :=
  match spec.splitOn "," with
  | [ps, o, sc, fh, fw, hd, vd, od] =>
    match fOptNat ps, fOptEnum Orientation.fromStr o, fOptNat sc, fOptNat fh, fOptNat fw, fOptNat hd, fOptNat vd with
    | some ps, some o, some sc, some fh, some fw, some hd, some vd =>
      some { paperSize := ps, orientation := o, scale := sc, fitToHeight := fh, fitToWidth := fw, horizontalDpi := hd,
             verticalDpi := vd, objectData := if od = "1" then some () else none }
    | _, _, _, _, _, _, _ => none
  | _ => none

def parseMargins (spec : String) : Option (PageMargins Z) :=
  match (spec.splitOn ",").mapM fOptNum with
  | some [l, r, t, b, h, f] => some ⟨l, r, t, b, h, f⟩
  | _ => none

/-- the relationship counter is below the abstraction: taken from the real element (`rId<k>`), 0 otherwise -/
def ridOf (real : List Node) : Nat :=
  match real with
  | n :: _ =>
    match getAttr n.attrs "r:id".toList with
    | some v => (String.ofList (v.drop 3)).toNat?.getD 0
    | none => 0
  | [] => 0

def head1 (l : List Node) : Option Node := l.head?

def reply (w r w2 : String) : String := s!"w={w};r={r};w2={w2}"

def handle (family : String) (args : List String) : String :=
  match family, args with
  | "prot", ["sheet", spec, raw1, raw2] =>
    match parseSheetProtection spec, parseRaw raw1, parseRaw raw2 with
    | some x, some [n1], some r2 =>
      match SheetProtection.read n1 with
      | some y => reply (cmp [n1] [x.write]) (showSheetProtection y) (cmp r2 [y.write])
      | none => "panic"
    | _, _, _ => "bad-op"
  | "prot", ["book", spec, raw1, raw2] =>
    match parseWorkbookProtection spec, parseRaw raw1, parseRaw raw2 with
    | some x, some [n1], some r2 =>
      match WorkbookProtection.read n1 with
      | some y => reply (cmp [n1] [x.write]) (showWorkbookProtection y) (cmp r2 [y.write])
      | none => "panic"
    | _, _, _ => "bad-op"
  | "prot", ["tab", spec, raw1, raw2] =>
    match parseTab spec, parseRaw raw1, parseRaw raw2 with
    | some x, some r1, some r2 =>
      match readSheetPr (Z := Z) r1 with
      | some y => reply (cmp r1 (writeSheetPr [] x)) (showTab y) (cmp r2 (writeSheetPr [] y))
      | none => "panic"
    | _, _, _ => "bad-op"
  | "prot", ["active", spec, raw1, raw2] =>
    match fOptNat spec, parseRaw raw1, parseRaw raw2 with
    | some a, some [n1], some r2 =>
      match WorkbookView.read n1 with
      | some y => reply (cmp [n1] [WorkbookView.write ⟨a⟩]) (toString y.active) (cmp r2 [y.write])
      | none => "panic"
    | _, _, _ => "bad-op"
  | "prot", ["dn", spec, raw1, raw2] =>
    match spec.splitOn ",", parseRaw raw1, parseRaw raw2 with
    | [nm, l, h], some [n1], some [n2] =>
      match fOptText nm, fOptNat l, fOptBool h with
      | some nm, some l, some h =>
        let d : DnAttrs := ⟨nm, l, h⟩
        match DnAttrs.read n1.attrs with
        | some y =>
          reply (cmp [n1] [elem "definedName" d.writeAttrs []]) s!"{gText y.name},{match y.localSheetId with | some n => toString n | none => "~"},{gBool y.hidden}"
            (cmp [n2] [elem "definedName" y.writeAttrs []])
        | none => "panic"
      | _, _, _ => "bad-op"
    | _, _, _ => "bad-op"
  | "view", ["sv", spec, raw1, raw2] =>
    match parseViews spec, parseRaw raw1, parseRaw raw2 with
    | some vs, some r1, some r2 =>
      match writeViews vs with
      | none => "panic"
      | some w =>
        let back : Option (List (SheetView Z)) := match r1 with
          | n :: _ => readViews n
          | [] => some []
        match back with
        | none => "panic"
        | some ys =>
          let w2 := match writeViews ys with | some k => cmp r2 k | none => "panic"
          reply (cmp r1 w) (if ys.isEmpty then "~" else "|".intercalate (ys.map showView)) w2
    | _, _, _ => "bad-op"
  | "page", ["setup", spec, raw1, raw2] =>
    match parsePageSetup spec, parseRaw raw1, parseRaw raw2 with
    | some p, some r1, some r2 =>
      match PageSetup.read (fun _ => some ()) r1 with
      | some y => reply (cmp r1 (p.write (ridOf r1)).1) (showPageSetup y) (cmp r2 (y.write (ridOf r2)).1)
      | none => "panic"
    | _, _, _ => "bad-op"
  | "page", ["margins", spec, raw1, raw2] =>
    match parseMargins spec, parseRaw raw1, parseRaw raw2 with
    | some m, some [n1], some r2 =>
      match PageMargins.read (Z := Z) n1 with
      | some y => reply (cmp [n1] [m.write]) (showMargins y) (cmp r2 [y.write])
      | none => "panic"
    | _, _, _ => "bad-op"
  | "page", ["print", spec, raw1, raw2] =>
    match spec.splitOn ",", parseRaw raw1, parseRaw raw2 with
    | [h, v], some r1, some r2 =>
      match fOptBool h, fOptBool v with
      | some h, some v =>
        let y := PrintOptions.read r1
        reply (cmp r1 (PrintOptions.write ⟨h, v⟩)) s!"{gBool y.horizontalCentered}{gBool y.verticalCentered}" (cmp r2 y.write)
      | _, _ => "bad-op"
    | _, _, _ => "bad-op"
  | "page", ["hf", spec, raw1, raw2] =>
    match spec.splitOn ",", parseRaw raw1, parseRaw raw2 with
    | [h, f], some r1, some r2 =>
      match fOptText h, fOptText f with
      | some h, some f =>
        let y := HeaderFooter.read r1
        reply (cmp r1 (HeaderFooter.write ⟨h, f⟩)) s!"{hx y.headerText},{hx y.footerText}" (cmp r2 y.write)
      | _, _ => "bad-op"
    | _, _, _ => "bad-op"
  | _, _ => "bad-op"

end Umya.Driver.C06View
