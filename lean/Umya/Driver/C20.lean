/-
  Line-protocol handler for C20 (CSV export).  Stateful: the handler threads the model workbook.
  See harness/src/c20.rs for the protocol.
-/
import Umya.Driver.Proto
import Umya.Model.Csv
import Umya.Spec.Rfc4180
import Umya.Model.CsvWrap
import Umya.Spec.CsvWrap
namespace Umya.Driver.C20
open Umya.Csv Umya.Proto

structure State where
  book : Book := Book.new

def view (b : Book) : String := s!"ok {b.active} {b.sheets.length}"

def parseEnc : String → Option Enc
  | "utf_8" => some .utf8
  | "shift_jis" => some .shiftJis
  | "koi_8_u" => some .koi8u
  | "koi_8_r" => some .koi8r
  | "iso_8859_8_i" => some .iso88598i
  | "gbk" => some .gbk
  | "euc_kr" => some .eucKr
  | "big_5" => some .big5
  | "utf_16_le" => some .utf16le
  | "utf_16_be" => some .utf16be
  | _ => none

def isUnicodeEnc : Enc → Bool
  | .utf8 | .utf16le | .utf16be => true
  | _ => false

def hexOfBytes (b : List UInt8) : String :=
  if b.isEmpty then "-" else
  String.ofList (b.flatMap (fun x => [hexDigit (x.toNat / 16), hexDigit (x.toNat % 16)]))

/-- In the driver the legacy code pages are instantiated by UTF-8 (never looked at: for those
    encodings the reply carries the text, compared with the harness' decoding of the real bytes). -/
def legacyStub (_ : Enc) (t : Text) : List UInt8 := encodeUtf8 t

def gridStr (g : List Umya.Rfc4180.Record) : String :=
  if g.isEmpty then "ok 0" else
  s!"ok {g.length} " ++ ";".intercalate (g.map (fun r => ",".intercalate (r.map encodeStr)))

def handle (st : State) (args : List String) : State × String :=
  match args with
  | ["reset"] => ({ book := Book.new }, view Book.new)
  | ["newsheet"] => let b := st.book.newSheet; ({ book := b }, view b)
  | ["rmsheet", i] =>
    match i.toNat? with
    | some i => (match st.book.removeSheet i with
                 | some b => ({ book := b }, view b)
                 | none => (st, "err"))
    | none => (st, "bad-op")
  | ["active", i] =>
    match i.toNat? with
    | some i => let b := st.book.setActive i; ({ book := b }, view b)
    | none => (st, "bad-op")
  | ["set", s, r, c, h] =>
    match s.toNat?, r.toNat?, c.toNat?, decodeStr h with
    | some s, some r, some c, some v =>
      (match st.book.setCell s r c v with
       | some b => ({ book := b }, "ok")
       | none => (st, "nosheet"))
    | _, _, _, _ => (st, "bad-op")
  | ["del", s, r, c] =>
    match s.toNat?, r.toNat?, c.toNat? with
    | some s, some r, some c =>
      (match st.book.delCell s r c with
       | some b => ({ book := b }, "ok")
       | none => (st, "nosheet"))
    | _, _, _ => (st, "bad-op")
  | [op, enc, trim, wrap, flag] =>
    if op = "csv" ∨ op = "csvfile" then
      match parseEnc enc, decodeStr wrap with
      | some e, some w =>
        if flag = "u" then (st, "unmodelled")
        else
          let wrapOpt : Option (Option Char) :=
            match w with
            | [] => some none
            | [q] => some (some q)
            | _ => none
          match wrapOpt with
          | none =>
            -- a wrap string of two or more characters: the general model (Umya/Model/CsvWrap.lean)
            (match st.book.activeSheet with
             | some g =>
               let t := csvTextW g (trim == "1") w
               if isUnicodeEnc e then (st, "ok b:" ++ hexOfBytes (encodeWith legacyStub e t))
               else (st, "ok t:" ++ encodeStr t)
             | none => (st, "panic"))
          | some wo =>
            let o : Opts := ⟨e, trim == "1", wo⟩
            if isUnicodeEnc e then
              match writeWriter legacyStub st.book o with
              | some b => (st, "ok b:" ++ hexOfBytes b)
              | none => (st, "panic")
            else
              match st.book.activeSheet with
              | some g => (st, "ok t:" ++ encodeStr (csvText g o))
              | none => (st, "panic")
      | _, _ => (st, "bad-op")
    else (st, "bad-op")
  | ["trim", h] =>
    match decodeStr h with
    | some v => (st, encodeStr (trim v))
    | none => (st, "bad-op")
  | ["parsew", w, t] =>
    match decodeStr w, decodeStr t with
    | some w, some t =>
      (match Umya.Rfc4180.parseW w t with
       | some g => (st, gridStr g)
       | none => (st, "err"))
    | _, _ => (st, "bad-op")
  | ["parse", d, q, t] =>
    match decodeStr d, decodeStr q, decodeStr t with
    | some [d], some [q], some t =>
      (match Umya.Rfc4180.parse d q t with
       | some g => (st, gridStr g)
       | none => (st, "err"))
    | _, _, _ => (st, "bad-op")
  | _ => (st, "bad-op")

end Umya.Driver.C20
