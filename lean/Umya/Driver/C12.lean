import Umya.Driver.Proto
import Umya.Model.SharedStrings
namespace Umya.Driver.C12
open Umya.Sst

def splitList (s : String) (sep : String) : List String := if s.isEmpty then [] else s.splitOn sep

def parseSheet (s : String) : Option SheetS :=
  if s.startsWith "c:" then some (.cells ((splitList (s.drop 2).toString ",").map String.toList))
  else if s.startsWith "r:" then
    match (splitList (s.drop 2).toString ",").mapM String.toNat? with
    | some l => some (.raw l)
    | none => none
  else none

/-- `L=<loaded>;S=<sheet>|<sheet>` -/
def parseBook (d : String) : Option BookS :=
  match d.splitOn ";S=" with
  | [l, s] =>
    if l.startsWith "L=" then
      let loaded := (splitList (l.drop 2).toString ",").map String.toList
      match (s.splitOn "|").mapM parseSheet with
      | some sheets => some { sheets := sheets, loaded := loaded }
      | none => none
    else none
  | _ => none

def render (b : BookS) : String :=
  let r := save b
  let sst := ",".intercalate (r.table.map String.ofList)
  let idx := "|".intercalate (r.sheetIdx.map (fun l => ",".intercalate (l.map toString)))
  -- an empty table is not written at all (no sharedStrings part, hence no count attributes)
  if r.table.isEmpty then s!"sst=;count=-;unique=-;idx={idx}"
  else s!"sst={sst};count={r.count};unique={r.table.length};idx={idx}"

def handle (args : List String) : String :=
  match args with
  | ["reset"] => "ok"
  | op :: rest =>
    if op = "save" ∨ op = "reload" ∨ op = "lazyreload" then
      match rest with
      | [_w, d] =>
        (match parseBook d with
         | some b => render b
         | none => "unmodelled")   -- a raw sheet whose strings are not in the loaded table cannot be described
      | _ => "bad-op"
    -- edits change the implementation's objects only; the model sees the resulting value at save time
    else if op = "set" ∨ op = "del" ∨ op = "remrow" ∨ op = "addsheet" ∨ op = "rmsheet" ∨ op = "clone" ∨ op = "touch" ∨ op = "diesave" then "ok"
    else "bad-op"
  | _ => "bad-op"

end Umya.Driver.C12
