import Umya.Driver.Proto
import Umya.Model.XmlEsc
namespace Umya.Driver.C04
open Umya.XmlEsc Umya.Proto

/-- `attr <stored> <raw>`: the model checks that the raw attribute text in the file is what
    `attrWrite` produces for the stored text and answers with what `attrRead` makes of it -/
def handle (args : List String) : String :=
  match args with
  | "reset" :: _ => "ok"
  | ["attr", stored, raw] =>
    match decodeStr stored, decodeStr raw with
    | some s, some r =>
      if attrWrite s = r then encodeStr (attrRead r) else "written-differently:" ++ encodeStr (attrWrite s)
    | _, _ => "bad-op"
  | _ => "bad-op"

end Umya.Driver.C04
