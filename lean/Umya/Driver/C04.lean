import Umya.Driver.Proto
import Umya.Driver.C06View
import Umya.Model.XmlEsc
import Umya.Model.StyleCodec
import Umya.Model.CellXml
import Umya.Model.CellEdit
namespace Umya.Driver.C04
open Umya.XmlEsc Umya.Proto
open Umya.AnnotCodec Umya.AnnotProt Umya.AnnotView Umya.AnnotPage
open Umya.Driver.C06View (Z hx fOptText fOptNat fOptBool fOptNum parseTab parseViews parseMargins coordStr)

/-! ## `norm` requests: the model's normal form of a family value, in the spec syntax of `Umya/Driver/C06View.lean`

  `c04 norm <family> <spec of the original's value>` → the spec of `norm` of it.  The harness answers with the spec of
  the value the implementation holds after one save + load.  The normal forms are the ones of
  `Umya/Thm/C04Fix.lean` (`normSheet` / `normBook` field by field): `HeaderFooter.norm`, `PageMargins.norm`,
  `normTab`, `SheetView.norm` (with `Pane.norm`), `Font.norm` (flags and colour), `normalize` (cells), `Row.norm`, `Col.norm`. -/

def sOptText : Option Text → String
  | none => "~"
  | some t => "=" ++ hx t
def sOptNat : Option Nat → String
  | none => "~"
  | some n => toString n
def sOptBool : Option Bool → String
  | none => "~"
  | some true => "1"
  | some false => "0"
def sOptNum : Option Text → String
  | none => "~"
  | some t => String.ofList t

def specTab : Option (Color Z) → String
  | none => "none"
  | some c => s!"{sOptNat c.indexed},{sOptNat c.theme},{sOptText c.argb},{sOptNum c.tint}"

def specPane (p : Pane Z) : String :=
  let ap := match p.activePane with | some v => v.toStrS | none => "~"
  let st := match p.state with | some v => v.toStrS | none => "~"
  s!"{sOptNum p.xSplit},{sOptNum p.ySplit},{coordStr p.topLeft},{ap},{st}"

def specSelection (s : Selection) : String :=
  let pn := match s.pane with | some v => v.toStrS | none => "~"
  let ac := match s.activeCell with | some c => coordStr c | none => "~"
  let sq := if s.sqref.isEmpty then "~" else "+".intercalate (s.sqref.map fun ρ => String.ofList ρ.print)
  s!"{pn},{ac},{sq}"

def specView (v : SheetView Z) : String :=
  let vw := match v.view with | some x => x.toStrS | none => "~"
  let pane := match v.pane with | some p => specPane p | none => "~"
  s!"{sOptBool v.showGridLines},{sOptBool v.tabSelected},{sOptNat v.workbookViewId},{vw},{sOptNat v.zoomScale}," ++
  s!"{sOptNat v.zoomScaleNormal},{sOptNat v.zoomScalePageLayoutView},{sOptNat v.zoomScaleSheetLayoutView},{sOptText v.topLeftCell}" ++
  s!";{pane}" ++ "".intercalate (v.selections.map fun s => ";" ++ specSelection s)

def specViews (vs : List (SheetView Z)) : String := if vs.isEmpty then "~" else "|".intercalate (vs.map specView)

def specMargins (m : PageMargins Z) : String :=
  s!"{sOptNum m.left},{sOptNum m.right},{sOptNum m.top},{sOptNum m.bottom},{sOptNum m.header},{sOptNum m.footer}"

/-- bold, italic and the colour of a font (the part of `Font.norm` that is not the identity) -/
def normFont (spec : String) : String :=
  match spec.splitOn "," with
  | [b, i, ix, th, a, ti] =>
    match fOptBool b, fOptBool i, fOptNat ix, fOptNat th, fOptText a, fOptNum ti with
    | some b, some i, some ix, some th, some a, some ti =>
      let f : Umya.StyleCodec.Font := { bold := b, italic := i, color := { indexed := ix, theme := th, argb := a, tint := ti } }
      let g := f.norm
      s!"{sOptBool g.bold},{sOptBool g.italic},{sOptNat g.color.indexed},{sOptNat g.color.theme},{sOptText g.color.argb},{sOptNum g.color.tint}"
    | _, _, _, _, _, _ => "bad-op"
  | _ => "bad-op"

def F : Umya.Num.NumFmt := Umya.Num.textFmt []

def parseCell (s : String) : Option (Umya.CellXml.Cell F.Num) :=
  match s.splitOn "." with
  | [c, r, v, st] =>
    match c.toNat?, r.toNat? with
    | some c, some r =>
      some { col := c, row := r, raw := if v = "E" then .empty else .str ['x'], formula := none, styled := st = "s" }
    | _, _ => none
  | _ => none

/-- the cells of one sheet (`normalize` on a one-sheet workbook): the coordinates that are kept -/
def normCells (spec : String) : String :=
  let cells : Option (List (Umya.CellXml.Cell F.Num)) := if spec = "~" then some [] else (spec.splitOn ",").mapM parseCell
  match cells with
  | none => "bad-op"
  | some cs =>
    match Umya.CellXml.normalize F [cs] with
    | [kept] => if kept.isEmpty then "~" else ",".intercalate (kept.map fun c => s!"{c.col}.{c.row}")
    | _ => "bad-op"

/-- a row's own attributes: number, height, descent, thickBot, customHeight, hidden (`Row.norm`) -/
def normRow (spec : String) : String :=
  match spec.splitOn "," with
  | [n, h, d, tb, ch, hid] =>
    match n.toNat?, fOptNum h, fOptNum d, fOptBool tb, fOptBool ch, fOptBool hid with
    | some n, some h, some d, some tb, some ch, some hid =>
      let r : Umya.StyleCodec.Row := { num := n, height := h, descent := d, thickBot := tb, customHeight := ch, hidden := hid }
      let g := r.norm
      s!"{g.num},{sOptNum g.height},{sOptNum g.descent},{sOptBool g.thickBot},{sOptBool g.customHeight},{sOptBool g.hidden}"
    | _, _, _, _, _, _ => "bad-op"
  | _ => "bad-op"

/-- a column: width, hidden, bestFit (`Col.norm`) -/
def normCol (spec : String) : String :=
  match spec.splitOn "," with
  | [w, hid, bf] =>
    match fOptBool hid, fOptBool bf with
    | some hid, some bf =>
      let c : Umya.StyleCodec.Col := { width := w.toList, hidden := hid, bestFit := bf }
      let g := c.norm
      s!"{String.ofList g.width},{sOptBool g.hidden},{sOptBool g.bestFit}"
    | _, _ => "bad-op"
  | _ => "bad-op"

def norm (family spec : String) : String :=
  match family with
  | "hf" =>
    match spec.splitOn "," with
    | [h, f] =>
      match fOptText h, fOptText f with
      | some h, some f => let y := HeaderFooter.norm ⟨h, f⟩; s!"{sOptText y.oddHeader},{sOptText y.oddFooter}"
      | _, _ => "bad-op"
    | _ => "bad-op"
  | "margins" => match parseMargins spec with | some m => specMargins m.norm | none => "bad-op"
  | "tab" => match parseTab spec with | some t => specTab (normTab t) | none => "bad-op"
  | "views" => match parseViews spec with | some vs => specViews (vs.map SheetView.norm) | none => "bad-op"
  | "font" => normFont spec
  | "cells" => normCells spec
  | "row" => normRow spec
  | "col" => normCol spec
  | _ => "bad-op"

def parseCells (spec : String) : Option (List (Umya.CellXml.Cell F.Num)) :=
  if spec = "~" then some [] else (spec.splitOn ",").mapM parseCell

def showKept (kept : List (Umya.CellXml.Cell F.Num)) : String :=
  if kept.isEmpty then "~" else ",".intercalate (kept.map fun c => s!"{c.col}.{c.row}")

def parseCR (s : String) : Option (Nat × Nat) :=
  match s.splitOn "." with
  | [c, r] => match c.toNat?, r.toNat? with | some c, some r => some (c, r) | _, _ => none
  | _ => none

def create5 (spec cr n rows : String) : String :=
  let rws : Option (List Nat) := if rows = "~" then some [] else (rows.splitOn ",").mapM (·.toNat?)
  match parseCells spec, parseCR cr, n.toNat?, rws with
  | some cs, some (c, r), some n, some rws =>
    let cell : Umya.CellXml.Cell F.Num := { col := c, row := r, raw := .str ['x'] }
    match Umya.CellXml.lookup F cs (r, c) with
    | some _ => "not-a-creation"
    | none =>
      let kept := Umya.CellXml.normS F (Umya.CellXml.createSheet F n cell cs)
      let rs := (Umya.CellXml.ensureRow r 0 (rws.map fun k => ({ num := k }, 0))).map (·.1.num)
      let sorted := rs.toArray.qsort (· < ·) |>.toList
      showKept kept ++ " " ++ ",".intercalate (sorted.map toString)
  | _, _, _, _ => "bad-op"

/-- `edit create <cells> <col>.<row> <n> <rows> [<cols>]`: the cell list of the sheet before the edit, the new cell's position,
    its place in the list, the row numbers that have a record → the kept coordinates after one save + load of
    `createSheet`, and the row numbers with a record after `ensureRow` (sorted).
    `edit delete <cells> <col>.<row>` → the kept coordinates of `deleteSheet`;
    `edit blank <cells> <col>.<row>` → the kept coordinates of `editSheet … setBlank`. -/
def edit (args : List String) : String :=
  match args with
  | ["create", spec, cr, n, rows] => create5 spec cr n rows
  | ["create", spec, cr, n, rows, cols] =>
    -- the same with the column numbers that have a record: third field = the column numbers after `ensureCol`
    let cls : Option (List Nat) := if cols = "~" then some [] else (cols.splitOn ",").mapM (·.toNat?)
    match parseCR cr, cls with
    | some (c, _), some cls =>
      let first := create5 spec cr n rows
      if first = "bad-op" ∨ first = "not-a-creation" then first
      else
        let ks := (Umya.CellXml.ensureCol c 0 (cls.map fun k => ({ width := Umya.StyleCodec.defaultWidth }, k, k, 0))).map (·.2.1)
        let sorted := ks.toArray.qsort (· < ·) |>.toList
        first ++ " " ++ ",".intercalate (sorted.map toString)
    | _, _ => "bad-op"
  | ["delete", spec, cr] =>
    match parseCells spec, parseCR cr with
    | some cs, some (c, r) => showKept (Umya.CellXml.normS F (Umya.CellXml.deleteSheet F (r, c) cs))
    | _, _ => "bad-op"
  | ["blank", spec, cr] =>
    match parseCells spec, parseCR cr with
    | some cs, some (c, r) =>
      -- `editSheet F (r, c) (Cell.setBlank F)` of `Umya/Lemmas/ResaveCells.lean`, written out
      showKept (Umya.CellXml.normS F (cs.map fun x => if (x.row, x.col) = (r, c) then Umya.CellXml.Cell.setBlank F x else x))
    | _, _ => "bad-op"
  | _ => "bad-op"

/-- `attr <stored> <raw>`: the model checks that the raw attribute text in the file is what
    `attrWrite` produces for the stored text and answers with what `attrRead` makes of it -/
def handle (args : List String) : String :=
  match args with
  | "reset" :: _ => "ok"
  | ["attr", stored, raw] =>
    match decodeStr stored, decodeStr raw with
    | some s, some r =>
      if attrWrite s = r then encodeStr (attrRead r) else "written-differently:" ++ encodeStr (attrWrite s)
    | _, _ => "bad-op"
  | ["norm", family, spec] => norm family spec
  | "edit" :: rest => edit rest
  | _ => "bad-op"

end Umya.Driver.C04
