/-
  Line-protocol handler for C01 (stateful: a case starts with `c01 reset <sheets>`).

    c01 reset <n>                                   -> ok
    c01 op <sheet> <col> <row> <name> [arg] [num=<display text>]
                                                    -> <kind> <value> <formula> <styled> <runs>
    c01 dump                                        -> every sheet's cells, sorted by (row, column)
    c01 save <std|light>                            -> cells=<facts> sst=<facts>        (model writer)
    c01 load <std|light> cells=<facts> sst=<facts>  -> dump of what the model reader makes of these facts
    c01 rawload cells=<facts> sst=<facts> hints=<…> -> the model reader on hand-made facts (same reply format as load)
    c01 nums <n> <seed>                             -> ok   (implementation-only oracle: f64 round trip)
    c01 chars <std|light> drop=<s:col:row,…|~> <sst part hex|~> <sheet part hex>|…
                                                    -> render=same xml <dump of readBookChars on these characters>
                                                       (character-level leg, `Umya/Driver/C01Chars.lean`)
    c01 charsorig <sst part hex|~> <sheet part hex>|… -> nonxml-parts=<k> rejected=<k>

  Numbers are `Display` texts; the optional `num=` hint carries what Rust's `parse::<f64>()` + `Display`
  make of a text that the model's `floatSyntax` accepts.  A value stored with `set_value_lazy` (op `l`) is typed
  only when the workbook is saved (`Cell::write_to`, fix 6), so the hints of `l` ops are kept in the state until the
  next `reset` and handed to the model writer.  The last field of an observation is the run list of a rich text,
  `=<text>` for an unresolved lazy value (its stored text; `get_value` shows nothing), `~` otherwise.
-/
import Umya.Driver.Proto
import Umya.Model.CellXml
import Umya.Driver.C01Chars
namespace Umya.Driver.C01
open Umya.Proto Umya.CellXml Umya.Num Umya.Xml

abbrev CellT := Cell (List Char)

structure St where
  sheets : List (List CellT) := []
  unmodelled : Bool := false   -- a structural edit happened in this workbook: not followed by this model
  hints : List (List Char × List Char) := []   -- `num=` hints of the `l` ops since the last reset (used by `save`)

def keyLt (a b : Nat × Nat) : Bool := a.1 < b.1 || (a.1 == b.1 && a.2 < b.2)

/-- `get_cell_mut((col,row))` followed by an update; the sheet is kept in the order of
    `get_cell_collection_sorted` (row, then column), which by C10 is the order of emission -/
def modifyCell (sheet : List CellT) (col row : Nat) (f : CellT → CellT) : List CellT :=
  match sheet with
  | [] => [f { col := col, row := row }]
  | c :: cs =>
    if c.row = row ∧ c.col = col then f c :: cs
    else if keyLt (row, col) (c.row, c.col) then f { col := col, row := row } :: c :: cs
    else c :: modifyCell cs col row f

def modifySheet (sheets : List (List CellT)) (i : Nat) (f : List CellT → List CellT) : Option (List (List CellT)) :=
  match sheets[i]? with
  | some s => some (sheets.set i (f s))
  | none => none

/-! ### rendering -/

def optText : Option (List Char) → String
  | none => "~"
  | some s => encodeStr s

def optFont : Option Nat → String
  | none => "~"
  | some n => toString n

def runsStr (rs : List Run) : String :=
  if rs.isEmpty then "-" else "+".intercalate (rs.map (fun r => s!"{optFont r.font}:{encodeStr r.text}"))

def kindStr : RawValue (List Char) → String
  | .empty => "z" | .str _ => "s" | .rich _ => "r" | .num _ => "n" | .bool _ => "b" | .err _ => "e" | .lazy _ => "l"

/-- last field of an observation: the runs of a rich text, `=<text>` for an unresolved lazy value -/
def extraStr : RawValue (List Char) → String
  | .rich rs => runsStr rs
  | .lazy s => "=" ++ encodeStr s
  | _ => "~"

def obsStr (c : CellT) : String :=
  let v : List Char := valueText (textFmt []) c.raw
  let runs := extraStr c.raw
  s!"{kindStr c.raw} {encodeStr v} {optText c.formula} {if c.styled then 1 else 0} {runs}"

def cellDump (c : CellT) : String :=
  let v : List Char := valueText (textFmt []) c.raw
  let runs := extraStr c.raw
  s!"{c.col},{c.row},{kindStr c.raw},{encodeStr v},{optText c.formula},{if c.styled then 1 else 0},{runs}"

def dumpStr (sheets : List (List CellT)) : String :=
  "|".intercalate (sheets.map (fun s => ";".intercalate (s.map cellDump)))

def txStr (t : TX) : String := s!"{if t.preserve then 1 else 0}:{encodeStr t.raw}"

def cellXStr (x : CellX) : String :=
  let t := if x.t.isEmpty then "~" else String.ofList x.t
  let v := match x.v with | .absent => "~" | .emptyTag => "/" | .text r => encodeStr r
  s!"{String.ofList x.ref},{t},{if x.styled then 1 else 0},{optText x.f},{v}"

def siXStr (x : SiX) : String :=
  let t := match x.t with | none => "~" | some t => txStr t
  let rs := if x.runs.isEmpty then "~" else "+".intercalate (x.runs.map (fun r => s!"{optFont r.font}:{txStr r.t}"))
  s!"{t}/{rs}"

def bookXStr (b : BookX) : String :=
  let cells := "|".intercalate (b.sheets.map (fun s => ";".intercalate (s.map cellXStr)))
  let sst := if b.sst.isEmpty then "~" else ";".intercalate (b.sst.map siXStr)
  s!"cells={cells} sst={sst}"

/-! ### parsing -/

def splitList (s : String) (sep : String) : List String := if s.isEmpty then [] else s.splitOn sep

def dropPrefix? (pre s : String) : Option String :=
  if s.startsWith pre then some (String.ofList (s.toList.drop pre.length)) else none

def parseOptText (s : String) : Option (Option (List Char)) :=
  if s = "~" then some none else (decodeStr s).map some

def parseFont (s : String) : Option (Option Nat) :=
  if s = "~" then some none else s.toNat?.map some

def parseRuns (s : String) : Option (List Run) :=
  if s = "-" then some []
  else (s.splitOn "+").mapM (fun r =>
    match r.splitOn ":" with
    | [f, t] => match parseFont f, decodeStr t with
      | some f, some t => some { text := t, font := f }
      | _, _ => none
    | _ => none)

def parseTX (p t : String) : Option TX :=
  match decodeStr t with
  | some raw => if p = "1" then some { preserve := true, raw := raw } else if p = "0" then some { preserve := false, raw := raw } else none
  | none => none

def parseCellX (s : String) : Option CellX :=
  match s.splitOn "," with
  | ref :: t :: st :: f :: v :: more =>
    let is : Option (Option TX) := match more with
      | [] => some none
      | [i] => if i = "~" then some none else
        (match i.splitOn ":" with
         | [p, h] => (parseTX p h).map some
         | _ => none)
      | _ => none
    let tt : List Char := if t = "~" then [] else t.toList
    match parseOptText f with
    | none => none
    | some f =>
      let v : Option VNode :=
        if v = "~" then some .absent else if v = "/" then some .emptyTag else (decodeStr v).map VNode.text
      match v with
      | none => none
      | some v =>
        match is with
        | some is => some { ref := ref.toList, t := tt, styled := st = "1", f := f, v := v, is := is }
        | none => none
  | _ => none

def parseSiX (s : String) : Option SiX :=
  match s.splitOn "/" with
  | [t, rs] =>
    let t : Option (Option TX) :=
      if t = "~" then some none else
      match t.splitOn ":" with
      | [p, h] => (parseTX p h).map some
      | _ => none
    let rs : Option (List RunX) :=
      if rs = "~" then some [] else
      (rs.splitOn "+").mapM (fun r =>
        match r.splitOn ":" with
        | [f, p, h] => match parseFont f, parseTX p h with
          | some f, some t => some { font := f, t := t }
          | _, _ => none
        | _ => none)
    match t, rs with
    | some t, some rs => some { t := t, runs := rs }
    | _, _ => none
  | _ => none

def parseBookX (cells sst : String) : Option BookX :=
  match dropPrefix? "cells=" cells, dropPrefix? "sst=" sst with
  | some c, some s =>
    let sheets := (c.splitOn "|").mapM (fun sh => (splitList sh ";").mapM parseCellX)
    let sis := if s = "~" then some [] else (s.splitOn ";").mapM parseSiX
    match sheets, sis with
    | some sheets, some sis => some { sheets := sheets, sst := sis }
    | _, _ => none
  | _, _ => none

/-- trailing `num=<text>` hint of an `op` request -/
def hintOf (arg : List Char) (rest : List String) : List (List Char × List Char) :=
  match rest with
  | [h] => match dropPrefix? "num=" h with
    | some t => [(arg, t.toList)]
    | none => []
  | _ => []

/-- `hints=<hex text>:<display text>,…` (or `hints=~`): what Rust's `parse::<f64>()` + `Display` make of texts
    that are not already in `Display` form -/
def parseHints (s : String) : List (List Char × List Char) :=
  match dropPrefix? "hints=" s with
  | none => []
  | some h =>
    if h = "~" then [] else
    (h.splitOn ",").filterMap (fun kv =>
      match kv.splitOn ":" with
      | [k, v] => (decodeStr k).map (fun k => (k, v.toList))
      | _ => none)

/-! ### the handler -/

def applyOp (name : String) (args : List String) (c : CellT) : Option CellT :=
  match name, args with
  | "v", a :: rest => (decodeStr a).map (fun s => Cell.setValue (textFmt (hintOf s rest)) c s)
  | "e", a :: rest => (decodeStr a).map (fun s => Cell.setError (textFmt (hintOf s rest)) c s)
  | "d", a :: rest => (decodeStr a).map (fun s => Cell.setError (textFmt (hintOf s rest)) c s)
  | "s", [a] => (decodeStr a).map (fun s => Cell.setValueString (textFmt []) c s)
  | "n", [a] => some (Cell.setValueNumber (textFmt []) c a.toList)
  | "b", [a] => some (Cell.setValueBool (textFmt []) c (a = "1"))
  | "r", [a] => (parseRuns a).map (fun rs => Cell.setRichText (textFmt []) c rs)
  | "f", [a] => (decodeStr a).map (fun s => Cell.setFormula (textFmt []) c s)
  | "k", [] => some (Cell.setBlank (textFmt []) c)
  | "l", a :: _ => (decodeStr a).map (fun s => Cell.setValueLazy (textFmt []) c s)
  | "y", [] => some (Cell.setStyled (textFmt []) c)
  | _, _ => none

def findCell (sheet : List CellT) (col row : Nat) : Option CellT := sheet.find? (fun c => c.row = row ∧ c.col = col)

def handle (st : St) (args : List String) : St × String :=
  let F := textFmt []
  match args with
  | "shift" :: _ => ({ st with unmodelled := true }, "unmodelled")
  | _ =>
  if st.unmodelled ∧ args.head? ≠ some "reset" then (st, "unmodelled") else
  match args with
  | ["reset", n] =>
    match n.toNat? with
    | some k => ({ sheets := List.replicate k [], hints := [] }, "ok")
    | none => (st, "bad-op")
  | "op" :: s :: col :: row :: name :: rest =>
    match s.toNat?, col.toNat?, row.toNat? with
    | some s, some col, some row =>
      (match st.sheets[s]? with
       | none => (st, "bad-op")
       | some sheet =>
         let cur : CellT := match findCell sheet col row with | some c => c | none => { col := col, row := row }
         match applyOp name rest cur with
         | none => (st, "bad-op")
         | some c' =>
           let sheet' := modifyCell sheet col row (fun _ => c')
           let hs := if name = "l" then
               (match rest with
                | a :: more => (match decodeStr a with | some t => hintOf t more | none => [])
                | [] => [])
             else []
           ({ st with sheets := st.sheets.set s sheet', hints := hs ++ st.hints }, obsStr c'))
    | _, _, _ => (st, "bad-op")
  | ["dump"] => (st, dumpStr st.sheets)
  | ["save", w] =>
    if w = "std" ∨ w = "light" then
      match writeBook (textFmt st.hints) (w = "light") st.sheets with
      | some b => (st, bookXStr b)
      | none => (st, "panic")
    else (st, "bad-op")
  | ["load", _w, cells, sst] =>
    match parseBookX cells sst with
    | none => (st, "bad-op")
    | some b =>
      match readBook F b with
      | some sheets => (st, dumpStr sheets)
      | none => (st, "panic")
  | ["rawload", cells, sst, hints] =>
    match parseBookX cells sst with
    | none => (st, "bad-op")
    | some b =>
      match readBook (textFmt (parseHints hints)) b with
      | some sheets => (st, dumpStr sheets)
      | none => (st, "panic")
  | ["nums", _, _] => (st, "ok")
  | ["chars", _w, drop, sst, parts] => (st, Umya.Driver.C01Chars.chars dumpStr st.hints st.sheets drop sst parts)
  | ["charsorig", sst, parts] => (st, Umya.Driver.C01Chars.charsOrig sst parts)
  | _ => (st, "bad-op")

end Umya.Driver.C01
