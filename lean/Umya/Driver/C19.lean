import Umya.Driver.Proto
import Umya.Model.NumFmt
import Umya.Model.NumFmtCell
import Umya.Model.Date
import Umya.Model.NumFmtDispatch
import Umya.Model.Gen.Tables
namespace Umya.Driver.C19
open Umya.NumFmt Umya.Proto

def out : Option (List Char) → String
  | some r => encodeStr r
  | none => "unmodelled"

/-- built-in format ids whose code is inside the modelled fragment (numbering_format.rs table) -/
def builtinCode : Nat → Option (List Char)
  | 0 => some general
  | 1 => some "0".toList
  | 2 => some "0.00".toList
  | 3 => some "#,##0".toList
  | 4 => some "#,##0.00".toList
  | 9 => some "0%".toList
  | 10 => some "0.00%".toList
  | 49 => some textCode
  | _ => none

/-- ids that have no entry in the crate's table (`set_number_format_id` refuses them); the table is the one
    regenerated from `numbering_format.rs` on every run -/
def notInTable (n : Nat) : Bool :=
  !(Umya.Gen.builtin_format_codes.any (fun p => p.1 == n))

/-- the code of a built-in date/time id whose dispatch the date model covers (`strftimeOf` answers) -/
def builtinDateCode (n : Nat) : Option (List Char) :=
  match Umya.Gen.builtin_format_codes.find? (fun p => p.1 == n) with
  | some p => if (Umya.Date.strftimeOf p.2.toList).isSome then some p.2.toList else none
  | none => none

def dtStr (t : Umya.Date.DateTime) : String :=
  s!"{t.year} {t.month} {t.day} {t.hour} {t.minute} {t.second}"

/-- the dispatcher model's answer: `ok <hex text>` (text computed), `ok ~` (a text the model does not compute),
    `panic`, `unmodelled`; the branch / reason travels as information after ` ## ` -/
def outDisp : Umya.NumFmtDispatch.Outcome → String
  | .ok b (some t) => s!"ok {encodeStr t} ## {b.name}"
  | .ok b none => s!"ok ~ ## {b.name}"
  | .panic w => s!"panic ## {w}"
  | .unmodelled w => s!"unmodelled ## {w}"

/-- what the code computes with the double: the double and its absolute value from the bit pattern (Lean's
    native `Float`), the two texts from the harness (`f64::to_string` is not available here) -/
def dispEnv (bits : Nat) (rem hours hoursAbs : List Char) : Umya.NumFmtDispatch.Env Float :=
  let x := Float.ofBits (UInt64.ofNat bits)
  { val := x, absVal := Float.abs x, rem := rem, hours := hours, hoursAbs := hoursAbs }

/-- `cellk`: the cell kinds of `CellRawValue`, a trailing `f` = a formula is present -/
def errOfText (t : List Char) : Option ErrKind :=
  [ErrKind.div0, .name, .na, .num, .value, .ref, .null, .data].find? (fun e => errDisplay e == t)

def cellOfKind (kind : String) (v : List Char) : Option CellV :=
  -- a leading `L` = the harness took the cell from a saved workbook read back lazily: the same cell to the model
  let kind := if kind.startsWith "L" then String.ofList (kind.toList.drop 1) else kind
  let (base, f) := if kind.endsWith "f" && kind != "f" then (String.ofList (kind.toList.dropLast), true) else (kind, false)
  let raw : Option Raw :=
    match base with
    | "str" => some (.string v)
    | "rich" => some (.richText v)
    | "lazy" => some (.lazy v)
    | "num" => if isPlainDecimal v then some (.numeric v) else none
    | "bool" => if v = "TRUE".toList then some (.bool true) else if v = "FALSE".toList then some (.bool false) else none
    | "err" => (errOfText v).map .error
    | "empty" => if v = [] then some .empty else none
    | _ => none
  raw.map (fun r => ⟨r, f⟩)

def outCell (c : CellV) (code : Option (List Char)) : String :=
  let dt := rawGetDataType c.raw
  match getFormattedValue c code with
  | none => "unmodelled"
  | some r => s!"{encodeStr r} {if dt.isEmpty then "-" else String.ofList dt} {if reachesFormatter c then "num" else "text"}"

def handle (args : List String) : String :=
  match args with
  | ["cellk", kind, v, "none"] =>
    match decodeStr v with
    | some v => (match cellOfKind kind v with
                 | some c => outCell c none
                 | none => "bad-op")
    | none => "bad-op"
  | ["cellk", kind, v, p] =>
    match decodeStr v, decodeStr p with
    | some v, some p => (match cellOfKind kind v with
                         | some c => outCell c (some p)
                         | none => "bad-op")
    | _, _ => "bad-op"
  | ["disp", n, b, v, r, h, ha] =>
    -- preconditions (checked by the harness): `v` is the Display text of the finite double with bit pattern `b`,
    -- `r` of `abs % 1`, `h` of `* 24`, `ha` of `abs * 24`
    match n.toNat?, b.toNat?, decodeStr v, decodeStr r, decodeStr h, decodeStr ha with
    | some n, some b, some v, some r, some h, some ha =>
      (match Umya.Gen.builtin_format_codes.find? (fun p => p.1 == n) with
       | some p => outDisp (Umya.NumFmtDispatch.dispatch p.2.toList v (dispEnv b r h ha))
       | none => "noid")
    | _, _, _, _, _, _ => "bad-op"
  | ["dispc", c, b, v, r, h, ha] =>
    match decodeStr c, b.toNat?, decodeStr v, decodeStr r, decodeStr h, decodeStr ha with
    | some c, some b, some v, some r, some h, some ha =>
      outDisp (Umya.NumFmtDispatch.dispatch c v (dispEnv b r h ha))
    | _, _, _, _, _, _ => "bad-op"
  | ["fmt", v, p] =>
    -- precondition (checked by the harness): `v` is a fixed point of parse::<f64> → to_string
    match decodeStr v, decodeStr p with
    | some v, some p =>
      if isPlainDecimal v then out (cellFormattedValue (.number v) p) else "bad-op"
    | _, _ => "bad-op"
  | ["txt", v, p] | ["txtf", v, p] | ["txtr", v, p] =>
    -- a plain text cell, a formula cell with a cached text result, a rich-text cell: all are text to get_formatted_value
    match decodeStr v, decodeStr p with
    | some v, some p => out (cellFormattedValue (.text v) p)
    | _, _ => "bad-op"
  | ["str", v, p] =>
    match decodeStr v, decodeStr p with
    | some v, some p => out (toFormattedString v p)
    | _, _ => "bad-op"
  | ["id", n, v] =>
    match n.toNat?, decodeStr v with
    | some n, some v =>
      if !isPlainDecimal v then "bad-op"
      else if notInTable n then "noid"
      else match builtinCode n with
        | some code => out (cellFormattedValue (.number v) code)
        | none => "unmodelled"
    | _, _ => "bad-op"
  | ["date", n, b, v] =>
    -- precondition (checked by the harness): `v` is the Display text of the double with bit pattern `b`
    match n.toNat?, b.toNat?, decodeStr v with
    | some n, some b, some v =>
      if notInTable n then "noid"
      else match builtinDateCode n with
        | some code => out (Umya.Date.formatAsDateChecked code v (Float.ofBits (UInt64.ofNat b)))
        | none => "unmodelled"
    | _, _, _ => "bad-op"
  | ["edt", b] =>
    match b.toNat? with
    | some b =>
      (match Umya.Date.excelToDateTimeObject (Float.ofBits (UInt64.ofNat b)) with
       | some t => dtStr t
       | none => "none")
    | none => "bad-op"
  | _ => "bad-op"

end Umya.Driver.C19
