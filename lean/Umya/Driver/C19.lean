import Umya.Driver.Proto
import Umya.Model.NumFmt
namespace Umya.Driver.C19
open Umya.NumFmt Umya.Proto

def out : Option (List Char) → String
  | some r => encodeStr r
  | none => "unmodelled"

/-- built-in format ids whose code is inside the modelled fragment (numbering_format.rs table) -/
def builtinCode : Nat → Option (List Char)
  | 0 => some general
  | 1 => some "0".toList
  | 2 => some "0.00".toList
  | 3 => some "#,##0".toList
  | 4 => some "#,##0.00".toList
  | 9 => some "0%".toList
  | 10 => some "0.00%".toList
  | 49 => some textCode
  | _ => none

/-- ids 0..49 that have no entry in the crate's table (`set_number_format_id` refuses them) -/
def notInTable (n : Nat) : Bool :=
  n ∈ [5, 6, 7, 8, 23, 24, 25, 26, 41, 42, 43]

def handle (args : List String) : String :=
  match args with
  | ["fmt", v, p] =>
    -- precondition (checked by the harness): `v` is a fixed point of parse::<f64> → to_string
    match decodeStr v, decodeStr p with
    | some v, some p =>
      if isPlainDecimal v then out (cellFormattedValue (.number v) p) else "bad-op"
    | _, _ => "bad-op"
  | ["txt", v, p] =>
    match decodeStr v, decodeStr p with
    | some v, some p => out (cellFormattedValue (.text v) p)
    | _, _ => "bad-op"
  | ["str", v, p] =>
    match decodeStr v, decodeStr p with
    | some v, some p => out (toFormattedString v p)
    | _, _ => "bad-op"
  | ["id", n, v] =>
    match n.toNat?, decodeStr v with
    | some n, some v =>
      if !isPlainDecimal v then "bad-op"
      else if notInTable n then "noid"
      else match builtinCode n with
        | some code => out (cellFormattedValue (.number v) code)
        | none => "unmodelled"
    | _, _ => "bad-op"
  | _ => "bad-op"

end Umya.Driver.C19
