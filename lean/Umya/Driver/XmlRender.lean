/-
  Tie (a) of the tag-level writer model (`Umya/Model/XmlWrite.lean`) to the real bytes: given the
  characters of a written part, recover a tree of writer calls `w : WNode` (which form each childless
  element has, which text writer each piece of character data came from) and check that

      renderDoc w = the part, character for character, and WF w.

  Then `C02_bytes_parse` applies to the REAL part: the independent reader returns `normNode (erase w)`.
  Recovering `w` is a search, not part of any theorem: it may only fail (reported as `differs`).

  * tokens: from the independent lexer (`Umya.Spec.Xml.lex`) — names, attribute values (unescaped), the
    empty-element flag;
  * raw character data: the runs between `>` and `<` of the part, in order;
  * a run `r` with value `v` (the token's text) is `write_text_node(v)` if `r = escape v`,
    `write_text_node_conversion(v)` if `r = partialEscape v`, `write_new_line()` if it is CR LF, else
    `write_text_node_no_escape(r)` provided `wfRaw r v` (XML characters, no `<`, no literal CR, resolves to `v`).
-/
import Umya.Model.XmlWrite
namespace Umya.Driver.XmlRender
open Umya.XmlWrite Umya.XmlEsc
open Umya.Spec.Xml (Attr Token lex)

/-- the raw character-data runs between tags (non-empty ones), in order -/
def rawSegsGo : Bool → Option Char → List Char → List (List Char) → List Char → List (List Char)
  | _, _, cur, out, [] => (if cur.isEmpty then out else cur.reverse :: out).reverse
  | false, _, cur, out, c :: r =>
    if c = '<' then rawSegsGo true none [] (if cur.isEmpty then out else cur.reverse :: out) r
    else rawSegsGo false none (c :: cur) out r
  | true, none, _, out, c :: r =>
    if c = '>' then rawSegsGo false none [] out r
    else if c = '"' ∨ c = '\'' then rawSegsGo true (some c) [] out r
    else rawSegsGo true none [] out r
  | true, some q, _, out, c :: r =>
    if c = q then rawSegsGo true none [] out r else rawSegsGo true (some q) [] out r

def rawSegs (cs : List Char) : List (List Char) := rawSegsGo false none [] [] cs

structure Counts where
  elems : Nat := 0
  empties : Nat := 0
  childless : Nat := 0        -- start tag immediately followed by its end tag
  attrs : Nat := 0
  texts : Nat := 0
  convs : Nat := 0
  nls : Nat := 0
  raws : Nat := 0
  deriving Repr

def classify (r v : List Char) (k : Counts) : Option (WNode × Counts) :=
  if r = escape v then some (.text v, { k with texts := k.texts + 1 })
  else if r = partialEscape v then some (.conv v, { k with convs := k.convs + 1 })
  else if r = newLineLit ∧ v = ['\n'] then some (.nl, { k with nls := k.nls + 1 })
  else if wfRaw r v then some (.raw r v, { k with raws := k.raws + 1 })
  else none

structure AFrame where
  name : List Char
  attrs : List Attr
  kids : List WNode            -- reversed

def annGo : List AFrame → Option WNode → List (List Char) → Counts → List Token → Except String (WNode × Counts)
  | [], some root, _, k, [] => .ok (root, k)
  | _, _, _, _, [] => .error "unbalanced"
  | stack, root, segs, k, tok :: rest =>
    match tok, stack with
    | .text _, [] => .error "character data outside the root element"
    | .text v, f :: fs =>
      (match segs with
       | [] => .error "character data without a raw run"
       | r :: segs' =>
         match classify r v k with
         | some (w, k') => annGo ({ f with kids := w :: f.kids } :: fs) root segs' k' rest
         | none => .error s!"character data not producible by the text writers: {String.ofList (r.take 40)}")
    | .open n as true, [] =>
      (match root with
       | some _ => .error "second root"
       | none => annGo [] (some (.empty n as)) segs { k with empties := k.empties + 1, attrs := k.attrs + as.length } rest)
    | .open n as true, f :: fs =>
      annGo ({ f with kids := .empty n as :: f.kids } :: fs) root segs { k with empties := k.empties + 1, attrs := k.attrs + as.length } rest
    | .open n as false, fs =>
      (match fs, root with
       | [], some _ => .error "second root"
       | _, _ => annGo (⟨n, as, []⟩ :: fs) root segs { k with elems := k.elems + 1, attrs := k.attrs + as.length } rest)
    | .close _, [] => .error "end tag without start tag"
    | .close n, f :: fs =>
      if f.name ≠ n then .error "end tag does not match"
      else
        let node := WNode.elem f.name f.attrs f.kids.reverse
        let k := if f.kids.isEmpty then { k with childless := k.childless + 1 } else k
        match fs with
        | [] => annGo [] (some node) segs k rest
        | g :: gs => annGo ({ g with kids := node :: g.kids } :: gs) root segs k rest

def firstDiff : List Char → List Char → Nat → Option Nat
  | [], [], _ => none
  | a :: as, b :: bs, i => if a = b then firstDiff as bs (i + 1) else some i
  | _, _, i => some i

inductive Verdict where
  | same (k : Counts)
  | differs (offset : Option Nat) (why : String)

def isPrefix : List Char → List Char → Bool
  | [], _ => true
  | _ :: _, [] => false
  | a :: as, b :: bs => a = b && isPrefix as bs

/-- re-render the part from its own tokens and compare -/
def check (cs : List Char) : Verdict :=
  if !isPrefix (writeDecl ++ writeNewLine) cs then
    .differs (firstDiff (writeDecl ++ writeNewLine) (cs.take (writeDecl ++ writeNewLine).length) 0) "prolog is not the declaration + CR LF the part writers emit"
  else
    match lex cs with
    | none => .differs none "not lexed"
    | some toks =>
      match toks, rawSegs cs with
      | .text v :: toks', r :: segs' =>
        if v ≠ ['\n'] ∨ r ≠ newLineLit then .differs none "character data before the root is not one CR LF"
        else
          match annGo [] none segs' {} toks' with
          | .error e => .differs none e
          | .ok (w, k) =>
            if !(isElemW w && WF w) then .differs none "names / attributes / characters outside the hypotheses of C02_bytes_parse"
            else
              match firstDiff (renderDoc w) cs 0 with
              | none => .same { k with nls := k.nls + 1 }
              | some i => .differs (some i) s!"rendered {String.ofList ((renderDoc w).drop (i - 20) |>.take 60)} | part {String.ofList (cs.drop (i - 20) |>.take 60)}"
      | _, _ => .differs none "no character data after the declaration"

def reply (cs : List Char) : String :=
  match check cs with
  | .same k => s!"render=same ## elems={k.elems} empties={k.empties} childless={k.childless} attrs={k.attrs} text={k.texts} conv={k.convs} nl={k.nls} raw={k.raws}"
  | .differs off why =>
    let w := (why.replace "\n" "\\n").replace "\r" "\\r"
    s!"render=differs@{match off with | some i => toString i | none => "-"} {w}"

end Umya.Driver.XmlRender
