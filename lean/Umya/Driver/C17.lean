import Umya.Driver.Proto
import Umya.Model.CoordCanon
import Umya.Model.CoordCanonMore
namespace Umya.Driver.C17
open Umya.Coord Umya.Proto Umya.Dec
open Umya.Annot (canonAreaB canonAddrB nameTextAnyB Address DefName undouble)

def refStr : Option Ref → String
  | some r => s!"{r.num}/{if r.lock then 1 else 0}"
  | none => "-"

def rangeStr (ρ : Range) : String :=
  s!"{refStr ρ.startCol} {refStr ρ.startRow} {refStr ρ.endCol} {refStr ρ.endRow}"

def parseRef (s : String) : Option (Option Ref) :=
  if s = "-" then some none
  else match s.splitOn "/" with
    | [a, b] => match a.toNat?, b.toNat? with
      | some n, some l => some (some ⟨n, l == 1⟩)
      | _, _ => none
    | _ => none

def bit (b : Bool) : String := if b then "1" else "0"

def handle (args : List String) : String :=
  match args with
  | ["col2alpha", n] =>
    match n.toNat? with
    | some k => (match indexToAlpha? k with | some s => encodeStr s | none => "panic")
    | none => "bad-op"
  | ["alpha2col", h] =>
    match decodeStr h with
    | some s => resStr toString (columnIndexFromString s)
    | none => "bad-op"
  | ["coord", h] =>
    match decodeStr h with
    | some s =>
      let (c, r, lc, lr) := indexFromCoordinate s
      s!"{optNat c} {optNat r} {optBool lc} {optBool lr}"
    | none => "bad-op"
  | ["obj", h1, h2] =>
    -- Coordinate::set_coordinate twice on one object: each call unwraps the four parsed fields and overwrites all four
    match decodeStr h1, decodeStr h2 with
    | some t1, some t2 =>
      (match indexFromCoordinate t1, indexFromCoordinate t2 with
       | (some _, some _, some _, some _), (some c, some r, some lc, some lr) =>
         (match coordinateFromIndexWithLock? c r lc lr with
          | some s => s!"{c} {r} {bit lc} {bit lr} {encodeStr s}"
          | none => "panic")
       | _, _ => "panic")
    | _, _ => "bad-op"
  | ["mkcoord", c, r, lc, lr] =>
    match c.toNat?, r.toNat?, lc.toNat?, lr.toNat? with
    | some c, some r, some lc, some lr =>
      (match coordinateFromIndexWithLock? c r (lc == 1) (lr == 1) with
       | some s => encodeStr s | none => "panic")
    | _, _, _, _ => "bad-op"
  | ["rangeparse", h] =>
    match decodeStr h with
    | some s => resStr rangeStr (Range.parse s)
    | none => "bad-op"
  | ["rangeprint", a, b, c, d] =>
    match parseRef a, parseRef b, parseRef c, parseRef d with
    | some a, some b, some c, some d =>
      encodeStr (Range.print ⟨a, b, c, d⟩)
    | _, _, _, _ => "bad-op"
  | ["points", h] =>
    match decodeStr h with
    | some s => resStr (fun (a, b, c, d) => s!"{a} {b} {c} {d}") (getStartAndEndPoint s)
    | none => "bad-op"
  | ["split", h] =>
    match decodeStr h with
    | some s => let (a, b) := splitAddress s; s!"{encodeStr a} {encodeStr b}"
    | none => "bad-op"
  | ["join", a, b] =>
    match decodeStr a, decodeStr b with
    | some a, some b => encodeStr (joinAddress a b)
    | _, _ => "bad-op"
  | ["addr", p, a, b] =>
    match decodeStr a, decodeStr b with
    | some a, some b => encodeStr (addressText a b (p == "2"))
    | _, _ => "bad-op"
  -- parse-then-print (`Umya/Thm/C17Parse.lean`): the reply leads with the theorem's decidable hypothesis on the text
  | ["pp", "coord", h] =>
    match decodeStr h with
    | some s => s!"{bit (canonCellB s)} {match coordReprint s with | some t => encodeStr t | none => "none"}"
    | none => "bad-op"
  | ["pp", "range", h] =>
    match decodeStr h with
    | some s => s!"{bit (canonRangeB s)} {resStr encodeStr (rangeReprint s)}"
    | none => "bad-op"
  | ["pp", "addr", h] =>
    match decodeStr h with
    | some s => s!"{bit (addrPlainB s)} {encodeStr (addrRejoin s)}"
    | none => "bad-op"
  | ["pp", "area", h] =>
    match decodeStr h with
    | some s => s!"{bit (canonAreaB s)} {resStr (fun (a : Address) => encodeStr a.text) (Address.parse (undouble s))}"
    | none => "bad-op"
  | ["pp", "total", h] =>
    -- `C17_address_canon_total`: the reply leads with the theorem's decidable hypothesis `canonAddrB`
    match decodeStr h with
    | some s => s!"{bit (canonAddrB s)} {resStr (fun (a : Address) => encodeStr a.text) (Address.parse (undouble s))}"
    | none => "bad-op"
  | ["pp", "name", h, g] =>
    match decodeStr h with
    | some s =>
      let r := resStr (fun (d : DefName) => encodeStr d.text) (DefName.setAddress {} s)
      if g = "1" then s!"{bit (nameTextAnyB s)} {r}" else s!"? {r}"
    | none => "bad-op"
  | _ => "bad-op"

end Umya.Driver.C17
