import Umya.Driver.Proto
import Umya.Model.Formula
import Umya.Model.NameShift
namespace Umya.Driver.C08
open Umya.Coord Umya.Proto Umya.Formula

/-- the sheets of the harness workbook (`harness/src/c08.rs` SHEETS) -/
def sheets : List (List Char) := ["Sheet1".toList, "My Sheet".toList, "It's".toList]

structure EditOp where
  kind : Edit
  isRow : Bool
  at_ : Nat
  n : Nat
  sheet : Nat

def parseEdit (s : String) : Option EditOp :=
  match s.splitOn ":" with
  | [k, a, n, sh] =>
    match a.toNat?, n.toNat?, sh.toNat? with
    | some a, some n, some sh =>
      if k = "insrow" then some ⟨.insert, true, a, n, sh⟩
      else if k = "inscol" then some ⟨.insert, false, a, n, sh⟩
      else if k = "remrow" then some ⟨.remove, true, a, n, sh⟩
      else if k = "remcol" then some ⟨.remove, false, a, n, sh⟩
      else none
    | _, _, _ => none
  | _ => none

def parseEdits (s : String) : Option (List EditOp) :=
  (s.splitOn ";").filter (· ≠ "") |>.mapM parseEdit

/-- one structural edit seen from a formula on sheet `fsheet` -/
def applyEdit (text : List Char) (fsheet : List Char) (e : EditOp) : Res (List Char) :=
  let ws := sheets.getD e.sheet []
  if e.isRow then editFormula e.kind text 0 0 e.at_ e.n ws fsheet
  else editFormula e.kind text e.at_ e.n 0 0 ws fsheet

/-- replies after each edit; after a panic the history stops (`panic` for the rest) -/
def runHist (fsheet : List Char) : Option (List Char) → List EditOp → List String
  | _, [] => []
  | none, _ :: es => "panic" :: runHist fsheet none es
  | some t, e :: es =>
    match applyEdit t fsheet e with
    | .ok t' => encodeStr t' :: runHist fsheet (some t') es
    | .panic => "panic" :: runHist fsheet none es

/-- one structural edit seen from the names stored on one sheet: at workbook level
    (`Spreadsheet::insert_new_row(edited, ..)`) and at sheet level (`Worksheet::insert_new_row` on the
    edited sheet — its own title is the edited name —, `.._from_other_sheet(edited, ..)` on the others)
    the names go through `Worksheet::adjustment_*_coordinate_with_sheet(edited, ..)` -/
def applyEditNames (names : List Umya.Annot.DefName) (e : EditOp) : Res (List Umya.Annot.DefName) :=
  let ws := sheets.getD e.sheet []
  if e.isRow then Umya.NameShift.sheetEdit e.kind names ws 0 0 e.at_ e.n
  else Umya.NameShift.sheetEdit e.kind names ws e.at_ e.n 0 0

/-- what the harness reads back: the address of the one name, or how many names there are -/
def namesReply (names : List Umya.Annot.DefName) : String :=
  match names with
  | [d] => encodeStr d.text
  | l => encodeStr s!"<{l.length} names>".toList

def runDn : Option (List Umya.Annot.DefName) → List EditOp → List String
  | _, [] => []
  | none, _ :: es => "panic" :: runDn none es
  | some ns, e :: es =>
    match applyEditNames ns e with
    | .ok ns' => namesReply ns' :: runDn (some ns') es
    | .panic => "panic" :: runDn none es

def handle (args : List String) : String :=
  match args with
  | "hist" :: _level :: fs :: h :: edits :: _ =>
    match fs.toNat?, decodeStr h, parseEdits edits with
    | some fs, some s, some es => ",".intercalate (runHist (sheets.getD fs []) (some s) es)
    | _, _, _ => "bad-op"
  | "dn" :: _level :: _ns :: h :: edits :: _ =>
    match decodeStr h, parseEdits edits with
    | some s, some es =>
      -- `Worksheet::add_defined_name`: `DefinedName::set_address` on a fresh name
      (match Umya.Annot.DefName.setAddress {} s with
       | .ok d => ",".intercalate (runDn (some [d]) es)
       | .panic => ",".intercalate (runDn none es))
    | _, _ => "bad-op"
  | _ => "bad-op"

end Umya.Driver.C08
