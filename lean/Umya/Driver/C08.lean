import Umya.Driver.Proto
import Umya.Model.Formula
namespace Umya.Driver.C08
open Umya.Coord Umya.Proto Umya.Formula

/-- the sheets of the harness workbook (`harness/src/c08.rs` SHEETS) -/
def sheets : List (List Char) := ["Sheet1".toList, "My Sheet".toList, "It's".toList]

structure EditOp where
  kind : Edit
  isRow : Bool
  at_ : Nat
  n : Nat
  sheet : Nat

def parseEdit (s : String) : Option EditOp :=
  match s.splitOn ":" with
  | [k, a, n, sh] =>
    match a.toNat?, n.toNat?, sh.toNat? with
    | some a, some n, some sh =>
      if k = "insrow" then some ⟨.insert, true, a, n, sh⟩
      else if k = "inscol" then some ⟨.insert, false, a, n, sh⟩
      else if k = "remrow" then some ⟨.remove, true, a, n, sh⟩
      else if k = "remcol" then some ⟨.remove, false, a, n, sh⟩
      else none
    | _, _, _ => none
  | _ => none

def parseEdits (s : String) : Option (List EditOp) :=
  (s.splitOn ";").filter (· ≠ "") |>.mapM parseEdit

/-- one structural edit seen from a formula on sheet `fsheet` -/
def applyEdit (text : List Char) (fsheet : List Char) (e : EditOp) : Res (List Char) :=
  let ws := sheets.getD e.sheet []
  if e.isRow then editFormula e.kind text 0 0 e.at_ e.n ws fsheet
  else editFormula e.kind text e.at_ e.n 0 0 ws fsheet

/-- replies after each edit; after a panic the history stops (`panic` for the rest) -/
def runHist (fsheet : List Char) : Option (List Char) → List EditOp → List String
  | _, [] => []
  | none, _ :: es => "panic" :: runHist fsheet none es
  | some t, e :: es =>
    match applyEdit t fsheet e with
    | .ok t' => encodeStr t' :: runHist fsheet (some t') es
    | .panic => "panic" :: runHist fsheet none es

def handle (args : List String) : String :=
  match args with
  | "hist" :: _level :: fs :: h :: edits :: _ =>
    match fs.toNat?, decodeStr h, parseEdits edits with
    | some fs, some s, some es => ",".intercalate (runHist (sheets.getD fs []) (some s) es)
    | _, _, _ => "bad-op"
  | "dn" :: _ => "unmodelled"
  | _ => "bad-op"

end Umya.Driver.C08
