/-
  Line-protocol handler for the data-validation / conditional-formatting codec models
  (`c06 dvs <specs> <raw element>`, `c06 cf <table> <blocks> <raw elements> <raw dxfs>`).

  The raw elements are parsed with the independent XML reader (`Umya.Spec.Xml.parse`), compared — attribute
  order ignored — with `write` of the model value described by the spec, and handed to the model reader; the reply
  carries the verdicts and the getter view of what the model reader returns.
-/
import Umya.Driver.Proto
import Umya.Model.AnnotDv
import Umya.Model.AnnotCf
namespace Umya.Driver.C06Codec
open Umya.Coord Umya.Proto Umya.Annot Umya.AnnotDv Umya.AnnotCf Umya.Dec
open Umya.Spec.Xml (Node Attr)

def hx (t : List Char) : String := encodeStr t

def attrsEq (a b : List Attr) : Bool :=
  a.length == b.length && a.all (fun x => b.any (fun y => x.name == y.name && x.value == y.value)) &&
  b.all (fun y => a.any (fun x => x.name == y.name && x.value == y.value))

mutual
partial def treeEq : Node → Node → Bool
  | .text s, .text t => s == t
  | .elem n as ks, .elem m bs ls => n == m && attrsEq as bs && treeEqList ks ls
  | _, _ => false
partial def treeEqList : List Node → List Node → Bool
  | [], [] => true
  | a :: r, b :: s => treeEq a b && treeEqList r s
  | _, _ => false
end

partial def showNode : Node → String
  | .text s => s!"'{hx s}'"
  | .elem n as ks =>
    let a := ",".intercalate (as.map fun x => s!"{String.ofList x.name}={hx x.value}")
    s!"{String.ofList n}[{a}]({" ".intercalate (ks.map showNode)})"

def splitNE (s : String) (sep : String) : List String := if s = "" ∨ s = "-" then [] else s.splitOn sep

/-- `~` = unset, `=payload` = set -/
def optTok (s : String) : Option (Option String) :=
  if s = "~" then some none
  else if s.startsWith "=" then some (some (s.drop 1).toString)
  else none

def tokBool (s : String) : Option (Option Bool) :=
  match optTok s with
  | some none => some none
  | some (some "1") => some (some true)
  | some (some "0") => some (some false)
  | _ => none

def tokText (s : String) : Option (Option (List Char)) :=
  match optTok s with
  | some none => some none
  | some (some h) => (decodeStr h).map some
  | none => none

def tokEnum {α} (fromStr : List Char → Option α) (s : String) : Option (Option α) :=
  match optTok s with
  | some none => some none
  | some (some n) => (fromStr n.toList).map some
  | none => none

def tokNat (s : String) : Option (Option Nat) :=
  match optTok s with
  | some none => some none
  | some (some n) => n.toNat?.map some
  | none => none

def tokInt (s : String) : Option (Option Int) :=
  match optTok s with
  | some none => some none
  | some (some n) => n.toInt?.map some
  | none => none

def resOpt {α} : Res α → Option α
  | .ok a => some a
  | .panic => none

def parseRanges (s : String) : Option (List Range) :=
  (splitNE s "+").mapM fun r => resOpt (Range.parse r.toList)

def rangesStr (rs : List Range) : String := "+".intercalate (rs.map fun r => String.ofList r.print)

def b01 (b : Bool) : String := if b then "1" else "0"

/-! ### data validations -/

def parseDv (s : String) : Option Dv :=
  match s.splitOn "," with
  | [ty, op, ab, si, se, pt, pr, et, er, sq, f1, f2] => do
    let ty ← tokEnum DvType.fromStr ty
    let op ← tokEnum DvOp.fromStr op
    let ab ← tokBool ab
    let si ← tokBool si
    let se ← tokBool se
    let pt ← tokText pt
    let pr ← tokText pr
    let et ← tokText et
    let er ← tokText er
    let sq ← match optTok sq with
      | some none => some []
      | some (some t) => parseRanges t
      | none => none
    let f1 ← tokText f1
    let f2 ← tokText f2
    pure { type := ty, operator := op, allowBlank := ab, showInput := si, showError := se, promptTitle := pt, prompt := pr,
           errorTitle := et, error := er, sqref := sq, formula1 := f1, formula2 := f2 }
  | _ => none

/-- the getter view: unset fields show their defaults (`None`, `LessThan`, `false`, the empty text) -/
def dvObs (x : Dv) : String :=
  ",".intercalate [String.ofList (x.type.getD .none).toStr, String.ofList (x.operator.getD .lessThan).toStr,
    b01 (x.allowBlank.getD false), b01 (x.showInput.getD false), b01 (x.showError.getD false),
    hx (x.promptTitle.getD []), hx (x.prompt.getD []), hx (x.errorTitle.getD []), hx (x.error.getD []),
    rangesStr x.sqref, hx (x.formula1.getD []), hx (x.formula2.getD [])]

def handleDvs (specs raw : String) : String :=
  match (splitNE specs "|").mapM parseDv, decodeStr raw with
  | some l, some xml =>
    match Umya.Spec.Xml.parse xml with
    | none => "tree=unparsable"
    | some node =>
      let model := writeList l
      let t := if treeEq model node then "tree=eq" else "tree=ne"
      let r := match readList node with
        | .ok back => "|".intercalate (back.map dvObs)
        | .panic => "panic"
      let info := if treeEq model node then "" else s!" ## model={showNode model}"
      s!"{t};r={r}{info}"
  | _, _ => "bad-op"

/-! ### conditional formatting -/

def parseCfvo (s : String) : Option Cfvo :=
  match s.splitOn ":" with
  | [ty, v] => do
    let ty ← tokEnum CfvoType.fromStr ty
    let v ← tokText v
    pure ⟨ty, v⟩
  | _ => none

def parseColor (s : String) : Option Color :=
  match s.splitOn ":" with
  | [th, ix, ar, ti] => do
    let th ← tokNat th
    let ix ← tokNat ix
    let ar ← tokText ar
    let ti ← tokText ti
    pure ⟨th, ix, ar, ti⟩
  | _ => none

def parseScale (s : String) : Option Scale :=
  match s.splitOn "/" with
  | [vs, cs] => do
    let vs ← ((if vs = "" then [] else vs.splitOn "_").mapM parseCfvo)
    let cs ← ((if cs = "" then [] else cs.splitOn "_").mapM parseColor)
    pure ⟨vs, cs⟩
  | _ => none

def tokScale (s : String) : Option (Option Scale) :=
  match optTok s with
  | some none => some none
  | some (some p) => (parseScale p).map some
  | none => none

def parseFml (s : String) : Option Fml :=
  if s = "e" then some {}
  else match s.splitOn ":" with
    | "s" :: [h] => (decodeStr h).map fun t => { str := some t }
    | "a" :: sh :: rest =>
      match decodeStr sh, resOpt (Range.parse (":".intercalate rest).toList) with
      | some sh, some ρ => some { addr := ⟨sh, ρ⟩ }
      | _, _ => none
    | _ => none

def tokFml (s : String) : Option (Option Fml) :=
  match optTok s with
  | some none => some none
  | some (some p) => (parseFml p).map some
  | none => none

def parseRule (s : String) : Option Rule :=
  match s.splitOn "," with
  | [ty, op, tx, st, pr, pc, bt, rk, si, sd, tp, aa, ea, cs, db, ic, fm] => do
    let ty ← tokEnum CfType.fromStr ty
    let op ← tokEnum CfOp.fromStr op
    let tx ← tokText tx
    let st ← tokText st
    let pr ← tokInt pr
    let pc ← tokBool pc
    let bt ← tokBool bt
    let rk ← tokNat rk
    let si ← tokBool si
    let sd ← tokInt sd
    let tp ← tokEnum TimePeriod.fromStr tp
    let aa ← tokBool aa
    let ea ← tokBool ea
    let cs ← tokScale cs
    let db ← tokScale db
    let ic ← tokScale ic
    let fm ← tokFml fm
    pure { type := ty, operator := op, text := tx, style := st, priority := pr, percent := pc, bottom := bt, rank := rk,
           stopIfTrue := si, stdDev := sd, timePeriod := tp, aboveAverage := aa, equalAverage := ea, colorScale := cs,
           dataBar := db, iconSet := ic, formula := fm }
  | _ => none

def parseBlock (s : String) : Option Block :=
  match s.splitOn "@" with
  | [rg, rs] => do
    let rg ← parseRanges rg
    let rs ← ((if rs = "" then [] else rs.splitOn ";").mapM parseRule)
    pure ⟨rg, rs⟩
  | _ => none

def cfvoObs (v : Cfvo) : String := s!"{String.ofList (v.type.getD .number).toStr}:{hx (v.val.getD [])}"

/-- `get_theme_index`, `get_indexed`, `get_argb` (without an index: the stored text), `get_tint().to_string()` -/
def colorObs (c : Color) : String :=
  s!"{c.theme.getD 0}:{c.indexed.getD 0}:{hx (c.argb.getD [])}:{hx (c.tint.getD ['0'])}"

def scaleObs (s : Scale) : String :=
  s!"{"_".intercalate (s.cfvos.map cfvoObs)}/{"_".intercalate (s.colors.map colorObs)}"

def optObs {α} (f : α → String) : Option α → String
  | some a => s!"={f a}"
  | none => "~"

def ruleObs (r : Rule) : String :=
  ",".intercalate [String.ofList (r.type.getD .expression).toStr, String.ofList (r.operator.getD .lessThan).toStr,
    hx (r.text.getD []), optObs hx r.style, toString (r.priority.getD 0), b01 (r.percent.getD false),
    b01 (r.bottom.getD false), toString (r.rank.getD 0), b01 (r.stopIfTrue.getD false), toString (r.stdDev.getD 0),
    String.ofList (r.timePeriod.getD .today).toStr, b01 (r.aboveAverage.getD false), b01 (r.equalAverage.getD false),
    optObs scaleObs r.colorScale, optObs scaleObs r.dataBar, optObs scaleObs r.iconSet,
    optObs (fun (f : Fml) => hx f.text) r.formula]

def blockObs (b : Block) : String := s!"{b.sqref.length}#{rangesStr b.sqref}@{";".intercalate (b.rules.map ruleObs)}"

/-- the attribute `val` of the child `name` -/
def kidVal (n : Node) (name : String) : Option (List Char) := (n.kid? name).bind (·.attr? ['v', 'a', 'l'])

/-- the signature of a written `<dxf>` in the harness's format `name|size|bold|fontcolour|fillcolour`, as the
    library's getters show the reloaded differential format -/
def dxfSig (d : Node) : List Char :=
  let font := match d.kid? "font" with
    | none => "-|-|-|-".toList
    | some f =>
      let bold := match f.kid? "b" with
        | none => "0"
        | some b => match b.attr? ['v', 'a', 'l'] with
          | some v => if v = ['0'] ∨ v = "false".toList then "0" else "1"
          | none => "1"
      let col := ((f.kid? "color").bind (·.attr? ['r', 'g', 'b'])).getD []
      (kidVal f "name").getD [] ++ ['|'] ++ (kidVal f "sz").getD ['0'] ++ ['|'] ++ bold.toList ++ ['|'] ++ col
  let fill := match ((d.kid? "fill").bind (·.kid? "patternFill")).bind (·.kid? "fgColor") with
    | some c => (c.attr? ['r', 'g', 'b']).getD []
    | none => ['-']
  font ++ ['|'] ++ fill

def handleCf (t0 blocks rawCf rawDxfs : String) : String :=
  match (splitNE t0 ",").mapM decodeStr, (splitNE blocks "!").mapM parseBlock, decodeStr rawCf with
  | some t0, some bs, some xml =>
    match Umya.Spec.Xml.parse xml with
    | none => "tree=unparsable"
    | some root =>
      let real := root.children
      let w := writeBlocks t0 bs
      let eq := treeEqList w.2 real
      -- the real dxf table
      let realTbl : Option (List (List Char)) :=
        if rawDxfs = "-" then some []
        else match decodeStr rawDxfs with
          | some dx => (Umya.Spec.Xml.parse dx).map fun n => (n.kids "dxf").map dxfSig
          | none => none
      match realTbl with
      | none => "tree=unparsable-dxfs"
      | some tbl =>
        let dxf := if tbl = w.1 then "dxf=eq" else s!"dxf=ne:{",".intercalate (w.1.map hx)}/{",".intercalate (tbl.map hx)}"
        let r := match readBlocks tbl real with
          | .ok back => "!".intercalate (back.map blockObs)
          | .panic => "panic"
        let info := if eq then "" else s!" ## model={" ".intercalate (w.2.map showNode)}"
        s!"{if eq then "tree=eq" else "tree=ne"};{dxf};r={r}{info}"
  | _, _, _ => "bad-op"

def handle (args : List String) : Option String :=
  match args with
  | ["dvs", specs, raw] => some (handleDvs specs raw)
  | ["cf", t0, blocks, rawCf, rawDxfs] => some (handleCf t0 blocks rawCf rawDxfs)
  | _ => none

end Umya.Driver.C06Codec
