import Umya.Driver.Proto
import Umya.Spec.Sml
namespace Umya.Driver.C02
open Umya.Spec.Xml Umya.Spec.Sml Umya.Proto

structure St where
  parts : List Part := []

def hexOf (t : Text) : String := encodeStr t

def cellStr (c : CellV) : String :=
  -- a formula cell whose cached string result is empty is the same as one without a cached result
  let kind := if c.formula.isSome ∧ c.kind = "s" ∧ c.value.isEmpty then "" else c.kind
  -- a shared-formula child is written as a reference to its master: reported as such (marker), the
  -- expansion rule is checked by C03
  let f := if c.sharedChild then some (Char.ofNat 1 :: "shared".toList) else c.formula
  s!"{str c.ref}/{kind}/{hexOf c.value}/{match f with | some f => hexOf f | none => "~"}"

def insertSorted (x : String) : List String → List String
  | [] => [x]
  | y :: ys => if x < y then x :: y :: ys else y :: insertSorted x ys

def sortStrings (l : List String) : List String := l.foldr insertSorted []

/-- canonical view: the same text the harness prints from the in-memory workbook -/
def viewStr (b : BookV) : String :=
  let sheets := b.sheets.map (fun s => s!"{hexOf s.name}:{s.state}")
  let names := sortStrings (b.names.map (fun n => s!"{hexOf n.name}:{match n.scope with | some i => toString i | none => "~"}:{hexOf n.text}"))
  let per := b.sheets.map fun s =>
    -- blank cells (no value, no formula) carry no content
    let cells := (s.cells.filter (fun c => c.kind ≠ "" ∨ c.formula.isSome)).map cellStr
    let links := sortStrings (s.links.map (fun l => s!"{str l.ref}/{if l.external then "e" else "l"}/{hexOf l.target}/{hexOf (l.tooltip.getD [])}"))
    s!"cells={",".intercalate cells};merges={",".intercalate (s.merges.map str)};links={",".intercalate links}"
  s!"active={b.active};sheets={"|".intercalate sheets};names={"|".intercalate names} # {" # ".intercalate per}"

def stripBom (cs : List Char) : List Char :=
  match cs with
  | c :: r => if c.toNat = 0xFEFF then r else cs
  | [] => []

def handle (st : St) (args : List String) : St × String :=
  match args with
  | "reset" :: _ => ({}, "ok")
  | ["part", nameHex, isXml, dataHex] =>
    match decodeStr nameHex, hexDecodeBytes (if dataHex = "-" then "" else dataHex) with
    | some name, some bytes =>
      let nm := String.ofList name
      if isXml = "1" then
        match String.fromUTF8? bytes with
        | some s =>
          let tree := parse (stripBom s.toList)
          ({ parts := st.parts ++ [{ name := nm, xml := tree, isXml := true }] }, if tree.isSome then "ok" else "malformed")
        | none => ({ parts := st.parts ++ [{ name := nm, xml := none, isXml := true }] }, "not-utf8")
      else ({ parts := st.parts ++ [{ name := nm, xml := none, isXml := false }] }, "ok")
    | _, _ => (st, "bad-op")
  | ["decode"] =>
    let (bv, errs) := decode st.parts
    let v := match bv with | some b => viewStr b | none => "none"
    (st, s!"errs={errs.length};{" | ".intercalate (errs.take 5)};view={v}")
  | _ => (st, "bad-op")

end Umya.Driver.C02
