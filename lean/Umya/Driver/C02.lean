/-
  Line-protocol handler for C02 (stateful: a case starts with `c02 reset …`).

    c02 reset …                                  -> ok
    c02 part <name> <isXml> <bytes>              -> ok | malformed | not-utf8       (independent XML reader)
    c02 part <name> <isXml> <bytes> <w|r>        -> the same, followed by ` render=same` (w: a part written through
                                                    writer/driver.rs: the tree of writer calls recovered from the part,
                                                    rendered by `Umya.XmlWrite.renderDoc`, IS the part, character for
                                                    character, and satisfies the hypotheses of `C02_bytes_parse`),
                                                    ` render=differs@<offset> …`, or ` render=skipped` (r: a part copied
                                                    verbatim / written raw; the actual outcome is reported after ` ## `)
    c02 decode                                   -> errs=<n>;<first violations>;view=<decoded view>
    c02 bridge cells=<facts> sst=<facts> model=<cells|~>
                                                 -> ok | differs <what>   ## counts
      ties the cell bridge of `Umya/Model/CellNode.lean` (theorems `C02_cell_decodes`, `C02_book_cells_decode`)
      to the package just sent: the facts are what a scanner that does not unescape read from the REAL parts
      (`harness/src/c01.rs::package_facts`); `model` is the in-memory workbook as cells of the writer model.
      Checked: (a) every `<c>` the independent XML reader parsed from the real sheet parts IS `cellNode` of
      its fact (tree equality); (b) the shared strings the independent reader takes from the real part are
      those of the rendered `<si>` facts; (c) the model writer run on `model` produces exactly these cell
      facts and `<si>` texts; (d) `decodeCell` on the real `<c>` trees gives `fileView` of the model cells.
-/
import Umya.Driver.Proto
import Umya.Driver.C01
import Umya.Model.CellNode
import Umya.Spec.Sml
import Umya.Driver.XmlRender
namespace Umya.Driver.C02
open Umya.Spec.Xml Umya.Spec.Sml Umya.Proto

structure St where
  parts : List Part := []

def hexOf (t : Text) : String := encodeStr t

def cellStr (c : CellV) : String :=
  -- a formula cell whose cached string result is empty is the same as one without a cached result
  let kind := Umya.CellNode.normKind c.formula c.kind c.value
  -- a shared-formula child is written as a reference to its master: reported as such (marker), the
  -- expansion rule is checked by C03
  let f := if c.sharedChild then some (Char.ofNat 1 :: "shared".toList) else c.formula
  s!"{str c.ref}/{kind}/{hexOf c.value}/{match f with | some f => hexOf f | none => "~"}"

def insertSorted (x : String) : List String → List String
  | [] => [x]
  | y :: ys => if x < y then x :: y :: ys else y :: insertSorted x ys

def sortStrings (l : List String) : List String := l.foldr insertSorted []

/-- canonical view: the same text the harness prints from the in-memory workbook -/
def viewStr (b : BookV) : String :=
  let sheets := b.sheets.map (fun s => s!"{hexOf s.name}:{s.state}")
  let names := sortStrings (b.names.map (fun n => s!"{hexOf n.name}:{match n.scope with | some i => toString i | none => "~"}:{hexOf n.text}"))
  let per := b.sheets.map fun s =>
    -- blank cells (no value, no formula) carry no content
    let cells := (s.cells.filter (fun c => c.kind ≠ "" ∨ c.formula.isSome)).map cellStr
    let links := sortStrings (s.links.map (fun l => s!"{str l.ref}/{if l.external then "e" else "l"}/{hexOf l.target}/{hexOf (l.tooltip.getD [])}"))
    s!"cells={",".intercalate cells};merges={",".intercalate (s.merges.map str)};links={",".intercalate links}"
  s!"active={b.active};sheets={"|".intercalate sheets};names={"|".intercalate names} # {" # ".intercalate per}"

def stripBom (cs : List Char) : List Char :=
  match cs with
  | c :: r => if c.toNat = 0xFEFF then r else cs
  | [] => []

/-! ### the cell bridge (`c02 bridge`) -/

section Bridge
open Umya.CellXml Umya.CellNode

abbrev CellT := Umya.Driver.C01.CellT

def sheetPartName (k : Nat) : String := s!"xl/worksheets/sheet{k + 1}.xml"

/-- the `<c>` elements of a parsed worksheet part, in document order -/
def cellNodesOf (root : Node) : List Node :=
  (((root.kid? "sheetData").map (·.kids "row")).getD []).flatMap (·.kids "c")

/-- is this `<c>` inside the fragment `CellX` describes: attributes `r`, `t`, `s` only; children `<f>` without
    attributes and `<v>` only (shared / array formulas, `cm`/`vm`/`ph`, `<is>`, `<extLst>` are outside) -/
def inFragment (c : Node) : Bool :=
  c.attrs.all (fun a => a.name = ['r'] || a.name = ['t'] || a.name = ['s']) &&
  c.children.all (fun k => match k with
    | .elem n as _ => (n = ['f'] && as.isEmpty) || (n = ['v'] && as.isEmpty)
    | .text _ => false)

/-- one-line rendering of a tree (for comparison and for the reply) -/
def nodeStr (n : Option Node) : String := ((repr n).pretty 100000000).replace "\n" " "

/-- lenient variant of C01's `<si>` fact parser: run-font tokens that are not numbers only say "has properties" -/
def parseFontL (s : String) : Option Nat := if s = "~" then none else some (s.toNat?.getD 0)

def parseSiXL (s : String) : Option SiX :=
  match s.splitOn "/" with
  | [t, rs] =>
    let t : Option (Option TX) :=
      if t = "~" then some none else
      match t.splitOn ":" with
      | [p, h] => (Umya.Driver.C01.parseTX p h).map some
      | _ => none
    let rs : Option (List RunX) :=
      if rs = "~" then some [] else
      (rs.splitOn "+").mapM (fun r =>
        match r.splitOn ":" with
        | [f, p, h] => (Umya.Driver.C01.parseTX p h).map (fun t => { font := parseFontL f, t := t })
        | _ => none)
    match t, rs with
    | some t, some rs => some { t := t, runs := rs }
    | _, _ => none
  | _ => none

def parseFacts (cells sst : String) : Option BookX :=
  match Umya.Driver.C01.dropPrefix? "cells=" cells, Umya.Driver.C01.dropPrefix? "sst=" sst with
  | some c, some s =>
    let sheets := (c.splitOn "|").mapM (fun sh => (Umya.Driver.C01.splitList sh ";").mapM Umya.Driver.C01.parseCellX)
    let sis := if s = "~" then some [] else (s.splitOn ";").mapM parseSiXL
    match sheets, sis with
    | some sheets, some sis => some { sheets := sheets, sst := sis }
    | _, _ => none
  | _, _ => none

/-- one cell of the in-memory workbook: `col,row,kind,value,formula,styled,runs` (the format of C01's dump;
    a run is `<1|~>:<text>`) -/
def parseModelCell (s : String) : Option CellT :=
  match s.splitOn "," with
  | [col, row, kind, val, f, st, runs] =>
    match col.toNat?, row.toNat?, decodeStr val, Umya.Driver.C01.parseOptText f with
    | some col, some row, some v, some f =>
      let raw : Option (RawValue (List Char)) :=
        match kind with
        | "z" => some .empty
        | "s" => some (.str v)
        | "r" => (Umya.Driver.C01.parseRuns runs).map .rich
        | "n" => some (.num v)
        | "b" => some (.bool (v = sTRUE))
        | "e" => (ErrT.ofText? v).map .err
        | "l" => (if runs.startsWith "=" then decodeStr (String.ofList (runs.toList.drop 1)) else none).map .lazy
        | _ => none
      raw.map fun raw => { col := col, row := row, raw := raw, formula := f, styled := st = "1" }
    | _, _, _, _ => none
  | _ => none

def parseModel (s : String) : Option (List (List CellT)) :=
  (s.splitOn "|").mapM (fun sh => (Umya.Driver.C01.splitList sh ";").mapM parseModelCell)

/-- the texts of an `<si>` fact (what the comparison of model and real shared-string facts looks at:
    run properties are opaque on both sides) -/
def siTexts (x : SiX) : Option TX × List TX := (x.t, x.runs.map (·.t))

def cellKey (c : CellV) : String :=
  s!"{str c.ref}/{c.kind}/{hexOf c.value}/{match c.formula with | some f => hexOf f | none => "~"}"

structure BridgeOut where
  diffs : List String := []
  cells : Nat := 0
  trees : Nat := 0
  skipped : Nat := 0

/-- (a): every parsed `<c>` of sheet `k` against `cellNode` of its fact -/
def bridgeSheet (k : Nat) (xs : List CellX) (actual : List Node) (o : BridgeOut) : BridgeOut :=
  if xs.length ≠ actual.length then
    { o with diffs := o.diffs ++ [s!"sheet {k}: {xs.length} cell facts, {actual.length} <c> elements"] }
  else
    (xs.zip actual).foldl (fun o (cx, a) =>
      if !inFragment a then { o with skipped := o.skipped + 1 }
      else
        let xf := ((a.attr? ['s']).bind natOf).getD 0
        let rendered := cellNode xf cx
        if nodeStr rendered = nodeStr (some a) then { o with cells := o.cells + 1, trees := o.trees + 1 }
        else { o with cells := o.cells + 1,
                      diffs := o.diffs ++ [s!"sheet {k} cell {String.ofList cx.ref}: rendered {nodeStr rendered} parsed {nodeStr (some a)}"] }) o

def bridge (parts : Package) (facts : BookX) (model : Option (List (List CellT))) : String :=
  let F := Umya.Num.textFmt []
  -- (a) cells
  let actualSheets : List (Option (List Node)) :=
    (List.range facts.sheets.length).map fun k => ((parts.part? (sheetPartName k)).bind (·.xml)).map cellNodesOf
  let o : BridgeOut := ((facts.sheets.zip actualSheets).zipIdx).foldl (fun o ((xs, act), k) =>
    match act with
    | some act => bridgeSheet k xs act o
    | none => { o with diffs := o.diffs ++ [s!"sheet part {sheetPartName k} missing or malformed"] }) {}
  -- (b) shared strings
  let actualSst := sharedStrings parts sstPath
  let renderedSst := (sstParts facts.sst).map (fun pkg => sharedStrings pkg sstPath)
  let d2 := if renderedSst = some actualSst then [] else [s!"shared strings: rendered facts give {renderedSst.map (·.map hexOf)}, the part gives {actualSst.map hexOf}"]
  -- (c), (d) the writer model on the in-memory cells
  let d3 : List String := match model with
    | none => []
    | some sheets =>
      match writeBook F false sheets with
      | none => ["the writer model panics on the in-memory cells"]
      | some b =>
        (if b.sheets = facts.sheets then [] else
          [s!"cell facts: the writer model gives {Umya.Driver.C01.bookXStr { b with sst := [] }}"]) ++
        (if b.sst.map siTexts = facts.sst.map siTexts then [] else ["<si> facts: the writer model's texts differ from the part's"]) ++
        (let views := (normalize F sheets).map (fun cs => (viewCells F (fun _ => 0) cs).map (fun p => cellKey p.1))
         let decoded := actualSheets.map (fun act => (act.getD []).map (fun a => cellKey (decodeCell actualSst a).1))
         if views = decoded then [] else [s!"decoded cells {decoded} are not the views of the model cells {views}"])
  let diffs := o.diffs ++ d2 ++ d3
  let info := s!"cells={o.cells} trees={o.trees} outside-fragment={o.skipped} si={facts.sst.length} model={if model.isSome then 1 else 0}"
  if diffs.isEmpty then s!"ok ## {info}" else s!"differs {" | ".intercalate (diffs.take 3)} ## {info}"

end Bridge

def handle (st : St) (args : List String) : St × String :=
  match args with
  | "reset" :: _ => ({}, "ok")
  | "part" :: nameHex :: isXml :: dataHex :: more =>
    match decodeStr nameHex, hexDecodeBytes (if dataHex = "-" then "" else dataHex) with
    | some name, some bytes =>
      let nm := String.ofList name
      if isXml = "1" then
        match String.fromUTF8? bytes with
        | some s =>
          let cs := stripBom s.toList
          let tree := parse cs
          let render :=
            match more with
            | ["w"] => " " ++ Umya.Driver.XmlRender.reply cs
            | ["r"] => " render=skipped ## actual " ++ ((Umya.Driver.XmlRender.reply s.toList).replace " ## " " ")
            | _ => ""
          ({ parts := st.parts ++ [{ name := nm, xml := tree, isXml := true }] }, (if tree.isSome then "ok" else "malformed") ++ render)
        | none => ({ parts := st.parts ++ [{ name := nm, xml := none, isXml := true }] }, "not-utf8")
      else ({ parts := st.parts ++ [{ name := nm, xml := none, isXml := false }] }, "ok")
    | _, _ => (st, "bad-op")
  | ["decode"] =>
    let (bv, errs) := decode st.parts
    let v := match bv with | some b => viewStr b | none => "none"
    (st, s!"errs={errs.length};{" | ".intercalate (errs.take 5)};view={v}")
  | ["bridge", cells, sst, model] =>
    match parseFacts cells sst, Umya.Driver.C01.dropPrefix? "model=" model with
    | some facts, some m =>
      if m = "~" then (st, bridge st.parts facts none)
      else match parseModel m with
        | some sheets => (st, bridge st.parts facts (some sheets))
        | none => (st, "bad-op")
    | _, _ => (st, "bad-op")
  | _ => (st, "bad-op")

end Umya.Driver.C02
