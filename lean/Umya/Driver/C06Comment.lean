/-
  Line-protocol handler for the comment model (`Model/AnnotComment.lean`):
    c06 cmt  <specs> <hex comments part> <hex vml part>   written by the library from the values in <specs>
    c06 cmtr <hex comments part> <hex vml part | ->       a loaded (corpus) file: reader side only

  Both parts are lexed with the independent XML reader.  `cmt`: the comments tree must equal
  `writeComments tbl cs` (tbl = the authors table as it stands in the real part, which must be the set of
  authors of the specs, each once), the VML tree — projected onto the modelled attributes / children of
  `v:shape` and `x:ClientData` — must equal `writeVml cs`, attribute order ignored; run properties are
  opaque: the `<rPr>` element of the real part is plugged into the model value where the spec says the run
  has a font.  Both: `r=` is the getter view of `joinShapes (readComments ..) (readVml ..)` on the real trees.
-/
import Umya.Driver.Proto
import Umya.Driver.C06Codec
import Umya.Model.AnnotComment
namespace Umya.Driver.C06Comment
open Umya.Proto Umya.AnnotComment
open Umya.Spec.Xml (Node Attr)
open Umya.AnnotView (Coord)
open Umya.Driver.C06Codec (treeEq showNode)

def hx (t : List Char) : String := encodeStr t

def tfbStr : Option (Option Bool) → String
  | none => "~"
  | some none => "b"
  | some (some true) => "t"
  | some (some false) => "f"

def parseTfb (s : String) : Option (Option (Option Bool)) :=
  if s = "~" then some none else if s = "b" then some (some none)
  else if s = "t" then some (some (some true)) else if s = "f" then some (some (some false)) else none

/-- the getter `get_value()` of a row / column target answers 0 for a holder without a value -/
def u32Str : Option (Option Nat) → String
  | none => "~"
  | some v => s!"={v.getD 0}"

def parseU32Tok (s : String) : Option (Option (Option Nat)) :=
  if s = "~" then some none
  else if s.startsWith "=" then (s.drop 1).toString.toNat?.map fun n => some (some n)
  else none

def styleStr : Option (List Char) → String
  | some t => if t.isEmpty then "~" else s!"={hx t}"
  | none => "~"

def parseStyle (s : String) : Option (Option (List Char)) :=
  if s = "~" then some none
  else if s.startsWith "=" then (decodeStr (s.drop 1).toString).map some
  else none

def anchorStr (a : Anchor) : String :=
  ".".intercalate ([a.leftCol, a.leftOff, a.topRow, a.topOff, a.rightCol, a.rightOff, a.bottomRow, a.bottomOff].map toString)

def parseAnchor (s : String) : Option Anchor :=
  match (s.splitOn ".").mapM (·.toNat?) with
  | some [a, b, c, d, e, f, g, h] => some ⟨a, b, c, d, e, f, g, h⟩
  | _ => none

def runsStr (t : CommentText) : String :=
  if t.isEmpty then "-" else "+".intercalate (t.map fun r => s!"{hx r.text}:{if r.rpr.isSome then "1" else "0"}")

/-- a run of the spec: the text and whether it has a font -/
def parseRuns (s : String) : Option (List (List Char × Bool)) :=
  if s = "-" then some []
  else (s.splitOn "+").mapM fun r =>
    match r.splitOn ":" with
    | [t, f] => (decodeStr t).map fun t => (t, f = "1")
    | _ => none

def viewOf (c : Comment) : String :=
  let cell := match c.cell.text? with | some t => String.ofList t | none => "panic"
  ",".intercalate [cell, hx c.author, runsStr c.text, styleStr c.shape.style, tfbStr c.shape.moveWithCells,
    tfbStr c.shape.sizeWithCells, anchorStr c.shape.anchor, u32Str c.shape.row, u32Str c.shape.col, tfbStr c.shape.visible]

def viewAll (cs : List Comment) : String := if cs.isEmpty then "-" else "|".intercalate (cs.map viewOf)

/-- the spec of one comment; the runs still lack their opaque properties -/
def parseSpec (s : String) : Option (Comment × List Bool) :=
  match s.splitOn "," with
  | [cell, au, runs, st, mv, sz, an, rw, cl, vs] => do
    let cell ← Coord.parse? cell.toList
    let au ← decodeStr au
    let runs ← parseRuns runs
    let st ← parseStyle st
    let mv ← parseTfb mv
    let sz ← parseTfb sz
    let an ← parseAnchor an
    let rw ← parseU32Tok rw
    let cl ← parseU32Tok cl
    let vs ← parseTfb vs
    pure ({ cell := cell, author := au, text := runs.map fun r => { text := r.1 },
            shape := { style := st, moveWithCells := mv, sizeWithCells := sz, anchor := an, row := rw, col := cl, visible := vs } },
          runs.map (·.2))
  | _ => none

def kidsNamed (n : Node) (name : List Char) : List Node :=
  n.children.filter fun k => k.isElem && k.name = name

/-- the `<rPr>` elements of the real comments part: per comment, per run -/
def realRprs (root : Node) : List (List (Option Node)) :=
  (kidsNamed root nCommentList).flatMap fun cl =>
    (kidsNamed cl nComment).map fun c =>
      (kidsNamed c nText).flatMap fun t =>
        (kidsNamed t nR).map fun r => (kidsNamed r nRPr).head?

def missingRpr : Node := .elem "rPr-missing-in-real-part".toList [] []

/-- plug the real run properties into the spec'd comment -/
def withRprs (c : Comment) (flags : List Bool) (real : List (Option Node)) : Comment :=
  let rec go : List Run → List Bool → List (Option Node) → List Run
    | r :: rs, f :: fs, p :: ps => { r with rpr := if f then some (p.getD missingRpr) else none } :: go rs fs ps
    | r :: rs, f :: fs, [] => { r with rpr := if f then some missingRpr else none } :: go rs fs []
    | rs, _, _ => rs
  { c with text := go c.text flags real }

def realAuthors (root : Node) : List (List Char) :=
  (kidsNamed root nAuthors).flatMap fun a => (kidsNamed a nAuthor).map fun x => lastText x.children []

def dedup (l : List (List Char)) : List (List Char) := l.foldl (fun acc a => if acc.contains a then acc else acc ++ [a]) []

/-! ### projection of the real VML tree onto the modelled slice -/

def keepAttrs (as : List Attr) (names : List (List Char)) : List Attr := as.filter fun a => names.contains a.name

def projClient (n : Node) : Node :=
  match n with
  | .elem nm as ks =>
    .elem nm (keepAttrs as ["ObjectType".toList]) (ks.filter fun k => k.isElem && [nMove, nSize, nAnchor, nRow, nColumn, nVisible].contains k.name)
  | t => t

def projShape (n : Node) : Node :=
  match n with
  | .elem nm as ks =>
    .elem nm (keepAttrs as ["id".toList, "style".toList]) ((ks.filter fun k => k.isElem && k.name = nClientData).map projClient)
  | t => t

def projVml (n : Node) : Node :=
  match n with
  | .elem nm as ks => .elem nm as (ks.map fun k => if k.isElem && k.name = nShape then projShape k else k)
  | t => t

def joined (croot : Node) (vroot : Option Node) : String :=
  match readComments croot with
  | none => "panic"
  | some rc =>
    match vroot with
    | none => viewAll rc
    | some v =>
      match readVml v with
      | none => "panic"
      | some ss => viewAll (joinShapes rc ss)

def clip (s : String) : String := if s.length > 1500 then (s.take 1500).toString ++ "…" else s

def handleCmt (specs craw vraw : String) : String :=
  match (if specs = "-" then some [] else (specs.splitOn "|").mapM parseSpec), decodeStr craw, decodeStr vraw with
  | some sp, some cx, some vx =>
    match Umya.Spec.Xml.parse cx, Umya.Spec.Xml.parse vx with
    | some croot, some vroot =>
      let rprs := realRprs croot
      let cs := (sp.zip (rprs ++ List.replicate sp.length [])).map fun (p, real) => withRprs p.1 p.2 real
      let tbl := realAuthors croot
      let want := dedup (cs.map (·.author))
      let permOk := tbl.length = want.length && tbl.all want.contains && want.all tbl.contains
      let cmodel := writeComments tbl cs
      let ceq := permOk && (match cmodel with | some m => treeEq m croot | none => false)
      let vmodel := writeVml cs
      let veq := treeEq vmodel (projVml vroot)
      let info :=
        (if ceq then "" else s!" ## cmodel={clip (match cmodel with | some m => showNode m | none => "panic")} creal={clip (showNode croot)}") ++
        (if veq then "" else s!" ## vmodel={clip (showNode vmodel)} vreal={clip (showNode (projVml vroot))}")
      s!"ctree={if ceq then "eq" else "ne"};vtree={if veq then "eq" else "ne"};r={joined croot (some vroot)}{info}"
    | _, _ => "ctree=unparsable"
  | _, _, _ => "bad-op"

def handleCmtr (craw vraw : String) : String :=
  match decodeStr craw with
  | some cx =>
    match Umya.Spec.Xml.parse cx with
    | none => "unmodelled"
    | some croot =>
      if vraw = "-" then s!"r={joined croot none}"
      else match (decodeStr vraw).bind Umya.Spec.Xml.parse with
        | some vroot => s!"r={joined croot (some vroot)}"
        | none => "unmodelled"
  | none => "bad-op"

def handle (args : List String) : Option String :=
  match args with
  | ["cmt", specs, craw, vraw] => some (handleCmt specs craw vraw)
  | ["cmtr", craw, vraw] => some (handleCmtr craw vraw)
  | _ => none

end Umya.Driver.C06Comment
