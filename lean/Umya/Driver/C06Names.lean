import Umya.Driver.Proto
import Umya.Model.AnnotNames
/-! `c06 nm <titles> <names> <ops>`: the model's <definedNames> list and the reloaded homes of a book
    after a history of sheet removals / insertions (Umya/Model/AnnotNames.lean). -/
namespace Umya.Driver.C06Names
open Umya.AnnotNames Umya.Proto

def splitList (s : String) : List String := if s = "" ∨ s = "-" then [] else s.splitOn ","

def optNat (s : String) : Option (Option Nat) := if s = "~" then some none else s.toNat?.map some

def optText (s : String) : Option (Option Text) :=
  if s = "~" then some none
  else if s.startsWith "=" then (decodeStr (s.drop 1).toString).map some
  else none

/-- `scope/name/lsid/addr/first`, scope = `w` or the sheet position -/
def parseItem (s : String) : Option (Option Nat × DN) :=
  match s.splitOn "/" with
  | [sc, n, l, a, f] =>
    match (if sc = "w" then some none else sc.toNat?.map some), decodeStr n, optNat l, decodeStr a, optText f with
    | some sc, some n, some l, some a, some f => some (sc, ⟨n, l, a, f⟩)
    | _, _, _, _, _ => none
  | _ => none

inductive Op where
  | remove (i : Nat)
  | insert (i : Nat) (t : Text)

def parseOp (s : String) : Option Op :=
  if s.startsWith "r" then (s.drop 1).toString.toNat?.map Op.remove
  else if s.startsWith "i" then
    match (s.drop 1).toString.splitOn ":" with
    | [i, t] => match i.toNat?, decodeStr t with
      | some i, some t => some (Op.insert i t)
      | _, _ => none
    | _ => none
  else none

def build (titles : List Text) (items : List (Option Nat × DN)) : Option Book :=
  items.foldlM (fun b it =>
    match it.1 with
    | none => some { b with wb := b.wb ++ [it.2] }
    | some k => if k < b.sheets.length then some { b with sheets := addAt k it.2 b.sheets } else none)
    (emptyBook titles)

def apply (b : Book) : Op → Book
  | .remove i => removeSheet i b
  | .insert i t => insertSheet i ⟨t, []⟩ b

def lsidStr : Option Nat → String
  | some k => toString k
  | none => "~"

def dnStr (d : DN) : String := s!"{encodeStr d.name}/{lsidStr d.lsid}/{encodeStr d.addr}"

def sheetsStr : Nat → List Sheet → List String
  | _, [] => []
  | k, s :: r => s.names.map (fun d => s!"{k}/{dnStr d}") ++ sheetsStr (k + 1) r

def joinItems (l : List String) : String := if l.isEmpty then "-" else ",".intercalate l

def bookStr (b : Book) : String :=
  joinItems (b.wb.map (fun d => s!"w/{dnStr d}") ++ sheetsStr 0 b.sheets)

def handle (args : List String) : Option String :=
  match args with
  | ["nm", titles, names, ops] =>
    match (splitList titles).mapM decodeStr, (splitList names).mapM parseItem, (splitList ops).mapM parseOp with
    | some ts, some items, some ops =>
      match build ts items with
      | some b =>
        let b' := ops.foldl apply b
        let w := write b'
        let r := match read b'.titles w with
          | some back => bookStr back
          | none => "panic"
        some s!"n={b'.sheets.length};w={joinItems (w.map dnStr)};r={r}"
      | none => some "bad-op"
    | _, _, _ => some "bad-op"
  | _ => none

end Umya.Driver.C06Names
