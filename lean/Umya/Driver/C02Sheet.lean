/-
  `c02 sheetbridge rows=… merges=… links=… model=… wb=… names=…`  -> ok | differs <what>   ## counts

  Ties the tree-level writer model of `Umya/Model/SheetNode.lean` and `Umya/Model/WorkbookNode.lean`
  (theorems `C02_sheet_decodes`, `C02_merges_decode`, `C02_hyperlinks_decode`, `C02_book_sheets_decode`) to the
  package just sent with `c02 part`: the harness describes the in-memory workbook (row table, cells, merged
  ranges, hyperlinks per sheet; sheet list and defined names), the driver renders it with the MODEL and compares,
  tree-equal up to attribute order, with what the independent XML reader parsed from the real parts:

    sheetN.xml        `<sheetData>` (rows with the modelled attributes r spans ht customFormat hidden s, every `<c>`),
                      `<mergeCells>`, `<hyperlinks>`, and the sequence of child names of `<worksheet>`
    sheetN.xml.rels   the hyperlink `Relationship`s (they must be the first ones, with the model's ids)
    workbook.xml      `<sheets>`, `<definedNames>` (attributes name, localSheetId; text)
    workbook.xml.rels the worksheet `Relationship`s
    [Content_Types]   the worksheet `Override`s (as a set)

  Below the abstraction (taken from the real tree, not compared): the `cellXfs` index behind a styled cell or
  row, the opaque children of `<worksheet>` / `<workbook>` (the frame), whether `state="visible"` is written.
  It also evaluates the hypotheses of the theorems on the real frame (`Frame.ok`, `colsOk`, `dxfOk`, `ridsOk`) and,
  where they hold, checks the theorems' conclusion on the real package (`decodeSheet` = `sheetView`, no diagnostic).
-/
import Umya.Driver.C02
import Umya.Model.WorkbookNode
namespace Umya.Driver.C02Sheet
open Umya.Spec.Xml Umya.Spec.Sml Umya.Proto Umya.CellXml Umya.CellNode Umya.SheetNode Umya.WorkbookNode

def attrLt (a b : Attr) : Bool := textLt a.name b.name
def insertAttr (a : Attr) : List Attr → List Attr
  | [] => [a]
  | x :: xs => if attrLt a x then a :: x :: xs else x :: insertAttr a xs
def sortAttrs (as : List Attr) : List Attr := as.foldr insertAttr []

/-- canonical text of a tree: attribute order does not matter (the decoder looks attributes up by name) -/
partial def canon : Node → String
  | .text s => s!"T({encodeStr s})"
  | .elem n as cs =>
    let a := (sortAttrs as).map (fun a => s!"{String.ofList a.name}={encodeStr a.value}")
    s!"<{String.ofList n} {" ".intercalate a}>[{"".intercalate (cs.map canon)}]"

def canons (ns : List Node) : String := "".intercalate (ns.map canon)

def keepAttrs (names : List (List Char)) (n : Node) : Node :=
  match n with
  | .elem nm as cs => .elem nm (as.filter (fun a => names.contains a.name)) cs
  | t => t

def rowAttrNames : List (List Char) :=
  [['r'], ['s', 'p', 'a', 'n', 's'], ['h', 't'], ['c', 'u', 's', 't', 'o', 'm', 'F', 'o', 'r', 'm', 'a', 't'], ['h', 'i', 'd', 'd', 'e', 'n'], ['s']]

/-- the real `<sheetData>` restricted to what is modelled: on `<row>` the attributes of `rowAttrs` -/
def restrictSheetData (sd : Node) : Node :=
  match sd with
  | .elem nm as cs => .elem nm as (cs.map (fun r => if localName r.name = nRow then keepAttrs rowAttrNames r else r))
  | t => t

def nameOf (k : Node) : String := str (localName k.name)

/-- the children of the real `<worksheet>` split around the modelled ones -/
structure Split where
  fr : Umya.SheetNode.Frame
  sd : Option Node
  mc : List Node
  ph : List Node
  hl : List Node

def splitKids (attrs : List Attr) (kids : List Node) : Split :=
  let pre := kids.takeWhile (fun k => nameOf k ≠ "sheetData")
  let r1 := kids.dropWhile (fun k => nameOf k ≠ "sheetData")
  let sd := r1.head?
  let r1 := r1.drop 1
  let isMid1 := fun (k : Node) => nameOf k ≠ "mergeCells" ∧ nameOf k ≠ "phoneticPr"
  let mid1 := r1.takeWhile isMid1
  let r2 := r1.dropWhile isMid1
  let mc := r2.takeWhile (fun k => nameOf k = "mergeCells")
  let r3 := r2.dropWhile (fun k => nameOf k = "mergeCells")
  let ph := r3.takeWhile (fun k => nameOf k = "phoneticPr")
  let r4 := r3.dropWhile (fun k => nameOf k = "phoneticPr")
  let isMid2 := fun (k : Node) => nameOf k = "conditionalFormatting" ∨ nameOf k = "dataValidations"
  let mid2 := r4.takeWhile isMid2
  let r5 := r4.dropWhile isMid2
  let hl := r5.takeWhile (fun k => nameOf k = "hyperlinks")
  let post := r5.dropWhile (fun k => nameOf k = "hyperlinks")
  { fr := { attrs := attrs, pre := pre, mid1 := mid1, mid2 := mid2, post := post }, sd := sd, mc := mc, ph := ph, hl := hl }

structure RowIn where
  row : RowW
  styled : Bool

structure SheetIn where
  rows : List RowIn
  merges : List (List Char)
  links : List LinkW

def parseRow (s : String) : Option RowIn :=
  match s.splitOn ":" with
  | [n, ht, hid, st] =>
    match n.toNat?, (if ht = "~" then some none else (decodeStr ht).map some) with
    | some n, some ht => some { row := { num := n, ht := ht, hidden := hid = "1" }, styled := st = "1" }
    | _, _ => none
  | _ => none

def parseLink (s : String) : Option LinkW :=
  match s.splitOn ":" with
  | [r, loc, url, tip] =>
    match decodeStr r, decodeStr url, decodeStr tip with
    | some r, some url, some tip => some { ref := r, url := url, location := loc = "1", tooltip := tip }
    | _, _, _ => none
  | _ => none

def parseListOf {α} (f : String → Option α) (s : String) : Option (List α) :=
  if s = "~" then some [] else (s.splitOn ",").mapM f

def parseSheets (rows merges links : String) : Option (List SheetIn) :=
  let rs := (rows.splitOn "|").mapM (parseListOf parseRow)
  let ms := (merges.splitOn "|").mapM (parseListOf decodeStr)
  let ls := (links.splitOn "|").mapM (parseListOf parseLink)
  match rs, ms, ls with
  | some rs, some ms, some ls =>
    if rs.length = ms.length ∧ ms.length = ls.length then
      some ((rs.zip (ms.zip ls)).map fun (r, m, l) => { rows := r, merges := m, links := l })
    else none
  | _, _, _ => none

def parseSheetE (s : String) : Option SheetE :=
  match s.splitOn ":" with
  | [n, st] => (decodeStr n).map fun n => { name := n, state := some st.toList }
  | _ => none

def parseNameE (s : String) : Option NameE :=
  match s.splitOn ":" with
  | [n, sc, a] =>
    match decodeStr n, (if sc = "~" then some none else sc.toNat?.map some), decodeStr a with
    | some n, some sc, some a => some { name := n, localSheetId := sc, address := a }
    | _, _, _ => none
  | _ => none

structure Out where
  diffs : List String := []
  counts : List (String × Nat) := []

def Out.count (o : Out) (k : String) (n : Nat := 1) : Out :=
  match o.counts.find? (·.1 = k) with
  | some _ => { o with counts := o.counts.map (fun p => if p.1 = k then (p.1, p.2 + n) else p) }
  | none => { o with counts := o.counts ++ [(k, n)] }

def Out.diff (o : Out) (d : String) : Out := { o with diffs := o.diffs ++ [d] }

def Out.cmp (o : Out) (what : String) (rendered actual : String) : Out :=
  let o := o.count what
  if rendered = actual then o else o.diff s!"{what}: model {rendered} file {actual}"

def viewKey (c : CellV) : String :=
  s!"{str c.ref}/{c.kind}/{encodeStr c.value}/{match c.formula with | some f => encodeStr f | none => "~"}/{c.style}/{c.shared.isSome}/{c.sharedChild}"

def linkKey (l : Link) : String :=
  s!"{str l.ref}/{l.external}/{encodeStr l.target}/{match l.location with | some x => encodeStr x | none => "~"}/{match l.tooltip with | some x => encodeStr x | none => "~"}/{match l.display with | some x => encodeStr x | none => "~"}"

def rowKey (r : RowV) : String :=
  s!"{r.num}/{match r.height with | some x => encodeStr x | none => "~"}/{r.hidden}/{match r.style with | some x => toString x | none => "~"}"

def relsPartName (k : Nat) : String := s!"xl/worksheets/_rels/sheet{k + 1}.xml.rels"

/-- one sheet; returns the table after it -/
def bridgeSheet (parts : Package) (nXf nDxf : Nat) (sst : List (List Char)) (k : Nat) (inp : SheetIn) (cells : List Umya.Driver.C02.CellT)
    (tbl : Table) (o : Out) : Table × Out :=
  let F := Umya.Num.textFmt []
  let path := Umya.Driver.C02.sheetPartName k
  match (parts.part? path).bind (·.xml) with
  | none => (tbl, o.diff s!"sheet part {path} missing or malformed")
  | some root =>
    let sp := splitKids root.attrs root.children
    let cellsA := Umya.Driver.C02.cellNodesOf root
    let xf : List Char → Nat := fun ref =>
      match cellsA.find? (fun c => c.attr? ['r'] = some ref) with
      | some c => ((c.attr? ['s']).bind natOf).getD 0
      | none => 0
    let rowsA := ((root.kid? "sheetData").map (·.kids "row")).getD []
    let rowXf : Nat → Nat := fun n =>
      match rowsA.find? (fun r => r.attr? ['r'] = some (Umya.Dec.decDigits n)) with
      | some r => ((r.attr? ['s']).bind natOf).getD 0
      | none => 0
    let rowsW : List RowW := inp.rows.map fun r => { r.row with xf := if r.styled then rowXf r.row.num else 0 }
    let o := (inp.rows.filter (fun (r : RowIn) => r.styled && (rowXf r.row.num == 0))).foldl
      (fun o r => o.diff s!"{path}: row {r.row.num} has a style but no s attribute") o
    let s : SheetW F.Num := { rows := rowsW, cells := cells, merges := inp.merges, links := sortLinks inp.links }
    match renderSheet F xf sp.fr tbl s with
    | none => (tbl, o.diff s!"{path}: the sheet writer model panics")
    | some (tbl', rendered) =>
      let sdR := (rendered.kid? "sheetData").map canon
      let sdA := sp.sd.map (fun n => canon (restrictSheetData n))
      let o := o.cmp "sheetData" (sdR.getD "none") (sdA.getD "none")
      let o := o.count "row" rowsW.length
      let o := o.count "c" cellsA.length
      let o := o.cmp "mergeCells" (canons (mergeNodes s.merges)) (canons sp.mc)
      let o := o.count "mergeCell" s.merges.length
      let o := o.cmp "hyperlinks" (canons (hyperlinkNodes s.links)) (canons sp.hl)
      let o := o.count "hyperlink" s.links.length
      let o := o.count (if s.links.any (·.location) ∧ s.links.any (fun l => !l.location) then "links.mixed" else "links.unmixed")
      let o := o.cmp "phoneticPr" (canon Umya.SheetNode.phoneticPr) (canons sp.ph)
      let o := o.cmp "child-order" (" ".intercalate (rendered.children.map nameOf)) (" ".intercalate (root.children.map nameOf))
      -- the relationships part
      let relsA := (((parts.part? (relsPartName k)).bind (·.xml)).map (·.kids "Relationship")).getD []
      let relsR := relWalk 1 s.links
      let o := o.cmp "sheet-rels" (canons relsR) (canons (relsA.take relsR.length))
      let o := o.count "Relationship.hyperlink" relsR.length
      let o := if (relsA.drop relsR.length).any (fun r => r.attr? ['T', 'y', 'p', 'e'] = some hyperlinkType)
        then o.diff s!"{path}: a hyperlink relationship after the ones of the model" else o
      -- the hypotheses of the theorems on the real frame, and their conclusion on the real package
      let rest := relsA.drop relsR.length
      let hyp := sp.fr.ok && sp.fr.colsOk nXf && sp.fr.dxfOk nDxf && sp.fr.ridsOk (relIds (relWalk 1 s.links ++ rest)) &&
        decide (0 < nXf) && cellsA.all (fun (c : Node) => Nat.blt (xf ((c.attr? ['r']).getD [])) nXf)
      let o := o.count (if hyp then "frame.hypotheses-hold" else "frame.outside-theorem")
      let o :=
        if hyp then
          let (b, errs) := decodeSheet parts path sst nXf nDxf
          let want := sheetView F xf s
          let o := o.count "theorem.checked"
          let o := if errs.isEmpty then o else o.diff s!"{path}: C02_sheet_decodes: diagnostics {errs.take 2}"
          let o := if b.cells.map viewKey = want.cells.map viewKey then o else o.diff s!"{path}: C02_sheet_decodes: cells {b.cells.map viewKey} want {want.cells.map viewKey}"
          let o := if b.merges = want.merges then o else o.diff s!"{path}: C02_merges_decode: {b.merges.map str}"
          let o := if b.links.map linkKey = want.links.map linkKey then o else o.diff s!"{path}: C02_hyperlinks_decode: {b.links.map linkKey} want {want.links.map linkKey}"
          let o := if b.rows.map rowKey = want.rows.map rowKey then o else o.diff s!"{path}: C02_sheet_decodes: rows {b.rows.map rowKey} want {want.rows.map rowKey}"
          if b.noR = false ∧ b.tables.isEmpty then o else o.diff s!"{path}: C02_sheet_decodes: noR / tables"
        else o
      (tbl', o)

def bridge (parts : Package) (sheets : List SheetIn) (model : List (List Umya.Driver.C02.CellT)) (wb : List SheetE) (names : List NameE) : String :=
  let sst := sharedStrings parts sstPath
  let stylesRoot := (parts.part? "xl/styles.xml").bind (·.xml)
  let nXf := match stylesRoot with
    | some sr => ((sr.kid? "cellXfs").map (fun x => (x.kids "xf").length)).getD 1
    | none => 1
  let nDxf := match stylesRoot with
    | some sr => ((sr.kid? "dxfs").map (fun x => (x.kids "dxf").length)).getD 0
    | none => 0
  let o : Out := {}
  let o := if sheets.length = model.length ∧ sheets.length = wb.length then o else o.diff "sheet counts differ between rows / model / wb"
  let (_, o) := ((sheets.zip model).zipIdx).foldl (fun (acc : Table × Out) ((inp, cells), k) =>
    bridgeSheet parts nXf nDxf sst k inp cells acc.1 acc.2) (([] : Table), o)
  -- the workbook part
  let o := match (parts.part? "xl/workbook.xml").bind (·.xml) with
    | none => o.diff "xl/workbook.xml missing or malformed"
    | some root =>
      let actualSheets : List Node := ((root.kid? "sheets").map (fun (x : Node) => x.kids "sheet")).getD []
      -- `state="visible"` written or not: below the abstraction
      let wb' : List SheetE := (wb.zip (actualSheets.map some ++ List.replicate wb.length none)).map fun ((s : SheetE), (a : Option Node)) =>
        match a with
        | some a => if s.state = some ['v', 'i', 's', 'i', 'b', 'l', 'e'] ∧ (a.attr? ['s', 't', 'a', 't', 'e']).isNone then { s with state := none } else s
        | none => s
      let o := o.cmp "sheets" (canon (Node.elem nSheets [] (sheetEls 1 wb'))) (canons (root.kids "sheets"))
      let o := o.count "sheet" wb.length
      let o := o.count "sheet.hidden" (wb.filter (fun (s : SheetE) => s.state ≠ some ['v', 'i', 's', 'i', 'b', 'l', 'e'])).length
      let dnA : List Node := (root.kids "definedNames").map fun (n : Node) =>
        match n with
        | Node.elem nm as cs => Node.elem nm as (cs.map (keepAttrs [['n', 'a', 'm', 'e'], ['l', 'o', 'c', 'a', 'l', 'S', 'h', 'e', 'e', 't', 'I', 'd']]))
        | t => t
      let o := o.cmp "definedNames" (canons (definedNamesNodes names)) (canons dnA)
      let o := o.count "definedName" names.length
      let fr : WbFrame := { pre := root.children.takeWhile (fun k => nameOf k ≠ "sheets"),
                            post := (root.children.dropWhile (fun k => nameOf k ≠ "sheets")).drop (1 + (root.kids "definedNames").length) }
      let o := o.cmp "workbook-child-order" (" ".intercalate ((workbookNode fr wb' names).children.map nameOf)) (" ".intercalate (root.children.map nameOf))
      let o := o.count (if fr.ok && namesDistinct wb then "workbook.hypotheses-hold" else "workbook.outside-theorem")
      o
  let o := match (parts.part? "xl/_rels/workbook.xml.rels").bind (·.xml) with
    | none => o.diff "xl/_rels/workbook.xml.rels missing or malformed"
    | some root =>
      let relsA := root.kids "Relationship"
      let o := o.cmp "workbook-rels" (canons (wsRels 1 wb.length)) (canons (relsA.take wb.length))
      let o := o.count "Relationship.worksheet" wb.length
      if (relsA.drop wb.length).any (fun r => r.attr? ['T', 'y', 'p', 'e'] = some worksheetType)
        then o.diff "a worksheet relationship after the ones of the model" else o
  let o := match (parts.part? "[Content_Types].xml").bind (·.xml) with
    | none => o.diff "[Content_Types].xml missing or malformed"
    | some root =>
      let ovA := (root.kids "Override").filter (fun (n : Node) => ((n.attr? ['P', 'a', 'r', 't', 'N', 'a', 'm', 'e']).getD []).take 20 = ['/', 'x', 'l', '/', 'w', 'o', 'r', 'k', 's', 'h', 'e', 'e', 't', 's', '/', 's', 'h', 'e', 'e', 't'])
      let o := o.cmp "content-types" (" ".intercalate (Umya.Driver.C02.sortStrings (((List.range wb.length).map (fun i => sheetOverride (i + 1))).map canon)))
        (" ".intercalate (Umya.Driver.C02.sortStrings (ovA.map canon)))
      o.count "Override.worksheet" wb.length
  let info := " ".intercalate (o.counts.map (fun p => s!"{p.1}={p.2}"))
  if o.diffs.isEmpty then s!"ok ## {info}" else s!"differs {" | ".intercalate (o.diffs.take 3)} ## {info}"

def handle (parts : Package) (args : List String) : String :=
  match args with
  | [rows, merges, links, model, wb, names] =>
    let dp := Umya.Driver.C01.dropPrefix?
    match dp "rows=" rows, dp "merges=" merges, dp "links=" links, dp "model=" model, dp "wb=" wb, dp "names=" names with
    | some r, some m, some l, some md, some w, some n =>
      match parseSheets r m l, Umya.Driver.C02.parseModel md, (w.splitOn "|").mapM parseSheetE, parseListOf parseNameE n with
      | some sheets, some model, some wb, some names => bridge parts sheets model wb names
      | _, _, _, _ => "bad-op"
    | _, _, _, _, _, _ => "bad-op"
  | _ => "bad-op"

end Umya.Driver.C02Sheet
