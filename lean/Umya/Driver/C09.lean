import Umya.Driver.Proto
import Umya.Model.Formula
import Umya.Spec.Refs
namespace Umya.Driver.C09
open Umya.Coord Umya.Proto Umya.Formula

def ttName : TT → String
  | .noop => "Noop" | .operand => "Operand" | .function => "Function"
  | .subexpression => "Subexpression" | .argument => "Argument" | .opPrefix => "OperatorPrefix"
  | .opInfix => "OperatorInfix" | .opPostfix => "OperatorPostfix" | .whitespace => "Whitespace"
  | .unknown => "Unknown"

def stName : ST → String
  | .nothing => "Nothing" | .start => "Start" | .stop => "Stop" | .text => "Text"
  | .number => "Number" | .logical => "Logical" | .error => "Error" | .range => "Range"
  | .math => "Math" | .concatenation => "Concatenation" | .intersection => "Intersection"
  | .union => "Union"

/-- the array-constant mark (crate-private `ArrayPart`, observed through the `verif_array_part` hook) -/
def arrName : Arr → String
  | .none => "" | .array => "~Array" | .row => "~Row"

def dumpTokens (l : List Tok) : String :=
  if l.isEmpty then "-"
  else ",".intercalate (l.map fun t => s!"{ttName t.ty}.{stName t.sub}:{encodeStr t.val}{arrName t.arr}")

def textReply : Res (List Char) → String
  | .ok t => encodeStr t
  | .panic => "panic"

def sheet1 : List Char := "Sheet1".toList

def handle (args : List String) : String :=
  match args with
  | "ident" :: h :: _ =>
    match decodeStr h with
    | some s =>
      (match parse ('=' :: s) with
       | .ok toks => s!"{encodeStr (render toks)} {dumpTokens toks}"
       | .panic => "panic")
    | none => "bad-op"
  | "setcoord" :: h :: c0 :: r0 :: c1 :: r1 :: _ =>
    match decodeStr h, c0.toNat?, r0.toNat?, c1.toNat?, r1.toNat? with
    | some s, some c0, some r0, some c1, some r1 =>
      textReply (setCoordinate s ((c1 : Int) - c0) ((r1 : Int) - r0))
    | _, _, _, _, _ => "bad-op"
  -- a member of a shared formula one row below its master (the reader expands it with the same adjuster), then moved
  | "setcoordsh" :: h :: c0 :: r0 :: c1 :: r1 :: _ =>
    match decodeStr h, c0.toNat?, r0.toNat?, c1.toNat?, r1.toNat? with
    | some s, some c0, some r0, some c1, some r1 =>
      (match setCoordinate s 0 1 with
       | .ok t => textReply (setCoordinate t ((c1 : Int) - c0) ((r1 : Int) - r0))
       | .panic => "panic")
    | _, _, _, _, _ => "bad-op"
  | "adj" :: h :: dc :: dr :: _ =>
    match decodeStr h, dc.toInt?, dr.toInt? with
    | some s, some dc, some dr =>
      (match parse ('=' :: s) with
       | .panic => "panic"
       | .ok toks =>
         match adjustFormulaCoordinate toks dc dr with
         | .panic => "panic"
         | .ok t => encodeStr (render t))
    | _, _, _ => "bad-op"
  | "clean" :: h :: _ =>
    match decodeStr h with
    | some s => if Umya.Spec.Clean s then "1" else "0"
    | none => "bad-op"
  | "insfar" :: h :: row :: _ =>
    match decodeStr h, row.toNat? with
    | some s, some row => textReply (editFormula .insert s 0 0 row 1 sheet1 sheet1)
    | _, _ => "bad-op"
  | _ => "bad-op"

end Umya.Driver.C09
