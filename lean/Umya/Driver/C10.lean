import Umya.Driver.Proto
import Umya.Model.Sheet
namespace Umya.Driver.C10
open Umya.Sheet Umya.Coord

structure St where
  sheet : Sheet := {}
  dead : Bool := false     -- the implementation panicked in this case: state undefined until reset

def joinWith (sep : String) (l : List String) : String := sep.intercalate l

def insertKeySorted (p : Key × CellM) : List (Key × CellM) → List (Key × CellM)
  | [] => [p]
  | x :: xs => if keyLt p.1 x.1 then p :: x :: xs else x :: insertKeySorted p xs

def insertRowKeySorted (p : Nat × RowM) : List (Nat × RowM) → List (Nat × RowM)
  | [] => [p]
  | x :: xs => if p.1 < x.1 then p :: x :: xs else x :: insertRowKeySorted p xs

def dump (s : Sheet) : String :=
  let cells := (s.cells.foldr insertKeySorted []).map
    (fun p => s!"{p.1.1}.{p.1.2}.{p.2.row}.{p.2.col}.{p.2.val}.{p.2.sty}")
  let rc := (coordsByRowCol s).map (fun k => s!"{k.1}.{k.2}")
  let cr := (coordsByColRow s).map (fun k => s!"{k.1}.{k.2}")
  let hi := highest s
  let dim := match dimension s with | some (c, r) => s!"{c}.{r}" | none => "-"
  let rows := (s.rows.foldr insertRowKeySorted []).map (fun p => s!"{p.1}.{p.2.num}.{p.2.sty}")
  let cols := s.cols.map (fun c => s!"{c.num}.{c.sty}")
  s!"cells={joinWith "," cells};rc={joinWith "," rc};cr={joinWith "," cr};hi={hi.1}.{hi.2};dim={dim};rows={joinWith "," rows};cols={joinWith "," cols}"

def nat? (s : String) : Option Nat := s.toNat?
def int? (s : String) : Option Int := s.toInt?
def optNat? (s : String) : Option (Option Nat) := if s = "-" then some none else s.toNat?.map some

def mutate (st : St) (r : Res Sheet) : St × String :=
  match r with
  | .ok s => ({ st with sheet := s }, "ok " ++ dump s)
  | .panic => ({ st with dead := true }, "panic")

def cellStr (c : CellM) : String := s!"{c.row}.{c.col}.{c.val}.{c.sty}"

def handle (st : St) (args : List String) : St × String :=
  match args with
  | ["reset"] => ({}, "ok")
  | _ =>
  if st.dead then (st, "dead") else
  let s := st.sheet
  match args with
  | ["dump"] => (st, dump s)
  | ["getmut", c, r] => match nat? c, nat? r with
    | some c, some r => mutate st (step s (.getMut c r)) | _, _ => (st, "bad-op")
  | ["setval", c, r, v] => match nat? c, nat? r, nat? v with
    | some c, some r, some v => mutate st (step s (.setVal c r v)) | _, _, _ => (st, "bad-op")
  | ["setcell", c, r, v, sy] => match nat? c, nat? r, nat? v, nat? sy with
    | some c, some r, some v, some sy => mutate st (step s (.setCell c r v sy)) | _, _, _, _ => (st, "bad-op")
  | ["remove", c, r] => match nat? c, nat? r with
    | some c, some r => mutate st (step s (.removeCell c r)) | _, _ => (st, "bad-op")
  | ["setstyle", c, r, sy] => match nat? c, nat? r, nat? sy with
    | some c, some r, some sy => mutate st (step s (.setStyle c r sy)) | _, _, _ => (st, "bad-op")
  | ["stylerect", rs, re, cs, ce, sy] => match nat? rs, nat? re, nat? cs, nat? ce, nat? sy with
    | some rs, some re, some cs, some ce, some sy => mutate st (step s (.setStyleRect rs re cs ce sy))
    | _, _, _, _, _ => (st, "bad-op")
  -- set_style_by_range("4:5") / ("E:F"): `get_start_and_end_point` asserts that both axes are
  -- present ("Non-standard range"), so the row-only / column-only branches are unreachable
  | ["rowsty2", r, _sy] => match nat? r with
    | some r =>
      (match getStartAndEndPoint (Umya.Dec.decDigits r ++ [':'] ++ Umya.Dec.decDigits (r + 1)) with
       | .panic => ({ st with dead := true }, "panic")
       | .ok _ => (st, "unmodelled"))
    | none => (st, "bad-op")
  | ["colsty2", c, _sy] => match nat? c with
    | some c =>
      (match getStartAndEndPoint (indexToAlpha c ++ [':'] ++ indexToAlpha (c + 1)) with
       | .panic => ({ st with dead := true }, "panic")
       | .ok _ => (st, "unmodelled"))
    | none => (st, "bad-op")
  | ["insrows", p, n] => match nat? p, nat? n with
    | some p, some n => mutate st (step s (.insRows p n)) | _, _ => (st, "bad-op")
  | ["inscols", p, n] => match nat? p, nat? n with
    | some p, some n => mutate st (step s (.insCols p n)) | _, _ => (st, "bad-op")
  | ["remrows", p, n] => match nat? p, nat? n with
    | some p, some n => mutate st (step s (.remRows p n)) | _, _ => (st, "bad-op")
  | ["remcols", p, n] => match nat? p, nat? n with
    | some p, some n => mutate st (step s (.remCols p n)) | _, _ => (st, "bad-op")
  | [mv, rs, re, cs, ce, dr, dc] =>
    if mv = "move" ∨ mv = "copy" then
      match nat? rs, nat? re, nat? cs, nat? ce, int? dr, int? dc with
      | some rs, some re, some cs, some ce, some dr, some dc =>
        mutate st (moveOrCopy s rs re cs ce dr dc (mv = "move"))
      | _, _, _, _, _, _ => (st, "bad-op")
    else (st, "bad-op")
  | ["cleanup"] => mutate st (step s .cleanup)
  | ["copyrowsty", a, b, x, y] => match nat? a, nat? b, optNat? x, optNat? y with
    | some a, some b, some x, some y => mutate st (step s (.copyRowStyling a b x y)) | _, _, _, _ => (st, "bad-op")
  | ["copycolsty", a, b, x, y] => match nat? a, nat? b, optNat? x, optNat? y with
    | some a, some b, some x, some y => mutate st (step s (.copyColStyling a b x y)) | _, _, _, _ => (st, "bad-op")
  -- observers
  | ["get", c, r] => match nat? c, nat? r with
    | some c, some r => (st, match getCell s c r with | some x => cellStr x | none => "-")
    | _, _ => (st, "bad-op")
  | ["byrow", r] => match nat? r with
    | some r => (st, joinWith "," ((colsInRow s r).map toString)) | none => (st, "bad-op")
  | ["bycol", c] => match nat? c with
    | some c => (st, joinWith "," ((rowsInCol s c).map toString)) | none => (st, "bad-op")
  | ["byrange", rs, re, cs, ce] => match nat? rs, nat? re, nat? cs, nat? ce with
    | some rs, some re, some cs, some ce =>
      (st, match coordsInRange s rs re cs ce with
           | .ok l => joinWith "," (l.map (fun k => s!"{k.1}.{k.2}")) | .panic => "panic")
    | _, _, _, _ => (st, "bad-op")
  | ["emit"] =>
    let e := (emitted s).filter (fun c => c.val ≠ 0 ∨ c.sty ≠ 0)
    (st, joinWith "," (e.map (fun c => s!"{c.col}.{c.row}")))
  | _ => (st, "bad-op")

end Umya.Driver.C10
