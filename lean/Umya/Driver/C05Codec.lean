/-
  `c05 codecx …`: the tie of the concrete style codecs (Umya/Model/StyleCodec.lean, theorems C05_*_codec).

    c05 codecx cell <enc> <styles.xml hex> <sheet1.xml hex> <getters>
    c05 codecx row <num> <fields> <enc> <styles.xml hex> <sheet1.xml hex> <getters>
    c05 codecx col <num> <fields> <enc> <styles.xml hex> <sheet1.xml hex> <getters>

  `enc` is the style wire encoding of harness/src/c05.rs; the harness built the real style from it through the public
  setters, put it on cell A1 / the row / the column of a new workbook, saved, and read the saved file back.  The two XML
  parts are lexed here by the independent XML reader (Umya/Spec/XmlLex.lean).  Checked per component present in `enc`:
    (a) the real element (found through the xf of the cell / row / column) is tree-equal, attribute order aside, to
        `write x` of the model value `x` built from `enc` by the model's setters;
    (b) `read` of the model applied to the REAL element, seen through `eff`, equals the getters of the reloaded workbook.
  Reply: `ok ## <counts>` or `diff <first difference>`.
-/
import Umya.Driver.Proto
import Umya.Model.StyleCodec
import Umya.Model.Num
import Umya.Model.Style
namespace Umya.Driver.C05Codec
open Umya.StyleCodec Umya.Proto
open Umya.Spec.Xml (Node Attr)

/-- parse-then-display on Display texts: the identity on the `f64: FromStr` grammar, `0` otherwise -/
def cf (t : Tok) : Tok := if Umya.Num.floatSyntax t then t else zeroTok

def optS (s : String) : Option String := if s = "-" then none else some s

def fields (s : String) : Option (List (String × String)) :=
  if s = "" then some [] else
  (s.splitOn ",").mapM (fun kv =>
    match kv.splitOn "=" with
    | [k, v] => some (k, v)
    | _ => none)

def b01 (v : String) : Bool := v = "1"

/-- `parse_color` of the harness: kind, value, tint -/
def parseColor : List String → Option Color
  | [k, v, t] =>
    let base : Option Color :=
      if k = "a" then (decodeStr v).map (fun a => ({} : Color).setArgb a)
      else if k = "i" then v.toNat?.map (fun n => ({} : Color).setIndexed n)
      else if k = "t" then v.toNat?.map (fun n => ({} : Color).setTheme n)
      else if k = "-" then some {}
      else none
    base.map (fun c => if t = "-" then c else c.setTint t.toList)
  | _ => none

def parseFont (s : String) : Option Font := do
  let fs ← fields s
  fs.foldlM (fun (f : Font) (kv : String × String) =>
    let (k, v) := kv
    if k = "n" then (decodeStr v).map (fun n => { f with name := some n })
    else if k = "z" then some { f with size := some v.toList }
    else if k = "y" then v.toInt?.map (fun z => { f with family := some z })
    else if k = "b" then some { f with bold := some (b01 v) }
    else if k = "i" then some { f with italic := some (b01 v) }
    else if k = "u" then (Underline.fromStr v.toList).map (fun u => { f with underline := some u })
    else if k = "s" then some { f with strike := some (b01 v) }
    else if k = "c" then (parseColor (v.splitOn "~")).map (fun c => { f with color := c })
    else if k = "h" then v.toInt?.map (fun z => { f with charset := some z })
    else if k = "m" then (FontScheme.fromStr v.toList).map (fun u => { f with scheme := some u })
    else if k = "v" then (VertRun.fromStr v.toList).map (fun u => { f with vertAlign := some u })
    else none) {}

def parsePattern (s : String) : Option PatternFill := do
  let fs ← fields s
  fs.foldlM (fun (p : PatternFill) (kv : String × String) =>
    let (k, v) := kv
    if k = "t" then (Pattern.fromStr v.toList).map (fun t => { p with patternType := some t })
    else if k = "f" then (parseColor (v.splitOn "~")).map (fun c => { p with fg := some c })
    else if k = "b" then (parseColor (v.splitOn "~")).map (fun c => { p with bg := some c })
    else none) {}

def parseGradient (s : String) : Option GradientFill :=
  match s.splitOn "," with
  | deg :: stops =>
    (stops.mapM (fun (st : String) =>
      match st.splitOn "~" with
      | pos :: col => (parseColor col).map (fun c => ({ position := some pos.toList, color := c } : GradientStop))
      | _ => none)).map (fun ss => { degree := some deg.toList, stops := ss })
  | _ => none

def parseEdge (b : Border) (v : String) : Option Border :=
  match v.splitOn "~" with
  | st :: rest =>
    let sty : Option (Option BorderStyle) := if st = "-" then some b.style else (BorderStyle.fromStr st.toList).map some
    match sty, parseColor rest with
    | some sty, some c => some { style := sty, color := c }
    | _, _ => none
  | _ => none

def parseBorders (s : String) : Option Borders := do
  let fs ← fields s
  fs.foldlM (fun (b : Borders) (kv : String × String) =>
    let (k, v) := kv
    if k = "dd" then some { b with diagonalDown := some (b01 v) }
    else if k = "du" then some { b with diagonalUp := some (b01 v) }
    else if k = "l" then (parseEdge b.left v).map (fun e => { b with left := e })
    else if k = "r" then (parseEdge b.right v).map (fun e => { b with right := e })
    else if k = "t" then (parseEdge b.top v).map (fun e => { b with top := e })
    else if k = "b" then (parseEdge b.bottom v).map (fun e => { b with bottom := e })
    else if k = "d" then (parseEdge b.diagonal v).map (fun e => { b with diagonal := e })
    else if k = "v" then (parseEdge b.vertical v).map (fun e => { b with vertical := e })
    else if k = "h" then (parseEdge b.horizontal v).map (fun e => { b with horizontal := e })
    else none) {}

def parseAlignment (s : String) : Option Alignment := do
  let fs ← fields s
  fs.foldlM (fun (a : Alignment) (kv : String × String) =>
    let (k, v) := kv
    if k = "h" then (HAlign.fromStr v.toList).map (fun x => { a with horizontal := some x })
    else if k = "v" then (VAlign.fromStr v.toList).map (fun x => { a with vertical := some x })
    else if k = "w" then some { a with wrapText := some (b01 v) }
    else if k = "r" then v.toNat?.map (fun n => { a with textRotation := some n })
    else none) {}

def parseProtection (s : String) : Option Protection := do
  let fs ← fields s
  fs.foldlM (fun (p : Protection) (kv : String × String) =>
    let (k, v) := kv
    if k = "k" then some { p with locked := some (b01 v) }
    else if k = "h" then some { p with hidden := some (b01 v) }
    else none) {}

structure CStyle where
  font : Option Font := none
  fill : Option Fill := none
  borders : Option Borders := none
  alignment : Option Alignment := none
  protection : Option Protection := none
  code : Option Tok := none          -- `Nc`: set_format_code
  builtinId : Option Nat := none     -- `Ni`: set_number_format_id

def parseComp (st : CStyle) (comp : String) : Option CStyle :=
  let tag := String.ofList (comp.toList.take 1)
  let rest := String.ofList (comp.toList.drop 1)
  if tag = "F" then (parseFont rest).map (fun f => { st with font := some f })
  else if tag = "P" then (parsePattern rest).map (fun p => { st with fill := some { pattern := some p } })
  else if tag = "G" then (parseGradient rest).map (fun g => { st with fill := some { gradient := some g } })
  else if tag = "E" then some { st with fill := some {} }
  else if tag = "B" then (parseBorders rest).map (fun b => { st with borders := some b })
  else if tag = "A" then (parseAlignment rest).map (fun a => { st with alignment := some a })
  else if tag = "L" then (parseProtection rest).map (fun p => { st with protection := some p })
  else if tag = "X" then some st
  else if tag = "N" then
    let k := String.ofList (rest.toList.take 1)
    let v := String.ofList (rest.toList.drop 1)
    if k = "i" then v.toNat?.map (fun id => { st with builtinId := some id, code := none })
    else if k = "c" then (decodeStr v).map (fun c => { st with code := some c, builtinId := none })
    else none
  else none

def parseStyle (enc : String) : Option CStyle :=
  if enc = "-" then some {} else (enc.splitOn "/").foldlM parseComp {}

/-! ### tree comparison (attribute order aside) -/

def insertAttr (a : Attr) : List Attr → List Attr
  | [] => [a]
  | b :: l => if String.ofList a.name < String.ofList b.name then a :: b :: l else b :: insertAttr a l

def sortAttrs (as : List Attr) : List Attr := as.foldr insertAttr []

partial def canonNode : Node → Node
  | .elem n as cs => .elem n (sortAttrs as) (cs.map canonNode)
  | .text s => .text s

def nodeStr (n : Node) : String := ((repr (canonNode n)).pretty 100000000).replace "\n" " "

def sameTree (a b : Node) : Bool := nodeStr a = nodeStr b

/-! ### descriptors: the getters of the reloaded workbook, and `eff` of the model -/

def bs (b : Bool) : String := if b then "1" else "0"
def ts (t : Tok) : String := String.ofList t

def colorDesc (c : ColorEff) : String := s!"{encodeStr c.argb}~{c.indexed}~{c.theme}~{ts c.tint}"

def fontDesc (e : FontEff) : List (String × String) :=
  [("font.name", encodeStr e.name), ("font.size", ts e.size), ("font.family", toString e.family),
   ("font.bold", bs e.bold), ("font.italic", bs e.italic), ("font.underline", e.underline.toStr),
   ("font.strike", bs e.strike), ("font.color", colorDesc e.color), ("font.charset", toString e.charset),
   ("font.scheme", e.scheme.toStr), ("font.vertAlign", e.vertAlign.toStr)]

def fillDesc (e : FillEff) : List (String × String) :=
  [("fill.pattern", e.pattern.patternType.toStr), ("fill.fg", colorDesc e.pattern.fg), ("fill.bg", colorDesc e.pattern.bg),
   ("fill.gradient", match e.gradient with
      | none => "-"
      | some (deg, stops) => s!"{ts deg}:{";".intercalate (stops.map (fun p => s!"{ts p.1}@{colorDesc p.2}"))}")]

def edgeDesc (n : String) (e : BorderEff) : List (String × String) :=
  [(s!"border.{n}.style", e.style.toStr), (s!"border.{n}.color", colorDesc e.color)]

def bordersDesc (e : BordersEff) : List (String × String) :=
  edgeDesc "left" e.left ++ edgeDesc "right" e.right ++ edgeDesc "top" e.top ++ edgeDesc "bottom" e.bottom ++
  edgeDesc "diagonal" e.diagonal ++ edgeDesc "vertical" e.vertical ++ edgeDesc "horizontal" e.horizontal ++
  [("border.diagonalDown", bs e.diagonalDown), ("border.diagonalUp", bs e.diagonalUp)]

def alignDesc (e : AlignmentEff) : List (String × String) :=
  [("align.horizontal", e.horizontal.toStr), ("align.vertical", e.vertical.toStr), ("align.wrap", bs e.wrapText),
   ("align.rotation", toString e.textRotation)]

def protDesc (p : Protection) : List (String × String) :=
  [("prot.locked", bs (p.locked.getD false)), ("prot.hidden", bs (p.hidden.getD false))]

def rowDesc (e : RowEff) : List (String × String) :=
  [("row.height", ts e.height), ("row.customHeight", bs e.customHeight), ("row.hidden", bs e.hidden),
   ("row.thickBot", bs e.thickBot), ("row.descent", ts e.descent)]

def colDesc (e : ColEff) : List (String × String) :=
  [("col.width", ts e.width), ("col.hidden", bs e.hidden), ("col.bestFit", bs e.bestFit)]

def parseDesc (s : String) : List (String × String) :=
  (s.splitOn "|").filterMap (fun kv =>
    match kv.splitOn "=" with
    | [k, v] => some (k, v)
    | _ => none)

/-! ### the check -/

structure Acc where
  diffs : List String := []
  trees : Nat := 0
  attrs : Nat := 0

def Acc.tree (o : Acc) (what : String) (model : Node) (real : Option Node) : Acc :=
  match real with
  | none => { o with diffs := o.diffs ++ [s!"{what}: element not found in the written part"] }
  | some r =>
    if sameTree model r then { o with trees := o.trees + 1 }
    else { o with diffs := o.diffs ++ [s!"tree {what}: model {nodeStr model} real {nodeStr r}"] }

def Acc.desc (o : Acc) (getters : List (String × String)) (model : List (String × String)) : Acc :=
  model.foldl (fun o (k, v) =>
    match getters.lookup k with
    | some g => if g = v then { o with attrs := o.attrs + 1 }
                else { o with diffs := o.diffs ++ [s!"read {k}: model {v} reloaded {g}"] }
    | none => { o with diffs := o.diffs ++ [s!"read {k}: no getter value sent"] }) o

def Acc.panic (o : Acc) (what : String) : Acc := { o with diffs := o.diffs ++ [s!"read {what}: model reader panics"] }

def nth (n : Option Node) (tbl el : String) (i : Nat) : Option Node :=
  (n.bind (·.kid? tbl)).bind (fun t => (t.kids el)[i]?)

def natAttr (n : Node) (k : String) : Nat := ((n.attr? k.toList).bind (fun v => (String.ofList v).toNat?)).getD 0

/-- everything a style brings: font / fill / border through the ids of the xf, alignment / protection inside it, the
    custom number format through numFmtId -/
def checkStyle (o : Acc) (cs : CStyle) (styles : Option Node) (xfIdx : Nat) (getters : List (String × String)) : Acc :=
  match nth styles "cellXfs" "xf" xfIdx with
  | none => { o with diffs := o.diffs ++ [s!"xf {xfIdx} not found"] }
  | some xf =>
    let o := match cs.font with
      | none => o
      | some f =>
        let real := nth styles "fonts" "font" (natAttr xf "fontId")
        let o := o.tree "font" f.write real
        match real.map (Font.read cf) with
        | some (some g) => o.desc getters (fontDesc g.eff)
        | some none => o.panic "font"
        | none => o
    let o := match cs.fill with
      | none => o
      | some f =>
        let real := nth styles "fills" "fill" (natAttr xf "fillId")
        let o := o.tree "fill" f.write real
        match real.map (Fill.read cf) with
        | some (some g) => o.desc getters (fillDesc g.eff)
        | some none => o.panic "fill"
        | none => o
    let o := match cs.borders with
      | none => o
      | some b =>
        let real := nth styles "borders" "border" (natAttr xf "borderId")
        let o := o.tree "border" b.write real
        match real.map (Borders.read cf) with
        | some (some g) => o.desc getters (bordersDesc g.eff)
        | some none => o.panic "border"
        | none => o
    let o := match cs.alignment with
      | none => o
      | some a =>
        let real := xf.kid? "alignment"
        let o := o.tree "alignment" a.write real
        match real.map Alignment.read with
        | some (some g) => o.desc getters (alignDesc g.eff)
        | some none => o.panic "alignment"
        | none => o
    let o := match cs.protection with
      | none => o
      | some p =>
        let real := xf.kid? "protection"
        let o := o.tree "protection" p.write real
        match real.map Protection.read with
        | some (some g) => o.desc getters (protDesc g)
        | some none => o.panic "protection"
        | none => o
    let id := natAttr xf "numFmtId"
    let custom := ((styles.bind (·.kid? "numFmts")).map (·.kids "numFmt")).getD []
    let realNf := custom.find? (fun n => natAttr n "numFmtId" = id)
    match cs.code, cs.builtinId with
    | some code, _ =>
      if (Umya.Style.builtinCodes.any (fun p => p.2 == code)) then
        -- a code of the built-in table is not written; the reloaded code is the table's
        (match realNf with
         | some _ => { o with diffs := o.diffs ++ ["numFmt: a built-in code was written as a custom format"] }
         | none => o.desc getters [("numfmt.code", encodeStr ((Umya.Style.builtin id).getD []))])
      else
        let o := o.tree "numFmt" (NumFmt.write { id := id, code := code }) realNf
        (match realNf.map NumFmt.read with
         | some (some g) => o.desc getters [("numfmt.code", encodeStr g.code)]
         | some none => o.panic "numFmt"
         | none => o)
    | none, some bid =>
      (match realNf with
       | some _ => { o with diffs := o.diffs ++ ["numFmt: a built-in id was written as a custom format"] }
       | none => if id = bid then o.desc getters [("numfmt.code", encodeStr ((Umya.Style.builtin id).getD []))]
                 else { o with diffs := o.diffs ++ [s!"numFmt: built-in id {bid} written as {id}"] })
    | none, none => o

def parseXml (h : String) : Option Node := (decodeStr h).bind Umya.Spec.Xml.parse

def finish (o : Acc) : String :=
  match o.diffs with
  | [] => s!"ok ## trees={o.trees} attrs={o.attrs}"
  | d :: _ => s!"diff {d}"

def sheetRows (sheet : Option Node) : List Node := ((sheet.bind (·.kid? "sheetData")).map (·.kids "row")).getD []

/-- the row setters of the harness, in the order of the field list: h (set_height: also customHeight), c, d (hidden), t, s -/
def parseRow (num : Nat) (s : String) : Option Row := do
  let fs ← fields (if s = "-" then "" else s)
  fs.foldlM (fun (r : Row) (kv : String × String) =>
    let (k, v) := kv
    if k = "h" then some { r with height := some v.toList, customHeight := some true }
    else if k = "c" then some { r with customHeight := some (b01 v) }
    else if k = "d" then some { r with hidden := some (b01 v) }
    else if k = "t" then some { r with thickBot := some (b01 v) }
    else if k = "s" then some { r with descent := some v.toList }
    else none) { num := num }

def parseCol (s : String) : Option Col := do
  let fs ← fields (if s = "-" then "" else s)
  fs.foldlM (fun (c : Col) (kv : String × String) =>
    let (k, v) := kv
    if k = "w" then some { c with width := v.toList }
    else if k = "d" then some { c with hidden := some (b01 v) }
    else if k = "b" then some { c with bestFit := some (b01 v) }
    else none) { width := defaultWidth }

def handle (args : List String) : String :=
  match args with
  | ["cell", enc, stylesH, sheetH, getters] =>
    (match parseStyle enc with
     | none => "bad-op"
     | some cs =>
       let styles := parseXml stylesH
       let sheet := parseXml sheetH
       if styles.isNone || sheet.isNone then "diff a written part is not well-formed XML" else
       let cell := (sheetRows sheet).flatMap (·.kids "c") |>.find? (fun c => c.attr? "r".toList = some "A1".toList)
       match cell with
       | none => "diff cell A1 not found in the sheet part"
       | some c => finish (checkStyle {} cs styles (natAttr c "s") (parseDesc getters)))
  | ["row", num, flds, enc, stylesH, sheetH, getters] =>
    (match num.toNat?, parseStyle enc with
     | some num, some cs =>
       (match parseRow num flds with
        | none => "bad-op"
        | some r =>
          let styles := parseXml stylesH
          let sheet := parseXml sheetH
          if styles.isNone || sheet.isNone then "diff a written part is not well-formed XML" else
          match (sheetRows sheet).find? (fun x => natAttr x "r" = num) with
          | none => "diff the row is not in the sheet part"
          | some real =>
            let xf := natAttr real "s"
            let g := parseDesc getters
            let o : Acc := {}
            let o := o.tree "row" (r.write xf (real.attr? "spans".toList) real.children) (some real)
            let o := match Row.read cf 0 real with
              | some (rr, s) =>
                let o := o.desc g (rowDesc rr.eff)
                if s.getD 0 = xf then o else { o with diffs := o.diffs ++ ["read row.s: model reads another style index"] }
              | none => o.panic "row"
            finish (checkStyle o cs styles xf g))
     | _, _ => "bad-op")
  | ["col", num, flds, enc, stylesH, sheetH, getters] =>
    (match num.toNat?, parseStyle enc with
     | some num, some cs =>
       (match parseCol flds with
        | none => "bad-op"
        | some c =>
          let styles := parseXml stylesH
          let sheet := parseXml sheetH
          if styles.isNone || sheet.isNone then "diff a written part is not well-formed XML" else
          let cols := ((sheet.bind (·.kid? "cols")).map (·.kids "col")).getD []
          match cols.find? (fun x => natAttr x "min" ≤ num && num ≤ natAttr x "max") with
          | none => "diff the column is not in the sheet part"
          | some real =>
            let xf := natAttr real "style"
            let g := parseDesc getters
            let o : Acc := {}
            let o := o.tree "col" (c.write (natAttr real "min") (natAttr real "max") xf) (some real)
            let o := match Col.read cf real with
              | some (cc, _, _, s) =>
                let o := o.desc g (colDesc cc.eff)
                if s.getD 0 = xf then o else { o with diffs := o.diffs ++ ["read col.style: model reads another style index"] }
              | none => o.panic "col"
            finish (checkStyle o cs styles xf g))
     | _, _ => "bad-op")
  | _ => "bad-op"

end Umya.Driver.C05Codec
