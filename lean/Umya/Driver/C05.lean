/-
  Line-protocol handler of C05: a case is one workbook (`reset`, `cell` / `row` / `col`
  assignments with a style in the wire encoding documented in harness/src/c05.rs, `save`).
  `save` answers with the dump the harness extracts from the written styles.xml / sheet1.xml:
  table sizes, custom number formats, every `<xf>` of cellXfs, the `<col>` runs, the rows and the
  cells with their xf index — all computed by `Umya.Style.save` on the model.
-/
import Umya.Driver.Proto
import Umya.Model.Style
import Umya.Driver.C05Codec
namespace Umya.Driver.C05
open Umya.Style Umya.Proto

structure St where
  book : Book := {}
  dead : Bool := false

def md5 : Tok → Tok := id      -- the driver instantiates the (injective) hash by the identity

/-- `INDEXED_COLORS` of color.rs: `Color::set_argb` turns these into `indexed` (first position) -/
def indexedColors : List String :=
  ["FF000000", "FFFFFFFF", "FFFF0000", "FF00FF00", "FF0000FF", "FFFFFF00", "FFFF00FF", "FF00FFFF",
   "FF000000", "FFFFFFFF", "FFFF0000", "FF00FF00", "FF0000FF", "FFFFFF00", "FFFF00FF", "FF00FFFF",
   "FF800000", "FF008000", "FF000080", "FF808000", "FF800080", "FF008080", "FFC0C0C0", "FF808080",
   "FF9999FF", "FF993366", "FFFFFFCC", "FFCCFFFF", "FF660066", "FFFF8080", "FF0066CC", "FFCCCCFF",
   "FF000080", "FFFF00FF", "FFFFFF00", "FF00FFFF", "FF800080", "FF800000", "FF008080", "FF0000FF",
   "FF00CCFF", "FFCCFFFF", "FFCCFFCC", "FFFFFF99", "FF99CCFF", "FFFF99CC", "FFCC99FF", "FFFFCC99",
   "FF3366FF", "FF33CCCC", "FF99CC00", "FFFFCC00", "FFFF9900", "FFFF6600", "FF666699", "FF969696",
   "FF003366", "FF339966", "FF003300", "FF333300", "FF993300", "FF993366", "FF333399", "FF333333"]

def posOf (s : String) : List String → Nat → Option Nat
  | [], _ => none
  | x :: l, i => if x = s then some i else posOf s l (i + 1)

def tok (s : String) : Tok := s.toList
def optTok (s : String) : Option Tok := if s = "-" then none else some s.toList

/-- [kind, value, tint] -/
def parseColor : List String → Option Color
  | [k, v, t] =>
    let tint := optTok t
    if k = "a" then
      match decodeStr v with
      | some a =>
        (match posOf (String.ofList a) indexedColors 0 with
         | some i => some { indexed := some (toString i).toList, tint := tint }
         | none => some { argb := some a, tint := tint })
      | none => none
    else if k = "i" then some { indexed := some v.toList, tint := tint }
    else if k = "t" then some { theme := some v.toList, tint := tint }
    else if k = "-" then some { tint := tint }
    else none
  | _ => none

def fields (s : String) : Option (List (String × String)) :=
  if s = "" then some [] else
  (s.splitOn ",").mapM (fun kv =>
    match kv.splitOn "=" with
    | [k, v] => some (k, v)
    | _ => none)

def parseFont (s : String) : Option Font := do
  let fs ← fields s
  fs.foldlM (fun (f : Font) (kv : String × String) =>
    let (k, v) := kv
    if k = "n" then (decodeStr v).map (fun n => { f with name := some n })
    else if k = "z" then some { f with size := some v.toList }
    else if k = "y" then some { f with family := some v.toList }
    else if k = "b" then some { f with bold := some v.toList }
    else if k = "i" then some { f with italic := some v.toList }
    else if k = "u" then some { f with underline := some v.toList }
    else if k = "s" then some { f with strike := some v.toList }
    else if k = "c" then (parseColor (v.splitOn "~")).map (fun c => { f with color := c })
    else if k = "h" then some { f with charset := some v.toList }
    else if k = "m" then some { f with scheme := some v.toList }
    else if k = "v" then some { f with vertAlign := some v.toList }
    else none) {}

def parsePattern (s : String) : Option PatternFill := do
  let fs ← fields s
  fs.foldlM (fun (p : PatternFill) (kv : String × String) =>
    let (k, v) := kv
    if k = "t" then some { p with patternType := some v.toList }
    else if k = "f" then (parseColor (v.splitOn "~")).map (fun c => { p with fg := some c })
    else if k = "b" then (parseColor (v.splitOn "~")).map (fun c => { p with bg := some c })
    else none) {}

def parseEdge (v : String) : Option Border :=
  match v.splitOn "~" with
  | st :: rest => (parseColor rest).map (fun c => { style := optTok st, color := c })
  | _ => none

def parseBorders (s : String) : Option Borders := do
  let fs ← fields s
  fs.foldlM (fun (b : Borders) (kv : String × String) =>
    let (k, v) := kv
    if k = "dd" then some { b with diagDown := some v.toList }
    else if k = "du" then some { b with diagUp := some v.toList }
    else if k = "l" then (parseEdge v).map (fun e => { b with left := e })
    else if k = "r" then (parseEdge v).map (fun e => { b with right := e })
    else if k = "t" then (parseEdge v).map (fun e => { b with top := e })
    else if k = "b" then (parseEdge v).map (fun e => { b with bottom := e })
    else if k = "d" then (parseEdge v).map (fun e => { b with diagonal := e })
    else if k = "v" then (parseEdge v).map (fun e => { b with vertical := e })
    else if k = "h" then (parseEdge v).map (fun e => { b with horizontal := e })
    else none) {}

def parseAlignment (s : String) : Option Alignment := do
  let fs ← fields s
  fs.foldlM (fun (a : Alignment) (kv : String × String) =>
    let (k, v) := kv
    if k = "h" then some { a with horizontal := some v.toList }
    else if k = "v" then some { a with vertical := some v.toList }
    else if k = "w" then some { a with wrap := some v.toList }
    else if k = "r" then some { a with rotation := some v.toList }
    else none) {}

def parseProtection (s : String) : Option Protection := do
  let fs ← fields s
  fs.foldlM (fun (p : Protection) (kv : String × String) =>
    let (k, v) := kv
    if k = "k" then some { p with locked := some v.toList }
    else if k = "h" then some { p with hidden := some v.toList }
    else none) {}

inductive Parsed where
  | ok (s : Style)
  | panic          -- the implementation panics while building the style (`set_number_format_id` of an unknown id)
  | bad

def parseComp (st : Style) (comp : String) : Parsed :=
  let tag := String.ofList (comp.toList.take 1)
  let rest := String.ofList (comp.toList.drop 1)
  if tag = "F" then match parseFont rest with | some f => .ok { st with font := some f } | none => .bad
  else if tag = "P" then match parsePattern rest with
    | some p => .ok { st with fill := some { pattern := some p } } | none => .bad
  else if tag = "G" then .ok { st with fill := some { gradient := some rest.toList } }
  else if tag = "E" then .ok { st with fill := some {} }
  else if tag = "B" then match parseBorders rest with | some b => .ok { st with borders := some b } | none => .bad
  else if tag = "A" then match parseAlignment rest with | some a => .ok { st with alignment := some a } | none => .bad
  else if tag = "L" then match parseProtection rest with | some p => .ok { st with protection := some p } | none => .bad
  else if tag = "X" then match rest.toNat? with | some n => .ok { st with formatId := some n } | none => .bad
  else if tag = "N" then
    let k := String.ofList (rest.toList.take 1)
    let v := String.ofList (rest.toList.drop 1)
    if k = "i" then
      match v.toNat? with
      | some id => (match NumFmt.ofId id with | some n => .ok { st with numFmt := some n } | none => .panic)
      | none => .bad
    else if k = "c" then
      match decodeStr v with
      | some c => .ok { st with numFmt := some (NumFmt.ofCode c) }
      | none => .bad
    else .bad
  else .bad

def parseStyle (enc : String) : Parsed :=
  if enc = "-" then .ok {} else
  (enc.splitOn "/").foldl (fun acc comp =>
    match acc with
    | .ok st => parseComp st comp
    | other => other) (.ok {})

/-! ### dump -/

def joinWith (sep : String) (l : List String) : String := sep.intercalate l

def ob : Option Bool → String
  | none => "-"
  | some true => "1"
  | some false => "0"

def ot : Option Tok → String
  | none => "-"
  | some t => String.ofList t

/-- built-in ids with the same code are interchangeable: the smallest stands for all -/
def canonId (id : Nat) : Nat :=
  match builtin id with
  | some code => (match builtinCodes.find? (fun p => p.2 == code) with | some p => p.1 | none => id)
  | none => id

def xfStr (x : Xf) : String :=
  let al := match x.alignment with
    | some a => s!"{ot a.horizontal},{ot a.vertical},{ot a.wrap},{ot a.rotation}"
    | none => "-"
  let pr := match x.protection with
    | some p => s!"{ot p.locked},{ot p.hidden}"
    | none => "-"
  s!"{canonId x.numFmtId}.{x.fontId}.{x.fillId}.{x.borderId}.{ob x.applyFont}{ob x.applyNumFmt}{ob x.applyFill}{ob x.applyBorder}{ob x.applyAlignment}{ob x.applyProtection}.{al}.{pr}"

def bstr (b : Bool) : String := if b then "1" else "0"

def insertNf (p : Nat × Tok) : List (Nat × Tok) → List (Nat × Tok)
  | [] => [p]
  | q :: l => if p.1 < q.1 ∨ (p.1 = q.1 ∧ String.ofList p.2 < String.ofList q.2) then p :: q :: l else q :: insertNf p l

def dump (sv : Saved) : String :=
  let ss := sv.sheet
  let cu := (customs ss.numFmts).map (fun p => (p.1, p.2.code))
  let nf := (cu.foldr insertNf []).map (fun p => s!"{p.1}:{encodeStr p.2}")
  let xf := ss.xfs.map xfStr
  let cols := sv.cols.map (fun p =>
    s!"{p.1.min}.{p.1.max}.{encodeStr p.1.obj.width}.{bstr p.1.obj.hidden}.{bstr p.1.obj.bestFit}.{p.2}")
  let rows := sv.rows.map (fun p =>
    let ht := match p.1.htAttr with | some h => encodeStr h | none => "-"
    s!"{p.1.num}.{ht}.{bstr p.1.customHeight}.{bstr p.1.hidden}.{p.2}")
  let cells := sv.cells.map (fun p => s!"{p.1.col}.{p.1.row}.{p.2}")
  s!"n={ss.fonts.length},{ss.fills.length},{ss.borders.length},{cu.length},{ss.xfs.length};nf={joinWith "|" nf};xf={joinWith "|" xf};cols={joinWith "|" cols};rows={joinWith "|" rows};cells={joinWith "|" cells}"

/-! ### book updates (the public API calls made by the harness) -/

def ensureRow (rows : List Row) (r : Nat) : List Row :=
  if rows.any (fun x => x.num == r) then rows else rows ++ [{ num := r }]

/-- `Column::default()`: width 8.38, nothing else -/
def ensureCol (cols : List (Col Style)) (c : Nat) : List (Col Style) :=
  if cols.any (fun x => x.num == c) then cols
  else cols ++ [{ num := c, width := "8.38".toList, hidden := false, bestFit := false, style := {} }]

/-- `ws.set_style((c, r), style)`: `get_cell_mut` creates the cell, its row dimension and its column dimension -/
def setCell (b : Book) (c r : Nat) (s : Style) : Book :=
  { b with cells := (b.cells.filter (fun x => !(x.row == r && x.col == c))) ++ [{ row := r, col := c, style := s }],
           rows := ensureRow b.rows r, cols := ensureCol b.cols c }

/-- `get_row_dimension_mut(&r)`, `set_height` (only when given; also sets customHeight), `set_hidden`, `set_style` -/
def setRow (b : Book) (r : Nat) (ht : Option Tok) (hidden : Bool) (s : Style) : Book :=
  let rows := ensureRow b.rows r
  { b with rows := rows.map (fun x =>
      if x.num == r then
        let x := match ht with
          | some h => { x with height := some h, customHeight := true }
          | none => x
        { x with hidden := hidden, style := s }
      else x) }

/-- `get_column_dimension_by_number_mut(&c)`, `set_width`, `set_hidden`, `set_best_fit`, `set_style` -/
def setCol (b : Book) (c : Nat) (w : Tok) (hidden bf : Bool) (s : Style) : Book :=
  let col : Col Style := { num := c, width := w, hidden := hidden, bestFit := bf, style := s }
  if b.cols.any (fun x => x.num == c) then
    { b with cols := b.cols.map (fun x => if x.num == c then col else x) }
  else { b with cols := b.cols ++ [col] }

def withStyle (st : St) (enc : String) (f : Style → Book) : St × String :=
  match parseStyle enc with
  | .ok s => ({ st with book := f s }, "ok")
  | .panic => ({ st with dead := true }, "panic")
  | .bad => (st, "bad-op")

def handle (st : St) (args : List String) : St × String :=
  match args with
  | ["reset"] => ({}, "ok")
  | "codec" :: _ => (st, "ok")
  | "codecx" :: rest => (st, Umya.Driver.C05Codec.handle rest)
  | ["builtin", id] => match id.toNat? with
    | some id => (st, match builtin id with | some c => encodeStr c | none => "none")
    | none => (st, "bad-op")
  | _ =>
  if st.dead then (st, "dead") else
  match args with
  | ["cell", c, r, enc] => match c.toNat?, r.toNat? with
    | some c, some r => withStyle st enc (fun s => setCell st.book c r s)
    | _, _ => (st, "bad-op")
  | ["row", r, ht, hidden, enc] => match r.toNat? with
    | some r => withStyle st enc (fun s => setRow st.book r (optTok ht) (hidden == "1") s)
    | none => (st, "bad-op")
  | ["col", c, w, hidden, bf, enc] => match c.toNat? with
    | some c => withStyle st enc (fun s => setCol st.book c w.toList (hidden == "1") (bf == "1") s)
    | none => (st, "bad-op")
  | ["save"] => (st, dump (save md5 (initSheet md5) st.book))
  | _ => (st, "bad-op")

end Umya.Driver.C05
