/-
  Line protocol helpers: hex-encoded UTF-8 strings, canonical rendering of results.
-/
import Umya.Model.Coord
namespace Umya.Proto
open Umya.Coord

def hexVal (c : Char) : Option Nat :=
  if '0' ≤ c ∧ c ≤ '9' then some (c.toNat - 48)
  else if 'a' ≤ c ∧ c ≤ 'f' then some (c.toNat - 87)
  else if 'A' ≤ c ∧ c ≤ 'F' then some (c.toNat - 55)
  else none

def hexDecodeBytes (s : String) : Option ByteArray :=
  let rec go (cs : List Char) (acc : ByteArray) : Option ByteArray :=
    match cs with
    | [] => some acc
    | a :: b :: r =>
      match hexVal a, hexVal b with
      | some x, some y => go r (acc.push (UInt8.ofNat (16 * x + y)))
      | _, _ => none
    | _ => none
  go s.toList ByteArray.empty

/-- `-` denotes the empty string on the wire -/
def decodeStr (s : String) : Option (List Char) :=
  if s = "-" then some []
  else match hexDecodeBytes s with
    | some b => (String.fromUTF8? b).map (·.toList)
    | none => none

def hexDigit (n : Nat) : Char :=
  if n < 10 then Char.ofNat (48 + n) else Char.ofNat (87 + n)

def encodeBytes (b : ByteArray) : String :=
  String.ofList (b.toList.flatMap (fun x => [hexDigit (x.toNat / 16), hexDigit (x.toNat % 16)]))

def encodeStr (cs : List Char) : String :=
  if cs.isEmpty then "-" else encodeBytes (String.ofList cs).toUTF8

def optNat : Option Nat → String
  | some n => toString n
  | none => "-"

def optBool : Option Bool → String
  | some true => "1"
  | some false => "0"
  | none => "-"

def resStr {α} (f : α → String) : Res α → String
  | .ok a => f a
  | .panic => "panic"

end Umya.Proto
