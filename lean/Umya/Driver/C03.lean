import Umya.Driver.Proto
import Umya.Driver.C02
import Umya.Spec.Sml
import Umya.Spec.Double
import Umya.Model.Reader
import Umya.Model.ReaderSheet
import Umya.Model.ReaderStyleView
import Umya.Model.ReaderBook
import Umya.Model.CellStore
import Umya.Model.CoordCanon
/-
  C03 driver.  `c03 part <namehex> <isxml> <hex>` collects the parts of one package (lexed by
  `Umya.Spec.Xml`), `c03 decode` answers with the violations found by the independent decoder and
  the canonical view of what the file means (cells with value / kind / formula incl. expanded shared
  formulas, numbers as binary64 bit patterns, style facts through cellXfs, columns, rows, links,
  tables, defined names).  On `decode` the model of the library's cell reader and of its position rule
  (`Umya.Model.Reader`: `readCell`, `sheetPositions`) is run next to the spec on every `<c>` / every
  `<sheetData>` of the file (`model-vs-spec-cells`, `model-vs-spec-positions` after ` ## `; a position
  difference on a file the spec accepts also shows as `modelpos=` in the compared part).
  `c03 model` (after `decode`): the model of the reader above the cell level (`Umya.Model.ReaderSheet`) is run
  on the lexed parts and answers with the modelled components of the view (`mview=`: sheet list, defined
  names, per sheet cells / merges / links), which the harness prints from the workbook the library loaded;
  `unmodelled` for packages below the tree abstraction (comments, CDATA, tag forms, prefixed names).
-/
namespace Umya.Driver.C03
open Umya.Spec.Xml Umya.Spec.Sml Umya.Proto
open Umya.Driver.C02 (hexOf sortStrings stripBom)

structure St where
  parts : List Part := []
  raws : List (String × List Char) := []      -- the characters of every XML part (for `model`)
  xfs : List XfV := []                        -- the style facts of the last `decode` (for `model`)
  unst : List (List Text) := []               -- per sheet: the cells without `s` (last `decode`)

def orTilde (o : Option Text) : String :=
  match o with
  | some t => if t.isEmpty then "~" else hexOf t
  | none => "~"

def bitsStr (t : Text) : String :=
  match Umya.Spec.Double.bits? t with
  | some b => Umya.Spec.Double.hex16 b
  | none => "bad:" ++ hexOf t

def defaultFacts : String := "0_-_none_"

def factsOf (xfs : List XfV) (i : Nat) : String :=
  match xfs[i]? with
  | none => if xfs.isEmpty ∧ i = 0 then defaultFacts else s!"no-xf-{i}"
  | some x =>
    let nf := if x.numFmtId ≥ 164 then s!"{x.numFmtId}:{orTilde x.formatCode}" else toString x.numFmtId
    s!"{nf}_{if x.bold then "b" else "-"}_{str x.fillPattern}_{str x.fillFg}"

/-! the resolved effective facts of a cell's style, as the public getters show them (absent attributes by the
    getters' defaults, float texts as binary64 bit patterns); the same renderer serves the decoder's `XfV` and the
    reader model's `StyleR` (both as `Umya.Reader.StyleFacts`) -/
open Umya.Reader (StyleFacts) in
def floatBits (t : Text) : String :=
  match Umya.Spec.Double.bits? t with
  | some b => Umya.Spec.Double.hex16 b
  | none => Umya.Spec.Double.hex16 0

def optNat (o : Option Nat) : String := match o with | some n => toString n | none => "~"

def colorStr (c : ColorV) : String :=
  let rgb := if c.indexed.isSome then "~" else (match c.rgb with | some v => hexOf v | none => "~")
  s!"{rgb}^{optNat c.theme}^{optNat c.indexed}^{match c.tint with | some t => floatBits t | none => "~"}"

def flagStr (b : Bool) : String := if b then "1" else "0"

def fontStr (f : FontV) : String :=
  s!"{orTilde f.name}:{floatBits (f.size.getD "0".toList)}:{flagStr f.bold}{flagStr f.italic}{flagStr f.strike}:{str f.underline}:{colorStr f.color}"

def fillStr (f : FillV) : String :=
  s!"{str f.pattern}:{match f.fg with | some c => colorStr c | none => "-"}:{match f.bg with | some c => colorStr c | none => "-"}"

def edgeStr (e : EdgeV) : String := s!"{str e.style}^{colorStr e.color}"

def borderStr (b : BorderV) : String :=
  s!"{edgeStr b.left}:{edgeStr b.right}:{edgeStr b.top}:{edgeStr b.bottom}:{edgeStr b.diagonal}:{flagStr b.diagonalUp}{flagStr b.diagonalDown}"

def alignStr (a : AlignV) : String :=
  s!"{str (a.horizontal.getD "general".toList)}:{str (a.vertical.getD "bottom".toList)}:{flagStr (a.wrapText.getD false)}:{a.textRotation.getD 0}"

def protStr (p : ProtV) : String := s!"{flagStr (p.locked.getD false)}{flagStr (p.hidden.getD false)}"

def optStr {α : Type} (f : α → String) (o : Option α) : String := match o with | some a => f a | none => "-"

def fullFactsStr (f : Umya.Reader.StyleFacts) : String :=
  let nf := match f.numFmtId with
    | none => "0"
    | some id => if id ≥ 164 then s!"{id}:{orTilde f.formatCode}" else toString id
  s!"{nf}_{optStr fontStr f.font}_{optStr fillStr f.fill}_{optStr borderStr f.border}_{optStr alignStr f.alignment}_{optStr protStr f.protection}"

def defaultFull : String := "0_-_-_-_-_-"

/-- the decoder's facts of the cells of one sheet (document order): a cell without `s` has no style of its own;
    `unst` = the references of those cells, in document order too (one linear walk) -/
def specFulls (tab : Array String) : List Text → List CellV → List String
  | u :: us, c :: cs =>
    if u = c.ref then defaultFull :: specFulls tab us cs
    else (match tab[c.style]? with
          | some f => f
          | none => if tab.isEmpty ∧ c.style = 0 then defaultFull else s!"no-xf-{c.style}") :: specFulls tab (u :: us) cs
  | [], c :: cs =>
    (match tab[c.style]? with
     | some f => f
     | none => if tab.isEmpty ∧ c.style = 0 then defaultFull else s!"no-xf-{c.style}") :: specFulls tab [] cs
  | _, [] => []

def cellStrWith (facts : String) (anchors : List Text) (c : CellV) : Option String :=
  let formula := match c.formula with | some f => if f.isEmpty then none else some f | none => none
  let kind := if c.kind = "s" ∧ c.value.isEmpty then "" else c.kind
  if kind = "" ∧ formula.isNone ∧ facts = defaultFull then none
  else if kind = "" ∧ formula.isNone ∧ anchors.contains c.ref then none
  else
    let val := if kind = "n" then bitsStr c.value else hexOf c.value
    some s!"{str c.ref}/{kind}/{val}/{match formula with | some f => hexOf f | none => "~"}/{facts}"

def cellStr (xfs : List XfV) (anchors : List Text) (c : CellV) : Option String :=
  let formula := match c.formula with | some f => if f.isEmpty then none else some f | none => none
  -- below the abstraction: an empty string value is not distinguished from no value
  let kind := if c.kind = "s" ∧ c.value.isEmpty then "" else c.kind
  let facts := factsOf xfs c.style
  if kind = "" ∧ formula.isNone ∧ facts = defaultFacts then none
  -- a cell without value and formula that anchors a hyperlink is not compared (the library
  -- creates such cells, they inherit the column / row style)
  else if kind = "" ∧ formula.isNone ∧ anchors.contains c.ref then none
  else
    let val := if kind = "n" then bitsStr c.value else hexOf c.value
    some s!"{str c.ref}/{kind}/{val}/{match formula with | some f => hexOf f | none => "~"}/{facts}"

/-- run-length form of the `<col>` elements after expansion to single columns -/
def colFacts (xfs : List XfV) (c : ColV) : String :=
  s!"{match c.width with | some w => bitsStr w | none => "~"}:{if c.hidden then "h" else "-"}:{factsOf xfs c.style}"

def mergeRuns : List (Nat × Nat × String) → List (Nat × Nat × String)
  | (a, b, f) :: (c, d, g) :: rest =>
    if b + 1 = c ∧ f = g then mergeRuns ((a, d, f) :: rest) else (a, b, f) :: mergeRuns ((c, d, g) :: rest)
  | l => l
termination_by l => l.length

def insertRun (x : Nat × Nat × String) : List (Nat × Nat × String) → List (Nat × Nat × String)
  | [] => [x]
  | y :: ys => if x.1 < y.1 then x :: y :: ys else y :: insertRun x ys

def colsStr (xfs : List XfV) (cols : List ColV) : String :=
  -- a column of default width (absent or 8.38), visible, default style carries no content
  let dflt := [s!"~:-:{defaultFacts}", s!"4020c28f5c28f5c3:-:{defaultFacts}"]
  let runs := ((cols.map fun c => (c.min, c.max, colFacts xfs c)).filter (fun r => !dflt.contains r.2.2)).foldr insertRun []
  ",".intercalate ((mergeRuns runs).map fun (a, b, f) => s!"{a}-{b}:{f}")

def rowStr (xfs : List XfV) (r : RowV) : Option String :=
  let facts := match r.style with | some s => factsOf xfs s | none => defaultFacts
  let ht := match r.height with | some h => bitsStr h | none => "~"
  if ht = "~" ∧ !r.hidden ∧ facts = defaultFacts then none
  else some s!"{r.num}:{ht}:{if r.hidden then "h" else "-"}:{facts}"

/-- below the abstraction: a sheet qualifier that is a plain word may be written with or without
    apostrophes (`Sheet1!A1` = `'Sheet1'!A1`); defined names are compared with every such word quoted -/
def quoteQualifiers : List Umya.Spec.SharedF.Piece → Text
  | .word q :: .sym '!' :: rest => '\'' :: (q ++ '\'' :: '!' :: quoteQualifiers rest)
  | .lit r :: rest => r ++ quoteQualifiers rest
  | .word w :: rest => w ++ quoteQualifiers rest
  | .sym c :: rest => c :: quoteQualifiers rest
  | .area a :: rest => a.text ++ quoteQualifiers rest
  | .qarea q a :: rest => q ++ '!' :: a.text ++ quoteQualifiers rest
  | [] => []

def canonName (t : Text) : Text := quoteQualifiers (Umya.Spec.SharedF.scan t)

/-- the decoder's statement about WHERE a name lives (ECMA-376 18.2.5 `localSheetId`: "the sheet index in this workbook
    where the defined name is scoped"): a name with `localSheetId` = i belongs to sheet i; a name without is global to the
    workbook — the standard has no notion of a sheet "holding" a global name, so the decoder says `g` and the library's
    choice of list for such a name (its re-homing convention) is compared with the reader MODEL only (`c03 model`) -/
def nameStr (n : NameV) : String :=
  s!"{hexOf n.name}:{match n.scope with | some i => toString i | none => "~"}:{hexOf (canonName n.text)}:{match n.scope with | some i => toString i | none => "g"}"

def homeStr : Umya.Reader.Home → String
  | .book => "w"
  | .sheet k => toString k

/-- the reader model's name with the list it is found in after loading, and (5th field) the text EXACTLY as the model's
    `get_address()` prints it — the spelling of the qualifiers included (`C03_defined_names_any_spelling`: `canonText` of the
    file's text) -/
def nameStrB (p : Umya.Reader.NameB × Umya.Reader.Home) : String :=
  s!"{hexOf p.1.name}:{match p.1.localSheetId with | some i => toString i | none => "~"}:{hexOf (canonName p.1.body.text)}:{homeStr p.2}:{hexOf p.1.body.text}"

def linkStr (l : Link) : String :=
  s!"{str l.ref}/{if l.external then "e" else "l"}/{hexOf l.target}/{if l.external then orTilde l.location else "~"}/{orTilde l.tooltip}"

/-- the decoder's cells of a sheet as a MAP position -> cell, enumerated by (row, column): the last `<c>` of a position
    counts (ECMA-376 is silent about repeated positions; `C03_sheet_store` is the theorem behind this view: the store filled
    from the decoder's list = the store the reader model fills).  A list that is strictly increasing already is left as it
    is (the store returns it unchanged); sheets with more than `specStoreLimit` cells out of order are left in document order. -/
def specStoreLimit : Nat := 4000

def specStoreCells (cs : List (CellV × String)) : List (CellV × String) :=
  let key : CellV × String → Umya.Reader.Pos := fun p => (rowOf p.1.ref, colOf p.1.ref)
  if Umya.Reader.strictlySorted (cs.map key) || cs.length > specStoreLimit then cs
  else Umya.Reader.Store.sorted (Umya.Reader.fillStore key cs)

def viewStr (b : BookV) (unst : List (List Text) := []) : String :=
  let sheets := b.sheets.map (fun s => s!"{hexOf s.name}:{s.state}")
  let names := sortStrings (b.names.map nameStr)
  let tab : Array String := (b.xfs.map fun x => fullFactsStr (Umya.Reader.xfFacts id x)).toArray
  let per := b.sheets.zipIdx.map fun (s, i) =>
    let u := (unst[i]?).getD []
    let anchors := s.links.map (·.ref)
    let cells := (specStoreCells (s.cells.zip (specFulls tab u s.cells))).filterMap (fun p => cellStrWith p.2 anchors p.1)
    let links := sortStrings (s.links.map linkStr)
    let rows := s.rows.filterMap (rowStr b.xfs)
    let tables := sortStrings <| s.tables.map fun t => s!"{hexOf t.name}:{hexOf t.displayName}:{str t.ref}:{"|".intercalate (t.columns.map hexOf)}"
    s!"cells={",".intercalate cells};merges={",".intercalate (s.merges.map str)};links={",".intercalate links};cols={colsStr b.xfs s.cols};rows={",".intercalate rows};tables={",".intercalate tables}"
  s!"active={b.active};sheets={"|".intercalate sheets};names={"|".intercalate names} # {" # ".intercalate per}"

/-- the model of the library's cell reader (`Umya.Reader.readCell`, string items through
    `Umya.Reader.stringItem`) run next to the spec on every `<c>` of every worksheet part:
    (cells whose kind / value / formula text differ or where the model panics, cells) -/
def modelVsSpec (parts : List Part) : Nat × Nat :=
  let roots := parts.filterMap (·.xml)
  let sstRoot := roots.find? (fun r => localName r.name = "sst".toList)
  let sis := (sstRoot.map (·.kids "si")).getD []
  let sstSpec := sis.map rstText
  let sstModel := sis.map (Umya.Reader.stringItem false)
  let cells := (roots.filter (fun r => localName r.name = "worksheet".toList)).flatMap fun ws =>
    (((ws.kid? "sheetData").map (·.kids "row")).getD []).flatMap (·.kids "c")
  let bad := cells.filter fun c =>
    let s := (decodeCell sstSpec c).1
    match Umya.Reader.readCell sstModel c with
    | none => true
    | some r =>
      let mk := if r.raw.kind = "s" ∧ r.raw.text.isEmpty then "" else r.raw.kind
      let sk := if s.kind = "s" ∧ s.value.isEmpty then "" else s.kind
      !(mk = sk ∧ r.raw.text = s.value ∧ r.formula = s.formula)
  (bad.length, cells.length)

/-- the model of the library's position rule (`Umya.Reader.sheetPositions`: rows / cells without `r`
    follow the one before) run next to the spec's (`specPositions`: `rowNumbers` / `fillRefs`) on the
    `<sheetData>` of every worksheet part, in the order of the parts:
    (worksheets where they differ or the model panics — with the first row that differs —, worksheets,
     rows, cells, rows without `r`, cells without `r`) -/
def posStr (ps : List (Nat × Nat)) : String := " ".intercalate (ps.map fun p => s!"{p.1}.{p.2}")

def modelVsSpecPositions (parts : List Part) : List String × Nat × Nat × Nat × Nat × Nat :=
  let sheets := parts.filterMap fun p => match p.xml with
    | some r => if localName r.name = "worksheet".toList then some (p.name, r) else none
    | none => none
  let per := sheets.map fun ((name, ws) : String × Node) =>
    let rows : List Node := ((ws.kid? "sheetData").map (fun (d : Node) => d.kids "row")).getD []
    let spec : List (Nat × List (Nat × Nat)) := specPositions [] 0 rows
    let diff : Option String := match Umya.Reader.sheetPositions 0 rows with
      | none => some s!"{name}: the model panics"
      | some m =>
        if m = spec then none
        else match (m.zip spec).find? (fun (p : (Nat × List (Nat × Nat)) × (Nat × List (Nat × Nat))) => p.1 != p.2) with
          | some (a, b) => some s!"{name}: row model {a.1} [{posStr a.2}] spec {b.1} [{posStr b.2}]"
          | none => some s!"{name}: {m.length} rows in the model, {spec.length} in the spec"
    let cells : List Node := rows.flatMap (fun (r : Node) => r.kids "c")
    (diff, rows.length, cells.length, (rows.filter fun (r : Node) => (r.attr? "r".toList).isNone).length,
      (cells.filter fun (c : Node) => (c.attr? "r".toList).isNone).length)
  (per.filterMap (·.1), sheets.length, (per.map (·.2.1)).sum, (per.map (·.2.2.1)).sum, (per.map (·.2.2.2.1)).sum,
    (per.map (·.2.2.2.2)).sum)


/-! ## `c03 model`: the model of the library's reader above the cell level (`Umya.Model.ReaderSheet`: the
     `<sheetData>` loop with shared-formula groups, the shared-strings part, hyperlinks through the
     relationships, merged ranges, sheet list, defined names) run on the lexed parts of the package; its view
     is compared with the view of the workbook the LIBRARY loaded (correspondence).  Style facts come from the
     spec's style table through the model's style index (style resolution is not modelled). -/
section Model
open Umya.Reader

def hasSub (p : List Char) : List Char → Bool
  | [] => p.isEmpty
  | c :: r => p.isPrefixOf (c :: r) || hasSub p r

/-- elements the readers see only as `Empty` events / only as `Start` events (known finding
    C03-edge-start-end-tag-form): the other tag form is below the tree the model reads -/
def emptyOnly : List String := ["sheet", "Relationship", "hyperlink", "mergeCell"]
def startOnly : List String := ["definedName"]
/-- the same for the styles part: the children of font / patternFill / an edge / xf and `<numFmt>` are seen only as
    `Empty` events, `<fill>` only as a `Start` event -/
def stylesEmptyOnly : List String :=
  ["numFmt", "alignment", "protection", "b", "i", "u", "strike", "sz", "name", "rFont", "family", "charset", "scheme",
   "vertAlign", "color", "fgColor", "bgColor"]
def stylesStartOnly : List String := ["fill"]
def stylesNames : List String :=
  ["styleSheet", "numFmts", "numFmt", "fonts", "font", "fills", "fill", "patternFill", "gradientFill", "borders", "border",
   "cellStyleXfs", "cellXfs", "xf", "alignment", "protection", "left", "right", "top", "bottom", "diagonal"] ++ stylesEmptyOnly

def outsideTreeStyles (raw : List Char) : Bool :=
  hasSub "<!--".toList raw || hasSub "<![CDATA[".toList raw ||
  (match lex raw with
   | none => true
   | some toks => toks.any fun t => match t with
     | .open n _ e =>
       let ln := str (localName n)
       (!e && stylesEmptyOnly.contains ln) || (e && stylesStartOnly.contains ln) || (n.contains ':' && stylesNames.contains ln)
     | _ => false)
/-- structural elements whose prefixed form (`x:sheetData`) the library does not see; `xdr:row`, `xm:f`, `a:t` …
    of other vocabularies occur inside worksheet parts and are seen by neither side -/
def modelledNames : List String :=
  ["workbook", "sheets", "sheet", "definedNames", "definedName", "worksheet", "sheetData", "c", "sst", "si",
   "hyperlinks", "hyperlink", "mergeCells", "mergeCell", "Relationships", "Relationship"]

/-- the part is outside what the tree model can stand for: comments / CDATA (known finding
    C03-edge-cdata-and-comments-in-text), the tag forms above, prefixed SpreadsheetML names -/
def outsideTree (raw : List Char) : Bool :=
  hasSub "<!--".toList raw || hasSub "<![CDATA[".toList raw ||
  (match lex raw with
   | none => true
   | some toks => toks.any fun t => match t with
     | .open n _ e =>
       let ln := str (localName n)
       (!e && emptyOnly.contains ln) || (e && startOnly.contains ln) || (n.contains ':' && modelledNames.contains ln)
     | _ => false)

def partRoot (parts : List Part) (name : Text) : Option Node := (parts.find? (·.name = str name)).bind (·.xml)

def outToCellV (o : CellOut) : CellV :=
  { ref := refText o.col o.row, kind := o.cell.raw.kind, value := o.cell.raw.text, formula := o.formula, style := o.cell.style }

/-- `Cells::set_fast` + `get_cell_collection_sorted`: stable sort by (row, column), the last of equals stays -/
def keepLast : List CellOut → List CellOut
  | a :: b :: rest => if a.row = b.row ∧ a.col = b.col then keepLast (b :: rest) else a :: keepLast (b :: rest)
  | l => l

def sortedCells (os : List CellOut) : List CellOut :=
  keepLast (os.mergeSort fun a b => a.row < b.row || (a.row = b.row && a.col ≤ b.col))

structure SheetM where
  sheet : SheetR
  cells : List (CellV × String)       -- with the resolved style facts of the cell
  merges : List Text
  links : List Link

def keepLastF : List (CellOut × String) → List (CellOut × String)
  | a :: b :: rest => if a.1.row = b.1.row ∧ a.1.col = b.1.col then keepLastF (b :: rest) else a :: keepLastF (b :: rest)
  | l => l

def sortedCellsF (os : List (CellOut × String)) : List (CellOut × String) :=
  keepLastF (os.mergeSort fun a b => a.1.row < b.1.row || (a.1.row = b.1.row && a.1.col ≤ b.1.col))

/-- the cells of a sheet as `get_cell_collection_sorted` shows them, through the MODEL of the cell store
    (`Umya/Model/CellStore.lean`: `fillStore` = `cells.set_fast` per cell, `Store.sorted`; theorems `C03_store_last_wins`,
    `C03_sheet_store`); the association-list store is quadratic, so sheets with more than 4000 cells go through
    `sortedCellsF` (sort, keep the last of equals) -/
def storeLimit : Nat := 4000

def storeCellsF (os : List (CellOut × String)) : List (CellOut × String) :=
  if os.length ≤ storeLimit then Store.sorted (fillStore (fun p => outKey p.1) os) else sortedCellsF os

/-- the style facts of the cells in document order (`cellStyle`: `get_style(s)`); `none` = panic -/
def cellFacts (made : List StyleR) (cs : List Node) : Option (List String) :=
  let tab : Array String := (made.map fun st => fullFactsStr (styleFacts st)).toArray
  cs.mapM fun c =>
    match c.attr? "s".toList with
    | none => some defaultFull
    | some v => (parseUsize v).bind fun i => tab[i]?

inductive MRes where
  | unmodelled (why : String)
  | panic (why : String)
  | ok (sheets : List SheetM) (names : List (NameB × Home)) (stats : String)

def stateStr (s : Option Text) : String :=
  match s with
  | some v => if v = "hidden".toList then "hidden" else if v = "veryHidden".toList then "veryHidden" else "visible"
  | none => "visible"

def mviewStr (sheets : List SheetM) (names : List (NameB × Home)) : String :=
  let sh := sheets.map fun s => s!"{hexOf s.sheet.name}:{stateStr s.sheet.state}"
  let nm := sortStrings (names.map nameStrB)
  let per := sheets.map fun s =>
    let cells := s.cells.filterMap (fun c => cellStrWith c.2 (s.links.map (·.ref)) c.1)
    let links := sortStrings (s.links.map linkStr)
    s!"cells={",".intercalate cells};merges={",".intercalate (s.merges.map str)};links={",".intercalate links}"
  s!"sheets={"|".intercalate sh};names={"|".intercalate nm} # {" # ".intercalate per}"

/-- a sheet of `readBook` as the view shows it: `get_cell_collection_sorted` (stable sort, the last of equals stays), the
    resolved facts of every cell's style, `get_range()` of every merged range, the links -/
def toSheetM (sb : SheetB) : SheetM :=
  let fs := sb.styles.map fun st => fullFactsStr (styleFacts st)
  ⟨sb.sheet, (storeCellsF (sb.cells.zip fs)).map (fun p => (outToCellV p.1, p.2)), shownMerges sb.merges,
    sb.links.map fun l => { ref := l.ref, external := !l.location, target := l.url, tooltip := if l.tooltip.isEmpty then none else some l.tooltip }⟩

/-- statistics of the shared groups of a `<sheetData>` as the MODEL sees them (informational) -/
def groupStats (os : List CellOut) : Nat × Nat :=
  let gs := (os.filterMap (·.cell.shared)).eraseDups
  (gs.length, (os.filter (·.cell.shared.isSome)).length - gs.length)

def runModel (parts : List Part) (raws : List (String × List Char)) : MRes :=
  let relevant := raws.filter fun (n, _) =>
    n = "xl/workbook.xml" || n = "xl/sharedStrings.xml" || n.endsWith ".rels" ||
    (match partRoot parts n.toList with | some r => localName r.name = "worksheet".toList | none => false)
  if relevant.any (fun (_, raw) => outsideTree raw) then .unmodelled "tag-forms-or-comments"
  else if (raws.filter fun (n, _) => n = "xl/styles.xml").any (fun (_, raw) => outsideTreeStyles raw) then .unmodelled "styles-tag-forms"
  else
    -- `arv.by_name` + the XML reader; a part `xl/sharedStrings.xml` whose root is not `<sst>` holds no items
    let lookup : Text → Option Node := fun n =>
      match partRoot parts n with
      | some r => if n = "xl/sharedStrings.xml".toList ∧ localName r.name ≠ "sst".toList then none else some r
      | none => none
    match partRoot parts "xl/workbook.xml".toList, (partRoot parts "xl/_rels/workbook.xml.rels".toList) with
    | some _, some _ =>
      -- THE model of the theorem `C03_book` (Umya/Model/ReaderBook.lean `readBook`), with the code's shared-formula
      -- translator and float texts compared as bits (`cf` = id)
      match readBook codeTr id lookup with
      | none => .panic "reader"
      | some b =>
        -- informational: how many `ref` texts of merged ranges / texts of defined names of this file satisfy the
        -- (decidable forms of the) hypotheses of C03_merges / C03_defined_names
        let ms := (parts.filterMap (·.xml)).flatMap fun r =>
          if localName r.name = "worksheet".toList then (((r.kid? "mergeCells").map (·.kids "mergeCell")).getD []).filterMap (·.attr? "ref".toList) else []
        let nm := match partRoot parts "xl/workbook.xml".toList with
          | some (wb : Node) => (((wb.kid? "definedNames").map (fun (d : Node) => d.kids "definedName")).getD []).map (fun (d : Node) => d.ownText)
          | none => []
        -- … and of their explicit grammars (Umya/Model/CoordCanon.lean): C03_merges_canonical, C03_defined_names_any_spelling;
        -- `names-outside` lists (hex) up to three name texts of this file outside the wider grammar
        let outside := nm.filter (fun v => !Umya.Annot.nameTextAnyB v)
        .ok (b.sheets.map toSheetM) b.names
          s!"merges-ok={(ms.filter mergeRefOkB).length}/{ms.length} names-ok={(nm.filter nameTextOkB).length}/{nm.length} merges-canon={(ms.filter Umya.Coord.canonRangeB).length}/{ms.length} names-any-ok={(nm.filter Umya.Annot.nameTextAnyB).length}/{nm.length} names-outside={",".intercalate ((outside.take 3).map hexOf)} store-sheets={(b.sheets.filter fun sb => sb.cells.length ≤ storeLimit).length}/{b.sheets.length} overwritten-cells={(b.sheets.map fun sb => if sb.cells.length ≤ storeLimit then sb.cells.length - (fillStore outKey sb.cells).length else 0).sum}"
    | _, _ => .unmodelled "no-workbook-part"

end Model

def handle (st : St) (args : List String) : St × String :=
  match args with
  | "reset" :: _ => ({}, "ok")
  | ["part", nameHex, isXml, dataHex] =>
    match decodeStr nameHex, hexDecodeBytes (if dataHex = "-" then "" else dataHex) with
    | some name, some bytes =>
      let nm := String.ofList name
      if isXml = "1" then
        match String.fromUTF8? bytes with
        | some s =>
          let raw := stripBom s.toList
          let tree := parse raw
          ({ st with parts := st.parts ++ [{ name := nm, xml := tree, isXml := true }], raws := st.raws ++ [(nm, raw)] },
            if tree.isSome then "ok" else "malformed")
        | none => ({ st with parts := st.parts ++ [{ name := nm, xml := none, isXml := true }] }, "not-utf8")
      else ({ st with parts := st.parts ++ [{ name := nm, xml := none, isXml := false }] }, "ok")
    | _, _ => (st, "bad-op")
  | ["decode"] =>
    let (bv, errs) := decode st.parts
    let unst := unstyledOf st.parts
    let v := match bv with | some b => viewStr b unst | none => "none"
    -- informational (after ` ## `): which sheets leave the positions of rows / cells implicit
    let notes := match bv with
      | some b => (b.sheets.zipIdx.filterMap fun (s, i) => if s.noR then some s!"no-r:{i}" else none)
      | none => []
    let (bad, n) := modelVsSpec st.parts
    let (pdiff, nws, nrows, ncells, rowsNoR, cellsNoR) := modelVsSpecPositions st.parts
    -- a file the spec accepts on which the MODEL of the position rule differs from the spec is not
    -- below the abstraction: the field `modelpos=` makes the reply differ from the implementation's, and
    -- the classifier reports it (the implementation is compared with the spec through the view, so the
    -- three agree pairwise on every file that passes)
    let mp := if errs.isEmpty ∧ !pdiff.isEmpty then s!";modelpos={" / ".intercalate (pdiff.take 3)}" else ""
    -- a duplicated relationship Id (forbidden by OPC Part 2 §9.3.2.2; the decoder resolves an id to the FIRST, the library
    -- reads the LAST): only what both define is compared - the head of the view (active tab, sheet list, defined names);
    -- `c03 model` compares the sheets read through the last relationship (model `sheetRel`) with the library
    let dupOnly := !errs.isEmpty && errs.all (fun e => e.endsWith "duplicate relationship ids")
    if dupOnly then
      ({ st with xfs := (match bv with | some b => b.xfs | none => []), unst := unst },
       s!"errs=dup-rel-ids;;view={(v.splitOn " # ").headD ""} ## {" | ".intercalate (errs.take 5)}")
    -- rows / cells of a row not strictly ascending (repeated or unordered positions): the decoder reports the sheet as
    -- outside its domain; its cells are shown as a map (`specStoreCells`: the last `<c>` of a position counts) and the
    -- reply is marked `errs=order`: the harness expects that mark for the boundary package edge 16 only, every other file
    -- with it fails as file-outside-the-domain
    else if !errs.isEmpty && errs.all (fun e => e.endsWith "not strictly ascending") then
      ({ st with xfs := (match bv with | some b => b.xfs | none => []), unst := unst },
       s!"errs=order;;view={v} ## {" | ".intercalate (errs.take 5)}")
    else
    ({ st with xfs := (match bv with | some b => b.xfs | none => []), unst := unst },
     s!"errs={errs.length};{" | ".intercalate (errs.take 5)}{mp};view={v} ## model-vs-spec-cells={bad}/{n} model-vs-spec-positions={pdiff.length}/{nws} rows={nrows} cells={ncells} rows-no-r={rowsNoR} cells-no-r={cellsNoR} {" ".intercalate notes}")
  | ["model"] =>
    match runModel st.parts st.raws with
    | .unmodelled _ => (st, "unmodelled")
    | .panic why => (st, s!"mview=read-panicked ## {why}")
    | .ok sheets names stats => (st, s!"mview={mviewStr sheets names} ## {stats}")
  | _ => (st, "bad-op")

end Umya.Driver.C03
