/-
  Line-protocol handler for the C18 model (`Umya/Model/Date.lean`), executed with the native
  `Float` instance of `FloatOps`.

    c18 ser y m d h mi s      -> <f64 bits as decimal u64> <y m d h mi s read back | - when |serial| ≥ 5·10⁷> | panic
    c18 dt <bits>             -> y m d h mi s               | unmodelled
    c18 fmt <hex format> <bits> -> <hex text>               | unmodelled
    c18 bser k0 n secs        -> rolling hash over days k0..k0+n-1 (0 = 1900-01-01) at `secs`
    c18 bsec y m d s0 n       -> rolling hash over seconds s0..s0+n-1 of one day
    c18 syn <hex format>      -> 1 <number of tokens> | 0     is the code (read as a token list: cut at `-` `,`
                                 blank, each piece looked up by its text in the vocabulary of the clock mode)
                                 a member of the syntactic class `Umya.Thm.C18.SimpleSyntax`

  Floats travel as their IEEE-754 bit pattern (decimal `u64`): Lean's `Float.toString` is not
  shortest-round-trip, and bit patterns are a strictly finer comparison than decimal text.
-/
import Umya.Driver.Proto
import Umya.Model.Date
import Umya.Lemmas.DateSyntax
namespace Umya.Driver.C18
open Umya.Date Umya.Proto Umya.Spec.Calendar
open Umya.Lemmas.DateDisplay Umya.Lemmas.DateSyntax

/-- the pieces of a code between the characters `-` `,` blank, and those characters -/
def pieces (f : List Char) : List (List Char) × List Char :=
  f.foldr (fun c acc =>
    if isMajor c then ([] :: acc.1, c :: acc.2)
    else match acc.1 with
      | [] => ([[c]], acc.2)
      | p :: ps => ((c :: p) :: ps, acc.2)) ([[]], [])

/-- the token list a code spells, if every piece is (the text of) exactly one word of the vocabulary -/
def tokenise (f : List Char) : Option (List Tok) :=
  let pm := Umya.Date.contains f "AM/PM".toList
  let (ps, seps) := pieces f
  let look (p : List Char) : Option (List Tok) :=
    match (vocab pm).filter (fun w => codeText w == p) with
    | [w] => some w
    | _ => none
  let rec go : List (List Char) → List Char → Option (List Tok)
    | [p], [] => look p
    | p :: ps, c :: cs => do
      let w ← look p
      let r ← go ps cs
      pure (w ++ Tok.lit c :: r)
    | _, _ => none
  go ps seps

def synReply (f : List Char) : String :=
  match tokenise f with
  | some toks => if simpleSyntax toks && codeText toks == f then s!"1 {toks.length}" else "0"
  | none => "0"

def dtStr (t : DateTime) : String :=
  s!"{t.year} {t.month} {t.day} {t.hour} {t.minute} {t.second}"

def modelled (x : Float) : Bool := !(x.abs ≥ 50000000.0)   -- NaN is modelled (`as i64` = 0)

def mix (h : UInt64) (w : UInt64) : UInt64 := (h ^^^ w) * 0x100000001b3

def mixInt (h : UInt64) (i : Int) : UInt64 := mix h i.toInt64.toUInt64

/-- hash contribution of one (date, seconds) item: serial bits, then the date-time read back -/
def item (h : UInt64) (y m d secs : Int) : UInt64 :=
  match convertDateF Float y m d (secs / 3600) (secs % 3600 / 60) (secs % 60) with
  | none => mix h 0xdead
  | some x =>
    let t : DateTime := excelToDateTime x
    let h := mix h x.toBits
    let h := mixInt h t.year
    let h := mixInt h t.month
    let h := mixInt h t.day
    let h := mixInt h t.hour
    let h := mixInt h t.minute
    mixInt h t.second

def day0 : Int := daysFromCivil 1900 1 1

def batchDays (k0 n : Nat) (secs : Int) : UInt64 := Id.run do
  let mut h : UInt64 := 0xcbf29ce484222325
  for i in [0:n] do
    let (y, m, d) := civilFromDays (day0 + (k0 + i : Nat))
    h := item h y m d secs
  return h

def batchSecs (y m d : Int) (s0 n : Nat) : UInt64 := Id.run do
  let mut h : UInt64 := 0xcbf29ce484222325
  for i in [0:n] do
    h := item h y m d ((s0 + i : Nat) : Int)
  return h

def handle (args : List String) : String :=
  match args with
  | ["ser", y, m, d, h, mi, s] =>
    match y.toInt?, m.toInt?, d.toInt?, h.toInt?, mi.toInt?, s.toInt? with
    | some y, some m, some d, some h, some mi, some s =>
      (match convertDateF Float y m d h mi s with
       | some x =>
         if modelled x then s!"{x.toBits.toNat} {dtStr (excelToDateTime x)}"
         else s!"{x.toBits.toNat} -"
       | none => "panic")
    | _, _, _, _, _, _ => "bad-op"
  | ["dt", b] =>
    match b.toNat? with
    | some b =>
      let x := Float.ofBits (UInt64.ofNat b)
      if modelled x then dtStr (excelToDateTime x) else "unmodelled"
    | none => "bad-op"
  | ["fmt", f, b] =>
    match decodeStr f, b.toNat? with
    | some f, some b =>
      let x := Float.ofBits (UInt64.ofNat b)
      if modelled x then
        (match formatAsDate f x with
         | some s => encodeStr s
         | none => "unmodelled")
      else "unmodelled"
    | _, _ => "bad-op"
  | ["syn", f] =>
    match decodeStr f with
    | some f => synReply f
    | none => "bad-op"
  | ["bser", k0, n, secs] =>
    match k0.toNat?, n.toNat?, secs.toNat? with
    | some k0, some n, some secs => toString (batchDays k0 n secs).toNat
    | _, _, _ => "bad-op"
  | ["bsec", y, m, d, s0, n] =>
    match y.toInt?, m.toInt?, d.toInt?, s0.toNat?, n.toNat? with
    | some y, some m, some d, some s0, some n => toString (batchSecs y m d s0 n).toNat
    | _, _, _, _, _ => "bad-op"
  | _ => "bad-op"

end Umya.Driver.C18
