/-
  `c02 pkgbridge plain=… wbplain=… links=… model=… cmt=… tbl=…`  -> ok | differs <what>   ## counts

  Ties the package model of `Umya/Model/PackageNode.lean` (theorems `C02_content_types_cover`,
  `C02_package_rels_resolve`, `C02_rel_ids_unique`, `C02_package_no_diagnostics`, `C02_book_decodes`) to the package just
  sent with `c02 part`: the harness describes the in-memory workbook (per sheet: the hyperlinks, the cells for the
  writer model, whether the sheet has anything that adds parts — drawings, comments, tables, printer settings —;
  whether the workbook has macros / custom properties), the driver builds the MODEL skeleton (`skeleton`: part
  names, content types, relationship triples; a shared-string part iff the model writer's table is not empty)
  and compares it with the skeleton of the real package:

    part names            every model part is in the package; in a plain workbook the package has no other part
    content types         per model part: the decoder's `contentTypeOf` on the real `[Content_Types].xml`
    [Content_Types].xml   its `Default`s and `Override`s against `contentTypesNode`, as sets (a reader looks them up by
                          key; the code emits Overrides in sorted-name order, the model in numeric order)
    relationships         per `.rels` part of the model: (Id, Type, Target, external) as the decoder's `relsOf` reads
                          them from the real part, as a set (a reader looks a relationship up by Id)

  SHEETS WITH COMMENTS (`Umya/Model/PackageNodeCmt.lean`, theorems `C02_cmt_*` of `Thm/C02PkgCmt.lean`) are inside the
  model: `plain=` says per sheet that nothing BUT comments adds parts (no drawing, table, printer settings, OLE
  object), `cmt=` that the sheet has comments.  When every sheet is plain in that sense the model skeleton is
  `skeletonC`: it has the VML and comments parts with the numbers of the smallest-free-index rule (`numbering`), their
  content types, the `vml` Default, the comments Overrides, and per sheet the vmlDrawing / comments relationships after
  the hyperlink ones; the comparison is EQUALITY as for a plain workbook, and in addition the `r:id`s of the
  `<legacyDrawing>` children of every real sheet part are compared with the model's (`SheetC.legacy`: `rId{r}`, r =
  the counter after the hyperlink loop; none without comments).  The trees of the comments / VML parts are tied by
  C06's `cmt` requests, not here.

  SHEETS WITH TABLES (`Umya/Model/PackageNodeTbl.lean`, theorems `C02_tbl_*` of `Thm/C02PkgTbl.lean`): `tbl=` gives the
  number of tables per sheet; `plain=` now says that nothing but comments AND TABLES adds parts.  The model skeleton is
  `skeletonT`: the table parts `xl/tables/table{n}.xml` numbered by ONE counter over the sheets (`tableNums`), their
  content type and Overrides, per sheet one `table` relationship per table BETWEEN the vmlDrawing and the comments
  relationship (the comments id shifted by the number of tables); the `<tableParts>` child of every real sheet part is
  compared with `tablePartsNodes` (count, the `r:id`s in order).  The table TREES are not compared here.

  A workbook / sheet that is not plain has further parts, Defaults, Overrides and relationships: there the model
  skeleton (without any comments part) must be CONTAINED in the real one, the relationships part of a sheet that is
  not plain or has comments is not compared, and the rest is counted `outside-model`.
-/
import Umya.Driver.C02Sheet
import Umya.Model.PackageNodeTbl
namespace Umya.Driver.C02Pkg
open Umya.Spec.Xml Umya.Spec.Sml Umya.Proto Umya.CellXml Umya.CellNode Umya.SheetNode Umya.WorkbookNode Umya.PackageNode
open Umya.Driver.C02Sheet (Out canon parseListOf parseLink)

def kindOf (name : List Char) : String :=
  if name = nApp then "docProps-app" else if name = nCore then "docProps-core" else if name = nRootRels then "root-rels"
  else if name = nTheme then "theme" else if name = nSst then "sharedStrings" else if name = nStyles then "styles"
  else if name = nWorkbookPart then "workbook" else if name = nWorkbookRels then "workbook-rels"
  else if name = nContentTypes then "content-types"
  else if "xl/drawings/vmlDrawing".toList.isPrefixOf name then "vml"
  else if "xl/comments".toList.isPrefixOf name then "comments"
  else if "xl/tables/table".toList.isPrefixOf name then "table"
  else if isRelsNameL name then "sheet-rels" else "sheet"

def relKey (id type target : String) (ext : Bool) : String := s!"{id}|{type}|{target}|{ext}"

def sorted (l : List String) : List String := Umya.Driver.C02.sortStrings l

def subsetOf (a b : List String) : Bool := a.all (fun x => b.contains x)

def bridge (parts : Package) (plain : List Bool) (wbplain : Bool) (links : List (List LinkW)) (model : List (List Umya.Driver.C02.CellT))
    (cmt : List Bool) (tbl : List Nat) : String :=
  let F := Umya.Num.textFmt []
  match writeBook F false model with
  | none => "differs the writer model panics on the in-memory cells"
  | some bx =>
    let hasSst := !bx.sst.isEmpty
    let n := links.length
    -- inside the model: nothing but comments adds parts; the comments of a workbook that is outside are not modelled
    let allPlain := wbplain && plain.all id && plain.length = n
    let flags : List Bool := if allPlain ∧ cmt.length = n then cmt else List.replicate n false
    let anyCmt := flags.any id
    let nums := numbering [] [] flags
    -- TABLES (`Umya/Model/PackageNodeTbl.lean`): the number of tables per sheet; outside the model none is modelled
    let tcounts : List Nat := if allPlain ∧ tbl.length = n then tbl else List.replicate n 0
    let anyTbl := tcounts.any (· != 0)
    let tnums := tableNums 0 tcounts
    let skel := skeletonT links flags tcounts hasSst
    let o : Out := {}
    let o := if plain.length = n ∧ model.length = n ∧ cmt.length = n then o else o.diff "sheet counts differ between plain / links / model / cmt"
    let o := o.count (if allPlain then (if anyCmt then "workbook.with-comments" else "workbook.plain") else "workbook.outside-model")
    let o := if allPlain then o.count s!"sheets-with-comments.{(flags.filter id).length}" else o
    let o := if allPlain ∧ anyCmt ∧ flags.head? = some false then o.count "comments.first-sheet-without" else o
    let o := if allPlain ∧ tbl.length ≠ n then o.diff "sheet counts differ between links / tbl" else o
    let o := if allPlain then o.count (if anyTbl then "workbook.with-tables" else "workbook.without-tables") else o
    let o := if allPlain ∧ anyTbl then o.count s!"sheets-with-tables.{(tcounts.filter (· != 0)).length}" else o
    let o := if allPlain ∧ anyTbl then o.count "tables.total" tnums.flatten.length else o
    let o := if allPlain then (List.range n).foldl (fun (o : Out) i =>
      match tcounts.getD i 0 != 0, flags.getD i false with
      | true, true => o.count "sheet.tables-and-comments"
      | true, false => o.count "sheet.tables-only"
      | false, true => o.count "sheet.comments-only"
      | false, false => o.count "sheet.neither") o else o
    let o := if allPlain ∧ (tcounts.filter (· != 0)).length ≥ 2 then o.count "tables.on-several-sheets" else o
    let o := o.count s!"sheets.{n}"
    let o := o.count (if hasSst then "sst.present" else "sst.absent")
    -- which sheets are plain (1-based K)
    let sheetPlain : Nat → Bool := fun k => wbplain && (plain.getD (k - 1) false) && (allPlain || !(cmt.getD (k - 1) false))
    let relsSheetNo : List Char → Option Nat := fun nm => (List.range n).find? (fun i => sheetRelsL (i + 1) = nm) |>.map (· + 1)
    -- parts, content types, relationships
    let o := skel.foldl (fun (o : Out) (ps : PartS) =>
      let name := String.ofList ps.name
      let kind := kindOf ps.name
      let skip := match relsSheetNo ps.name with
        | some k => !sheetPlain k
        | none => (ps.name = nWorkbookRels || ps.name = nRootRels) && !wbplain
      if skip then o.count s!"skipped.{kind}"
      else
        match parts.part? name with
        | none => o.diff s!"part {name} of the model package is not in the file"
        | some _ =>
          let o := o.count s!"part.{kind}"
          let o := match ps.contentType with
            | none => o
            | some ct =>
              let o := o.count s!"content-type.{kind}"
              if contentTypeOf parts name = some (String.ofList ct) then o
              else o.diff s!"content type of {name}: model {String.ofList ct} file {contentTypeOf parts name}"
          if isRelsNameL ps.name then
            let real := (relsOf parts (String.ofList (relsSourceL ps.name))).map (fun r => relKey r.id r.type r.target r.external)
            let want := ps.rels.map (fun r => relKey (String.ofList r.id) (String.ofList r.type) (String.ofList r.target) r.external)
            let o := o.count s!"rels.{kind}" want.length
            if sorted real = sorted want then o
            else o.diff s!"relationships of {name}: model {sorted want} file {sorted real}"
          else o) o
    -- parts the model does not have
    let modelNames := skel.map (fun ps => String.ofList ps.name)
    let extra := (parts.map (·.name)).filter (fun nm => !modelNames.contains nm)
    let o := o.count "parts.outside-model" extra.length
    let o := if allPlain ∧ !extra.isEmpty then o.diff s!"parts that the model of a plain workbook does not have: {extra.take 4}" else o
    -- a sheet the model gives no relationships part must not have one when it is plain
    let o := (List.range n).foldl (fun (o : Out) i =>
      let nm := String.ofList (sheetRelsL (i + 1))
      if sheetPlain (i + 1) ∧ !modelNames.contains nm ∧ (parts.part? nm).isSome then o.diff s!"{nm} is written for a sheet without relationships" else
      o.count (if modelNames.contains nm then "sheet-rels.present" else "sheet-rels.absent")) o
    -- [Content_Types].xml as written
    let o := match (parts.part? "[Content_Types].xml").bind (·.xml) with
      | none => o.diff "[Content_Types].xml missing or malformed"
      | some root =>
        let m := contentTypesNodeT n hasSst (nums.filterMap (fun p => p.map (·.1))) (nums.filterMap (fun p => p.map (·.2))) tnums.flatten
        let dR := sorted ((root.kids "Default").map canon)
        let dM := sorted ((m.kids "Default").map canon)
        let ovR := sorted ((root.kids "Override").map canon)
        let ovM := sorted ((m.kids "Override").map canon)
        let o := o.count "Default" dM.length
        let o := o.count "Override" ovM.length
        let o := o.count "Override.worksheet" n
        let o := if (if allPlain then dR == dM else subsetOf dM dR) then o else o.diff s!"Default elements: model {dM} file {dR}"
        let o := if (if allPlain then ovR == ovM else subsetOf (if wbplain then ovM else ovM.filter (fun x => (x.splitOn "workbook.xml").length < 2)) ovR) then o
          else o.diff s!"Override elements: model {ovM} file {ovR}"
        -- every part of the real package has a content type (C02_content_types_cover on the file)
        let missing := (parts.filter (fun (p : Part) => p.name ≠ "[Content_Types].xml" ∧ (contentTypeOf parts p.name).isNone)).map (fun (p : Part) => p.name)
        if missing.isEmpty then o else o.diff s!"parts without content type: {missing.take 3}"
    -- the `r:id` of `<legacyDrawing>` in every real sheet part against the model's (C02_cmt_legacy_drawing_resolves)
    let o := if !allPlain then o else
      (List.range n).foldl (fun (o : Out) i =>
        let nm := String.ofList (sheetPartL (i + 1))
        let want : List (Option (List Char)) :=
          if flags.getD i false then [some (rIdText (hlNext 1 (links.getD i [])))] else []
        match (parts.part? nm).bind (·.xml) with
        | none => o.diff s!"{nm} missing or malformed"
        | some root =>
          let real := (root.kids "legacyDrawing").map (fun k => k.attr? "r:id".toList)
          let o := o.count (if want.isEmpty then "legacyDrawing.absent" else "legacyDrawing.present")
          if real = want then o
          else o.diff s!"legacyDrawing of {nm}: model {want.map (fun x => x.map String.ofList)} file {real.map (fun x => x.map String.ofList)}") o
    -- the `<tableParts>` child of every real sheet part against the model's: count and the `r:id`s in order
    let o := if !allPlain then o else
      (List.range n).foldl (fun (o : Out) i =>
        let nm := String.ofList (sheetPartL (i + 1))
        let t := tcounts.getD i 0
        let wantN := tablePartsNodes (links.getD i []) (flags.getD i false) t
        let want : List (Option (List Char) × List (Option (List Char))) :=
          wantN.map (fun tp => (tp.attr? "count".toList, (tp.kids "tablePart").map (fun k => k.attr? "r:id".toList)))
        match (parts.part? nm).bind (·.xml) with
        | none => o
        | some root =>
          let real := (root.kids "tableParts").map (fun tp => (tp.attr? "count".toList, (tp.kids "tablePart").map (fun k => k.attr? "r:id".toList)))
          let o := o.count (if t = 0 then "tableParts.absent" else "tableParts.present")
          let o := o.count "tablePart.rid" t
          if real = want ∧ (want.flatMap (·.2)) = (tablePartIds (links.getD i []) (flags.getD i false) t).map some then o
          else o.diff s!"tableParts of {nm}: model {want.map (fun x => x.2.map (fun y => y.map String.ofList))} file {real.map (fun x => x.2.map (fun y => y.map String.ofList))}") o
    let info := " ".intercalate (o.counts.map (fun p => s!"{p.1}={p.2}"))
    if o.diffs.isEmpty then s!"ok ## {info}" else s!"differs {" | ".intercalate (o.diffs.take 3)} ## {info}"

def handle (parts : Package) (args : List String) : String :=
  match args with
  | [plain, wbplain, links, model, cmt, tbl] =>
    let dp := Umya.Driver.C01.dropPrefix?
    match dp "plain=" plain, dp "wbplain=" wbplain, dp "links=" links, dp "model=" model, dp "cmt=" cmt, dp "tbl=" tbl with
    | some p, some w, some l, some md, some c, some t =>
      match (l.splitOn "|").mapM (parseListOf parseLink), Umya.Driver.C02.parseModel md, (t.splitOn "|").mapM (fun x => x.toNat?) with
      | some ls, some model, some tc => bridge parts ((p.splitOn "|").map (· = "1")) (w = "1") (ls.map sortLinks) model ((c.splitOn "|").map (· = "1")) tc
      | _, _, _ => "bad-op"
    | _, _, _, _, _, _ => "bad-op"
  | _ => "bad-op"

end Umya.Driver.C02Pkg
