/-
  C15 line protocol (see harness/src/c15.rs):

    c15 hash <pw> <salt-hex> <spin>           -> base64 text of convert_password_to_hash
    c15 set <kind> <pw> <pre>                 -> salt-independent observation of the setter
    c15 stored <kind> <pw> <pre> <saltb64>    -> mem=… xml=… reload=…  (setter → write_to → set_attributes)

  kind ∈ sheet | workbook | revisions; pre ∈ 0 (fresh) | 1 (legacy raw hash present) | 2 (old hashed
  values + legacy raw hash present).  Strings travel as hex of UTF-8 (`-` = empty).
-/
import Umya.Model.PwHash
import Umya.Model.PrimsExec
import Umya.Driver.Proto
namespace Umya.Driver.C15
open Umya.Crypto Umya.PwHash Umya.Proto

def P : Prims := Umya.PrimsExec.exec

/-- `pre / 3` says which option switches the caller uses after the password setter (harness `post_flags`);
the model's switches do not touch the password fields, so only `pre % 3` matters here -/
def preFields (n : Nat) : PwFields :=
  match n % 3 with
  | 0 => PwFields.empty
  | 1 => { PwFields.empty with password := some "CC1A".toList }
  | _ => ⟨some "SHA-1".toList, some "AAAA".toList, some "BBBB".toList, some 5, some "CC1A".toList⟩

inductive Kind | sheet | workbook | revisions

def parseKind : String → Option Kind
  | "sheet" => some .sheet
  | "workbook" => some .workbook
  | "revisions" => some .revisions
  | _ => none

def namesOf : Kind → Names
  | .sheet => sheetNames
  | .workbook => workbookNames
  | .revisions => revisionsNames

/-- run the setter of `kind` on the pre-state; returns the fields of that kind and the attributes
    of the element that carries it -/
def runSet (k : Kind) (pw : List Char) (salt : Bytes) (pre : Nat) : PwFields × List Attr :=
  match k with
  | .sheet =>
    let s := setSheetPassword P pw salt ⟨preFields pre⟩
    (s.pw, writeSheet s)
  | .workbook =>
    let w := setWorkbookPassword P pw salt ⟨preFields pre, PwFields.empty⟩
    (w.workbook, writeWorkbook w)
  | .revisions =>
    let w := setRevisionsPassword P pw salt ⟨PwFields.empty, preFields pre⟩
    (w.revisions, writeWorkbook w)

def readBack (k : Kind) (attrs : List Attr) : Option PwFields :=
  match k with
  | .sheet => (readSheet attrs).map (·.pw)
  | .workbook => (readWorkbook attrs).map (·.workbook)
  | .revisions => (readWorkbook attrs).map (·.revisions)

def isName (n : Names) (a : List Char) : Bool :=
  a == n.alg || a == n.hash || a == n.salt || a == n.spin || a == n.password

/-- the public getters: `get_value_str()` gives "" and `get_value()` gives 0 when there is no value -/
def optS : Option (List Char) → String
  | some s => String.ofList s
  | none => ""

def showFields (f : PwFields) : String :=
  s!"{optS f.algorithmName}|{optS f.saltValue}|{f.spinCount.getD 0}|{optS f.hashValue}|{optS f.password}"

def showAttrs (n : Names) (attrs : List Attr) : String :=
  ";".intercalate ((attrs.filter (fun a => isName n a.1)).map fun a => String.ofList a.1 ++ "=" ++ String.ofList a.2)

def handle (args : List String) : String :=
  match args with
  | ["hash", pw, salt, spin] =>
    match decodeStr pw, (if salt = "-" then some ByteArray.empty else hexDecodeBytes salt), spin.toNat? with
    | some pw, some salt, some spin =>
      String.ofList (P.b64 (convertPasswordToHash P pw salt.toList spin))
    | _, _, _ => "bad-op"
  | ["freshseq", _] => "ok"   -- freshness of the random salts: outside the model (harness oracle only)
  | ["set", kind, pw, pre] =>
    match parseKind kind, decodeStr pw, pre.toNat? with
    | some k, some pw, some pre =>
      let (f, attrs) := runSet k pw (List.replicate 16 0) pre
      let n := namesOf k
      let names := ",".intercalate ((attrs.filter (fun a => isName n a.1)).map fun a => String.ofList a.1)
      s!"ok alg={optS f.algorithmName} spin={f.spinCount.getD 0} raw={optS f.password} saltlen={(f.saltValue.getD []).length} hashlen={(f.hashValue.getD []).length} names={names}"
    | _, _, _ => "bad-op"
  | ["stored", kind, pw, pre, salt64] =>
    match parseKind kind, decodeStr pw, pre.toNat?, decodeStr salt64 with
    | some k, some pw, some pre, some s64 =>
      match P.unb64 s64 with
      | some salt =>
        let (f, attrs) := runSet k pw salt pre
        let rl := match readBack k attrs with
          | some g => showFields g
          | none => "panic"
        s!"mem={showFields f} xml={showAttrs (namesOf k) attrs} reload={rl}"
      | none => "bad-op"
    | _, _, _, _ => "bad-op"
  | _ => "bad-op"

end Umya.Driver.C15
