/-
  C15 line protocol (see harness/src/c15.rs):

    c15 hash <pw> <salt-hex> <spin>           -> base64 text of convert_password_to_hash
    c15 set <kind> <pw> <pre>                 -> salt-independent observation of the setter
    c15 stored <kind> <pw> <pre> <saltb64>    -> mem=… xml=… reload=…  (setter → write_to → set_attributes)
    c15 stored <kind> <pw> <pre> <saltb64> <part>
        -> mem=… xml=… reload=… part=read:…;tree:…;chars:…;flags:…
        `<part>` = the characters of the REAL saved part (xl/worksheets/sheet1.xml | xl/workbook.xml).  The composition of
        `C15_roundtrip_xml_sheet / _workbook` is re-run on them: `Spec.Xml.parse` (the XML 1.0 reader of Spec/XmlLex), `root.kid?
        "sheetProtection" | "workbookProtection"`, `AnnotProt.SheetProtection.read | WorkbookProtection.read` (= set_attributes).
        read  = the hash fields of kind read from the part (for the workbook element `!` is appended when the WHOLE record read differs
                from the model's record); the harness expects the fields the model's setter produced (= the real getters)
        tree  = same iff the element found is `.elem name (render x.fields) []` for x = the model's record after the setter on the same
                salt (flags, which are outside the C15 model, taken from the element read)
        chars = found iff `renderNode (.empty name (render x.fields))` (the writer call of the theorem, with attribute escaping) occurs
                in the real characters of the part
        flags = the non-hash attributes of the rendered element (what the harness switched on in the pre-state)

  kind ∈ sheet | workbook | revisions; pre ∈ 0 (fresh) | 1 (legacy raw hash present) | 2 (old hashed
  values + legacy raw hash present).  Strings travel as hex of UTF-8 (`-` = empty).
-/
import Umya.Model.PwHash
import Umya.Model.PrimsExec
import Umya.Driver.Proto
import Umya.Model.AnnotProt
import Umya.Model.XmlWrite
namespace Umya.Driver.C15
open Umya.Crypto Umya.PwHash Umya.Proto

def P : Prims := Umya.PrimsExec.exec

/-- `pre / 3` says which option switches the caller uses after the password setter (harness `post_flags`);
the model's switches do not touch the password fields, so only `pre % 3` matters here -/
def preFields (n : Nat) : PwFields :=
  match n % 3 with
  | 0 => PwFields.empty
  | 1 => { PwFields.empty with password := some "CC1A".toList }
  | _ => ⟨some "SHA-1".toList, some "AAAA".toList, some "BBBB".toList, some 5, some "CC1A".toList⟩

inductive Kind | sheet | workbook | revisions

def parseKind : String → Option Kind
  | "sheet" => some .sheet
  | "workbook" => some .workbook
  | "revisions" => some .revisions
  | _ => none

def namesOf : Kind → Names
  | .sheet => sheetNames
  | .workbook => workbookNames
  | .revisions => revisionsNames

/-- run the setter of `kind` on the pre-state; returns the fields of that kind and the attributes
    of the element that carries it -/
def runSet (k : Kind) (pw : List Char) (salt : Bytes) (pre : Nat) : PwFields × List Attr :=
  match k with
  | .sheet =>
    let s := setSheetPassword P pw salt ⟨preFields pre⟩
    (s.pw, writeSheet s)
  | .workbook =>
    let w := setWorkbookPassword P pw salt ⟨preFields pre, PwFields.empty⟩
    (w.workbook, writeWorkbook w)
  | .revisions =>
    let w := setRevisionsPassword P pw salt ⟨PwFields.empty, preFields pre⟩
    (w.revisions, writeWorkbook w)

def readBack (k : Kind) (attrs : List Attr) : Option PwFields :=
  match k with
  | .sheet => (readSheet attrs).map (·.pw)
  | .workbook => (readWorkbook attrs).map (·.workbook)
  | .revisions => (readWorkbook attrs).map (·.revisions)

def isName (n : Names) (a : List Char) : Bool :=
  a == n.alg || a == n.hash || a == n.salt || a == n.spin || a == n.password

/-- the public getters: `get_value_str()` gives "" and `get_value()` gives 0 when there is no value -/
def optS : Option (List Char) → String
  | some s => String.ofList s
  | none => ""

def showFields (f : PwFields) : String :=
  s!"{optS f.algorithmName}|{optS f.saltValue}|{f.spinCount.getD 0}|{optS f.hashValue}|{optS f.password}"

def showAttrs (n : Names) (attrs : List Attr) : String :=
  ";".intercalate ((attrs.filter (fun a => isName n a.1)).map fun a => String.ofList a.1 ++ "=" ++ String.ofList a.2)

/-! ### the composition of `Thm/C15Xml.lean` on the characters of a saved part -/

def hasInfix (p : List Char) : List Char → Bool
  | [] => p.isEmpty
  | c :: t => p.isPrefixOf (c :: t) || hasInfix p t

/-- `Thm.C15.sheetRec`: the C06 record holding the model's hash state -/
def sheetRec (s : SheetProtection) (flags : Umya.AnnotProt.Flag → Option Bool) : Umya.AnnotProt.SheetProtection :=
  { algorithmName := s.pw.algorithmName, hashValue := s.pw.hashValue, saltValue := s.pw.saltValue,
    spinCount := s.pw.spinCount, password := s.pw.password, flags := flags }

/-- `Thm.C15.wbRec` -/
def wbRec (w : WorkbookProtection) (lr ls lw : Option Bool) : Umya.AnnotProt.WorkbookProtection :=
  { workbookAlgorithmName := w.workbook.algorithmName, workbookHashValue := w.workbook.hashValue,
    workbookSaltValue := w.workbook.saltValue, workbookSpinCount := w.workbook.spinCount,
    workbookPassword := w.workbook.password,
    revisionsAlgorithmName := w.revisions.algorithmName, revisionsHashValue := w.revisions.hashValue,
    revisionsSaltValue := w.revisions.saltValue, revisionsSpinCount := w.revisions.spinCount,
    revisionsPassword := w.revisions.password,
    lockRevision := lr, lockStructure := ls, lockWindows := lw }

def isHashName (a : List Char) : Bool :=
  isName sheetNames a || isName workbookNames a || isName revisionsNames a

/-- element found vs. the model's element: tree, characters, flags -/
def elemReport (name : String) (e : Umya.Spec.Xml.Node) (attrs : List Umya.Spec.Xml.Attr) (part : List Char) : String :=
  let tree := match e with
    | .elem n as [] => n == name.toList && as == attrs
    | _ => false
  let chars := hasInfix (Umya.XmlWrite.renderNode (.empty name.toList attrs)) part
  let flags := ",".intercalate ((attrs.filter (fun a => !isHashName a.name)).map fun a =>
    String.ofList a.name ++ "=" ++ String.ofList a.value)
  s!"tree:{if tree then "same" else "diff"};chars:{if chars then "found" else "absent"};flags:{flags}"

def partCheck (k : Kind) (pw : List Char) (salt : Bytes) (pre : Nat) (part : List Char) : String :=
  match Umya.Spec.Xml.parse part with
  | none => "noparse"
  | some root =>
    match k with
    | .sheet =>
      match root.kid? "sheetProtection" with
      | none => "nokid"
      | some e =>
        match Umya.AnnotProt.SheetProtection.read e with
        | none => "read-panic"
        | some x =>
          let m := sheetRec (setSheetPassword P pw salt ⟨preFields pre⟩) x.flags
          let got : PwFields := ⟨x.algorithmName, x.hashValue, x.saltValue, x.spinCount, x.password⟩
          s!"read:{showFields got};{elemReport "sheetProtection" e (Umya.AnnotCodec.render m.fields) part}"
    | _ =>
      match root.kid? "workbookProtection" with
      | none => "nokid"
      | some e =>
        match Umya.AnnotProt.WorkbookProtection.read e with
        | none => "read-panic"
        | some x =>
          let w := match k with
            | .revisions => setRevisionsPassword P pw salt ⟨PwFields.empty, preFields pre⟩
            | _ => setWorkbookPassword P pw salt ⟨preFields pre, PwFields.empty⟩
          let m := wbRec w x.lockRevision x.lockStructure x.lockWindows
          let got : PwFields := match k with
            | .revisions => ⟨x.revisionsAlgorithmName, x.revisionsHashValue, x.revisionsSaltValue, x.revisionsSpinCount, x.revisionsPassword⟩
            | _ => ⟨x.workbookAlgorithmName, x.workbookHashValue, x.workbookSaltValue, x.workbookSpinCount, x.workbookPassword⟩
          let whole := if x = m then "" else "!"
          s!"read:{showFields got}{whole};{elemReport "workbookProtection" e (Umya.AnnotCodec.render m.fields) part}"

def handle (args : List String) : String :=
  match args with
  | ["hash", pw, salt, spin] =>
    match decodeStr pw, (if salt = "-" then some ByteArray.empty else hexDecodeBytes salt), spin.toNat? with
    | some pw, some salt, some spin =>
      String.ofList (P.b64 (convertPasswordToHash P pw salt.toList spin))
    | _, _, _ => "bad-op"
  | ["freshseq", _] => "ok"   -- freshness of the random salts: outside the model (harness oracle only)
  | ["set", kind, pw, pre] =>
    match parseKind kind, decodeStr pw, pre.toNat? with
    | some k, some pw, some pre =>
      let (f, attrs) := runSet k pw (List.replicate 16 0) pre
      let n := namesOf k
      let names := ",".intercalate ((attrs.filter (fun a => isName n a.1)).map fun a => String.ofList a.1)
      s!"ok alg={optS f.algorithmName} spin={f.spinCount.getD 0} raw={optS f.password} saltlen={(f.saltValue.getD []).length} hashlen={(f.hashValue.getD []).length} names={names}"
    | _, _, _ => "bad-op"
  | ["stored", kind, pw, pre, salt64] =>
    match parseKind kind, decodeStr pw, pre.toNat?, decodeStr salt64 with
    | some k, some pw, some pre, some s64 =>
      match P.unb64 s64 with
      | some salt =>
        let (f, attrs) := runSet k pw salt pre
        let rl := match readBack k attrs with
          | some g => showFields g
          | none => "panic"
        s!"mem={showFields f} xml={showAttrs (namesOf k) attrs} reload={rl}"
      | none => "bad-op"
    | _, _, _, _ => "bad-op"
  | ["stored", kind, pw, pre, salt64, part] =>
    match parseKind kind, decodeStr pw, pre.toNat?, decodeStr salt64, decodeStr part with
    | some k, some pw, some pre, some s64, some part =>
      match P.unb64 s64 with
      | some salt =>
        let (f, attrs) := runSet k pw salt pre
        let rl := match readBack k attrs with
          | some g => showFields g
          | none => "panic"
        s!"mem={showFields f} xml={showAttrs (namesOf k) attrs} reload={rl} part={partCheck k pw salt pre part}"
      | none => "bad-op"
    | _, _, _, _, _ => "bad-op"
  | _ => "bad-op"

end Umya.Driver.C15
