/-
  C14 line protocol (see harness/src/c14.rs).  Byte strings travel as hex (`-` = empty).

    c14 selftest                                         -> ok <n> | fail <names>   (primitive test vectors)
    c14 kdf <pw> <salt> <spin> <keyBits> <blockKey>      -> hex key        (convert_password_to_key)
    c14 iv <salt> <blockSize> <blockKey>                 -> hex iv         (create_iv)
    c14 crypt <key> <iv> <input>                         -> hex | panic    (crypt)
    c14 pkg <salt> <key> <data>                          -> <len> <sha512> | panic   (crypt_package)
    c14 save <method> <pw> <size> <seed>                 -> ok             (the model never fails)
    c14 decrypt <pw> <info> <pkg> <expect>               -> (ok <len> <sha512> | fail <stage>) text=<same|differs@k> wf=<ok|no> scan=<same|differs>
                                                            (Spec: Agile.parseInfo + Agile.decrypt = Agile.decryptFile on the two streams;
                                                             text: the real EncryptionInfo stream equals, byte for byte, the prefix followed by
                                                             `renderDoc` of the writer-call tree `infoW` of the descriptor read from it;
                                                             wf: `infoPlain` = the hypothesis `InfoWF` of `C14_info_parses` holds of that descriptor;
                                                             scan: the text scanner `scanInfo` reads the same descriptor as the XML reader;
                                                             `fail parse` carries no suffix)
    c14 encrypt <pw> <data> <pkgKey> <pkgSalt> <keySalt> <hmacKey> <verifierInput>
                                                         -> ok pkg=<sha512> fields=<canonical> rt=<ok|bad> ## info=<sha512>
                                                            (Model: encrypt + build_encryption_info)
-/
import Umya.Model.PrimsExec
import Umya.Model.Crypt
import Umya.Model.AgileInfoW
import Umya.Spec.Agile
import Umya.Driver.Proto
namespace Umya.Driver.C14
open Umya.Crypto Umya.Proto Umya.PrimsExec Umya.Crypt Umya.Agile

def P : Prims := exec

def bytesOf (s : String) : Option Bytes :=
  if s = "-" then some [] else (hexDecodeBytes s).map (·.toList)

def hexOf (b : Bytes) : String := if b.isEmpty then "-" else hex b

def kdText (k : KeyData) : String :=
  s!"saltSize={k.saltSize},blockSize={k.blockSize},keyBits={k.keyBits},hashSize={k.hashSize}," ++
  s!"cipherAlgorithm={String.ofList k.cipherAlgorithm},cipherChaining={String.ofList k.cipherChaining}," ++
  s!"hashAlgorithm={String.ofList k.hashAlgorithm},saltValue={String.ofList k.saltValue}"

def canon (i : Info) : String :=
  s!"keyData:{kdText i.keyData}|dataIntegrity:encryptedHmacKey={String.ofList i.encryptedHmacKey}," ++
  s!"encryptedHmacValue={String.ofList i.encryptedHmacValue}|encryptedKey:spinCount={i.spinCount},{kdText i.key}," ++
  s!"encryptedVerifierHashInput={String.ofList i.encryptedVerifierHashInput}," ++
  s!"encryptedVerifierHashValue={String.ofList i.encryptedVerifierHashValue}," ++
  s!"encryptedKeyValue={String.ofList i.encryptedKeyValue}"

/-- first position where two byte strings differ -/
def firstDiff : Nat → Bytes → Bytes → Option Nat
  | _, [], [] => none
  | k, a :: x, b :: y => if a = b then firstDiff (k + 1) x y else some k
  | k, _, _ => some k

/-- the tie of `C14_info_parses` / `C14_info_text_is_writer_calls` on a real stream and the descriptor read from it -/
def infoChecks (info : Bytes) (i : Info) : String :=
  let text := match firstDiff 0 (infoStreamW i) info with
    | none => "same"
    | some k => s!"differs@{k}"
  let wf := if infoPlain i then "ok" else "no"
  let scan := if Umya.Spec.Agile.scanInfo info == some i then "same" else "differs"
  s!" text={text} wf={wf} scan={scan}"

def decryptStages (pw : List Char) (i : Info) (pkg : Bytes) : String :=
  match Umya.Spec.Agile.verifyPassword P i pw with
  | none => "fail verifier"
  | some hn =>
    match Umya.Spec.Agile.packageKey P i hn with
    | none => "fail key"
    | some pk =>
      if !Umya.Spec.Agile.integrityOk P i pk pkg then "fail hmac"
      else match Umya.Spec.Agile.decryptData P i pk pkg with   -- = `Agile.decrypt P i pkg pw` at this point
        | none => "fail data"
        | some plain => s!"ok {plain.length} {hex (P.sha512 plain)}"

/-- `Agile.decryptFile` on the two streams, stage by stage, then the checks on the EncryptionInfo stream -/
def decryptLine (pw : List Char) (info pkg : Bytes) : String :=
  match Umya.Spec.Agile.parseInfo info with
  | none => "fail parse"
  | some i => decryptStages pw i pkg ++ infoChecks info i

def handle (args : List String) : String :=
  match args with
  | ["selftest"] => selftest
  | ["kdf", pw, salt, spin, bits, bk] =>
    match decodeStr pw, bytesOf salt, spin.toNat?, bits.toNat?, bytesOf bk with
    | some pw, some salt, some spin, some bits, some bk => hexOf (convertPasswordToKey P pw salt spin bits bk)
    | _, _, _, _, _ => "bad-op"
  | ["iv", salt, bs, bk] =>
    match bytesOf salt, bs.toNat?, bytesOf bk with
    | some salt, some bs, some bk => hexOf (createIv P salt bs bk)
    | _, _, _ => "bad-op"
  | ["crypt", key, iv, inp] =>
    match bytesOf key, bytesOf iv, bytesOf inp with
    | some key, some iv, some inp =>
      (match crypt P key iv inp with | some o => hexOf o | none => "panic")
    | _, _, _ => "bad-op"
  | ["pkg", salt, key, data] =>
    match bytesOf salt, bytesOf key, bytesOf data with
    | some salt, some key, some data =>
      (match cryptPackage P salt key data with
       | some o => s!"{o.length} {hex (P.sha512 o)}"
       | none => "panic")
    | _, _, _ => "bad-op"
  | ["save", _, _, _, _] => "ok"
  | ["decrypt", pw, info, pkg, _] =>
    match decodeStr pw, bytesOf info, bytesOf pkg with
    | some pw, some info, some pkg => decryptLine pw info pkg
    | _, _, _ => "bad-op"
  | ["encrypt", pw, data, pk, ps, ks, hk, vi] =>
    match decodeStr pw, bytesOf data, bytesOf pk, bytesOf ps, bytesOf ks, bytesOf hk, bytesOf vi with
    | some pw, some data, some pk, some ps, some ks, some hk, some vi =>
      (match encrypt P data pw ⟨pk, ps, ks, hk, vi⟩ with
       | none => "panic"
       | some (info, pkg) =>
         let bytes := buildEncryptionInfo info
         let rt := if Umya.Spec.Agile.parseInfo bytes == some info && Umya.Spec.Agile.scanInfo bytes == some info &&
                      infoPlain info && infoStreamW info == bytes then "ok" else "bad"
         s!"ok pkg={hex (P.sha512 pkg)} fields={canon info} rt={rt} ## info={hex (P.sha512 bytes)}")
    | _, _, _, _, _, _, _ => "bad-op"
  | _ => "bad-op"

end Umya.Driver.C14
