/-
  The character-level leg of the C01 tie (`c01 chars`, `c01 charsorig`), theorem `C01_sheet_chars_roundtrip` /
  `C01_book_chars_roundtrip` (`Umya/Thm/C01Chars.lean`).  Input: the REAL characters of the worksheet parts and of
  the shared-strings part of a saved package, and the model's cells.

  (a) WRITER SIDE, character for character.  The writer calls of each real part are recovered as in
      `Umya/Driver/XmlRender.lean` (`annotate`: a tree `w` with `renderDoc w` = the part, character for character,
      and `WF w` — the hypotheses of `C02_bytes_parse`).  The model's row loop (the real row table with its
      attributes, the model's cells under it, one string table threaded through rows and sheets: `writeCells`)
      gives the writer calls of `<sheetData>` (`Umya/Model/CellCharsW.lean::cellW`); its characters must be those of
      the real `<sheetData>`.  Likewise every `<si>` of the final table against the real shared-strings part
      (`siW`, the content of `<rPr>` taken from the real part).
  (b) READER SIDE.  The composed function of the theorems, `readBookChars` (XML 1.0 `parse` of every part, fact
      view, C01's reader), is run on the real characters; the reply is the dump of its result, which the harness
      compares with the cells the library reloaded from the same package.

  A part that contains a character outside XML 1.0 `Char` is not in the domain of the theorems
  (`C01_non_xml_char_partial`): `c01 charsorig` checks that `parse` rejects such parts (and only such parts).
-/
import Umya.Driver.Proto
import Umya.Driver.XmlRender
import Umya.Model.CellTree
import Umya.Model.CellCharsW
import Umya.Model.SheetNode
namespace Umya.Driver.C01Chars
open Umya.Proto Umya.CellXml Umya.CellTree Umya.CellCharsW Umya.XmlWrite Umya.Num
open Umya.Spec.Xml (Attr Token lex parse isXmlChar)

abbrev CellT := Cell (List Char)

/-- the writer calls of a part, checked: `renderDoc w` is the part and `WF w` -/
def annotate (cs : List Char) : Except String WNode :=
  if !Umya.Driver.XmlRender.isPrefix (writeDecl ++ writeNewLine) cs then .error "prolog is not the declaration + CR LF"
  else
    match lex cs with
    | none => .error "not lexed"
    | some toks =>
      match toks, Umya.Driver.XmlRender.rawSegs cs with
      | .text v :: toks', r :: segs' =>
        if v ≠ ['\n'] ∨ r ≠ newLineLit then .error "character data before the root is not one CR LF"
        else
          match Umya.Driver.XmlRender.annGo [] none segs' {} toks' with
          | .error e => .error e
          | .ok (w, _) =>
            if !(isElemW w && WF w) then .error "outside the hypotheses of C02_bytes_parse"
            else
              match Umya.Driver.XmlRender.firstDiff (renderDoc w) cs 0 with
              | none => .ok w
              | some i => .error s!"re-rendered part differs at {i}"
      | _, _ => .error "no character data after the declaration"

def wName : WNode → List Char
  | .elem n _ _ => n
  | .empty n _ => n
  | _ => []

def wAttrs : WNode → List Attr
  | .elem _ as _ => as
  | .empty _ as => as
  | _ => []

def wKids : WNode → List WNode
  | .elem _ _ ks => ks
  | _ => []

def wAttr? (w : WNode) (name : List Char) : Option (List Char) := ((wAttrs w).find? (·.name = name)).map (·.value)

def wKid? (w : WNode) (name : List Char) : Option WNode := (wKids w).find? (fun k => wName k = name)

def natOfText (t : List Char) : Option Nat := (String.ofList t).toNat?

/-- the model's row loop under the REAL row table: per real `<row>` (attributes as they are) the model's cells of
    that row through `writeCells`; result: the table, the rows' writer calls, the cells no row took -/
def modelRows (F : NumFmt) : Table → List (Cell F.Num) → List WNode → Option (Table × List WNode × List (Cell F.Num))
  | tbl, cells, [] => some (tbl, [], cells)
  | tbl, cells, r :: rs =>
    let n := ((wAttr? r ['r']).bind natOfText).getD 0
    let p := Umya.SheetNode.takeRow n cells
    match writeCells F tbl p.1 with
    | none => none
    | some (t1, xs) =>
      let sOf (cx : CellX) : Option (List Char) :=
        if cx.styled then some ((((wKids r).find? (fun k => wAttr? k ['r'] = some cx.ref)).bind (wAttr? · ['s'])).getD ['?']) else none
      let rowW : WNode :=
        if p.1.isEmpty then .empty Umya.SheetNode.nRow (wAttrs r)
        else .elem Umya.SheetNode.nRow (wAttrs r) (xs.map fun cx => cellW (sOf cx) cx)
      match modelRows F t1 p.2 rs with
      | none => none
      | some (t2, ws, rest) => some (t2, rowW :: ws, rest)

structure Out where
  diffs : List String := []
  cells : Nat := 0
  rows : Nat := 0
  sis : Nat := 0
  chars : Nat := 0

def showAt (a b : List Char) (i : Nat) : String :=
  let f (l : List Char) := ((String.ofList ((l.drop (i - 20)).take 60)).replace "\n" "\\n").replace "\r" "\\r"
  s!"model {f a} | part {f b}"

/-- one worksheet part: the characters of the model's `<sheetData>` against those of the real one -/
def sheetLeg (F : NumFmt) (k : Nat) (tbl : Table) (cells : List (Cell F.Num)) (cs : List Char) (o : Out) : Table × Out :=
  match annotate cs with
  | .error e => (tbl, { o with diffs := o.diffs ++ [s!"sheet {k}: {e}"] })
  | .ok w =>
    match wKid? w Umya.SheetNode.nSheetData with
    | none => (tbl, { o with diffs := o.diffs ++ [s!"sheet {k}: no <sheetData>"] })
    | some sdR =>
      match modelRows F tbl cells (wKids sdR) with
      | none => (tbl, { o with diffs := o.diffs ++ [s!"sheet {k}: the writer model panics"] })
      | some (t1, rowsM, rest) =>
        let sdM : WNode := if rowsM.isEmpty then .empty Umya.SheetNode.nSheetData (wAttrs sdR) else .elem Umya.SheetNode.nSheetData (wAttrs sdR) rowsM
        let a := renderKids [sdM]
        let b := renderKids [sdR]
        let o := { o with rows := o.rows + rowsM.length, cells := o.cells + (cells.filter (fun c => !blankUnstyled F c)).length,
                          chars := o.chars + b.length }
        let o := if rest.isEmpty then o else { o with diffs := o.diffs ++ [s!"sheet {k}: {rest.length} model cells in rows the part does not have"] }
        match Umya.Driver.XmlRender.firstDiff a b 0 with
        | none => (t1, o)
        | some i => (t1, { o with diffs := o.diffs ++ [s!"sheet {k}: <sheetData> differs at {i}: {showAt a b i}"] })

def sheetsLeg (F : NumFmt) : Nat → Table → List (List (Cell F.Num)) → List (List Char) → Out → Table × Out
  | _, tbl, [], [], o => (tbl, o)
  | k, tbl, cells :: cr, cs :: pr, o =>
    let p := sheetLeg F k tbl cells cs o
    sheetsLeg F (k + 1) p.1 cr pr p.2
  | _, tbl, _, _, o => (tbl, { o with diffs := o.diffs ++ ["number of sheet parts differs from the model's sheets"] })

/-- the shared-strings part: every `<si>` of the model's final table against the real one -/
def sstLeg (tbl : Table) (sst : Option (List Char)) (o : Out) : Out :=
  match sst with
  | none => if tbl.isEmpty then o else { o with diffs := o.diffs ++ [s!"no shared-strings part, but the model's table has {tbl.length} items"] }
  | some cs =>
    match annotate cs with
    | .error e => { o with diffs := o.diffs ++ [s!"sst: {e}"] }
    | .ok w =>
      let sisR := (wKids w).filter (fun k => wName k = ['s', 'i'])
      if sisR.length ≠ tbl.length then { o with diffs := o.diffs ++ [s!"sst: {sisR.length} <si> in the part, {tbl.length} items in the model's table"] }
      else
        (tbl.zip sisR).foldl (fun o (it, r) =>
          let rprs := ((wKids r).filter (fun k => wName k = ['r'])).map (fun run => (wKid? run ['r', 'P', 'r']).getD (.empty ['r', 'P', 'r'] []))
          let a := renderKids [siW rprs (siOf it)]
          let b := renderKids [r]
          let o := { o with sis := o.sis + 1, chars := o.chars + b.length }
          match Umya.Driver.XmlRender.firstDiff a b 0 with
          | none => o
          | some i => if o.diffs.length < 3 then { o with diffs := o.diffs ++ [s!"sst: <si> differs at {i}: {showAt a b i}"] } else o) o

def decodeParts (sst sheets : String) : Option (Option (List Char) × List (List Char)) :=
  let s : Option (Option (List Char)) := if sst = "~" then some none else (decodeStr sst).map some
  match s, (sheets.splitOn "|").mapM decodeStr with
  | some s, some ps => some (s, ps)
  | _, _ => none

def dropCells (sheets : List (List CellT)) (drop : String) : Option (List (List CellT)) :=
  if drop = "drop=~" then some sheets
  else
    match ((String.ofList (drop.toList.drop 5)).splitOn ",").mapM (fun e => match e.splitOn ":" with
      | [s, c, r] => (match s.toNat?, c.toNat?, r.toNat? with | some s, some c, some r => some (s, c, r) | _, _, _ => none)
      | _ => none) with
    | none => none
    | some ds => some (sheets.zipIdx.map fun (p : List CellT × Nat) => p.1.filter fun c => !ds.contains (p.2, c.col, c.row))

/-- `c01 chars <std|light> drop=<s:col:row,…|~> <sst hex|~> <sheet hex>|…` -/
def chars (dump : List (List CellT) → String) (hints : List (List Char × List Char)) (sheets : List (List CellT))
    (drop sst parts : String) : String :=
  -- `hints`: what Rust's `parse::<f64>()` + `Display` make of the texts of unresolved lazy values (typed by `write_to`)
  let F := textFmt hints
  match dropCells sheets drop, decodeParts sst parts with
  | some sheets, some (sstCs, partCs) =>
    if !((sstCs.getD []).all isXmlChar && partCs.all (·.all isXmlChar)) then "render=skipped nonxml"
    else
      let p := sheetsLeg F 0 [] sheets partCs {}
      let o := sstLeg p.1 sstCs p.2
      let rd := match readBookChars F sstCs partCs with
        | some r => dump r
        | none => "panic"
      let info := s!"cells={o.cells} rows={o.rows} si={o.sis} chars={o.chars}"
      if o.diffs.isEmpty then s!"render=same xml {rd} ## {info}"
      else s!"render=differs {" | ".intercalate (o.diffs.take 3)} xml {rd} ## {info}"
  | _, _ => "bad-op"

/-- `c01 charsorig <sst hex|~> <sheet hex>|…`: parts with a character outside XML 1.0 `Char` are rejected by `parse`,
    the others are accepted -/
def charsOrig (sst parts : String) : String :=
  match decodeParts sst parts with
  | some (sstCs, partCs) =>
    let all := (match sstCs with | some c => [c] | none => []) ++ partCs
    let bad := all.filter (fun cs => !cs.all isXmlChar)
    let wrong := all.filter (fun cs => (parse cs).isSome ≠ cs.all isXmlChar)
    if wrong.isEmpty then s!"nonxml-parts={bad.length} rejected={bad.length}" else s!"nonxml-parts={bad.length} parse-disagrees={wrong.length}"
  | none => "bad-op"

end Umya.Driver.C01Chars
