import Umya.Driver.C10
import Umya.Model.Book
import Umya.Model.SheetA
namespace Umya.Driver.C07
open Umya.Sheet Umya.Book Umya.Coord
open Umya.Driver.C10 (joinWith nat? int? optNat?)

structure St where
  book : Book := {}
  dead : Bool := false

def rangeText (ρ : Range) : String := String.ofList (Range.print ρ)

def dumpSheet (w : WSheet) : String :=
  let m := joinWith "," (w.merges.map rangeText)
  let cm := joinWith "," (w.comments.map (fun c => s!"{c.col}.{c.row}.{c.id}"))
  let cf := joinWith "," (w.cfs.map (fun f => s!"{f.id}:{joinWith "+" (f.ranges.map rangeText)}"))
  let af := match w.filter with | some ρ => rangeText ρ | none => "-"
  -- the cell dump shows the value tokens (hyperlink tokens stripped); `hl` lists row.col.hyperlink of every cell that has one
  let hl := joinWith "," ((linksOf w.grid).map (fun t => s!"{t.1}.{t.2.1}.{t.2.2}"))
  s!"{Umya.Driver.C10.dump (stripLinks w.grid)};m={m};cm={cm};cf={cf};af={af};hl={hl}"

def dumpBook (b : Book) : String := joinWith " | " (b.sheets.map dumpSheet)

def mkRect (rs re cs ce : Nat) : Range :=
  { startCol := some ⟨cs, false⟩, startRow := some ⟨rs, false⟩, endCol := some ⟨ce, false⟩, endRow := some ⟨re, false⟩ }

def mutate (st : St) (r : Res Book) : St × String :=
  match r with
  | .ok b => ({ st with book := b }, "ok " ++ dumpBook b)
  | .panic => ({ st with dead := true }, "panic")

def onSheet (b : Book) (i : Nat) (f : WSheet → Res WSheet) : Res Book :=
  match b.sheets[i]? with
  | none => .panic
  | some w => match f w with
    | .ok w' => .ok { sheets := modifyNth b.sheets i (fun _ => w') }
    | .panic => .panic

def onGrid (b : Book) (i : Nat) (f : Sheet → Res Sheet) : Res Book :=
  onSheet b i (fun w => match f w.grid with | .ok g => .ok { w with grid := g } | .panic => .panic)

def parseNats (l : List String) : Option (List Nat) := l.mapM nat?

def handle (st : St) (args : List String) : St × String :=
  match args with
  | ["reset", k] => match nat? k with
    | some k => ({ book := { sheets := List.replicate k {} } }, "ok")
    | none => (st, "bad-op")
  | _ =>
  if st.dead then (st, "dead") else
  let b := st.book
  match args with
  | ["dump"] => (st, dumpBook b)
  | "cell" :: i :: rest =>
    -- cell-level operations are those of C10, addressed to sheet i
    match nat? i with
    | none => (st, "bad-op")
    | some i =>
      match b.sheets[i]? with
      | none => (st, "bad-op")
      | some w =>
        -- operations that involve the hyperlink or the whole worksheet record (`Model/SheetA.lean`)
        let special : Option (Res WSheet) := match rest with
          | ["setval", c, r, v] => match nat? c, nat? r, nat? v with
            | some c, some r, some v => some (.ok { w with grid := setValH w.grid c r v })
            | _, _, _ => none
          | ["setcellh", c, r, v, sy, h] => match parseNats [c, r, v, sy, h] with
            | some [c, r, v, sy, h] => some (.ok { w with grid := setCellH w.grid c r v sy h })
            | _ => none
          | [mv, rs, re, cs, ce, dr, dc] =>
            if mv = "move" ∨ mv = "copy" then
              match nat? rs, nat? re, nat? cs, nat? ce, int? dr, int? dc with
              | some rs, some re, some cs, some ce, some dr, some dc => some (wsMoveOrCopy w rs re cs ce dr dc (mv = "move"))
              | _, _, _, _, _, _ => none
            else none
          | _ => none
        -- an inverted rectangle on a store without cells: `BTreeSet::range` with start > end panics only when the tree has a
        -- root node (an index emptied by `remove_cell`), not on a fresh one (after `rebuild_map_and_indices`): that
        -- allocation state is below the model, whose `coordsInRange` says panic; such a request is not compared
        let invertedOnEmpty : Bool := w.grid.rowIdx.isEmpty && (match rest with
          | [mv, rs, re, cs, ce, _, _] => (mv = "move" || mv = "copy") && (match nat? rs, nat? re, nat? cs, nat? ce with
            | some rs, some re, some cs, some ce => keyLt (re, ce) (rs, cs)
            | _, _, _, _ => false)
          | _ => false)
        if invertedOnEmpty then ({ st with dead := true }, "unmodelled") else
        match special with
        | some r => mutate st (onSheet b i (fun _ => r))
        | none =>
        let (s10, reply) := Umya.Driver.C10.handle { sheet := w.grid } rest
        if reply = "panic" then ({ st with dead := true }, "panic")
        else if reply.startsWith "ok" then
          let b' : Book := { sheets := modifyNth b.sheets i (fun w => { w with grid := s10.sheet }) }
          ({ st with book := b' }, "ok " ++ dumpBook b')
        else (st, reply)
  | ["rowdim", i, r, sy] => match nat? i, nat? r, nat? sy with
    | some i, some r, some sy => mutate st (onGrid b i (fun g => .ok (setRowSty g r sy)))
    | _, _, _ => (st, "bad-op")
  | ["coldim", i, c, sy] => match nat? i, nat? c, nat? sy with
    | some i, some c, some sy => mutate st (onGrid b i (fun g => .ok (setColSty g c sy)))
    | _, _, _ => (st, "bad-op")
  | ["merge", i, rs, re, cs, ce] => match parseNats [i, rs, re, cs, ce] with
    | some [i, rs, re, cs, ce] => mutate st (onSheet b i (fun w => .ok { w with merges := w.merges ++ [mkRect rs re cs ce] }))
    | _ => (st, "bad-op")
  | ["comment", i, c, r, id] => match parseNats [i, c, r, id] with
    | some [i, c, r, id] => mutate st (onSheet b i (fun w => .ok { w with comments := w.comments ++ [⟨c, r, id⟩] }))
    | _ => (st, "bad-op")
  | ["filter", i, rs, re, cs, ce] => match parseNats [i, rs, re, cs, ce] with
    | some [i, rs, re, cs, ce] => mutate st (onSheet b i (fun w => .ok { w with filter := some (mkRect rs re cs ce) }))
    | _ => (st, "bad-op")
  | "cf" :: i :: id :: rest => match nat? i, nat? id, parseNats rest with
    | some i, some id, some ns =>
      let rec rects : List Nat → List Range
        | rs :: re :: cs :: ce :: t => mkRect rs re cs ce :: rects t
        | _ => []
      mutate st (onSheet b i (fun w => .ok { w with cfs := w.cfs ++ [⟨rects ns, id⟩] }))
    | _, _, _ => (st, "bad-op")
  -- structural edits: workbook level (`w…`, by sheet) and sheet level (`s…`) are the same function
  -- of the edited sheet in the model; they differ in the implementation's entry point
  | [op, i, rc, oc, rr, or_] =>
    match parseNats [i, rc, oc, rr, or_] with
    | some [i, rc, oc, rr, or_] =>
      if op = "wins" ∨ op = "sins" then mutate st (.ok (bookInsert b i rc oc rr or_))
      else if op = "wrem" ∨ op = "srem" then mutate st (bookRemove b i rc oc rr or_)
      else (st, "bad-op")
    | _ => (st, "bad-op")
  | _ => (st, "bad-op")

end Umya.Driver.C07
