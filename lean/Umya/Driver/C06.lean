import Umya.Driver.Proto
import Umya.Model.Annot
import Umya.Driver.C06View
import Umya.Driver.C06Codec
import Umya.Driver.C06Comment
import Umya.Driver.C06Names
namespace Umya.Driver.C06
open Umya.Annot Umya.Coord Umya.Proto Umya.XmlEsc

structure St where
  cases : Nat := 0

def hx (t : Text) : String := encodeStr t

def splitList (s : String) : List String := if s = "" ∨ s = "-" then [] else s.splitOn ","

def decodeAll (l : List String) : Option (List Text) := l.mapM decodeStr

def resOpt {α} : Res α → Option α
  | .ok a => some a
  | .panic => none

def specOf (d : DefName) : String :=
  match d.str with
  | some t => s!"s:{hx t}"
  | none => "a:" ++ ",".intercalate (d.areas.map (fun a => s!"{hx a.sheet}/{hx a.range.print}"))

def parseSpec (s : String) : Option DefName :=
  if s.startsWith "s:" then (decodeStr (s.drop 2).toString).map (fun t => { str := some t })
  else if s.startsWith "a:" then
    let items := splitList (s.drop 2).toString
    let as := items.mapM fun it =>
      match it.splitOn "/" with
      | [sh, rg] =>
        match decodeStr sh, decodeStr rg with
        | some sh, some rg => (resOpt (Range.parse rg)).map (fun ρ => Address.mk sh ρ)
        | _, _ => none
      | _ => none
    as.map (fun l => { areas := l })
  else none

def optHex : Option Text → String
  | some t => s!"={hx t}"
  | none => "~"

def linkStr (l : Link) : String := s!"{String.ofList l.coord}/{if l.external then "e" else "l"}/{hx l.target}/{hx l.tooltip}"

def parseLink (s : String) : Option Link :=
  match s.splitOn "/" with
  | [c, k, u, t] =>
    match decodeStr u, decodeStr t with
    | some u, some t => some ⟨c.toList, k = "e", u, t⟩
    | _, _ => none
  | _ => none

def dedup (l : List Text) : List Text := l.foldl (fun acc a => if acc.contains a then acc else acc ++ [a]) []

def handle (st : St) (args : List String) : St × String :=
  match args with
  | "reset" :: _ => ({ st with cases := st.cases + 1 }, "ok")
  | "view" :: rest => (st, Umya.Driver.C06View.handle "view" rest)
  | "page" :: rest => (st, Umya.Driver.C06View.handle "page" rest)
  | "prot" :: rest => (st, Umya.Driver.C06View.handle "prot" rest)
  | ["sheetlist", items] =>
    match decodeAll (splitList items) with
    | some names =>
      let w := names.map attrWrite
      let r := w.map attrRead
      (st, s!"w={",".intercalate (w.map hx)};r={",".intercalate (r.map hx)}")
    | none => (st, "bad-op")
  | ["dnw", spec] =>
    match parseSpec spec with
    | some d => (st, hx (dnWrite d))
    | none => (st, "bad-op")
  | ["dnr", raw] =>
    match decodeStr raw with
    | some r =>
      match dnRead r with
      | .ok d => (st, s!"{specOf d};text={hx d.text}")
      | .panic => (st, "panic")
    | none => (st, "bad-op")
  | ["dnset", v] =>
    match decodeStr v with
    | some v =>
      match DefName.setAddress {} v with
      | .ok d => (st, s!"{specOf d};text={hx d.text}")
      | .panic => (st, "panic")
    | none => (st, "bad-op")
  | ["range", t] =>
    match decodeStr t with
    | some t =>
      match Range.parse t with
      | .ok ρ =>
        let w := rangeWrite ρ
        (st, s!"w={hx w};r={match rangeRead w with | .ok ρ' => hx ρ'.print | .panic => "panic"}")
      | .panic => (st, "panic")
    | none => (st, "bad-op")
  | ["links", items] =>
    match (splitList items).mapM parseLink with
    | some ls =>
      let ord := walkOrder ls
      let sw := sheetWalk ord 1
      let rw := relsWalk ord 1
      let w := sw.map fun e => s!"{String.ofList e.ref}/{match e.rid with | some k => s!"rId{k}" | none => "-"}/{optHex e.location}/{optHex e.tooltip}"
      let rl := rw.map fun p => s!"rId{p.1}/{hx p.2}"
      let r := match reloadLinks ord 1 with
        | .ok back => ",".intercalate (back.map linkStr)
        | .panic => "panic"
      (st, s!"w={",".intercalate w};rels={",".intercalate rl};r={r}")
    | none => (st, "bad-op")
  | ["comments", order, items] =>
    let cs := (splitList items).mapM fun it =>
      match it.splitOn "/" with
      | [c, a] => (decodeStr a).map (fun a => Cmt.mk c.toList a)
      | _ => none
    match decodeAll (order.splitOn ","), cs with
    | some tbl, some cs =>
      -- the table must be the set of authors, each once, in some order
      let want := dedup (cs.map (·.author))
      if tbl.length = want.length ∧ tbl.all want.contains ∧ want.all tbl.contains then
        let ws := cs.map (writeCmt tbl)
        let ids := ws.map fun w => match w.2 with | some i => toString i | none => ""
        let r := match reloadComments true tbl cs with
          | .ok back => ",".intercalate (back.map fun (c : Cmt) => s!"{String.ofList c.cell}/{hx c.author}")
          | .panic => "panic"
        (st, s!"authors={",".intercalate (tbl.map (fun a => hx (escape a)))};ids={",".intercalate ids};r={r}")
      else (st, "bad-perm")
    | _, _ => (st, "bad-op")
  | _ =>
    match Umya.Driver.C06Codec.handle args with
    | some r => (st, r)
    | none =>
      match Umya.Driver.C06Comment.handle args with
      | some r => (st, r)
      | none =>
        match Umya.Driver.C06Names.handle args with
        | some r => (st, r)
        | none => (st, "bad-op")

end Umya.Driver.C06
