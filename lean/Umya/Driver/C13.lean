import Umya.Model.Fs
namespace Umya.Driver.C13
open Umya.Fs

def resStr : R → String
  | .ok => "ok" | .err => "err" | .panic => "panic" | .diverge => "diverge"

def destP : Path := "out.x".toList
def devP : Path := "/dev/full".toList
def srcP : Path := "from.xlsx".toList

def dataOf (n : Nat) : Bytes := List.replicate n 120
def oldOf (n : Nat) : Bytes := List.replicate n 111

/-- cut into pieces of `n` bytes (fuel = length) -/
def chunksOf (n : Nat) : Nat → Bytes → List Bytes
  | 0, _ => []
  | k + 1, bs => if bs.isEmpty then [] else bs.take (max n 1) :: chunksOf n k (bs.drop (max n 1))

structure Scenario where
  fs : Fs
  φ : Fault
  destOld : Option Node

/-- `oldn = none`: the destination does not exist before the call (a fresh path) -/
def scenario (oldn : Option Nat) (fault : String) : Option Scenario :=
  let old : Option Node := oldn.map fun n => Node.file (oldOf n)
  let base : Fs := (match old with | some o => [(destP, o)] | none => []) ++ [(srcP, .file (dataOf 10))]
  match fault.splitOn ":" with
  | ["none"] => some ⟨base, noFault, old⟩
  | ["devfull"] =>
    -- the temp name is a symlink to a device on which every write fails
    some ⟨(tmpOf destP, .symlink devP) :: (devP, .file []) :: base, { noFault with write := fun _ _ _ => .err }, old⟩
  | ["createfail"] => some ⟨(tmpOf destP, .dir) :: base, noFault, old⟩
  | ["renamefail"] => some ⟨[(destP, .dir), (srcP, .file (dataOf 10))], noFault, some .dir⟩
  | ["limit", k] =>
    match k.toNat? with
    | some k => some ⟨base, { noFault with write := limitPolicy k true }, old⟩
    | none => none
  | ["stale", k] =>
    -- a regular file of k bytes left at the temp name by an earlier, killed save
    match k.toNat? with
    | some k => some ⟨(tmpOf destP, .file (List.replicate k 0xEE)) :: base, noFault, old⟩
    | none => none
  | _ => none

def handlePath (kind : String) (size : Nat) (oldn : Option Nat) (fault : String) : String :=
  match scenario oldn fault with
  | none => "bad-op"
  | some sc =>
    let data := dataOf size
    let out? : Option (St × R) :=
      match kind with
      | "xlsx" | "light" | "csv" => some (savePath sc.φ data destP (St.init sc.fs))
      | "pw" | "pwlight" => some (savePw sc.φ (chunksOf 4096 size data) destP (St.init sc.fs))
      | "setpw" => some (setPw sc.φ (fun _ => chunksOf 4096 size data) srcP destP (St.init sc.fs))
      | _ => none
    match out? with
    | none => "bad-op"
    | some (st, r) =>
      let d := get st.cur destP
      let dest :=
        if d = sc.destOld then "old"
        else if d = some (.file data) then "new"
        else "other"
      let tmp := if get st.cur (tmpOf destP) = none then "absent" else "left"
      s!"{resStr r} dest={dest} tmp={tmp}"

def handleSink (kind : String) (size chunk : Nat) (fail : Option Nat) (zero : Bool) (ncalls : Nat) : String :=
  match kind with
  | "pw" =>
    -- the container writer is opaque: a fault-free run makes `ncalls` write calls, each of which
    -- the fixed code checks
    match fail with
    | some i => if i < ncalls then "err" else "ok"
    | none => "ok"
  | "xlsx" | "light" | "csv" =>
    let o := writeWriter { noFault with write := callPolicy chunk fail zero } (dataOf size)
    match o.accepted with
    | some b => s!"{resStr o.res} calls={o.calls} accepted={b.length}"
    | none => "unmodelled"
  | _ => "bad-op"

def handle (args : List String) : String :=
  match args with
  | ["sink", kind, _wb, size, chunk, fail, mode, ncalls] =>
    match size.toNat?, chunk.toNat?, ncalls.toNat? with
    | some size, some chunk, some ncalls =>
      if fail = "-" then handleSink kind size chunk none (mode == "zero") ncalls
      else match fail.toNat? with
        | some f => handleSink kind size chunk (some f) (mode == "zero") ncalls
        | none => "bad-op"
    | _, _, _ => "bad-op"
  | ["path", kind, _wb, size, oldn, fault] =>
    match size.toNat?, oldn.toNat? with
    | some size, some oldn => handlePath kind size (some oldn) fault
    | some size, none => if oldn = "absent" then handlePath kind size none fault else "bad-op"
    | _, _ => "bad-op"
  | ["kill", _, _] => "ok"
  | ["watch", _, _, _] => "ok"
  | _ => "bad-op"

end Umya.Driver.C13
