import Umya.Driver.Proto
import Umya.Model.Lazy
import Umya.Model.LazyPkg
/-
  Line protocol of C11.  The driver instantiates the model's open parameters:
    * sheet content = (which sheet of the file it was decoded from, the cells written by `edit` requests);
    * `decode` = "sheet k of the file, no edits"; the serialiser's `Profile` of a deserialized sheet is supplied
      by the harness with every `save` request (taken from the eager workbook's own save);
    * part names are parsed into / rendered from the structured `PName`.
-/
namespace Umya.Driver.C11
open Umya.Lazy Umya.Proto

/-! ### part names as text -/

def famText : Fam → String × String
  | .drawing => ("xl/drawings/drawing", ".xml")
  | .vml => ("xl/drawings/vmlDrawing", ".vml")
  | .comment => ("xl/comments", ".xml")
  | .chart => ("xl/charts/chart", ".xml")
  | .ole => ("xl/embeddings/oleObject", ".bin")
  | .excel => ("xl/embeddings/Microsoft_Excel_Worksheet", ".xlsx")
  | .printer => ("xl/printerSettings/printerSettings", ".bin")
  | .table => ("xl/tables/table", ".xml")

def allFams : List Fam := [.drawing, .vml, .comment, .chart, .ole, .excel, .printer, .table]

def famOfChar : Char → Option Fam
  | 'd' => some .drawing | 'v' => some .vml | 'm' => some .comment | 'c' => some .chart
  | 'o' => some .ole | 'e' => some .excel | 'p' => some .printer | 't' => some .table
  | _ => none

/-- `dir/file` → `dir/_rels/file.rels` -/
def relsNameOf (s : String) : String :=
  let parts := s.splitOn "/"
  match parts.reverse with
  | file :: dirRev => "/".intercalate (dirRev.reverse ++ ["_rels", file ++ ".rels"])
  | [] => s

def renderP : PName → String
  | .sheet n => s!"xl/worksheets/sheet{n}.xml"
  | .fam f n => let (a, b) := famText f; s!"{a}{n}{b}"
  | .other s => String.ofList s
  | .rels p => relsNameOf (renderP p)

/-- the decimal number between `pre` and `suf`, if `s` has exactly that shape (canonical digits) -/
def numberedBy (pre suf : String) (s : List Char) : Option Nat :=
  let p := pre.toList
  let q := suf.toList
  if p.isPrefixOf s ∧ q.isSuffixOf s ∧ p.length + q.length < s.length then
    let mid := (s.drop p.length).take (s.length - p.length - q.length)
    if mid.all Char.isDigit ∧ (mid = ['0'] ∨ mid.head? ≠ some '0') then (String.ofList mid).toNat? else none
  else none

def parsePlain (s : List Char) : PName :=
  match numberedBy "xl/worksheets/sheet" ".xml" s with
  | some n => .sheet n
  | none =>
    match allFams.findSome? (fun f => (numberedBy (famText f).1 (famText f).2 s).map (fun n => PName.fam f n)) with
    | some p => p
    | none => .other s

/-- `a/b/_rels/c.xml.rels` is "the relationships of a/b/c.xml" (nesting bounded by `fuel`) -/
def parseP : Nat → String → PName
  | 0, s => parsePlain s.toList
  | fuel + 1, s =>
    match (s.splitOn "/").reverse with
    | file :: "_rels" :: dirRev =>
      if file.endsWith ".rels" ∧ file.length > 5 then
        .rels (parseP fuel ("/".intercalate (dirRev.reverse ++ [(file.dropEnd 5).toString])))
      else parsePlain s.toList
    | _ => parsePlain s.toList

def parseHexName (h : String) : Option PName := (decodeStr h).map (fun cs => parseP 4 (String.ofList cs))

/-! ### the file description sent with `reset` -/

def splitList (s : String) (sep : String) : List String := if s.isEmpty then [] else s.splitOn sep

/-- a hash as 16 hex digits -/
def parseHexNat (s : String) : Option Nat :=
  if s.isEmpty then none
  else s.toList.foldl (fun acc c => match acc, hexVal c with | some a, some v => some (a * 16 + v) | _, _ => none) (some 0)

def parseRel (s : String) : Option RawRel :=
  if s = "x" then some extRel
  else match s.splitOn "." with
    | [h, e] => (parseHexName h).map (fun n => { ext := false, file := n, cid := 0, empty := e = "1" })
    | [h, e, c] =>
      match parseHexName h, parseHexNat c with
      | some n, some cid => some { ext := false, file := n, cid := cid, empty := e = "1" }
      | _, _ => none
    | _ => none

def parseRawRels (s : String) : Option RawRels :=
  match s.splitOn ">" with
  | [n, es] =>
    match parseHexName n, (splitList es ",").mapM parseRel with
    | some name, some rels => some { name := name, rels := rels }
    | _, _ => none
  | _ => none

/-- `<part>:<relspart>+<relspart>…:<hash>`: a raw sheet as the harness' zip scan computes it (`reset`) or as the
    implementation holds it (`inv`) -/
def parseRawSheet (p cl c : String) : Option RawSheet :=
  match parseHexName p, (splitList cl "+").mapM parseRawRels, parseHexNat c with
  | some part, some closure, some cid => some { file := part, cid := cid, closure := closure }
  | _, _, _ => none

/-- `<name>:<part>:<relspart>+<relspart>…:<hash>` -/
def parseSheetDesc (_k : Nat) (s : String) : Option (Name × RawSheet) :=
  match s.splitOn ":" with
  | [n, p, cl, c] =>
    match decodeStr n, parseRawSheet p cl c with
    | some name, some r => some (name, r)
    | _, _ => none
  | _ => none

/-- one sheet of the reported state: `-` = deserialized -/
def parseStateSheet (s : String) : Option (Option RawSheet) :=
  if s = "-" then some none
  else match s.splitOn ":" with
    | [p, cl, c] => (parseRawSheet p cl c).map some
    | _ => none

/-- one zip entry of the file: `<name>.<hash>.<0|1>` and, for a relationships part, `><entry>,…` (entry = `x` or target) -/
def parsePkgPart (s : String) : Option (PName × Part) :=
  let (head, rels) : String × Option String := match s.splitOn ">" with
    | [h, r] => (h, some r)
    | _ => (s, none)
  match head.splitOn "." with
  | [n, c, e] =>
    match parseHexName n, parseHexNat c with
    | some name, some cid =>
      let rs : Option (List PRel) := match rels with
        | none => some []
        | some r => (splitList r ",").mapM (fun t => if t = "x" then some { ext := true, file := .other [] } else (parseHexName t).map (fun n => { ext := false, file := n }))
      rs.map (fun rs => (name, { cid := cid, empty := e = "1", rels := rs }))
    | _, _ => none
  | _ => none

def mapIdxM {α β} (f : Nat → α → Option β) : Nat → List α → Option (List β)
  | _, [] => some []
  | i, x :: xs => match f i x, mapIdxM f (i + 1) xs with
    | some y, some ys => some (y :: ys)
    | _, _ => none

/-! ### profiles sent with `save` -/

def takeHex : List Char → List Char × List Char
  | [] => ([], [])
  | c :: cs => if (hexVal c).isSome ∨ c = '-' then let (a, b) := takeHex cs; (c :: a, b) else ([], c :: cs)

def parseLeaf : List Char → Option (Leaf × List Char)
  | 'x' :: r => some (.ext, r)
  | 'F' :: c :: r => (famOfChar c).map (fun f => (.alloc f, r))
  | 'N' :: r =>
    let (h, rest) := takeHex r
    (parseHexName (String.ofList h)).map (fun n => (.fixed n, rest))
  | 'M' :: r =>
    let (h, rest) := takeHex r
    (parseHexName (String.ofList h)).map (fun n => (.missing n, rest))
  | _ => none

def parseLeaves : Nat → List Char → Option (List Leaf × List Char)
  | 0, _ => none
  | fuel + 1, cs =>
    match parseLeaf cs with
    | some (l, ',' :: r) => (parseLeaves fuel r).map (fun (ls, r') => (l :: ls, r'))
    | some (l, ')' :: r) => some ([l], r)
    | _ => none

def parseItem (cs : List Char) : Option (Item × List Char) :=
  match parseLeaf cs with
  | some (.alloc f, '(' :: r) => (parseLeaves r.length r).map (fun (ks, r') => (.node f ks, r'))
  | some (_, '(' :: _) => none                 -- a fixed-name part with relationships of its own: outside the model
  | some (l, r) => some (.leaf l, r)
  | none => none

def parseItems : Nat → List Char → Option (List Item × List Char)
  | 0, _ => none
  | fuel + 1, cs =>
    match parseItem cs with
    | some (x, ',' :: r) => (parseItems fuel r).map (fun (xs, r') => (x :: xs, r'))
    | some (x, ')' :: r) => some ([x], r)
    | _ => none

def parseProfile (s : String) : Option Profile :=
  if s = "-" then some []
  else match s.toList with
    | '(' :: r => match parseItems r.length r with
      | some (xs, []) => some xs
      | _ => none
    | _ => none

/-! ### the instance of the model the driver runs -/

structure Cnt where
  origin : Option Nat
  cells : List ((Nat × Nat) × Nat) := []       -- sorted by (column, row)

inductive Ed where
  | setCell (c r tok : Nat)
  | style
  | insRow (row k : Nat)
  | remRow (row k : Nat)
  | adjust                                      -- references to another sheet adjusted: no tracked cell moves

def keyLt (a b : Nat × Nat) : Bool := a.1 < b.1 ∨ (a.1 = b.1 ∧ a.2 < b.2)

def putCell (k : Nat × Nat) (v : Nat) : List ((Nat × Nat) × Nat) → List ((Nat × Nat) × Nat)
  | [] => [(k, v)]
  | x :: xs => if x.1 = k then (k, v) :: xs else if keyLt k x.1 then (k, v) :: x :: xs else x :: putCell k v xs

def applyEd (e : Ed) (l : Loaded Cnt) : Loaded Cnt :=
  match e with
  | .setCell c r t => { l with content := { l.content with cells := putCell (c, r) t l.content.cells } }
  | .style => l
  | .adjust => l
  | .insRow row k =>
    { l with content := { l.content with cells :=
        (l.content.cells.map (fun p => ((p.1.1, if p.1.2 ≥ row then p.1.2 + k else p.1.2), p.2))).foldr (fun p acc => putCell p.1 p.2 acc) [] } }
  | .remRow row k =>
    { l with content := { l.content with cells :=
        ((l.content.cells.filter (fun p => p.1.2 < row ∨ p.1.2 ≥ row + k)).map
          (fun p => ((p.1.1, if p.1.2 ≥ row + k then p.1.2 - k else p.1.2), p.2))).foldr (fun p acc => putCell p.1 p.2 acc) [] } }

def indexOfPart (n : PName) : List PName → Option Nat
  | [] => none
  | m :: r => if m = n then some 0 else (indexOfPart n r).map (· + 1)

/-- `sp`: the sheet parts of the file, in workbook order; a deserialized sheet remembers which one it was decoded from -/
def codecOf (sp : List PName) : Codec Cnt Ed where
  decode := fun r _ => { content := { origin := indexOfPart r.file sp } }
  apply := applyEd
  fresh := { content := { origin := none } }
  texts := fun _ => []
  styles := fun _ => []
  dxfs := fun _ => []

structure St where
  book : Book Cnt := {}
  pkg : Pkg := {}
  dead : Bool := true

def St.codec (st : St) : Codec Cnt Ed := codecOf (st.pkg.sheets.map (·.2))

def rawView (b : Book Cnt) : List (Option RawSheet) :=
  b.sheets.map (fun s => match s.body with | .raw r => some r | .loaded _ => none)

def dedupNames : List PName → List PName
  | [] => []
  | n :: r => let d := dedupNames r; if d.contains n then d else n :: d

def closureNames (r : RawSheet) : List PName :=
  dedupNames (r.closure.flatMap (fun q => q.name :: q.rels.filterMap (fun x => if x.ext then none else some x.file)))

/-- raw sheets, names in their closures, names that are in the closure of more than one raw sheet -/
def closureStats (rs : List RawSheet) : Nat × Nat × Nat :=
  let per := rs.map closureNames
  let all := per.flatten
  let shared := (dedupNames all).filter (fun n => (per.filter (fun l => l.contains n)).length > 1)
  (rs.length, all.length, shared.length)

def flags (b : Book Cnt) : String := String.ofList (b.sheets.map (fun s => if s.isRaw then 'R' else 'L'))
def namesOf (b : Book Cnt) : String := ",".intercalate (b.sheets.map (fun s => encodeStr s.name))
def status (b : Book Cnt) : String := s!"{flags b} {namesOf b}"

def replyOf (st : St) (r : Book Cnt × Reply) : St × String :=
  match r.2 with
  | .ok => ({ st with book := r.1 }, s!"ok {status r.1}")
  | .none => (st, "none")
  | .err => (st, "err")
  | .panic => (st, "panic")

def nameAt (b : Book Cnt) (i : Nat) : Name :=
  match b.sheets[i]? with
  | some s => s.name
  | none => [Char.ofNat 1, 'n', 'o']            -- the harness' "no such sheet" (matches no title)

def strLt (a b : String) : Bool := a < b

def sortStrings (l : List String) : List String := l.mergeSort (fun a b => !(strLt b a))

/-- profiles of the deserialized sheets are replaced by the ones measured on the eager workbook's save -/
def withProfiles : List (Sheet Cnt) → List Profile → List (Sheet Cnt)
  | s :: ss, p :: ps =>
    (match s.body with
     | .loaded l => { s with body := .loaded { l with prof := p } }
     | .raw _ => s) :: withProfiles ss ps
  | ss, _ => ss

def renderSaved (s : Saved Cnt) : String :=
  let sheets := (s.names.zipIdx).map (fun (n, i) => s!"{encodeStr n}@xl/worksheets/sheet{i + 1}.xml")
  let parts := sortStrings (s.parts.map (fun p => renderP p.1))
  let rels := sortStrings (s.parts.filterMap (fun p => match p.2 with
    | .relsOf ts =>
      let t := sortStrings (ts.map (fun t => match t with | some n => renderP n | none => "x"))
      some (s!"{renderP p.1}[{",".intercalate t}]")
    | _ => none))
  s!"ok sheets={",".intercalate sheets};parts={",".intercalate parts};rels={"".intercalate rels};grow=111"

def handle (st : St) (args : List String) : St × String :=
  match args with
  | ["reset", _id] => ({ dead := true }, "skip")
  | ["reset", _id, d, x] =>
    if d.startsWith "D=" ∧ x.startsWith "X=" then
      match mapIdxM parseSheetDesc 0 (splitList (d.drop 2).toString ";"), (splitList (x.drop 2).toString ";").mapM parsePkgPart with
      | some sheets, some parts =>
        -- `b`: what the harness' own zip scan says the reader records; `lazyOpen pkg`: what the model's reader records
        let b : Book Cnt := { sheets := sheets.map (fun (n, r) => { name := n, body := .raw r }) }
        let pkg : Pkg := { parts := parts, sheets := sheets.map (fun (n, r) => (n, r.file)) }
        let opened : Bool := match (lazyOpen pkg : Option (Book Cnt)) with
          | some b' => decide (rawView b' = rawView b) && decide (b'.sheets.map (·.name) = b.sheets.map (·.name))
          | none => false
        ({ book := b, pkg := pkg, dead := false }, s!"ok {status b} open={if opened then 1 else 0} ## pkgok={if pkgOk pkg then 1 else 0}")
      | _, _ => ({ dead := true }, "unmodelled")
    else ({ dead := true }, "bad-op")
  | ["cyc", _variant, w, x] =>
    -- a package whose relationship graph may be cyclic: does the model's reader open it?  (`none` = the recursion
    -- of `read_rawrelationships` does not end / a target is missing; the state is left alone)
    if w.startsWith "W=" ∧ x.startsWith "X=" then
      match (splitList (w.drop 2).toString ";").mapM parseHexName, (splitList (x.drop 2).toString ";").mapM parsePkgPart with
      | some files, some parts =>
        let pkg : Pkg := { parts := parts, sheets := files.map (fun f => ([], f)) }
        let opened : Bool := (lazyOpen pkg : Option (Book Cnt)).isSome
        -- informational: the same with ten times the fuel (`C11_read_closure_fuel` / `_cyclic`: no difference)
        let more : Bool := files.all (fun f => (readClosure pkg (10 * pkg.fuel) (.rels f)).isSome)
        (st, s!"ok open={if opened then 1 else 0} ## morefuel={if more then 1 else 0}")
      | _, _ => (st, "unmodelled")
    else (st, "bad-op")
  | op :: rest =>
    if st.dead then (st, "unmodelled")
    else
      let b := st.book
      let codec := st.codec
      match op, rest with
      | "read", [i] => match i.toNat? with
        | some i => replyOf st (step codec b (.readSheet i))
        | none => (st, "bad-op")
      | "getmut", [i] => match i.toNat? with
        | some i => replyOf st (step codec b (.getMut i))
        | none => (st, "bad-op")
      | "byname", [i] => match i.toNat? with
        | some i => replyOf st (step codec b (.byName (nameAt b i)))
        | none => (st, "bad-op")
      | "readall", [] => replyOf st (step codec b .readAll)
      | "collmut", [] => replyOf st (step codec b .readAll)
      | "edit", [i, c, r, t] => match i.toNat?, c.toNat?, r.toNat?, t.toNat? with
        | some i, some c, some r, some t => replyOf st (step codec b (.edit i (.setCell c r t)))
        | _, _, _, _ => (st, "bad-op")
      | "style", [i, _c, _r, _t] => match i.toNat? with
        | some i => replyOf st (step codec b (.edit i .style))
        | none => (st, "bad-op")
      | "annot", [i, _kind, _k] => match i.toNat? with
        | some i => replyOf st (step codec b (.edit i .style))
        | none => (st, "bad-op")
      | "newsheet", [n] => match decodeStr n with
        | some n => replyOf st (step codec b (.newSheet n))
        | none => (st, "bad-op")
      | "rmsheet", [i] => match i.toNat? with
        | some i => replyOf st (step codec b (.removeSheet i))
        | none => (st, "bad-op")
      | "rmname", [i] => match i.toNat? with
        | some i => replyOf st (step codec b (.removeByName (nameAt b i)))
        | none => (st, "bad-op")
      | "rename", [i, n] => match i.toNat?, decodeStr n with
        | some i, some n => replyOf st (step codec b (.setName i n))
        | _, _ => (st, "bad-op")
      | "insrow", [i, row, k] => match i.toNat?, row.toNat?, k.toNat? with
        | some i, some row, some k => replyOf st (step codec b (.wbEdit (nameAt b i) (.insRow row k) .adjust))
        | _, _, _ => (st, "bad-op")
      | "remrow", [i, row, k] => match i.toNat?, row.toNat?, k.toNat? with
        | some i, some row, some k => replyOf st (step codec b (.wbEdit (nameAt b i) (.remRow row k) .adjust))
        | _, _, _ => (st, "bad-op")
      | "dump", [i] => match i.toNat? with
        | some i =>
          (match b.sheets[i]? with
           | none => (st, "none")
           | some s => match s.body with
             | .raw _ => (st, "R")
             | .loaded l =>
               let o := match l.content.origin with | some k => toString k | none => "-"
               let cells := l.content.cells.map (fun p => s!"{p.1.1}.{p.1.2}=tK{p.2}")
               (st, s!"L o={o} e={",".intercalate cells}"))
        | none => (st, "bad-op")
      | "save", [p] =>
        if p.startsWith "P=" then
          match (splitList (p.drop 2).toString ";").mapM parseProfile with
          | some profs =>
            if profs.length = b.sheets.length then
              (st, renderSaved (save codec { b with sheets := withProfiles b.sheets profs }))
            else (st, "unmodelled")
          | none => (st, "unmodelled")
        else (st, "bad-op")
      | "save", [] => (st, "unmodelled")       -- the eager workbook could not be saved: nothing to predict
      | "inv", [d] =>
        -- the state the implementation reports: is it the model's state, and is it package-consistent?
        if d.startsWith "S=" then
          match (splitList (d.drop 2).toString ";").mapM parseStateSheet with
          | some rep =>
            let same := decide (rep = rawView b)
            let rb : Book Cnt := { sheets := rep.map (fun o => match o with
              | some r => { name := [], body := .raw r }
              | none => { name := [], body := .loaded codec.fresh }) }
            let cons := consistent st.pkg rb
            let (nr, nn, ns) := closureStats (rep.filterMap id)
            (st, s!"ok cons={if cons then 1 else 0} same={if same then 1 else 0} ## raw={nr} names={nn} shared={ns}")
          | none => (st, "unmodelled")
        else (st, "bad-op")
      | _, _ => (st, "bad-op")
  | _ => (st, "bad-op")

end Umya.Driver.C11
