import Umya.Driver.Proto
import Umya.Model.SharedStrings
namespace Umya.Driver.C16
open Umya.Sst

def parseProg (s : String) : List Text := if s = "-" then [] else (s.splitOn ",").map String.toList

/-- the schedule is over yield points (enter, register×k, dump, exit); the model's steps are the
    registrations and the dump: drop each saver's first (enter) and last (exit) turn -/
def modelSchedule (alwaysDump : Bool) (progs : List (List Text)) (sched : List Nat) : List Nat :=
  let rec go (seen : List Nat) : List Nat → List Nat
    | [] => []
    | i :: rest =>
      let k := (progs[i]?.getD []).length
      let nth := (seen.filter (· = i)).length          -- how many turns saver i already had
      let total := if k = 0 ∧ !alwaysDump then 2 else k + 3
      let keep := nth ≥ 1 ∧ nth + 1 < total
      (if keep then [i] else []) ++ go (i :: seen) rest
  go [] sched

/-- lazy modes: the table read with the file (sheet 1 = x, y; sheet 2 = r, x, never deserialized) -/
def lazyLoaded : Table := [['x'], ['y'], ['r']]
def lazyRawIdx : String := "|2,0"

def render (tail : String) (s : Saver) : String :=
  let t := s.dumped.getD []
  s!"sst={",".intercalate (t.map String.ofList)};idx={",".intercalate (s.got.map toString)}{tail}"

/-- mode `lazymixed`, saver 0: every sheet of its copy is deserialized, so its save starts from an empty table
    and registers the `k` strings of sheet 1 and then the two strings of sheet 2 (`r`, `x`) -/
def renderFull (k : Nat) (s : Saver) : String :=
  let t := s.dumped.getD []
  s!"sst={",".intercalate (t.map String.ofList)};idx={",".intercalate ((s.got.take k).map toString)}|{",".intercalate ((s.got.drop k).map toString)}"

def handle (args : List String) : String :=
  match args with
  | "run" :: mode :: sched :: ps =>
    let lazy := mode.startsWith "lazy"
    let progs := ps.map parseProg
    let σ := sched.toList.filterMap (fun c => if c.isDigit then some (c.toNat - 48) else none)
    let loaded : Table := if lazy then lazyLoaded else []
    if mode = "lazymixed" then
      match progs with
      | [] => "bad-op"
      | p0 :: rest =>
        let p0' := p0 ++ [['r'], ['x']]
        let progs' := p0' :: rest
        let savers : List Saver := ({ todo := p0', table := [] } : Saver) :: rest.map (fun p => ({ todo := p, table := loaded } : Saver))
        let final := runSched savers (modelSchedule true progs' σ)
        match final with
        | [] => "bad-op"
        | s0 :: ss => " # ".intercalate (renderFull p0.length s0 :: ss.map (render lazyRawIdx))
    else
    let final := runSched (progs.map (fun p => ({ todo := p, table := loaded } : Saver))) (modelSchedule lazy progs σ)
    " # ".intercalate (final.map (render (if lazy then lazyRawIdx else "")))
  -- free-running OS threads (no scheduler): by `C16_any_schedule` every schedule gives each saver the
  -- file it writes alone, so whatever the OS does the answer is the same
  | "stress" :: _ => "all-equal-solo"
  | _ => "bad-op"

end Umya.Driver.C16
