/-
  C20 — tie to the source (T), part 3: the per-field pipeline and the per-row output of
  `src/writer/csv.rs::write_writer`, compiled to Lean from the CURRENT source on every run, equal the hand model's.
-/
import Umya.Lemmas.FnsGenCsv
namespace Umya.Thm.C20
open Umya.Csv

/-- **Tie to the source (T).**  The statements of the column loop between the fetch of the cell value and
    `row_vec.push(value)` (optional trim; wrap character with doubling, or quoting of exactly the fields that contain
    `,` `"` CR LF with `"` doubled) are the model's `renderField`, for every option record of the modelled fragment
    (`wrap_with_char` empty or one character) and every text; what the row loop appends after the column loop
    (`row_vec.join(",")`, then `"\r\n"`) is the model's `renderRow`. -/
theorem C20_field_matches_source :
    (∀ (o : Opts) (v : Text), Umya.Gen.csv_field o.trim (Umya.Gen.wrapText o.wrap) v = renderField o v) ∧
    (∀ (o : Opts) (row : List Text), Umya.Gen.csv_row (row.map (renderField o)) = renderRow o row) :=
  ⟨Umya.Gen.gen_csv_field, Umya.Gen.gen_csv_row⟩

/-- **Tie to the source (T), the whole text.**  `let mut data = String::new();` and the two nested loops of
    `write_writer` as they are in the source — `for row in 0u32..max_row`, `for column in 0u32..max_column`,
    `worksheet.get_cell((column + 1, row + 1))` with a missing cell read as the empty text, the field pipeline,
    `row_vec.push`, `join(",")`, `"\r\n"` — compiled to left folds of the lifted loop bodies, give exactly the model's
    `csvText`: for every grid, every option record of the modelled fragment (`wrap_with_char` empty or one character),
    with the bounds `get_highest_column_and_row` gives (and, second clause, for any bounds). -/
theorem C20_writer_matches_source :
    (∀ (g : Grid) (o : Opts),
      Umya.Gen.csv_text o.trim (Umya.Gen.gridCell g) (Umya.Gen.wrapText o.wrap) (highestCol g) (highestRow g) = csvText g o) ∧
    (∀ (g : Grid) (o : Opts) (mc mr : Nat),
      Umya.Gen.csv_text o.trim (Umya.Gen.gridCell g) (Umya.Gen.wrapText o.wrap) mc mr =
        (List.range mr).flatMap fun row => renderRow o ((List.range mc).map fun col => g.get (row + 1) (col + 1))) :=
  ⟨fun g o => Umya.Gen.gen_csv_text g o (highestCol g) (highestRow g), Umya.Gen.gen_csv_text⟩

example : Umya.Gen.csv_text true (Umya.Gen.gridCell [((1, 1), ['a', ',']), ((2, 2), [' ', 'b'])]) [] 2 2 =
    ['"', 'a', ',', '"', ',', '\r', '\n', ',', 'b', '\r', '\n'] := by decide

example : Umya.Gen.csv_field false [] ['a', ',', '"'] = ['"', 'a', ',', '"', '"', '"'] := by decide
example : Umya.Gen.csv_field true ['\''] [' ', 'a', '\'', ' '] = ['\'', 'a', '\'', '\'', '\''] := by decide
example : Umya.Gen.csv_row [['a'], ['b']] = ['a', ',', 'b', '\r', '\n'] := by decide

end Umya.Thm.C20
