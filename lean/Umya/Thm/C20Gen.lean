/-
  C20 — tie to the source (T), part 3: the per-field pipeline and the per-row output of
  `src/writer/csv.rs::write_writer`, compiled to Lean from the CURRENT source on every run, equal the hand model's.
-/
import Umya.Lemmas.FnsGenCsv
namespace Umya.Thm.C20
open Umya.Csv

/-- **Tie to the source (T).**  The statements of the column loop between the fetch of the cell value and
    `row_vec.push(value)` (optional trim; wrap character with doubling, or quoting of exactly the fields that contain
    `,` `"` CR LF with `"` doubled) are the model's `renderField`, for every option record of the modelled fragment
    (`wrap_with_char` empty or one character) and every text; what the row loop appends after the column loop
    (`row_vec.join(",")`, then `"\r\n"`) is the model's `renderRow`. -/
theorem C20_field_matches_source :
    (∀ (o : Opts) (v : Text), Umya.Gen.csv_field o.trim (Umya.Gen.wrapText o.wrap) v = renderField o v) ∧
    (∀ (o : Opts) (row : List Text), Umya.Gen.csv_row (row.map (renderField o)) = renderRow o row) :=
  ⟨Umya.Gen.gen_csv_field, Umya.Gen.gen_csv_row⟩

example : Umya.Gen.csv_field false [] ['a', ',', '"'] = ['"', 'a', ',', '"', '"', '"'] := by decide
example : Umya.Gen.csv_field true ['\''] [' ', 'a', '\'', ' '] = ['\'', 'a', '\'', '\'', '\''] := by decide
example : Umya.Gen.csv_row [['a'], ['b']] = ['a', ',', 'b', '\r', '\n'] := by decide

end Umya.Thm.C20
