/-
  C19 — Formatted values show the correctly rounded number.

  Property theorems only (helper lemmas: `Umya/Lemmas/NumFmt.lean`).  The model (`Umya/Model/NumFmt.lean`)
  is of the code AFTER fix_1_number_format_rounding.patch and fix_2_text_cells_shown_unchanged.patch.
  The arithmetic specification (`Umya/Spec/Round.lean`) is independent of the digit surgery.

  Scope, stated once: these are theorems about the model fragment
    * format codes `General`, `@`, and the grammar `(#,##)? 0 (. 0+)? %?`;
    * numbers given by their decimal text `-?D*(.D*)?` (what `f64::to_string` prints).
  The clause "formatting never panics for any built-in format code" is NOT proved (regex / chrono
  dispatch is not modelled); it is explored by the harness only and labelled partial.

  Sign rule (chosen, applied alike in the fix, the model, the spec `render` and the harness oracle):
  the output starts with `-` exactly when the number's decimal text does — also when the rounded
  magnitude is zero (`-0.001` under `0.00` is `-0.00`, as Excel shows it; `-0` stays `-0`, as under General).
-/
import Umya.Lemmas.NumFmt
namespace Umya.Thm.C19
open Umya.NumFmt Umya.Spec Umya.Dec

/-- **Fixed-decimal patterns.**  For every sign, all digit lists `I` (before the point) and `F` (after the
    point) — any lengths, leading/trailing zeros allowed — every number of decimals `n` and both settings of
    the thousands flag, the rendered text is the `render` of the arithmetic rounding half away from zero of
    `N / 10^k` (`N` = value of the digits `I ++ F`, `k = |F|`) to `n` decimals. -/
theorem C19_fixed (sgn : Bool) (I F : List Digit) (n : Nat) (thousands : Bool) :
    formatFixed ⟨sgn, I, F⟩ n thousands
      = render sgn (roundHalfAway (valOf (I ++ F)) F.length n) n thousands := by
  have h := formatDecimal_eq ⟨sgn, I, F⟩ 0 n thousands
  simpa [formatFixed] using h

example : formatFixed ⟨false, [1], [9, 9, 9]⟩ 2 false = "2.00".toList := by decide
example : roundHalfAway (valOf ([1] ++ [9, 9, 9])) 3 2 = 200 := by decide

/-- **Percentage patterns**: the same with the number times 100 (point moved two places), `%` appended. -/
theorem C19_percent (sgn : Bool) (I F : List Digit) (n : Nat) (thousands : Bool) :
    formatPercent ⟨sgn, I, F⟩ n thousands
      = render sgn (roundHalfAway (100 * valOf (I ++ F)) F.length n) n thousands ++ ['%'] := by
  have h := formatDecimal_eq ⟨sgn, I, F⟩ 2 n thousands
  simp only [formatPercent, h]
  norm_num

example : formatPercent ⟨false, [0], [1, 2, 3, 4]⟩ 2 false = "12.34%".toList := by decide
example : formatPercent ⟨true, [0], [0, 0, 5]⟩ 0 true = "-1%".toList := by decide

/-- The same at the level of `to_formatted_string` / `Cell::get_formatted_value` on texts: a numeric cell
    whose value text splits into `t = (sign, I, F)` and whose format code is in the grammar shows the rounded
    number. -/
theorem C19_pattern (v fmt : List Char) (p : Pattern) (t : DecText)
    (hp : parsePattern fmt = some p) (ht : parseDecText v = some t) :
    cellFormattedValue (.number v) fmt = some (
      if p.percent then
        render t.neg (roundHalfAway (100 * valOf (t.int ++ t.frac)) t.frac.length p.decimals) p.decimals p.thousands ++ ['%']
      else
        render t.neg (roundHalfAway (valOf (t.int ++ t.frac)) t.frac.length p.decimals) p.decimals p.thousands) := by
  have hg : fmt ≠ general := by
    intro h; rw [h, show parsePattern general = none by decide] at hp; cases hp
  have hx : fmt ≠ textCode := by
    intro h; rw [h, show parsePattern textCode = none by decide] at hp; cases hp
  simp only [cellFormattedValue, formatNumber, if_neg hg, if_neg hx, hp, formatDecimalText, ht]
  have h0 := formatDecimal_eq t 0 p.decimals p.thousands
  have h2 := formatDecimal_eq t 2 p.decimals p.thousands
  split
  · rw [h2]; norm_num
  · rw [h0]; norm_num

example : parsePattern "#,##0.00".toList = some ⟨true, 2, false⟩ ∧
    parseDecText "-1234567.895".toList = some ⟨true, [1, 2, 3, 4, 5, 6, 7], [8, 9, 5]⟩ ∧
    cellFormattedValue (.number "-1234567.895".toList) "#,##0.00".toList = some "-1,234,567.90".toList := by
  decide

/-! ### shape corollaries -/

/-- **Shape of the output**, for every number text and every pattern of the grammar (fixed-decimal case;
    a percentage output is the same followed by `%`):
    it is `sign ++ integer part ++ ('.' ++ decimals)` where
    * the sign is `-` exactly when the number's text has it (sign kept),
    * the decimals are exactly `n` digits (and there is no point when `n = 0`),
    * the integer part is the decimal text of the rounded integer part `m` — so a carry out of the
      decimals and through nines has been propagated — without leading zeros, and
    * when separators are asked for, it is that text with commas such that, counting from the right,
      exactly every fourth character is a comma (groups of three), and removing them gives the text back. -/
theorem C19_shape (sgn : Bool) (I F : List Digit) (n : Nat) (thousands : Bool) :
    ∃ (m : Nat) (ip fp : List Char),
      formatFixed ⟨sgn, I, F⟩ n thousands
        = (if sgn then ['-'] else []) ++ ip ++ (if n = 0 then [] else '.' :: fp)
      ∧ m = roundHalfAway (valOf (I ++ F)) F.length n / 10 ^ n
      ∧ fp.length = n ∧ fp.all isDigit = true
      ∧ ip.filter (· ≠ ',') = decDigits m
      ∧ (thousands = false → ip = decDigits m)
      ∧ (thousands = true → ∀ i, i < ip.length → (ip.reverse[i]? = some ',' ↔ i % 4 = 3)) := by
  refine ⟨roundHalfAway (valOf (I ++ F)) F.length n / 10 ^ n,
    intText (roundHalfAway (valOf (I ++ F)) F.length n / 10 ^ n) thousands,
    padLeft n (roundHalfAway (valOf (I ++ F)) F.length n % 10 ^ n), ?_, rfl, padLeft_length _ _,
    padLeft_all_digit _ _, ?_, ?_, ?_⟩
  · rw [C19_fixed]; rfl
  · cases thousands
    · simp only [intText, Bool.false_eq_true, if_false]
      rw [List.filter_eq_self]
      intro c hc
      have := decDigits_all_digit (roundHalfAway (valOf (I ++ F)) F.length n / 10 ^ n)
      rw [List.all_eq_true] at this
      have hd := this c hc
      have : c ≠ ',' := by intro h; subst h; revert hd; decide
      simpa using this
    · simp only [intText, if_true]; exact groupNat_filter _
  · intro h; subst h; rfl
  · intro h i hi; subst h
    simp only [intText, if_true] at hi ⊢
    exact groupNat_commas _ i hi

/-- carry chains, new leading digit, separators after a carry, sign of a value that rounds to zero -/
example : formatFixed ⟨false, [9, 9, 9], [9, 9, 9, 5]⟩ 3 true = "1,000.000".toList := by decide
example : formatFixed ⟨false, [9], [5]⟩ 0 false = "10".toList := by decide
example : formatFixed ⟨true, [0], [0, 0, 1]⟩ 2 false = "-0.00".toList := by decide
example : formatFixed ⟨false, [1], [0, 0, 5]⟩ 2 false = "1.01".toList := by decide
example : formatFixed ⟨false, [1], [5]⟩ 2 false = "1.50".toList := by decide
example : formatFixed ⟨false, [1], [7]⟩ 0 false = "2".toList := by decide
example : formatFixed ⟨false, [0], [0, 5]⟩ 1 false = "0.1".toList := by decide
example : formatFixed ⟨false, [1, 2, 3, 4, 5, 6, 7], []⟩ 1 true = "1,234,567.0".toList := by decide

/-- **No hidden underflow.**  The model writes the Rust `usize` subtraction `text.len() - decimals` (the
    `split_at` position) with truncating `Nat` subtraction; this theorem shows the subtraction is never
    truncated (so `split_at` cannot panic): the rounded digit string always has at least `n` digits.
    The other index of the function, `digits[keep]`, is guarded in the code by `digits.len() > keep`
    (model: `ds[keep]?`), and the loops are iterator loops (model: structural recursion). -/
theorem C19_split_in_range (t : DecText) (shift n : Nat) :
    n ≤ (roundDigits (t.int ++ t.frac) (t.int.length + shift + n)).length := by
  have := length_roundDigits (t.int ++ t.frac) (t.int.length + shift + n)
  omega

example : (roundDigits (([] : List Digit) ++ []) (0 + 0 + 3)).length = 3 := by decide

/-! ### General, text -/

/-- **General / text.**  Under `General` (and `@`) `to_formatted_string` returns its argument unchanged for
    the empty string, for every string that is not a number in Rust's `f64::from_str` grammar, and for every
    shortest-form decimal text of at most 15 significant digits (for which `parse::<f64>` → `to_string` is the
    identity — trusted, see the props file).  Numeric-looking strings that are not in shortest form
    (`1.50`, `1e5`, `+3`) are excluded: at this entry point the library normalises them (`1.5`, `100000`, `3`),
    by design — it cannot know that the caller meant text. -/
theorem C19_general (t : List Char) (h : classify t ≠ .otherNumeric) :
    toFormattedString t general = some t ∧ toFormattedString t textCode = some t := by
  unfold toFormattedString
  cases hc : classify t with
  | empty => simp
  | notNumber => simp
  | shortest => simp [formatNumber, general, textCode]
  | otherNumeric => exact absurd hc h

example : classify "abc".toList = .notNumber ∧ classify "1,5".toList = .notNumber ∧
    classify "-1234.5678".toList = .shortest ∧ classify "1.50".toList = .otherNumeric ∧
    classify "1e5".toList = .otherNumeric := by decide

/-- **Cells.**  A text cell is shown unchanged under every format code (so text that looks like a number
    is not re-formatted), and a numeric cell under `General` shows its shortest decimal text. -/
theorem C19_general_cell (t fmt : List Char) :
    cellFormattedValue (.text t) fmt = some t ∧ cellFormattedValue (.number t) general = some t := by
  simp [cellFormattedValue, formatNumber]

example : cellFormattedValue (.text "1.50".toList) "0.0".toList = some "1.50".toList := by decide

end Umya.Thm.C19
