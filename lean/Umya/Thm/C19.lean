/-
  C19 — Formatted values show the correctly rounded number.

  Property theorems only (helper lemmas: `Umya/Lemmas/NumFmt.lean`).  The model (`Umya/Model/NumFmt.lean`)
  is of the code AFTER fix_1_number_format_rounding.patch and fix_2_text_cells_shown_unchanged.patch.
  The arithmetic specification (`Umya/Spec/Round.lean`) is independent of the digit surgery.

  Scope, stated once: these are theorems about the model fragment
    * format codes `General`, `@`, and the grammar `(#,##)? 0 (. 0+)? %?`;
    * numbers given by their decimal text `-?D*(.D*)?` (what `f64::to_string` prints).
  The clause "formatting never panics for any built-in format code" is proved for a fragment only
  (section "date / time built-in codes" at the end): the one panic that was known — the date conversion
  overflowing chrono's range, repaired by fix d30eec7 — is modelled with chrono's bounds, and the
  formatter is proved to return a text for every value under the 11 built-in date/time codes whose
  dispatch the model covers (ids 14–22, 30, 45: no quoted literal, no `[..]` prefix).  For the other
  built-in codes the regex / chrono dispatch is not modelled; they are explored by the harness only
  and labelled partial.

  Sign rule (chosen, applied alike in the fix, the model, the spec `render` and the harness oracle):
  the output starts with `-` exactly when the number's decimal text does — also when the rounded
  magnitude is zero (`-0.001` under `0.00` is `-0.00`, as Excel shows it; `-0` stays `-0`, as under General).
-/
import Umya.Lemmas.NumFmt
import Umya.Lemmas.DateFmt
import Umya.Model.Gen.Tables
namespace Umya.Thm.C19
open Umya.NumFmt Umya.Spec Umya.Dec

/-- **Fixed-decimal patterns.**  For every sign, all digit lists `I` (before the point) and `F` (after the
    point) — any lengths, leading/trailing zeros allowed — every number of decimals `n` and both settings of
    the thousands flag, the rendered text is the `render` of the arithmetic rounding half away from zero of
    `N / 10^k` (`N` = value of the digits `I ++ F`, `k = |F|`) to `n` decimals. -/
theorem C19_fixed (sgn : Bool) (I F : List Digit) (n : Nat) (thousands : Bool) :
    formatFixed ⟨sgn, I, F⟩ n thousands
      = render sgn (roundHalfAway (valOf (I ++ F)) F.length n) n thousands := by
  have h := formatDecimal_eq ⟨sgn, I, F⟩ 0 n thousands
  simpa [formatFixed] using h

example : formatFixed ⟨false, [1], [9, 9, 9]⟩ 2 false = "2.00".toList := by decide
example : roundHalfAway (valOf ([1] ++ [9, 9, 9])) 3 2 = 200 := by decide

/-- **Percentage patterns**: the same with the number times 100 (point moved two places), `%` appended. -/
theorem C19_percent (sgn : Bool) (I F : List Digit) (n : Nat) (thousands : Bool) :
    formatPercent ⟨sgn, I, F⟩ n thousands
      = render sgn (roundHalfAway (100 * valOf (I ++ F)) F.length n) n thousands ++ ['%'] := by
  have h := formatDecimal_eq ⟨sgn, I, F⟩ 2 n thousands
  simp only [formatPercent, h]
  norm_num

example : formatPercent ⟨false, [0], [1, 2, 3, 4]⟩ 2 false = "12.34%".toList := by decide
example : formatPercent ⟨true, [0], [0, 0, 5]⟩ 0 true = "-1%".toList := by decide

/-- The same at the level of `to_formatted_string` / `Cell::get_formatted_value` on texts: a numeric cell
    whose value text splits into `t = (sign, I, F)` and whose format code is in the grammar shows the rounded
    number. -/
theorem C19_pattern (v fmt : List Char) (p : Pattern) (t : DecText)
    (hp : parsePattern fmt = some p) (ht : parseDecText v = some t) :
    cellFormattedValue (.number v) fmt = some (
      if p.percent then
        render t.neg (roundHalfAway (100 * valOf (t.int ++ t.frac)) t.frac.length p.decimals) p.decimals p.thousands ++ ['%']
      else
        render t.neg (roundHalfAway (valOf (t.int ++ t.frac)) t.frac.length p.decimals) p.decimals p.thousands) := by
  have hg : fmt ≠ general := by
    intro h; rw [h, show parsePattern general = none by decide] at hp; cases hp
  have hx : fmt ≠ textCode := by
    intro h; rw [h, show parsePattern textCode = none by decide] at hp; cases hp
  simp only [cellFormattedValue, formatNumber, if_neg hg, if_neg hx, hp, formatDecimalText, ht]
  have h0 := formatDecimal_eq t 0 p.decimals p.thousands
  have h2 := formatDecimal_eq t 2 p.decimals p.thousands
  split
  · rw [h2]; norm_num
  · rw [h0]; norm_num

example : parsePattern "#,##0.00".toList = some ⟨true, 2, false⟩ ∧
    parseDecText "-1234567.895".toList = some ⟨true, [1, 2, 3, 4, 5, 6, 7], [8, 9, 5]⟩ ∧
    cellFormattedValue (.number "-1234567.895".toList) "#,##0.00".toList = some "-1,234,567.90".toList := by
  decide

/-! ### shape corollaries -/

/-- **Shape of the output**, for every number text and every pattern of the grammar (fixed-decimal case;
    a percentage output is the same followed by `%`):
    it is `sign ++ integer part ++ ('.' ++ decimals)` where
    * the sign is `-` exactly when the number's text has it (sign kept),
    * the decimals are exactly `n` digits (and there is no point when `n = 0`),
    * the integer part is the decimal text of the rounded integer part `m` — so a carry out of the
      decimals and through nines has been propagated — without leading zeros, and
    * when separators are asked for, it is that text with commas such that, counting from the right,
      exactly every fourth character is a comma (groups of three), and removing them gives the text back. -/
theorem C19_shape (sgn : Bool) (I F : List Digit) (n : Nat) (thousands : Bool) :
    ∃ (m : Nat) (ip fp : List Char),
      formatFixed ⟨sgn, I, F⟩ n thousands
        = (if sgn then ['-'] else []) ++ ip ++ (if n = 0 then [] else '.' :: fp)
      ∧ m = roundHalfAway (valOf (I ++ F)) F.length n / 10 ^ n
      ∧ fp.length = n ∧ fp.all isDigit = true
      ∧ ip.filter (· ≠ ',') = decDigits m
      ∧ (thousands = false → ip = decDigits m)
      ∧ (thousands = true → ∀ i, i < ip.length → (ip.reverse[i]? = some ',' ↔ i % 4 = 3)) := by
  refine ⟨roundHalfAway (valOf (I ++ F)) F.length n / 10 ^ n,
    intText (roundHalfAway (valOf (I ++ F)) F.length n / 10 ^ n) thousands,
    padLeft n (roundHalfAway (valOf (I ++ F)) F.length n % 10 ^ n), ?_, rfl, padLeft_length _ _,
    padLeft_all_digit _ _, ?_, ?_, ?_⟩
  · rw [C19_fixed]; rfl
  · cases thousands
    · simp only [intText, Bool.false_eq_true, if_false]
      rw [List.filter_eq_self]
      intro c hc
      have := decDigits_all_digit (roundHalfAway (valOf (I ++ F)) F.length n / 10 ^ n)
      rw [List.all_eq_true] at this
      have hd := this c hc
      have : c ≠ ',' := by intro h; subst h; revert hd; decide
      simpa using this
    · simp only [intText, if_true]; exact groupNat_filter _
  · intro h; subst h; rfl
  · intro h i hi; subst h
    simp only [intText, if_true] at hi ⊢
    exact groupNat_commas _ i hi

/-- carry chains, new leading digit, separators after a carry, sign of a value that rounds to zero -/
example : formatFixed ⟨false, [9, 9, 9], [9, 9, 9, 5]⟩ 3 true = "1,000.000".toList := by decide
example : formatFixed ⟨false, [9], [5]⟩ 0 false = "10".toList := by decide
example : formatFixed ⟨true, [0], [0, 0, 1]⟩ 2 false = "-0.00".toList := by decide
example : formatFixed ⟨false, [1], [0, 0, 5]⟩ 2 false = "1.01".toList := by decide
example : formatFixed ⟨false, [1], [5]⟩ 2 false = "1.50".toList := by decide
example : formatFixed ⟨false, [1], [7]⟩ 0 false = "2".toList := by decide
example : formatFixed ⟨false, [0], [0, 5]⟩ 1 false = "0.1".toList := by decide
example : formatFixed ⟨false, [1, 2, 3, 4, 5, 6, 7], []⟩ 1 true = "1,234,567.0".toList := by decide

/-- **No hidden underflow.**  The model writes the Rust `usize` subtraction `text.len() - decimals` (the
    `split_at` position) with truncating `Nat` subtraction; this theorem shows the subtraction is never
    truncated (so `split_at` cannot panic): the rounded digit string always has at least `n` digits.
    The other index of the function, `digits[keep]`, is guarded in the code by `digits.len() > keep`
    (model: `ds[keep]?`), and the loops are iterator loops (model: structural recursion). -/
theorem C19_split_in_range (t : DecText) (shift n : Nat) :
    n ≤ (roundDigits (t.int ++ t.frac) (t.int.length + shift + n)).length := by
  have := length_roundDigits (t.int ++ t.frac) (t.int.length + shift + n)
  omega

example : (roundDigits (([] : List Digit) ++ []) (0 + 0 + 3)).length = 3 := by decide

/-! ### General, text -/

/-- **General / text.**  Under `General` (and `@`) `to_formatted_string` returns its argument unchanged for
    the empty string, for every string that is not a number in Rust's `f64::from_str` grammar, and for every
    shortest-form decimal text of at most 15 significant digits (for which `parse::<f64>` → `to_string` is the
    identity — trusted, see the props file).  Numeric-looking strings that are not in shortest form
    (`1.50`, `1e5`, `+3`) are excluded: at this entry point the library normalises them (`1.5`, `100000`, `3`),
    by design — it cannot know that the caller meant text. -/
theorem C19_general (t : List Char) (h : classify t ≠ .otherNumeric) :
    toFormattedString t general = some t ∧ toFormattedString t textCode = some t := by
  unfold toFormattedString
  cases hc : classify t with
  | empty => simp
  | notNumber => simp
  | shortest => simp [formatNumber, general, textCode]
  | otherNumeric => exact absurd hc h

example : classify "abc".toList = .notNumber ∧ classify "1,5".toList = .notNumber ∧
    classify "-1234.5678".toList = .shortest ∧ classify "1.50".toList = .otherNumeric ∧
    classify "1e5".toList = .otherNumeric := by decide

/-- **Cells.**  A text cell is shown unchanged under every format code (so text that looks like a number
    is not re-formatted), and a numeric cell under `General` shows its shortest decimal text. -/
theorem C19_general_cell (t fmt : List Char) :
    cellFormattedValue (.text t) fmt = some t ∧ cellFormattedValue (.number t) general = some t := by
  simp [cellFormattedValue, formatNumber]

example : cellFormattedValue (.text "1.50".toList) "0.0".toList = some "1.50".toList := by decide

/-! ### date / time built-in codes (after fix d30eec7) -/

section DateCodes
open Umya.Date Umya.Lemmas.DateFmt

/-- the built-in date/time codes — entries of the table regenerated from `numbering_format.rs` on every
    run — whose dispatch the model covers (`strftimeOf` answers): no quoted literal, no `[..]` prefix -/
def builtinDateCodes : List (Nat × List Char) :=
  (Umya.Gen.builtin_format_codes.map (fun p => (p.1, p.2.toList))).filter (fun p => (strftimeOf p.2).isSome)

/-- which they are -/
theorem C19_date_codes_covered :
    builtinDateCodes.map (·.1) = [14, 15, 16, 17, 18, 19, 20, 21, 22, 30, 45] := by decide

/-- Where the checked conversion returns a date-time it is the one the unguarded sum gives (the function
    the C18 theorems are about), and it lies inside chrono's range; for every float model `F`, every value. -/
theorem C19_date_checked_agrees {F : Type} [FloatOps F] (ts : F) (t : Int)
    (h : excelToEpochSecondsChecked ts = some t) :
    t = excelToEpochSeconds ts ∧ chronoMinSec ≤ t ∧ t ≤ chronoMaxSec :=
  checked_agrees ts t h

example : excelToEpochSecondsChecked (F := Fix) ⟨86400 * 45435 + 3600⟩ = some 1716426000 := by decide
example : (chronoMinSec, chronoMaxSec) = (-8334601228800, 8210266876799) := by decide

/-- **No panic, a text for every value.**  For every built-in date/time code the model covers (ids 14–22,
    30, 45 of the regenerated table), every float model `F` (the driver runs `Float`, the C18 theorems `Rat` /
    `Fix`), EVERY value `ts : F` — finite or not, any magnitude, any sign — and every General text `g` of that
    value, the repaired `format_as_date` returns a text: chrono's rendering where the serial is a date chrono
    can hold, the number's General text otherwise (`C19_date_out_of_range` below).  The model's formatter has
    no panic outcome left: its only partial step is the checked conversion, and `none` there is handled; the
    public `excel_to_date_time_object` still panics there (`excelToDateTimeObject`, example below).
    Covered: `DATE_FORMAT_REPLACEMENTS*` (regenerated, `C19_date_tables_match_source`), the conversion with
    chrono's `TimeDelta` / `NaiveDateTime` bounds, chrono's rendering of the specifiers that can arise, for
    every year of chrono's range.  Not covered: the regex stages (identity on these codes; tied by the
    harness), the other built-in codes. -/
theorem C19_date_no_panic {F : Type} [FloatOps F] (p : Nat × List Char) (hp : p ∈ builtinDateCodes)
    (g : List Char) (ts : F) :
    ∃ s, formatAsDateChecked p.2 g ts = some s := by
  have hall : builtinDateCodes.all (fun p =>
      match strftimeOf p.2 with
      | some sf => sfOk sf (sf.length + 1)
      | none => false) = true := by decide
  have h := List.all_eq_true.mp hall p hp
  unfold formatAsDateChecked
  cases hsf : strftimeOf p.2 with
  | none => rw [hsf] at h; cases h
  | some sf =>
    rw [hsf] at h
    simp only []
    cases hc : excelToEpochSecondsChecked ts with
    | none => exact ⟨_, rfl⟩
    | some t =>
      obtain ⟨s, hs⟩ := strftime_some (ofEpochSeconds t) (ofEpochSeconds_month t) sf _ h
      exact ⟨trimBlanks s, by simp [hs]⟩

/-- non-vacuity, and the three regimes: an ordinary date, a serial beyond chrono's years (was a panic),
    a huge negative one -/
example : (14, "m/d/yyyy".toList) ∈ builtinDateCodes := by decide
example : formatAsDateChecked (F := Fix) "m/d/yyyy".toList "45435".toList ⟨86400 * 45435⟩
    = some "5/23/2024".toList := by decide +kernel
example : formatAsDateChecked (F := Fix) "m/d/yyyy h:mm".toList "100000000".toList ⟨86400 * 100000000⟩
    = some "100000000".toList := by decide +kernel
example : formatAsDateChecked (F := Fix) "h:mm:ss AM/PM".toList "-100000000000000000000".toList ⟨-86400 * 10 ^ 20⟩
    = some "-100000000000000000000".toList := by decide +kernel
/-- a serial inside chrono's range but beyond year 9999 is rendered by chrono with a sign -/
example : formatAsDateChecked (F := Fix) "m/d/yyyy".toList "5000000".toList ⟨86400 * 5000000⟩
    = some "7/13/+15589".toList := by decide +kernel

/-- **Out of range = the plain number.**  Where the checked conversion fails, every modelled date format
    shows the General text of the number (trimmed, as `to_formatted_string` does with every result). -/
theorem C19_date_out_of_range {F : Type} [FloatOps F] (f sf g : List Char) (ts : F)
    (hf : strftimeOf f = some sf) (h : excelToEpochSecondsChecked ts = none) :
    formatAsDateChecked f g ts = some (trimBlanks g) := by
  simp [formatAsDateChecked, hf, h]

example : strftimeOf "d-mmm-yy".toList = some "%-d-%b-%y".toList ∧
    excelToEpochSecondsChecked (F := Fix) ⟨86400 * 95051806⟩ = none ∧
    excelToEpochSecondsChecked (F := Fix) ⟨86400 * 95051805⟩ = some (chronoMaxSec - 86399) := by decide

/-- the public `excel_to_date_time_object` (now `…_checked(..).expect(..)`) still panics there -/
example : excelToDateTimeObject (F := Fix) ⟨86400 * 100000000⟩ = none ∧
    (excelToDateTimeObject (F := Fix) ⟨86400 * 45435⟩).map (fun d => (d.year, d.month, d.day)) = some (2024, 5, 23) := by
  decide

/-- the replacement tables of the model are the ones in `date_formater.rs` (regenerated on every run) -/
theorem C19_date_tables_match_source :
    Umya.Gen.date_format_replacements = dateReplacements ∧
    Umya.Gen.date_format_replacements_24 = dateReplacements24 ∧
    Umya.Gen.date_format_replacements_12 = dateReplacements12 := by decide

end DateCodes

end Umya.Thm.C19
