/-
  C14 — Encrypted output decrypts to the exact package, with the right password only.

  Property theorems only (helper lemmas: `Umya/Lemmas/Crypt.lean`).

  Model: `Umya/Model/Crypt.lean` — `encrypt`, `crypt_package`, `create_iv`, `crypt`,
         `convert_password_to_key`, `build_encryption_info` of src/helper/crypt.rs as they stand; the five
         random draws are the parameter `ρ`.
  Spec:  `Umya/Spec/Agile.lean` — the decryptor / verifier of MS-OFFCRYPTO §2.3.4.10–15, written from
         the standard.

  Everything is relative to abstract primitives `P : Prims` with the explicit laws `P.Lawful`
  (digest/HMAC sizes, AES-CBC decrypt inverts encrypt on block-aligned input with a 32-byte key and a
  16-byte IV, base64 decodes what it encoded).  SHA-512, AES, HMAC, base64 are NOT proved.

  Scope notes (not overstated):
  * the theorems of THIS file speak about the descriptor *record* `Info`; `Thm/C14Info.lean` proves that the
    independent stream reader `Agile.parseInfo` returns that record from the bytes `build_encryption_info`
    writes (`C14_info_parses`) and restates them from the two stream contents (`C14_decrypts_text`, …);
  * `C14_decrypts` needs `data.length < 2^32`: the code writes StreamSize as `input.len() as u32`
    (see `C14_declared_size` / `C14_declared_size_4GiB_fails`);
  * freshness of the random material is not a functional property (harness exploration only);
  * the CFB container is outside the model.
-/
import Umya.Lemmas.Crypt
namespace Umya.Thm.C14
open Umya.Crypto Umya.Crypt Umya.Agile

/-- a toy instance of the primitives satisfying every law (non-vacuity of `P.Lawful`):
    "hash" = cut/pad to 64 bytes, "AES" = byte-wise addition of key byte 16, "HMAC" = cut/pad
    of key ‖ message, "base64" = bytes as code points -/
def toy : Prims where
  sha512 x := fit 64 x
  aesCbcEnc k _ m := m.map (· + k.getD 16 0)
  aesCbcDec k _ m := m.map (· - k.getD 16 0)
  hmac k m := fit 64 (k ++ m)
  b64 x := x.map fun b => Char.ofNat b.toNat
  unb64 s := some (s.map fun c => UInt8.ofNat c.toNat)

theorem toy_lawful : toy.Lawful where
  sha_len x := fit_length 64 x
  hmac_len k m := fit_length 64 _
  enc_len k iv m := by simp [toy]
  dec_enc k iv m _ _ _ := by
    simp only [toy, List.map_map]
    conv => rhs; rw [← List.map_id m]
    apply List.map_congr_left
    intro b _
    simp [Function.comp]
  unb64_b64 x := by
    simp only [toy, List.map_map, Option.some.injEq]
    conv => rhs; rw [← List.map_id x]
    apply List.map_congr_left
    intro b _
    have : ∀ b : Fin 256, UInt8.ofNat (Char.ofNat b.val).toNat = UInt8.ofNat b.val := by decide +kernel
    have h2 := this ⟨b.toNat, b.toNat_lt⟩
    simp only [Function.comp, id] at h2 ⊢
    rw [h2]
    exact UInt8.ofNat_toNat

def toyRandoms : Randoms :=
  ⟨List.replicate 32 7, List.replicate 16 1, List.replicate 16 2, List.replicate 64 3, List.replicate 16 4⟩

theorem toyRandoms_wf : toyRandoms.wellFormed := by
  simp [Randoms.wellFormed, toyRandoms]

/-- **`encrypt` does not panic** (every `unwrap` in it succeeds) for all packages and passwords, with
    random material of the sizes `gen_random_32/16/64` return. -/
theorem C14_no_panic (P : Prims) (hP : P.Lawful) (data : Bytes) (pw : List Char) (ρ : Randoms)
    (hρ : ρ.wellFormed) : (encrypt P data pw ρ).isSome = true := by
  unfold encrypt
  rw [encryptWith_eq P hP _ data pw ρ hρ]; rfl

/-- **The file decrypts to exactly the package**: for every package (below 4 GiB), every password and
    every draw of the random material, the specification's decryptor — password verifier, key unwrap,
    HMAC over the whole `EncryptedPackage` stream, segment decryption, truncation to StreamSize — run
    on what `encrypt` produced, with the same password, returns the package, byte for byte. -/
theorem C14_decrypts (P : Prims) (hP : P.Lawful) (data : Bytes) (pw : List Char) (ρ : Randoms)
    (hρ : ρ.wellFormed) (hn : data.length < 4294967296) :
    ∃ info pkg, encrypt P data pw ρ = some (info, pkg) ∧
      Umya.Spec.Agile.decrypt P info pkg pw = some data := by
  refine ⟨encInfo P 100000 data pw ρ, encPackage P ρ data, encryptWith_eq P hP _ data pw ρ hρ, ?_⟩
  unfold Umya.Spec.Agile.decrypt
  rw [verify_ok P hP _ data pw ρ hρ]
  simp only []
  rw [packageKey_ok P hP _ data pw ρ hρ]
  simp only []
  rw [integrity_ok P hP _ data pw ρ hρ]
  simp only [if_true]
  exact decryptData_ok P hP _ data pw ρ hρ hn

/-- hypotheses of `C14_decrypts` are satisfiable, and the statement is not about an empty package:
    a 5000-byte package (two segments, last one padded) with the toy primitives -/
example : toy.Lawful ∧ toyRandoms.wellFormed ∧ (List.replicate 5000 (9 : UInt8)).length < 4294967296 :=
  ⟨toy_lawful, toyRandoms_wf, by rw [List.length_replicate]; omega⟩

/-- **Verifier, HMAC, length** — the three clauses separately: the password verifier matches, the
    data-integrity HMAC over the *entire* EncryptedPackage stream verifies under the unwrapped package
    key, and the declared StreamSize is the package length. -/
theorem C14_verifier_hmac_len (P : Prims) (hP : P.Lawful) (data : Bytes) (pw : List Char) (ρ : Randoms)
    (hρ : ρ.wellFormed) (hn : data.length < 4294967296) :
    ∃ info pkg hn', encrypt P data pw ρ = some (info, pkg) ∧
      Umya.Spec.Agile.verifyPassword P info pw = some hn' ∧
      Umya.Spec.Agile.packageKey P info hn' = some ρ.packageKey ∧
      Umya.Spec.Agile.integrityOk P info ρ.packageKey pkg = true ∧
      Umya.Spec.Agile.declaredSize pkg = data.length :=
  ⟨_, _, _, encryptWith_eq P hP _ data pw ρ hρ, verify_ok P hP _ data pw ρ hρ,
    packageKey_ok P hP _ data pw ρ hρ, integrity_ok P hP _ data pw ρ hρ,
    by rw [declaredSize_ok, Nat.mod_eq_of_lt hn]⟩

/-- **Sizes, for ALL n**: the EncryptedPackage stream of an `n`-byte package has
    `8 + 16·⌈n/16⌉` bytes (8-byte length, every 4096-byte segment kept, the last one zero-padded to the
    block size) — every `n`, not a list of boundary values. -/
theorem C14_sizes (P : Prims) (hP : P.Lawful) (data : Bytes) (pw : List Char) (ρ : Randoms)
    (hρ : ρ.wellFormed) :
    ∃ info pkg, encrypt P data pw ρ = some (info, pkg) ∧
      pkg.length = 8 + 16 * ((data.length + 15) / 16) := by
  refine ⟨_, _, encryptWith_eq P hP _ data pw ρ hρ, ?_⟩
  rw [encPackage_length P hP]; omega

/-- the boundary sizes of the property text are instances of `C14_sizes` -/
example : [0, 1, 15, 16, 17, 4095, 4096, 4097, 8191, 8193].map (fun n => 8 + 16 * ((n + 15) / 16)) =
    [8, 24, 24, 24, 40, 4104, 4104, 4120, 8200, 8216] := by decide

/-- what the code really declares as StreamSize, for every `n`: `n mod 2^32` (the `as u32` cast) -/
theorem C14_declared_size (P : Prims) (ρ : Randoms) (data : Bytes) :
    Umya.Spec.Agile.declaredSize (encPackage P ρ data) = data.length % 4294967296 :=
  declaredSize_ok P ρ data

/-- "the declared length equals the package length" is FALSE at 4 GiB in the model of the code as it
    stands: a package of exactly 2^32 bytes declares StreamSize 0.  (Not replayable by the harness:
    it needs a 4 GiB buffer; recorded as a partial clause, see the report.) -/
theorem C14_declared_size_4GiB_fails :
    ¬ (∀ (P : Prims) (ρ : Randoms) (data : Bytes),
        Umya.Spec.Agile.declaredSize (encPackage P ρ data) = data.length) := by
  intro h
  have := h toy toyRandoms (List.replicate 4294967296 0)
  rw [C14_declared_size, List.length_replicate] at this
  omega

/-- the verifier condition for another password `pw'`, spelled out: the hash of what `pw'` decrypts
    the verifier input to differs from what `pw'` decrypts the verifier hash value to -/
def VerifierRejects (P : Prims) (spin : Nat) (pw pw' : List Char) (ρ : Randoms) : Prop :=
  P.sha512 ((P.aesCbcDec (convertPasswordToKey P pw' ρ.keySalt spin 256 blkVerifierInput) ρ.keySalt
      (P.aesCbcEnc (convertPasswordToKey P pw ρ.keySalt spin 256 blkVerifierInput) ρ.keySalt ρ.verifierInput)).take 16) ≠
  (P.aesCbcDec (convertPasswordToKey P pw' ρ.keySalt spin 256 blkVerifierValue) ρ.keySalt
      (P.aesCbcEnc (convertPasswordToKey P pw ρ.keySalt spin 256 blkVerifierValue) ρ.keySalt
        (P.sha512 ρ.verifierInput))).take 64

/-- **A different password fails verification** — under the explicit hypothesis `VerifierRejects`
    (that AES under the wrong derived keys does not happen to produce a matching verifier pair is a
    cryptographic assumption, not provable): the verifier rejects and the decryptor returns nothing
    (in particular no wrong plaintext).  Stated for every spin count; `encrypt` uses 100000. -/
theorem C14_wrong_password (P : Prims) (hP : P.Lawful) (spin : Nat) (data : Bytes) (pw pw' : List Char) (ρ : Randoms)
    (hρ : ρ.wellFormed) (h : VerifierRejects P spin pw pw' ρ) :
    ∃ info pkg, encryptWith P spin data pw ρ = some (info, pkg) ∧
      Umya.Spec.Agile.verifyPassword P info pw' = none ∧
      Umya.Spec.Agile.decrypt P info pkg pw' = none := by
  refine ⟨_, _, encryptWith_eq P hP spin data pw ρ hρ, ?_⟩
  have hv : Umya.Spec.Agile.verifyPassword P (encInfo P spin data pw ρ) pw' = none := by
    obtain ⟨h1, h2, h3, h4, h5⟩ := hρ
    unfold Umya.Spec.Agile.verifyPassword
    rw [paramsOk_key, paramsOk_keyData _ _ _ _ _ h1]
    simp only [Bool.and_self, Bool.not_true, Bool.false_eq_true, if_false]
    have e1 : (encInfo P spin data pw ρ).key.saltValue = P.b64 ρ.keySalt := rfl
    have e2 : (encInfo P spin data pw ρ).encryptedVerifierHashInput =
        P.b64 (P.aesCbcEnc (convertPasswordToKey P pw ρ.keySalt spin 256 blkVerifierInput) ρ.keySalt ρ.verifierInput) := rfl
    have e3 : (encInfo P spin data pw ρ).encryptedVerifierHashValue =
        P.b64 (P.aesCbcEnc (convertPasswordToKey P pw ρ.keySalt spin 256 blkVerifierValue) ρ.keySalt
          (P.sha512 ρ.verifierInput)) := rfl
    have e4 : (encInfo P spin data pw ρ).key.saltSize = ρ.keySalt.length := rfl
    have e5 : (encInfo P spin data pw ρ).key.keyBits = 256 := rfl
    have e6 : (encInfo P spin data pw ρ).key.hashSize = 64 := rfl
    have e7 : (encInfo P spin data pw ρ).spinCount = spin := rfl
    rw [e1, e2, e3, hP.unb64_b64, hP.unb64_b64, hP.unb64_b64]
    simp only [e4, e5, e6, e7, ne_eq, not_true_eq_false, if_false]
    rw [blk_eq.1, blk_eq.2.1, ← kdf_eq, ← kdf_eq, h3]
    unfold VerifierRejects at h
    simp only [h, if_false]
  refine ⟨hv, ?_⟩
  unfold Umya.Spec.Agile.decrypt
  rw [hv]

/-- `VerifierRejects` is satisfiable (spin count 0, toy primitives, passwords "a" / "b") -/
example : toy.Lawful ∧ toyRandoms.wellFormed ∧ VerifierRejects toy 0 ['a'] ['b'] toyRandoms := by
  refine ⟨toy_lawful, toyRandoms_wf, ?_⟩
  unfold VerifierRejects
  decide

end Umya.Thm.C14
