/-
  C01 — at character level, a text / an attribute value that is written is read back as itself: exactly one
  escape (by the writer) and one unescape (by an XML 1.0 reader), through the tags quick-xml emits.
  Instances of `Umya.Thm.C02.C02_bytes_parse` (`Umya/Thm/C02Bytes.lean`).
-/
import Umya.Thm.C02Bytes
namespace Umya.Thm.C01
open Umya.XmlWrite
open Umya.Spec.Xml (Node Attr parse)

/-- `<n as>` + `write_text_node(s)` + `</n>`: every attribute value and the text come back unchanged, for every
    text of XML `Char`s (carriage returns, tabs, `]]>`, quotes, `&`, `<` included) -/
theorem C01_bytes_text_identity (n : List Char) (as : List Attr) (s : List Char)
    (hn : wfName n = true) (ha : wfAttrs as = true) (hs : allXml s = true) :
    parse (renderDoc (.elem n as [.text s])) = some (.elem n as (if s = [] then [] else [.text s])) := by
  rw [Umya.Thm.C02.C02_bytes_parse _ (by simp [isElemW]) (by simp [WF, wfKids, hn, ha, hs])]
  by_cases h : s = [] <;>
    simp [erase, eraseKids, normNode, normKids, normKidsAcc, pushP, Umya.Spec.Xml.pushText, h]

/-- the same through `write_text_node_conversion` (formula text, `<v>` of `str` and number cells) -/
theorem C01_bytes_text_identity_conversion (n : List Char) (as : List Attr) (s : List Char)
    (hn : wfName n = true) (ha : wfAttrs as = true) (hs : allXml s = true) :
    parse (renderDoc (.elem n as [.conv s])) = some (.elem n as (if s = [] then [] else [.text s])) := by
  rw [Umya.Thm.C02.C02_bytes_parse _ (by simp [isElemW]) (by simp [WF, wfKids, hn, ha, hs])]
  by_cases h : s = [] <;>
    simp [erase, eraseKids, normNode, normKids, normKidsAcc, pushP, Umya.Spec.Xml.pushText, h]

/-- attributes of an empty-element tag -/
theorem C01_bytes_attr_identity (n : List Char) (as : List Attr) (hn : wfName n = true) (ha : wfAttrs as = true) :
    parse (renderDoc (.empty n as)) = some (.elem n as []) := by
  rw [Umya.Thm.C02.C02_bytes_parse _ (by simp [isElemW]) (by simp [WF, wfKids, hn, ha])]
  simp [erase, normNode, normKids, normKidsAcc]

example : wfName ['t'] = true ∧ wfAttrs [⟨"xml:space".toList, "preserve".toList⟩, ⟨['a'], ['&', '<', '"', '\t', '\n', '\r']⟩] = true ∧
    allXml [' ', 'x', '\r', ']', ']', '>', Char.ofNat 0x1F600, '&'] = true := by decide

end Umya.Thm.C01
