/-
  C15 — save / reload of the protection hashes THROUGH THE CHARACTERS of the part.

  `C15_roundtrip` (`Thm/C15.lean`) is stated on attribute lists and on the library's own reader.  Here the same state goes
  record → writer calls (`write_start_tag("sheetProtection" | "workbookProtection", attributes, true)` inside the part's
  root element, anywhere among its other children) → CHARACTERS (`renderDoc`: declaration, escaping of attribute values)
  → the independent XML 1.0 reader (`Umya/Spec/XmlLex.lean`) → first child of that name → `set_attributes`
  (`AnnotProt.SheetProtection.read` / `WorkbookProtection.read`, the tree-level codecs of C06), and comes back unchanged:
  algorithm name, salt, spin count, hash of the kind that was set, every other field of the element as it was, and no
  legacy `password` / `workbookPassword` / `revisionsPassword` attribute for that kind among the attributes read.

  Hypotheses (explicit, decidable-looking):
  * `B64Xml P`: base64 text consists of XML characters (weaker than `B64Safe`: the writer escapes, the reader unescapes);
    a theorem for the executable base64 (`C14_base64_plain`);
  * the rest of the part (`rn ras pre post`) is well formed for the writer (`wfName`, `wfAttrs`, `wfKids`) and has no
    earlier sibling element of the same local name;
  * for the workbook element, the kind NOT being set holds XML characters and a spin count below 2^32 (`xmlFields`).
  The sixteen / three boolean flags of the two elements are arbitrary.
-/
import Umya.Thm.C15
import Umya.Thm.C06View
import Umya.Lemmas.ProtXml
import Umya.Lemmas.Base64
import Umya.Lemmas.AgileInfoParse
namespace Umya.Thm.C15
open Umya.Crypto Umya.PwHash Umya.Dec
open Umya.Spec.Xml (Node parse)
open Umya.XmlWrite (WNode renderDoc wfName wfAttrs wfKids allXml eraseKids isKid WF)
open Umya.AnnotCodec (render getAttr boolStr)

/-- base64 text consists of XML characters -/
def B64Xml (P : Prims) : Prop := ∀ x, allXml (P.b64 x) = true

/-- the `SheetProtection` object (C06 record: five hash fields, sixteen flags) holding the hash state `s` -/
def sheetRec (s : SheetProtection) (flags : Umya.AnnotProt.Flag → Option Bool) : Umya.AnnotProt.SheetProtection :=
  { algorithmName := s.pw.algorithmName, hashValue := s.pw.hashValue, saltValue := s.pw.saltValue,
    spinCount := s.pw.spinCount, password := s.pw.password, flags := flags }

/-- the `WorkbookProtection` object (ten hash fields, three flags) holding the hash state `w` -/
def wbRec (w : WorkbookProtection) (lr ls lw : Option Bool) : Umya.AnnotProt.WorkbookProtection :=
  { workbookAlgorithmName := w.workbook.algorithmName, workbookHashValue := w.workbook.hashValue,
    workbookSaltValue := w.workbook.saltValue, workbookSpinCount := w.workbook.spinCount,
    workbookPassword := w.workbook.password,
    revisionsAlgorithmName := w.revisions.algorithmName, revisionsHashValue := w.revisions.hashValue,
    revisionsSaltValue := w.revisions.saltValue, revisionsSpinCount := w.revisions.spinCount,
    revisionsPassword := w.revisions.password,
    lockRevision := lr, lockStructure := ls, lockWindows := lw }

def optXml : Option (List Char) → Bool
  | none => true
  | some s => allXml s

/-- a hash state the writer can write and the `u32` field can hold -/
def xmlFields (f : PwFields) : Prop :=
  optXml f.algorithmName = true ∧ optXml f.hashValue = true ∧ optXml f.saltValue = true ∧ optXml f.password = true ∧
  ∀ n, f.spinCount = some n → n < 4294967296

theorem set_xmlFields (P : Prims) (hx : B64Xml P) (pw : List Char) (salt : Bytes) (old : PwFields) :
    xmlFields (setPasswordFields P pw salt old) := by
  refine ⟨?_, hx _, hx _, rfl, ?_⟩
  · show allXml algName = true
    decide
  intro n h
  simp only [setPasswordFields, spinCountConst, Option.some.injEq] at h
  omega

theorem optXml_some {o : Option (List Char)} (h : optXml o = true) {v : List Char} (hv : o = some v) : allXml v = true := by
  subst hv; exact h

theorem sheet_pw_mem (x : Umya.AnnotProt.SheetProtection) (h : x.password = none) :
    ("password".toList, (none : Option (List Char))) ∈ x.fields := by
  unfold Umya.AnnotProt.SheetProtection.fields; rw [h]; simp

theorem wb_pw_mem (x : Umya.AnnotProt.WorkbookProtection) (h : x.workbookPassword = none) :
    ("workbookPassword".toList, (none : Option (List Char))) ∈ x.fields := by
  unfold Umya.AnnotProt.WorkbookProtection.fields; rw [h]; simp

theorem rev_pw_mem (x : Umya.AnnotProt.WorkbookProtection) (h : x.revisionsPassword = none) :
    ("revisionsPassword".toList, (none : Option (List Char))) ∈ x.fields := by
  unfold Umya.AnnotProt.WorkbookProtection.fields; rw [h]; simp

theorem sheet_wfAttrs (s : SheetProtection) (flags : Umya.AnnotProt.Flag → Option Bool) (h : xmlFields s.pw) :
    wfAttrs (render (sheetRec s flags).fields) = true := by
  obtain ⟨h1, h2, h3, h4, _⟩ := h
  apply Umya.AnnotCodec.wfAttrs_render _ _ (Umya.AnnotProt.SheetProtection.fields_nodup _)
  · intro p hp v hv
    simp only [Umya.AnnotProt.SheetProtection.fields, sheetRec, List.mem_append, List.mem_cons, List.not_mem_nil, or_false,
      List.mem_map] at hp
    rcases hp with (rfl | rfl | rfl | rfl | rfl) | ⟨f, _, rfl⟩
    · exact optXml_some h1 hv
    · exact optXml_some h2 hv
    · exact optXml_some h3 hv
    · simp only [Option.map_eq_some_iff] at hv
      obtain ⟨n, _, rfl⟩ := hv
      exact Umya.AnnotCodec.allXml_decDigits n
    · exact optXml_some h4 hv
    · simp only [Option.map_eq_some_iff] at hv
      obtain ⟨b, _, rfl⟩ := hv
      exact Umya.AnnotCodec.allXml_boolStr b
  · intro p hp
    have hk : p.1 ∈ (sheetRec s flags).fields.map (·.1) := List.mem_map.mpr ⟨p, hp, rfl⟩
    rw [Umya.AnnotProt.SheetProtection.fields_keys] at hk
    have hall : Umya.AnnotProt.sheetProtectionKeys.all wfName = true := by decide
    exact List.all_eq_true.mp hall _ hk

theorem wb_wfAttrs (w : WorkbookProtection) (lr ls lw : Option Bool) (h1 : xmlFields w.workbook) (h2 : xmlFields w.revisions) :
    wfAttrs (render (wbRec w lr ls lw).fields) = true := by
  obtain ⟨a1, a2, a3, a4, _⟩ := h1
  obtain ⟨b1, b2, b3, b4, _⟩ := h2
  apply Umya.AnnotCodec.wfAttrs_render _ _ (Umya.AnnotProt.WorkbookProtection.fields_nodup _)
  · intro p hp v hv
    simp only [Umya.AnnotProt.WorkbookProtection.fields, wbRec, List.mem_cons, List.not_mem_nil, or_false] at hp
    rcases hp with rfl | rfl | rfl | rfl | rfl | rfl | rfl | rfl | rfl | rfl | rfl | rfl | rfl
    · exact optXml_some a1 hv
    · exact optXml_some a2 hv
    · exact optXml_some a3 hv
    · simp only [Option.map_eq_some_iff] at hv
      obtain ⟨n, _, rfl⟩ := hv
      exact Umya.AnnotCodec.allXml_decDigits n
    · exact optXml_some a4 hv
    · exact optXml_some b1 hv
    · exact optXml_some b2 hv
    · exact optXml_some b3 hv
    · simp only [Option.map_eq_some_iff] at hv
      obtain ⟨n, _, rfl⟩ := hv
      exact Umya.AnnotCodec.allXml_decDigits n
    · exact optXml_some b4 hv
    all_goals
      simp only [Option.map_eq_some_iff] at hv
      obtain ⟨b, _, rfl⟩ := hv
      exact Umya.AnnotCodec.allXml_boolStr b
  · intro p hp
    have hk : p.1 ∈ (wbRec w lr ls lw).fields.map (·.1) := List.mem_map.mpr ⟨p, hp, rfl⟩
    have e : (wbRec w lr ls lw).fields.map (·.1) = Umya.AnnotProt.workbookProtectionKeys := by
      simp [Umya.AnnotProt.WorkbookProtection.fields, Umya.AnnotProt.workbookProtectionKeys,
        Umya.AnnotProt.workbookProtectionTable]
    rw [e] at hk
    have hall : Umya.AnnotProt.workbookProtectionKeys.all wfName = true := by decide
    exact List.all_eq_true.mp hall _ hk

/-- the part around the element: root name and attributes, the writer calls before and after -/
structure Around where
  rootName : List Char
  rootAttrs : List Umya.Spec.Xml.Attr
  pre : List WNode
  post : List WNode

def Around.ok (c : Around) (key : String) : Prop :=
  wfName c.rootName = true ∧ wfAttrs c.rootAttrs = true ∧ wfKids c.pre = true ∧ wfKids c.post = true ∧
  ∀ y ∈ eraseKids c.pre, isKid key.toList y = false

/-- the part: root element, the other children, and the protection element written with `empty_flag = true` -/
def Around.doc (c : Around) (name : String) (attrs : List Umya.Spec.Xml.Attr) : WNode :=
  .elem c.rootName c.rootAttrs (c.pre ++ [.empty name.toList attrs] ++ c.post)

theorem doc_kid (c : Around) (name : String) (hname : wfName name.toList = true)
    (hloc : Umya.Spec.Xml.localName name.toList = name.toList) (attrs : List Umya.Spec.Xml.Attr)
    (ha : wfAttrs attrs = true) (hc : c.ok name) :
    ∃ root, parse (renderDoc (c.doc name attrs)) = some root ∧ root.kid? name = some (.elem name.toList attrs []) := by
  obtain ⟨h1, h2, h3, h4, h5⟩ := hc
  apply Umya.XmlWrite.kid_of_doc c.rootName c.rootAttrs c.pre c.post name.toList attrs name hloc _ h5
  simp only [WF, wfKids, Umya.XmlWrite.wfKids_append, h1, h2, h3, h4, hname, ha, Bool.and_self]

/-- **Sheet protection: save / reload through the characters.**  After `set_password` on the sheet's protection object
    (any previous state, any flags): for every part that contains the element written by `write_to` among the children of
    its root, the independent XML reader applied to the CHARACTERS of the part finds the element, `set_attributes` on it
    gives back the whole object, in particular the algorithm name `SHA-512`, the base64 salt, the spin count 100000 and the
    base64 of the standard's hash — and no `password` attribute is among the attributes read. -/
theorem C15_roundtrip_xml_sheet (P : Prims) (hx : B64Xml P) (pw : List Char) (salt : Bytes) (b : Book)
    (flags : Umya.AnnotProt.Flag → Option Bool) (c : Around) (hc : c.ok "sheetProtection") :
    let x := sheetRec (setPassword P .sheet pw salt b).sheet flags
    ∃ root e, parse (renderDoc (c.doc "sheetProtection" (render x.fields))) = some root ∧
      root.kid? "sheetProtection" = some e ∧
      Umya.AnnotProt.SheetProtection.read e = some x ∧
      x.algorithmName = some algName ∧ x.saltValue = some (P.b64 salt) ∧ x.spinCount = some 100000 ∧
      x.hashValue = some (P.b64 (Umya.Spec.PwHash.pwHash P.sha512 salt pw 100000)) ∧
      (∀ a ∈ e.attrs, a.name ≠ "password".toList) := by
  intro x
  have hf : xmlFields (setPassword P .sheet pw salt b).sheet.pw := set_xmlFields P hx pw salt b.sheet.pw
  obtain ⟨root, hp, hk⟩ := doc_kid c "sheetProtection" (by decide) (by decide) (render x.fields)
    (sheet_wfAttrs _ flags hf) hc
  refine ⟨root, _, hp, hk, ?_, rfl, rfl, rfl, ?_, ?_⟩
  · exact Umya.Thm.C06.C06_sheet_protection_codec x (fun n h => hf.2.2.2.2 n h)
  · show some (P.b64 (convertPasswordToHash P pw salt spinCountConst)) = _
    rw [C15_hash]; rfl
  · exact Umya.AnnotCodec.render_no_attr _ (Umya.AnnotProt.SheetProtection.fields_nodup x) _ (sheet_pw_mem x rfl)

/-- **Workbook / revisions protection: save / reload through the characters.**  After `set_workbook_password` or
    `set_revisions_password` (`k`), with the other kind holding XML characters: the reader finds
    `<workbookProtection>` in the characters of the part, `set_attributes` gives back the whole object (both kinds, three
    flags), the kind that was set reads as algorithm `SHA-512`, the salt, 100000 and the standard's hash, and its legacy
    attribute (`workbookPassword` / `revisionsPassword`) is not among the attributes read. -/
theorem C15_roundtrip_xml_workbook (P : Prims) (hx : B64Xml P) (k : Kind) (hk : k ≠ .sheet) (pw : List Char) (salt : Bytes)
    (b : Book) (hother : ∀ k', k' ≠ k → k' ≠ .sheet → xmlFields (fieldsOf k' b))
    (lr ls lw : Option Bool) (c : Around) (hc : c.ok "workbookProtection") :
    let b' := setPassword P k pw salt b
    let x := wbRec b'.wb lr ls lw
    ∃ root e, parse (renderDoc (c.doc "workbookProtection" (render x.fields))) = some root ∧
      root.kid? "workbookProtection" = some e ∧
      Umya.AnnotProt.WorkbookProtection.read e = some x ∧
      (fieldsOf k b').algorithmName = some algName ∧ (fieldsOf k b').saltValue = some (P.b64 salt) ∧
      (fieldsOf k b').spinCount = some 100000 ∧
      (fieldsOf k b').hashValue = some (P.b64 (Umya.Spec.PwHash.pwHash P.sha512 salt pw 100000)) ∧
      (∀ a ∈ e.attrs, a.name ≠ (namesOf k).password) := by
  intro b' x
  have hset := set_xmlFields P hx pw salt
  have hw : xmlFields b'.wb.workbook ∧ xmlFields b'.wb.revisions := by
    cases k with
    | sheet => exact absurd rfl hk
    | workbook => exact ⟨hset b.wb.workbook, hother .revisions (by decide) (by decide)⟩
    | revisions => exact ⟨hother .workbook (by decide) (by decide), hset b.wb.revisions⟩
  obtain ⟨root, hp, hkid⟩ := doc_kid c "workbookProtection" (by decide) (by decide) (render x.fields)
    (wb_wfAttrs _ lr ls lw hw.1 hw.2) hc
  have hh : (fieldsOf k b').hashValue = some (P.b64 (Umya.Spec.PwHash.pwHash P.sha512 salt pw 100000)) := by
    rw [fieldsOf_set]
    show some (P.b64 (convertPasswordToHash P pw salt spinCountConst)) = _
    rw [C15_hash]; rfl
  refine ⟨root, _, hp, hkid, ?_, by rw [fieldsOf_set]; rfl, by rw [fieldsOf_set]; rfl, by rw [fieldsOf_set]; rfl, hh, ?_⟩
  · exact Umya.Thm.C06.C06_workbook_protection_codec x ⟨fun n h => hw.1.2.2.2.2 n h, fun n h => hw.2.2.2.2.2 n h⟩
  · apply Umya.AnnotCodec.render_no_attr _ (Umya.AnnotProt.WorkbookProtection.fields_nodup x)
    cases k with
    | sheet => exact absurd rfl hk
    | workbook => exact wb_pw_mem x rfl
    | revisions => exact rev_pw_mem x rfl

/-- the attribute list `write_to` hands to `write_start_tag` for the element that carries kind `k` -/
def writtenAttrs (k : Kind) (b : Book) (flags : Umya.AnnotProt.Flag → Option Bool) (lr ls lw : Option Bool) :
    List Umya.Spec.Xml.Attr :=
  match k with
  | .sheet => render (sheetRec b.sheet flags).fields
  | _ => render (wbRec b.wb lr ls lw).fields

/-- **No legacy attribute** (all three kinds, as one statement): the element `write_to` emits after a setter carries no
    `password` / `workbookPassword` / `revisionsPassword` attribute of that kind — on the attribute list handed to
    `write_start_tag`, which is the list the XML reader returns from the characters (theorems above). -/
theorem C15_no_legacy_attr_xml (P : Prims) (k : Kind) (pw : List Char) (salt : Bytes) (b : Book)
    (flags : Umya.AnnotProt.Flag → Option Bool) (lr ls lw : Option Bool) :
    ∀ a ∈ writtenAttrs k (setPassword P k pw salt b) flags lr ls lw, a.name ≠ (namesOf k).password := by
  cases k with
  | sheet =>
    show ∀ a ∈ render (sheetRec (setPassword P .sheet pw salt b).sheet flags).fields, a.name ≠ "password".toList
    have hp : (sheetRec (setPassword P .sheet pw salt b).sheet flags).password = none := rfl
    exact Umya.AnnotCodec.render_no_attr _ (Umya.AnnotProt.SheetProtection.fields_nodup _) _ (sheet_pw_mem _ hp)
  | workbook =>
    show ∀ a ∈ render (wbRec (setPassword P .workbook pw salt b).wb lr ls lw).fields, a.name ≠ "workbookPassword".toList
    have hp : (wbRec (setPassword P .workbook pw salt b).wb lr ls lw).workbookPassword = none := rfl
    exact Umya.AnnotCodec.render_no_attr _ (Umya.AnnotProt.WorkbookProtection.fields_nodup _) _ (wb_pw_mem _ hp)
  | revisions =>
    show ∀ a ∈ render (wbRec (setPassword P .revisions pw salt b).wb lr ls lw).fields, a.name ≠ "revisionsPassword".toList
    have hp : (wbRec (setPassword P .revisions pw salt b).wb lr ls lw).revisionsPassword = none := rfl
    exact Umya.AnnotCodec.render_no_attr _ (Umya.AnnotProt.WorkbookProtection.fields_nodup _) _ (rev_pw_mem _ hp)

/-- the legacy attribute is among the written attributes before the setter in this instance (the statement is not idle) -/
example : (writtenAttrs .sheet ⟨⟨⟨none, none, none, none, some "CC1A".toList⟩⟩, ⟨PwFields.empty, PwFields.empty⟩⟩
    (fun _ => none) none none none).any (fun a => a.name = "password".toList) = true := by
  simp [writtenAttrs, sheetRec, Umya.AnnotProt.SheetProtection.fields, render, Umya.AnnotProt.Flag.all]

/-! ### non-vacuity -/

/-- a worksheet part around the element: `<worksheet xmlns=…>` with a new line, `<sheetData/>` before and
    `<pageMargins …/>` after -/
def demoAround : Around :=
  { rootName := "worksheet".toList
    rootAttrs := [⟨"xmlns".toList, "http://schemas.openxmlformats.org/spreadsheetml/2006/main".toList⟩]
    pre := [.nl, .empty "sheetData".toList [], .text "  ".toList]
    post := [.empty "pageMargins".toList [⟨"left".toList, "0.7".toList⟩]] }

example : demoAround.ok "sheetProtection" := by
  refine ⟨by decide, by decide, ?_, ?_, ?_⟩
  · show wfKids [.nl, .empty "sheetData".toList [], .text "  ".toList] = true
    simp only [wfKids]; decide
  · show wfKids [.empty "pageMargins".toList [⟨"left".toList, "0.7".toList⟩]] = true
    simp only [wfKids]; decide
  · show ∀ y ∈ eraseKids [.nl, .empty "sheetData".toList [], .text "  ".toList], isKid "sheetProtection".toList y = false
    simp only [eraseKids]; decide

/-- `B64Xml` holds of the executable base64 (plain text consists of XML characters) -/
example : ∀ x, allXml (Umya.Base64.encode x) = true := fun x =>
  Umya.Crypt.allXml_of_plain _ (Umya.Base64.encode_plain x)

/-- `xmlFields` of the untouched kind is satisfiable by a fresh book and by one with an `&` in a text (which the
    attribute-list statement `C15_roundtrip` has to exclude) -/
example : xmlFields PwFields.empty ∧ xmlFields ⟨some ['&', '<'], none, none, some 7, some "CC1A".toList⟩ := by
  refine ⟨⟨rfl, rfl, rfl, rfl, by intro n h; cases h⟩, ⟨by decide, rfl, rfl, by decide, ?_⟩⟩
  intro n h; injection h with h; omega

end Umya.Thm.C15
