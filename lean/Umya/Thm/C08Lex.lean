/-
  C08 — the whole-text form of the insert / remove clauses: on the printed text of an expression,
  `CellFormula::adjustment_{insert,remove}_coordinate_with_2sheet` (tokenize, adjust, render)
  returns the printed text of the Spec's shifted expression.

  Property theorems only (namespace `Umya.Thm.C08`); lexer correctness is `C09_lex_print`
  (`Umya/Thm/C09Lex.lean`), helper lemmas in `Umya/Lemmas/FormulaLex*.lean`.
-/
import Umya.Thm.C08
import Umya.Thm.C09Lex
namespace Umya.Thm.C08
open Umya.Coord Umya.Dec Umya.Formula

/-- **Insert, whole text.**  For every expression of the fragment of `C09_lex_print` (`LexOk`) whose
    references are well-formed and whose names are inert (`RefsOk`), every axis, insertion point and
    count `n ≠ 0`, edited sheet and own sheet: the formula text `print e` becomes
    `print (Spec.shiftInsert e self edited ax at n)` — every reference that concerns the edited
    sheet shifted / cut off at the grid edge / `#REF!` as `C08_insert` says, every other character
    unchanged — never a panic. -/
theorem C08_insert_text (e : Spec.Expr) (h : LexOk e) (hr : RefsOk e) (ax : Spec.Axis) (at_ n : Nat)
    (edited self : List Char) (hed : edited ≠ []) (hn : n ≠ 0) :
    editFormula .insert e.print (axisArgs ax at_ n).1 (axisArgs ax at_ n).2.1 (axisArgs ax at_ n).2.2.1
        (axisArgs ax at_ n).2.2.2 edited self
      = .ok (Spec.shiftInsert e self edited ax at_ n).print := by
  have M : TokMap (insertRefTok ax at_ n edited self) (Spec.shiftInsertRef self edited ax at_ n) :=
    { other := fun t ht => by simp [insertRefTok, insertTok, ht]
      ref := fun r hw => C08_insert r hw ax at_ n edited self hed hn
      name := fun m hm => insertTok_name _ _ _ _ _ _ _ m hm
      shape := fun r => by
        simp only [Spec.shiftInsertRef]
        split
        · cases Spec.insArea r.area ax at_ n <;> simp [Spec.refOr]
        · exact Or.inl ⟨r, rfl⟩ }
  have hm := map_tokensOf M e hr
  change mapRes (insertTok _ _ _ _ edited self false) _ = _ at hm
  simp only [editFormula, Umya.Thm.C09.C09_lex_print e h, adjustInsert, hm, Spec.shiftInsert]
  rw [render_mapRefs _ M.shape e hr]

/-- **Remove, whole text.**  As `C08_insert_text` for the removal of the `n` lines from `at`
    (`1 ≤ at`, `n ≠ 0`, `at + n` within `u32`): `print e` becomes
    `print (Spec.shiftRemove e self edited ax at n)` — surviving references shifted, ranges that
    lose an end clamped, deleted targets `#REF!` — never a panic. -/
theorem C08_remove_text (e : Spec.Expr) (h : LexOk e) (hr : RefsOk e) (ax : Spec.Axis) (at_ n : Nat)
    (edited self : List Char) (hed : edited ≠ []) (h1 : 1 ≤ at_) (hn : n ≠ 0)
    (ho : at_ + n ≤ 4294967295) :
    editFormula .remove e.print (axisArgs ax at_ n).1 (axisArgs ax at_ n).2.1 (axisArgs ax at_ n).2.2.1
        (axisArgs ax at_ n).2.2.2 edited self
      = .ok (Spec.shiftRemove e self edited ax at_ n).print := by
  have M : TokMap (removeRefTok ax at_ n edited self) (Spec.shiftRemoveRef self edited ax at_ n) :=
    { other := fun t ht => by simp [removeRefTok, removeTok, ht]
      ref := fun r hw => C08_remove r hw ax at_ n edited self hed h1 hn ho
      name := fun m hm => removeTok_name _ _ _ _ _ _ _ m hm
      shape := fun r => by
        simp only [Spec.shiftRemoveRef]
        split
        · cases Spec.remArea r.area ax at_ n <;> simp [Spec.refOr]
        · exact Or.inl ⟨r, rfl⟩ }
  have hm := map_tokensOf M e hr
  change mapRes (removeTok _ _ _ _ edited self false) _ = _ at hm
  simp only [editFormula, Umya.Thm.C09.C09_lex_print e h, adjustRemove, hm, Spec.shiftRemove]
  rw [render_mapRefs _ M.shape e hr]

/-- non-vacuity: the hypotheses hold for `SUM(A1:$B$2,,"a""b")<=-x%` on sheet `S`, two columns
    inserted at B / rows 1..2 removed -/
example : LexOk Umya.Thm.C09.lexExample ∧ RefsOk Umya.Thm.C09.lexExample ∧
    editFormula .insert "SUM(A1:$B$2,,\"a\"\"b\")<=-x%".toList 2 2 0 0 ['S'] ['S']
      = .ok (Spec.shiftInsert Umya.Thm.C09.lexExample ['S'] ['S'] .col 2 2).print ∧
    editFormula .remove "SUM(A1:$B$2,,\"a\"\"b\")<=-x%".toList 0 0 1 2 ['S'] ['S']
      = .ok (Spec.shiftRemove Umya.Thm.C09.lexExample ['S'] ['S'] .row 1 2).print := by
  have h1 := C08_insert_text _ Umya.Thm.C09.lexExample_ok Umya.Thm.C09.lexExample_refs .col 2 2 ['S'] ['S']
    (by simp) (by simp)
  have h2 := C08_remove_text _ Umya.Thm.C09.lexExample_ok Umya.Thm.C09.lexExample_refs .row 1 2 ['S'] ['S']
    (by simp) (by simp) (by simp) (by simp)
  rw [Umya.Thm.C09.lexExample_print] at h1 h2
  exact ⟨Umya.Thm.C09.lexExample_ok, Umya.Thm.C09.lexExample_refs, h1, h2⟩

end Umya.Thm.C08
