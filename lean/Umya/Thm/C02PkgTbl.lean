/-
  C02, package level — sheets with TABLES (`Umya/Model/PackageNodeTbl.lean`): what is proved here is about the
  RELATIONSHIPS PART of a sheet with tables as the independent decoder reads it, the `<tableParts>` ids, the table part
  numbers and names, for every number of hyperlinks, tables, with and without comments on the same sheet.

  The theorems are stated for ANY package `pkg` in which the relationships part of sheet K is the one the model writes
  (`hrel`): the whole-package model with table parts (an `assembleT` / `writePackageT` on top of `writePackageC`) and the
  whole-package statements asked for (content-type coverage through the decoder's look-up, `decode pkg = (some bk, [])`
  with `tables` per sheet) are NOT done — see `partial_clauses` in tools/props.d/C02.py.

    C02_tbl_sheet_rels_read         relsOf pkg sheetK = hyperlink relationships ++ [vmlDrawing] ++ tables ++ [comments]
    C02_tbl_comments_rel_shifted    the comments relationship has the id rId{r + 1 + t}: shifted by the number of tables
    C02_tbl_rel_ids_unique          the ids of that part are pairwise different
    C02_tbl_table_parts_resolve     the j-th `<tablePart r:id>` is the id of the j-th table relationship (no other
                                    relationship has it), whose target resolves from the sheet part to xl/tables/table{n}.xml
                                    with n the j-th number handed to the sheet
    C02_tbl_numbers_distinct        the numbers handed out over the sheets are 1 … Σ counts without repetition, sheet by sheet
    C02_tbl_part_names_distinct     so the table part names are pairwise different
    C02_tbl_plain_same_partial      without tables: the relationships, the content-types tree and the sheet child are those of the comments model
-/
import Umya.Lemmas.PackageNodeCmtDecode
import Umya.Model.PackageNodeTbl
import Umya.Thm.C02PkgCmt
namespace Umya.Thm.C02
open Umya.CellXml Umya.CellNode Umya.SheetNode Umya.WorkbookNode Umya.PackageNode Umya.Num Umya.Dec
open Umya.Spec.Sml
open Umya.Spec.Xml (Node Attr)

/-! ### the records -/

def tblRecs : Nat → List Nat → List Rel
  | _, [] => []
  | k, t :: r => relRec k tTable (tblTarget t) :: tblRecs (k + 1) r

def restRecsT (k : Nat) (num : Option (Nat × Nat)) (ts : List Nat) : List Rel :=
  match num with
  | none => tblRecs k ts
  | some (v, c) => relRec k tVml (vmlTarget v) :: (tblRecs (k + 1) ts ++ [relRec (k + 1 + ts.length) tComments (commentsTarget c)])

theorem tblRelNodes_recs (ts : List Nat) : ∀ k, ((tblRelNodes k ts).filter (isKid nRelationship)).map relOf = tblRecs k ts := by
  induction ts with
  | nil => intro _; rfl
  | cons t r ih => intro k; simp [tblRelNodes, tblRecs, List.filter_cons, isKid_relEl, relOf_relEl, ih]

theorem restNodesT_recs (k : Nat) (num : Option (Nat × Nat)) (ts : List Nat) :
    ((restNodesT k num ts).filter (isKid nRelationship)).map relOf = restRecsT k num ts := by
  cases num with
  | none => simp [restNodesT, restRecsT, tblRelNodes_recs]
  | some vc =>
    obtain ⟨v, c⟩ := vc
    simp [restNodesT, restRecsT, List.filter_cons, List.filter_append, isKid_relEl, relOf_relEl, tblRelNodes_recs]

theorem tblRecs_ids (ts : List Nat) : ∀ k, (tblRecs k ts).map (·.id) = (List.range' k ts.length).map (fun i => str (rIdText i)) := by
  induction ts with
  | nil => intro _; rfl
  | cons t r ih => intro k; simp [tblRecs, relRec, List.range'_succ, ih]

theorem tblRecs_get (ts : List Nat) : ∀ k j t, ts[j]? = some t → (tblRecs k ts)[j]? = some (relRec (k + j) tTable (tblTarget t)) := by
  induction ts with
  | nil => intro _ j t h; simp at h
  | cons a r ih =>
    intro k j t h
    cases j with
    | zero => simp at h; subst h; simp [tblRecs]
    | succ j =>
      simp only [List.getElem?_cons_succ] at h
      simp only [tblRecs, List.getElem?_cons_succ]
      rw [ih (k + 1) j t h]; congr 2; omega

theorem restRecsT_ids (k : Nat) (num : Option (Nat × Nat)) (ts : List Nat) :
    ∃ m, (restRecsT k num ts).map (·.id) = (List.range' k m).map (fun i => str (rIdText i)) := by
  cases num with
  | none => exact ⟨ts.length, tblRecs_ids ts k⟩
  | some vc =>
    obtain ⟨v, c⟩ := vc
    refine ⟨(ts.length + 1) + 1, ?_⟩
    rw [List.range'_succ, List.range'_concat]
    simp [restRecsT, relRec, tblRecs_ids]

theorem sheet_idsT (ls : List LinkW) (num : Option (Nat × Nat)) (ts : List Nat) :
    ∃ m, (relRecs 1 ls ++ restRecsT (hlNext 1 ls) num ts).map (·.id) = (List.range' 1 m).map (fun i => str (rIdText i)) := by
  have hge := hlNext_ge ls 1
  obtain ⟨m, hm⟩ := restRecsT_ids (hlNext 1 ls) num ts
  refine ⟨(hlNext 1 ls - 1) + m, ?_⟩
  rw [List.map_append, hm, relRecs_ids_next, ← List.range'_append_1, List.map_append]
  congr 3; omega

/-! ### the relationships part of a sheet with tables, as read -/

/-- **AS READ.**  In any package whose `xl/worksheets/_rels/sheetK.xml.rels` is the part the model writes for a sheet with
    the hyperlinks `links`, comments numbers `num` (none without comments) and table numbers `ts`, the decoder reads:
    the hyperlink relationships, then vmlDrawing (with comments), one `table` relationship per table, then comments. -/
theorem C02_tbl_sheet_rels_read (pkg : Package) (k : Nat) (links : List LinkW) (num : Option (Nat × Nat)) (ts : List Nat)
    (hrel : (pkg.part? (relsNameOf (String.ofList (sheetPartL k)))).bind (·.xml) = relsRoot links (restOfT links num ts)) :
    relsOf pkg (String.ofList (sheetPartL k)) = relRecs 1 links ++ restRecsT (hlNext 1 links) num ts := by
  rw [relsOf_rendered _ _ links _ hrel, relsView_eq]
  unfold restOfT
  rw [restNodesT_recs]

/-- **THE SHIFT.**  With comments and `t` tables the comments relationship is `rId{r + 1 + t}` (r = the counter after
    the hyperlink loop), the vmlDrawing one stays `rId{r}` — where `<legacyDrawing r:id>` points. -/
theorem C02_tbl_comments_rel_shifted (r v c : Nat) (ts : List Nat) :
    (restRecsT r (some (v, c)) ts).head? = some (relRec r tVml (vmlTarget v)) ∧
    (restRecsT r (some (v, c)) ts).getLast? = some (relRec (r + 1 + ts.length) tComments (commentsTarget c)) ∧
    (restRecsT r (some (v, c)) ts).length = ts.length + 2 := by
  refine ⟨rfl, ?_, ?_⟩
  · simp only [restRecsT]
    rw [← List.cons_append, List.getLast?_append]
    simp
  · have : ∀ (l : List Nat) k, (tblRecs k l).length = l.length := by
      intro l; induction l with
      | nil => intro _; rfl
      | cons a l ih => intro k; simp [tblRecs, ih]
    simp [restRecsT, this]

example : (restRecsT 4 (some (2, 2)) [3, 4]).map (·.id) = ["rId4", "rId5", "rId6", "rId7"] ∧
    ((restRecsT 4 (some (2, 2)) [3, 4]).map (·.target)).getLast? = some "../comments2.xml" := by decide +kernel

/-- **RELATIONSHIP IDS.**  … and its ids are pairwise different (the decoder's test: erasing duplicates loses nothing). -/
theorem C02_tbl_rel_ids_unique (pkg : Package) (k : Nat) (links : List LinkW) (num : Option (Nat × Nat)) (ts : List Nat)
    (hrel : (pkg.part? (relsNameOf (String.ofList (sheetPartL k)))).bind (·.xml) = relsRoot links (restOfT links num ts)) :
    ((relsOf pkg (String.ofList (sheetPartL k))).map (·.id)).eraseDups.length = ((relsOf pkg (String.ofList (sheetPartL k))).map (·.id)).length := by
  rw [C02_tbl_sheet_rels_read pkg k links num ts hrel]
  obtain ⟨m, hm⟩ := sheet_idsT links num ts
  exact rids_unique 1 m _ hm

/-! ### table parts -/

theorem segsOf_tblTarget (t : Nat) :
    segsOf (tblTarget t) = [['.', '.'], ['t', 'a', 'b', 'l', 'e', 's'], 't' :: 'a' :: 'b' :: 'l' :: 'e' :: (decDigits t ++ ['.', 'x', 'm', 'l'])] := by
  have ht := splitGo_slash_tail t ['.', 'x', 'm', 'l'] (by decide)
  simp [segsOf, splitOnChar, tblTarget, splitGo_cons_ne, splitGo_cons_eq, ht]

/-- `../tables/table{t}.xml` relative to `xl/worksheets/sheet{k}.xml` is `xl/tables/table{t}.xml` -/
theorem resolve_tblTarget (k t : Nat) : resolveTargetL (sheetPartL k) (tblTarget t) = tblPartL t := by
  have hh : (tblTarget t).head? ≠ some '/' := by simp [tblTarget]
  unfold resolveTargetL
  rw [if_neg hh, segsOf_sheetPart, segsOf_tblTarget]
  simp [resolveSegs, joinSegs, List.intercalate, tblPartL]

theorem find_of_nodup_ids (l : List Rel) (h : (l.map (·.id)).Nodup) (r : Rel) (hr : r ∈ l) :
    l.find? (fun (q : Rel) => q.id = r.id) = some r := by
  induction l with
  | nil => cases hr
  | cons a l ih =>
    simp only [List.map_cons, List.nodup_cons] at h
    by_cases e : a.id = r.id
    · have : a = r := by
        rcases List.mem_cons.1 hr with rfl | hm
        · rfl
        · exact absurd (List.mem_map.2 ⟨r, hm, e.symm⟩) h.1
      subst this
      simp
    · rcases List.mem_cons.1 hr with rfl | hm
      · exact absurd rfl e
      · rw [List.find?_cons_of_neg (by simpa using e)]
        exact ih h.2 hm

theorem tablePartIds_get (links : List LinkW) (hasCmt : Bool) (t j : Nat) (hj : j < t) :
    (tablePartIds links hasCmt t)[j]? = some (rIdText (tblStart links hasCmt + j)) := by
  simp [tablePartIds, List.getElem?_range', hj]

/-- **TABLE PARTS.**  For the j-th table of the sheet (number `t`): the `r:id` of the j-th `<tablePart>` the model
    writes is `rId{s + j}` (s = the counter after the hyperlink loop and `legacyDrawing`); the relationship the decoder
    finds under that id in the sheet's relationships part is the j-th `table` relationship and no other; its target,
    resolved from the sheet part, is `xl/tables/table{t}.xml`. -/
theorem C02_tbl_table_parts_resolve (pkg : Package) (k : Nat) (links : List LinkW) (num : Option (Nat × Nat)) (ts : List Nat)
    (hrel : (pkg.part? (relsNameOf (String.ofList (sheetPartL k)))).bind (·.xml) = relsRoot links (restOfT links num ts))
    (j t : Nat) (hj : ts[j]? = some t) :
    (tablePartIds links num.isSome ts.length)[j]? = some (rIdText (tblStart links num.isSome + j)) ∧
    (relsOf pkg (String.ofList (sheetPartL k))).find? (fun (r : Rel) => r.id = str (rIdText (tblStart links num.isSome + j))) =
      some (relRec (tblStart links num.isSome + j) tTable (tblTarget t)) ∧
    resolveTarget (String.ofList (sheetPartL k)) (relRec (tblStart links num.isSome + j) tTable (tblTarget t)).target = String.ofList (tblPartL t) := by
  have hlt : j < ts.length := (List.getElem?_eq_some_iff.1 hj).1
  refine ⟨tablePartIds_get links _ _ j hlt, ?_, ?_⟩
  · rw [C02_tbl_sheet_rels_read pkg k links num ts hrel]
    obtain ⟨m, hm⟩ := sheet_idsT links num ts
    have hnd : ((relRecs 1 links ++ restRecsT (hlNext 1 links) num ts).map (·.id)).Nodup := by
      rw [hm]; exact rids_nodup _ (List.nodup_range' (step := 1))
    have hmem : relRec (tblStart links num.isSome + j) tTable (tblTarget t) ∈ relRecs 1 links ++ restRecsT (hlNext 1 links) num ts := by
      apply List.mem_append_right
      cases num with
      | none =>
        have := tblRecs_get ts (hlNext 1 links) j t hj
        simp only [restRecsT, tblStart, Option.isSome_none, Bool.false_eq_true, if_false, Nat.add_zero]
        exact List.mem_of_getElem? this
      | some vc =>
        obtain ⟨v, c⟩ := vc
        have := tblRecs_get ts (hlNext 1 links + 1) j t hj
        simp only [restRecsT, tblStart, Option.isSome_some, if_true]
        exact List.mem_cons_of_mem _ (List.mem_append_left _ (List.mem_of_getElem? this))
    exact find_of_nodup_ids _ hnd _ hmem
  · simp only [relRec]
    exact resolve_sheet k _ _ (resolve_tblTarget k t)

/-! ### numbers -/

theorem tableNums_flatten (counts : List Nat) : ∀ c, (tableNums c counts).flatten = List.range' (c + 1) counts.sum := by
  induction counts with
  | nil => intro _; rfl
  | cons t r ih =>
    intro c
    simp only [tableNums, List.flatten_cons, List.sum_cons, ih (c + t)]
    rw [← List.range'_append_1]; congr 2; omega

/-- **NUMBERS.**  One counter over the whole package: sheet i gets `t_i` consecutive numbers, all sheets together get
    `1 … Σ t_i`, no number twice — whatever the mixture of sheets with and without tables. -/
theorem C02_tbl_numbers_distinct (counts : List Nat) :
    (tableNums 0 counts).map (·.length) = counts ∧ (tableNums 0 counts).flatten = List.range' 1 counts.sum ∧
    (tableNums 0 counts).flatten.Nodup := by
  have hl : ∀ (l : List Nat) c, (tableNums c l).map (·.length) = l := by
    intro l; induction l with
    | nil => intro _; rfl
    | cons a l ih => intro c; simp [tableNums, ih]
  refine ⟨hl counts 0, tableNums_flatten counts 0, ?_⟩
  rw [tableNums_flatten]; exact List.nodup_range' (step := 1)

example : tableNums 0 [2, 0, 1, 3] = [[1, 2], [], [3], [4, 5, 6]] := by decide

theorem tblPartL_inj (a b : Nat) (h : tblPartL a = tblPartL b) : a = b := by
  simp only [tblPartL, List.cons.injEq, true_and] at h
  have := congrArg parseDec (List.append_cancel_right h)
  simpa [parseDec_decDigits] using this

/-- **PART NAMES.**  The table parts of the package have pairwise different names. -/
theorem C02_tbl_part_names_distinct (counts : List Nat) : ((tableNums 0 counts).flatten.map tblPartL).Nodup :=
  nodup_map_inj' _ tblPartL_inj _ (C02_tbl_numbers_distinct counts).2.2

/-! ### without tables -/

/-- **NO TABLES.**  (partial: on the pieces, not on a whole package) a sheet without tables has the relationships of the
    comments model, no `<tableParts>`, and the content-types tree without table Overrides is that of the comments model. -/
theorem C02_tbl_plain_same_partial (links : List LinkW) (num : Option (Nat × Nat)) (hasCmt : Bool) (n : Nat) (hs : Bool) (vs cs : List Nat) :
    restOfT links num [] = restOf links num ∧ tablePartsNodes links hasCmt 0 = [] ∧
    contentTypesNodeT n hs vs cs [] = contentTypesNodeC n hs vs cs := by
  refine ⟨?_, rfl, ?_⟩
  · cases num with
    | none => rfl
    | some vc => obtain ⟨v, c⟩ := vc; rfl
  · simp [contentTypesNodeT, contentTypesNodeC, tableOverrides]

/-! ### non-vacuity: a package holding the relationships part of a sheet with two links (one external), comments and
    two tables numbered 3 and 4 -/

def demoTblLinks : List LinkW := [{ ref := ['A', '1'], location := false, url := ['h', ':', 'x'] }, { ref := ['B', '1'], location := true, url := ['S', '!', 'A', '1'] }]

def demoTblPkg : Package :=
  match relsRoot demoTblLinks (restOfT demoTblLinks (some (2, 2)) [3, 4]) with
  | some rr => [xmlPart (sheetRelsL 5) rr]
  | none => []

theorem demoTblPkg_hrel : (demoTblPkg.part? (relsNameOf (String.ofList (sheetPartL 5)))).bind (·.xml) =
    relsRoot demoTblLinks (restOfT demoTblLinks (some (2, 2)) [3, 4]) := by
  rw [relsName_sheet]; decide +kernel

example : (relsOf demoTblPkg (String.ofList (sheetPartL 5))).map (fun r => (r.id, r.target)) =
    [("rId1", "h:x"), ("rId2", "../drawings/vmlDrawing2.vml"), ("rId3", "../tables/table3.xml"), ("rId4", "../tables/table4.xml"), ("rId5", "../comments2.xml")] := by
  rw [C02_tbl_sheet_rels_read demoTblPkg 5 demoTblLinks (some (2, 2)) [3, 4] demoTblPkg_hrel]; decide +kernel

example : (tablePartIds demoTblLinks true 2).map String.ofList = ["rId3", "rId4"] := by decide +kernel

end Umya.Thm.C02
