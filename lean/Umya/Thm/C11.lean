/-
  C11 — Lazy loading is equivalent to eager loading for every access pattern.

  Model: `Umya/Model/Lazy.lean` (the code after the fixes: a copied sheet's own relationships part follows
  the sheet to its new name; table numbers skip names already in the package).  The sheet decoder, the
  edits, what a sheet registers in the workbook-level tables and what its serialiser asks the writer
  manager for are parameters (`Codec`, `Profile`): every theorem holds for all of them.
-/
import Umya.Lemmas.Lazy
import Umya.Lemmas.LazyClosed
namespace Umya.Thm.C11
open Umya.Lazy

variable {C E : Type} (cd : Codec C E)

/-! ### what an accessed sheet shows -/

/-- For every workbook state `x` (lazily opened: all sheets raw, or partly deserialized) and EVERY history
    `ops` of accesses (`read_sheet`, `get_sheet_mut`, `get_sheet_by_name_mut`, `read_sheet_collection`), edits,
    `new_sheet`, `remove_sheet(_by_name)`, `set_sheet_name` and workbook-level inserts/removes: a sheet that is
    deserialized afterwards is exactly the sheet the eagerly opened workbook holds at that position after the
    same history. -/
theorem C11_view (x : Book C) (ops : List (Op E)) (i : Nat) (s : Sheet C)
    (hs : (run cd x ops).sheets[i]? = some s) (hl : s.isRaw = false) :
    (run cd (eagerOf cd x) ops).sheets[i]? = some s := by
  rw [run_eagerOf]
  simp only [eagerOf, List.getElem?_map, hs, Option.map_some]
  rw [materialise_of_notRaw cd _ s hl]

/-- … and every request gets the same answer (ok / none / err / panic) from both workbooks, at every point of
    every history. -/
theorem C11_view_replies (x : Book C) (ops : List (Op E)) (op : Op E) :
    (step cd (run cd (eagerOf cd x) ops) op).2 = (step cd (run cd x ops) op).2 := by
  rw [run_eagerOf]; exact (step_eagerOf cd _ op).1

/-- the whole state: the eager workbook is the lazy one with everything deserialized, after any history -/
theorem C11_view_state (x : Book C) (ops : List (Op E)) :
    run cd (eagerOf cd x) ops = eagerOf cd (run cd x ops) := run_eagerOf cd x ops

/-- an access leaves the accessed sheet deserialized -/
theorem C11_access_loads (b : Book C) (i : Nat) (s : Sheet C)
    (hs : (step cd b (.getMut i)).1.sheets[i]? = some s) : s.isRaw = false := by
  by_cases h : i < b.sheets.length
  · simp only [step, h, if_true, modifyAt_getElem?, Option.map_eq_some_iff] at hs
    obtain ⟨a, _, rfl⟩ := hs
    exact materialise_notRaw cd _ a
  · simp only [step, h, if_false] at hs
    have := (List.getElem?_eq_some_iff.mp hs).1
    omega

/-- order independence: accessing the same sheets in another order gives the same workbook -/
theorem C11_order_independent (x : Book C) (acc₁ acc₂ : List Nat) (h : acc₁.Perm acc₂) :
    run cd x (acc₁.map Op.getMut) = run cd x (acc₂.map Op.getMut) := by
  unfold run
  rw [List.foldl_map, List.foldl_map]
  apply List.Perm.foldl_eq' h
  intro i _ j _ b
  -- two materialisations commute
  have key : ∀ (l : List (Sheet C)) (T : Tables) (i j : Nat),
      modifyAt (materialise cd T) (modifyAt (materialise cd T) l i) j =
      modifyAt (materialise cd T) (modifyAt (materialise cd T) l j) i := by
    intro l T i j
    apply List.ext_getElem?
    intro k
    simp only [modifyAt_getElem?]
    by_cases h1 : i = k <;> by_cases h2 : j = k <;> simp [h1, h2]
  by_cases hi : i < b.sheets.length <;> by_cases hj : j < b.sheets.length <;>
    simp [step, hi, hj, modifyAt_length, key]

example :
    let cd : Codec Nat Nat := { decode := fun r _ => { content := r.cid }, apply := fun e l => { l with content := l.content + e },
                                fresh := { content := 0 }, texts := fun _ => [], styles := fun _ => [], dxfs := fun _ => [] }
    let x : Book Nat := { sheets := [⟨['a'], .raw ⟨.sheet 1, 10, []⟩⟩, ⟨['b'], .raw ⟨.sheet 2, 20, []⟩⟩, ⟨['c'], .raw ⟨.sheet 3, 30, []⟩⟩] }
    -- a non-trivial history: access, edit, removal of an earlier sheet while others are raw, rename, new sheet
    let ops : List (Op Nat) := [.getMut 2, .edit 1 5, .removeSheet 0, .setName 1 ['z'], .newSheet ['n']]
    ((run cd x ops).sheets.map (fun s => (s.name, s.isRaw))) = [(['b'], false), (['z'], false), (['n'], false)] ∧
    ((run cd x [.removeSheet 0, .readSheet 1]).sheets.map (fun s => (s.name, s.isRaw))) = [(['b'], true), (['c'], false)] := by
  decide

/-! ### the tables raw sheets index into -/

/-- No history changes the workbook's tables, and what a save writes extends them: the shared strings keep the
    loaded table as a prefix while any sheet is still raw, the cell formats and differential formats always. An
    index that was valid at load time therefore denotes the same entry in the written file. -/
theorem C11_tables_only_grow (x : Book C) (ops : List (Op E)) :
    let b := run cd x ops
    b.tables = x.tables ∧
    (b.hasRaw = true → x.tables.sst <+: (save cd b).tables.sst) ∧
    x.tables.xfs <+: (save cd b).tables.xfs ∧
    x.tables.dxfs <+: (save cd b).tables.dxfs := by
  intro b
  have ht : b.tables = x.tables := run_tables cd x ops
  refine ⟨ht, ?_, ?_, ?_⟩
  · intro hr
    simp only [save, saveWith, saveTables, hr, if_true, ht]
    exact internAll_prefix _ _
  · simp only [save, saveWith, saveTables, ht]; exact internAll_prefix _ _
  · simp only [save, saveWith, saveTables, ht]; exact internAll_prefix _ _

/-- the index form: entry `i` of the loaded shared-string table is entry `i` of the written one -/
theorem C11_tables_indices_stable (x : Book C) (ops : List (Op E)) (i v : Nat)
    (hr : (run cd x ops).hasRaw = true) (hi : x.tables.sst[i]? = some v) :
    (save cd (run cd x ops)).tables.sst[i]? = some v :=
  prefix_getElem? ((C11_tables_only_grow cd x ops).2.1 hr) i v hi

example :
    let cd : Codec Nat Nat := { decode := fun r _ => { content := r.cid }, apply := fun e l => { l with content := e },
                                fresh := { content := 0 }, texts := fun c => [c, 7], styles := fun c => [c], dxfs := fun _ => [] }
    let x : Book Nat := { sheets := [⟨['a'], .raw ⟨.sheet 1, 10, []⟩⟩, ⟨['b'], .raw ⟨.sheet 2, 20, []⟩⟩], tables := { sst := [7, 8, 9], xfs := [0, 1] } }
    (save cd (run cd x [.edit 1 42])).tables.sst = [7, 8, 9, 42] ∧ (run cd x [.edit 1 42]).hasRaw = true ∧
    (save cd (run cd x [.edit 1 42])).tables.xfs = [0, 1, 42] ∧
    -- once nothing is raw the strings are rebuilt from scratch
    (save cd (run cd x [.edit 1 42, .readAll])).tables.sst = [10, 7, 42] := by
  decide

/-! ### the saved package -/

/-- no two parts share a name, whatever was loaded, edited, added, removed or renamed before -/
theorem C11_save_names_unique (x : Book C) (ops : List (Op E)) :
    ((save cd (run cd x ops)).parts.map (·.1)).Nodup := by
  have h := ((loop1_ext false (run cd x ops).sheets 1 ({} : WM C)).trans (loop2_ext (run cd x ops).sheets 1 _)).nodup
    (by simp [NoDupNames])
  exact h

/-- every sheet position has its sheet part `sheet{position}.xml`, holding exactly that sheet: the original bytes
    for a sheet that was never deserialized (wherever it moved to), the serialisation of the in-memory content —
    edits included — for a deserialized one; there is no sheet part beyond the last position.
    Hypothesis: no part in the closure of a raw sheet, and no fixed-name part a serialiser asks for, is itself
    named like a sheet part. -/
theorem C11_save_sheet_parts (x : Book C) (ops : List (Op E))
    (hraw : RawsOk (run cd x ops).sheets)
    (hprof : ∀ s ∈ (run cd x ops).sheets, ∀ l, s.body = .loaded l → ∀ n ∈ profNames l.prof, NotSheet n) :
    let b := run cd x ops
    (∀ j s, b.sheets[j]? = some s → lookupPart (save cd b).parts (.sheet (j + 1)) = some (expectedSheet s)) ∧
    (∀ k, b.sheets.length + 1 ≤ k → hasPart (save cd b).parts (.sheet k) = false) ∧
    (save cd b).names = b.sheets.map (·.name) := by
  intro b
  obtain ⟨h1, h2⟩ := loop1_sheets b.sheets 1 ({} : WM C) hraw (by intro k _; rfl)
  -- the second loop adds no sheet-named part and changes no part that is there
  have hns : ∀ (ss : List (Sheet C)) (p : Nat) (w : WM C),
      (∀ s ∈ ss, ∀ l, s.body = .loaded l → ∀ n ∈ profNames l.prof, NotSheet n) → Ext NotSheet w (loop2 w p ss) := by
    intro ss
    induction ss with
    | nil => intro p w _; exact Ext.refl w
    | cons s ss ih =>
      intro p w hp
      simp only [loop2]
      refine Ext.trans ?_ (ih _ _ (fun s' hs' => hp s' (List.mem_cons_of_mem _ hs')))
      unfold objStep
      cases hb : s.body with
      | raw r => exact Ext.refl _
      | loaded l =>
        exact emitSheet_ext NotSheet (fun _ _ k => by simp) (fun _ _ k => by simp) _ _ _ (fun k => by simp)
          (hp s (List.mem_cons_self ..) l hb)
  have hext := hns b.sheets 1 (loop1 false {} 1 b.sheets) hprof
  refine ⟨?_, ?_, rfl⟩
  · intro j s hj
    have := h1 j s hj
    have hhas : (loop1 false ({} : WM C) 1 b.sheets).has (.sheet (1 + j)) = true := by
      unfold WM.lookup at this
      unfold WM.has
      cases hh : hasPart (loop1 false ({} : WM C) 1 b.sheets).parts (.sheet (1 + j))
      · exfalso
        have : lookupPart (loop1 false ({} : WM C) 1 b.sheets).parts (.sheet (1 + j)) = none := by
          generalize (loop1 false ({} : WM C) 1 b.sheets).parts = ps at hh
          induction ps with
          | nil => rfl
          | cons y ys ih =>
            obtain ⟨m, c⟩ := y
            by_cases hm : m = .sheet (1 + j)
            · simp [hasPart, hm] at hh
            · simp only [hasPart, hm, if_false] at hh
              simp [lookupPart, hm, ih hh]
        simp_all
      · rfl
    have := hext.lookup_stable _ hhas
    simp only [save, saveWith]
    rw [show j + 1 = 1 + j by omega]
    unfold WM.lookup at *
    simp_all
  · intro k hk
    simp only [save, saveWith]
    cases hh : hasPart (loop2 (loop1 false ({} : WM C) 1 b.sheets) 1 b.sheets).parts (.sheet k)
    · rfl
    · exfalso
      rcases hext.new_name (.sheet k) hh with h | h
      · rw [h2 k (by omega)] at h; exact absurd h (by simp)
      · exact h k rfl

/-- every relationship of every relationships part in the saved package — the copied closures of raw sheets under
    the names the fixed code uses (a part is written BEFORE its targets there), and the parts written for
    deserialized sheets — resolves to a part that is in the package; after any history.
    Hypothesis (`SheetWritable`, on the state that is saved): a raw closure holds the bytes of each non-external
    target (zero-length parts are not copied by `RawFile::write_to`), and a serialiser profile names no part that
    the serialiser fails to write (such a dangling target is a serialiser defect, counted by the harness as
    inherited from the eager save). -/
theorem C11_save_resolves (x : Book C) (ops : List (Op E))
    (hw : ∀ s ∈ (run cd x ops).sheets, SheetWritable s) :
    ∀ n ts, (n, Content.relsOf ts) ∈ (save cd (run cd x ops)).parts →
      ∀ t, some t ∈ ts → hasPart (save cd (run cd x ops)).parts t = true := by
  have h0 : Closed ({} : WM C) := by intro n ts hm; simp at hm
  have h := loop2_closed (run cd x ops).sheets 1 _ hw (loop1_closed (run cd x ops).sheets 1 _ hw h0)
  intro n ts hm t ht
  exact closed_has h hm ht

/- The full statement `C11_save` — the three clauses above AND, for every raw sheet, ITS relationships next to its sheet
   part, every part of its closure under its original name with the content of the package that was opened, and
   `relsHaveSource` — is proved for all histories in `Umya/Thm/C11Save.lean` from the package-consistency invariant
   (`C11_consistent_reachable`).  The former `C11_save_partial` (the conjunction of the three theorems above) is subsumed by it. -/

/-! ### the repaired defect, and the fixed code on the same witness -/

/-- two raw sheets; the second has a drawing; the first is removed before saving -/
def witnessBook : Book Nat :=
  { sheets := [⟨['A'], .raw ⟨.sheet 1, 1, []⟩⟩,
               ⟨['B'], .raw ⟨.sheet 2, 2, [⟨.rels (.sheet 2), [⟨false, .fam .drawing 1, 7, false⟩]⟩]⟩⟩] }

def witnessCodec : Codec Nat Nat :=
  { decode := fun r _ => { content := r.cid }, apply := fun _ l => l, fresh := { content := 0 },
    texts := fun _ => [], styles := fun _ => [], dxfs := fun _ => [] }

/-- Before the fix the copied sheet's relationships stayed under the old number: after `remove_sheet(0)` the
    sheet is written as sheet1.xml, its relationships as `_rels/sheet2.xml.rels` — a relationships part without
    a source part, and sheet1.xml without its relationships (replayed by the harness on every run:
    `reset corpus:aaa.xlsx; rmsheet 0; save`). -/
theorem C11_old_rels_fails :
    ¬ (∀ (b : Book Nat), relsHaveSource (saveWith witnessCodec true b).parts = true) := by
  intro h
  have := h (run witnessCodec witnessBook [.removeSheet 0])
  revert this
  decide

theorem C11_old_rels_lost :
    hasPart (saveWith witnessCodec true (run witnessCodec witnessBook [.removeSheet 0])).parts (.rels (.sheet 1)) = false ∧
    hasPart (saveWith witnessCodec true (run witnessCodec witnessBook [.removeSheet 0])).parts (.rels (.sheet 2)) = true := by
  decide

/-- the fixed writer on the same history: relationships next to the sheet, everything resolves -/
theorem C11_new_rels_witness :
    let s := save witnessCodec (run witnessCodec witnessBook [.removeSheet 0])
    hasPart s.parts (.rels (.sheet 1)) = true ∧ hasPart s.parts (.rels (.sheet 2)) = false ∧
    relsHaveSource s.parts = true ∧ closedParts s.parts = true := by
  decide

/-- non-vacuity of the hypotheses of `C11_save_sheet_parts`, and the skeleton checks on a mixed workbook:
    a raw sheet with a drawing + chart closure and a table, a deserialized sheet that asks for a drawing with a
    chart, comments, a table and an image, after a removal, an edit and a new sheet -/
example :
    let cd := witnessCodec
    let raw2 : RawSheet := ⟨.sheet 3, 2, [⟨.rels (.fam .drawing 1), [⟨false, .fam .chart 1, 8, false⟩]⟩,
                                          ⟨.rels (.sheet 3), [⟨false, .fam .drawing 1, 7, false⟩, ⟨false, .fam .table 1, 9, false⟩, ⟨true, .other [], 0, true⟩]⟩]⟩
    let x : Book Nat := { sheets := [⟨['A'], .raw ⟨.sheet 1, 1, []⟩⟩, ⟨['B'], .raw raw2⟩, ⟨['C'], .raw ⟨.sheet 2, 3, []⟩⟩] }
    let ops : List (Op Nat) := [.removeSheet 0, .edit 1 5, .newSheet ['N']]
    let b := run cd x ops
    let b' : Book Nat := { b with sheets := b.sheets.map (fun s => match s.body with
      | .loaded l => { s with body := .loaded { l with prof := [.node .drawing [.alloc .chart, .fixed (.other ['i'])], .leaf (.alloc .comment), .leaf (.alloc .table), .leaf .ext] } }
      | .raw _ => s) }
    let s := save cd b'
    (s.parts.map (·.1)) =
      [.sheet 1, .rels (.fam .drawing 1), .fam .chart 1, .rels (.sheet 1), .fam .drawing 1, .fam .table 1, .sheet 2, .sheet 3,
       .fam .chart 2, .other ['i'], .fam .drawing 2, .rels (.fam .drawing 2), .fam .comment 1, .fam .table 2, .rels (.sheet 2),
       .fam .chart 3, .fam .drawing 3, .rels (.fam .drawing 3), .fam .comment 2, .fam .table 3, .rels (.sheet 3)] ∧
    closedParts s.parts = true ∧ relsHaveSource s.parts = true := by
  decide

/-- the hypotheses `RawsOk`, the profile hypothesis and `SheetWritable` hold on a concrete mixed workbook -/
example :
    let raw2 : RawSheet := ⟨.sheet 3, 2, [⟨.rels (.fam .drawing 1), [⟨false, .fam .chart 1, 8, false⟩]⟩,
                                          ⟨.rels (.sheet 3), [⟨false, .fam .drawing 1, 7, false⟩, ⟨true, .other [], 0, true⟩]⟩]⟩
    let ss : List (Sheet Nat) := [⟨['B'], .raw raw2⟩, ⟨['C'], .loaded { content := 3, prof := [.node .drawing [.alloc .chart, .fixed (.other ['i'])], .leaf .ext] }⟩]
    RawsOk ss ∧ (∀ s ∈ ss, ∀ l, s.body = .loaded l → ∀ n ∈ profNames l.prof, NotSheet n) ∧ (∀ s ∈ ss, SheetWritable s) := by
  refine ⟨?_, ?_, ?_⟩
  · intro s hs r hr
    simp only [List.mem_cons, List.not_mem_nil, or_false] at hs
    rcases hs with rfl | rfl
    · injection hr with hr; subst hr
      intro n hn k
      simp [RawSheet.names] at hn
      rcases hn with rfl | rfl | rfl | rfl | rfl <;> simp
    · cases hr
  · intro s hs l hl n hn k
    simp only [List.mem_cons, List.not_mem_nil, or_false] at hs
    rcases hs with rfl | rfl
    · cases hl
    · injection hl with hl; subst hl
      simp [profNames, leafNames] at hn
      subst hn; simp
  · intro s hs
    simp only [List.mem_cons, List.not_mem_nil, or_false] at hs
    rcases hs with rfl | rfl
    · intro q hq r hr hext
      simp at hq
      rcases hq with rfl | rfl
      · simp at hr; subst hr; rfl
      · simp at hr; rcases hr with rfl | rfl
        · rfl
        · simp at hext
    · intro x hx
      simp at hx
      rcases hx with rfl | rfl
      · intro l hl; simp at hl; rcases hl with rfl | rfl <;> (intro n; simp)
      · intro n; simp

end Umya.Thm.C11
