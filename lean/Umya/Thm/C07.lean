/-
  C07 — Structural edits relocate content exactly like a reference grid.

  Concrete model: `Umya/Model/Sheet.lean` (cells, row table, column list) and
  `Umya/Model/Book.lean` (ranges, comments, conditional formats, auto-filter, workbook level).
  Reference semantics: `Umya/Spec/Grid.lean` (written from the property text).
  Helper lemmas: `Umya/Lemmas/{Refine,Refine2}.lean` on top of the C10 invariant.
-/
import Umya.Lemmas.ShiftGen
import Umya.Lemmas.Refine2
namespace Umya.Thm.C07
open Umya.Sheet Umya.Book Umya.Coord Umya.Spec.Grid

/-! ### cells: the concrete edit commutes with the reference edit through the abstraction -/

/-- Inserting `n ≥ 1` rows at `p` on a coherent sheet: every cell at or beyond row `p` moves down by
    exactly `n`, the band `[p, p+n)` is empty, everything before `p` is untouched
    (value and style travel with the cell). No panic: the operation is total. -/
theorem C07_insert_rows (s : Sheet) (h : Coherent s) (p n : Nat) (hn : n ≠ 0) :
    content (insertAdj s 0 0 p n) = insertRows (content s) p n := content_insertRows s h p n hn

theorem C07_insert_cols (s : Sheet) (h : Coherent s) (p n : Nat) (hn : n ≠ 0) :
    content (insertAdj s p n 0 0) = insertCols (content s) p n := content_insertCols s h p n hn

/-- Removing `n ≥ 1` rows at `p ≥ 1` never panics and deletes exactly the band: rows before `p`
    are untouched, row `r ≥ p` afterwards holds what row `r + n` held. -/
theorem C07_remove_rows (s : Sheet) (h : Coherent s) (p n : Nat) (hp : 1 ≤ p) (hn : n ≠ 0) :
    ∃ t, removeAdj s 0 0 p n = .ok t ∧ Coherent t ∧ content t = removeRows (content s) p n := by
  obtain ⟨t, ht⟩ := removeAdj_no_panic s 0 0 p n (Or.inr rfl) (Or.inl hp)
  exact ⟨t, ht, removeAdj_coherent s t 0 0 p n h ht, content_removeRows s t h p n hp hn ht⟩

theorem C07_remove_cols (s : Sheet) (h : Coherent s) (p n : Nat) (hp : 1 ≤ p) (hn : n ≠ 0) :
    ∃ t, removeAdj s p n 0 0 = .ok t ∧ Coherent t ∧ content t = removeCols (content s) p n := by
  obtain ⟨t, ht⟩ := removeAdj_no_panic s p n 0 0 (Or.inl hp) (Or.inr rfl)
  exact ⟨t, ht, removeAdj_coherent s t p n 0 0 h ht, content_removeCols s t h p n hp hn ht⟩

/-- Remove undoes insert (cells): after inserting `n` rows at `p` and removing `n` rows at `p`
    every position holds what it held before. -/
theorem C07_remove_undoes_insert_rows (s : Sheet) (h : Coherent s) (p n : Nat) (hp : 1 ≤ p) (hn : n ≠ 0) :
    ∃ t, removeAdj (insertAdj s 0 0 p n) 0 0 p n = .ok t ∧ content t = content s := by
  have hi := insertAdj_coherent s 0 0 p n h
  obtain ⟨t, ht, _, hc⟩ := C07_remove_rows (insertAdj s 0 0 p n) hi p n hp hn
  exact ⟨t, ht, by rw [hc, C07_insert_rows s h p n hn, removeRows_insertRows]⟩

theorem C07_remove_undoes_insert_cols (s : Sheet) (h : Coherent s) (p n : Nat) (hp : 1 ≤ p) (hn : n ≠ 0) :
    ∃ t, removeAdj (insertAdj s p n 0 0) p n 0 0 = .ok t ∧ content t = content s := by
  have hi := insertAdj_coherent s p n 0 0 h
  obtain ⟨t, ht, _, hc⟩ := C07_remove_cols (insertAdj s p n 0 0) hi p n hp hn
  exact ⟨t, ht, by rw [hc, C07_insert_cols s h p n hn, removeCols_insertCols]⟩

/-- No row 0 / column 0 is ever produced by a remove on an in-grid sheet (`p ≥ 1`): surviving
    coordinates stay ≥ 1. -/
theorem C07_remove_keeps_positive (s t : Sheet) (h : Coherent s) (p n : Nat) (hp : 1 ≤ p) (hn : n ≠ 0)
    (hpos : ∀ k ∈ keysOf s, 1 ≤ k.1 ∧ 1 ≤ k.2) (ht : removeAdj s 0 0 p n = .ok t) :
    ∀ k ∈ keysOf t, 1 ≤ k.1 ∧ 1 ≤ k.2 := by
  intro k hk
  have hne : ¬ ((0 : Nat) = 0 ∧ n = 0) := by omega
  simp only [keysOf, removeAdj_cells s t h 0 0 p n hne ht, List.map_map, List.mem_map, Function.comp] at hk
  obtain ⟨q, hq, e⟩ := hk
  subst e
  obtain ⟨hq1, hq2⟩ := List.mem_filter.1 hq
  have hq' := hpos q.1 (List.mem_map.2 ⟨q, hq1, rfl⟩)
  simp only [isRem_zero, Bool.false_or, Bool.not_eq_true'] at hq2
  unfold isRem at hq2
  have : p ≠ 0 ∧ n ≠ 0 := ⟨by omega, hn⟩
  rw [if_pos this] at hq2
  have hb : ¬ (q.1.1 ≥ p ∧ q.1.1 < p + n) := by simpa using hq2
  simp only [adjRemT_zero, adjRemT]
  constructor
  · split <;> omega
  · exact hq'.2

/-! ### rectangles (merged ranges, auto-filter, conditional-format ranges) on the edited axis -/

def fullRect (cs rs ce re : Nat) (l1 l2 l3 l4 : Bool) : Range :=
  { startCol := some ⟨cs, l1⟩, startRow := some ⟨rs, l2⟩, endCol := some ⟨ce, l3⟩, endRow := some ⟨re, l4⟩ }

/-- Insert: both row corners follow the reference interval, columns untouched. -/
theorem C07_range_insert_rows (cs rs ce re : Nat) (l1 l2 l3 l4 : Bool) (p n : Nat) (hn : n ≠ 0) :
    rangeInsert (fullRect cs rs ce re l1 l2 l3 l4) 0 0 p n =
      fullRect cs (intervalInsert rs re p n).1 ce (intervalInsert rs re p n).2 l1 l2 l3 l4 := by
  simp [rangeInsert, fullRect, refIns, adjIns, intervalInsert, hn]

theorem refRemStart_zero (r : Option Ref) : refRemStart r 0 0 = .ok r := by
  cases r with
  | none => rfl
  | some x => simp [refRemStart, isRem_zero, adjRem]

theorem refRemEnd_zero (r : Option Ref) : refRemEnd r 0 0 = .ok r := by
  cases r with
  | none => rfl
  | some x => simp [refRemEnd, isRem_zero, adjRem]

theorem refRemStart_some (x : Nat) (l : Bool) (p n : Nat) (hp : 1 ≤ p) (hn : n ≠ 0) :
    refRemStart (some ⟨x, l⟩) p n = .ok (some ⟨if x < p then x else if x < p + n then p else x - n, l⟩) := by
  have hz : p ≠ 0 ∧ n ≠ 0 := ⟨by omega, hn⟩
  have hrem : isRem x p n = decide (x ≥ p ∧ x < p + n) := by unfold isRem; rw [if_pos hz]
  unfold refRemStart
  simp only [hrem]
  by_cases a1 : x < p
  · have x1 : ¬ (decide (x ≥ p ∧ x < p + n) = true) := by simp only [decide_eq_true_eq]; omega
    have x2 : ¬ (x ≥ p ∧ n ≠ 0) := by omega
    rw [if_neg x1]; unfold adjRem; rw [if_neg x2, if_pos a1]
  · by_cases a2 : x < p + n
    · have x1 : decide (x ≥ p ∧ x < p + n) = true := by simp only [decide_eq_true_eq]; omega
      rw [if_pos x1, if_neg a1, if_pos a2]
    · have x1 : ¬ (decide (x ≥ p ∧ x < p + n) = true) := by simp only [decide_eq_true_eq]; omega
      have x2 : (x ≥ p ∧ n ≠ 0) := ⟨by omega, hn⟩
      have x3 : n ≤ x := by omega
      rw [if_neg x1]; unfold adjRem; rw [if_pos x2, if_pos x3, if_neg a1, if_neg a2]

theorem refRemEnd_some (x : Nat) (l : Bool) (p n : Nat) (hp : 1 ≤ p) (hn : n ≠ 0) :
    refRemEnd (some ⟨x, l⟩) p n = .ok (some ⟨if x < p then x else if x < p + n then p - 1 else x - n, l⟩) := by
  have hz : p ≠ 0 ∧ n ≠ 0 := ⟨by omega, hn⟩
  have hrem : isRem x p n = decide (x ≥ p ∧ x < p + n) := by unfold isRem; rw [if_pos hz]
  unfold refRemEnd
  simp only [hrem]
  by_cases a1 : x < p
  · have x1 : ¬ (decide (x ≥ p ∧ x < p + n) = true) := by simp only [decide_eq_true_eq]; omega
    have x2 : ¬ (x ≥ p ∧ n ≠ 0) := by omega
    rw [if_neg x1]; unfold adjRem; rw [if_neg x2, if_pos a1]
  · by_cases a2 : x < p + n
    · have x1 : decide (x ≥ p ∧ x < p + n) = true := by simp only [decide_eq_true_eq]; omega
      rw [if_pos x1, if_neg a1, if_pos a2]
    · have x1 : ¬ (decide (x ≥ p ∧ x < p + n) = true) := by simp only [decide_eq_true_eq]; omega
      have x2 : (x ≥ p ∧ n ≠ 0) := ⟨by omega, hn⟩
      have x3 : n ≤ x := by omega
      rw [if_neg x1]; unfold adjRem; rw [if_pos x2, if_pos x3, if_neg a1, if_neg a2]

/-- Remove: the range disappears exactly when the reference interval does, otherwise its row
    corners are the reference interval's (shrunk when it straddles the band); no panic. -/
theorem C07_range_remove_rows (cs rs ce re : Nat) (l1 l2 l3 l4 : Bool) (p n : Nat) (hp : 1 ≤ p) (hn : n ≠ 0) :
    (rangeIsRemove (fullRect cs rs ce re l1 l2 l3 l4) 0 0 p n = (intervalRemove rs re p n).isNone) ∧
    (∀ i, intervalRemove rs re p n = some i →
      rangeRemove (fullRect cs rs ce re l1 l2 l3 l4) 0 0 p n = .ok (fullRect cs i.1 ce i.2 l1 l2 l3 l4)) := by
  have hz : p ≠ 0 ∧ n ≠ 0 := ⟨by omega, hn⟩
  have hrem : ∀ x, isRem x p n = decide (x ≥ p ∧ x < p + n) := by
    intro x; unfold isRem; rw [if_pos hz]
  constructor
  · simp only [rangeIsRemove, fullRect, axisInside, isRem_zero, Bool.and_self, Bool.false_or, hrem, intervalRemove]
    by_cases h1 : (p ≤ rs ∧ rs < p + n) ∧ (p ≤ re ∧ re < p + n)
    · rw [if_pos h1]; simp; omega
    · rw [if_neg h1]; simp; omega
  · intro i hi
    unfold intervalRemove at hi
    split at hi
    · simp at hi
    · injection hi with hi; subst hi
      simp only [rangeRemove, fullRect, refRemStart_zero, refRemEnd_zero,
        refRemStart_some rs l2 p n hp hn, refRemEnd_some re l4 p n hp hn]

/-- the same for columns -/
theorem C07_range_remove_cols (cs rs ce re : Nat) (l1 l2 l3 l4 : Bool) (p n : Nat) (hp : 1 ≤ p) (hn : n ≠ 0) :
    (rangeIsRemove (fullRect cs rs ce re l1 l2 l3 l4) p n 0 0 = (intervalRemove cs ce p n).isNone) ∧
    (∀ i, intervalRemove cs ce p n = some i →
      rangeRemove (fullRect cs rs ce re l1 l2 l3 l4) p n 0 0 = .ok (fullRect i.1 rs i.2 re l1 l2 l3 l4)) := by
  have hz : p ≠ 0 ∧ n ≠ 0 := ⟨by omega, hn⟩
  have hrem : ∀ x, isRem x p n = decide (x ≥ p ∧ x < p + n) := by
    intro x; unfold isRem; rw [if_pos hz]
  constructor
  · simp only [rangeIsRemove, fullRect, axisInside, isRem_zero, Bool.and_self, Bool.or_false, hrem, intervalRemove]
    by_cases h1 : (p ≤ cs ∧ cs < p + n) ∧ (p ≤ ce ∧ ce < p + n)
    · rw [if_pos h1]; simp; omega
    · rw [if_neg h1]; simp; omega
  · intro i hi
    unfold intervalRemove at hi
    split at hi
    · simp at hi
    · injection hi with hi; subst hi
      simp only [rangeRemove, fullRect, refRemStart_zero, refRemEnd_zero,
        refRemStart_some cs l1 p n hp hn, refRemEnd_some ce l3 p n hp hn]

/-- The defect that was repaired: with the unrepaired `is_remove` rule (all four corners must lie in
    the band of *both* axes) a merged range inside a removed row band is never deleted. -/
theorem C07_old_rule_fails :
    let ρ := fullRect 2 3 4 3 false false false false
    -- rows 3..3 removed: the reference deletes the range …
    intervalRemove 3 3 3 1 = none ∧
    -- … the old conjunction over both axes does not (the column axis is never "in the band")
    (isRem 2 0 0 && isRem 3 3 1 && isRem 4 0 0 && isRem 3 3 1) = false ∧
    -- … the repaired rule does
    rangeIsRemove ρ 0 0 3 1 = true := by decide

/-! ### other sheets are untouched by a workbook-level edit (after the fix) -/

theorem modifyNth_other {α} (l : List α) (i j : Nat) (f : α → α) (h : i ≠ j) :
    (modifyNth l i f)[j]? = l[j]? := by
  induction l generalizing i j with
  | nil => simp [modifyNth]
  | cons x xs ih =>
    cases i with
    | zero =>
      cases j with
      | zero => exact absurd rfl h
      | succ j => simp [modifyNth]
    | succ i =>
      cases j with
      | zero => simp [modifyNth]
      | succ j => simp only [modifyNth, List.getElem?_cons_succ]; exact ih i j (by omega)

theorem C07_other_sheets_untouched (b : Book) (i j : Nat) (h : i ≠ j) (rc oc rr or_ : Nat) :
    (bookInsert b i rc oc rr or_).sheets[j]? = b.sheets[j]? ∧
    (∀ b', bookRemove b i rc oc rr or_ = .ok b' → b'.sheets[j]? = b.sheets[j]?) := by
  constructor
  · exact modifyNth_other _ _ _ _ h
  · intro b' hb
    unfold bookRemove at hb
    split at hb
    · injection hb with hb; subst hb; rfl
    · split at hb
      · injection hb with hb; subst hb; exact modifyNth_other _ _ _ _ h
      · simp at hb

/-! ### non-vacuity -/

example : ∃ s, run {} [.setVal 2 3 7, .setCell 5 1 4 2, .setVal 2 9 1] = .ok s ∧ Coherent s ∧
    content s 3 2 = some (7, 0) ∧ content (insertAdj s 0 0 2 2) 5 2 = some (7, 0) ∧ content (insertAdj s 0 0 2 2) 3 2 = none := by
  refine ⟨_, rfl, run_coherent [.setVal 2 3 7, .setCell 5 1 4 2, .setVal 2 9 1] {} _ coherent_empty rfl, ?_, ?_, ?_⟩ <;> decide

example : intervalRemove 2 5 3 2 = some (2, 3) ∧ intervalRemove 3 4 3 2 = none ∧ intervalRemove 4 9 3 2 = some (3, 7) := by decide

/-- (T) The scalar shift kernels as they stand in the Rust source NOW (regenerated by the translator
    on this run) are the ones the model uses: every theorem of this file that mentions
    `adjIns / adjRem / isRem / adjInsV / adjRemV / isRemV` is a theorem about the current source's kernels. -/
theorem C07_kernels_match_source (n r o : Nat) :
    Umya.Gen.adjustment_insert_coordinate n r o = .ok (Umya.Sheet.adjIns n r o) ∧
    Umya.Gen.adjustment_remove_coordinate n r o = Umya.Sheet.adjRem n r o ∧
    Umya.Gen.is_remove_coordinate n r o = .ok (Umya.Sheet.isRem n r o) ∧
    Umya.Gen.row_adjustment_insert_value n r o = .ok (Umya.Sheet.adjInsV n r o) ∧
    Umya.Gen.row_adjustment_remove_value n r o = Umya.Sheet.adjRemV n r o ∧
    Umya.Gen.row_is_remove_value n r o = Umya.Sheet.isRemV n r o ∧
    Umya.Gen.column_adjustment_insert_value n r o = .ok (Umya.Sheet.adjInsV n r o) ∧
    Umya.Gen.column_adjustment_remove_value n r o = Umya.Sheet.adjRemV n r o ∧
    Umya.Gen.column_is_remove_value n r o = Umya.Sheet.isRemV n r o :=
  ⟨Umya.Gen.gen_insert n r o, Umya.Gen.gen_remove n r o, Umya.Gen.gen_is_remove n r o,
   Umya.Gen.gen_row_insert n r o, Umya.Gen.gen_row_remove n r o, Umya.Gen.gen_row_is_remove n r o,
   Umya.Gen.gen_col_insert n r o, Umya.Gen.gen_col_remove n r o, Umya.Gen.gen_col_is_remove n r o⟩

end Umya.Thm.C07
