/-
  C19 — the cell-level decision of `Cell::get_formatted_value` (model: `Umya/Model/NumFmtCell.lean`).

  What the code does, stated exactly: the ONLY thing `get_formatted_value` looks at is `get_value_number()`, i.e. whether
  the raw value is `CellRawValue::Numeric`.  Neither the presence of a formula nor the data type (`t=`) enters.
    * String, RichText, Bool, Error: text; shown as `Display` prints them (`TRUE` / `FALSE`, `#DIV/0!` …), whatever the code;
    * Empty: the empty string, whatever the code;
    * Lazy (a value stored by `set_value_lazy`, not yet resolved by `get_value_lazy`): `Display` has no arm for it, the cell
      shows the EMPTY string — its stored text is not shown (this is what the code does; stated, not judged);
    * Numeric (with or without a formula): `to_formatted_string(Display text of the f64, code or General)`.
-/
import Umya.Model.NumFmtCell
import Umya.Model.Gen.Fns
import Umya.Thm.C19
namespace Umya.Thm.C19
open Umya.NumFmt

/-- **Text cells are shown unchanged.**  For EVERY raw value that is not `Numeric` — with or without a formula — and EVERY
    format code (also none at all), `get_formatted_value` returns `get_value()`; per kind: a string its text, a rich text
    the text of its runs, a string result under a formula the same, a bool `TRUE` / `FALSE`, an error its `#…` text,
    an empty cell and an unresolved lazy value the empty string.  No code is consulted, so no formatter can panic. -/
theorem C19_cell_text_unchanged (raw : Raw) (formula : Bool) (code : Option (List Char))
    (h : ∀ n, raw ≠ .numeric n) :
    getFormattedValue ⟨raw, formula⟩ code = some (getValue ⟨raw, formula⟩) ∧
    (∀ v, raw = .string v → getFormattedValue ⟨raw, formula⟩ code = some v) ∧
    (∀ t, raw = .richText t → getFormattedValue ⟨raw, formula⟩ code = some t) ∧
    (∀ b, raw = .bool b → getFormattedValue ⟨raw, formula⟩ code = some (if b then "TRUE".toList else "FALSE".toList)) ∧
    (∀ e, raw = .error e → getFormattedValue ⟨raw, formula⟩ code = some (errDisplay e)) ∧
    (raw = .empty → getFormattedValue ⟨raw, formula⟩ code = some []) ∧
    (∀ v, raw = .lazy v → getFormattedValue ⟨raw, formula⟩ code = some []) := by
  cases raw with
  | numeric n => exact absurd rfl (h n)
  | string v => simp [getFormattedValue, getValue, getValueNumber, rawGetNumber, rawDisplay]
  | richText t => simp [getFormattedValue, getValue, getValueNumber, rawGetNumber, rawDisplay]
  | lazy v => simp [getFormattedValue, getValue, getValueNumber, rawGetNumber, rawDisplay]
  | bool b => simp [getFormattedValue, getValue, getValueNumber, rawGetNumber, rawDisplay]
  | error e => simp [getFormattedValue, getValue, getValueNumber, rawGetNumber, rawDisplay]
  | empty => simp [getFormattedValue, getValue, getValueNumber, rawGetNumber, rawDisplay]

-- non-vacuity: numeric-looking text, text under a formula, rich text, bool, error, empty, lazy, each under a numeric code
example : getFormattedValue ⟨.string "1.50".toList, false⟩ (some "0.0".toList) = some "1.50".toList := by decide
example : getFormattedValue ⟨.string "007".toList, true⟩ (some "#,##0.00".toList) = some "007".toList := by decide
example : getFormattedValue ⟨.richText "12".toList, false⟩ (some "0.00".toList) = some "12".toList := by decide
example : getFormattedValue ⟨.bool true, false⟩ (some "0.00".toList) = some "TRUE".toList := by decide
example : getFormattedValue ⟨.error .div0, true⟩ (some "0%".toList) = some "#DIV/0!".toList := by decide
example : getFormattedValue ⟨.empty, false⟩ (some "0.00".toList) = some [] := by decide
/-- the stored text of an unresolved lazy value is NOT shown -/
example : getFormattedValue ⟨.lazy "abc".toList, false⟩ none = some [] := by decide

/-- **Numbers under General.**  A numeric cell (with or without a formula) whose number's text is a shortest decimal text
    (`isShortestText`: the shape `f64::to_string` prints, ≤ 15 significant digits) shows exactly that text under `General`,
    under no number format at all, and under `@` (by `C19_general`). -/
theorem C19_cell_number_general (n : List Char) (formula : Bool) (h : isShortestText n = true) :
    getFormattedValue ⟨.numeric n, formula⟩ (some general) = some n ∧
    getFormattedValue ⟨.numeric n, formula⟩ none = some n ∧
    getFormattedValue ⟨.numeric n, formula⟩ (some textCode) = some n := by
  have hc : classify n ≠ .otherNumeric := by
    unfold classify
    split
    · simp
    · split
      · simp
      · simp
  have hg := C19_general n hc
  simp [getFormattedValue, getValue, getValueNumber, rawGetNumber, rawDisplay, hg.1, hg.2]

example : isShortestText "-1234.5678".toList = true := by decide
example : getFormattedValue ⟨.numeric "-1234.5678".toList, true⟩ none = some "-1234.5678".toList := by decide

/-- **Dispatch.**  `get_formatted_value` is `to_formatted_string (Display text of the number) (the cell's code, General
    if it has none)` exactly for `Numeric` raw values and `get_value()` for every other kind; a cell reaches the formatter
    iff its raw value is `Numeric` iff the data type the writer uses (`get_data_type_crate`) is `n` — whether or not
    there is a formula. -/
theorem C19_cell_dispatch (c : CellV) (code : Option (List Char)) :
    getFormattedValue c code =
      (match c.raw with
       | .numeric n => (match code with
                        | some f => toFormattedString n f
                        | none => toFormattedString n general)
       | r => some (rawDisplay r)) ∧
    (reachesFormatter c = true ↔ ∃ n, c.raw = .numeric n) ∧
    (reachesFormatter c = true ↔ getDataTypeCrate c = ['n']) ∧
    reachesFormatter c = reachesFormatter ⟨c.raw, !c.formula⟩ := by
  obtain ⟨raw, formula⟩ := c
  cases raw <;> cases formula <;> cases code <;>
    simp [getFormattedValue, getValue, getValueNumber, rawGetNumber, rawDisplay, reachesFormatter, getDataTypeCrate,
          rawGetDataType]

example : reachesFormatter ⟨.numeric "1.5".toList, true⟩ = true ∧ reachesFormatter ⟨.string "1.5".toList, true⟩ = false ∧
    reachesFormatter ⟨.bool true, false⟩ = false ∧ reachesFormatter ⟨.lazy "1.5".toList, false⟩ = false := by decide
example : getFormattedValue ⟨.numeric "1234.5".toList, true⟩ (some "#,##0.00".toList) = some "1,234.50".toList := by decide

/-- tag of a model raw value in the enum translated from the source -/
def tagOfRaw : Raw → Umya.Gen.CellRawValue_tag
  | .string _ => .String | .richText _ => .RichText | .lazy _ => .Lazy | .numeric _ => .Numeric
  | .bool _ => .Bool | .error _ => .Error | .empty => .Empty

/-- **Tie to the source (data type functions).**  The model's `rawGetDataType` / `getDataTypeCrate` equal the functions
    compiled from the current source (`CellRawValue::get_data_type`, `CellValue::get_data_type_crate`) on every cell,
    and every variant of the `CellRawValue` declaration has a model value. -/
theorem C19_cell_datatype_matches_source :
    (∀ r : Raw, Umya.Gen.raw_get_data_type (tagOfRaw r) = rawGetDataType r) ∧
    (∀ c : CellV, Umya.Gen.get_data_type_crate (tagOfRaw c.raw) (if c.formula then some () else none) = getDataTypeCrate c) ∧
    (∀ t : Umya.Gen.CellRawValue_tag, ∃ r : Raw, tagOfRaw r = t) := by
  refine ⟨?_, ?_, ?_⟩
  · intro r; cases r <;> rfl
  · intro c; obtain ⟨raw, formula⟩ := c; cases raw <;> cases formula <;> rfl
  · intro t
    cases t
    · exact ⟨.string [], rfl⟩
    · exact ⟨.richText [], rfl⟩
    · exact ⟨.lazy [], rfl⟩
    · exact ⟨.numeric [], rfl⟩
    · exact ⟨.bool true, rfl⟩
    · exact ⟨.error .div0, rfl⟩
    · exact ⟨.empty, rfl⟩

example : Umya.Gen.get_data_type_crate (tagOfRaw (.numeric "1".toList)) (some ()) = ['n'] := by decide

/-- **Tie to the source (the decision itself).**  `Cell::get_formatted_value`, compiled to Lean from the CURRENT source on
    every run (`Umya.Gen.cell_get_formatted_value`: its inputs are what the getters it calls return — `self.get_value()`,
    `self.get_value_number()`, the code of `self.get_style().get_number_format()` — and `to_formatted_string` as a function
    that may fail), instantiated with the model's `getValue`, `getValueNumber` and `toFormattedString`, IS the hand model
    `getFormattedValue`, for every cell, every optional code.  (`get_value_number`, `CellRawValue::get_number` and the two
    `Display` impls are not translated: hand model, tied by the `cellk` stream.) -/
theorem C19_cell_formatted_value_matches_source (c : CellV) (code : Option (List Char)) (hl : Option Unit) :
    Umya.Gen.cell_get_formatted_value (List Char) code toFormattedString (getValueNumber c) (getValue c) hl =
      getFormattedValue c code := by
  unfold Umya.Gen.cell_get_formatted_value getFormattedValue
  cases hn : getValueNumber c with
  | none => simp
  | some n =>
    cases code with
    | none => cases ht : toFormattedString (getValue c) general <;> simp [general] at ht ⊢
    | some f => cases ht : toFormattedString (getValue c) f <;> simp [ht]

example : Umya.Gen.cell_get_formatted_value (List Char) (some "0.00".toList) toFormattedString
    (getValueNumber ⟨.numeric "2.675".toList, false⟩) (getValue ⟨.numeric "2.675".toList, false⟩) none = some "2.68".toList := by decide
example : Umya.Gen.cell_get_formatted_value (List Char) (some "0.00".toList) toFormattedString
    (getValueNumber ⟨.string "2.675".toList, false⟩) (getValue ⟨.string "2.675".toList, false⟩) none = some "2.675".toList := by decide

end Umya.Thm.C19
