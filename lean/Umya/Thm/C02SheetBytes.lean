/-
  C02 — one worksheet, from CHARACTERS to the decoded sheet; and the sheet's cell writer is C01's.

  `C02_sheet_decodes` (Thm/C02Sheet.lean) is about element trees; `C02_bytes_parse_tree` (Thm/C02Bytes.lean)
  goes from the characters the tag-level writer model emits to the tree.  Here they are composed: the
  package part of a sheet is what the independent XML reader returns on the CHARACTERS
  `renderDoc (ofNode … root)` of the rendered `<worksheet>` (and likewise for the relationships part), and the
  independent decoder returns the sheet.  What the composition needs and the pieces did not have:
  the rendered trees are in the reader's normal form (`renderSheet_isNF`, `relsRoot_isNF`, from
  `cellNode_isNF`), so `parse` returns them exactly.

  Hypotheses that stay (all decidable, all evaluated by the tie on every real part): the frame hypotheses of
  `C02_sheet_decodes`; `Frame.nf` / `isNFKids rest` (the opaque children are themselves in normal form — any
  tree an XML reader delivered is); `wfNodes` of the two trees (names are XML Names, attribute names distinct,
  every character of every value and text is an XML 1.0 `Char` — the character-legality clause of C02, which
  `write_*` does not enforce: see the known finding on control characters).
-/
import Umya.Lemmas.SheetNodeNF
import Umya.Thm.C02Bytes
import Umya.Thm.C02Sheet
namespace Umya.Thm.C02
open Umya.CellXml Umya.CellNode Umya.SheetNode Umya.Num Umya.XmlWrite
open Umya.Spec.Sml (decodeSheet relsOf relsNameOf Package Part)
open Umya.Spec.Xml (Node Attr parse)

/-- a package part as the reader side builds it from the characters of an XML part (`Driver/C02.lean`):
    the tree is whatever the independent XML reader returns -/
def partOfChars (name : String) (cs : List Char) : Part := { name := name, xml := parse cs, isXml := true }

/-- **(b)** THE SHEET'S CELL WRITER IS C01's.  The row loop of worksheet.rs threads the shared-string table
    through the rows; for a well-formed sheet that is `writeCells` (the writer C01 proves the round trip for and
    ties to the code) on the sheet's cells in order: same final table, and the `<c>` facts of the rows,
    concatenated, are exactly its facts; each written row carries its row-table entry and its cells. -/
theorem C02_rows_are_cells (F : NumFmt) (tbl : Table) (s : SheetW F.Num) (hwf : s.WF) (t : Table) (ws : List (RowX F.Num))
    (h : writeRows F tbl (rowGroups s.rows s.cells) = some (t, ws)) :
    writeCells F tbl s.cells = some (t, ws.flatMap (·.xs)) ∧ ws.map (·.row) = s.rows ∧ ws.flatMap (·.cells) = s.cells := by
  obtain ⟨h1, h2⟩ := writeRows_eq_writeCells F _ tbl t ws h
  rw [rowGroups_cells F s hwf] at h1
  refine ⟨h1, ?_, ?_⟩
  · have := congrArg (List.map (·.1)) h2
    rw [rowGroups_rows, List.map_map] at this
    exact this
  · have := congrArg (List.flatMap (·.2)) h2
    rw [rowGroups_cells F s hwf, List.flatMap_map] at this
    exact this

/-- … and conversely the row loop writes whenever `writeCells` does -/
theorem C02_cells_are_rows (F : NumFmt) (tbl : Table) (s : SheetW F.Num) (hwf : s.WF) (t : Table) (xs : List CellX)
    (h : writeCells F tbl s.cells = some (t, xs)) :
    ∃ ws, writeRows F tbl (rowGroups s.rows s.cells) = some (t, ws) ∧ ws.flatMap (·.xs) = xs := by
  rw [← rowGroups_cells F s hwf] at h
  exact writeRows_of_writeCells F _ tbl t xs h

/-- the rendered `<worksheet>` and `<Relationships>` trees are in the reader's normal form -/
theorem C02_sheet_normal_form (F : NumFmt) (xf : List Char → Nat) (fr : Frame) (tbl : Table) (s : SheetW F.Num)
    (tbl' : Table) (root : Node) (h : renderSheet F xf fr tbl s = some (tbl', root)) (hfr : fr.ok = true) (hnf : fr.nf = true)
    (rest : List Node) (hrest : isNFKids rest = true) :
    isNF root = true ∧ ∀ rr, relsRoot s.links rest = some rr → isNF rr = true :=
  ⟨renderSheet_isNF F xf fr tbl s tbl' root h hfr hnf, fun rr hr => relsRoot_isNF s.links rest rr hr hrest⟩

/-- **THE SHEET, FROM CHARACTERS.**  For every well-formed sheet `s` that the model of worksheet.rs writes
    (`renderSheet`), in every package whose part `path` is what the independent XML reader returns on the
    characters of the rendered worksheet part (`renderDoc (ofNode sc root)`: XML declaration, new line, the tree
    written through `write_start_tag` / `write_text_node` / `write_end_tag`, childless elements in either form) and
    whose part `relsNameOf path` is, likewise, the reading of the characters of the rendered relationships part
    (absent when there is no relationship), the independent decoder returns exactly the sheet — cells, merged
    ranges, hyperlinks with their targets, row table — and NO diagnostic, against every later state of the
    shared-string table. -/
theorem C02_sheet_bytes_decode (F : NumFmt) (xf : List Char → Nat) (fr : Frame) (tbl : Table) (s : SheetW F.Num) (hwf : s.WF)
    (tbl' : Table) (root : Node) (h : renderSheet F xf fr tbl s = some (tbl', root))
    (nXf nDxf : Nat) (hn : 0 < nXf) (hxf : ∀ ref, xf ref < nXf) (rest : List Node)
    (hfr : fr.ok = true) (hcols : fr.colsOk nXf = true) (hdxf : fr.dxfOk nDxf = true)
    (hrid : fr.ridsOk (relIds (relWalk 1 s.links ++ rest)) = true)
    (hnf : fr.nf = true) (hrestnf : isNFKids rest = true)
    (hchars : wfNodes [root] = true) (hrelchars : ∀ rr, relsRoot s.links rest = some rr → wfNodes [rr] = true)
    (sc sc' : Bool) (p : Package) (path : String)
    (hp : p.part? path = some (partOfChars path (renderDoc (ofNode sc root))))
    (hr : p.part? (relsNameOf path) = (relsRoot s.links rest).map (fun rr => partOfChars (relsNameOf path) (renderDoc (ofNode sc' rr)))) :
    ∀ sst : Table, Extends sst tbl' →
      decodeSheet p path (sst.map itemText) nXf nDxf =
        ({ cells := cellViews F xf s.cells, merges := s.merges, links := s.links.map linkView,
           cols := colVsOf fr.colNodes, rows := s.rows.map rowView, tables := [], noR := false }, []) := by
  obtain ⟨sd, _, _, hroot⟩ := renderSheet_shape F xf fr tbl s tbl' root h
  have hrootnf := renderSheet_isNF F xf fr tbl s tbl' root h hfr hnf
  have hp' : (p.part? path).bind (·.xml) = some root := by
    rw [hp]
    show parse (renderDoc (ofNode sc root)) = some root
    subst hroot
    exact C02_bytes_parse_tree sc _ _ _ hchars hrootnf
  have hr' : (p.part? (relsNameOf path)).bind (·.xml) = relsRoot s.links rest := by
    rw [hr]
    cases hrr : relsRoot s.links rest with
    | none => rfl
    | some rr =>
      show parse (renderDoc (ofNode sc' rr)) = some rr
      have hnfr := relsRoot_isNF s.links rest rr hrr hrestnf
      have hwr := hrelchars rr hrr
      unfold relsRoot at hrr
      split at hrr
      · cases hrr
      · cases hrr
        exact C02_bytes_parse_tree sc' _ _ _ hwr hnfr
  exact C02_sheet_decodes F xf fr tbl s hwf tbl' root h nXf nDxf hn hxf rest hfr hcols hdxf hrid p path hp' hr'

/-! ### non-vacuity: the demo sheet and frame of Thm/C02Sheet.lean -/

example : demoFrame.nf = true ∧ isNFKids demoRest = true := by
  simp [demoFrame, demoRest, Frame.nf, isNFKids, nRelationship]

example : ∃ tbl' root, renderSheet demoFS (fun _ => 2) demoFrame [] demoSheet = some (tbl', root) ∧ isNF root = true := by
  obtain ⟨tbl', root, h⟩ := C02_sheet_written demoFS (fun _ => 2) demoFrame [] demoSheet (by decide)
  exact ⟨tbl', root, h, renderSheet_isNF demoFS _ demoFrame [] demoSheet tbl' root h (by decide) (by simp [demoFrame, Frame.nf, isNFKids])⟩

/-- the characters of the demo relationships part are XML characters, its names are Names -/
example : ∀ rr, relsRoot demoSheet.links demoRest = some rr → wfNodes [rr] = true := by
  intro rr h
  have : relsRoot demoSheet.links demoRest = some (Node.elem nRelationships [⟨['x', 'm', 'l', 'n', 's'], relNs⟩] (relWalk 1 demoSheet.links ++ demoRest)) := by
    unfold relsRoot
    rw [if_neg (by simp [demoSheet, relWalk])]
  rw [this] at h
  cases h
  have e2 : rIdText (1 + 1) = ['r', 'I', 'd', '2'] := rIdText_2
  have e3 : rIdText (1 + 1 + 1) = ['r', 'I', 'd', '3'] := rIdText_3
  simp only [demoSheet, demoRest, relWalk, relNode, rIdText_1, e2, e3, List.cons_append, List.nil_append, wfNodes,
    Bool.false_eq_true, if_false, if_true]
  decide

end Umya.Thm.C02
