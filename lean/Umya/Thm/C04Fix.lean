/-
  C04 — re-saving is stable, as a theorem family composed from the codec models of C01 / C05 / C06.

  `Umya/Lemmas/Resave.lean` states the argument ONCE: a codec is `(rs, norm, WF)` with `rs x = some (norm x)` on
  well-formed values, `norm` idempotent, and `WF` closed under `norm`; then generation 1 is `norm x`, generation 2 IS
  generation 1 (`Codec.fixpoint`, `Codec.gens_succ`), and every observation that does not see `norm` shows on
  generation 1 what it showed on the original.  Below, every concrete codec model of the framework is made an
  instance — `rt` is the EXISTING round-trip theorem of C01 / C05 / C06 (cited, not re-proved); `closed` (closure of
  the hypotheses of those theorems under `norm`) is what is new (`Lemmas/Resave{Style,Annot,Cells,Cf}.lean`) — and one
  theorem `C04_fixpoint_<family>` per family spells the result out on the model's own functions.
  Then `BookP` collects the families for a whole workbook (any number of sheets, cells, style components,
  annotations): `C04_workbook_fixpoint`, `C04_edit_local_book`, `C04_save_pure_book`.

  What is a theorem here is a theorem about the MODELS (tied to the crate by the correspondence checks of C01 / C05 /
  C06 and by the `c04 norm` requests of this property's check).  Families without a model (drawings, charts, images,
  theme, pivot tables, tables, VBA, print settings blobs, rich-text comment bodies, column/row style indices through the
  style tables) are covered by the three-generation oracle of the harness only.
-/
import Umya.Lemmas.Resave
import Umya.Lemmas.ResaveStyle
import Umya.Lemmas.ResaveAnnot
import Umya.Lemmas.ResaveCells
import Umya.Lemmas.ResaveCf
import Umya.Thm.C01
import Umya.Thm.C05Codec
import Umya.Thm.C06
import Umya.Thm.C06Codec
import Umya.Thm.C04
namespace Umya.Thm.C04
open Umya.Resave

/-! ## 1. the generic statement -/

/-- **Generic.**  For any codec `(rs, norm, WF)` as above and any well-formed `x`: generation 1 is `norm x`,
    generation 2 is generation 1 (a fixed point), generation 1 is well-formed again, and an observation `P` with
    `P ∘ norm = P` (on well-formed values) gives on generation 1 what it gave on `x`. -/
theorem C04_fixpoint_generic {X : Type} (c : Codec X) (x : X) (h : c.WF x) :
    ∃ g1, c.rs x = some g1 ∧ g1 = c.norm x ∧ c.rs g1 = some g1 ∧ c.WF g1 ∧
      ∀ {O : Type} (P : X → O), (∀ y, c.WF y → P (c.norm y) = P y) → P g1 = P x :=
  c.fixpoint x h

/-- … and so is every later generation: `n + 1` saves and loads give `norm x`, for every `n`. -/
theorem C04_generations {X : Type} (c : Codec X) (x : X) (h : c.WF x) (n : Nat) : c.gens (n + 1) x = some (c.norm x) :=
  c.gens_succ x h n

/-! ## 2. style components (models: `Umya/Model/StyleCodec.lean`; round trips: `Umya/Thm/C05Codec.lean`) -/

section Styles
open Umya.StyleCodec Umya.Thm.C05

def colorCodec (cf : Tok → Tok) : Codec Color :=
  { rs := fun c => Color.readInto cf {} c.attrs, norm := Color.norm, WF := fun c => c.Range cf
    rt := fun c h => (C05_color_codec cf c h).1, idem := fun c _ => Color.norm_idem c
    closed := fun c h => Color.norm_range cf c h }

/-- colour: the written form survives, and it is in one of the setters' forms from generation 1 on -/
theorem C04_fixpoint_color (cf : Tok → Tok) (c : Color) (h : c.Range cf) :
    Color.readInto cf {} c.attrs = some c.norm ∧ Color.readInto cf {} c.norm.attrs = some c.norm ∧
    c.norm.Range cf ∧ c.norm.OneForm = true ∧ (c.OneForm = true → c.norm.eff = c.eff) := by
  obtain ⟨g1, e1, rfl, e2, hwf, _⟩ := (colorCodec cf).fixpoint c h
  exact ⟨e1, e2, hwf, Color.norm_oneForm c, fun h1 => by rw [Color.norm_of_oneForm c h1]⟩

def fontCodec (cf : Tok → Tok) : Codec Font :=
  { rs := fun f => Font.read cf f.write, norm := Font.norm, WF := fun f => f.Range cf
    rt := fun f h => (C05_font_codec cf f h).1, idem := fun f _ => Font.norm_idem f
    closed := fun f h => Font.norm_range cf f h }

/-- font: every storable font (any texts, numbers in their Rust types, float texts); the getters' view (`eff`) is the
    original's when the colour is in one of the setters' forms — which it is from generation 1 on -/
theorem C04_fixpoint_font (cf : Tok → Tok) (f : Font) (h : f.Range cf) :
    Font.read cf f.write = some f.norm ∧ Font.read cf f.norm.write = some f.norm ∧ f.norm.Range cf ∧
    f.norm.color.OneForm = true ∧ (f.color.OneForm = true → f.norm.eff = f.eff) := by
  obtain ⟨g1, e1, rfl, e2, hwf, _⟩ := (fontCodec cf).fixpoint f h
  exact ⟨e1, e2, hwf, Font.norm_oneForm f, Font.eff_norm f⟩

def fillCodec (cf : Tok → Tok) (hz : cf zeroTok = zeroTok) : Codec Fill :=
  { rs := fun f => Fill.read cf f.write, norm := Fill.norm, WF := fun f => f.Range cf
    rt := fun f h => (C05_fill_codec cf hz f h).1, idem := fun f _ => Fill.norm_idem f
    closed := fun f h => Fill.norm_range cf hz f h }

/-- fill (pattern or gradient, any number of stops) -/
theorem C04_fixpoint_fill (cf : Tok → Tok) (hz : cf zeroTok = zeroTok) (f : Fill) (h : f.Range cf) :
    Fill.read cf f.write = some f.norm ∧ Fill.read cf f.norm.write = some f.norm ∧ f.norm.Range cf ∧
    f.norm.WF = true ∧ (f.WF = true → f.norm.eff = f.eff) := by
  obtain ⟨g1, e1, rfl, e2, hwf, _⟩ := (fillCodec cf hz).fixpoint f h
  exact ⟨e1, e2, hwf, Fill.norm_WF f, Fill.eff_norm f⟩

def bordersCodec (cf : Tok → Tok) : Codec Borders :=
  { rs := fun b => Borders.read cf b.write, norm := Borders.norm, WF := fun b => b.Range cf ∧ b.WF = true
    rt := fun b h => (C05_border_codec cf b h.1).1, idem := fun b h => Borders.norm_idem b h.2
    closed := fun b h => ⟨Borders.norm_range cf b h.1, Borders.norm_WF b h.2⟩ }

/-- borders (seven edges, two flags): colours in one of the setters' forms (`Borders.WF`, needed for idempotence:
    see the `empty!!` example of `C05_border_codec`) -/
theorem C04_fixpoint_borders (cf : Tok → Tok) (b : Borders) (h : b.Range cf) (hw : b.WF = true) :
    Borders.read cf b.write = some b.norm ∧ Borders.read cf b.norm.write = some b.norm ∧ b.norm.Range cf ∧
    b.norm.WF = true ∧ b.norm.eff = b.eff := by
  obtain ⟨g1, e1, rfl, e2, hwf, hobs⟩ := (bordersCodec cf).fixpoint b ⟨h, hw⟩
  exact ⟨e1, e2, hwf.1, hwf.2, hobs Borders.eff (fun y hy => Borders.eff_norm y hy.2)⟩

def alignmentCodec : Codec Alignment := Codec.ofId (fun a => Alignment.read a.write) Alignment.Range C05_alignment_codec
def protectionCodec : Codec Protection := Codec.ofId (fun p => Protection.read p.write) (fun _ => True) (fun p _ => C05_protection_codec p)
def numFmtCodec : Codec NumFmt := Codec.ofId (fun v => NumFmt.read v.write) (fun v => u32Range v.id) C05_numfmt_codec

/-- alignment, cell protection, custom number format: the identity, so every generation is the original -/
theorem C04_fixpoint_alignment (a : Alignment) (h : a.Range) (n : Nat) : alignmentCodec.gens (n + 1) a = some a :=
  alignmentCodec.gens_succ a h n
theorem C04_fixpoint_protection (p : Protection) (n : Nat) : protectionCodec.gens (n + 1) p = some p :=
  protectionCodec.gens_succ p trivial n
theorem C04_fixpoint_numfmt (v : NumFmt) (h : u32Range v.id) (n : Nat) : numFmtCodec.gens (n + 1) v = some v :=
  numFmtCodec.gens_succ v h n

theorem xfBack (xf : Nat) : (if xf > 0 then some xf else none).getD 0 = xf := by
  by_cases h : xf > 0
  · simp [h]
  · simp [h]; omega

/-- a row with the index of its style (`0` = none); `spans`, the cells and the previous row number are passengers -/
def rowCodec (cf : Tok → Tok) (spans : Option Tok) (kids : List Umya.Spec.Xml.Node) (last : Nat) : Codec (Row × Nat) :=
  { rs := fun p => (Row.read cf last (p.1.write p.2 spans kids)).map (fun q => (q.1, q.2.getD 0))
    norm := fun p => (p.1.norm, p.2)
    WF := fun p => p.1.Range cf ∧ u32Range p.2
    rt := fun p h => by
      simp only [(C05_row_codec cf p.1 h.1 p.2 h.2 spans kids last).1, Option.map_some, xfBack]
    idem := fun p _ => by simp only [Row.norm_idem]
    closed := fun p h => ⟨Row.norm_range cf p.1 h.1, h.2⟩ }

theorem C04_fixpoint_row (cf : Tok → Tok) (r : Row) (h : r.Range cf) (xf : Nat) (hxf : u32Range xf) (spans : Option Tok)
    (kids : List Umya.Spec.Xml.Node) (last : Nat) :
    Row.read cf last (r.write xf spans kids) = some (r.norm, if xf > 0 then some xf else none) ∧
    Row.read cf last (r.norm.write xf spans kids) = some (r.norm, if xf > 0 then some xf else none) ∧
    r.norm.Range cf ∧ r.norm.eff = r.eff := by
  have h2 := (C05_row_codec cf r.norm (Row.norm_range cf r h) xf hxf spans kids last).1
  rw [Row.norm_idem] at h2
  exact ⟨(C05_row_codec cf r h xf hxf spans kids last).1, h2, Row.norm_range cf r h, Row.eff_norm r⟩

/-- a column run: the column, `min`, `max`, the style index -/
def colCodec (cf : Tok → Tok) : Codec (Col × Nat × Nat × Nat) :=
  { rs := fun p => (Col.read cf (p.1.write p.2.1 p.2.2.1 p.2.2.2)).map (fun q => (q.1, q.2.1, q.2.2.1, q.2.2.2.getD 0))
    norm := fun p => (p.1.norm, p.2)
    WF := fun p => cf p.1.width = p.1.width ∧ u32Range p.2.1 ∧ u32Range p.2.2.1 ∧ u32Range p.2.2.2
    rt := fun p h => by
      simp only [(C05_column_codec cf p.1 h.1 p.2.1 p.2.2.1 p.2.2.2 h.2.1 h.2.2.1 h.2.2.2).1, Option.map_some, xfBack]
    idem := fun p _ => by simp only [Col.norm_idem]
    closed := fun p h => h }

theorem C04_fixpoint_column (cf : Tok → Tok) (c : Col) (hw : cf c.width = c.width) (mn mx xf : Nat)
    (h1 : u32Range mn) (h2 : u32Range mx) (h3 : u32Range xf) :
    Col.read cf (c.write mn mx xf) = some (c.norm, mn, mx, if xf > 0 then some xf else none) ∧
    Col.read cf (c.norm.write mn mx xf) = some (c.norm, mn, mx, if xf > 0 then some xf else none) ∧
    c.norm.eff = c.eff := by
  have g2 := (C05_column_codec cf c.norm hw mn mx xf h1 h2 h3).1
  rw [Col.norm_idem] at g2
  exact ⟨(C05_column_codec cf c hw mn mx xf h1 h2 h3).1, g2, Col.eff_norm c⟩

/-- the style tables (find-or-append, `Umya/Model/Style.lean`): registering again a style that is already in the
    tables — which is what the second save does with every style the first one registered — changes nothing -/
theorem C04_fixpoint_style_tables (key : Umya.Style.Tok → Umya.Style.Tok) (ss : Umya.Style.Sheet) (s : Umya.Style.Style) :
    Umya.Style.setStyle key (Umya.Style.setStyle key ss s).1 s = Umya.Style.setStyle key ss s :=
  (C05_no_growth key ss s).1

end Styles

/-! ## 3. annotations at attribute level (models: `Umya/Model/Annot{Prot,View,Page}.lean`; round trips: `Umya/Thm/C06View.lean`) -/

section Views
open Umya.AnnotCodec Umya.AnnotProt Umya.AnnotView Umya.AnnotPage Umya.Thm.C06

variable {Z : NumZ}

def tabCodec (hs : Z.F.Sound) : Codec (Option (Color Z)) :=
  { rs := tabRs, norm := normTab, WF := TabWF
    rt := fun t h => tabRs_eq hs t h, idem := fun t _ => normTab_idem t, closed := fun t h => normTab_WF t h }

/-- tab colour (an optional object): `normTab` — an object without any value is gone, otherwise the written form —
    is reached after one generation and stays -/
theorem C04_fixpoint_tab_color (hs : Z.F.Sound) (t : Option (Color Z)) (h : TabWF t) :
    readSheetPr (writeSheetPr [] t) = some (normTab t) ∧ readSheetPr (writeSheetPr [] (normTab t)) = some (normTab t) ∧
    TabWF (normTab t) := by
  obtain ⟨g1, e1, rfl, e2, hwf, _⟩ := (tabCodec hs).fixpoint t h
  exact ⟨e1, e2, hwf⟩

def paneCodec (hs : Z.F.Sound) : Codec (Pane Z) :=
  { rs := paneRs, norm := Pane.norm, WF := Pane.WF
    rt := fun p h => paneRs_eq hs p h, idem := fun p _ => (C06_pane_norm p).1, closed := fun p h => Pane.norm_WF p h }

/-- pane: after one generation the two enum fields HAVE their values (the defaults where there was none); the getters
    return the same throughout -/
theorem C04_fixpoint_pane (hs : Z.F.Sound) (p : Pane Z) (h : p.WF) :
    p.write.bind Pane.read = some p.norm ∧ p.norm.write.bind Pane.read = some p.norm ∧ p.norm.WF ∧
    p.norm.activePane.getD PaneV.dflt = p.activePane.getD PaneV.dflt ∧
    p.norm.state.getD PaneState.dflt = p.state.getD PaneState.dflt ∧ p.norm.xSplit = p.xSplit ∧ p.norm.ySplit = p.ySplit ∧
    p.norm.topLeft = p.topLeft := by
  obtain ⟨g1, e1, rfl, e2, hwf, _⟩ := (paneCodec hs).fixpoint p h
  exact ⟨e1, e2, hwf, (C06_pane_norm p).2⟩

def selectionCodec : Codec Selection := Codec.ofId selectionRs Selection.WF selectionRs_eq

theorem C04_fixpoint_selection (s : Selection) (h : s.WF) (n : Nat) : selectionCodec.gens (n + 1) s = some s :=
  selectionCodec.gens_succ s h n

def viewCodec (hs : Z.F.Sound) : Codec (SheetView Z) :=
  { rs := viewRs, norm := SheetView.norm, WF := SheetView.WF
    rt := fun v h => viewRs_eq hs v h, idem := fun v _ => SheetView.norm_idem v, closed := fun v h => SheetView.norm_WF v h }

/-- one sheet view with its pane and any number of selections -/
theorem C04_fixpoint_sheet_view (hs : Z.F.Sound) (v : SheetView Z) (h : v.WF) :
    v.write.bind SheetView.read = some v.norm ∧ v.norm.write.bind SheetView.read = some v.norm ∧ v.norm.WF ∧
    v.norm.tabSelected.getD false = v.tabSelected.getD false ∧ v.norm.workbookViewId.getD 0 = v.workbookViewId.getD 0 ∧
    v.norm.selections = v.selections := by
  obtain ⟨g1, e1, rfl, e2, hwf, _⟩ := (viewCodec hs).fixpoint v h
  exact ⟨e1, e2, hwf, (C06_sheet_view_norm v).2.1, (C06_sheet_view_norm v).2.2.1, (C06_sheet_view_norm v).2.2.2.1⟩

/-- all views of a sheet through the `<sheetViews>` wrapper (no element at all for an empty list) -/
def viewsCodec (hs : Z.F.Sound) : Codec (List (SheetView Z)) :=
  { rs := viewsRs, norm := List.map SheetView.norm, WF := fun vs => ∀ v ∈ vs, v.WF
    rt := fun vs h => viewsRs_eq hs vs h
    idem := (viewCodec hs).list.idem, closed := (viewCodec hs).list.closed }

theorem C04_fixpoint_sheet_views (hs : Z.F.Sound) (vs : List (SheetView Z)) (h : ∀ v ∈ vs, v.WF) :
    viewsRs vs = some (vs.map SheetView.norm) ∧ viewsRs (vs.map SheetView.norm) = some (vs.map SheetView.norm) ∧
    (∀ v ∈ vs.map SheetView.norm, v.WF) := by
  obtain ⟨g1, e1, rfl, e2, hwf, _⟩ := (viewsCodec hs).fixpoint vs h
  exact ⟨e1, e2, hwf⟩

/-- page setup with the printer-settings relationship: the identity -/
def pageSetupCodec {Tok : Type} (rels : Text → Option Tok) (rid : Nat) : Codec (PageSetup Tok) :=
  Codec.ofId (fun p => PageSetup.read rels (p.write rid).1)
    (fun p => p.WF ∧ ∀ d, p.objectData = some d → rels (ridText rid) = some d)
    (fun p h => C06_page_setup_codec rels p rid h.1 h.2)

theorem C04_fixpoint_page_setup {Tok : Type} (rels : Text → Option Tok) (rid : Nat) (p : PageSetup Tok) (h : p.WF)
    (hrel : ∀ d, p.objectData = some d → rels (ridText rid) = some d) (n : Nat) :
    (pageSetupCodec rels rid).gens (n + 1) p = some p :=
  (pageSetupCodec rels rid).gens_succ p ⟨h, hrel⟩ n

def marginsCodec (hs : Z.F.Sound) : Codec (PageMargins Z) :=
  { rs := fun m => PageMargins.read m.write, norm := PageMargins.norm, WF := fun _ => True
    rt := fun m _ => (C06_page_margins_codec hs m).1, idem := fun m _ => PageMargins.norm_idem m, closed := fun _ _ => trivial }

/-- page margins: after one generation every margin HAS a value (zero where there was none), and stays so -/
theorem C04_fixpoint_page_margins (hs : Z.F.Sound) (m : PageMargins Z) :
    PageMargins.read m.write = some m.norm ∧ PageMargins.read m.norm.write = some m.norm ∧
    m.norm.left.getD Z.zero = m.left.getD Z.zero ∧ m.norm.footer.getD Z.zero = m.footer.getD Z.zero := by
  obtain ⟨g1, e1, rfl, e2, _, _⟩ := (marginsCodec hs).fixpoint m trivial
  exact ⟨e1, e2, rfl, rfl⟩

def printOptionsCodec : Codec PrintOptions :=
  Codec.ofId (fun p => some (PrintOptions.read p.write)) (fun _ => True) (fun p _ => by rw [C06_print_options_codec])

theorem C04_fixpoint_print_options (p : PrintOptions) (n : Nat) : printOptionsCodec.gens (n + 1) p = some p :=
  printOptionsCodec.gens_succ p trivial n

def headerFooterCodec : Codec HeaderFooter :=
  { rs := fun h => some (HeaderFooter.read h.write), norm := HeaderFooter.norm, WF := fun _ => True
    rt := fun h _ => by rw [(C06_header_footer_codec h).1], idem := fun h _ => HeaderFooter.norm_idem h
    closed := fun _ _ => trivial }

/-- header / footer: every text (blanks at either end included) stays; the EMPTY text is "no value" after one
    generation, and that is a fixed point — the reader and the writer agree on it -/
theorem C04_fixpoint_header_footer (h : HeaderFooter) :
    HeaderFooter.read h.write = h.norm ∧ HeaderFooter.read h.norm.write = h.norm ∧
    h.norm.headerText = h.headerText ∧ h.norm.footerText = h.footerText := by
  obtain ⟨g1, e1, rfl, e2, _, _⟩ := headerFooterCodec.fixpoint h trivial
  exact ⟨Option.some.inj e1, Option.some.inj e2, (C06_header_footer_codec h).2.2⟩

def sheetProtectionCodec : Codec SheetProtection :=
  Codec.ofId (fun x => SheetProtection.read x.write) SheetProtection.WF C06_sheet_protection_codec
def workbookProtectionCodec : Codec WorkbookProtection :=
  Codec.ofId (fun x => WorkbookProtection.read x.write) WorkbookProtection.WF C06_workbook_protection_codec
def activeTabCodec : Codec WorkbookView :=
  Codec.ofId (fun v => WorkbookView.read v.write) (fun v => ∀ n, v.activeTab = some n → n < 4294967296) C06_active_tab

/-- sheet protection (21 fields incl. the password hashes), workbook protection (13 fields), active tab: the identity -/
theorem C04_fixpoint_sheet_protection (x : SheetProtection) (h : x.WF) (n : Nat) : sheetProtectionCodec.gens (n + 1) x = some x :=
  sheetProtectionCodec.gens_succ x h n
theorem C04_fixpoint_workbook_protection (x : WorkbookProtection) (h : x.WF) (n : Nat) :
    workbookProtectionCodec.gens (n + 1) x = some x :=
  workbookProtectionCodec.gens_succ x h n
theorem C04_fixpoint_active_tab (v : WorkbookView) (h : ∀ n, v.activeTab = some n → n < 4294967296) (n : Nat) :
    activeTabCodec.gens (n + 1) v = some v :=
  activeTabCodec.gens_succ v h n

def dnAttrsCodec : Codec DnAttrs :=
  { rs := fun d => DnAttrs.read d.writeAttrs, norm := DnAttrs.norm
    WF := fun d => ∀ n, d.localSheetId = some n → n < 4294967296
    rt := fun d h => (C06_defined_name_attrs d h).1, idem := fun _ _ => rfl, closed := fun _ h => h }

/-- `<definedName>` attributes: a name object without a name has the empty name from generation 1 on -/
theorem C04_fixpoint_defined_name_attrs (d : DnAttrs) (h : ∀ n, d.localSheetId = some n → n < 4294967296) :
    DnAttrs.read d.writeAttrs = some d.norm ∧ DnAttrs.read d.norm.writeAttrs = some d.norm ∧
    d.norm.name.getD [] = d.name.getD [] ∧ d.norm.localSheetId = d.localSheetId ∧ d.norm.hidden = d.hidden := by
  obtain ⟨g1, e1, rfl, e2, _, _⟩ := dnAttrsCodec.fixpoint d h
  exact ⟨e1, e2, rfl, rfl, rfl⟩

end Views

/-! ## 4. data validations, conditional formatting (models: `Umya/Model/Annot{Dv,Cf}.lean`; `Umya/Thm/C06Codec.lean`) -/

section DvCf
open Umya.Annot Umya.AnnotDv Umya.AnnotCf Umya.Thm.C06

def dvCodec : Codec Dv := Codec.ofId (fun x => ofRes (AnnotDv.read (AnnotDv.write x))) Dv.WF
  (fun x h => by rw [C06_data_validation_codec x h]; rfl)

/-- the whole `<dataValidations>` element, any number of validations in order: the identity -/
def dvListCodec : Codec (List Dv) := Codec.ofId (fun l => ofRes (readList (writeList l))) (fun l => ∀ x ∈ l, x.WF)
  (fun l h => by rw [C06_data_validations_roundtrip l h]; rfl)

theorem C04_fixpoint_data_validations (l : List Dv) (h : ∀ x ∈ l, x.WF) (n : Nat) : dvListCodec.gens (n + 1) l = some l :=
  dvListCodec.gens_succ l h n

/-- conditional formatting together with the dxf table it is written against: the state is (table the workbook was
    loaded with, blocks); one generation gives (the table after the save, the same blocks), and that is a fixed
    point: the second save appends nothing to the table (`writeBlocks_table_fixed`) -/
def cfCodec : Codec (List Sty × List Block) :=
  { rs := cfRs, norm := cfNorm, WF := CfWF, rt := cfRs_eq, idem := fun x _ => cfNorm_idem x, closed := cfNorm_WF }

theorem C04_fixpoint_conditional_formatting (t0 : List Sty) (bs : List Block) (h : ∀ b ∈ bs, BlockWF b)
    (hT : (writeBlocks t0 bs).1.length ≤ 18446744073709551616) :
    cfRs (t0, bs) = some ((writeBlocks t0 bs).1, bs) ∧
    cfRs ((writeBlocks t0 bs).1, bs) = some ((writeBlocks t0 bs).1, bs) := by
  obtain ⟨g1, e1, rfl, e2, _, _⟩ := cfCodec.fixpoint (t0, bs) ⟨h, hT⟩
  exact ⟨e1, e2⟩

end DvCf

/-! ## 5. sheet list, merges, comments, hyperlinks, defined names (model: `Umya/Model/Annot.lean`; `Umya/Thm/C06.lean`) -/

section Annots
open Umya.Annot Umya.Coord Umya.Thm.C06

def sheetListCodec : Codec (List SheetEntry) :=
  Codec.ofId (fun l => some (sheetListReload l)) (fun _ => True) (fun l _ => by rw [C06_sheet_list])

theorem C04_fixpoint_sheet_list (l : List SheetEntry) (n : Nat) : sheetListCodec.gens (n + 1) l = some l :=
  sheetListCodec.gens_succ l trivial n

/-- a merged range / the auto-filter range -/
def mergeCodec : Codec Range :=
  Codec.ofId (fun ρ => ofRes (rangeRead (rangeWrite ρ)))
    (fun ρ => Umya.Thm.C17.Range.IsShape ρ ∧ Umya.Thm.C17.Range.InBounds ρ)
    (fun ρ h => by rw [C06_merge_roundtrip ρ h.1 h.2]; rfl)

theorem C04_fixpoint_merges (l : List Range) (h : ∀ ρ ∈ l, Umya.Thm.C17.Range.IsShape ρ ∧ Umya.Thm.C17.Range.InBounds ρ) (n : Nat) :
    mergeCodec.list.gens (n + 1) l = some l := by
  have := mergeCodec.list.gens_succ l h n
  simpa [Codec.list, mergeCodec, Codec.ofId] using this

/-- comments with their authors; `tbl` is the authors table in WHATEVER order the writer's hash set gives it -/
def commentsCodec (tbl : List Text) : Codec (List Cmt) :=
  Codec.ofId (fun cs => ofRes (reloadComments true tbl cs)) (fun cs => ∀ c ∈ cs, c.author ∈ tbl)
    (fun cs h => by rw [C06_comment_authors tbl cs h]; rfl)

theorem C04_fixpoint_comments (tbl tbl' : List Text) (cs : List Cmt) (h : ∀ c ∈ cs, c.author ∈ tbl) (h' : ∀ c ∈ cs, c.author ∈ tbl') :
    (commentsCodec tbl).rs cs = some cs ∧ (commentsCodec tbl').rs cs = some cs :=
  ⟨(commentsCodec tbl).rt cs h, (commentsCodec tbl').rt cs h'⟩

/-- hyperlinks; `k0` = the first relationship id (below the abstraction) -/
def linksCodec (k0 : Nat) : Codec (List Link) :=
  Codec.ofId (fun ls => ofRes (reloadLinks ls k0)) (fun _ => True) (fun ls _ => by rw [C06_hyperlink_reload ls k0]; rfl)

theorem C04_fixpoint_hyperlinks (ls : List Link) (k0 k1 : Nat) :
    (linksCodec k0).rs ls = some ls ∧ (linksCodec k1).rs ls = some ls :=
  ⟨(linksCodec k0).rt ls trivial, (linksCodec k1).rt ls trivial⟩

/-- a defined name is either a list of cell areas or a text that is not one -/
def DefNameWF (d : DefName) : Prop :=
  (d.str = none ∧ ∀ a ∈ d.areas, AreaOK a) ∨ (d.areas = [] ∧ ∃ v, d.str = some v ∧ (splitStr v).all isAddress = false)

def defNameCodec : Codec DefName :=
  Codec.ofId (fun d => ofRes (DefName.setAddress {} d.text)) DefNameWF (fun d h => by
    obtain ⟨as, str⟩ := d
    rcases h with ⟨h1, h2⟩ | ⟨h1, v, h2, h3⟩
    · simp only at h1 h2; subst h1
      rw [C06_defined_name_roundtrip as h2]; rfl
    · simp only at h1 h2; subst h1; subst h2
      rw [show DefName.text { areas := [], str := some v } = v from rfl, (C06_defined_name_text_kept v h3).1]; rfl)

theorem C04_fixpoint_defined_names (l : List DefName) (h : ∀ d ∈ l, DefNameWF d) (n : Nat) :
    defNameCodec.list.gens (n + 1) l = some l := by
  have := defNameCodec.list.gens_succ l h n
  simpa [Codec.list, defNameCodec, Codec.ofId] using this

end Annots

/-! ## 6. cells and shared strings (model: `Umya/Model/CellXml.lean`; round trips: `Umya/Thm/C01.lean`) -/

section Cells
open Umya.Num Umya.CellXml Umya.Thm.C01

/-- a shared-string item (plain or rich, any texts) -/
def stringItemCodec : Codec Item := Codec.ofId (fun it => readSi (siOf it)) ItemOK (fun it h => (C01_index_resolves [] it h).2)

theorem C04_fixpoint_string_item (it : Item) (h : ItemOK it) (n : Nat) : stringItemCodec.gens (n + 1) it = some it :=
  stringItemCodec.gens_succ it h n

/-- one cell that is not blank-and-unstyled, of any value kind (text, rich text, number, boolean, error, empty with
    a style or a formula, an unresolved lazy value), written against any state `tbl` of the string table and read
    against the table after it.  Normal form: `Cell.resolved` (the identity except on a lazy value, which comes back
    as the typed value it stands for). -/
def cellCodec (F : NumFmt) (hF : F.Sound) (tbl : Table) : Codec (Cell F.Num) :=
  { rs := fun c => (writeTo F tbl c).bind fun p => p.2.bind (readCell F p.1)
    norm := Cell.resolved F
    WF := fun c => cellOK F c = true ∧ blankUnstyled F c = false ∧ ∀ p, writeTo F tbl c = some p → p.1.length < 18446744073709551616
    rt := fun c h => by
      obtain ⟨tbl', ox, hw, _, _, hk⟩ := C01_cell_roundtrip F hF tbl c h.1
      obtain ⟨x, hx, hr⟩ := hk h.2.1
      simp only [hw, Option.bind_some, hx]
      exact hr tbl' (h.2.2 _ hw) (fun _ _ hi => hi)
    idem := fun c _ => resolved_idem F c
    closed := fun c h => ⟨cellOK_resolved F h.1, by rw [blankUnstyled_resolved]; exact h.2.1,
      fun p hp => h.2.2 p (by rw [← writeTo_resolved]; exact hp)⟩ }

theorem C04_fixpoint_cell (F : NumFmt) (hF : F.Sound) (tbl : Table) (c : Cell F.Num) (h1 : cellOK F c = true)
    (h2 : blankUnstyled F c = false) (h3 : ∀ p, writeTo F tbl c = some p → p.1.length < 18446744073709551616) (n : Nat) :
    (cellCodec F hF tbl).gens (n + 1) c = some (Cell.resolved F c) :=
  (cellCodec F hF tbl).gens_succ c ⟨h1, h2, h3⟩ n

/-- all cells of all sheets on one shared-string table -/
def cellsCodec (F : NumFmt) (hF : F.Sound) (light : Bool) : Codec (List (List (Cell F.Num))) :=
  { rs := cellsRs F light, norm := normalize F, WF := CellsWF F light
    rt := fun s h => cellsRs_eq F hF light s h, idem := fun s _ => normalize_idem' F s
    closed := fun s h => CellsWF_normalize F light s h }

/-- **Cells.**  Generation 1 is `normalize` (the blank unstyled cells are gone, every other cell is itself, in order);
    generation 2 is generation 1, and the second save writes the very same `<c>` / `<si>` facts as the first.  The
    hypotheses are C01's, for the ORIGINAL only: that they hold again for generation 1 is proved. -/
theorem C04_fixpoint_cell_store (F : NumFmt) (hF : F.Sound) (light : Bool) (sheets : List (List (Cell F.Num)))
    (h : CellsWF F light sheets) :
    cellsRs F light sheets = some (normalize F sheets) ∧ cellsRs F light (normalize F sheets) = some (normalize F sheets) ∧
    CellsWF F light (normalize F sheets) ∧ writeBook F light (normalize F sheets) = writeBook F light sheets := by
  obtain ⟨g1, e1, rfl, e2, hwf, _⟩ := (cellsCodec F hF light).fixpoint sheets h
  exact ⟨e1, e2, hwf, writeBook_normalize F light sheets⟩

end Cells

/-! ## 7. the whole workbook projection -/

section Book
open Umya.AnnotCodec Umya.AnnotProt Umya.AnnotView Umya.AnnotPage Umya.Annot Umya.AnnotDv Umya.AnnotCf Umya.Coord
open Umya.Num Umya.CellXml

/-- what a save depends on besides the workbook, in the models: nothing of it may show after reload.
    `authors` is the iteration order of the writer's authors hash set (any function of the comments), `rid0` the first
    relationship id handed out for a sheet's hyperlinks, `light` the writer flavour; `spans`, `kids`, `last` are the
    passengers of a `<row>` element (its cells are the business of the cell store). -/
structure SaveEnv where
  light : Bool
  authors : List Cmt → List (List Char)
  rid0 : Nat
  spans : Option Umya.StyleCodec.Tok
  kids : List Umya.Spec.Xml.Node
  last : Nat

def commentsCodecE (e : SaveEnv) : Codec (List Cmt) :=
  Codec.ofId (fun cs => ofRes (reloadComments true (e.authors cs) cs)) (fun cs => ∀ c ∈ cs, c.author ∈ e.authors cs)
    (fun cs h => by rw [Umya.Thm.C06.C06_comment_authors _ cs h]; rfl)

/-- font / fill in the setters' form, so that the getters' view is an observation -/
def fontCodecS (cf : Umya.StyleCodec.Tok → Umya.StyleCodec.Tok) : Codec Umya.StyleCodec.Font :=
  (fontCodec cf).restrict (fun f => f.color.OneForm = true) (fun f _ _ => Umya.StyleCodec.Font.norm_oneForm f)
def fillCodecS (cf : Umya.StyleCodec.Tok → Umya.StyleCodec.Tok) (hz : cf Umya.StyleCodec.zeroTok = Umya.StyleCodec.zeroTok) :
    Codec Umya.StyleCodec.Fill :=
  (fillCodec cf hz).restrict (fun f => f.WF = true) (fun f _ _ => Umya.StyleCodec.Fill.norm_WF f)

/-- the per-sheet projection: annotations and dimensions -/
structure SheetP (Z : NumZ) where
  views : List (SheetView Z)
  tab : Option (Umya.AnnotProt.Color Z)
  pageSetup : PageSetup Unit
  margins : PageMargins Z
  printOptions : PrintOptions
  headerFooter : HeaderFooter
  protection : Option SheetProtection
  validations : List Dv
  merges : List Range
  comments : List Cmt
  links : List Link
  rows : List (Umya.StyleCodec.Row × Nat)
  cols : List (Umya.StyleCodec.Col × Nat × Nat × Nat)

variable (cf : Umya.StyleCodec.Tok → Umya.StyleCodec.Tok) (hz : cf Umya.StyleCodec.zeroTok = Umya.StyleCodec.zeroTok)
variable {Z : NumZ} (hs : Z.F.Sound) (F : NumFmt) (hF : F.Sound) (e : SaveEnv)

/-- one sheet: the product of its family codecs -/
def sheetCodec : Codec (SheetP Z) :=
  ((viewsCodec hs).prod <| (tabCodec hs).prod <| (pageSetupCodec (fun _ => some ()) 0).prod <| (marginsCodec hs).prod <|
    printOptionsCodec.prod <| headerFooterCodec.prod <| sheetProtectionCodec.opt.prod <| dvListCodec.prod <|
    mergeCodec.list.prod <| (commentsCodecE e).prod <| (linksCodec e.rid0).prod <|
    (rowCodec cf e.spans e.kids e.last).list.prod (colCodec cf).list).transport
    (fun s => (s.views, s.tab, s.pageSetup, s.margins, s.printOptions, s.headerFooter, s.protection, s.validations,
      s.merges, s.comments, s.links, s.rows, s.cols))
    (fun t => ⟨t.1, t.2.1, t.2.2.1, t.2.2.2.1, t.2.2.2.2.1, t.2.2.2.2.2.1, t.2.2.2.2.2.2.1, t.2.2.2.2.2.2.2.1,
      t.2.2.2.2.2.2.2.2.1, t.2.2.2.2.2.2.2.2.2.1, t.2.2.2.2.2.2.2.2.2.2.1, t.2.2.2.2.2.2.2.2.2.2.2.1, t.2.2.2.2.2.2.2.2.2.2.2.2⟩)
    (fun s => by cases s; rfl) (fun _ => rfl)

/-- the workbook projection: sheet list, all cells, the per-sheet projections, the style components, the
    conditional formats with their dxf table, the defined names, workbook protection and view — any numbers of each -/
structure BookP (F : NumFmt) (Z : NumZ) where
  sheetList : List SheetEntry
  cells : List (List (Cell F.Num))
  sheets : List (SheetP Z)
  fonts : List Umya.StyleCodec.Font
  fills : List Umya.StyleCodec.Fill
  borders : List Umya.StyleCodec.Borders
  alignments : List Umya.StyleCodec.Alignment
  protections : List Umya.StyleCodec.Protection
  numFmts : List Umya.StyleCodec.NumFmt
  cf : List Sty × List Block
  definedNames : List (DnAttrs × DefName)
  workbookProtection : Option WorkbookProtection
  workbookView : WorkbookView

def bookCodec : Codec (BookP F Z) :=
  (sheetListCodec.prod <| (cellsCodec F hF e.light).prod <| (sheetCodec cf hs e).list.prod <| (fontCodecS cf).list.prod <|
    (fillCodecS cf hz).list.prod <| (bordersCodec cf).list.prod <| alignmentCodec.list.prod <| protectionCodec.list.prod <|
    numFmtCodec.list.prod <| cfCodec.prod <| (dnAttrsCodec.prod defNameCodec).list.prod <|
    workbookProtectionCodec.opt.prod activeTabCodec).transport
    (fun b => (b.sheetList, b.cells, b.sheets, b.fonts, b.fills, b.borders, b.alignments, b.protections, b.numFmts, b.cf,
      b.definedNames, b.workbookProtection, b.workbookView))
    (fun t => ⟨t.1, t.2.1, t.2.2.1, t.2.2.2.1, t.2.2.2.2.1, t.2.2.2.2.2.1, t.2.2.2.2.2.2.1, t.2.2.2.2.2.2.2.1,
      t.2.2.2.2.2.2.2.2.1, t.2.2.2.2.2.2.2.2.2.1, t.2.2.2.2.2.2.2.2.2.2.1, t.2.2.2.2.2.2.2.2.2.2.2.1, t.2.2.2.2.2.2.2.2.2.2.2.2⟩)
    (fun b => by cases b; rfl) (fun _ => rfl)

/-- one save + load of the projection, in environment `e`: defined from the family codecs -/
def resave (b : BookP F Z) : Option (BookP F Z) := (bookCodec cf hz hs F hF e).rs b
/-- the normal form of the projection: field by field the normal forms of the families -/
def BookP.norm (b : BookP F Z) : BookP F Z := (bookCodec cf hz hs F hF e).norm b
/-- every family's hypotheses -/
def BookP.WF (b : BookP F Z) : Prop := (bookCodec cf hz hs F hF e).WF b

/-! ### the normal form, written out (no proofs inside: this is what the driver computes for the tie) -/

def normSheet (s : SheetP Z) : SheetP Z :=
  { s with views := s.views.map SheetView.norm, tab := normTab s.tab, margins := s.margins.norm,
           headerFooter := s.headerFooter.norm, rows := s.rows.map (fun p => (p.1.norm, p.2)),
           cols := s.cols.map (fun p => (p.1.norm, p.2)) }

def normBook (b : BookP F Z) : BookP F Z :=
  { b with cells := normalize F b.cells, sheets := b.sheets.map normSheet,
           fonts := b.fonts.map Umya.StyleCodec.Font.norm, fills := b.fills.map Umya.StyleCodec.Fill.norm,
           borders := b.borders.map Umya.StyleCodec.Borders.norm, cf := cfNorm b.cf,
           definedNames := b.definedNames.map (fun p => (p.1.norm, p.2)) }

theorem sheetCodec_norm (s : SheetP Z) : (sheetCodec cf hs e).norm s = normSheet s := by
  cases s
  simp [sheetCodec, normSheet, Codec.transport, Codec.prod, Codec.list, Codec.opt, Codec.ofId, viewsCodec, tabCodec,
    pageSetupCodec, marginsCodec, printOptionsCodec, headerFooterCodec, sheetProtectionCodec, dvListCodec, mergeCodec,
    commentsCodecE, linksCodec, rowCodec, colCodec]

theorem bookCodec_norm (b : BookP F Z) : BookP.norm cf hz hs F hF e b = normBook F b := by
  cases b
  simp [BookP.norm, bookCodec, normBook, Codec.transport, Codec.prod, Codec.list, Codec.opt, Codec.ofId, Codec.restrict,
    sheetListCodec, cellsCodec, fontCodecS, fontCodec, fillCodecS, fillCodec, bordersCodec, alignmentCodec, protectionCodec,
    numFmtCodec, cfCodec, dnAttrsCodec, defNameCodec, workbookProtectionCodec, activeTabCodec, sheetCodec_norm]

/-! ### what the getters show -/

def paneObs (p : Pane Z) := (p.xSplit, p.ySplit, p.topLeft, p.activePane.getD PaneV.dflt, p.state.getD PaneState.dflt)

def viewObs (v : SheetView Z) :=
  (v.showGridLines, v.tabSelected.getD false, v.workbookViewId.getD 0, v.pane.map paneObs, v.view, v.zoomScale,
   v.zoomScaleNormal, v.zoomScalePageLayoutView, v.zoomScaleSheetLayoutView, v.topLeftCell, v.selections)

def marginsObs (m : PageMargins Z) :=
  (m.left.getD Z.zero, m.right.getD Z.zero, m.top.getD Z.zero, m.bottom.getD Z.zero, m.header.getD Z.zero, m.footer.getD Z.zero)

/-- the getter-level view of a sheet projection.  (The tab colour is shown in its written form `normTab`: the public
    getter distinguishes an EMPTY colour object from no object, which a save does not keep — known finding of C06.) -/
def SheetP.view (s : SheetP Z) :=
  (s.views.map viewObs, normTab s.tab, s.pageSetup, marginsObs s.margins, s.printOptions,
   s.headerFooter.headerText, s.headerFooter.footerText, s.protection, s.validations, s.merges, s.comments, s.links,
   s.rows.map (fun p => (p.1.eff, p.2)), s.cols.map (fun p => (p.1.eff, p.2)))

/-- the getter-level view of the workbook projection: the non-blank cells, the sheets' views, the effective values of
    the style components, the blocks (not the dxf table: indices are below the abstraction), the names -/
def BookP.view (b : BookP F Z) :=
  (b.sheetList, normalize F b.cells, b.sheets.map SheetP.view, b.fonts.map Umya.StyleCodec.Font.eff,
   b.fills.map Umya.StyleCodec.Fill.eff, b.borders.map Umya.StyleCodec.Borders.eff, b.alignments, b.protections, b.numFmts,
   b.cf.2, b.definedNames.map (fun p => (p.1.name.getD [], p.1.localSheetId, p.1.hidden, p.2)), b.workbookProtection,
   b.workbookView)

theorem paneObs_norm (p : Pane Z) : paneObs p.norm = paneObs p := by simp [paneObs, Pane.norm]

theorem viewObs_norm (v : SheetView Z) : viewObs v.norm = viewObs v := by
  have h := Umya.Thm.C06.C06_sheet_view_norm v
  simp only [viewObs, h.2.1, h.2.2.1, h.2.2.2.1, h.2.2.2.2.1, h.2.2.2.2.2.1, h.2.2.2.2.2.2.1, h.2.2.2.2.2.2.2.1,
    h.2.2.2.2.2.2.2.2.1, h.2.2.2.2.2.2.2.2.2.1, h.2.2.2.2.2.2.2.2.2.2.1, h.2.2.2.2.2.2.2.2.2.2.2, Option.map_map]
  congr 4

theorem sheetView_norm (s : SheetP Z) : (normSheet s).view = s.view := by
  have h1 : (s.views.map SheetView.norm).map viewObs = s.views.map viewObs := by
    rw [List.map_map]; exact List.map_congr_left (fun v _ => viewObs_norm v)
  have h2 : (s.rows.map (fun p => (p.1.norm, p.2))).map (fun p => (p.1.eff, p.2)) = s.rows.map (fun p => (p.1.eff, p.2)) := by
    rw [List.map_map]; exact List.map_congr_left (fun p _ => by simp [Umya.StyleCodec.Row.eff_norm])
  have h3 : (s.cols.map (fun p => (p.1.norm, p.2))).map (fun p => (p.1.eff, p.2)) = s.cols.map (fun p => (p.1.eff, p.2)) := by
    rw [List.map_map]; exact List.map_congr_left (fun p _ => by simp [Umya.StyleCodec.Col.eff_norm])
  simp only [SheetP.view, normSheet, h1, h2, h3, normTab_idem, (HeaderFooter.norm_text s.headerFooter).1,
    (HeaderFooter.norm_text s.headerFooter).2]
  simp [marginsObs, PageMargins.norm]

theorem bookView_norm (b : BookP F Z) (h : BookP.WF cf hz hs F hF e b) : (normBook F b).view = b.view := by
  have hfonts : (b.fonts.map Umya.StyleCodec.Font.norm).map Umya.StyleCodec.Font.eff = b.fonts.map Umya.StyleCodec.Font.eff := by
    rw [List.map_map]; exact List.map_congr_left (fun f hf => Umya.StyleCodec.Font.eff_norm f (h.2.2.2.1 f hf).2)
  have hfills : (b.fills.map Umya.StyleCodec.Fill.norm).map Umya.StyleCodec.Fill.eff = b.fills.map Umya.StyleCodec.Fill.eff := by
    rw [List.map_map]; exact List.map_congr_left (fun f hf => Umya.StyleCodec.Fill.eff_norm f (h.2.2.2.2.1 f hf).2)
  have hborders : (b.borders.map Umya.StyleCodec.Borders.norm).map Umya.StyleCodec.Borders.eff = b.borders.map Umya.StyleCodec.Borders.eff := by
    rw [List.map_map]; exact List.map_congr_left (fun x hx => Umya.StyleCodec.Borders.eff_norm x (h.2.2.2.2.2.1 x hx).2)
  have hsheets : (b.sheets.map normSheet).map SheetP.view = b.sheets.map SheetP.view := by
    rw [List.map_map]; exact List.map_congr_left (fun s _ => sheetView_norm s)
  have hnames : (b.definedNames.map (fun p => (p.1.norm, p.2))).map (fun p => (p.1.name.getD [], p.1.localSheetId, p.1.hidden, p.2))
      = b.definedNames.map (fun p => (p.1.name.getD [], p.1.localSheetId, p.1.hidden, p.2)) := by
    rw [List.map_map]; exact List.map_congr_left (fun p _ => by simp [DnAttrs.norm])
  simp only [BookP.view, normBook, hfonts, hfills, hborders, hsheets, hnames, normalize_idem', cfNorm]

/-- **Workbook.**  For a workbook projection `b` satisfying the families' hypotheses (any numbers of sheets, cells, style
    components, annotations), in any save environment `e`: if one save + load gives `g1`, then `g1` is the explicit
    normal form `normBook b`; saving and loading `g1` gives `g1` again — the second generation is a fixed point —;
    `g1` satisfies the hypotheses again (so this applies to every later generation too); and the getters show on `g1`
    what they showed on `b`: nothing the library models is lost. -/
theorem C04_workbook_fixpoint (b g1 : BookP F Z) (h : BookP.WF cf hz hs F hF e b) (hg : resave cf hz hs F hF e b = some g1) :
    resave cf hz hs F hF e g1 = some g1 ∧ g1 = normBook F b ∧ BookP.WF cf hz hs F hF e g1 ∧ g1.view = b.view := by
  obtain ⟨g, e1, e2, e3, e4, _⟩ := (bookCodec cf hz hs F hF e).fixpoint b h
  have : g = g1 := Option.some.inj (e1.symm.trans hg)
  subst this
  have e5 : g = normBook F b := e2.trans (bookCodec_norm cf hz hs F hF e b)
  exact ⟨e3, e5, e4, by rw [e5]; exact bookView_norm cf hz hs F hF e b h⟩

/-- … and the save + load does succeed (no panic on the way) -/
theorem C04_workbook_resave_defined (b : BookP F Z) (h : BookP.WF cf hz hs F hF e b) :
    resave cf hz hs F hF e b = some (normBook F b) := by
  rw [← bookCodec_norm cf hz hs F hF e b]; exact (bookCodec cf hz hs F hF e).rt b h

/-- any number of generations -/
theorem C04_workbook_generations (b : BookP F Z) (h : BookP.WF cf hz hs F hF e b) (n : Nat) :
    (bookCodec cf hz hs F hF e).gens (n + 1) b = some (normBook F b) := by
  rw [← bookCodec_norm cf hz hs F hF e b]; exact (bookCodec cf hz hs F hF e).gens_succ b h n

/-! ### saving twice; the save environment -/

/-- **Saving is a function of the workbook.**  The model writers are functions, so two saves of the same unchanged
    projection in the same environment are equal trivially; what needs proof is independence from the environment —
    the parameters that are NOT part of the workbook: the iteration order of the authors hash set (`authors`: any
    function), the first relationship id, the writer flavour, the row passengers.  For any two environments in which
    the hypotheses hold, one save + load gives the same projection.  (The order in which a sheet's cell hash map is
    walked is not a parameter here: `cells` lists them in the order the row loop emits them, which `C10_saved` proves
    sorted whatever the map's order; hyperlinks are walked in `walkOrder`, `C06_hyperlink_pairing`.) -/
theorem C04_save_pure_book (e' : SaveEnv) (b : BookP F Z) (h : BookP.WF cf hz hs F hF e b) (h' : BookP.WF cf hz hs F hF e' b) :
    resave cf hz hs F hF e b = resave cf hz hs F hF e' b := by
  rw [C04_workbook_resave_defined cf hz hs F hF e b h, C04_workbook_resave_defined cf hz hs F hF e' b h']

/-- the cell side of it: the second save of an unchanged loaded workbook writes the same `<c>` and `<si>` facts as the
    save it was loaded from — same parts, same content -/
theorem C04_save_pure_cells (light : Bool) (cells : List (List (Cell F.Num))) :
    writeBook F light (normalize F cells) = writeBook F light cells ∧ writeBook F true cells = writeBook F false cells :=
  ⟨writeBook_normalize F light cells, rfl⟩

/-! ### one cell edited -/

/-- the edit of one cell on the projection: sheet `i`, coordinate `k`, new content `f c` -/
def BookP.editCell (b : BookP F Z) (i : Nat) (k : Nat × Nat) (f : Cell F.Num → Cell F.Num) : BookP F Z :=
  { b with cells := editCells F b.cells i k f }

/-- **Editing one cell changes nothing else.**  For an edit that keeps the cell written (a value / formula / style put
    on a cell that is not blank-and-unstyled stays so; `hf`) and that sets a definite value or leaves the value alone
    (it commutes with resolving a lazy value; `hr`): saving and loading the edited workbook gives exactly the
    edit applied to the saved-and-loaded workbook — every other cell of that sheet, every cell of every other sheet,
    every style component, every annotation, name and protection record is what it is without the edit.
    (An edit that creates a cell where there was none changes the cell LIST of that sheet; for that case
    `C04_edit_local` of `Umya/Thm/C04.lean` states locality by position.) -/
theorem C04_edit_local_book (b : BookP F Z) (i : Nat) (k : Nat × Nat) (f : Cell F.Num → Cell F.Num)
    (hf : ∀ c, blankUnstyled F (f c) = blankUnstyled F c)
    (hr : ∀ c, Cell.resolved F (f c) = f (Cell.resolved F c))
    (h : BookP.WF cf hz hs F hF e b) (h' : BookP.WF cf hz hs F hF e (b.editCell F i k f)) :
    resave cf hz hs F hF e (b.editCell F i k f) = (resave cf hz hs F hF e b).map (fun g => g.editCell F i k f) ∧
    (∀ i', i' ≠ i → (normBook F (b.editCell F i k f)).cells[i']? = (normBook F b).cells[i']?) ∧
    (∀ (s : List (Cell F.Num)) (j : Nat) (c : Cell F.Num), (normBook F b).cells[i]? = some s → s[j]? = some c → (c.row, c.col) ≠ k →
      ∃ s', (normBook F (b.editCell F i k f)).cells[i]? = some s' ∧ s'[j]? = some c) := by
  have e0 : normBook F (b.editCell F i k f) = (normBook F b).editCell F i k f := by
    simp only [normBook, BookP.editCell, normalize_editCells F b.cells i k f hf hr]
  refine ⟨?_, ?_, ?_⟩
  · rw [C04_workbook_resave_defined cf hz hs F hF e _ h', C04_workbook_resave_defined cf hz hs F hF e b h, e0]; rfl
  · intro i' hne
    rw [e0]; exact editCells_other F _ i i' k f hne
  · intro s j c hs hj hk
    rw [e0]
    refine ⟨editSheet F k f s, ?_, editSheet_other F k f s j c hj hk⟩
    show (editCells F (normBook F b).cells i k f)[i]? = _
    have hi : i < (normBook F b).cells.length := by
      rcases Nat.lt_or_ge i (normBook F b).cells.length with h1 | h1
      · exact h1
      · rw [List.getElem?_eq_none h1] at hs; cases hs
    have hs2 : (normBook F b).cells[i] = s := by
      have := List.getElem?_eq_getElem hi
      rw [hs] at this; exact (Option.some.inj this).symm
    simp [editCells, hi, hs2]

/-- the string table under an edit: writing one more cell only appends to the table — every index written for an
    earlier cell keeps resolving to the same item (C01's cell theorem; the interning lemma "earlier indices stay valid") -/
theorem C04_edit_string_indices (hS : F.Sound) (tbl : Table) (c : Cell F.Num) (hc : cellOK F c = true) :
    ∃ tbl' ox, writeTo F tbl c = some (tbl', ox) ∧ ∀ (i : Nat) (it : Item), tbl[i]? = some it → tbl'[i]? = some it := by
  obtain ⟨tbl', ox, hw, ⟨ext, he, _⟩, _, _⟩ := Umya.Thm.C01.C01_cell_roundtrip F hS tbl c hc
  exact ⟨tbl', ox, hw, fun i it hi => by rw [he]; exact Umya.InternC01.getElem?_append_left' hi⟩

end Book

/-! ## 8. non-vacuity: a concrete projection whose normal form is not itself -/

section Demo
open Umya.AnnotCodec Umya.AnnotProt Umya.AnnotView Umya.AnnotPage Umya.Annot Umya.AnnotDv Umya.AnnotCf Umya.Coord
open Umya.Num Umya.CellXml Umya.Thm.C01 Umya.Thm.C05 Umya.Thm.C06

def demoEnv : SaveEnv :=
  { light := false, authors := fun cs => (cs.map (·.author)).reverse, rid0 := 1, spans := none, kids := [], last := 0 }
def demoEnv' : SaveEnv :=
  { light := true, authors := fun cs => [] :: cs.map (·.author), rid0 := 7, spans := some "1:3".toList, kids := [], last := 4 }

/-- sheet 1: a view with `tabSelected = false` and a pane without enum values, an EMPTY tab-colour object, margins
    without values, an empty header text and a padded footer, a row with `hidden = false`, a comment, a link -/
def demoSheet1 : SheetP exZ :=
  { views := [{ tabSelected := some false, pane := some { xSplit := some true, topLeft := ⟨2, 7, false, true⟩ },
                selections := [exSelection] }]
    tab := some {}
    pageSetup := { paperSize := some 9, orientation := some .landscape }
    margins := { left := some true }
    printOptions := ⟨some false, some true⟩
    headerFooter := ⟨some [], some " &CTitle ".toList⟩
    protection := some exSheetProtection
    validations := [{ type := some .none, prompt := some " <p> ".toList, formula1 := some " 1 ".toList }]
    merges := [⟨some ⟨2, false⟩, some ⟨20, false⟩, some ⟨16384, false⟩, some ⟨1048576, false⟩⟩]
    comments := [⟨['A', '1'], "B&C".toList⟩, ⟨['B', '2'], []⟩]
    links := [⟨['B', '2'], true, "http://x/?a=1&b=2".toList, "t<ip".toList⟩]
    rows := [(rowA, 3)]
    cols := [({ width := "12.5".toList, hidden := some false }, 2, 5, 0)] }

def demoSheet2 : SheetP exZ :=
  { views := [], tab := some { theme := some 9, tint := some true }, pageSetup := {}, margins := {}, printOptions := ⟨none, none⟩
    headerFooter := ⟨none, none⟩, protection := none, validations := [], merges := [], comments := [], links := []
    rows := [], cols := [] }

/-- two sheets, nine cells of every kind (two of them blank: one unstyled, one styled), three fonts / fills / borders -/
def demoBook : BookP natFmt exZ :=
  { sheetList := [⟨"R&D <1>".toList, "visible".toList⟩, ⟨"It's".toList, "hidden".toList⟩]
    cells := demo
    sheets := [demoSheet1, demoSheet2]
    fonts := [fontA, {}, { bold := some false }]
    fills := [fillB, gradA, fillNoneFg]
    borders := [bordersA, {}]
    alignments := [{ horizontal := some .centerContinuous, textRotation := some 255 }]
    protections := [{ locked := some false }]
    numFmts := [{ id := 176, code := "0.0\"x\" & <y>".toList }]
    cf := ([], [⟨[⟨some ⟨1, false⟩, some ⟨1, false⟩, none, none⟩],
                 [{ style := some "s1".toList, priority := some 2 }, { style := some "s2".toList, priority := some 1 }]⟩])
    definedNames := [(⟨none, some 1, some true⟩, { areas := [], str := some "S1!$A:$B,S1!$1:$2".toList })]
    workbookProtection := some { lockStructure := some true }
    workbookView := ⟨some 1⟩ }

theorem demoSheet1_WF (e : SaveEnv) (he : ∀ c ∈ demoSheet1.comments, c.author ∈ e.authors demoSheet1.comments) :
    (sheetCodec id exFmt_sound e).WF demoSheet1 := by
  refine ⟨?_, ?_, ?_, trivial, trivial, trivial, ?_, ?_, ?_, he, trivial, ?_, ?_⟩
  · intro v hv
    simp only [demoSheet1, List.mem_singleton] at hv
    subst hv
    refine ⟨?_, ?_, by simp, by simp, by simp, by simp, by simp⟩
    · intro p hp; injection hp with hp; subst hp; simp [Pane.WF, AnnotView.Coord.WF]
    · intro s hs
      simp only [List.mem_singleton] at hs; subst hs
      refine ⟨?_, ?_⟩
      · intro c h; injection h with h; subst h; simp [AnnotView.Coord.WF]
      · intro ρ h
        simp only [exSelection, List.mem_cons, List.not_mem_nil, or_false] at h
        rcases h with rfl | rfl
        · refine ⟨Or.inl (by simp), ?_, ?_, ?_, ?_⟩ <;> intro x hx <;> (try injection hx with hx) <;> (try subst hx) <;> simp_all
        · refine ⟨Or.inr (Or.inl (by simp)), ?_, ?_, ?_, ?_⟩ <;> intro x hx <;> (try injection hx with hx) <;> (try subst hx) <;> simp_all
  · intro c hc; injection hc with hc; subst hc; exact ⟨by simp, by simp⟩
  · refine ⟨⟨?_, by simp [demoSheet1], by simp [demoSheet1], by simp [demoSheet1], by simp [demoSheet1], by simp [demoSheet1]⟩, ?_⟩
    · intro n h; simp only [demoSheet1] at h; injection h with h; omega
    · intro d _; cases d; rfl
  · intro x hx; injection hx with hx; subst hx
    intro n h; injection h with h; omega
  · intro x hx
    simp only [demoSheet1, List.mem_singleton] at hx; subst hx
    intro ρ hρ; simp at hρ
  · intro ρ hρ
    simp only [demoSheet1, List.mem_singleton] at hρ; subst hρ
    exact ⟨by right; left; simp, by refine ⟨?_, ?_, ?_, ?_⟩ <;> intro x hx <;> injection hx with hx <;> subst hx <;> simp⟩
  · intro p hp
    simp only [demoSheet1, List.mem_singleton] at hp; subst hp
    exact ⟨⟨by decide, fun _ _ => rfl, by intro t ht; cases ht⟩, by decide⟩
  · intro p hp
    simp only [demoSheet1, List.mem_singleton] at hp; subst hp
    exact ⟨rfl, by decide, by decide, by decide⟩

theorem demoSheet2_WF (e : SaveEnv) : (sheetCodec id exFmt_sound e).WF demoSheet2 := by
  refine ⟨?_, ?_, ?_, trivial, trivial, trivial, ?_, ?_, ?_, ?_, trivial, ?_, ?_⟩
  · intro v hv; cases hv
  · intro c hc; injection hc with hc; subst hc
    exact ⟨by intro n h; injection h with h; omega, by simp⟩
  · exact ⟨⟨by simp [demoSheet2], by simp [demoSheet2], by simp [demoSheet2], by simp [demoSheet2], by simp [demoSheet2], by simp [demoSheet2]⟩, by intro d _; cases d; rfl⟩
  · intro x hx; cases hx
  · intro x hx; cases hx
  · intro x hx; cases hx
  · intro x hx; cases hx
  · intro x hx; cases hx
  · intro x hx; cases hx

theorem demoBook_WF (e : SaveEnv) (he : ∀ c ∈ demoSheet1.comments, c.author ∈ e.authors demoSheet1.comments) :
    BookP.WF id rfl exFmt_sound natFmt natFmt_sound e demoBook := by
  refine ⟨trivial, ⟨by decide, ?_⟩, ?_, ?_, ?_, ?_, ?_, ?_, ?_, ?_, ?_, ?_, ?_⟩
  · intro b hb
    have : ∀ b ∈ writeBook natFmt e.light demo, b.sst.length < 18446744073709551616 := by
      rw [C01_light_same natFmt demo |> fun h => (by cases e.light <;> simp [h] : writeBook natFmt e.light demo = writeBook natFmt false demo)]
      decide
    exact this b hb
  · intro s hs
    simp only [demoBook, List.mem_cons, List.not_mem_nil, or_false] at hs
    rcases hs with rfl | rfl
    · exact demoSheet1_WF e he
    · exact demoSheet2_WF e
  · intro f hf
    simp only [demoBook, List.mem_cons, List.not_mem_nil, or_false] at hf
    rcases hf with rfl | rfl | rfl
    · exact ⟨fontA_range, by decide⟩
    · exact ⟨Umya.StyleCodec.Font.range_id _ (by decide), by decide⟩
    · exact ⟨Umya.StyleCodec.Font.range_id _ (by decide), by decide⟩
  · intro f hf
    simp only [demoBook, List.mem_cons, List.not_mem_nil, or_false] at hf
    rcases hf with rfl | rfl | rfl
    · exact ⟨Umya.StyleCodec.Fill.range_id _ (by decide), by decide⟩
    · exact ⟨Umya.StyleCodec.Fill.range_id _ (by decide), by decide⟩
    · exact ⟨fillNoneFg_range, by decide⟩
  · intro x hx
    simp only [demoBook, List.mem_cons, List.not_mem_nil, or_false] at hx
    rcases hx with rfl | rfl
    · exact ⟨Umya.StyleCodec.Borders.range_id _ (by decide), by decide⟩
    · exact ⟨Umya.StyleCodec.Borders.range_id _ (by decide), by decide⟩
  · intro a ha
    simp only [demoBook, List.mem_singleton] at ha; subst ha
    intro n hn; cases hn; decide
  · intro _ _; trivial
  · intro v hv
    simp only [demoBook, List.mem_singleton] at hv; subst hv
    show Umya.StyleCodec.u32Range 176; decide
  · refine ⟨?_, by decide⟩
    intro x hx
    simp only [demoBook, List.mem_singleton] at hx; subst hx
    refine ⟨fun ρ hρ => ?_, by simp, ?_⟩
    · simp only [List.mem_singleton] at hρ; subst hρ
      exact ⟨Or.inl (by simp), by refine ⟨?_, ?_, ?_, ?_⟩ <;> intro x hx <;> first | (injection hx with hx; subst hx; simp) | cases hx⟩
    · intro r hr
      simp only [List.mem_cons, List.mem_nil_iff, or_false] at hr
      rcases hr with rfl | rfl
      · exact ⟨by simp [I32], by simp, by simp, by simp, by simp, by simp, by simp⟩
      · exact ⟨by simp [I32], by simp, by simp, by simp, by simp, by simp, by simp⟩
  · intro p hp
    simp only [demoBook, List.mem_singleton] at hp; subst hp
    exact ⟨by intro n h; injection h with h; omega, Or.inr ⟨rfl, _, rfl, by decide⟩⟩
  · intro x hx; injection hx with hx; subst hx
    exact ⟨by simp, by simp⟩
  · intro n h; injection h with h; omega

theorem demoEnv_ok : ∀ c ∈ demoSheet1.comments, c.author ∈ demoEnv.authors demoSheet1.comments := by decide
theorem demoEnv'_ok : ∀ c ∈ demoSheet1.comments, c.author ∈ demoEnv'.authors demoSheet1.comments := by decide

/-- the hypotheses of `C04_workbook_fixpoint` hold for `demoBook` (two sheets, several styles, annotations); its
    generation 1 is NOT the original record — header text, fonts, cells, rows, tab colour differ — … -/
example : BookP.WF id rfl exFmt_sound natFmt natFmt_sound demoEnv demoBook := demoBook_WF demoEnv demoEnv_ok
example : (normBook natFmt demoBook).fonts ≠ demoBook.fonts ∧
    (normBook natFmt demoBook).sheets.map (·.headerFooter) ≠ demoBook.sheets.map (·.headerFooter) ∧
    (normBook natFmt demoBook).cells.map List.length ≠ demoBook.cells.map List.length ∧
    (normBook natFmt demoBook).sheets.map (·.rows) ≠ demoBook.sheets.map (·.rows) ∧
    (normBook natFmt demoBook).sheets.map (·.tab.isSome) ≠ demoBook.sheets.map (·.tab.isSome) ∧
    (normBook natFmt demoBook).cf.1 ≠ demoBook.cf.1 := by decide
/-- … while generation 2 is generation 1, and the getters show on it what they showed on the original -/
example : resave id rfl exFmt_sound natFmt natFmt_sound demoEnv (normBook natFmt demoBook) = some (normBook natFmt demoBook) ∧
    (normBook natFmt demoBook).view = demoBook.view := by
  have h := demoBook_WF demoEnv demoEnv_ok
  obtain ⟨h1, _, _, h4⟩ := C04_workbook_fixpoint id rfl exFmt_sound natFmt natFmt_sound demoEnv demoBook _ h
    (C04_workbook_resave_defined id rfl exFmt_sound natFmt natFmt_sound demoEnv demoBook h)
  exact ⟨h1, h4⟩
/-- two environments with different authors orders, relationship ids and writer flavours -/
example : resave id rfl exFmt_sound natFmt natFmt_sound demoEnv demoBook = resave id rfl exFmt_sound natFmt natFmt_sound demoEnv' demoBook :=
  C04_save_pure_book id rfl exFmt_sound natFmt natFmt_sound demoEnv demoEnv' demoBook (demoBook_WF _ demoEnv_ok) (demoBook_WF _ demoEnv'_ok)
/-- an edit that keeps the cell written: a new text on the cell at row 1, column 1 of sheet 0 -/
example : ∀ c : Cell natFmt.Num, blankUnstyled natFmt ({ c with raw := .str "EDITED<&>".toList, styled := true }) = false := by
  intro c; simp [blankUnstyled, blankCore, Cell.resolved]
/-- … and it commutes with resolving (hypothesis `hr` of `C04_edit_local_book`): the new value is a definite one -/
example : ∀ c : Cell natFmt.Num,
    Cell.resolved natFmt ({ c with raw := .str "EDITED<&>".toList, styled := true })
      = { Cell.resolved natFmt c with raw := .str "EDITED<&>".toList, styled := true } := by
  intro c; rfl
/-- `C04_fixpoint_cell` on a lazy value: the hypotheses hold and every generation is the typed cell -/
example : cellOK natFmt { col := 2, row := 3, raw := .lazy ['1', '2', '3'], formula := some ['A', '1'] } = true ∧
    blankUnstyled natFmt { col := 2, row := 3, raw := .lazy ['1', '2', '3'], formula := some ['A', '1'] } = false ∧
    Cell.resolved natFmt { col := 2, row := 3, raw := .lazy ['1', '2', '3'], formula := some ['A', '1'] }
      = { col := 2, row := 3, raw := .num (123 : Nat), formula := some ['A', '1'] } := by
  decide

end Demo

end Umya.Thm.C04
