/-
  C19 — "formatting never panics for any built-in format code and any finite number": the dispatcher.

  Property theorems only (model: `Umya/Model/NumFmtDispatch.lean`, helper lemmas: `Umya/Lemmas/NumFmtDispatch.lean`).
  The model follows `to_formatted_string` / `split_format` / `format_as_number` / `format_as_percentage` /
  `format_as_fraction` / `format_as_date` for a numeric value and turns every operation that can panic into
  `Outcome.panic`.  The theorems quantify over
    * every entry of the built-in table regenerated from `structs/numbering_format.rs` on every run
      (`Umya.Gen.builtin_format_codes`; 58 ids, listed by `C19_builtin_ids`),
    * every value text `v` with `isPlainDecimal v` (the shape of `f64::to_string` of a finite number),
    * every `Env`: the double itself (any `FloatOps` instance), the text of `value.abs() % 1` of shape `0` / `0.D+`
      (`isFracText`), the text of `value * 24` without `%` (`isHoursText`).
  Modelled, not verified: the hand-written matchers that stand for the fancy_regex patterns, chrono's `strftime`
  on the specifiers the replacement tables produce, the float operations behind `Env`; they are tied to the
  implementation by the `disp` correspondence stream on every run.
-/
import Umya.Lemmas.NumFmtDispatch
import Umya.Model.Gen.Tables
namespace Umya.Thm.C19
open Umya.NumFmtDispatch Umya.NumFmt Umya.Dec Umya.Date Umya.Lemmas.NumFmtDispatch

/-- the built-in table (regenerated from the source on every run), codes as character lists -/
def builtinCodes : List (Nat × List Char) :=
  Umya.Gen.builtin_format_codes.map (fun p => (p.1, p.2.toList))

def signClasses : List SignClass := [.pos, .neg, .zero]

theorem signClass_mem (sc : SignClass) : sc ∈ signClasses := by
  cases sc <;> simp [signClasses]

/-- the ids the theorems below cover: every entry of the crate's table -/
theorem C19_builtin_ids :
    builtinCodes.map (·.1) =
      [0, 1, 2, 3, 4, 9, 10, 11, 12, 13, 14, 15, 16, 17, 18, 19, 20, 21, 22, 27, 28, 29, 30, 31, 32, 33, 34, 35, 36,
       37, 38, 39, 40, 44, 45, 46, 47, 48, 49, 50, 51, 52, 53, 54, 55, 56, 57, 58, 59, 60, 61, 62, 67, 68, 69, 70] := by
  decide

/-- every built-in code, for a positive, a negative and a zero value, has a plan none of whose steps can panic
    or leave the model (`planOk`: no `stop`, every literal piece of a date plan is a well-formed strftime
    string) -/
theorem C19_builtin_plans_ok :
    builtinCodes.all (fun p => signClasses.all (fun sc => planOk (plan p.2 sc))) = true := by
  decide +kernel

/-- **No panic, a text for every value, under every built-in format code.**  For every entry `(id, code)` of
    the crate's built-in table, every value text of the shape `f64::to_string` prints for a finite number,
    every float model `F` and double, every remainder text `0` / `0.D+` and every hours text without `%`, the
    model of `to_formatted_string` returns a text (`Outcome.ok`): neither `panic` nor `unmodelled`. -/
theorem C19_builtin_no_panic {F : Type} [FloatOps F] (p : Nat × List Char) (hp : p ∈ builtinCodes)
    (v : List Char) (env : Env F) (hv : isPlainDecimal v = true) (hr : isFracText env.rem = true)
    (hh : isHoursText env.hours = true) (hha : isHoursText env.hoursAbs = true) :
    ∃ b t, dispatch p.2 v env = .ok b t := by
  have h1 := List.all_eq_true.mp C19_builtin_plans_ok p hp
  have h2 := List.all_eq_true.mp h1 (signClass v) (signClass_mem _)
  unfold dispatch
  simp only [hv, Bool.not_true, Bool.false_eq_true, if_false]
  exact run_isOk _ v env h2 hr hh hha

/-- non-vacuity: the hypotheses hold for concrete values; the accounting code on a negative number, the
    elapsed-hours code, a Japanese date code -/
example : (44, "_(\"$\"* #,##0.00_);_(\"$\"* \\(#,##0.00\\);_(\"$\"* \"-\"??_);_(@_)".toList) ∈ builtinCodes := by decide
example : isPlainDecimal "-1234.5678".toList = true ∧ isFracText "0.5678".toList = true ∧
    isHoursText "-29629.627200000003".toList = true := by decide
example : dispatch (F := Fix) "_(\"$\"* #,##0.00_);_(\"$\"* \\(#,##0.00\\);_(\"$\"* \"-\"??_);_(@_)".toList
    "-1234.5678".toList ⟨⟨0⟩, ⟨0⟩, "0.5678".toList, [], []⟩ = .ok .number (some "$ (1,234.57".toList) := by decide +kernel
example : dispatch (F := Fix) "[h]:mm:ss".toList "1.5".toList ⟨⟨129600⟩, ⟨129600⟩, "0.5".toList, "36".toList, "36".toList⟩
    = .ok .date (some "36:00:00".toList) := by decide +kernel
example : dispatch (F := Fix) "[$-411]ggge\"年\"m\"月\"d\"日\"".toList "45435".toList
    ⟨⟨86400 * 45435⟩, ⟨86400 * 45435⟩, "0".toList, [], []⟩ = .ok .date (some "2024年5月23日".toList) := by decide +kernel

/-- the hypothesis on the value is needed: the model answers nothing for other texts -/
example : dispatch (F := Fix) "0".toList "1e5".toList ⟨⟨0⟩, ⟨0⟩, [], [], []⟩
    = .unmodelled "value is not the shortest text of a finite number" := by decide

/-- Outside the built-in table the unchanged code DID panic: a format code that is one quoted literal was parsed
    as a number and unwrapped (`format.trim_matches('"').parse::<f64>().unwrap()`; the code `"N/A"` on the value
    `1`).  After fix_3 (`fix_3_quoted_literal_format_code.patch`) a literal that is not a number is shown as it
    is; the model follows the repaired code, and the harness replays this witness (`dispc`) on every run. -/
theorem C19_quoted_literal_code_shown {F : Type} [FloatOps F] (env : Env F) :
    dispatch "\"N/A\"".toList "1".toList env = .ok .literal (some "N/A".toList) := by
  have hp : plan "\"N/A\"".toList (signClass "1".toList) = .literal "N/A".toList := by decide
  have hv : isPlainDecimal "1".toList = true := by decide
  have hf : isF64Syntax "N/A".toList = false := by decide
  have ht : trimWs "N/A".toList = "N/A".toList := by decide
  unfold dispatch
  rw [hv, hp]
  simp only [Bool.not_true, Bool.false_eq_true, if_false, run, hf, ht]

/-- the step that panicked: the literal is not in Rust's `f64` grammar -/
example : isF64Syntax "N/A".toList = false ∧ isF64Syntax "12".toList = true := by decide

/-- Two more panics of the unchanged code outside the built-in table, found by reading the model and confirmed on
    the implementation by the `dispc` stream on every run (not repaired; exploration beyond the property's
    quantifier): a colour in a sixth section indexes the five-element `colors` array; four scaling commas
    overflow `1000i32.pow(4)` (builds with overflow checks). -/
theorem C19_custom_code_panics {F : Type} [FloatOps F] (env : Env F) :
    dispatch "0;0;0;0;0;[Red]0".toList "1".toList env = .panic "colors[idx]: index out of bounds" ∧
    dispatch "0.0,,,,".toList "1".toList env = .panic "1000i32.pow(commas): attempt to multiply with overflow" := by
  have hv : isPlainDecimal "1".toList = true := by decide
  have h1 : plan "0;0;0;0;0;[Red]0".toList (signClass "1".toList) = .stop (.panic "colors[idx]: index out of bounds") := by
    decide
  have h2 : plan "0.0,,,,".toList (signClass "1".toList)
      = .stop (.panic "1000i32.pow(commas): attempt to multiply with overflow") := by decide
  constructor
  · unfold dispatch
    rw [hv, h1]
    simp only [Bool.not_true, Bool.false_eq_true, if_false, run]
  · unfold dispatch
    rw [hv, h2]
    simp only [Bool.not_true, Bool.false_eq_true, if_false, run]

/-! ### fractions (ids 12, 13, 69, 70) -/

def fractionIds : List Nat := [12, 13, 69, 70]

theorem fraction_plans :
    (builtinCodes.filter (fun p => fractionIds.contains p.1)).all
      (fun p => signClasses.all (fun sc => plan p.2 sc == .fraction [] false)) = true := by
  decide +kernel

/-- **Fraction codes never panic**, and which way they go: a value whose text parses as `usize` (a whole
    number `0 ≤ n < 2^64` without sign) is shown as it is — the fraction formatter is not called; every other
    value (fractions, negative whole numbers, minus zero, whole numbers from `2^64` on) reaches
    `format_as_fraction`, whose only partial step — the text of `value.abs() % 1` with `0.` removed, parsed as
    `f64` and unwrapped — succeeds for every remainder text `0` / `0.D+`. -/
theorem C19_fraction_no_panic {F : Type} [FloatOps F] (p : Nat × List Char) (hp : p ∈ builtinCodes)
    (hid : fractionIds.contains p.1 = true) (v : List Char) (env : Env F) (hv : isPlainDecimal v = true)
    (hr : isFracText env.rem = true) :
    dispatch p.2 v env = if parsesAsUsize v then .ok .fractionWhole (some v) else .ok .fraction none := by
  have hmem : p ∈ builtinCodes.filter (fun p => fractionIds.contains p.1) := List.mem_filter.mpr ⟨hp, hid⟩
  have h1 := List.all_eq_true.mp fraction_plans p hmem
  have h2 := List.all_eq_true.mp h1 (signClass v) (signClass_mem _)
  have hpl : plan p.2 (signClass v) = .fraction [] false := by simpa using h2
  obtain ⟨s, hs⟩ := fractionDecimalPart_some env.rem hr
  unfold dispatch
  simp only [hv, Bool.not_true, Bool.false_eq_true, if_false, hpl, run, hs, List.nil_append]
  by_cases hq : parsesAsUsize v = true
  · have hd : v.all isDigit = true := by
      unfold parsesAsUsize at hq
      simp only [Bool.and_eq_true] at hq
      have hplus : ∀ r, v ≠ '+' :: r := by
        intro r e; subst e; revert hv; simp [isPlainDecimal, isDigit]
      revert hq
      split
      · rename_i r; exact absurd rfl (hplus r)
      · intro hq; exact hq.1.2
    simp only [hq, if_true, trimWs_digits v hd]
  · simp only [hq]; rfl

/-- whole numbers, negative whole numbers, minus zero, `2^64 - 1`, `2^64`, a fraction, the smallest double -/
example : parsesAsUsize "5".toList = true ∧ parsesAsUsize "-5".toList = false ∧ parsesAsUsize "-0".toList = false ∧
    parsesAsUsize "18446744073709551615".toList = true ∧ parsesAsUsize "18446744073709551616".toList = false ∧
    parsesAsUsize "0.5".toList = false := by decide
example : dispatch (F := Fix) "# ?/?".toList "-5".toList ⟨⟨0⟩, ⟨0⟩, "0".toList, [], []⟩ = .ok .fraction none := by
  decide +kernel
example : dispatch (F := Fix) "# ??/??".toList "18446744073709551616".toList ⟨⟨0⟩, ⟨0⟩, "0".toList, [], []⟩
    = .ok .fraction none := by decide +kernel
example : dispatch (F := Fix) "# ?/?".toList "5".toList ⟨⟨0⟩, ⟨0⟩, "0".toList, [], []⟩
    = .ok .fractionWhole (some "5".toList) := by decide +kernel
example : fractionDecimalPart "0".toList = some "0".toList ∧ fractionDecimalPart "0.05".toList = some "05".toList := by
  decide
/-- what a `strip_prefix("0.").unwrap()` in place of `replace("0.", "")` would do on the remainder `0` of a
    whole number (the seeded regression C19c): there is no such prefix -/
example : startsWith "0".toList "0.".toList = false := by decide

/-! ### fixed-decimal, percentage, scientific built-ins: the dispatcher reaches `formatFixed` / `formatPercent` -/

/-- (id, decimals, thousands, percent) -/
def fixedBuiltins : List (Nat × Nat × Bool × Bool) :=
  [(1, 0, false, false), (2, 2, false, false), (3, 0, true, false), (4, 2, true, false),
   (9, 0, false, true), (10, 2, false, true),
   (59, 0, false, false), (60, 2, false, false), (61, 0, true, false), (62, 2, true, false),
   (67, 0, false, true), (68, 2, false, true)]

def fixedPlan (q : Nat × Nat × Bool × Bool) : Plan :=
  if q.2.2.2 then .percent q.2.1 q.2.2.1 false else .number (some q.2.1) q.2.2.1 [] false

theorem fixed_plans :
    fixedBuiltins.all (fun q => builtinCodes.all (fun p =>
      p.1 != q.1 || signClasses.all (fun sc => plan p.2 sc == fixedPlan q))) = true := by
  decide +kernel

/-- **The built-in fixed-decimal and percentage ids reach exactly the renderer `C19_fixed` / `C19_percent` are
    about**, with the parameters read off the code: ids 1–4 and their Thai twins 59–62 call
    `formatFixed t n thousands`, ids 9, 10, 67, 68 `formatPercent t n thousands`, on the digits `t` of the value
    text, whatever the sign; nothing else is added and `trim` changes nothing.  With `C19_fixed` /
    `C19_percent` this makes the rounding theorems statements about these built-in ids. -/
theorem C19_dispatch_matches_fixed {F : Type} [FloatOps F] (q : Nat × Nat × Bool × Bool) (hq : q ∈ fixedBuiltins)
    (code : List Char) (hc : (q.1, code) ∈ builtinCodes) (v : List Char) (env : Env F) (t : DecText)
    (hv : isPlainDecimal v = true) (ht : parseDecText v = some t) :
    dispatch code v env =
      if q.2.2.2 then .ok .percent (some (formatPercent t q.2.1 q.2.2.1))
      else .ok .number (some (formatFixed t q.2.1 q.2.2.1)) := by
  have h1 := List.all_eq_true.mp fixed_plans q hq
  have h2 := List.all_eq_true.mp h1 (q.1, code) hc
  simp only [bne_self_eq_false, Bool.false_or] at h2
  have h3 := List.all_eq_true.mp h2 (signClass v) (signClass_mem _)
  have hpl : plan code (signClass v) = fixedPlan q := by simpa using h3
  unfold fixedPlan at hpl
  by_cases hpc : q.2.2.2 = true
  · rw [if_pos hpc] at hpl ⊢
    exact dispatch_of_plan_percent code v env t _ _ hv ht hpl
  · rw [if_neg hpc] at hpl ⊢
    exact dispatch_of_plan_number code v env t _ _ hv ht hpl

example : (4, 2, true, false) ∈ fixedBuiltins ∧ (4, "#,##0.00".toList) ∈ builtinCodes ∧
    parseDecText "-1234567.895".toList = some ⟨true, [1, 2, 3, 4, 5, 6, 7], [8, 9, 5]⟩ := by decide
example : dispatch (F := Fix) "#,##0.00".toList "-1234567.895".toList ⟨⟨0⟩, ⟨0⟩, [], [], []⟩
    = .ok .number (some "-1,234,567.90".toList) := by decide +kernel
example : dispatch (F := Fix) "0.00%".toList "0.1234".toList ⟨⟨0⟩, ⟨0⟩, [], [], []⟩
    = .ok .percent (some "12.34%".toList) := by decide +kernel

/-! ### scientific codes (ids 11, 48) -/

def scientificBuiltins : List (Nat × Nat) := [(11, 2), (48, 1)]

theorem scientific_plans :
    scientificBuiltins.all (fun q => builtinCodes.all (fun p =>
      p.1 != q.1 || signClasses.all (fun sc => plan p.2 sc == .number (some q.2) false [] false))) = true := by
  decide +kernel

/-- **Scientific codes never panic** — they are not rendered as scientific notation at all: `0.00E+00`
    (id 11) and `##0.0E+0` (id 48) take the plain number path, where `(0+)(\.?)(0*)` finds `0.00` / `000.0` and the
    rest of the code is ignored; the text is the fixed-decimal rendering with 2 / 1 decimals (a formatting
    shortcoming of the crate, not a panic; there is no mantissa / exponent code that could index out of range). -/
theorem C19_scientific_no_panic {F : Type} [FloatOps F] (q : Nat × Nat) (hq : q ∈ scientificBuiltins)
    (code : List Char) (hc : (q.1, code) ∈ builtinCodes) (v : List Char) (env : Env F) (t : DecText)
    (hv : isPlainDecimal v = true) (ht : parseDecText v = some t) :
    dispatch code v env = .ok .number (some (formatFixed t q.2 false)) := by
  have h1 := List.all_eq_true.mp scientific_plans q hq
  have h2 := List.all_eq_true.mp h1 (q.1, code) hc
  simp only [bne_self_eq_false, Bool.false_or] at h2
  have h3 := List.all_eq_true.mp h2 (signClass v) (signClass_mem _)
  exact dispatch_of_plan_number code v env t _ _ hv ht (by simpa using h3)

example : (11, "0.00E+00".toList) ∈ builtinCodes ∧ (48, "##0.0E+0".toList) ∈ builtinCodes := by decide
example : dispatch (F := Fix) "0.00E+00".toList "1234.5678".toList ⟨⟨0⟩, ⟨0⟩, [], [], []⟩
    = .ok .number (some "1234.57".toList) := by decide +kernel

/-! ### accounting codes (ids 37–40, 44) -/

def accountingBuiltins : List (Nat × Nat) := [(37, 0), (38, 0), (39, 2), (40, 2)]

theorem accounting_plans :
    accountingBuiltins.all (fun q => builtinCodes.all (fun p =>
      p.1 != q.1 || signClasses.all (fun sc => plan p.2 sc == .number (some q.2) true [] true))) = true := by
  decide +kernel

/-- the accounting code 44, by the sign of the value: the prefix that `\$[^0-9]*` captures from the chosen
    section after quotes, `*`, `_x` and `\` are gone -/
theorem accounting44_plans :
    builtinCodes.all (fun p => p.1 != 44 ||
      (plan p.2 .pos == .number (some 2) true "$ ".toList true &&
       plan p.2 .neg == .number (some 2) true "$ (".toList true &&
       plan p.2 .zero == .number none false "$ -??".toList true)) = true := by
  decide +kernel

/-- **Accounting codes never panic**, and what they show.  Ids 37–40 (`#,##0_);(#,##0)` …, two sections, the
    second optionally with `[Red]`): whatever the sign, the text is `formatFixed` of the ABSOLUTE value with
    0 / 2 decimals and separators — the parentheses (and the sign) of a negative number are lost, because
    `format_straight_numeric_value` ignores the rest of the section.  `t` is the split of `absText v`, the
    value text without its sign. -/
theorem C19_accounting_no_panic {F : Type} [FloatOps F] (q : Nat × Nat) (hq : q ∈ accountingBuiltins)
    (code : List Char) (hc : (q.1, code) ∈ builtinCodes) (v : List Char) (env : Env F) (t : DecText)
    (hv : isPlainDecimal v = true) (ht : parseDecText (absText v) = some t) :
    dispatch code v env = .ok .number (some (formatFixed t q.2 true)) := by
  have h1 := List.all_eq_true.mp accounting_plans q hq
  have h2 := List.all_eq_true.mp h1 (q.1, code) hc
  simp only [bne_self_eq_false, Bool.false_or] at h2
  have h3 := List.all_eq_true.mp h2 (signClass v) (signClass_mem _)
  have hpl : plan code (signClass v) = .number (some q.2) true [] true := by simpa using h3
  unfold dispatch
  simp only [hv, Bool.not_true, Bool.false_eq_true, if_false, hpl, run, List.nil_append, formatDecimalText, ht,
    trimWs_formatDecimal, formatFixed, if_true]

/-- Id 44 (`_("$"* #,##0.00_);_("$"* \(#,##0.00\);_("$"* "-"??_);_(@_)`, four sections): a positive value shows
    `$ ` and the rounded absolute value, a negative one `$ (` and the rounded absolute value (the closing
    parenthesis is lost), a zero `$ -??` followed by the value text (no digit placeholder in that section). -/
theorem C19_accounting44_no_panic {F : Type} [FloatOps F] (code : List Char) (hc : (44, code) ∈ builtinCodes)
    (v : List Char) (env : Env F) (t : DecText) (hv : isPlainDecimal v = true)
    (ht : parseDecText (absText v) = some t) :
    dispatch code v env =
      match signClass v with
      | .pos => .ok .number (some ("$ ".toList ++ formatFixed t 2 true))
      | .neg => .ok .number (some ("$ (".toList ++ formatFixed t 2 true))
      | .zero => .ok .numberRaw (some (trimWs ("$ -??".toList ++ absText v))) := by
  have h2 := List.all_eq_true.mp accounting44_plans (44, code) hc
  simp only [bne_self_eq_false, Bool.false_or, Bool.and_eq_true, beq_iff_eq] at h2
  obtain ⟨⟨hpos, hneg⟩, hzero⟩ := h2
  unfold dispatch
  simp only [hv, Bool.not_true, Bool.false_eq_true, if_false]
  cases hs : signClass v with
  | pos =>
    simp only [hpos, run, formatDecimalText, ht, if_true, formatFixed]
    rw [trimWs_prefixed _ t 2 true (by intro c hc; cases hc; decide)]
  | neg =>
    simp only [hneg, run, formatDecimalText, ht, if_true, formatFixed]
    rw [trimWs_prefixed _ t 2 true (by intro c hc; cases hc; decide)]
  | zero =>
    simp only [hzero, run, if_true]

example : (37, "#,##0_);(#,##0)".toList) ∈ builtinCodes ∧ (37, 0) ∈ accountingBuiltins ∧
    parseDecText (absText "-1234.5".toList) = some ⟨false, [1, 2, 3, 4], [5]⟩ := by decide
/-- the sign and the parentheses are lost -/
example : dispatch (F := Fix) "#,##0_);(#,##0)".toList "-1234.5".toList ⟨⟨0⟩, ⟨0⟩, [], [], []⟩
    = .ok .number (some "1,235".toList) := by decide +kernel
example : dispatch (F := Fix) "#,##0.00_);[Red](#,##0.00)".toList "-0.005".toList ⟨⟨0⟩, ⟨0⟩, [], [], []⟩
    = .ok .number (some "0.01".toList) := by decide +kernel
example : dispatch (F := Fix) "_(\"$\"* #,##0.00_);_(\"$\"* \\(#,##0.00\\);_(\"$\"* \"-\"??_);_(@_)".toList
    "-0".toList ⟨⟨0⟩, ⟨0⟩, [], [], []⟩ = .ok .numberRaw (some "$ -??0".toList) := by decide +kernel

/-! ### General and text (ids 0, 49) -/

/-- **General / `@` never panic**: the value text is returned as it is (no section splitting, no regex). -/
theorem C19_text_no_panic {F : Type} [FloatOps F] (v : List Char) (env : Env F) (hv : isPlainDecimal v = true) :
    (0, general) ∈ builtinCodes ∧ (49, textCode) ∈ builtinCodes ∧
    dispatch general v env = .ok .general (some v) ∧ dispatch textCode v env = .ok .text (some v) := by
  refine ⟨by decide, by decide, ?_, ?_⟩
  · have : ∀ sc, plan general sc = .general := by intro sc; cases sc <;> decide
    simp [dispatch, hv, this, run]
  · have : ∀ sc, plan textCode sc = .text := by intro sc; cases sc <;> decide
    simp [dispatch, hv, this, run]

example : dispatch (F := Fix) textCode "-0".toList ⟨⟨0⟩, ⟨0⟩, [], [], []⟩ = .ok .text (some "-0".toList) := by decide

/-! ### date / time codes -/

/-- the date/time ids: every built-in code whose plan is a date plan -/
theorem C19_dispatch_date_ids :
    (builtinCodes.filter (fun p => match plan p.2 .pos with
      | .date _ _ => true
      | _ => false)).map (·.1) =
      [14, 15, 16, 17, 18, 19, 20, 21, 22, 27, 28, 29, 30, 31, 32, 33, 34, 35, 36, 45, 46, 47, 50, 51, 52, 53, 54, 55,
       56, 57, 58] := by
  decide +kernel

/-- for the 11 date/time codes `C19_date_no_panic` already covered (no quote, no bracket), the strftime
    string the dispatcher computes is the one `strftimeOf` (the model those theorems are about) computes -/
theorem C19_dispatch_date_agrees :
    (builtinCodes.filter (fun p => (strftimeOf p.2).isSome)).all (fun p => signClasses.all (fun sc =>
      match plan p.2 sc with
      | .date segs false => strftimeOf p.2 == some (flatten segs [])
      | _ => false)) = true := by
  decide +kernel

end Umya.Thm.C19
