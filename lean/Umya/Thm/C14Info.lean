/-
  C14 — from the two STREAMS of the compound file: the EncryptionInfo stream is read back, by an independent reader,
  to the descriptor the encryptor filled in; with that, the statements of `Thm/C14.lean` hold for the decryptor
  applied to the stream contents (EncryptionInfo bytes, EncryptedPackage bytes) instead of the descriptor record.

  Property theorems only (helper lemmas: `Umya/Lemmas/AgileInfoW.lean`, `AgileInfoParse.lean`, `Base64.lean`).

  Writer side: `Umya.Crypt.buildEncryptionInfo i` — the 8-byte version / flags prefix and the XML text of
  `build_encryption_info` (`C14_info_matches_source` ties that text to the compiled source).
  Reader side: `Umya.Spec.Agile.parseInfo` — header check, then the XML 1.0 reader of `Umya/Spec/XmlLex.lean` and a walk
  over the element tree with namespace resolution (written from MS-OFFCRYPTO §2.3.4.10 and the XML recommendations,
  not from the Rust, not from quick-xml).

  Route: the text is `renderDoc` of a tree of writer calls (`C14_info_text_is_writer_calls`; `write_start_tag` escapes
  attribute values, the model's text has them as they are: equal on `plain` text), the reader returns the element tree
  of any such tree (`C02_bytes_parse`), the walk picks every attribute, decimal numbers read back
  (`natOf (decDigits n) = n`).

  Scope notes (not overstated):
  * hypothesis `InfoWF i`: the texts of the descriptor are printable ASCII without `& < > " '` (decidable; evaluated by the
    driver on every real descriptor).  For the descriptors `encrypt` makes it follows from `B64Plain P` (base64 text is
    plain), an explicit hypothesis on the abstract `P` that is a THEOREM for the executable base64
    (`C14_base64_plain`), as is `unb64 (b64 x) = some x` (`C14_base64_roundtrip`);
  * AES / SHA-512 / HMAC stay abstract with the laws `P.Lawful`;
  * bytes ↔ characters is the byte-wise (Latin-1 = ASCII here) reading on both sides;
  * the CFB container around the two streams is outside the model; freshness is not a functional property.
-/
import Umya.Lemmas.AgileInfoParse
import Umya.Lemmas.Base64
import Umya.Thm.C14
namespace Umya.Thm.C14
open Umya.Crypto Umya.Crypt Umya.Agile
open Umya.Spec.Agile (parseInfo decryptFile verifyFile)

/-- what the round trip asks of a descriptor: its thirteen texts (three algorithm names and a base64 salt per key-data
    block, five more base64 values) are `plain` — printable ASCII without `& < > " '`.  Numbers are unrestricted. -/
def InfoWF (i : Info) : Prop := infoPlain i = true

instance (i : Info) : Decidable (InfoWF i) := by unfold InfoWF; infer_instance

/-- base64 text is plain (a law of the real alphabet `A–Z a–z 0–9 + / =`; hypothesis on the abstract `P`) -/
def B64Plain (P : Prims) : Prop := ∀ x, plain (P.b64 x) = true

/-- **The stream is what the writer calls leave in the buffer**: the bytes of `build_encryption_info` are the prefix
    followed by `renderDoc` of the writer-call tree `infoW i` (declaration, new line, `write_start_tag` /
    `write_end_tag` calls with the attribute escape of `writer/driver.rs`), character for character. -/
theorem C14_info_text_is_writer_calls (i : Info) (h : InfoWF i) :
    buildEncryptionInfo i = infoStreamW i ∧ Umya.XmlWrite.renderDoc (infoW i) = encryptionInfoXml i := by
  have e := renderDoc_infoW i h
  exact ⟨by unfold buildEncryptionInfo infoStreamW charsToBytes; rw [e], e⟩

/-- **The independent reader returns the descriptor.**  For EVERY descriptor `i` with plain texts — any salt / verifier /
    key blobs (as base64 text), any algorithm names, any numbers — `parseInfo` applied to the bytes
    `build_encryption_info` writes (prefix `04 00 04 00 40 00 00 00`, XML declaration, `<encryption>` with its three
    namespace declarations, `<keyData/>`, `<dataIntegrity/>`, `<keyEncryptors><keyEncryptor uri=…><p:encryptedKey/>`)
    returns exactly `i`: all 8 + 2 + 1 + 8 + 3 fields. -/
theorem C14_info_parses (i : Info) (h : InfoWF i) : parseInfo (buildEncryptionInfo i) = some i := by
  unfold parseInfo buildEncryptionInfo
  rw [prefix_take, prefix_drop]
  simp only [ne_eq, not_true_eq_false, if_false]
  have hb := bytes_chars (encryptionInfoXml i) (encryptionInfoXml_ascii i h)
  unfold charsToBytes at hb
  rw [hb, ← renderDoc_infoW i h, parse_infoW i h]
  exact infoOfTree_infoNode i

/-- the element tree in between, for the record: what the XML reader delivers for the stream's text -/
theorem C14_info_tree (i : Info) (h : InfoWF i) :
    Umya.Spec.Xml.parse (encryptionInfoXml i) = some (infoNode i) ∧ Umya.Spec.Agile.infoOfTree (infoNode i) = some i := by
  rw [← renderDoc_infoW i h]
  exact ⟨parse_infoW i h, infoOfTree_infoNode i⟩

/-- non-vacuity: a descriptor with every kind of plain text (base64 with `+ / =`, names with digits and a dash,
    numbers of several lengths, an empty value) satisfies `InfoWF` -/
def demoInfo : Info :=
  { keyData := ⟨16, 16, 256, 64, aes, cbc, sha512Name, "q83vEjRWeJCrze8SNFZ4kA==".toList⟩
    encryptedHmacKey := "AAEC+/8=".toList, encryptedHmacValue := [], spinCount := 100000
    key := ⟨0, 7, 1234567, 64, "AES".toList, "x-y".toList, "SHA-1".toList, "Zm9v".toList⟩
    encryptedVerifierHashInput := "Zg==".toList, encryptedVerifierHashValue := "Zm8=".toList
    encryptedKeyValue := "a b".toList }

example : InfoWF demoInfo := by decide
example : parseInfo (buildEncryptionInfo demoInfo) = some demoInfo := C14_info_parses _ (by decide)

/-- the hypothesis is not idle: a quote inside a value is not plain -/
example : ¬ InfoWF { demoInfo with encryptedHmacKey := ['"'] } := by decide

/-! ### base64: the executable instance -/

/-- **base64 decoding inverts encoding** for every byte string (the executable `Prims.b64` / `unb64` of the driver):
    the law `unb64_b64` of `P.Lawful` is a theorem for it. -/
theorem C14_base64_roundtrip (bs : Bytes) : Umya.Base64.decode (Umya.Base64.encode bs) = some bs :=
  Umya.Base64.decode_encode bs

/-- … and its output is plain: `B64Plain` is a theorem for it. -/
theorem C14_base64_plain (bs : Bytes) : plain (Umya.Base64.encode bs) = true := Umya.Base64.encode_plain bs

/-- the toy primitives of `Thm/C14.lean` with the REAL base64: every law holds, and base64 text is plain -/
def toy64 : Prims := { toy with b64 := Umya.Base64.encode, unb64 := Umya.Base64.decode }

theorem toy64_lawful : toy64.Lawful where
  sha_len := toy_lawful.sha_len
  hmac_len := toy_lawful.hmac_len
  enc_len := toy_lawful.enc_len
  dec_enc := toy_lawful.dec_enc
  unb64_b64 := C14_base64_roundtrip

theorem toy64_plain : B64Plain toy64 := C14_base64_plain

/-! ### the descriptors `encrypt` makes -/

theorem names_plain : plain aes = true ∧ plain cbc = true ∧ plain sha512Name = true := by decide

/-- every descriptor `encrypt` fills in is well formed, whatever the package, password, random draws and spin count -/
theorem C14_encrypt_info_wf (P : Prims) (hb : B64Plain P) (spin : Nat) (data : Bytes) (pw : List Char) (ρ : Randoms) :
    InfoWF (encInfo P spin data pw ρ) := by
  simp only [InfoWF, infoPlain, keyDataPlain, encInfo, hb _, names_plain.1, names_plain.2.1, names_plain.2.2, Bool.and_self]

/-- **The file decrypts to exactly the package, from its two streams.**  For every package (below 4 GiB), password and
    draw of the random material: `encrypt` returns a descriptor and an `EncryptedPackage` stream, and the specification's
    reader applied to the BYTES of the `EncryptionInfo` stream `build_encryption_info` writes for that descriptor and to the
    bytes of the `EncryptedPackage` stream — parse the descriptor, verify the password, unwrap the key, check the HMAC
    over the whole stream, decrypt the segments, cut to StreamSize — returns the package, byte for byte. -/
theorem C14_decrypts_text (P : Prims) (hP : P.Lawful) (hb : B64Plain P) (data : Bytes) (pw : List Char) (ρ : Randoms)
    (hρ : ρ.wellFormed) (hn : data.length < 4294967296) :
    ∃ info pkg, encrypt P data pw ρ = some (info, pkg) ∧
      decryptFile P (buildEncryptionInfo info) pkg pw = some data := by
  obtain ⟨info, pkg, he, hd⟩ := C14_decrypts P hP data pw ρ hρ hn
  refine ⟨info, pkg, he, ?_⟩
  have hi : info = encInfo P 100000 data pw ρ := by
    have := encryptWith_eq P hP 100000 data pw ρ hρ
    unfold encrypt at he
    rw [this] at he
    injection he with he
    exact (congrArg Prod.fst he).symm
  unfold decryptFile
  rw [C14_info_parses info (hi ▸ C14_encrypt_info_wf P hb _ data pw ρ)]
  exact hd

/-- hypotheses of `C14_decrypts_text` are satisfiable (real base64, toy cipher / hash), 5000-byte package -/
example : toy64.Lawful ∧ B64Plain toy64 ∧ toyRandoms.wellFormed ∧ (List.replicate 5000 (9 : UInt8)).length < 4294967296 :=
  ⟨toy64_lawful, toy64_plain, toyRandoms_wf, by rw [List.length_replicate]; omega⟩

/-- **Verifier, HMAC, length — from the streams**: the descriptor read from the stream is the one written, the password
    verifier run on the stream matches, the key it unwraps is the package key, the HMAC over the entire
    `EncryptedPackage` stream verifies under it, and the declared StreamSize is the package length. -/
theorem C14_verifier_hmac_len_text (P : Prims) (hP : P.Lawful) (hb : B64Plain P) (data : Bytes) (pw : List Char)
    (ρ : Randoms) (hρ : ρ.wellFormed) (hn : data.length < 4294967296) :
    ∃ info pkg hn', encrypt P data pw ρ = some (info, pkg) ∧
      parseInfo (buildEncryptionInfo info) = some info ∧
      verifyFile P (buildEncryptionInfo info) pw = some hn' ∧
      Umya.Spec.Agile.packageKey P info hn' = some ρ.packageKey ∧
      Umya.Spec.Agile.integrityOk P info ρ.packageKey pkg = true ∧
      Umya.Spec.Agile.declaredSize pkg = data.length := by
  obtain ⟨info, pkg, hn', he, hv, hk, hi, hl⟩ := C14_verifier_hmac_len P hP data pw ρ hρ hn
  have hinfo : info = encInfo P 100000 data pw ρ := by
    have := encryptWith_eq P hP 100000 data pw ρ hρ
    unfold encrypt at he
    rw [this] at he
    injection he with he
    exact (congrArg Prod.fst he).symm
  have hp := C14_info_parses info (hinfo ▸ C14_encrypt_info_wf P hb _ data pw ρ)
  exact ⟨info, pkg, hn', he, hp, by unfold verifyFile; rw [hp]; exact hv, hk, hi, hl⟩

/-- **A different password fails verification — from the streams** (under `VerifierRejects`, as in
    `C14_wrong_password`): the verifier run on the EncryptionInfo stream rejects `pw'`, and the reader of the two streams
    returns nothing. -/
theorem C14_wrong_password_text (P : Prims) (hP : P.Lawful) (hb : B64Plain P) (spin : Nat) (data : Bytes)
    (pw pw' : List Char) (ρ : Randoms) (hρ : ρ.wellFormed) (h : VerifierRejects P spin pw pw' ρ) :
    ∃ info pkg, encryptWith P spin data pw ρ = some (info, pkg) ∧
      verifyFile P (buildEncryptionInfo info) pw' = none ∧
      decryptFile P (buildEncryptionInfo info) pkg pw' = none := by
  obtain ⟨info, pkg, he, hv, hd⟩ := C14_wrong_password P hP spin data pw pw' ρ hρ h
  have hinfo : info = encInfo P spin data pw ρ := by
    rw [encryptWith_eq P hP spin data pw ρ hρ] at he
    injection he with he
    exact (congrArg Prod.fst he).symm
  have hp := C14_info_parses info (hinfo ▸ C14_encrypt_info_wf P hb _ data pw ρ)
  exact ⟨info, pkg, he, by unfold verifyFile; rw [hp]; exact hv, by unfold decryptFile; rw [hp]; exact hd⟩

/-- the hypotheses of `C14_wrong_password_text` are jointly satisfiable with the real base64 (`VerifierRejects` does not
    mention base64: the witness of `Thm/C14.lean` carries over) -/
example : toy64.Lawful ∧ B64Plain toy64 ∧ toyRandoms.wellFormed ∧ VerifierRejects toy64 0 ['a'] ['b'] toyRandoms := by
  refine ⟨toy64_lawful, toy64_plain, toyRandoms_wf, ?_⟩
  unfold VerifierRejects
  decide

end Umya.Thm.C14
