/-
  C19 — tie to the source (T), part 3: `excel_to_date_time_object_checked` of src/helper/date.rs (fix d30eec7), the
  conversion `format_as_date` rests on, compiled to Lean from the CURRENT source on every run (tools/extract_fns.py →
  Umya/Model/Gen/Fns.lean), equals the hand model the C19 date theorems are about, for all arguments.
-/
import Umya.Lemmas.FnsGenDate
namespace Umya.Thm.C19
open Umya.Date

/-- **Tie to the source (T).**  `excel_to_date_time_object_checked` as it is in the source — the three base dates
    with the thresholds 1 and 60, the floor / subtract / ×24 / floor / ×60 / floor / ×60 / round chain, the
    saturating `as i64`, then `base_date.checked_add_signed(Duration::try_days(..)?)?` … `try_hours`, `try_minutes`,
    `try_seconds`, every `?` an early `None` — is, for every float interface `F`, every value and every (unused)
    time-zone argument, the model's `excelToEpochSecondsChecked` (`none` = the function returns `None`); the
    run-time library's `TimeDelta` / `NaiveDateTime` bounds are the model's `trySeconds` / `tryUnits` /
    `checkedAddSigned` / `chronoMinSec` / `chronoMaxSec`; chrono's calendar = the reference calendar.
    Last clause: the end of `format_as_date` (src/helper/number_format/date_formater.rs) as it is in the source —
    `match excel_to_date_time_object_checked(value, None) { Some(v) => v, None => return value.to_string() }`, then
    chrono's rendering — followed by the trimming of `to_formatted_string`, is the model's `formatAsDateChecked`
    (`g` = `f64::to_string(value)`; chrono's `format` represented by the model's `strftime`). -/
theorem C19_date_checked_matches_source :
    (∀ (F : Type) [FloatOps F] (ts : F) (tz : Option (List Char)),
      Umya.Gen.excel_to_date_time_object_checked F Umya.Gen.refChrono ts tz = excelToEpochSecondsChecked ts) ∧
    (Umya.Gen.rt_try_units = tryUnits ∧ Umya.Gen.rt_try_seconds = trySeconds ∧
     (∀ t d, Umya.Gen.rt_checked_add_signed Umya.Gen.refChrono t d = checkedAddSigned t d) ∧
     Umya.Gen.Chrono.midnight Umya.Gen.refChrono (-262143) 1 1 = chronoMinSec ∧
     Umya.Gen.Chrono.midnight Umya.Gen.refChrono 262142 12 31 + 86399 = chronoMaxSec) ∧
    (∀ (F : Type) [FloatOps F] (f g sf : List Char) (ts : F), strftimeOf f = some sf →
      (Umya.Gen.format_as_date_tail F Umya.Gen.refChrono (fun t s => strftime (ofEpochSeconds t) s (s.length + 1))
          (fun _ => g) ts sf).map trimBlanks = formatAsDateChecked f g ts) :=
  ⟨fun F _ ts tz => Umya.Gen.gen_excel_to_date_time_object_checked F ts tz,
   ⟨rfl, rfl, fun _ _ => rfl, rfl, rfl⟩,
   fun F _ f g sf ts h => Umya.Gen.gen_format_as_date_tail F f g sf ts h⟩

/-- instances: inside chrono's range, beyond `NaiveDateTime::MAX`, beyond `TimeDelta` -/
example : Umya.Gen.excel_to_date_time_object_checked Fix Umya.Gen.refChrono ⟨86400 * 45435 + 3600⟩ none = some 1716426000 := by decide
example : Umya.Gen.excel_to_date_time_object_checked Fix Umya.Gen.refChrono ⟨86400 * 95051806⟩ none = none := by decide
example : Umya.Gen.excel_to_date_time_object_checked Fix Umya.Gen.refChrono ⟨86400 * 200000000000000⟩ none = none := by decide

end Umya.Thm.C19
