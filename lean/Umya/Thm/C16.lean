/-
  C16 — Concurrent saves of a workbook or its clones equal sequential saves.

  After the per-save table fix the savers share no mutable state: each `make_buffer` registers its
  strings in a table of its own.  The model runs any schedule of atomic steps (a registration, or
  the final dump) of any number of savers; the theorem says every saver ends with exactly what it
  would have produced alone.  Real lock poisoning and OS scheduling are outside the model.
-/
import Umya.Lemmas.SharedStrings
namespace Umya.Thm.C16
open Umya.Sst

def iter (n : Nat) (s : Saver) : Saver := Nat.rec s (fun _ acc => acc.step) n

theorem iter_succ (n : Nat) (s : Saver) : iter (n + 1) s = (iter n s).step := rfl

theorem iter_step_comm (n : Nat) (s : Saver) : iter n s.step = (iter n s).step := by
  induction n with
  | zero => rfl
  | succ n ih => rw [iter_succ, iter_succ, ih]

def count (i : Nat) (σ : List Nat) : Nat := (σ.filter (· = i)).length

theorem stepAt_get (ss : List Saver) (i j : Nat) :
    (stepAt ss i)[j]? = if i = j then (ss[j]?).map Saver.step else ss[j]? := by
  induction ss generalizing i j with
  | nil => simp [stepAt]
  | cons s ss ih =>
    cases i with
    | zero =>
      cases j with
      | zero => simp [stepAt]
      | succ j => simp [stepAt]
    | succ i =>
      cases j with
      | zero => simp [stepAt]
      | succ j => simp only [stepAt, List.getElem?_cons_succ, ih i j]; simp

/-- Under ANY schedule a saver's state is its own program run for as many steps as the schedule
    gave it: the other savers' steps have no effect on it. -/
theorem runSched_get (ss : List Saver) (σ : List Nat) (j : Nat) :
    (runSched ss σ)[j]? = (ss[j]?).map (iter (count j σ)) := by
  induction σ generalizing ss with
  | nil => simp only [runSched, List.foldl_nil, count, List.filter_nil, List.length_nil]; cases ss[j]? <;> rfl
  | cons i σ ih =>
    simp only [runSched, List.foldl_cons] at ih ⊢
    rw [ih (stepAt ss i), stepAt_get]
    by_cases h : i = j
    · subst h
      simp only [if_true, count, List.filter_cons, decide_true, if_true, List.length_cons]
      cases ss[i]? with
      | none => rfl
      | some s => simp [iter_succ, iter_step_comm]
    · have : count j (i :: σ) = count j σ := by simp [count, List.filter_cons, h]
      simp [h, this]

/-- a saver alone: after registering everything and dumping, it holds the table and the indices
    of a sequential registration of its strings, and further steps change nothing -/
theorem solo_done (todo : List Text) (t : Table) (got : List Nat) (k : Nat) (hk : todo.length + 1 ≤ k) :
    iter k { todo := todo, table := t, got := got } =
      { todo := [], table := (internAll t todo).1, got := got ++ (internAll t todo).2,
        dumped := some (internAll t todo).1 } := by
  induction todo generalizing t got k with
  | nil =>
    induction k with
    | zero => simp at hk
    | succ k ih =>
      cases k with
      | zero =>
        show ({ todo := [], table := t, got := got } : Saver).step = _
        simp [Saver.step, internAll]
      | succ k =>
        rw [iter_succ, ih (by simp)]
        simp [Saver.step]
  | cons x xs ih =>
    cases k with
    | zero => simp at hk
    | succ k =>
      have : iter (k + 1) ({ todo := x :: xs, table := t, got := got } : Saver)
          = iter k ({ todo := x :: xs, table := t, got := got } : Saver).step := by
        rw [iter_step_comm]; rfl
      rw [this]
      simp only [Saver.step]
      rw [ih (intern t x).1 (got ++ [(intern t x).2]) k (by simp at hk ⊢; omega)]
      simp [internAll, List.append_assoc]

/-- **Any interleaving**: for any number of savers with any string lists and any schedule that
    lets saver `j` finish (at least `#strings + 1` of its steps), saver `j`'s file has exactly the
    content its save alone would have produced: the table of a sequential registration, the same
    indices — hence every text cell shows its own string. -/
theorem C16_any_schedule (progs : List (List Text)) (σ : List Nat) (j : Nat) (todo : List Text)
    (hj : progs[j]? = some todo) (hfin : todo.length + 1 ≤ count j σ) :
    (runSched (progs.map (fun p => ({ todo := p } : Saver))) σ)[j]? =
      some { todo := [], table := (internAll [] todo).1, got := (internAll [] todo).2,
             dumped := some (internAll [] todo).1 } := by
  rw [runSched_get]
  simp only [List.getElem?_map, hj, Option.map_some]
  rw [solo_done todo [] [] _ hfin]
  simp

/-- the same for savers of a lazily read workbook that still has a raw sheet: each starts from a private
    copy of the loaded table (`make_buffer`), and ends with what a save alone produces from that table -/
theorem C16_any_schedule_loaded (loaded : Table) (progs : List (List Text)) (σ : List Nat) (j : Nat) (todo : List Text)
    (hj : progs[j]? = some todo) (hfin : todo.length + 1 ≤ count j σ) :
    (runSched (progs.map (fun p => ({ todo := p, table := loaded } : Saver))) σ)[j]? =
      some { todo := [], table := (internAll loaded todo).1, got := (internAll loaded todo).2,
             dumped := some (internAll loaded todo).1 } := by
  rw [runSched_get]
  simp only [List.getElem?_map, hj, Option.map_some]
  rw [solo_done todo loaded [] _ hfin]
  simp

/-- the loaded table stays in front, so the indices of the raw sheets (copied verbatim) keep their strings -/
theorem C16_loaded_prefix (loaded : Table) (todo : List Text) (i : Nat) (x : Text) (hx : loaded[i]? = some x) :
    (internAll loaded todo).1[i]? = some x := by
  induction todo generalizing loaded with
  | nil => simpa [internAll] using hx
  | cons y ys ih =>
    simp only [internAll]
    apply ih
    unfold intern
    split
    · exact hx
    · simp only
      rw [List.getElem?_append_left]
      · exact hx
      · rcases Nat.lt_or_ge i loaded.length with h | h
        · exact h
        · rw [List.getElem?_eq_none h] at hx; simp at hx

/-- and what it wrote decodes to its own strings -/
theorem C16_decodes (todo : List Text) (k : Nat) (x : Text) (hx : todo[k]? = some x) :
    ∃ i : Nat, (internAll [] todo).2[k]? = some i ∧ (internAll [] todo).1[i]? = some x :=
  (internAll_spec [] todo).2.2.2.2 k x hx

theorem count_append (j : Nat) (a b : List Nat) : count j (a ++ b) = count j a + count j b := by
  simp [count, List.filter_append]

theorem count_replicate_self (j n : Nat) : count j (List.replicate n j) = n := by
  simp only [count]
  rw [List.filter_eq_self.2]
  · simp
  · intro a ha; simp [List.eq_of_mem_replicate ha]

/-- No step ever blocks in the model: every partial schedule can be extended to one in which every
    saver finishes (there is no lock to wait for between savers). -/
theorem C16_progress (progs : List (List Text)) (σ : List Nat) :
    ∃ σ', ∀ j todo, progs[j]? = some todo → todo.length + 1 ≤ count j (σ ++ σ') := by
  refine ⟨(List.range progs.length).flatMap (fun j => List.replicate ((progs[j]?.getD []).length + 1) j), ?_⟩
  intro j todo hj
  have hjlt : j < progs.length := by
    rcases Nat.lt_or_ge j progs.length with h | h
    · exact h
    · rw [List.getElem?_eq_none h] at hj; simp at hj
  have hmem : j ∈ List.range progs.length := List.mem_range.2 hjlt
  obtain ⟨l1, l2, hl⟩ := List.append_of_mem hmem
  rw [hl]
  simp only [List.flatMap_append, List.flatMap_cons, count_append, hj, Option.getD_some, count_replicate_self]
  omega

/-! ### non-vacuity -/

example : (runSched [{ todo := [['a'], ['b']] }, { todo := [['b'], ['a'], ['c']] }] [1, 0, 1, 1, 0, 0, 1])[0]? =
    some { todo := [], table := [['a'], ['b']], got := [0, 1], dumped := some [['a'], ['b']] } := by decide

end Umya.Thm.C16
