/-
  C17 — the PARSE-THEN-PRINT direction of the codecs (`print (parse t) = t` for every text `t` of an explicit, decidable
  grammar of canonical spellings — `Umya/Model/CoordCanon.lean`), the bijection it gives with the print-then-parse
  theorems of `Umya/Thm/C17.lean`, the library's re-quoting of sheet qualifiers (`canonArea`), and the round trip of
  `get_address_ptn2` for sheet names with apostrophes.

  Property theorems only; helper lemmas in `Umya/Lemmas/CoordParse.lean`, `CoordParseAddr.lean`, `CoordParseQuote.lean`.
-/
import Umya.Lemmas.CoordParseQuote
namespace Umya.Thm.C17
open Umya.Coord Umya.Dec Umya.Annot

/-! ### columns -/

/-- Letters → index → letters, in the grammar's terms (`canonLettersB s`: the text is `[A-Z]{1,3}`): the link to
    `C17_index_alpha`, with the bound of the value made explicit. -/
theorem C17_column_parse_print (s : List Char) (h : canonLettersB s = true) :
    ∃ n, columnIndexFromString s = .ok n ∧ (1 ≤ n ∧ n ≤ 18278) ∧ indexToAlpha n = s := by
  have h' := h
  simp only [canonLettersB, Bool.and_eq_true, decide_eq_true_eq] at h'
  obtain ⟨n, h1, h2, h3⟩ := C17_index_alpha s h'.2 h'.1
  obtain ⟨v1, v2, v3⟩ := canonLetters_spec s h
  have : n = valRev s.reverse := by
    have e1 := C17_alpha_index n h2
    have e2 := C17_alpha_index _ v1
    rw [h3] at e1; rw [v3] at e2
    rw [← e1, ← e2]
  exact ⟨n, h1, ⟨h2, by rw [this]; exact v2⟩, h3⟩

example : canonLettersB "XFD".toList = true ∧ canonLettersB "xfd".toList = false ∧ canonLettersB "AAAA".toList = false := by
  decide

/-! ### coordinates -/

/-- **Coordinate text → index → text.**  For EVERY text `t` of the grammar `\$?[A-Z]{1,3}\$?(0|[1-9][0-9]*)` (anchored;
    the row without a leading zero and below 2^32 — `canonCellB`, decidable), `index_from_coordinate` delivers a column in
    1 … 18278, a row, both lock flags, and `coordinate_from_index_with_lock` of them prints `t` again, without panic. -/
theorem C17_coord_parse_print (t : List Char) (h : canonCellB t = true) :
    ∃ c r lc lr, indexFromCoordinate t = (some c, some r, some lc, some lr) ∧ (1 ≤ c ∧ c ≤ 18278) ∧ r < 4294967296 ∧
      coordinateFromIndexWithLock? c r lc lr = some t ∧ coordinateFromIndexWithLock c r lc lr = t := by
  obtain ⟨c, r, hc, hr, e⟩ := canonCell_spec t h
  have hp := indexFromCoordinate_suffix c r [] hc hr (Or.inl rfl)
  have et : coordinateFromIndexWithLock c.num r.num c.lock r.lock = t := by
    rw [e]; simp [coordinateFromIndexWithLock, colRefText, rowRefText]
  refine ⟨c.num, r.num, c.lock, r.lock, ?_, hc, hr, ?_, et⟩
  · rw [e]; simpa using hp
  · simp only [coordinateFromIndexWithLock?, hc.1, if_true]
    exact congrArg some et

/-- the same as one equation: `print ∘ parse` is the identity on the grammar -/
theorem C17_coord_reprint (t : List Char) (h : canonCellB t = true) : coordReprint t = some t := by
  obtain ⟨c, r, lc, lr, h1, _, _, h2, _⟩ := C17_coord_parse_print t h
  simp only [coordReprint, h1, h2]

/-- **… and what the parser does with a longer text**: the pattern is unanchored, so whatever follows a complete
    coordinate (anything not starting with a digit) is IGNORED: `print (parse (t ++ rest)) = t`.  On such texts the parser
    is not an inverse of the printer (witness `A1B` below). -/
theorem C17_coord_trailing_ignored (t rest : List Char) (h : canonCellB t = true)
    (hrest : ∃ ch rs, rest = ch :: rs ∧ isDigit ch = false) :
    indexFromCoordinate (t ++ rest) = indexFromCoordinate t ∧ coordReprint (t ++ rest) = some t ∧
      coordReprint (t ++ rest) ≠ some (t ++ rest) := by
  obtain ⟨c, r, hc, hr, e⟩ := canonCell_spec t h
  have hp := indexFromCoordinate_suffix c r rest hc hr (Or.inr hrest)
  have hp0 := indexFromCoordinate_suffix c r [] hc hr (Or.inl rfl)
  have e1 : indexFromCoordinate (t ++ rest) = indexFromCoordinate t := by
    rw [e, hp]; simpa using hp0.symm
  have e2 : coordReprint (t ++ rest) = some t := by
    have := C17_coord_reprint t h
    simp only [coordReprint] at this ⊢
    rw [e1]; exact this
  refine ⟨e1, e2, ?_⟩
  rw [e2]
  obtain ⟨ch, rs, hre, _⟩ := hrest
  intro hc'
  injection hc' with hc'
  have := congrArg List.length hc'
  simp [hre] at this

/-- witnesses: `A1B` re-prints as `A1`; a row with a leading zero re-prints without it; a lower-case text does not parse -/
example : coordReprint "A1B".toList = some "A1".toList ∧ coordReprint "A01".toList = some "A1".toList ∧
    coordReprint "a1".toList = none ∧ coordReprint "AAAA1".toList = none ∧
    canonCellB "A1B".toList = false ∧ canonCellB "A01".toList = false ∧ canonCellB "a1".toList = false := by
  decide +kernel

/-- non-vacuity: the last cell of the grid with both locks, a cell with row 0, the largest column and row of the codec -/
example : canonCellB "$XFD$1048576".toList = true ∧ canonCellB "A0".toList = true ∧
    canonCellB "ZZZ4294967295".toList = true ∧ canonCellB "ZZZ4294967296".toList = false := by
  decide +kernel

/-! ### ranges -/

/-- **Range text → range → text.**  For EVERY text of the grammar `canonRangeB` — `cell`, `cell:cell`, `col:col`,
    `row:row` with every part in canonical spelling (`$` optional, 1–3 upper-case letters, rows `0|[1-9][0-9]*` below
    2^32) — `Range::set_range` on a default range does not panic, delivers a range of one of the four shapes inside the
    bounds, and `get_range` prints the text again. -/
theorem C17_range_parse_print (t : List Char) (h : canonRangeB t = true) :
    ∃ ρ, Range.parse t = .ok ρ ∧ Range.IsShape ρ ∧ Range.InBounds ρ ∧ ρ.print = t := by
  obtain ⟨ρ, hs, hb, e⟩ := canonRange_spec t h
  exact ⟨ρ, by rw [e]; exact C17_range ρ hs hb, hs, hb, e.symm⟩

theorem C17_range_reprint (t : List Char) (h : canonRangeB t = true) : rangeReprint t = .ok t := by
  obtain ⟨ρ, h1, _, _, h2⟩ := C17_range_parse_print t h
  simp only [rangeReprint, h1, h2]

/-- **Parse and print are mutually inverse bijections** between the canonical texts (`canonRangeB`) and the ranges of the
    four shapes inside the bounds (`IsShape`, `InBounds`): print maps the ranges INTO the grammar and parse inverts it
    there (`C17_range`); parse maps the grammar INTO those ranges and print inverts it there. -/
theorem C17_range_bijection :
    (∀ ρ : Range, Range.IsShape ρ → Range.InBounds ρ → canonRangeB ρ.print = true ∧ Range.parse ρ.print = .ok ρ) ∧
    (∀ t : List Char, canonRangeB t = true →
      ∃ ρ, Range.parse t = .ok ρ ∧ Range.IsShape ρ ∧ Range.InBounds ρ ∧ ρ.print = t) :=
  ⟨fun ρ hs hb => ⟨canonRange_print ρ hs hb, C17_range ρ hs hb⟩, C17_range_parse_print⟩

/-- non-vacuity: the four shapes -/
example : canonRangeB "$B$2:XFD$1048576".toList = true ∧ canonRangeB "C7".toList = true ∧
    canonRangeB "$A:XFD".toList = true ∧ canonRangeB "1:$1048576".toList = true := by
  decide +kernel

/-- outside the grammar (and NOT fixed points of print ∘ parse): lower case, a leading zero, a mixed pair, three parts
    (panic) -/
example : canonRangeB "a1:b2".toList = false ∧ rangeReprint "a1:b2".toList = .ok [] ∧
    canonRangeB "A01".toList = false ∧ rangeReprint "A01".toList = .ok "A1".toList ∧
    canonRangeB "A1:5".toList = false ∧
    canonRangeB "A1:B2:C3".toList = false ∧ rangeReprint "A1:B2:C3".toList = .panic := by
  decide +kernel

/-! ### `split_address` / `join_address` -/

theorem dropWhile_all {α} (p : α → Bool) (l : List α) (h : ∀ x ∈ l, p x = true) : l.dropWhile p = [] := by
  induction l with
  | nil => rfl
  | cons a t ih =>
    simp only [List.dropWhile_cons, h a (by simp), if_true]
    exact ih (fun x hx => h x (List.mem_cons_of_mem _ hx))

theorem rsplitBang_none (t : List Char) (h : '!' ∉ t) : rsplitBang t = none := by
  have hd : t.reverse.dropWhile (fun x => decide (x ≠ '!')) = [] := by
    apply dropWhile_all
    intro x hx
    have : x ∈ t := List.mem_reverse.1 hx
    simp only [ne_eq, decide_not, Bool.not_eq_eq_eq_not, Bool.not_true, decide_eq_false_iff_not]
    intro e; subst e; exact h this
  simp only [rsplitBang, hd]

/-- **`join_address (split_address t)`**: which texts come back, in which spelling.
    * a text without `!` (no qualifier) comes back as it is;
    * `q!a` whose qualifier `q` is not wrapped in apostrophes (`strip_sheet_quote q = q`: every unquoted name) comes back
      as it is;
    * `'n'!a` comes back WITHOUT the apostrophes, `n!a` — `join_address` never quotes, and nothing is un-doubled here
      (`''` inside `n` stays `''`); the quoting printer is `Address::get_address_ptn2`, see `C17_address_canon`. -/
theorem C17_address_parse_print :
    (∀ t : List Char, '!' ∉ t → addrRejoin t = t) ∧
    (∀ q a : List Char, q ≠ [] → stripSheetQuote q = q → '!' ∉ a → addrRejoin (q ++ '!' :: a) = q ++ '!' :: a) ∧
    (∀ n a : List Char, n ≠ [] → '!' ∉ a →
      addrRejoin (('\'' :: (n ++ ['\''])) ++ '!' :: a) = n ++ '!' :: a) := by
  refine ⟨?_, ?_, ?_⟩
  · intro t h
    simp [addrRejoin, splitAddress, rsplitBang_none t h, joinAddress]
  · intro q a hq hs ha
    have hne : q.isEmpty = false := by cases q <;> simp_all
    simp only [addrRejoin, splitAddress, rsplitBang_join q a ha, hs, joinAddress, hne, Bool.false_eq_true, if_false,
      List.append_assoc, List.singleton_append]
  · intro n a hn ha
    have hne : n.isEmpty = false := by cases n <;> simp_all
    simp only [addrRejoin, splitAddress, rsplitBang_join _ a ha, stripSheetQuote_quoted, joinAddress, hne,
      Bool.false_eq_true, if_false, List.append_assoc, List.singleton_append]

/-- clauses 1 and 2 as one decidable hypothesis on the text (`addrPlainB`, evaluated by the driver) -/
theorem C17_address_rejoin (t : List Char) (h : addrPlainB t = true) : addrRejoin t = t := by
  unfold addrPlainB at h
  split at h
  · rename_i hn
    simp [addrRejoin, splitAddress, hn, joinAddress]
  · rename_i q a hs
    simp only [Bool.and_eq_true, Bool.not_eq_true', decide_eq_true_eq] at h
    obtain ⟨ht, ha⟩ := rsplitBang_some_eq t q a hs
    rw [ht]
    exact C17_address_parse_print.2.1 q a (by intro e; rw [e] at h; simp at h) h.2 ha

example : addrRejoin "Sheet1!$A$1".toList = "Sheet1!$A$1".toList ∧
    addrRejoin "'My Sheet'!A1".toList = "My Sheet!A1".toList ∧ addrRejoin "'It''s'!A1".toList = "It''s!A1".toList ∧
    addrRejoin "A1:B2".toList = "A1:B2".toList := by decide

/-! ### the library's quoting rule, and what `get_address_ptn2` prints for a parsed area -/

/-- **The exact set of names printed without apostrophes.**  `get_address_ptn2` quotes a sheet name unless it is made of
    `[0-9a-zA-Z]` only AND `index_from_coordinate(name)` finds nothing — and that unanchored pattern finds a column in
    every name that starts with an upper-case letter and a row in every name that starts with a run of digits fitting
    `u32`.  So the names printed bare are exactly: `[0-9a-zA-Z]*` starting with a LOWER-case letter, or with a run of
    digits whose value is ≥ 2^32 (or the empty name, which prints no qualifier at all). -/
theorem C17_quote_rule (n : List Char) : needsQuote n = !plainByLibraryB n := needsQuote_eq n

example : needsQuote "Sheet1".toList = true ∧ needsQuote "sheet1".toList = false ∧ needsQuote "a_b".toList = true ∧
    needsQuote "123".toList = true ∧ needsQuote "99999999999".toList = false ∧ needsQuote "x1".toList = false ∧
    needsQuote "R1C1".toList = true := by decide +kernel

/-- `get_address_ptn2` = re-quoted name, `!`, range text -/
theorem C17_address_text (a : Address) (h : a.sheet ≠ []) : a.text = quoteName a.sheet ++ '!' :: a.range.print :=
  addressText_quoteName _ _ h

/-- **One area, text → area → text.**  For EVERY text `t = qualifier!cell` or `qualifier!cell:cell` of the grammar
    `canonAreaB` — the qualifier EITHER unquoted (a legal sheet name without `' ( ) " ,`) OR `'…'` around a legal name with
    every apostrophe doubled; the cells in canonical spelling — `add_address` (un-doubling, `split_address`,
    `Range::set_range`) reads an area `a` with a legal sheet name and a range inside the bounds, and
    `get_address_ptn2` prints `canonArea t`: the same cells behind the qualifier RE-QUOTED by the library's own rule
    (`C17_quote_rule`).  `canonArea` is idempotent and keeps the meaning: `canonArea t` parses to the same area. -/
theorem C17_address_canon (t : Text) (h : canonAreaB t = true) :
    ∃ a : Address, AreaOK a ∧ Address.parse (undouble t) = .ok a ∧ a.text = canonArea t ∧
      canonAreaB (canonArea t) = true ∧ canonArea (canonArea t) = canonArea t ∧
      Address.parse (undouble (canonArea t)) = .ok a := by
  obtain ⟨a, hok, _, _, _, hp, ht⟩ := canonArea_piece t h
  obtain ⟨h1, h2⟩ := canonArea_text a hok
  refine ⟨a, hok, hp, ht, ?_, ?_, ?_⟩
  · rw [← ht]; exact h1
  · rw [← ht]; exact h2
  · rw [← ht]; exact parse_area a hok

/-- Excel's spelling gets quotes, the library's keeps them, a lower-case plain name loses them -/
example : canonArea "Sheet1!$A$1".toList = "'Sheet1'!$A$1".toList ∧
    canonArea "'Sheet1'!$A$1".toList = "'Sheet1'!$A$1".toList ∧
    canonArea "'data'!A1:B2".toList = "data!A1:B2".toList ∧ canonArea "data!A1:B2".toList = "data!A1:B2".toList ∧
    canonArea "'It''s'!$A$1".toList = "'It''s'!$A$1".toList ∧
    canonAreaB "Sheet1!$A$1".toList = true ∧ canonAreaB "'It''s'!$A$1".toList = true ∧
    canonAreaB "'data'!A1:B2".toList = true ∧ canonAreaB "'It's'!$A$1".toList = false ∧
    canonAreaB "Sheet1!$A$01".toList = false ∧ canonAreaB "Sheet1!$A:$B".toList = false := by
  decide +kernel

/-! ### `get_address_ptn2` with apostrophes in the sheet name -/

/-- **The printer of defined names and the un-doubling reader, every legal sheet name.**  For every legal sheet name —
    apostrophes inside it included, blanks, `!`, `"` — and every range text `a` without `!` and `'`:
    `split_address` applied to the un-doubled (`replace("''", "'")`, as `DefinedName::add_address` does) output of
    `get_address_ptn2` gives back `(name, a)`.  (Closes the clause `C17_address_ptn2` left to C06; `C06_undouble_double`
    is the un-doubling lemma used.) -/
theorem C17_address_apostrophes (name a : List Char) (h : LegalSheetName name) (ha : '!' ∉ a) (hq : '\'' ∉ a) :
    splitAddress (undouble (addressText name a true)) = (name, a) := by
  rw [addressText_quoteName name a h.1]
  have hapos : '\'' ∉ '!' :: a := by
    intro hm
    rcases List.mem_cons.1 hm with e | e
    · exact absurd e (by decide)
    · exact hq e
  unfold quoteName
  cases hn : needsQuote name
  · -- bare: the name is alphanumeric
    simp only [Bool.false_eq_true, if_false]
    have hp : plainByLibraryB name = true := by
      have := C17_quote_rule name
      rw [hn] at this
      simpa using this.symm
    have hal : name.all isAlnumAscii = true := by
      simp only [plainByLibraryB, Bool.and_eq_true] at hp
      exact hp.1
    have hfree : '\'' ∉ name ++ '!' :: a := by
      intro hm
      rcases List.mem_append.1 hm with e | e
      · exact alnum_ne_apos _ (List.all_eq_true.1 hal _ e) rfl
      · exact hapos e
    rw [undouble_id _ hfree]
    simp only [splitAddress, rsplitBang_join name a ha, stripSheetQuote_legal name h]
  · simp only [if_true]
    have e1 : '\'' :: (replaceApos name ++ ['\'']) ++ '!' :: a = '\'' :: (replaceApos name ++ '\'' :: '!' :: a) := by
      simp
    rw [e1, undouble_quoted name h.2 h.1 _ (by simp), undouble_id _ hapos]
    have e2 : '\'' :: (name ++ '\'' :: '!' :: a) = ('\'' :: (name ++ ['\''])) ++ '!' :: a := by simp
    rw [e2]
    simp only [splitAddress, rsplitBang_join _ a ha, stripSheetQuote_quoted]

/-- non-vacuity: names with one, two adjacent and a trailing apostrophe, with `!` and blanks -/
example :
    (["It's", "a''b", "x'", "Bob's \"Q1\"!", "Sheet1"].map fun n =>
      (legalSheetB n.toList, String.ofList (addressText n.toList "$A$1".toList true),
        splitAddress (undouble (addressText n.toList "$A$1".toList true)) == (n.toList, "$A$1".toList))) =
    [(true, "'It''s'!$A$1", true), (true, "'a''''b'!$A$1", true), (true, "'x'''!$A$1", true),
     (true, "'Bob''s \"Q1\"!'!$A$1", true), (true, "'Sheet1'!$A$1", true)] := by
  decide +kernel

end Umya.Thm.C17
