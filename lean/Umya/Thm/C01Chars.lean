/-
  C01 END TO END through the CHARACTERS of the written parts.

  Three layers proved separately are composed here into statements about characters:

    (W) the writer model: `Cell::write_to` facts (`Umya/Model/CellXml.lean`), rendered as the element trees of the
        worksheet part (`Umya/Model/SheetNode.lean::renderSheet`: row loop, `<sheetData>`, opaque frame) and of the
        shared-strings part (`Umya/Model/CellNode.lean`), the table threaded through n sheets
        (`Umya/Model/PackageNode.lean::renderSheetsP`);
    (X) characters ↔ trees: `C02_bytes_parse` — the independent XML 1.0 reader (`Umya/Spec/XmlLex.lean::parse`)
        applied to the characters `renderDoc w` that a tree of writer calls `w` leaves in the buffer returns the
        element tree that was meant;
    (R) the reader: C01's model of `Cell::set_attributes` / `SharedStringItem::set_attributes` / `read_reader`
        (`readCell`, `readSi`, `readBook`, on lexed facts), applied to the FACT VIEW of element trees
        (`Umya/Model/CellTree.lean`: `cellFact`, `siFact`; `readSheetChars`, `readBookChars` = parse, view, read).

  `C01_sheet_chars_roundtrip`, `C01_book_chars_roundtrip`: the reader applied to the characters of the written parts
  returns exactly the stored cells that are not blank-and-unstyled (lazy values resolved), in order, each with its position, value kind
  (blank / text / rich text / number / boolean / error), value text, number and formula text.

  WHAT IS ASSUMED, all explicit:
    * `F.Sound` (numbers are opaque tokens; print-then-parse is the identity — Rust's `f64` `Display`/`FromStr`,
      checked by the harness on every number it generates);
    * the sheet is well-formed (`SheetW.WF`: C10's coherence + the grid limits, `C02_sheet_of_coherent`), the opaque
      frame children are in schema order (`Frame.ok`);
    * `rawOK`: not a rich text without runs (the known finding of C01; since fix 5 / fix 6 a rich text cached under a
      formula and an unresolved lazy value are INSIDE the theorems: the lazy value reloads as the typed value
      `Cell::write_to` resolves it to, `Cell.resolved`, `C01_resolved`); `charsOK`: the value written is not the EMPTY
      text cached under a formula — written `<v></v>`, which no XML reader can tell from `<v/>`
      (`C01_empty_cached_text_same_tree`; quick-xml's event reader can, and the fact-level theorem
      `C01_cell_roundtrip` covers that cell);
    * the characters: `w` is ANY tree of writer calls (either form of childless elements, any of the three text
      writers per text) that means the rendered tree (`normNode (erase w) = root`) and satisfies `WF w` — names are
      XML Names, attribute names distinct, and EVERY CHARACTER OF EVERY TEXT AND ATTRIBUTE VALUE IS AN XML 1.0
      `Char`.  That last condition is not vacuous for this library: `write_text_node` does not escape or reject
      U+0000–U+0008, U+000B, U+000C, U+000E–U+001F, U+FFFE, U+FFFF, so a workbook built through the public API can
      hold texts whose part is not well-formed XML 1.0: `C01_non_xml_char_partial` (the independent reader rejects
      the part; quick-xml's reader does not check and the library's own round trip succeeds — the fact-level
      `C01_cell_roundtrip` has no character hypothesis).  Per run the driver counts the workbooks of each class.
    * run properties of rich text are an opaque token of which the tree keeps only the presence: cells are
      compared up to `eraseFonts`; kind, value text, number and formula text are not affected (`obsOf`).
    * fewer than 2^64 distinct strings.
-/
import Umya.Lemmas.CellCharsSheet
import Umya.Lemmas.CellCharsNonXml
import Umya.Thm.C01
import Umya.Thm.C02SheetBytes
namespace Umya.Thm.C01
open Umya.Xml Umya.Num Umya.CellXml Umya.CellNode Umya.SheetNode Umya.CellTree Umya.XmlWrite Umya.PackageNode
open Umya.Spec.Xml (Node Attr parse)

/-! ### the fact view of rendered trees (the bridge between the tree side and the fact side) -/

/-- **The fact view of a rendered `<c>` is the fact.**  The element tree rendered for a `<c>` with reference `ref`,
    type `t`, style flag, formula text `fo` and `<v>` value `ov` is viewed as the fact with exactly these, its raw
    texts spelled by `escape`, a childless `<v>` as `<v/>`, no `<is>`. -/
theorem C01_cell_fact_view (ref t : List Char) (styled : Bool) (xf : Nat) (fo ov : Option (List Char)) :
    cellFact (cElem ref t styled xf fo ov)
      = { ref := ref, t := t, styled := styled, f := fo.map escape, v := vFactOf ov, is := none } :=
  cellFact_cElem ref t styled xf fo ov

/-- … and of a rendered `<si>`: the written fact of the item, run-property tokens erased -/
theorem C01_si_fact_view (it : Item) : siNode (siOf it) = some (siElem it) ∧ siFact (siElem it) = siOf (eraseItem it) :=
  ⟨siNode_siOf it, siFact_siElem it⟩

/-- **`C01_cell_roundtrip` lifted to trees.**  For every covered cell and every state of the string table, the `<c>`
    fact `Cell::write_to` produces renders to an element tree (for any style index), and C01's reader applied to
    the fact view of that TREE returns the same cell, against any table that extends the writer's. -/
theorem C01_cell_tree_roundtrip (F : NumFmt) (hF : F.Sound) (tbl : Table) (c : Cell F.Num)
    (hc : cellOK F c = true) (hch : charsOK F c = true) :
    ∃ tbl' ox, writeTo F tbl c = some (tbl', ox) ∧
      (∃ ext, tbl' = tbl ++ ext ∧ ∀ it ∈ ext, ItemOK it) ∧
      (blankUnstyled F c = true → ox = none) ∧
      (blankUnstyled F c = false → ∃ x, ox = some x ∧ ∀ xf : Nat, ∃ node, cellNode xf x = some node ∧
        ∀ sst : Table, sst.length < 18446744073709551616 → Extends sst tbl' →
          readCellN F sst node = some (Cell.resolved F c)) :=
  writeTo_readCellN F hF tbl c hc hch

/-- what C01 compares does not depend on the run-property tokens -/
theorem C01_obs_erase (F : NumFmt) (c : Cell F.Num) : obsOf F (eraseFonts F c) = obsOf F c := by
  obtain ⟨col, row, raw, fo, st⟩ := c
  cases raw with
  | rich rs =>
    have : richText (rs.map eraseRun) = richText rs := by
      induction rs with
      | nil => rfl
      | cons r rs ih =>
        simp only [richText, List.map_cons, List.flatMap_cons] at ih ⊢
        rw [ih]; rfl
    simp [obsOf, eraseFonts, eraseRaw, kindOf, valueText, this]
  | _ => rfl

/-! ### one worksheet -/

/-- **ONE WORKSHEET, THROUGH THE CHARACTERS OF ITS PART AND OF THE SHARED-STRINGS PART.**
    Let `s` be a well-formed sheet with covered values, written by the model of worksheet.rs onto the table `tbl`
    (`renderSheet`: tree `root`, table `tbl'`), and `T` the final table of the save (whatever later sheets add).
    Let the worksheet part be the characters `renderDoc w` of ANY tree of writer calls `w` that means `root`, and
    the shared-strings part those of any `wS` that means the `<sst>` of `T` (no part when `T` is empty).
    Then the reader — XML 1.0 `parse` of both parts, fact view, C01's `readSi` / `readCell` — returns exactly the
    cells of `s` that are not blank-and-unstyled, lazy values resolved (`keep` / `Cell.resolved` = the filter and the
    map of `normalize`, `C01_normalize`), in order,
    each equal to the stored cell up to the run-property tokens; in particular with the same position, value kind,
    value text, number and formula text (`obsOf`). -/
theorem C01_sheet_chars_roundtrip (F : NumFmt) (hF : F.Sound) (xf : List Char → Nat) (fr : Frame) (tbl : Table)
    (s : SheetW F.Num) (hwf : s.WF) (hval : ∀ c ∈ s.cells, rawOK F c.raw = true ∧ charsOK F c = true)
    (htbl : ∀ it ∈ tbl, ItemOK it)
    (tbl' : Table) (root : Node) (h : renderSheet F xf fr tbl s = some (tbl', root)) (hfr : fr.ok = true)
    (T : Table) (hT : ∃ ext, T = tbl' ++ ext ∧ ∀ it ∈ ext, ItemOK it) (hlen : T.length < 18446744073709551616)
    (w : WNode) (hw : isElemW w = true) (hwfw : WF w = true) (hew : normNode (erase w) = root)
    (sstW : Option WNode) (hs : SstWritten T sstW) :
    readSheetChars F (sstW.map renderDoc) (renderDoc w) = some (((s.cells.filter (keep F)).map (Cell.resolved F)).map (eraseFonts F)) ∧
    (readSheetChars F (sstW.map renderDoc) (renderDoc w)).map (·.map (obsOf F))
      = some (((s.cells.filter (keep F)).map (Cell.resolved F)).map (obsOf F)) := by
  obtain ⟨_, ⟨e1, he1, hok1⟩, hr⟩ := renderSheet_readSheetN F hF xf fr tbl s hwf hval tbl' root h hfr
  obtain ⟨e2, he2, hok2⟩ := hT
  have hall : ∀ it ∈ T, ItemOK it := by
    intro it hit
    rw [he2, he1] at hit
    rcases List.mem_append.1 hit with h1 | h1
    · rcases List.mem_append.1 h1 with h2 | h2
      · exact htbl it h2
      · exact hok1 it h2
    · exact hok2 it h1
  have hx : Extends T tbl' := by
    have h0 : Extends T (tbl' ++ e2) := by rw [← he2]; exact fun _ _ hi => hi
    exact h0.trans_append
  have main : readSheetChars F (sstW.map renderDoc) (renderDoc w) = some (((s.cells.filter (keep F)).map (Cell.resolved F)).map (eraseFonts F)) := by
    unfold readSheetChars
    rw [sst_chars T hall sstW hs, parse_renderDoc w hw hwfw, hew]
    simp only [Option.bind_some, readSheetN_erase, hr T hlen hx, Option.map_some]
  refine ⟨main, ?_⟩
  rw [main]
  simp only [Option.map_some, List.map_map]
  congr 1
  apply List.map_congr_left
  intro c _
  exact C01_obs_erase F (Cell.resolved F c)

/-- … with the default writer calls for both trees (`ofNode`: texts through `write_text_node`, childless elements in
    either form): the hypotheses on the characters become `wfNodes` of the two trees (names, distinct attributes,
    XML `Char`s) and `Frame.nf` (the opaque children are in the reader's normal form, as any parsed tree is). -/
theorem C01_sheet_chars_roundtrip_default (F : NumFmt) (hF : F.Sound) (xf : List Char → Nat) (fr : Frame) (tbl : Table)
    (s : SheetW F.Num) (hwf : s.WF) (hval : ∀ c ∈ s.cells, rawOK F c.raw = true ∧ charsOK F c = true)
    (htbl : ∀ it ∈ tbl, ItemOK it)
    (tbl' : Table) (root : Node) (h : renderSheet F xf fr tbl s = some (tbl', root)) (hfr : fr.ok = true) (hnf : fr.nf = true)
    (T : Table) (hT : ∃ ext, T = tbl' ++ ext ∧ ∀ it ∈ ext, ItemOK it) (hlen : T.length < 18446744073709551616)
    (as : List Attr) (sc sc' : Bool)
    (hchars : wfNodes [root] = true) (hsstchars : wfNodes [Node.elem ['s', 's', 't'] as (T.map siElem)] = true) :
    readSheetChars F (some (renderDoc (ofNode sc' (Node.elem ['s', 's', 't'] as (T.map siElem))))) (renderDoc (ofNode sc root))
      = some (((s.cells.filter (keep F)).map (Cell.resolved F)).map (eraseFonts F)) := by
  obtain ⟨_, ⟨e1, he1, hok1⟩, hr⟩ := renderSheet_readSheetN F hF xf fr tbl s hwf hval tbl' root h hfr
  obtain ⟨e2, he2, hok2⟩ := hT
  have hall : ∀ it ∈ T, ItemOK it := by
    intro it hit
    rw [he2, he1] at hit
    rcases List.mem_append.1 hit with h1 | h1
    · rcases List.mem_append.1 h1 with h2 | h2
      · exact htbl it h2
      · exact hok1 it h2
    · exact hok2 it h1
  have hx : Extends T tbl' := by
    have h0 : Extends T (tbl' ++ e2) := by rw [← he2]; exact fun _ _ hi => hi
    exact h0.trans_append
  have hrootnf := renderSheet_isNF F xf fr tbl s tbl' root h hfr hnf
  obtain ⟨sd, _, _, hroot⟩ := renderSheet_shape F xf fr tbl s tbl' root h
  have hp : parse (renderDoc (ofNode sc root)) = some root := by
    subst hroot
    exact Umya.Thm.C02.C02_bytes_parse_tree sc _ _ _ hchars hrootnf
  have hsnf : isNFKids (T.map siElem) = true := by
    apply isNFKids_of_all
    intro k hk
    obtain ⟨it, _, rfl⟩ := List.mem_map.1 hk
    exact ⟨rfl, siNode_isNF _ _ (siNode_siOf it)⟩
  have hps := Umya.Thm.C02.C02_bytes_parse_tree sc' _ as _ hsstchars hsnf
  unfold readSheetChars
  simp only [readSstChars, hp, hps, Option.bind_some, readSstN_root as T hall, readSheetN_erase, hr T hlen hx, Option.map_some]

/-! ### the workbook: n worksheets on one table, both writers -/

/-- **THE WORKBOOK, THROUGH THE CHARACTERS OF ITS PARTS, BOTH WRITERS.**  For a workbook of any number n of
    well-formed sheets with covered values, the model of `make_buffer` threads ONE string table through the sheets
    in order (`renderSheetsP`, final table `T`, trees `roots`).  For either writer (`light`: the two differ in the zip
    compression method only, `C01_light_same`) the cell facts written are those of C01's `writeBook` with the
    shared-strings facts of `T`.  Let the n worksheet parts and the shared-strings part (absent when `T` is empty) be
    the characters of ANY trees of writer calls that mean the rendered trees.  Then the reader applied to those
    CHARACTERS returns, for every sheet in order, exactly its cells that are not blank-and-unstyled
    (`normalize`, `C01_normalize`), each equal to the stored cell up to the run-property tokens — same position,
    value kind, value text, number and formula text. -/
theorem C01_book_chars_roundtrip (F : NumFmt) (hF : F.Sound) (light : Bool) (ss : List (SheetP F.Num)) (hok : SheetsOK F ss)
    (T : Table) (roots : List Node) (h : renderSheetsP F [] ss = some (T, roots))
    (hlen : T.length < 18446744073709551616)
    (ws : List WNode) (hws : SheetsWritten roots ws) (sstW : Option WNode) (hs : SstWritten T sstW) :
    (∃ b, writeBook F light (cellsOfP F ss) = some b ∧ b.sst = T.map siOf) ∧
    readBookChars F (sstW.map renderDoc) (ws.map renderDoc)
      = some ((normalize F (cellsOfP F ss)).map (·.map (eraseFonts F))) ∧
    (readBookChars F (sstW.map renderDoc) (ws.map renderDoc)).map (·.map (·.map (obsOf F)))
      = some ((normalize F (cellsOfP F ss)).map (·.map (obsOf F))) := by
  obtain ⟨⟨xss, hxss⟩, _, _⟩ := renderSheetsP_readSheets F hF ss [] hok T roots h
  have main : readBookChars F (sstW.map renderDoc) (ws.map renderDoc)
      = some ((normalize F (cellsOfP F ss)).map (·.map (eraseFonts F))) := by
    unfold readBookChars
    rw [parseAll_written roots ws hws]
    cases sstW with
    | none =>
      simp only [SstWritten] at hs
      simp only [Option.map_none, Option.bind_some]
      exact renderSheetsP_readBookN F hF ss hok T roots h hlen none hs
    | some wS =>
      obtain ⟨h1, h2, as, h3⟩ := hs
      simp only [Option.map_some, parse_renderDoc wS h1 h2, h3, Option.bind_some]
      exact renderSheetsP_readBookN F hF ss hok T roots h hlen (some _) ⟨as, rfl⟩
  refine ⟨⟨{ sheets := xss, sst := T.map siOf }, by simp [writeBook, hxss], rfl⟩, main, ?_⟩
  rw [main]
  simp only [Option.map_some, List.map_map]
  congr 1
  apply List.map_congr_left
  intro l _
  simp only [Function.comp_def, List.map_map]
  apply List.map_congr_left
  intro c _
  exact C01_obs_erase F c

/-! ### what the character level cannot say -/

/-- FULL STATEMENT WANTED: `C01_sheet_chars_roundtrip` for every text over Unicode scalar values, i.e. without the
    XML-`Char` part of `WF w`.  It does not hold for an XML 1.0 reader, and the writer is why: `write_text_node`
    (quick-xml `escape` + `\r`) passes U+0001 through unchanged, so the text is not made of XML `Char`s
    (`allXml = false`), the characters of the `<t>` written for it are not a well-formed document
    (`parse … = none`: the independent reader rejects the part), while the library's own reader, which does not
    check character legality, reads the text back (fact level: `readTX (writeText s) = some s`, and
    `C01_cell_roundtrip` has no character hypothesis).  Same for U+0000–U+0008, U+000B, U+000C, U+000E–U+001F,
    U+FFFE, U+FFFF.  The harness generates such texts in every run; the character-level leg of the tie counts these
    workbooks (`chars.nonxml`) and checks that `parse` rejects exactly them. -/
theorem C01_non_xml_char_partial :
    escape [Char.ofNat 1] = [Char.ofNat 1] ∧ allXml [Char.ofNat 1] = false ∧
    parse (renderDoc (.elem ['t'] [] [.text [Char.ofNat 1]])) = none ∧
    parse (renderDoc (.elem ['t'] [] [.text [Char.ofNat 0xFFFE]])) = none ∧
    readTX (writeText [Char.ofNat 1]) = some [Char.ofNat 1] := by
  refine ⟨by decide, by decide, parse_nonxml _ (by decide) (by decide), parse_nonxml _ (by decide) (by decide), by decide⟩

/-- A formula whose cached result is the EMPTY text and a formula without cached result are written differently
    (`<v></v>` / `<v/>`: different facts, and C01's fact-level reader tells them apart as quick-xml's event reader
    does), but the two `<c>` elements are the same element tree: no reader that goes through an XML 1.0 infoset can
    return both cells.  Hence `charsOK`. -/
theorem C01_empty_cached_text_same_tree :
    writeV natFmt [] (dataTypeOf natFmt (.str []) (some ['A', '2'])) (.str []) = ([], .text []) ∧
    writeV natFmt [] (dataTypeOf natFmt .empty (some ['A', '2'])) .empty = ([], .emptyTag) ∧
    tAttrOf (dataTypeOf natFmt (.str []) (some ['A', '2'])) = tSTR ∧ tAttrOf (dataTypeOf natFmt .empty (some ['A', '2'])) = tSTR ∧
    vNodes (.text []) = some [Node.elem ['v'] [] []] ∧ vNodes .emptyTag = some [Node.elem ['v'] [] []] ∧
    readV natFmt [] tSTR (.text []) (some ['A', '2']) = some (.str [], some ['A', '2']) ∧
    readV natFmt [] tSTR .emptyTag (some ['A', '2']) = some (.empty, some ['A', '2']) ∧
    charsOK natFmt { col := 1, row := 1, raw := .str [], formula := some ['A', '2'] } = false ∧
    charsOK natFmt { col := 1, row := 1, raw := .lazy [], formula := some ['A', '2'] } = true := by
  refine ⟨by decide, by decide, by decide, by decide, rfl, rfl, by decide, by decide, by decide, by decide⟩


/-! ### non-vacuity -/

/-- a sheet with: a text cell holding `& < > " '`, CR, LF, TAB, leading and trailing blanks, U+00A0 and a non-BMP
    character; a rich-text cell (a run with properties, a padded run); a formula with a cached boolean; an error
    cell; a styled blank cell and a blank unstyled one (not written); a rich text cached under a formula (fix 5); an unresolved
    lazy value "42" under a formula at XFD1048576, written and reloaded as the number 42 (fix 6) -/
def demoCharsSheet : SheetW natFmt.Num :=
  { rows := [{ num := 1 }, { num := 2, ht := some ['1', '8'] }, { num := 1048576 }],
    cells := [{ col := 1, row := 1, raw := .str [' ', '&', '<', '>', '"', '\'', '\r', '\n', '\t', Char.ofNat 0x1F600, Char.ofNat 0xA0, ' '] },
              { col := 2, row := 1, raw := .rich [{ text := [' ', 'a', '&'], font := some 7 }, { text := ['b', ' '] }] },
              { col := 3, row := 1, raw := .bool true, formula := some ['A', '1', '<', '"', 'x', '"'] },
              { col := 1, row := 2, raw := .err .na },
              { col := 2, row := 2, styled := true }, { col := 3, row := 2 },
              { col := 4, row := 2, raw := .rich [{ text := ['x'], font := some 1 }], formula := some ['B', '1'] },
              { col := 16384, row := 1048576, raw := .lazy ['4', '2'], formula := some [' ', 'A', '1', ' '] }] }

example : demoCharsSheet.WF := ⟨by decide, by decide, by decide, by decide, by decide⟩

example : ∀ c ∈ demoCharsSheet.cells, rawOK natFmt c.raw = true ∧ charsOK natFmt c = true := by decide

/-- the sheet is written, and C01's reader on the rendered TREES (worksheet, shared strings) returns its six kept
    cells: the hypotheses of `C01_sheet_chars_roundtrip` other than those on `w` are satisfiable, and the conclusion
    is about a non-trivial list -/
example : ∃ tbl' root, renderSheet natFmt (fun _ => 3) {} [] demoCharsSheet = some (tbl', root) ∧
    (∀ sst : Table, sst.length < 18446744073709551616 → Extends sst tbl' →
      readSheetN natFmt sst root = some ((demoCharsSheet.cells.filter (keep natFmt)).map (Cell.resolved natFmt))) ∧
    (((demoCharsSheet.cells.filter (keep natFmt)).map (Cell.resolved natFmt)).map (fun c => kindOf natFmt c.raw)
      = [.text, .richText, .boolean, .error, .blank, .richText, .number]) := by
  obtain ⟨tbl', root, h⟩ := Umya.Thm.C02.C02_sheet_written natFmt (fun _ => 3) {} [] demoCharsSheet (by decide)
  obtain ⟨_, _, hr⟩ := renderSheet_readSheetN natFmt natFmt_sound (fun _ => 3) {} [] demoCharsSheet
    ⟨by decide, by decide, by decide, by decide, by decide⟩ (by decide) tbl' root h (by decide)
  exact ⟨tbl', root, h, hr, by decide⟩

/-- writer calls as the code makes them for C1 = TRUE under `A1<"x"` (style 3) and for the `<si>` of " &<CR😀":
    `WF` (names, distinct attributes, XML `Char`s) holds, so these characters are in the domain of the theorems -/
example :
    let w : WNode := .elem ['r', 'o', 'w'] [⟨['r'], ['1']⟩, ⟨['s', 'p', 'a', 'n', 's'], ['1', ':', '3']⟩]
      [.elem ['c'] [⟨['r'], ['C', '1']⟩, ⟨['t'], ['b']⟩, ⟨['s'], ['3']⟩]
         [.elem ['f'] [] [.conv ['A', '1', '<', '"', 'x', '"']], .elem ['v'] [] [.text ['1']]],
       .elem ['s', 'i'] [] [.elem ['t'] [⟨"xml:space".toList, "preserve".toList⟩] [.text [' ', '&', '<', '\r', Char.ofNat 0x1F600]],
                            .empty "phoneticPr".toList [⟨"fontId".toList, ['1']⟩]]]
    isElemW w = true ∧ WF w = true := by
  refine ⟨rfl, ?_⟩
  simp only [WF, wfKids]
  decide

end Umya.Thm.C01
