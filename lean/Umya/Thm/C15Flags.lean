/-
  C15 — tie to the source (T), the boolean option setters: the sixteen `SheetProtection::set_<flag>` of src/structs/sheet_protection.rs
  and the three `WorkbookProtection::set_lock_*` of src/structs/workbook_protection.rs, compiled from the CURRENT source on every run
  (`Umya/Model/Gen/Fns.lean`; `&mut self` as state passing over ALL fields of the struct, each a value-holder record generated from
  `StringValue` / `UInt32Value` / `BooleanValue`, `self.<field>.set_value(v)` resolved by reading `BooleanValue::set_value`), equal the
  hand model's `setFlag` (`Umya/Model/PwHashFlags.lean`) for all prior states and values: each stores `some v` in its own field only.
-/
import Umya.Model.PwHashFlags
import Umya.Model.Gen.Fns
namespace Umya.Thm.C15
open Umya.Gen Umya.AnnotProt

/-- the state a generated `SheetProtection` method threads: all 21 fields, in declaration order -/
abbrev SheetState := StringValue_rec × StringValue_rec × StringValue_rec × UInt32Value_rec × StringValue_rec × BooleanValue_rec × BooleanValue_rec × BooleanValue_rec × BooleanValue_rec × BooleanValue_rec × BooleanValue_rec × BooleanValue_rec × BooleanValue_rec × BooleanValue_rec × BooleanValue_rec × BooleanValue_rec × BooleanValue_rec × BooleanValue_rec × BooleanValue_rec × BooleanValue_rec × BooleanValue_rec
abbrev SheetSetter := StringValue_rec → StringValue_rec → StringValue_rec → UInt32Value_rec → StringValue_rec → BooleanValue_rec → BooleanValue_rec → BooleanValue_rec → BooleanValue_rec → BooleanValue_rec → BooleanValue_rec → BooleanValue_rec → BooleanValue_rec → BooleanValue_rec → BooleanValue_rec → BooleanValue_rec → BooleanValue_rec → BooleanValue_rec → BooleanValue_rec → BooleanValue_rec → BooleanValue_rec → Bool → SheetState
abbrev BookState := StringValue_rec × StringValue_rec × StringValue_rec × UInt32Value_rec × StringValue_rec × StringValue_rec × StringValue_rec × StringValue_rec × UInt32Value_rec × StringValue_rec × BooleanValue_rec × BooleanValue_rec × BooleanValue_rec
abbrev BookSetter := StringValue_rec → StringValue_rec → StringValue_rec → UInt32Value_rec → StringValue_rec → StringValue_rec → StringValue_rec → StringValue_rec → UInt32Value_rec → StringValue_rec → BooleanValue_rec → BooleanValue_rec → BooleanValue_rec → Bool → BookState

/-- the hand model's record read out of the generated state (loses nothing: every holder has the one field `value`) -/
def sheetOf : SheetState → SheetProtection
  | (a, h, s, c, p, f0, f1, f2, f3, f4, f5, f6, f7, f8, f9, f10, f11, f12, f13, f14, f15) =>
    { algorithmName := a.value, hashValue := h.value, saltValue := s.value, spinCount := c.value, password := p.value
      flags := fun
        | .sheet => f0.value
        | .objects => f1.value
        | .deleteRows => f2.value
        | .insertColumns => f3.value
        | .deleteColumns => f4.value
        | .insertHyperlinks => f5.value
        | .autoFilter => f6.value
        | .scenarios => f7.value
        | .formatCells => f8.value
        | .formatColumns => f9.value
        | .insertRows => f10.value
        | .formatRows => f11.value
        | .pivotTables => f12.value
        | .selectLockedCells => f13.value
        | .selectUnlockedCells => f14.value
        | .sort => f15.value }

def bookOf : BookState → WorkbookProtection
  | (wa, wh, ws, wc, wp, ra, rh, rs, rc, rp, g0, g1, g2) =>
    { workbookAlgorithmName := wa.value, workbookHashValue := wh.value, workbookSaltValue := ws.value, workbookSpinCount := wc.value,
      workbookPassword := wp.value, revisionsAlgorithmName := ra.value, revisionsHashValue := rh.value, revisionsSaltValue := rs.value,
      revisionsSpinCount := rc.value, revisionsPassword := rp.value, lockRevision := g0.value, lockStructure := g1.value, lockWindows := g2.value }

def applySheet (f : SheetSetter) : SheetState → Bool → SheetState
  | (a, h, s, c, p, f0, f1, f2, f3, f4, f5, f6, f7, f8, f9, f10, f11, f12, f13, f14, f15), v => f a h s c p f0 f1 f2 f3 f4 f5 f6 f7 f8 f9 f10 f11 f12 f13 f14 f15 v

def applyBook (f : BookSetter) : BookState → Bool → BookState
  | (wa, wh, ws, wc, wp, ra, rh, rs, rc, rp, g0, g1, g2), v => f wa wh ws wc wp ra rh rs rc rp g0 g1 g2 v

/-- the generated definitions, by the flag whose setter they were compiled from -/
def sheetSetters : List (Flag × SheetSetter) :=
  [(.sheet, sheet_protection_set_sheet), (.objects, sheet_protection_set_objects), (.deleteRows, sheet_protection_set_delete_rows), (.insertColumns, sheet_protection_set_insert_columns), (.deleteColumns, sheet_protection_set_delete_columns), (.insertHyperlinks, sheet_protection_set_insert_hyperlinks), (.autoFilter, sheet_protection_set_auto_filter), (.scenarios, sheet_protection_set_scenarios), (.formatCells, sheet_protection_set_format_cells), (.formatColumns, sheet_protection_set_format_columns), (.insertRows, sheet_protection_set_insert_rows), (.formatRows, sheet_protection_set_format_rows), (.pivotTables, sheet_protection_set_pivot_tables), (.selectLockedCells, sheet_protection_set_select_locked_cells), (.selectUnlockedCells, sheet_protection_set_select_unlocked_cells), (.sort, sheet_protection_set_sort)]

def bookSetters : List (BookFlag × BookSetter) :=
  [(.lockRevision, workbook_protection_set_lock_revision), (.lockStructure, workbook_protection_set_lock_structure), (.lockWindows, workbook_protection_set_lock_windows)]

macro "flag_setter_proof" : tactic => `(tactic| (
  simp only [applySheet, sheetOf, SheetProtection.setFlag, sheet_protection_set_sheet, sheet_protection_set_objects, sheet_protection_set_delete_rows, sheet_protection_set_insert_columns, sheet_protection_set_delete_columns, sheet_protection_set_insert_hyperlinks, sheet_protection_set_auto_filter, sheet_protection_set_scenarios, sheet_protection_set_format_cells, sheet_protection_set_format_columns, sheet_protection_set_insert_rows, sheet_protection_set_format_rows, sheet_protection_set_pivot_tables, sheet_protection_set_select_locked_cells, sheet_protection_set_select_unlocked_cells, sheet_protection_set_sort]
  congr 1
  funext j
  cases j <;> simp))

theorem gen_sheet_flag_setters (p : Flag × SheetSetter) (hp : p ∈ sheetSetters) (x : SheetState) (v : Bool) :
    sheetOf (applySheet p.2 x v) = (sheetOf x).setFlag p.1 v := by
  obtain ⟨a, h, s, c, p, f0, f1, f2, f3, f4, f5, f6, f7, f8, f9, f10, f11, f12, f13, f14, f15⟩ := x
  simp only [sheetSetters, List.mem_cons, List.not_mem_nil, or_false] at hp
  rcases hp with rfl | rfl | rfl | rfl | rfl | rfl | rfl | rfl | rfl | rfl | rfl | rfl | rfl | rfl | rfl | rfl
  all_goals flag_setter_proof

theorem gen_book_flag_setters (p : BookFlag × BookSetter) (hp : p ∈ bookSetters) (x : BookState) (v : Bool) :
    bookOf (applyBook p.2 x v) = (bookOf x).setFlag p.1 v := by
  obtain ⟨wa, wh, ws, wc, wp, ra, rh, rs, rc, rp, g0, g1, g2⟩ := x
  simp only [bookSetters, List.mem_cons, List.not_mem_nil, or_false] at hp
  rcases hp with rfl | rfl | rfl
  all_goals simp [applyBook, bookOf, WorkbookProtection.setFlag, workbook_protection_set_lock_revision, workbook_protection_set_lock_structure, workbook_protection_set_lock_windows]

/-- **Tie to the source (T), the flag setters.**  The table lists one generated definition for each of the sixteen flags of
    `SheetProtection` and each of the three of `WorkbookProtection` (in the model's order); for EVERY prior state of ALL fields of the
    struct and every value, the model's record read out of the state the compiled setter returns is the model's `setFlag` for that
    flag applied to the record read out of the prior state: `some v` in the flag's own field, every other field — the other flags and
    the five / ten password fields — as before. -/
theorem C15_flag_setters_match_source :
    sheetSetters.map (·.1) = Flag.all ∧
    (∀ p ∈ sheetSetters, ∀ x v, sheetOf (applySheet p.2 x v) = (sheetOf x).setFlag p.1 v) ∧
    bookSetters.map (·.1) = BookFlag.all ∧
    (∀ p ∈ bookSetters, ∀ x v, bookOf (applyBook p.2 x v) = (bookOf x).setFlag p.1 v) :=
  ⟨rfl, gen_sheet_flag_setters, rfl, gen_book_flag_setters⟩

/-- non-vacuity: a state with a stored verifier and `objects` already on; `set_sort(false)` -/
example : (sheetOf (applySheet sheet_protection_set_sort
      (⟨some ['S']⟩, ⟨some ['h']⟩, ⟨some ['s']⟩, ⟨some 100000⟩, ⟨none⟩, ⟨none⟩, ⟨some true⟩, ⟨none⟩, ⟨none⟩, ⟨none⟩, ⟨none⟩, ⟨none⟩, ⟨none⟩, ⟨none⟩, ⟨none⟩, ⟨none⟩, ⟨none⟩, ⟨none⟩, ⟨none⟩, ⟨none⟩, ⟨none⟩) false)).flags .sort = some false ∧
    (sheet_protection_set_sort ⟨some ['S']⟩ ⟨some ['h']⟩ ⟨some ['s']⟩ ⟨some 100000⟩ ⟨none⟩ ⟨none⟩ ⟨some true⟩ ⟨none⟩ ⟨none⟩ ⟨none⟩ ⟨none⟩ ⟨none⟩ ⟨none⟩ ⟨none⟩ ⟨none⟩ ⟨none⟩ ⟨none⟩ ⟨none⟩ ⟨none⟩ ⟨none⟩ ⟨none⟩ false).2.1 = ⟨some ['h']⟩ := by
  decide

/-- **A flag setter keeps the stored verifier.**  For every compiled flag setter, every prior state and value: `algorithmName`,
    `hashValue`, `saltValue`, `spinCount` and the legacy `password` (for the workbook struct: the five of each kind) are those of
    the prior state, and so is every OTHER flag; the flag itself holds `some v`. -/
theorem C15_flag_setters_keep_verifier :
    (∀ p ∈ sheetSetters, ∀ x v,
      let y := sheetOf (applySheet p.2 x v); let x0 := sheetOf x
      y.algorithmName = x0.algorithmName ∧ y.hashValue = x0.hashValue ∧ y.saltValue = x0.saltValue ∧ y.spinCount = x0.spinCount ∧
      y.password = x0.password ∧ y.flags p.1 = some v ∧ ∀ j, j ≠ p.1 → y.flags j = x0.flags j) ∧
    (∀ p ∈ bookSetters, ∀ x v,
      let y := bookOf (applyBook p.2 x v); let x0 := bookOf x
      y.workbookAlgorithmName = x0.workbookAlgorithmName ∧ y.workbookHashValue = x0.workbookHashValue ∧
      y.workbookSaltValue = x0.workbookSaltValue ∧ y.workbookSpinCount = x0.workbookSpinCount ∧ y.workbookPassword = x0.workbookPassword ∧
      y.revisionsAlgorithmName = x0.revisionsAlgorithmName ∧ y.revisionsHashValue = x0.revisionsHashValue ∧
      y.revisionsSaltValue = x0.revisionsSaltValue ∧ y.revisionsSpinCount = x0.revisionsSpinCount ∧ y.revisionsPassword = x0.revisionsPassword ∧
      y.flag p.1 = some v ∧ ∀ j, j ≠ p.1 → y.flag j = x0.flag j) := by
  refine ⟨fun p hp x v => ?_, fun p hp x v => ?_⟩
  · intro y x0
    have e : y = x0.setFlag p.1 v := gen_sheet_flag_setters p hp x v
    rw [e]
    exact ⟨rfl, rfl, rfl, rfl, rfl, by simp [SheetProtection.setFlag], fun j hj => by simp [SheetProtection.setFlag, hj]⟩
  · intro y x0
    have e : y = x0.setFlag p.1 v := gen_book_flag_setters p hp x v
    rw [e]
    obtain ⟨k, f⟩ := p
    cases k <;> refine ⟨rfl, rfl, rfl, rfl, rfl, rfl, rfl, rfl, rfl, rfl, rfl, fun j hj => ?_⟩ <;>
      cases j <;> simp_all [WorkbookProtection.setFlag, WorkbookProtection.flag]

end Umya.Thm.C15
