/-
  C09 — the theorems of `Umya/Thm/C09Lex.lean` with the leftover hypothesis discharged: `LexOk'`
  asks references to be well-formed (`r.WF`) instead of assuming that their text is classified as
  Range (`isRangeText r.text = true`); that fact is now proved (`isRangeText_of_WF`,
  `Umya/Lemmas/FormulaLexRef.lean`, from a decomposition of the f64 acceptance grammar).

  Property theorems only (namespace `Umya.Thm.C09`).
-/
import Umya.Thm.C09Lex
import Umya.Lemmas.FormulaLexRef
namespace Umya.Thm.C09
open Umya.Coord Umya.Dec Umya.Formula

/-- **Lexer correctness on printed expressions, references by well-formedness.**  As
    `C09_lex_print`, with `LexOk' e`: every reference of `e` is well-formed (a cell, a range, whole
    columns or whole rows inside the grid, any `$` flags, optional plain / quoted qualifier); that
    such a text is never read as a number or a boolean by pass 3 is proved, not assumed.  The other
    leaf conditions are those of `LexOk` (numbers accepted by `parse::<f64>` without exponent sign,
    names / function names / unquoted qualifiers of ordinary characters, names not numbers or
    booleans, no `@` function names).  Not proved: intersections, array constants, structured
    references (excluded by `LexOk'`). -/
theorem C09_lex_print_wf (e : Spec.Expr) (h : LexOk' e) : parse ('=' :: e.print) = .ok (tokensOf e) :=
  C09_lex_print e (lexOk_of_wf e h)

theorem lexExample_ok' : LexOk' lexExample := by
  simp only [lexExample, LexOk', LexOkA', RefLexOk, Spec.CRef.WF, Spec.Area.WF]
  refine ⟨⟨⟨by simp, by decide, by simp⟩, ⟨⟨?_, ?_⟩, ⟨?_, ?_⟩⟩, trivial, trivial⟩, by simp, by decide, by decide⟩
  · have : (lexExampleRef).text ≠ [] := by rw [lexExampleRef_text]; decide
    simpa [lexExampleRef, Spec.CRef.text] using this
  · intro q hq; cases hq
  · refine ⟨Or.inl ⟨rfl, rfl, rfl, rfl⟩, ⟨?_, ?_⟩, ⟨?_, ?_⟩, ?_, ?_⟩
    all_goals (try (intro x hx; injection hx with hx; subst hx; simp [Spec.maxCol, Spec.maxRow]))
    · intro x y hx hy; injection hx with hx; injection hy with hy; subst hx; subst hy; decide
    · intro x y hx hy; injection hx with hx; injection hy with hy; subst hx; subst hy; decide
  · intro q hq; cases hq

/-- non-vacuity: `SUM(A1:$B$2,,"a""b")<=-x%` satisfies `LexOk'`, and its tokens -/
example : LexOk' lexExample ∧
    parse "=SUM(A1:$B$2,,\"a\"\"b\")<=-x%".toList = .ok (tokensOf lexExample) := by
  have := C09_lex_print_wf lexExample lexExample_ok'
  rw [lexExample_print] at this
  exact ⟨lexExample_ok', this⟩

/-- **Identity on printed expressions**, hypothesis `LexOk'` (see `C09_lex_print_wf`): the tokens of
    `print e` render back to `print e`, and that text tokenises to the same list again. -/
theorem C09_identity_print_wf (e : Spec.Expr) (h : LexOk' e) :
    render (tokensOf e) = e.print ∧ parse ('=' :: render (tokensOf e)) = .ok (tokensOf e) :=
  C09_identity_print e (lexOk_of_wf e h)

example : LexOk' lexExample ∧ render (tokensOf lexExample) = "SUM(A1:$B$2,,\"a\"\"b\")<=-x%".toList := by
  have := (C09_identity_print_wf lexExample lexExample_ok').1
  rw [lexExample_print] at this
  exact ⟨lexExample_ok', this⟩

/-- **Translation, whole text**, hypothesis `LexOk'` (see `C09_lex_print_wf`) and `RefsOk`:
    `Cell::set_coordinate` seen from the formula turns `print e` into
    `print (Spec.translate e dc dr)` for every offset — never a panic. -/
theorem C09_translate_text_wf (e : Spec.Expr) (h : LexOk' e) (hr : RefsOk e) (dc dr : Int) :
    setCoordinate e.print dc dr = .ok (Spec.translate e dc dr).print :=
  C09_translate_text e (lexOk_of_wf e h) hr dc dr

example : LexOk' lexExample ∧ RefsOk lexExample ∧
    setCoordinate "SUM(A1:$B$2,,\"a\"\"b\")<=-x%".toList 2 3 = .ok (Spec.translate lexExample 2 3).print := by
  have h1 := C09_translate_text_wf lexExample lexExample_ok' lexExample_refs 2 3
  rw [lexExample_print] at h1
  exact ⟨lexExample_ok', lexExample_refs, h1⟩

/-- the cell `E1` (digits and `E` only, the closest a reference comes to a float literal) -/
def refE1 : Spec.CRef := ⟨none, .one ⟨some ⟨5, false⟩, some ⟨1, false⟩⟩⟩
/-- the whole columns `'a b'!A:$B` -/
def refCols : Spec.CRef := ⟨some ⟨['a', ' ', 'b'], true⟩, .two ⟨some ⟨1, false⟩, none⟩ ⟨some ⟨2, true⟩, none⟩⟩
/-- the whole rows `$1:2` -/
def refRows : Spec.CRef := ⟨none, .two ⟨none, some ⟨1, true⟩⟩ ⟨none, some ⟨2, false⟩⟩⟩

theorem refE1_wf : refE1.WF := by
  simp [refE1, Spec.CRef.WF, Spec.Area.WF, Spec.Corner.InGrid, Spec.refIn, Spec.maxCol, Spec.maxRow]
theorem refCols_wf : refCols.WF := by
  simp [refCols, Spec.CRef.WF, Spec.Area.WF, Spec.Corner.InGrid, Spec.refIn, Spec.leOpt, Spec.Qual.WF,
    Spec.maxCol]
theorem refRows_wf : refRows.WF := by
  simp [refRows, Spec.CRef.WF, Spec.Area.WF, Spec.Corner.InGrid, Spec.refIn, Spec.leOpt, Spec.maxRow]

/-- the discharged fact (`isRangeText_of_WF`, for every well-formed reference) on three instances:
    `E1`, `'a b'!A:$B`, `$1:2` are well-formed, hence Range operands (not f64, not TRUE / FALSE) -/
example : refE1.WF ∧ refCols.WF ∧ refRows.WF ∧ isRangeText refE1.text = true ∧
    isRangeText refCols.text = true ∧ isRangeText refRows.text = true :=
  ⟨refE1_wf, refCols_wf, refRows_wf, isRangeText_of_WF _ refE1_wf, isRangeText_of_WF _ refCols_wf,
    isRangeText_of_WF _ refRows_wf⟩

end Umya.Thm.C09
