/-
  C18 display — a SYNTACTIC, infinite class of date-format codes.

  `SimpleSyntax toks` (decidable; `Umya.Lemmas.DateSyntax.simpleSyntax`) evaluates no replacement table:
  the list is cut at its tokens `-` `,` blank; every piece must be a word of the vocabulary
  `Umya.Lemmas.DateSyntax.vocab` — nothing, a field token alone (`yyyy yy mmmm mmm mm m dd d dddd ddd hh h ss`),
  hour`:`minutes, hour`:`minutes`:`seconds, minutes`:`seconds, or two / three of year, month, day (each kind
  once, orders y-m, m-y, m-d, d-m, y-m-d, d-m-y, m-d-y) joined by `/` or by `.`; the list has one field token
  at least; the hour tokens are the 12-hour ones (`h12`, `hh12`) exactly when the list has an `AM/PM` token.
  So `mm` is minutes exactly inside the `:` words and month everywhere else, by position.

  `C18_simple_syntax_sound : SimpleSyntax toks → SimpleDateCode toks`, for lists of any length: induction over
  the separators through all 21 + 2 `str::replace` passes of `format_as_date` (no pattern of the tables
  contains `-` `,` or blank, so each pass works on the words independently: `replaceAll_split`), the words
  themselves validated once by kernel evaluation (`vocab_ok`, 2 × ≈ 180 words).  NOT covered by the
  criterion (still decidable one by one with `SimpleDateCode`): words that mix `:` with `/` or `.`, fields
  glued without separator, repeated kinds inside one `/`-word (`m/m`).
-/
import Umya.Thm.C18Display
import Umya.Lemmas.DateSyntax
namespace Umya.Thm.C18
open Umya.Date Umya.Date.FloatOps Umya.Spec.Calendar Umya.Lemmas.Calendar Umya.Lemmas.FloatStd
open Umya.Lemmas.DateDisplay Umya.Lemmas.DateSyntax

/-- the syntactic criterion (decidable; no evaluation of the replacement tables) -/
def SimpleSyntax (toks : List Tok) : Prop := simpleSyntax toks = true

instance (toks : List Tok) : Decidable (SimpleSyntax toks) := by unfold SimpleSyntax; infer_instance

/-- **Soundness of the syntactic criterion**, all token lists. -/
theorem C18_simple_syntax_sound (toks : List Tok) (h : SimpleSyntax toks) : SimpleDateCode toks :=
  simpleSyntax_sound toks h

/-- `str::replace` cannot see across a character that its pattern does not contain — the lemma that carries
    the induction through the pipeline, for every pattern, replacement and text -/
theorem C18_replace_split (f t : List Char) (c : Char) (a b : List Char) (hc : f.contains c = false) :
    replaceAll (a ++ c :: b) f t = replaceAll a f t ++ c :: replaceAll b f t :=
  replaceAll_split f t c a b hc

/-- **Display for the syntactic class** (no `AM/PM`): Excel's text, token by token. -/
theorem C18_date_display_syntax {F : Type} [FloatOps F] (toks : List Tok) (hs : SimpleSyntax toks)
    (hp : toks.contains .ampm = false) (g : List Char) (ts : F) (n T : Int)
    (h0 : daysFromCivil 1899 12 31 ≤ n) (h1 : n ≤ daysFromCivil 9999 12 31) (hT : 0 ≤ T ∧ T < 86400)
    (hts : excelToEpochSecondsChecked ts = some (n * 86400 + T)) :
    formatAsDateChecked (codeText toks) g ts = some (trimBlanks (showToks (civilDateTime n T) toks)) :=
  C18_date_display toks (C18_simple_syntax_sound toks hs) hp g ts n T h0 h1 hT hts

/-- **Display for the syntactic class, `AM/PM` allowed** (partial as `C18_date_display_ampm_partial`: the
    marker comes out in lower case). -/
theorem C18_date_display_syntax_ampm_partial {F : Type} [FloatOps F] (toks : List Tok) (hs : SimpleSyntax toks)
    (g : List Char) (ts : F) (n T : Int)
    (h0 : daysFromCivil 1899 12 31 ≤ n) (h1 : n ≤ daysFromCivil 9999 12 31) (hT : 0 ≤ T ∧ T < 86400)
    (hts : excelToEpochSecondsChecked ts = some (n * 86400 + T)) :
    formatAsDateChecked (codeText toks) g ts = some (trimBlanks (showToksCode (civilDateTime n T) toks)) :=
  C18_date_display_ampm_partial toks (C18_simple_syntax_sound toks hs) g ts n T h0 h1 hT hts

/-! ## non-vacuity: members (decided by the SYNTACTIC procedure), non-members, an infinite family -/

open Tok in
example : SimpleSyntax [yyyy, lit '-', mm, lit '-', dd, lit ' ', hh, lit ':', mi, lit ':', ss] ∧
    SimpleSyntax [m, lit '/', d, lit '/', yyyy, lit ' ', h, lit ':', mi] ∧                       -- 22
    SimpleSyntax [d, lit '-', mmm, lit '-', yy] ∧                                               -- 15
    SimpleSyntax [h12, lit ':', mi, lit ':', ss, lit ' ', ampm] ∧                                -- 19
    SimpleSyntax [dddd, lit ',', lit ' ', mmmm, lit ' ', d, lit ',', lit ' ', yyyy] ∧
    SimpleSyntax [dd, lit '.', mm, lit '.', yyyy, lit ',', lit ' ', hh, lit ':', mi] ∧
    SimpleSyntax [ddd, lit ' ', d, lit '-', mmm, lit '-', yy, lit ' ', hh12, lit ':', mi, lit ' ', ampm, lit ' ',
      lit '-', lit ' ', yyyy, lit '/', mm] := by decide

open Tok in
/-- outside the syntax: minutes without a colon word, hour and minutes separated by a blank, the wrong clock,
    no field at all; (the first two are not `SimpleDateCode`s either) -/
example : ¬ SimpleSyntax [mi] ∧ ¬ SimpleSyntax [hh, lit ' ', mi] ∧ ¬ SimpleSyntax [h, lit ':', mi, lit ' ', ampm] ∧
    ¬ SimpleSyntax [h12, lit ':', mi] ∧ ¬ SimpleSyntax [lit '-'] ∧ ¬ SimpleSyntax [m, lit '/', m] := by decide

/-- an infinite family inside the class: `yyyy-mm-dd` followed by any number of ` hh:mm` -/
def isoThen (k : Nat) : List Tok :=
  [.yyyy, .lit '-', .mm, .lit '-', .dd] ++ (List.replicate k [Tok.lit ' ', .hh, .lit ':', .mi]).flatten

example : SimpleSyntax (isoThen 0) ∧ SimpleSyntax (isoThen 1) ∧ SimpleSyntax (isoThen 7) := by decide

open Tok in
/-- the criterion is sufficient, not necessary: `ss/d` is a `SimpleDateCode` the syntax does not describe -/
example : SimpleDateCode [d, lit '/', m, lit ' ', lit ' ', yy] ∧ SimpleSyntax [d, lit '/', m, lit ' ', lit ' ', yy] ∧
    SimpleDateCode [ss, lit '/', d] ∧ ¬ SimpleSyntax [ss, lit '/', d] := by decide

/-- `mmmmm` (Excel: the first letter of the month name) has no token: the code hands chrono `%b`, the
    three-letter name (`J` is shown as `Jan`) -/
example : strftimeOf "mmmmm".toList = some "%b".toList := by decide

end Umya.Thm.C18
