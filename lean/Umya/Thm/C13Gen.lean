/-
  C13 — the save PROTOCOLS regenerated from the source are the protocols of the hand model.

  `tools/extract_proto.py` regenerates `Umya/Model/Gen/Proto.lean` from the current source of /repo on every run:
  for each of `xlsx::write`, `xlsx::write_light`, `csv::write`, `xlsx::write_writer`, `write_writer_light`,
  `csv::write_writer`, `xlsx::write_with_password`, `write_with_password_light`, `set_password` one program of the
  protocol language of `Umya/Model/SaveProto.lean` — the effectful calls in source order (`File::create`,
  `BufWriter::new`, `write_all`, `flush`, `drop`, `fs::rename`, `fs::remove_file`, `cfb::create`, `write_compound_file`,
  `File::open`, `read_to_end`, `make_buffer`), what is done with each `Result` (`?`, stored in `result`, discarded,
  matched), the error-path blocks and the scope-end drops explicit, callees inlined — and the expression of the temp name.

  Proved here, for the regenerated programs:
  * `C13_protocol_matches_source`: running the regenerated program on the file-system model yields, for ALL fault plans,
    outputs, destinations (with an extension) and file systems, exactly the final state (with its whole history) and
    the ok / error result of the hand model's `savePath` / `savePw` / `setPw` / `writeWriter` — the functions
    `C13_all_or_nothing`, `C13_observer`, `C13_sink`, … (`Thm/C13.lean`) are about.
  * `C13_tmp_name_matches_source`: the temp-name expression of every path-save function evaluates to the model's `tmpOf`.

  How: the generic soundness theorem `exec_norm` (a program runs like its decision tree, `Lemmas/SaveProto.lean`),
  one closed `decide` per function (`norm Gen.f [] = <the model's tree>`: independent of how the source spells its control
  flow — `?`, `match`, `if let`, `is_ok()` chains, extra result variables, helper functions — but not of the order of the
  calls or of which results are checked), and the lemmas `interpT_savePathT` … (the model's tree IS the model's protocol).
-/
import Umya.Lemmas.SaveProto
import Umya.Model.Gen.Proto
import Umya.Thm.C13
namespace Umya.Thm.C13
open Umya.Fs Umya.SaveProto

/-! ### the decision trees of the regenerated programs are the model's -/

theorem norm_xlsx_write : norm Gen.xlsx_write [] = savePathT := by decide
theorem norm_xlsx_write_light : norm Gen.xlsx_write_light [] = savePathT := by decide
theorem norm_csv_write : norm Gen.csv_write [] = savePathCsvT := by decide
theorem norm_xlsx_write_writer : norm Gen.xlsx_write_writer [] = writeWriterT := by decide
theorem norm_xlsx_write_writer_light : norm Gen.xlsx_write_writer_light [] = writeWriterT := by decide
theorem norm_csv_write_writer : norm Gen.csv_write_writer [] = writeWriterCsvT := by decide
theorem norm_xlsx_write_with_password : norm Gen.xlsx_write_with_password [] = savePwT := by decide
theorem norm_xlsx_write_with_password_light : norm Gen.xlsx_write_with_password_light [] = savePwT := by decide
theorem norm_xlsx_set_password : norm Gen.xlsx_set_password [] = setPwT := by decide

/-- the result of a model protocol as the protocol language sees it: `ok`, or an error -/
def outcome (x : St × R) : St × R := (x.1, okErr x.2)

/-- **The regenerated protocols are the model's protocols.**  `c` collects what the run is parametric in: the fault
    plan `c.φ`, the output `c.data` (`c.cok`: `make_buffer` succeeded), the container writer's `write_all` sequences
    `c.enc1` (`cfb::create`) and `c.enc2` (`write_compound_file`), the paths; `hx`: the destination has an extension
    (otherwise the functions panic on `extension().unwrap()` before any I/O). -/
theorem C13_protocol_matches_source (c : Ctx) (st : St) (pre ext : List Char) (hc : c.cok = true)
    (hx : splitExt c.dest = some (pre, ext)) :
    -- xlsx::write, xlsx::write_light, csv::write: `savePath`
    exec c Gen.xlsx_write [] (M.init st) = some (outcome (savePath c.φ c.data c.dest st)) ∧
    exec c Gen.xlsx_write_light [] (M.init st) = some (outcome (savePath c.φ c.data c.dest st)) ∧
    exec c Gen.csv_write [] (M.init st) = some (outcome (savePath c.φ c.data c.dest st)) ∧
    -- write_writer (xlsx, light, csv) on a caller-supplied sink: `writeWriter`
    (exec c Gen.xlsx_write_writer [] M.sink).map sinkView = some (writeWriter c.φ c.data) ∧
    (exec c Gen.xlsx_write_writer_light [] M.sink).map sinkView = some (writeWriter c.φ c.data) ∧
    (exec c Gen.csv_write_writer [] M.sink).map sinkView = some (writeWriter c.φ c.data) ∧
    -- write_with_password(_light): `savePw` on the container writer's write sequence
    exec c Gen.xlsx_write_with_password [] (M.init st) =
      some (outcome (savePw c.φ (c.enc1 c.data ++ c.enc2 c.data) c.dest st)) ∧
    exec c Gen.xlsx_write_with_password_light [] (M.init st) =
      some (outcome (savePw c.φ (c.enc1 c.data ++ c.enc2 c.data) c.dest st)) ∧
    -- set_password: `setPw`
    exec c Gen.xlsx_set_password [] (M.init st) =
      some (outcome (setPw c.φ (fun b => c.enc1 b ++ c.enc2 b) c.src c.dest st)) := by
  have sink : ∀ (x : St × R), x = writeAll c.φ sinkPath c.data.length c.data (St.init [(sinkPath, .file [])]) →
      sinkView (x.1, okErr x.2) = writeWriter c.φ c.data := by
    intro x hxe
    have hw := writeWriter_eq_sinkView c.φ c.data
    rcases C13_sink c.φ c.data with ⟨r, _⟩ | ⟨r, _⟩
    · rw [hw, ← hxe] at r ⊢
      simp only [sinkView] at r ⊢
      rw [r]; rfl
    · rw [hw, ← hxe] at r ⊢
      simp only [sinkView] at r ⊢
      rw [r]; rfl
  refine ⟨?_, ?_, ?_, ?_, ?_, ?_, ?_, ?_, ?_⟩
  · rw [exec_norm, norm_xlsx_write]; exact interpT_savePathT c st pre ext hc hx
  · rw [exec_norm, norm_xlsx_write_light]; exact interpT_savePathT c st pre ext hc hx
  · rw [exec_norm, norm_csv_write]; exact interpT_savePathCsvT c st pre ext hx
  · rw [exec_norm, norm_xlsx_write_writer, interpT_writeWriterT c hc]
    simp only [Option.map_some]; exact congrArg some (sink _ rfl)
  · rw [exec_norm, norm_xlsx_write_writer_light, interpT_writeWriterT c hc]
    simp only [Option.map_some]; exact congrArg some (sink _ rfl)
  · rw [exec_norm, norm_csv_write_writer, interpT_writeWriterCsvT c]
    simp only [Option.map_some]; exact congrArg some (sink _ rfl)
  · rw [exec_norm, norm_xlsx_write_with_password]; exact interpT_savePwT c st pre ext hc hx
  · rw [exec_norm, norm_xlsx_write_with_password_light]; exact interpT_savePwT c st pre ext hc hx
  · rw [exec_norm, norm_xlsx_set_password]; exact interpT_setPwT c st pre ext hx

/-- non-vacuity: a context satisfying the hypotheses (`a.x` has the extension `x`), and the regenerated `xlsx::write`
    run on it: writes failing from byte 2 — error, destination untouched, temp file removed -/
example :
    let c : Ctx := ⟨{ noFault with write := limitPolicy 2 true }, true, [1, 2, 3], fun _ => [], fun _ => [],
      ['a', '.', 'x'], [], []⟩
    let fs : Fs := [(['a', '.', 'x'], .file [9])]
    c.cok = true ∧ splitExt c.dest = some (['a'], ['x']) ∧
    (exec c Gen.xlsx_write [] (M.init (St.init fs))).map (fun o => (o.2, get o.1.cur ['a', '.', 'x'], get o.1.cur (tmpOf ['a', '.', 'x'])))
      = some (.err, some (.file [9]), none) := by decide

/-- … and without a fault: the regenerated program itself puts the new bytes at the destination -/
example :
    let c : Ctx := ⟨noFault, true, [1, 2, 3], fun _ => [], fun _ => [], ['a', '.', 'x'], [], []⟩
    (exec c Gen.xlsx_write [] (M.init (St.init [(['a', '.', 'x'], .file [9])]))).map (fun o => (o.2, get o.1.cur ['a', '.', 'x']))
      = some (.ok, some (.file [1, 2, 3])) := by decide

/-- **When `make_buffer` fails** (an in-memory error, not an I/O failure; `savePath` / `savePw` have no such
    parameter): the regenerated `xlsx::write` / `write_light` return the error after creating the empty temp file
    and removing it again (or after the failed creation) — the destination is not touched by any step —, and the
    regenerated `write_with_password(_light)` return the error without a single system call. -/
theorem C13_make_buffer_failure (c : Ctx) (st : St) (pre ext : List Char) (hc : c.cok = false)
    (hx : splitExt c.dest = some (pre, ext)) :
    (exec c Gen.xlsx_write [] (M.init st) =
      some (match sysCreate c.φ (tmpOf c.dest) st with
            | (st1, none) => (st1, .err)
            | (st1, some _) => ((sysRemove c.φ (tmpOf c.dest) st1).1, .err))) ∧
    (exec c Gen.xlsx_write_light [] (M.init st) =
      some (match sysCreate c.φ (tmpOf c.dest) st with
            | (st1, none) => (st1, .err)
            | (st1, some _) => ((sysRemove c.φ (tmpOf c.dest) st1).1, .err))) ∧
    exec c Gen.xlsx_write_with_password [] (M.init st) = some (st, .err) ∧
    exec c Gen.xlsx_write_with_password_light [] (M.init st) = some (st, .err) := by
  refine ⟨?_, ?_, ?_, ?_⟩
  · rw [exec_norm, norm_xlsx_write]; exact interpT_savePathT_compute_fail c st pre ext hc hx
  · rw [exec_norm, norm_xlsx_write_light]; exact interpT_savePathT_compute_fail c st pre ext hc hx
  · rw [exec_norm, norm_xlsx_write_with_password]; exact interpT_savePwT_compute_fail c st hc
  · rw [exec_norm, norm_xlsx_write_with_password_light]; exact interpT_savePwT_compute_fail c st hc

example :
    let c : Ctx := ⟨noFault, false, [], fun _ => [], fun _ => [], ['a', '.', 'x'], [], []⟩
    let fs : Fs := [(['a', '.', 'x'], .file [9])]
    c.cok = false ∧ splitExt c.dest = some (['a'], ['x']) ∧
    (exec c Gen.xlsx_write [] (M.init (St.init fs))).map (fun o => (o.2, o.1.states.map (fun s => get s ['a', '.', 'x']), get o.1.cur (tmpOf ['a', '.', 'x'])))
      = some (.err, [some (.file [9]), some (.file [9]), some (.file [9])], none) := by decide

/-- **The temp name of the source is the model's**: the path every path-save function creates its file at —
    `path.with_extension(format!("{}{}", extension, "tmp"))`, `extension = path.extension().unwrap().to_str().unwrap()`,
    under the model of `Path::extension` / `with_extension` of `Model/SaveProto.lean` — is `<dest>tmp`, for every
    destination with an extension. -/
theorem C13_tmp_name_matches_source (fs0 : Fs) (dest src : Path) (pre ext : List Char)
    (hx : splitExt dest = some (pre, ext)) :
    evalE fs0 dest src Gen.xlsx_write_tmp = some (tmpOf dest) ∧
    evalE fs0 dest src Gen.xlsx_write_light_tmp = some (tmpOf dest) ∧
    evalE fs0 dest src Gen.csv_write_tmp = some (tmpOf dest) ∧
    evalE fs0 dest src Gen.xlsx_write_with_password_tmp = some (tmpOf dest) ∧
    evalE fs0 dest src Gen.xlsx_write_with_password_light_tmp = some (tmpOf dest) ∧
    evalE fs0 dest src Gen.xlsx_set_password_tmp = some (tmpOf dest) := by
  have h := evalE_tmpE fs0 dest src pre ext hx
  have e1 : Gen.xlsx_write_tmp = tmpE .dest := by decide
  have e2 : Gen.xlsx_write_light_tmp = tmpE .dest := by decide
  have e3 : Gen.csv_write_tmp = tmpE .dest := by decide
  have e4 : Gen.xlsx_write_with_password_tmp = tmpE .dest := by decide
  have e5 : Gen.xlsx_write_with_password_light_tmp = tmpE .dest := by decide
  have e6 : Gen.xlsx_set_password_tmp = tmpE .dest := by decide
  rw [e1, e2, e3, e4, e5, e6]
  exact ⟨h, h, h, h, h, h⟩

/-- non-vacuity, and the model of `Path::extension` on examples: `dir.d/book.xlsx` → `xlsx`; no extension for
    `book`, `.hidden`, `dir.d/book`, `..` -/
example :
    splitExt "dir.d/book.xlsx".toList = some ("dir.d/book".toList, "xlsx".toList) ∧
    evalE [] "dir.d/book.xlsx".toList [] Gen.xlsx_write_tmp = some "dir.d/book.xlsxtmp".toList ∧
    splitExt "book".toList = none ∧ splitExt ".hidden".toList = none ∧ splitExt "dir.d/book".toList = none ∧
    splitExt "..".toList = none ∧ splitExt "a/..".toList = none ∧
    splitExt "archive.tar.gz".toList = some ("archive.tar".toList, "gz".toList) := by decide

end Umya.Thm.C13
