/-
  C20 — CSV export is a faithful rectangular rendering of the active sheet.

  Property theorems only; helper lemmas are in `Umya/Lemmas/{Csv,Utf16,CsvBook}.lean`.
  The model (`Umya/Model/Csv.lean`) is of `writer/csv.rs::write_writer` AFTER
  fix_1_csv_quoting_utf16.patch and of the sheet list AFTER fix_2_active_tab_clamp.patch.
  The reader (`Umya/Spec/Rfc4180.lean`) is written from RFC 4180.
  Every theorem in namespace `Umya.Thm.C20` is audited for its axioms on every run.
-/
import Umya.Lemmas.Csv
import Umya.Lemmas.Utf16
import Umya.Lemmas.CsvBook
namespace Umya.Thm.C20
open Umya.Csv Umya.Rfc4180 Umya.Lemmas.Csv Umya.Lemmas.Utf16 Umya.Lemmas.CsvBook

/-! ### what the property says the CSV must contain -/

/-- The grid of the property text: one record per row `1 … highest row`, one field per column
    `1 … highest column`, each the cell's value text (empty for a missing cell), trimmed if the
    options say so.  (Wrapping is part of the rendering, not of the recovered value.) -/
def expected (g : Grid) (o : Opts) : List Record :=
  (List.range (highestRow g)).map fun i =>
    (List.range (highestCol g)).map fun j =>
      if o.trim then trim (g.get (i + 1) (j + 1)) else g.get (i + 1) (j + 1)

/-- the quote character of the reader: the configured wrap character, `"` when none is configured -/
abbrev quoteOf := Umya.Lemmas.Csv.quoteOf

/-- the quote character is usable by a CSV reader at all -/
def UsableQuote (o : Opts) : Prop := quoteOf o ≠ ',' ∧ quoteOf o ≠ '\r' ∧ quoteOf o ≠ '\n'

/-- the sheet has no row without a column (true for every sheet whose cells sit at columns ≥ 1) -/
def HasColumns (g : Grid) : Prop := highestRow g = 0 ∨ 0 < highestCol g

/-- cell coordinates are 1-based -/
def OneBased (g : Grid) : Prop := ∀ e ∈ g, 1 ≤ e.1.1 ∧ 1 ≤ e.1.2

instance (g : Grid) : Decidable (OneBased g) := by unfold OneBased; infer_instance

/-! ### C20_highest: the loop bounds are the highest used row / column -/

/-- `highestRow`/`highestCol` bound every cell and are attained (or are 0 for a store without
    cells at positive coordinates). -/
theorem C20_highest (g : Grid) :
    (∀ e ∈ g, e.1.1 ≤ highestRow g ∧ e.1.2 ≤ highestCol g) ∧
    (highestRow g = 0 ∨ ∃ e ∈ g, e.1.1 = highestRow g) ∧
    (highestCol g = 0 ∨ ∃ e ∈ g, e.1.2 = highestCol g) :=
  ⟨fun e he => ⟨foldl_max_ge (fun e : (Nat × Nat) × Text => e.1.1) g 0 e he,
                foldl_max_ge (fun e : (Nat × Nat) × Text => e.1.2) g 0 e he⟩,
   foldl_max_attained (fun e : (Nat × Nat) × Text => e.1.1) g 0,
   foldl_max_attained (fun e : (Nat × Nat) × Text => e.1.2) g 0⟩

example : highestRow [((2, 5), ['x']), ((7, 1), [])] = 7 ∧ highestCol [((2, 5), ['x']), ((7, 1), [])] = 5 := by decide

theorem hasColumns_of_oneBased (g : Grid) (h : OneBased g) : HasColumns g := by
  cases g with
  | nil => left; rfl
  | cons e g =>
    right
    have h1 := (h e (by simp)).2
    have h2 := ((C20_highest (e :: g)).1 e (by simp)).2
    omega

/-! ### C20_parse_back: a standard reader recovers exactly the grid -/

theorem csvText_eq (g : Grid) (o : Opts) :
    csvText g o = (((List.range (highestRow g)).map fun i =>
      (List.range (highestCol g)).map fun j => g.get (i + 1) (j + 1)).flatMap (renderRow o)) := by
  unfold csvText; rw [List.flatMap_map]

/-- **Parse-back.**  For every sheet `g` (any values: delimiters, quotes, CR, LF, blanks, any scalar
    value) and every option set `o` whose quote character is usable, the RFC 4180 reader configured
    with delimiter `,` and quote `quoteOf o` recovers from the text written by the model exactly the
    expected grid.  `HasColumns` excludes only stores whose cells all sit at column 0. -/
theorem C20_parse_back (g : Grid) (o : Opts) (hq : UsableQuote o) (hg : HasColumns g) :
    parse ',' (quoteOf o) (csvText g o) = some (expected g o) := by
  obtain ⟨hq1, hq2, hq3⟩ := hq
  have hv : validConfig ',' (quoteOf o) = true := by
    simp only [validConfig, Bool.and_eq_true, bne_iff_ne, ne_eq]
    exact ⟨⟨⟨⟨fun h => hq1 h.symm, by decide⟩, by decide⟩, hq2⟩, hq3⟩
  unfold parse
  rw [if_pos hv, csvText_eq, run_rows o hq1 hq2]
  · simp [expected, rowValues, fieldValue, List.map_map, Function.comp_def]
  · intro row hrow
    simp only [List.mem_map, List.mem_range] at hrow
    obtain ⟨i, hi, rfl⟩ := hrow
    have hc : 0 < highestCol g := by
      rcases hg with h | h
      · omega
      · exact h
    intro h0
    have := congrArg List.length h0
    simp at this
    omega

/-- The three wrap settings the property quantifies over (none, `"`, `'`) are usable. -/
theorem C20_parse_back_std (g : Grid) (o : Opts) (hw : o.wrap = none ∨ o.wrap = some '"' ∨ o.wrap = some '\'')
    (hg : OneBased g) : parse ',' (quoteOf o) (csvText g o) = some (expected g o) := by
  apply C20_parse_back g o _ (hasColumns_of_oneBased g hg)
  unfold UsableQuote quoteOf Umya.Lemmas.Csv.quoteOf
  rcases hw with h | h | h <;> rw [h] <;> decide

/-- non-vacuity: a sparse sheet with a gap, a delimiter, a quote, a line break and outer blanks -/
def demoGrid : Grid :=
  [((1, 1), "a,b".toList), ((2, 3), " q\"r ".toList), ((3, 2), "x\r\ny".toList), ((3, 3), "'😀'".toList)]

example : OneBased demoGrid := by decide
example : UsableQuote ⟨.utf8, true, none⟩ ∧ UsableQuote ⟨.utf16le, false, some '\''⟩ := by
  simp only [UsableQuote, quoteOf, Umya.Lemmas.Csv.quoteOf]; decide
example : csvText demoGrid ⟨.utf8, true, none⟩ = "\"a,b\",,\r\n,,\"q\"\"r\"\r\n,\"x\r\ny\",'😀'\r\n".toList := by decide
example : parse ',' '"' (csvText demoGrid ⟨.utf8, true, none⟩)
    = some [["a,b".toList, [], []], [[], [], "q\"r".toList], [[], "x\r\ny".toList, "'😀'".toList]] := by decide
example : csvText demoGrid ⟨.utf8, false, some '\''⟩
    = "'a,b','',''\r\n'','',' q\"r '\r\n'','x\r\ny','''😀'''\r\n".toList := by decide

/-! ### C20_rect: the rendering is rectangular -/

/-- One record per row up to the highest row, and every record has one field per column up to
    the highest column. -/
theorem C20_rect (g : Grid) (o : Opts) :
    (expected g o).length = highestRow g ∧ ∀ r ∈ expected g o, r.length = highestCol g := by
  constructor
  · simp [expected]
  · intro r hr
    simp only [expected, List.mem_map, List.mem_range] at hr
    obtain ⟨i, _, rfl⟩ := hr
    simp

/-- …and the field at (row `i+1`, column `j+1`) is the (trimmed) value of that cell. -/
theorem C20_cell (g : Grid) (o : Opts) (i j : Nat) (hi : i < highestRow g) (hj : j < highestCol g) :
    ((expected g o)[i]?.bind (·[j]?)) = some (fieldValue o (g.get (i + 1) (j + 1))) := by
  simp [expected, hi, hj, fieldValue]

example : (expected demoGrid ⟨.utf8, true, none⟩).length = 3 := by decide

/-! ### C20_wrap: which fields are wrapped -/

/-- With a wrap character every field is wrapped in it (occurrences inside doubled); without one a
    field is written verbatim unless it contains `,`, `"`, CR or LF, in which case it is wrapped in `"`. -/
theorem C20_wrap (o : Opts) (v : Text) :
    (∀ q, o.wrap = some q → renderField o v = [q] ++ escape q (fieldValue o v) ++ [q]) ∧
    (o.wrap = none → needsQuote (fieldValue o v) = false → renderField o v = fieldValue o v) ∧
    (o.wrap = none → needsQuote (fieldValue o v) = true →
        renderField o v = ['"'] ++ escape '"' (fieldValue o v) ++ ['"']) := by
  refine ⟨fun q h => ?_, fun h hn => ?_, fun h hn => ?_⟩ <;> simp [renderField, quoted, *]

example : renderField ⟨.utf8, true, some '\''⟩ " it's ".toList = "'it''s'".toList := by decide
example : renderField ⟨.utf8, false, none⟩ "plain text".toList = "plain text".toList := by decide

/-! ### C20_trim: what "trimmed" means -/

/-- `trim v` is `v` without a leading and a trailing run of white space (Unicode `White_Space`,
    as `char::is_whitespace`), and it neither starts nor ends with white space. -/
theorem C20_trim (v : Text) :
    ∃ a b, v = a ++ trim v ++ b ∧ a.all isWhitespace = true ∧ b.all isWhitespace = true ∧
      (∀ x, (trim v).head? = some x → isWhitespace x = false) ∧
      (∀ x, (trim v).getLast? = some x → isWhitespace x = false) := trim_spec v

example : trim " \t\u00a0a b\u3000\r\n".toList = "a b".toList := by decide
example : trim " \u200b ".toList = "\u200b".toList := by decide

/-! ### degenerate sheets, stated exactly -/

/-- The empty sheet is written as the empty text, which has no records. -/
theorem C20_empty_sheet (o : Opts) : csvText [] o = [] ∧ expected [] o = [] := by
  constructor <;> rfl

/-- A one-column sheet whose cells are all empty, no wrap character: every line is empty.
    The RFC grammar reads an empty line as a record with one empty field, so the grid is
    recovered (this is `C20_parse_back`); a reader that SKIPS blank lines (several popular ones do)
    would lose these rows.  With a wrap character the lines are `""` and nothing is ambiguous. -/
theorem C20_single_empty_column :
    csvText [((2, 1), [])] ⟨.utf8, false, none⟩ = "\r\n\r\n".toList ∧
    parse ',' '"' "\r\n\r\n".toList = some [[[]], [[]]] ∧
    csvText [((2, 1), [])] ⟨.utf8, false, some '"'⟩ = "\"\"\r\n\"\"\r\n".toList := by decide

/-- `HasColumns` is needed: the cell store accepts a cell at column 0 (`get_cell_mut((0, 1))`);
    if that is the only column, the writer emits one empty line per row, which reads back as
    one (empty) field, not zero fields. -/
theorem C20_zero_columns_fails :
    ¬ ∀ (g : Grid) (o : Opts), UsableQuote o → parse ',' (quoteOf o) (csvText g o) = some (expected g o) := by
  intro h
  have := h [((1, 0), ['x'])] ⟨.utf8, false, none⟩ (by simp only [UsableQuote, quoteOf, Umya.Lemmas.Csv.quoteOf]; decide)
  revert this
  decide

/-! ### C20_utf16 / C20_utf8: the encodings the model spells out -/

/-- UTF-16LE and UTF-16BE: the strict decoder inverts the encoder on every text
    (every Unicode scalar value, including those above U+FFFF). -/
theorem C20_utf16 (bigEndian : Bool) (s : Text) : decodeUtf16 bigEndian (encodeUtf16 bigEndian s) = some s :=
  decode_encode bigEndian s

example : encodeUtf16 false "a😀".toList = [0x61, 0x00, 0x3D, 0xD8, 0x00, 0xDE] := by decide
example : encodeUtf16 true "a😀".toList = [0x00, 0x61, 0xD8, 0x3D, 0xDE, 0x00] := by decide
example : decodeUtf16 true [0xD8, 0x3D] = none := by decide

/-- UTF-8 (the encoder is Lean core's `String.ofList`, a `String` being its validated UTF-8 bytes). -/
theorem C20_utf8 (s : Text) : decodeUtf8 (encodeUtf8 s) = some s := decodeUtf8_encodeUtf8 s

/-! ### end to end: bytes written for the active sheet → decode → read -/

def isLegacy : Enc → Bool
  | .utf8 | .utf16le | .utf16be => false
  | _ => true

/-- the decoder matching `encodeWith` -/
def decodeWith (legacyDecode : Enc → List UInt8 → Option Text) (e : Enc) (b : List UInt8) : Option Text :=
  match e with
  | .utf8 => decodeUtf8 b
  | .utf16le => decodeUtf16 false b
  | .utf16be => decodeUtf16 true b
  | e => legacyDecode e b

/-- **End to end.**  If a sheet is active, `write_writer` does not panic, and decoding its bytes in
    the selected encoding and reading them with the RFC 4180 reader gives the expected grid.
    For the seven legacy code pages (a parameter) this needs the hypothesis that the code page
    round-trips the text that was written ("the text is representable"); for UTF-8/UTF-16 nothing. -/
theorem C20_end_to_end (legacy : Enc → Text → List UInt8) (legacyDecode : Enc → List UInt8 → Option Text)
    (b : Book) (g : Grid) (o : Opts) (hact : b.activeSheet = some g) (hq : UsableQuote o) (hg : HasColumns g)
    (hleg : isLegacy o.enc = true → legacyDecode o.enc (legacy o.enc (csvText g o)) = some (csvText g o)) :
    ∃ bytes, writeWriter legacy b o = some bytes ∧
      (decodeWith legacyDecode o.enc bytes).bind (parse ',' (quoteOf o)) = some (expected g o) := by
  refine ⟨encodeWith legacy o.enc (csvText g o), by simp [writeWriter, hact], ?_⟩
  have hdec : decodeWith legacyDecode o.enc (encodeWith legacy o.enc (csvText g o)) = some (csvText g o) := by
    cases he : o.enc <;> simp only [decodeWith, encodeWith, C20_utf8, C20_utf16] <;>
      (rw [he] at hleg; exact hleg rfl)
  rw [hdec]
  exact C20_parse_back g o hq hg

/-- non-vacuity of the legacy hypothesis: any injective-on-this-text codec satisfies it (here: UTF-8
    standing in for a code page) -/
example : ∃ bytes, writeWriter (fun _ => encodeUtf8) ⟨[demoGrid], 0⟩ ⟨.gbk, true, some '"'⟩ = some bytes ∧
    (decodeWith (fun _ => decodeUtf8) .gbk bytes).bind (parse ',' '"') = some (expected demoGrid ⟨.gbk, true, some '"'⟩) :=
  C20_end_to_end (fun _ => encodeUtf8) (fun _ => decodeUtf8) ⟨[demoGrid], 0⟩ demoGrid ⟨.gbk, true, some '"'⟩ rfl
    (by simp only [UsableQuote, quoteOf, Umya.Lemmas.Csv.quoteOf]; decide) (hasColumns_of_oneBased _ (by decide))
    (fun _ => C20_utf8 _)

/-! ### C20_active: which sheet is exported, and when the export panics -/

/-- API calls that change the sheet list / the active tab / cells -/
inductive Op
  | newSheet
  | removeSheet (i : Nat)
  | setActive (i : Nat)
  | setCell (sheet row col : Nat) (v : Text)

/-- One call.  `none` = the CALLER broke an obligation: `set_active_sheet` with an index outside the
    sheet list, or removing the last remaining sheet.  A call that returns `Err`/finds no sheet
    leaves the workbook unchanged. -/
def step (b : Book) : Op → Option Book
  | .newSheet => some b.newSheet
  | .removeSheet i =>
    if b.sheets.length < 2 then none
    else match b.removeSheet i with
      | some b' => some b'
      | none => some b
  | .setActive i => if i < b.sheets.length then some (b.setActive i) else none
  | .setCell s r c v =>
    match b.setCell s r c v with
    | some b' => some b'
    | none => some b

def steps : Book → List Op → Option Book
  | b, [] => some b
  | b, op :: ops =>
    match step b op with
    | some b' => steps b' ops
    | none => none

theorem steps_inv (b b' : Book) (ops : List Op) (h : Inv b) (hs : steps b ops = some b') : Inv b' := by
  induction ops generalizing b with
  | nil => simp only [steps] at hs; injection hs with hs; subst hs; exact h
  | cons op ops ih =>
    simp only [steps] at hs
    cases hst : step b op with
    | none => rw [hst] at hs; exact absurd hs (by simp)
    | some b1 =>
      rw [hst] at hs
      refine ih b1 ?_ hs
      cases op with
      | newSheet => simp only [step] at hst; injection hst with hst; subst hst; exact inv_newSheet b h
      | removeSheet i =>
        simp only [step] at hst
        split at hst
        · exact absurd hst (by simp)
        · rename_i hlen
          cases hr : b.removeSheet i with
          | none => rw [hr] at hst; injection hst with hst; subst hst; exact h
          | some b2 => rw [hr] at hst; injection hst with hst; subst hst; exact inv_removeSheet b b2 i (by omega) hr
      | setActive i =>
        simp only [step] at hst
        split at hst
        · rename_i hi; injection hst with hst; subst hst; exact inv_setActive b i hi
        · exact absurd hst (by simp)
      | setCell s r c v =>
        simp only [step] at hst
        cases hr : b.setCell s r c v with
        | none => rw [hr] at hst; injection hst with hst; subst hst; exact h
        | some b2 => rw [hr] at hst; injection hst with hst; subst hst; exact inv_setCell b b2 s r c v h hr

/-- **No panic.**  After any history of sheet additions, removals (also of the active sheet or of
    sheets before it), in-range activations and cell writes starting from `new_file()`, the active
    tab points into the sheet list and `write_writer` returns bytes for that sheet. -/
theorem C20_active (ops : List Op) (b : Book) (hs : steps Book.new ops = some b)
    (legacy : Enc → Text → List UInt8) (o : Opts) :
    ∃ g, b.sheets[b.active]? = some g ∧ writeWriter legacy b o = some (encodeWith legacy o.enc (csvText g o)) := by
  obtain ⟨g, hg⟩ := activeSheet_of_inv b (steps_inv Book.new b ops inv_new hs)
  exact ⟨g, hg, by simp [writeWriter, hg]⟩

/-- non-vacuity: activate the last of three sheets, remove it, remove the first: still exported -/
example : ∃ b, steps Book.new [.newSheet, .newSheet, .setCell 1 1 1 ['x'], .setActive 2, .removeSheet 2, .removeSheet 0] = some b
    ∧ b.active = 0 ∧ b.sheets = [[((1, 1), ['x'])]] := ⟨_, rfl, rfl, rfl⟩

/-- `set_active_sheet` is not range-checked by the crate: an out-of-range index makes the export
    panic (`get_active_sheet` unwraps).  This is the caller obligation excluded by `step`. -/
theorem C20_set_active_unchecked (legacy : Enc → Text → List UInt8) (o : Opts) :
    writeWriter legacy (Book.new.setActive 1) o = none := rfl

end Umya.Thm.C20
