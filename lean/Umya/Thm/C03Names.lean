/-
  C03 at workbook level, continued — property theorems only (namespace `Umya.Thm.C03`).

  Model: `Umya/Model/ReaderBook.lean` (merged ranges through `Range::set_range` / `get_range`, defined names through
  `set_address` / `get_address`, the re-homing loop of reader/xlsx/workbook.rs, `join_paths`, table parts).
  Helper lemmas: `Umya/Lemmas/ReaderNames.lean`, `Umya/Lemmas/ReaderPath.lean`.

    * C03_merges            merged ranges at full strength (un-suffixed companion of `C03_merges_partial`)
    * C03_defined_names     defined names at full strength for what the decoder delivers (`NameV`: name, scope, text)
    * C03_names_home        where a name is found after loading (workbook list / sheet k): the scope of the standard for a
                            name with `localSheetId`; the sheet of the FIRST area for a name without (the library's
                            convention: compared with the implementation through the model, `c03 model`)
    * C03_sheet_paths       `join_paths("xl", target)` = the decoder's `resolveTarget` (completes `C03_sheet_list`)
    * C03_table_columns     a table part: name, display name, area, column names = `decodeTable`
-/
import Umya.Lemmas.ReaderNames
import Umya.Lemmas.ReaderNamesAny
import Umya.Lemmas.ReaderPath
import Umya.Lemmas.ReaderWhole
import Umya.Thm.C03Book
namespace Umya.Thm.C03
open Umya.Reader Umya.Reader.Lemmas Umya.Spec.Xml Umya.Spec.Sml Umya.Coord
open Umya.Annot (DefName Address AreaOK splitStr isAddress canonText canonArea nameTextAnyB canonNameTextB canonAreaB)

/-! ## merged ranges -/
section Merges

/-- **Merged ranges.**  For every list of `<mergeCell>` elements whose `ref` is the A1 text of a range (`MergeRefOk`: a
    cell, cell:cell, whole rows or whole columns, `$` allowed, columns ≤ ZZZ, rows < 2^32 — any number of them) the model of
    `MergeCells::set_attributes` (`get_attribute(ref).unwrap()`, `Range::set_range` on a default range) does not panic, and
    `get_merge_cells()` shows, range by range through `Range::get_range`, exactly the `ref` texts — which are the decoder's
    `merges` (`C03_merges_is_decodeSheet`).  From `C17_range`. -/
theorem C03_merges (ms : List Node) (h : ∀ m ∈ ms, ∃ v, m.attr? "ref".toList = some v ∧ MergeRefOk v) :
    ∃ rs, readMergeRanges ms = some rs ∧ shownMerges rs = ms.filterMap (·.attr? "ref".toList) := by
  induction ms with
  | nil => exact ⟨[], rfl, rfl⟩
  | cons m rest ih =>
    obtain ⟨v, hv, hok⟩ := h m List.mem_cons_self
    obtain ⟨ρ, hp, hpr⟩ := mergeRange_ok v hok
    obtain ⟨rs, hrs, hsh⟩ := ih (fun x hx => h x (List.mem_cons_of_mem _ hx))
    refine ⟨ρ :: rs, ?_, ?_⟩
    · unfold readMergeRanges at hrs ⊢
      have hρ : resOpt (Range.parse v) = some ρ := by rw [hp]; rfl
      simp only [List.mapM_cons, hv, Option.bind_some, hρ, hrs]
      rfl
    · simp only [shownMerges, List.map_cons, hpr, List.filterMap_cons, hv] at hsh ⊢
      rw [hsh]

/-- non-vacuity (edge 14 / edge 13): a block, a block reaching the last column, a block reaching the last row, `$` locks,
    whole columns -/
example :
    let ms : List Node := ["A5:B6", "C5:XFD7", "A9:A1048576", "$B$2:C$3", "A:C"].map fun r =>
      Node.elem "mergeCell".toList [⟨"ref".toList, r.toList⟩] []
    (∀ m ∈ ms, ∃ v, m.attr? "ref".toList = some v ∧ MergeRefOk v) ∧
    (readMergeRanges ms).map shownMerges =
      some ["A5:B6".toList, "C5:XFD7".toList, "A9:A1048576".toList, "$B$2:C$3".toList, "A:C".toList] := by
  refine ⟨?_, by decide +kernel⟩
  intro m hm
  simp only [List.map_cons, List.map_nil, List.mem_cons, List.not_mem_nil, or_false] at hm
  rcases hm with rfl | rfl | rfl | rfl | rfl
  all_goals exact ⟨_, rfl, mergeRefOkB_sound _ (by decide +kernel)⟩

/-- what is outside `MergeRefOk`: a lower-case reference does not match the coordinate pattern (the range stays empty and
    prints as the empty text), a row with a leading zero is printed without it, `set_range` panics on a text with two colons -/
example : (resOpt (Range.parse "a1:b2".toList)).map Range.print = some [] ∧
    (resOpt (Range.parse "A01".toList)).map Range.print = some "A1".toList ∧
    resOpt (Range.parse "A1:B2:C3".toList) = none := by
  refine ⟨by decide +kernel, by decide +kernel, by decide +kernel⟩

/-- **`MergeRefOk` is an explicit grammar.**  A `ref` text satisfies `MergeRefOk` exactly when it is in the decidable
    grammar `canonRangeB` (`Umya/Model/CoordCanon.lean`): `cell`, `cell:cell`, `col:col` or `row:row`, every part
    `\$?[A-Z]{1,3}` / `\$?(0|[1-9][0-9]*)` with the row below 2^32.  From `C17_range_bijection`. -/
theorem C03_merge_ref_grammar (v : Text) : MergeRefOk v ↔ canonRangeB v = true := mergeRefOk_iff v

/-- **Merged ranges, by the grammar of the `ref` text.**  `C03_merges` for EVERY list of `<mergeCell>` elements whose `ref` is
    a canonical A1 text (`canonRangeB`, evaluated per file by the driver: `merges-canon`): the reader does not panic and
    `get_range()` shows exactly the file's texts.  From `C17_range_parse_print`. -/
theorem C03_merges_canonical (ms : List Node) (h : ∀ m ∈ ms, ∃ v, m.attr? "ref".toList = some v ∧ canonRangeB v = true) :
    ∃ rs, readMergeRanges ms = some rs ∧ shownMerges rs = ms.filterMap (·.attr? "ref".toList) :=
  C03_merges ms (fun m hm => by
    obtain ⟨v, hv, hc⟩ := h m hm
    exact ⟨v, hv, (mergeRefOk_iff v).2 hc⟩)

/-- non-vacuity; and what stays outside the grammar (the witnesses of the example above): lower case, a leading zero -/
example : (["A5:B6", "C5:XFD7", "$B$2:C$3", "A:C", "2:$3", "D4"].map fun r => canonRangeB r.toList) =
      [true, true, true, true, true, true] ∧
    (["a1:b2", "A01", "A1:B2:C3", "A1:", "", "AAAA1", "A4294967296"].map fun r => canonRangeB r.toList) =
      [false, false, false, false, false, false, false] := by
  decide +kernel

end Merges

/-! ## defined names -/
section Names

/-- what the decoder delivers for a name, on the model's side: `get_name()`, `localSheetId`, `get_address()` -/
def nameViewB (n : NameB) : NameV := NameV.mk n.name n.localSheetId n.body.text

/-- **Defined names.**  For every list of `<definedName>` elements with `validDefinedName` (`localSheetId` an unsigned
    decimal fitting `u32`; content character data without blanks at its ends) whose text is `NameTextOk` — anything that is
    NOT a plain list of cell areas (formulas, constants, whole rows / columns, lists with such parts: kept as text, in
    whatever spelling), or a list of areas in the spelling `get_address_ptn2` prints (`'Data'!$A$1,'S 2'!$B$2:$C$3`: the
    sheet name in apostrophes unless it consists of digits and lower-case letters only, `''` for an apostrophe) — the model
    of `DefinedName::set_attributes` INCLUDING `set_address` (split at top-level commas, `is_address`, `add_address`,
    `Address::set_address`, `Range::set_range`) does not panic, and the getters `get_name()`, `get_local_sheet_id()`,
    `get_address()` (the text, or the areas printed by `get_address_ptn2` and joined with `,`) show exactly the decoder's
    name, scope and text, name by name in document order.
    The name is what `get_attribute` returns (`C03_attr`: unescaped), the text what `unescape_text` returns (`C03_text`).
    From `C06_defined_name_roundtrip` / `C06_defined_name_text_kept`.
    NOT covered (PARTIAL in this respect): an area list in ANOTHER spelling of the same references — `Sheet1!$A$1`, as Excel
    writes a plain sheet name: the library prints `'Sheet1'!$A$1` (its quoting rule `index_from_coordinate(name) != None`
    is an unanchored pattern that finds a column letter in almost every name).  The two texts denote the same areas; the
    text-to-range direction of the range codec that a proof needs is not available (C17 proves print-then-parse), so
    this is compared per file only, with every plain qualifier quoted on both sides (below the abstraction). -/
theorem C03_defined_names (ds : List Node) (h : ds.all validDefinedName = true) (ht : ∀ d ∈ ds, NameTextOk d.ownText) :
    ∃ l, readDefinedNamesB ds = some l ∧ l.map nameViewB = ds.map specName := by
  induction ds with
  | nil => exact ⟨[], rfl, rfl⟩
  | cons d rest ih =>
    simp only [List.all_cons, Bool.and_eq_true] at h
    obtain ⟨n, hn, h1, h2, h3⟩ := definedNameB_agrees d h.1 (ht d List.mem_cons_self)
    obtain ⟨l, hl, hv⟩ := ih h.2 (fun x hx => ht x (List.mem_cons_of_mem _ hx))
    refine ⟨n :: l, ?_, ?_⟩
    · unfold readDefinedNamesB at hl ⊢
      simp only [List.mapM_cons, hn, hl]
      rfl
    · simp only [List.map_cons, hv, List.cons.injEq, and_true]
      simp only [nameViewB, h1, h2, h3]

/-- the decoder's name with its text as the library SHOWS it: every sheet qualifier of an area list re-quoted by the
    library's rule (`canonText`), name and scope untouched -/
def canonNameV (n : NameV) : NameV := NameV.mk n.name n.scope (canonText n.text)

/-- **Defined names in any spelling.**  `C03_defined_names` with the hypothesis on the text widened to `nameTextAnyB`
    (decidable; evaluated per file by the driver: `names-any-ok`): anything that is NOT a plain list of cell areas (kept
    as it stands), or a list `area,area,…` where every area is `qualifier!cell` or `qualifier!cell:cell` in ANY canonical
    spelling — the qualifier unquoted (a legal sheet name without `' ( ) " ,`: `Sheet1!$A$1`, as Excel writes it) or in
    apostrophes with every apostrophe doubled (`'It''s'!$A$1`), the cells with or without `$`, rows without leading
    zeros.  The reader model does not panic and `get_name()`, `get_local_sheet_id()`, `get_address()` show the decoder's
    name and scope, and the decoder's text RE-QUOTED: `canonText` — the same cells, every qualifier in apostrophes unless
    the name is `[0-9a-zA-Z]+` starting with a lower-case letter (or a digit run ≥ 2^32): `C17_quote_rule`.
    So for the file text `Sheet1!$A$1` the library shows `'Sheet1'!$A$1` (probed on the implementation: it does).
    That `canonText` keeps the MEANING is `C03_canon_text_meaning`. -/
theorem C03_defined_names_any_spelling (ds : List Node) (h : ds.all validDefinedName = true)
    (ht : ∀ d ∈ ds, nameTextAnyB d.ownText = true) :
    ∃ l, readDefinedNamesB ds = some l ∧ l.map nameViewB = ds.map (fun d => canonNameV (specName d)) := by
  induction ds with
  | nil => exact ⟨[], rfl, rfl⟩
  | cons d rest ih =>
    simp only [List.all_cons, Bool.and_eq_true] at h
    obtain ⟨n, hn, h1, h2, h3⟩ := definedNameB_agrees_any d h.1 (ht d List.mem_cons_self)
    obtain ⟨l, hl, hv⟩ := ih h.2 (fun x hx => ht x (List.mem_cons_of_mem _ hx))
    refine ⟨n :: l, ?_, ?_⟩
    · unfold readDefinedNamesB at hl ⊢
      simp only [List.mapM_cons, hn, hl]
      rfl
    · simp only [List.map_cons, hv, List.cons.injEq, and_true]
      simp only [nameViewB, canonNameV, h1, h2, h3]

/-- **`canonText` keeps the meaning, and is a canonical form.**  For every name text of the wider grammar: reading the
    re-quoted text gives the SAME `DefinedName` (same areas: sheets, corners, locks, order — or the same kept text) as
    reading the file's text; re-quoting twice is re-quoting once; and on the texts of `C03_defined_names` (`NameTextOk`: the
    library's own spelling) it is the identity, so `C03_defined_names` is the special case. -/
theorem C03_canon_text_meaning (v : Text) (h : nameTextAnyB v = true) :
    DefName.setAddress {} (canonText v) = DefName.setAddress {} v ∧ canonText (canonText v) = canonText v := by
  obtain ⟨b, h1, _, h3, h4⟩ := setAddress_any v h
  exact ⟨by rw [h1, h3], h4⟩

theorem C03_canon_text_library_spelling (v : Text) (h : NameTextOk v) : nameTextAnyB v = true ∧ canonText v = v :=
  nameTextOk_any v h

/-- non-vacuity (Excel's spelling, the library's, quotes that are not needed, an apostrophe, a list in mixed spelling, a
    formula, whole columns) and what is still outside: a row with a leading zero (`set_address` reads it, `get_address`
    prints it without the zero), an unqualified area -/
example :
    (["Sheet1!$A$1", "'Sheet1'!$A$1", "'data'!A1:B2", "'It''s'!$A$1", "Sheet1!$A$1:$B$2,'S 2'!C3,data!D4", "SUM(Sheet1!A1:A2)",
      "Sheet1!$A:$B", ""].map fun t => (nameTextAnyB t.toList, String.ofList (canonText t.toList))) =
      [(true, "'Sheet1'!$A$1"), (true, "'Sheet1'!$A$1"), (true, "data!A1:B2"), (true, "'It''s'!$A$1"),
       (true, "'Sheet1'!$A$1:$B$2,'S 2'!C3,data!D4"), (true, "SUM(Sheet1!A1:A2)"), (true, "Sheet1!$A:$B"), (true, "")] ∧
    nameTextAnyB "Sheet1!$A$01".toList = false ∧ nameTextAnyB "$A$1".toList = false ∧
    ((readDefinedNamesB [Node.elem "definedName".toList [⟨"name".toList, "X".toList⟩]
        [.text "Sheet1!$A$1:$B$2,data!D4".toList]]).map fun l => l.map fun n => String.ofList n.body.text) =
      some ["'Sheet1'!$A$1:$B$2,data!D4"] := by
  decide +kernel

/-- … and for a name that IS an area list the areas the library holds (what `get_address_obj()` shows, what the re-homing
    looks at) are the areas written: same sheets, corners, locks, order -/
theorem C03_defined_name_areas (as : List Address) (h : ∀ a ∈ as, AreaOK a) :
    DefName.setAddress {} (DefName.text { areas := as }) = .ok { areas := as } := setAddress_areas as h

end Names

/-! ## where a name lives after loading -/
section Home

/-- **The home of every defined name.**  For every sheet list and every list of names as `set_attributes` left them, with
    every `localSheetId` inside the sheet list (the decoder reports a file where one is not as outside the domain; the
    library panics on it: `get_sheet_mut(..).unwrap()`), the re-homing loop of reader/xlsx/workbook.rs does not panic, keeps
    every name exactly once and in document order (`l.map (·.1) = names`), and puts
      * a name WITH `localSheetId = i` into the list of sheet `i` — its scope by ECMA-376 18.2.5, whatever sheet its areas
        are on (this half is also compared with the independent decoder per file);
      * a name WITHOUT `localSheetId` (workbook scope in the standard; WHICH list holds it is the library's API convention
        and is compared with the implementation through this model, `c03 model`): into the workbook's list when it has no
        areas (text / formula body) or when no sheet carries the sheet name of its FIRST area; else into the list of the
        FIRST sheet of that name.  Later areas play no role. -/
theorem C03_names_home (sheets : List SheetR) (names : List NameB)
    (h : ∀ n ∈ names, ∀ i, n.localSheetId = some i → i < sheets.length) :
    ∃ l, rehome sheets names = some l ∧ l.map (·.1) = names ∧
      (∀ p ∈ l, ∀ i, p.1.localSheetId = some i → p.2 = .sheet i) ∧
      (∀ p ∈ l, p.1.localSheetId = none → p.1.body.areas = [] → p.2 = .book) ∧
      (∀ p ∈ l, p.1.localSheetId = none → ∀ a rest, p.1.body.areas = a :: rest →
        (p.2 = .book ∧ ∀ s ∈ sheets, s.name ≠ a.sheet) ∨
        (∃ k, ∃ hk : k < sheets.length, p.2 = .sheet k ∧ sheets[k].name = a.sheet ∧
          ∀ j (hj : j < k), (sheets[j]'(Nat.lt_trans hj hk)).name ≠ a.sheet)) := by
  obtain ⟨l, hl, hm, hh⟩ := rehome_spec sheets names h
  refine ⟨l, hl, hm, ?_, ?_, ?_⟩
  · intro p hp i hi
    have := hh p hp
    have hmem : p.1 ∈ names := by rw [← hm]; exact List.mem_map_of_mem hp
    unfold homeOf at this
    simp only [hi, h p.1 hmem i hi, if_true, Option.some.injEq] at this
    exact this.symm
  · intro p hp hn ha
    have := hh p hp
    unfold homeOf at this
    simp only [hn, ha, List.head?_nil, Option.some.injEq] at this
    exact this.symm
  · intro p hp hn a rest ha
    have := hh p hp
    unfold homeOf at this
    simp only [hn, ha, List.head?_cons] at this
    cases hf : sheets.findIdx? (fun s => decide (s.name = a.sheet)) with
    | none =>
      rw [hf] at this
      simp only [Option.some.injEq] at this
      left
      refine ⟨this.symm, ?_⟩
      intro s hs
      have := List.findIdx?_eq_none_iff.mp hf s hs
      simpa using this
    | some k =>
      rw [hf] at this
      simp only [Option.some.injEq] at this
      right
      obtain ⟨hk, hpk, hlt⟩ := List.findIdx?_eq_some_iff_getElem.mp hf
      refine ⟨k, hk, this.symm, by simpa using hpk, ?_⟩
      intro j hj
      have := hlt j hj
      simpa using this

/-- the names of edge 14 as `set_attributes` leaves them, on the sheets `Data`, `S 2`, `T&U` -/
def exampleSheets : List SheetR :=
  [⟨"Data".toList, "1".toList, "rId1".toList, none⟩, ⟨"S 2".toList, "2".toList, "rId2".toList, none⟩,
   ⟨"T&U".toList, "3".toList, "rId3".toList, none⟩]

def dnE (name : String) (lsid : Option String) (text : String) : Node :=
  .elem "definedName".toList
    (⟨"name".toList, name.toList⟩ :: (match lsid with | some v => [⟨"localSheetId".toList, v.toList⟩] | none => []))
    [.text text.toList]

def exampleNames : List Node :=
  [dnE "Loc" (some "2") "'Data'!$A$1", dnE "First" none "'S 2'!$A$1:$B$2,'Data'!$C$3", dnE "Amp" none "'T&U'!$A$1",
   dnE "P&L" none "SUM(Data!$A$1:$A$5)-'S 2'!$B$1", dnE "Txt" none "\"a,b\"", dnE "Gone" none "'Gone'!$A$1",
   dnE "Rows" (some "0") "Data!$1:$2"]

/-- non-vacuity and meaning (edge 14): `Loc` lives on sheet 2 (its scope) although its area is on `Data`; `First` on sheet 1
    (its FIRST area; the last one is on sheet 0); `Amp` on sheet 2; the formula, the constant and the name of a missing
    sheet stay in the workbook's list; `Rows` (whole rows: text) on sheet 0 by its scope -/
example :
    exampleNames.all validDefinedName = true ∧ (∀ d ∈ exampleNames, NameTextOk d.ownText) ∧
    ((readDefinedNamesB exampleNames).bind (rehome exampleSheets)).map (·.map fun p => (String.ofList p.1.name, p.2)) =
      some [("Loc", .sheet 2), ("First", .sheet 1), ("Amp", .sheet 2), ("P&L", .book), ("Txt", .book), ("Gone", .book),
            ("Rows", .sheet 0)] ∧
    ((readDefinedNamesB exampleNames).map fun l => l.map fun n => n.body.text) =
      some (["'Data'!$A$1", "'S 2'!$A$1:$B$2,'Data'!$C$3", "'T&U'!$A$1", "SUM(Data!$A$1:$A$5)-'S 2'!$B$1", "\"a,b\"", "'Gone'!$A$1",
        "Data!$1:$2"].map String.toList) := by
  refine ⟨by decide, ?_, by decide +kernel, by decide +kernel⟩
  intro d hd
  apply nameTextOkB_sound
  have : exampleNames.all (fun d => nameTextOkB d.ownText) = true := by decide +kernel
  exact List.all_eq_true.mp this d hd

end Home

/-! ## the part a sheet is read from -/
section Paths

/-- **Path resolution of the sheet list** (the part `C03_sheet_list` left open).  For every relationship target with
    `targetOk` — EVERY relative target (`worksheets/sheet1.xml`, `../xl/worksheets/sheet1.xml`, `./a//b.xml`, …), and every
    absolute target in normal form (`/xl/worksheets/sheet1.xml`, `/other/s.xml`: no empty, `.` or `..` segment) — the part
    name the library computes (workbook_rels.rs strips a leading `/xl/`, reader/driver.rs `join_paths("xl", ·)` with
    `normalize_path`) is the part name the decoder computes (`resolveTargetL` against the workbook part, OPC Part 2 §8.3). -/
theorem C03_sheet_paths (t : Text) (h : targetOk t = true) :
    joinPaths "xl".toList (stripXl t) = resolveTargetL "xl/workbook.xml".toList t := joinPaths_resolve t h

/-- … composed with the relationship look-up of `C03_sheet_list`, for ANY relationship list (ids unique or not): the
    library reads the sheet from the part of the LAST relationship with the sheet's `r:id` (reader/xlsx.rs: the loop reads
    every match and overwrites; model `sheetRel`), i.e. from the part the decoder's path rule gives for the LAST of the
    decoder's relationships with that Id.  (The decoder itself takes the FIRST and reports a duplicated Id as a
    diagnostic: OPC Part 2 §9.3.2.2 forbids it.) -/
theorem C03_sheet_part_last (rs : List RelR) (srels : List Rel) (hag : RelsAgree rs srels) (s : SheetR)
    (hok : ∀ r, sheetRel rs s = some r → targetOk r.target = true) :
    (sheetPart rs s).map str =
      ((srels.filter (fun r => r.id = str s.rid)).getLast?).map (fun r => resolveTarget "xl/workbook.xml" r.target) := by
  have hf := congrArg List.getLast? (filter_rel rs srels s.rid hag)
  simp only [List.getLast?_map] at hf
  unfold sheetPart
  unfold sheetRel at hok ⊢
  cases hr : (rs.filter (·.id = s.rid)).getLast? with
  | none =>
    rw [hr] at hf
    cases hs : (srels.filter (fun r => r.id = str s.rid)).getLast? with
    | none => rfl
    | some x => rw [hs] at hf; simp at hf
  | some r =>
    rw [hr] at hf
    cases hs : (srels.filter (fun r => r.id = str s.rid)).getLast? with
    | none => rw [hs] at hf; simp at hf
    | some x =>
      rw [hs] at hf
      simp only [Option.map_some, Option.some.injEq] at hf ⊢
      rw [C03_sheet_paths r.target (hok r hr), hf]
      simp [resolveTarget, str]

/-- … and when the sheet's `r:id` names AT MOST ONE relationship (what OPC requires) that is the relationship the decoder
    selects (the first): the sheet's part on both sides -/
theorem C03_sheet_part (rs : List RelR) (srels : List Rel) (hag : RelsAgree rs srels) (s : SheetR)
    (huniq : (rs.filter (·.id = s.rid)).length ≤ 1)
    (hok : ∀ r, rs.find? (·.id = s.rid) = some r → targetOk r.target = true) :
    (sheetPart rs s).map str =
      (srels.find? (fun r => r.id = str s.rid)).map (fun r => resolveTarget "xl/workbook.xml" r.target) := by
  have hlen : (srels.filter (fun r => r.id = str s.rid)).length ≤ 1 := by
    have := congrArg List.length (filter_rel rs srels s.rid hag)
    simp only [List.length_map] at this
    omega
  rw [C03_sheet_part_last rs srels hag s (fun r hr => hok r (by rw [← getLast?_filter_unique _ _ huniq]; exact hr)),
    getLast?_filter_unique _ _ hlen]

/-- a duplicated relationship id (boundary package edge 15): the library reads the sheet from the LAST relationship's
    part, the decoder's rule (`find?`) names the FIRST -/
example :
    let rs : List RelR := [⟨"rId1".toList, [], "worksheets/sheet1.xml".toList⟩, ⟨"rId1".toList, [], "worksheets/sheet2.xml".toList⟩]
    let s : SheetR := ⟨"S".toList, "1".toList, "rId1".toList, none⟩
    (sheetPart rs s).map str = some "xl/worksheets/sheet2.xml" ∧
    ((rs.find? (·.id = s.rid)).map fun r => str (joinPaths "xl".toList (stripXl r.target))) = some "xl/worksheets/sheet1.xml" := by
  decide +kernel

/-- non-vacuity: the three targets of edge 14 and some more -/
example : (["worksheets/sheet1.xml", "/xl/worksheets/sheet2.xml", "./worksheets/../worksheets/sheet3.xml", "../xl/s.xml",
      "/other/s.xml", ""].map fun t => (targetOk t.toList, String.ofList (joinPaths "xl".toList (stripXl t.toList)))) =
    [(true, "xl/worksheets/sheet1.xml"), (true, "xl/worksheets/sheet2.xml"), (true, "xl/worksheets/sheet3.xml"),
     (true, "xl/s.xml"), (true, "other/s.xml"), (true, "xl")] := by decide

/-- outside `targetOk`: an absolute target with a dot segment (the library resolves it, the standard does not allow it) and
    one with an empty segment behind `/xl/` (the library re-reads the rest as absolute) -/
example : targetOk "/xl/../a.xml".toList = false ∧ targetOk "/xl//a.xml".toList = false ∧
    joinPaths "xl".toList (stripXl "/xl//a.xml".toList) = "a.xml".toList ∧
    resolveTargetL "xl/workbook.xml".toList "/xl//a.xml".toList = "xl/a.xml".toList := by
  refine ⟨by decide, by decide, by decide, by decide⟩

end Paths

/-! ## table parts -/
section Tables

/-- **Table columns.**  For every `<table>` element whose `<tableColumn>` elements carry a non-empty `name` (required by
    CT_TableColumn; the library drops a column without one) the model of reader/xlsx/table.rs shows the decoder's table name,
    display name and column names in document order (the values as `get_attribute_value` returns them: unescaped,
    `C03_attr`), and, when `ref` is `a:b`, the area `(a, b)` whose two corners joined by `:` are the decoder's `ref`. -/
theorem C03_table_columns (p : Package) (path : String) (t : Node) (hp : (p.part? path).bind (·.xml) = some t)
    (hc : ∀ c ∈ ((t.kid? "tableColumns").map (·.kids "tableColumn")).getD [], (c.attr? "name".toList).getD [] ≠ []) :
    ∃ tv, decodeTable p path = some tv ∧ (readTable t).name = tv.name ∧ (readTable t).displayName = tv.displayName ∧
      (readTable t).columns = tv.columns ∧
      (∀ a b, (readTable t).area = some (a, b) → splitColon tv.ref = [a, b]) := by
  refine ⟨{ name := (t.attr? "name".toList).getD [], displayName := (t.attr? "displayName".toList).getD [],
             ref := (t.attr? "ref".toList).getD [],
             columns := (((t.kid? "tableColumns").map (·.kids "tableColumn")).getD []).map (fun c => (c.attr? "name".toList).getD []) },
    by simp only [decodeTable, hp, Option.map_some], rfl, rfl, ?_, ?_⟩
  · simp only [readTable]
    rw [List.filter_eq_self]
    intro n hn
    obtain ⟨c, hcm, rfl⟩ := List.mem_map.mp hn
    have := hc c hcm
    cases h : (c.attr? "name".toList).getD [] with
    | nil => exact absurd h this
    | cons _ _ => rfl
  · intro a b hab
    simp only [readTable] at hab
    cases hr : t.attr? "ref".toList with
    | none => rw [hr] at hab; cases hab
    | some v =>
      rw [hr] at hab
      simp only [Option.bind_some, splitArea] at hab
      simp only [Option.getD_some]
      split at hab
      · rename_i a' b' heq
        injection hab with hab
        injection hab with h1 h2
        subst h1; subst h2
        exact heq
      · cases hab

example :
    let t : Node := .elem "table".toList [⟨"name".toList, "T1".toList⟩, ⟨"displayName".toList, "T_1".toList⟩, ⟨"ref".toList, "A1:C9".toList⟩]
      [.elem "tableColumns".toList [] [.elem "tableColumn".toList [⟨"id".toList, "1".toList⟩, ⟨"name".toList, "R&D <1>".toList⟩] [],
                                       .elem "tableColumn".toList [⟨"id".toList, "2".toList⟩, ⟨"name".toList, "b".toList⟩] []]]
    readTable t = ⟨"T1".toList, "T_1".toList, some ("A1".toList, "C9".toList), ["R&D <1>".toList, "b".toList]⟩ := by decide

end Tables

/-! ## the whole workbook -/
section Whole

/-- the per-file step the theorem does not look into: `arv.by_name(name)` + the XML reader give the root element the decoder
    finds under that name in the package -/
def lookupOf (p : Package) : Text → Option Node := fun n => (p.part? (str n)).bind (·.xml)

def rowsOf (root : Node) : List Node := ((root.kid? "sheetData").map (·.kids "row")).getD []
def linksOf (root : Node) : List Node := ((root.kid? "hyperlinks").map (·.kids "hyperlink")).getD []
def mergesOf (root : Node) : List Node := ((root.kid? "mergeCells").map (·.kids "mergeCell")).getD []

/-- **what is asked of one `<sheet>` element `se`** of the workbook part, given the shared-string items `sis`, the styles
    root `sroot` and the workbook's relationships `wrs` as the library read them:
    its `r:id` names EXACTLY ONE relationship `r` (the relationships with that id are `[r]`: unique, as OPC requires; with a
    duplicate the library reads the last, the decoder the first: `C03_sheet_part_last`), whose target is `targetOk`
    (`C03_sheet_paths`); the part of that name exists (`root`);
    its `<sheetData>` is `validSheetData`; the relationships part of the sheet is found under the reader's name for it
    exactly when the decoder finds it under the standard's name (PER FILE: `relsPartOf` vs `relsNameOf` on this path) and,
    when there, is `validRels`; the hyperlinks are `validHyperlinks`; every merged range is `MergeRefOk`; every cell's `s`,
    when present, is an unsigned decimal inside `cellXfs`. -/
def SheetValid (p : Package) (sis : List Node) (sroot : Node) (wrs : List RelR) (se : Node) : Prop :=
  ∃ (r : RelR) (root : Node),
    wrs.filter (·.id = (se.attr? "r:id".toList).getD []) = [r] ∧ targetOk r.target = true ∧
    lookupOf p (joinPaths "xl".toList (stripXl r.target)) = some root ∧
    validSheetData sis (rowsOf root) = true ∧
    lookupOf p (relsPartOf (joinPaths "xl".toList (stripXl r.target))) =
      (p.part? (relsNameOf (str (joinPaths "xl".toList (stripXl r.target))))).bind (·.xml) ∧
    (∀ rr, lookupOf p (relsPartOf (joinPaths "xl".toList (stripXl r.target))) = some rr → validRels rr = true) ∧
    validHyperlinks ((lookupOf p (relsPartOf (joinPaths "xl".toList (stripXl r.target)))).bind readRels) (linksOf root) = true ∧
    (∀ m ∈ mergesOf root, ∃ v, m.attr? "ref".toList = some v ∧ MergeRefOk v) ∧
    (∀ c ∈ cellNodes root, c.attr? "s".toList = none ∨
      ∃ v, c.attr? "s".toList = some v ∧ uintOk usizeBound v = true ∧ (decodeCell (sis.map rstText) c).1.style < (styleTable sroot).length)

/-- the decoder's style facts of the cells of the sheet `se` (through the same relationship and part look-up as `decode`) -/
def specSheetFacts (cf : Umya.StyleCodec.Tok → Umya.StyleCodec.Tok) (p : Package) (wbPath : String) (tab : List XfV) (sst : List Text)
    (se : Node) : List StyleFacts :=
  match (se.attr? "r:id".toList).bind (fun rid => (relsOf p wbPath).find? (fun (r : Rel) => r.id = str rid)) with
  | none => []
  | some r =>
    match (p.part? (resolveTarget wbPath r.target)).bind (·.xml) with
    | none => []
    | some root => (cellNodes root).map (specFacts cf tab sst)

private theorem cell_facts (cf : Umya.StyleCodec.Tok → Umya.StyleCodec.Tok) (sroot : Node) (hvs : validStyles sroot = true) (made : List StyleR)
    (hmade : readStyleSheet cf sroot = some made) (sst : List Text) (c : Node)
    (hc : c.attr? "s".toList = none ∨
      ∃ v, c.attr? "s".toList = some v ∧ uintOk usizeBound v = true ∧ (decodeCell sst c).1.style < (styleTable sroot).length) :
    ∃ st, cellStyle made c = some st ∧ styleFacts st = specFacts cf (styleTable sroot) sst c := by
  rcases hc with hn | ⟨v, hs, hv, hi⟩
  · refine ⟨{}, (C03_style_cell_unstyled made c hn).1, ?_⟩
    simp only [specFacts, hn]
    exact (C03_style_cell_unstyled made c hn).2
  · obtain ⟨made', st, hm', hst, hf⟩ := C03_style_cell cf sroot hvs sst c v hs hv hi
    rw [hmade] at hm'
    injection hm' with hm'
    subst hm'
    refine ⟨st, hst, ?_⟩
    simp only [specFacts, hs, ← hf, Option.getD_some]

/-- **one sheet of the package**: the model of reader/xlsx.rs + worksheet.rs for the sheet `se` (with the spec's shared-formula
    translator) and the decoder's `SheetV` for it show the same name, state, cells (position, kind, value, formula, style
    index, in document order), resolved style facts of every cell, merged ranges and hyperlinks. -/
theorem C03_book_sheet (cf : Umya.StyleCodec.Tok → Umya.StyleCodec.Tok) (p : Package) (sis : List Node) (sroot : Node)
    (hvs : validStyles sroot = true) (made : List StyleR) (hmade : readStyleSheet cf sroot = some made)
    (wrs : List RelR) (hag : RelsAgree wrs (relsOf p "xl/workbook.xml"))
    (hsst : specSst p "xl/workbook.xml" = sis.map rstText)
    (se : Node) (name sid rid : Text) (hn : se.attr? "name".toList = some name) (hr : se.attr? "r:id".toList = some rid)
    (hv : SheetValid p sis sroot wrs se) :
    ∃ sb, readSheetB specTr (lookupOf p) made (sis.map (stringItem false)) wrs ⟨name, sid, rid, se.attr? "state".toList⟩ = some sb ∧
      viewR sb = viewS (specSheetOf p "xl/workbook.xml" se)
        (specSheetFacts cf p "xl/workbook.xml" (styleTable sroot) (sis.map rstText) se) := by
  obtain ⟨r, root, hfilt, htok, hroot, hdata, hrl, hrv, hhl, hmg, hst⟩ := hv
  simp only [hr, Option.getD_some] at hfilt
  have hfind : wrs.find? (·.id = rid) = some r := by
    rw [← List.head?_filter, hfilt]; rfl
  generalize hpath : joinPaths "xl".toList (stripXl r.target) = path at hroot hrl hrv hhl
  -- the part on both sides
  have hpart := C03_sheet_part wrs _ hag ⟨name, sid, rid, se.attr? "state".toList⟩
    (by show (wrs.filter (·.id = rid)).length ≤ 1
        rw [hfilt]; exact Nat.le_refl 1)
    (fun r' hr' => by
      have hr'' : wrs.find? (·.id = rid) = some r' := hr'
      rw [hfind] at hr''
      injection hr'' with e
      subst e
      exact htok)
  have hsp : sheetPart wrs ⟨name, sid, rid, se.attr? "state".toList⟩ = some path := by
    unfold sheetPart sheetRel
    simp only [hfilt, List.getLast?_singleton, Option.map_some, hpath]
  rw [hsp] at hpart
  cases hs : (relsOf p "xl/workbook.xml").find? (fun r => r.id = str rid) with
  | none => rw [hs] at hpart; simp at hpart
  | some r' =>
    rw [hs] at hpart
    simp only [Option.map_some, Option.some.injEq] at hpart
    have hroot' : (p.part? (resolveTarget "xl/workbook.xml" r'.target)).bind (·.xml) = some root := by
      rw [← hpart]; exact hroot
    -- cells
    obtain ⟨outs, hrows, hcells⟩ := C03_sheet_decoder sis (rowsOf root) hdata
    -- links through the sheet's relationships part
    have hlinks : ∃ ls, sheetLinks (lookupOf p) path (linksOf root) = some ls ∧
        ls.map linkViewR = ((linksOf root).map (specLink (relsOf p (str path)))).map linkViewS := by
      unfold sheetLinks
      cases hl : lookupOf p (relsPartOf path) with
      | none =>
        have hrel0 : relsOf p (str path) = [] := by
          unfold relsOf
          rw [← hrl, hl]
        rw [hl] at hhl
        obtain ⟨ls, h1, h2⟩ := C03_hyperlinks none [] (by simp [RelsAgree]) (linksOf root) hhl
        exact ⟨ls, h1, by rw [hrel0]; exact h2⟩
      | some rr =>
        obtain ⟨rs, hrs, hagr⟩ := C03_rels rr (hrv rr hl)
        have hrel1 : relsOf p (str path) = specRels rr := relsOf_eq p (str path) rr (by rw [← hrl, hl])
        rw [hl] at hhl
        simp only [Option.bind_some, hrs] at hhl
        obtain ⟨ls, h1, h2⟩ := C03_hyperlinks (some rs) (specRels rr) hagr (linksOf root) hhl
        refine ⟨ls, ?_, by rw [hrel1]; exact h2⟩
        simp only [Option.map_some, hrs]
        exact h1
    obtain ⟨ls, hl1, hl2⟩ := hlinks
    -- merges, styles
    obtain ⟨mrs, hm1, hm2⟩ := C03_merges (mergesOf root) hmg
    obtain ⟨sts, hs1, hs2⟩ := mapM_view (cellStyle made) styleFacts (specFacts cf (styleTable sroot) (sis.map rstText))
      (cellNodes root) (fun c hc => cell_facts cf sroot hvs made hmade _ c (hst c hc))
    refine ⟨⟨⟨name, sid, rid, se.attr? "state".toList⟩, outs, sts, mrs, ls⟩, ?_, ?_⟩
    · unfold readSheetB
      have hany : ((wrs.filter (·.id = rid)).any (fun r => (lookupOf p (joinPaths "xl".toList (stripXl r.target))).isNone)) = false := by
        rw [hfilt]
        simp only [List.any_cons, List.any_nil, Bool.or_false, hpath, hroot, Option.isNone_some]
      simp only [hany, Bool.false_eq_true, if_false, hsp, Option.bind_some, hroot, Option.map_some]
      simp only [rowsOf, linksOf, mergesOf, cellNodes] at hrows hl1 hm1 hs1
      simp only [hrows, hl1, hm1, hs1]
    · simp only [viewR, viewS, specSheetOf, specSheetFacts, hr, Option.bind_some, hs, hroot', hsst, hn, Option.getD_some]
      rw [C03_sheet_is_decodeSheet p _ _ _ _ root hroot', C03_merges_is_decodeSheet p _ _ _ _ root hroot',
        C03_hyperlinks_is_decodeSheet p _ _ _ _ root hroot', ← hpart]
      unfold rowsOf at hcells
      unfold mergesOf at hm2
      unfold linksOf at hl2
      rw [hcells, hl2, hs2, hm2]

private theorem mapM_map_view {α α' β γ : Type} (g : α → α') (f : α' → Option β) (v : β → γ) (w : α → γ) : ∀ (l : List α),
    (∀ x ∈ l, ∃ y, f (g x) = some y ∧ v y = w x) → ∃ ys, (l.map g).mapM f = some ys ∧ ys.map v = l.map w := by
  intro l
  induction l with
  | nil => intro _; exact ⟨[], rfl, rfl⟩
  | cons a t ih =>
    intro h
    obtain ⟨y, hy, hv⟩ := h a List.mem_cons_self
    obtain ⟨ys, hys, hvs⟩ := ih (fun x hx => h x (List.mem_cons_of_mem _ hx))
    refine ⟨y :: ys, ?_, by simp [hv, hvs]⟩
    simp only [List.map_cons, List.mapM_cons, hy, hys]
    rfl

/-- the `SheetR` the `b"sheet"` arm makes of a `<sheet>` element -/
def toSheetR (se : Node) : SheetR :=
  ⟨(se.attr? "name".toList).getD [], (se.attr? "sheetId".toList).getD [], (se.attr? "r:id".toList).getD [], se.attr? "state".toList⟩

private theorem relsName_workbook : relsNameOf "xl/workbook.xml" = "xl/_rels/workbook.xml.rels" := by decide

/-- **The whole workbook.**  For a package `p` read part by part (`lookupOf p`: zip access by name + XML reader, PER FILE)
    whose parts satisfy the per-part validity predicates, the model of the library's reader (`readBook`, with the spec's
    shared-formula translator) does not panic, `Spec.Sml.decode` delivers a `BookV`, and the two show
      * the same sheet list (names — unescaped —, states, order) and, sheet by sheet, the same cells in document order
        (column, row, kind, value text, formula text incl. expanded shared formulas, style index), the same resolved style
        facts for every cell (through `cellXfs`), the same merged ranges and the same hyperlinks;
      * the same defined names (name, scope, text), every name with `localSheetId = i` in the list of sheet `i`.
    Hypotheses, in order: the package-level relationship names the workbook part under the name the library hard-codes
    (`xl/workbook.xml`) and the parts the library opens by fixed name are the ones the workbook's relationships name
    (`hsst`, `hsty`: PER FILE); `validRels`, `validSheetList`, `validStyles`; per sheet `SheetValid` (`targetOk` target, part
    present, `validSheetData`, relationships part, `validHyperlinks`, `MergeRefOk`, style indices inside `cellXfs`); per name
    `validDefinedName`, `NameTextOk`, scope inside the sheet list. -/
theorem C03_book (cf : Umya.StyleCodec.Tok → Umya.StyleCodec.Tok) (p : Package) (mr : Rel) (wb wr sstRoot sroot : Node)
    (h1 : (relsOf p "").find? (fun r => r.type.endsWith "/officeDocument") = some mr)
    (hwbp : resolveTarget "" mr.target = "xl/workbook.xml")
    (hwb : lookupOf p "xl/workbook.xml".toList = some wb)
    (hwr : lookupOf p "xl/_rels/workbook.xml.rels".toList = some wr)
    (hss : lookupOf p "xl/sharedStrings.xml".toList = some sstRoot)
    (hsst : specSst p "xl/workbook.xml" = (sstRoot.kids "si").map rstText)
    (hsr : lookupOf p "xl/styles.xml".toList = some sroot)
    (hsty : specStylesRoot p "xl/workbook.xml" = some sroot)
    (hvr : validRels wr = true) (hvs : validStyles sroot = true)
    (hvl : validSheetList (((wb.kid? "sheets").map (·.kids "sheet")).getD []) = true)
    (hsheets : ∀ wrs, readRels wr = some wrs → ∀ se ∈ ((wb.kid? "sheets").map (·.kids "sheet")).getD [],
      SheetValid p (sstRoot.kids "si") sroot wrs se)
    (hvn : (((wb.kid? "definedNames").map (·.kids "definedName")).getD []).all validDefinedName = true)
    (hnt : ∀ d ∈ ((wb.kid? "definedNames").map (·.kids "definedName")).getD [], NameTextOk d.ownText)
    (hns : ∀ d ∈ ((wb.kid? "definedNames").map (·.kids "definedName")).getD [], ∀ i, (specName d).scope = some i →
      i < (((wb.kid? "sheets").map (·.kids "sheet")).getD []).length) :
    ∃ b bv, readBook specTr cf (lookupOf p) = some b ∧ (decode p).1 = some bv ∧
      bv.sheets = (((wb.kid? "sheets").map (·.kids "sheet")).getD []).map (specSheetOf p "xl/workbook.xml") ∧
      b.sheets.map viewR = (((wb.kid? "sheets").map (·.kids "sheet")).getD []).map (fun se =>
        viewS (specSheetOf p "xl/workbook.xml" se)
          (specSheetFacts cf p "xl/workbook.xml" bv.xfs (specSst p "xl/workbook.xml") se)) ∧
      b.names.map (fun q => nameViewB q.1) = bv.names ∧
      (∀ q ∈ b.names, ∀ i, q.1.localSheetId = some i → q.2 = .sheet i) := by
  have hwb' : (p.part? (resolveTarget "" mr.target)).bind (·.xml) = some wb := by rw [hwbp]; exact hwb
  obtain ⟨bv, hdec, hsh, hnm, hxf⟩ := decode_book p mr wb h1 hwb'
  rw [hwbp] at hsh hxf
  rw [hsty] at hxf
  simp only [Option.map_some, Option.getD_some] at hxf
  -- workbook relationships
  obtain ⟨wrs, hwrs, hag0⟩ := C03_rels wr hvr
  have hag : RelsAgree wrs (relsOf p "xl/workbook.xml") := by
    rw [relsOf_eq p "xl/workbook.xml" wr (by rw [relsName_workbook]; exact hwr)]
    exact hag0
  -- sheet list
  have hsl : readSheetList (((wb.kid? "sheets").map (·.kids "sheet")).getD []) =
      some ((((wb.kid? "sheets").map (·.kids "sheet")).getD []).map toSheetR) := by
    unfold readSheetList
    apply mapM_some
    intro s hs
    have := List.all_eq_true.mp hvl s hs
    simp only [Bool.and_eq_true, Option.isSome_iff_exists] at this
    obtain ⟨⟨⟨n, hn⟩, ⟨i, hi⟩⟩, ⟨r, hr⟩⟩ := this
    simp only [toSheetR, hn, hi, hr, Option.getD_some]
  -- styles
  obtain ⟨made, hmade, _, _⟩ := C03_style_resolution cf sroot hvs
  -- names
  obtain ⟨nl, hnl, hnv⟩ := C03_defined_names _ hvn hnt
  have hscope : ∀ n ∈ nl, ∀ i, n.localSheetId = some i →
      i < ((((wb.kid? "sheets").map (·.kids "sheet")).getD []).map toSheetR).length := by
    intro n hn i hi
    have hmem : nameViewB n ∈ nl.map nameViewB := List.mem_map_of_mem hn
    rw [hnv] at hmem
    obtain ⟨d, hd, hde⟩ := List.mem_map.mp hmem
    have : (specName d).scope = some i := by rw [hde]; exact hi
    simpa using hns d hd i this
  obtain ⟨homed, hhome, hhn, hhs, _, _⟩ := C03_names_home _ nl hscope
  -- sheets
  obtain ⟨sbs, hsbs, hsv⟩ := mapM_map_view toSheetR
    (readSheetB specTr (lookupOf p) made ((sstRoot.kids "si").map (stringItem false)) wrs) viewR
    (fun se => viewS (specSheetOf p "xl/workbook.xml" se)
      (specSheetFacts cf p "xl/workbook.xml" (styleTable sroot) ((sstRoot.kids "si").map rstText) se))
    (((wb.kid? "sheets").map (·.kids "sheet")).getD [])
    (fun se hse => by
      have := List.all_eq_true.mp hvl se hse
      simp only [Bool.and_eq_true, Option.isSome_iff_exists] at this
      obtain ⟨⟨⟨n, hn⟩, ⟨i, hi⟩⟩, ⟨r, hr⟩⟩ := this
      have := C03_book_sheet cf p (sstRoot.kids "si") sroot hvs made hmade wrs hag hsst se n i r hn hr (hsheets wrs hwrs se hse)
      simpa only [toSheetR, hn, hi, hr, Option.getD_some] using this)
  refine ⟨⟨sbs, homed, made⟩, bv, ?_, hdec, hsh, ?_, ?_, ?_⟩
  · unfold readBook
    simp only [hwb, hwr, hss, hwrs, hsl, hnl, hhome, hsr, hmade, readSst, hsbs, Option.map_some]
  · rw [hxf, hsst]; exact hsv
  · rw [hnm, ← hnv, ← hhn]
    simp only [List.map_map]
    rfl
  · exact hhs


/-! a concrete package (two sheets behind a relative and an absolute target, relationship ids in another order than the
    sheets, a hidden sheet with an escaped name, a scoped name, an unscoped name over two sheets, a constant; a styled cell, a
    shared-string cell, a merged range, an internal hyperlink; the styles part `exampleStyles`, the shared strings
    `exampleSst`): the reader model does not panic on it and shows two sheets, the names at home on sheet 1 (scope), sheet 1
    (FIRST area `'R&D'`) and in the workbook's list.  (A kernel-checked instance of ALL hypotheses of `C03_book` is not
    given: `Node` and `Rel` carry no decidable equality, so the part look-ups cannot be `decide`d; every hypothesis has its
    own example above / in C03Sheet / C03Book, and the harness replays the same shape as edge 14.) -/
def relE (id type target : String) : Node :=
  el "Relationship" [("Id", id), ("Type", type), ("Target", target)] []

def exWb : Node :=
  el "workbook" []
    [el "sheets" [] [el "sheet" [("name", "Data"), ("sheetId", "1"), ("r:id", "rId1")] [],
                     el "sheet" [("name", "R&D"), ("sheetId", "2"), ("r:id", "rId2"), ("state", "hidden")] []],
     el "definedNames" [] [dnE "Loc" (some "1") "'Data'!$A$1", dnE "First" none "'R&D'!$A$1:$B$2,'Data'!$C$3", dnE "K" none "42"]]

def exSheet1 : Node :=
  el "worksheet" []
    [el "sheetData" [] [rowE [("r", "1")] [cE [("r", "A1"), ("s", "1")] [vE "1"], cE [("t", "s")] [vE "0"]]],
     el "mergeCells" [] [el "mergeCell" [("ref", "A5:B6")] []],
     el "hyperlinks" [] [el "hyperlink" [("ref", "A1"), ("location", "'R&D'!A1")] []]]

def examplePkg : Package :=
  [⟨"_rels/.rels", some (el "Relationships" [] [relE "rId1" "http://x/officeDocument" "xl/workbook.xml"]), true⟩,
   ⟨"xl/workbook.xml", some exWb, true⟩,
   ⟨"xl/_rels/workbook.xml.rels", some (el "Relationships" []
      [relE "rId2" "http://x/worksheet" "/xl/worksheets/sheet2.xml", relE "rId1" "http://x/worksheet" "worksheets/sheet1.xml",
       relE "rId3" "http://x/sharedStrings" "sharedStrings.xml", relE "rId4" "http://x/styles" "styles.xml"]), true⟩,
   ⟨"xl/sharedStrings.xml", some exampleSst, true⟩,
   ⟨"xl/styles.xml", some exampleStyles, true⟩,
   ⟨"xl/worksheets/sheet1.xml", some exSheet1, true⟩,
   ⟨"xl/worksheets/sheet2.xml", some (el "worksheet" [] [el "sheetData" [] []]), true⟩]

example :
    ((readBook specTr id (lookupOf examplePkg)).map fun b => b.sheets.map (fun s => (s.sheet.name, shownMerges s.merges))) =
      some [("Data".toList, ["A5:B6".toList]), ("R&D".toList, [])] ∧
    ((readBook specTr id (lookupOf examplePkg)).map fun b => b.sheets.map (fun s => s.cells.map outView)) =
      some [[⟨1, 1, "n", ['1'], none, 1⟩, ⟨2, 1, "s", ['x'], none, 0⟩], []] ∧
    ((readBook specTr id (lookupOf examplePkg)).map fun b => b.sheets.map (fun s => s.links.map linkViewR)) =
      some [[⟨"A1".toList, false, "'R&D'!A1".toList, []⟩], []] ∧
    ((readBook specTr id (lookupOf examplePkg)).map fun b => b.names.map (fun q => (q.1.name, q.2))) =
      some [("Loc".toList, .sheet 1), ("First".toList, .sheet 1), ("K".toList, .book)] ∧
    validSheetData (exampleSst.kids "si") (rowsOf exSheet1) = true ∧
    specSst examplePkg "xl/workbook.xml" = (exampleSst.kids "si").map rstText := by
  refine ⟨by decide +kernel, by decide +kernel, by decide +kernel, by decide +kernel, by decide +kernel, by decide +kernel⟩

end Whole

end Umya.Thm.C03
