/-
  C09 — lexer correctness on printed expressions, and the whole-text form of the translation clause.

  Property theorems only (namespace `Umya.Thm.C09`); helper lemmas in `Umya/Lemmas/FormulaLex*.lean`.
-/
import Umya.Lemmas.FormulaLexShift
namespace Umya.Thm.C09
open Umya.Coord Umya.Dec Umya.Formula

/-- **Lexer correctness on printed expressions.**  For every expression `e` of the grammar
    { numbers, string literals (any content), booleans, the seven error literals, defined names,
      cell / range / whole-column / whole-row references with any `$` flags and an optional plain or
      quoted sheet qualifier, unary `-` / `+`, postfix `%`, the twelve infix operators
      `+ - * / ^ & = < > <= >= <>`, parentheses, parenthesised unions `(a,b)`, function calls with
      any number of (possibly empty) arguments }, nested to any depth,
    `parse_to_tokens("=" + print e)` returns exactly `tokensOf e` — never a panic.  `LexOk e` is the
    explicit side condition on the leaves (see its definition): numbers are texts of ordinary
    characters accepted by `parse::<f64>` (an exponent sign is NOT allowed: the tokenizer cuts `1E+5`
    in three — the dead "scientific notation" check of the source), names / function names / unquoted
    qualifiers consist of ordinary characters (no operator, quote, bracket, blank, comma), names are
    not numbers or booleans, function names do not start with `@`.
    Full statement wanted (not proved): the same for intersections (`a b`), array constants and
    structured references; `LexOk` excludes them. -/
theorem C09_lex_print (e : Spec.Expr) (h : LexOk e) : parse ('=' :: e.print) = .ok (tokensOf e) :=
  parse_print e h

/-- `SUM(A1:$B$2,,"a""b")<=-x%` -/
def lexExample : Spec.Expr :=
  .bin .le
    (.call ['S', 'U', 'M'] (.cons (.ref ⟨none, .two ⟨some ⟨1, false⟩, some ⟨1, false⟩⟩ ⟨some ⟨2, true⟩, some ⟨2, true⟩⟩⟩)
      (.skip (.cons (.str ['a', '"', 'b']) .nil))))
    (.neg (.pct (.name ['x'])))

def lexExampleRef : Spec.CRef :=
  ⟨none, .two ⟨some ⟨1, false⟩, some ⟨1, false⟩⟩ ⟨some ⟨2, true⟩, some ⟨2, true⟩⟩⟩

theorem lexExampleRef_text : lexExampleRef.text = "A1:$B$2".toList := by
  simp [lexExampleRef, Spec.CRef.text, Spec.Area.text, Spec.Corner.text, optText, colRefText,
    rowRefText, indexToAlpha, alphaRev, letter, decDigits, digitChar]

theorem lexExample_print : lexExample.print = "SUM(A1:$B$2,,\"a\"\"b\")<=-x%".toList := by
  have := lexExampleRef_text
  simp only [lexExampleRef] at this
  simp [lexExample, Spec.Expr.print, Spec.Args.print, Spec.BinOp.text, Spec.dbl, this]

theorem lexExample_ok : LexOk lexExample := by
  have ht := lexExampleRef_text
  simp only [lexExampleRef] at ht
  simp only [lexExample, LexOk, LexOkA, RefLexOk]
  refine ⟨⟨⟨by simp, by decide, by simp⟩, ⟨⟨?_, ?_⟩, ?_⟩, trivial, trivial⟩, by simp, by decide, by decide⟩
  · have : (lexExampleRef).text ≠ [] := by rw [lexExampleRef_text]; decide
    simpa [lexExampleRef, Spec.CRef.text] using this
  · intro q hq; cases hq
  · rw [ht]; decide

/-- non-vacuity: the example is inside the fragment, its printed text and its tokens -/
example : LexOk lexExample ∧ lexExample.print = "SUM(A1:$B$2,,\"a\"\"b\")<=-x%".toList ∧
    parse "=SUM(A1:$B$2,,\"a\"\"b\")<=-x%".toList = .ok (tokensOf lexExample) := by
  refine ⟨lexExample_ok, lexExample_print, ?_⟩
  have := C09_lex_print lexExample lexExample_ok
  rw [lexExample_print] at this
  exact this

/-- **Identity on printed expressions** (the second half of the identity clause, which
    `C09_identity_partial` leaves to the harness, on the fragment of `C09_lex_print`): the tokens of
    `print e` render back to `print e` character for character, and tokenising that rendered text
    again gives the same token list. -/
theorem C09_identity_print (e : Spec.Expr) (h : LexOk e) :
    render (tokensOf e) = e.print ∧ parse ('=' :: render (tokensOf e)) = .ok (tokensOf e) := by
  have hr := render_tokensOf e h
  exact ⟨hr, by rw [hr]; exact C09_lex_print e h⟩

example : LexOk lexExample := lexExample_ok

/-- **Translation, whole text.**  For every expression of the fragment of `C09_lex_print` whose
    references are well-formed and whose names are inert (`RefsOk`: a name contains no `!` and no
    colon-separated piece of it reads as a cell / column / row), and every offset `(dc, dr)`:
    `Cell::set_coordinate` seen from the formula (tokenize, `adjustment_formula_coordinate`, render)
    turns the printed text of `e` into the printed text of `Spec.translate e dc dr` — `dc` / `dr`
    added to exactly the non-`$` parts of every reference, `#REF!` where a part leaves the grid,
    everything else character for character — never a panic. -/
theorem C09_translate_text (e : Spec.Expr) (h : LexOk e) (hr : RefsOk e) (dc dr : Int) :
    setCoordinate e.print dc dr = .ok (Spec.translate e dc dr).print := by
  have M := tokMap_translate dc dr
  simp only [setCoordinate, print_ne e h, if_false, C09_lex_print e h, adjustFormulaCoordinate,
    map_tokensOf M e hr, Spec.translate]
  rw [render_mapRefs _ M.shape e hr]

theorem lexExample_refs : RefsOk lexExample := by
  simp only [lexExample, RefsOk, RefsOkA]
  refine ⟨⟨⟨⟨Or.inl ⟨rfl, rfl, rfl, rfl⟩, ⟨?_, ?_⟩, ⟨?_, ?_⟩, ?_, ?_⟩, ?_⟩, trivial, trivial⟩, by decide⟩
  all_goals (try (intro x hx; injection hx with hx; subst hx; simp [Spec.maxCol, Spec.maxRow]))
  · intro x y hx hy; injection hx with hx; injection hy with hy; subst hx; subst hy; decide
  · intro x y hx hy; injection hx with hx; injection hy with hy; subst hx; subst hy; decide
  · intro q hq; cases hq

/-- non-vacuity: the hypotheses hold for `SUM(A1:$B$2,,"a""b")<=-x%`, and the instance for (2, 3) -/
example : LexOk lexExample ∧ RefsOk lexExample ∧
    setCoordinate "SUM(A1:$B$2,,\"a\"\"b\")<=-x%".toList 2 3 = .ok (Spec.translate lexExample 2 3).print := by
  have h1 := C09_translate_text lexExample lexExample_ok lexExample_refs 2 3
  rw [lexExample_print] at h1
  exact ⟨lexExample_ok, lexExample_refs, h1⟩

end Umya.Thm.C09
