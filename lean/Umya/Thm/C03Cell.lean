/-
  C03 — the reader agrees with an independent decoder on valid xlsx files.

  Cell level (sheet and workbook level: `Umya/Thm/C03Sheet.lean`; both gathered by `Umya/Thm/C03.lean`).
  Property theorems only (namespace `Umya.Thm.C03`); helper lemmas in `Umya/Lemmas/Reader.lean` (unescaping),
  `Umya/Lemmas/ReaderCell.lean` (string items, `decodeCell` field by field), `Umya/Lemmas/ReaderPos.lean` (positions).

  What is proved here and what is not.  The file-level statement
      `∀ x, ValidSml x → view (readPackage x) = Spec.decode x`
  is NOT proved: there is no Lean model of the whole reader (zip access, every part reader, styles).
  It is validated per file: the harness sends every part of every corpus / generated file to the
  independent decoder `Umya.Spec.Sml.decode` (executed in Lean) and compares its view with the view of
  the workbook the library loaded (translation validation).  The theorems below are the cell-level
  rules, for ALL inputs of the stated shape:
    * C03_attr / C03_text      the library's attribute / text unescaping returns the XML value;
    * C03_cell                 a cell element of any type (t absent / n / s / str / b / e / inlineStr): the model
                               of `Cell::set_attributes` does not panic and shows the value text, kind,
                               formula, shared-formula group, style index and reference of `Spec.decodeCell`
                               (one lemma per cell type: C03_cell_number, _shared_string, _str, _bool, _error,
                               _inline_string; C03_string_item: `stringItem` = `rstText`);
    * C03_positions            rows / cells without `r`: the model of the position rule of fix 8281a0c =
                               the spec's `rowNumbers` / `fillRefs`, for every list of rows and cells;
    * C03_shared_formula       a shared-formula child's reference tokens are translated exactly as the
                               spec translates references (reference level, from C09_translate_ref; the
                               master/child bookkeeping is validated by the oracle only);
    * C03_cols                 `<col min max>` expansion.
  Deviations of the code that are not fixed are shown by decided witnesses (`*_fails`: concrete cells on
  which model and spec differ; each is replayed against the real reader as a boundary package).
-/
import Umya.Lemmas.Reader
import Umya.Lemmas.ReaderCell
import Umya.Lemmas.ReaderPos
import Umya.Thm.C09
import Umya.Lemmas.TablesGen
namespace Umya.Thm.C03
open Umya.Reader Umya.Reader.Lemmas Umya.Spec.Xml Umya.XmlEsc

/-! ## attribute and text values -/

/-- **Attribute reading.**  For EVERY raw attribute text: if the XML reader accepts it with value
    `v` (references well-formed and to legal characters), `get_attribute` (white-space normalisation,
    `unescape`, normalised raw text on failure) returns exactly `v`.
    Covers `&amp; &lt; &gt; &apos; &quot;`, decimal and hexadecimal character references of any
    length, literal tab / LF / CR / CR LF (a blank each, 3.3.3 after 2.11) and any mixture.
    (Before fix ddd0f34 this needed the hypothesis "no literal tab / LF / CR".) -/
theorem C03_attr (raw v : List Char) (hv : attrValue raw = some v) : attrRead raw = v := by
  unfold attrValue at hv
  rw [attrLit_eq] at hv
  have h1 := expand_ws _ none v hv
  simp only [Option.map_none] at h1
  have h2 := expand_agree (fun c => [c]) _ none v (fun _ _ => rfl) h1
  simp only at h2
  simp [attrRead, unescape, attrNorm_eq, h2]

/-- the same through `get_attribute` on a raw attribute list: the first attribute named `key` -/
theorem C03_attr_get (attrs : List (List Char × List Char)) (key raw v : List Char)
    (hf : attrs.find? (·.1 = key) = some (key, raw)) (hv : attrValue raw = some v) :
    getAttribute attrs key = some v := by
  simp [getAttribute, hf, C03_attr raw v hv]

/-- **Text reading** (`reader/driver.rs::unescape_text`): for EVERY raw character data the library's
    value is the XML value: a literal CR LF / CR is one line feed (2.11), references are expanded.
    (Before fix ddd0f34 this needed the hypothesis "no literal CR".) -/
theorem C03_text (raw v : List Char) (hv : textValue raw = some v) : textRead raw = some v := by
  unfold textValue at hv
  have := expand_agree (fun c => [c]) _ none v (fun _ _ => rfl) hv
  simpa [textRead, unescape, normEol_eq] using this

/-- non-vacuity: `R&amp;D &lt;&#49;&#x3e; &quot;é&quot;` is accepted and means `R&D <1> "é"` -/
example : attrValue "R&amp;D &lt;&#49;&#x3e; &quot;é&quot;".toList = some "R&D <1> \"é\"".toList ∧
    attrRead "R&amp;D &lt;&#49;&#x3e; &quot;é&quot;".toList = "R&D <1> \"é\"".toList := by
  constructor <;> decide

/-- non-vacuity on literal white space: a literal line feed / CR LF inside an attribute value is a
    blank (3.3.3), a referenced one stays.  (Replayed by the harness as `c03 reset edge 5`; before fix
    ddd0f34 the library kept the literal characters: `C03_attr_literal_whitespace_fails`.) -/
theorem C03_attr_literal_whitespace :
    attrValue ['a', '\n', 'b', '\r', '\n', 'c', '&', '#', '1', '0', ';'] = some ['a', ' ', 'b', ' ', 'c', '\n'] ∧
    attrRead ['a', '\n', 'b', '\r', '\n', 'c', '&', '#', '1', '0', ';'] = ['a', ' ', 'b', ' ', 'c', '\n'] := by
  constructor <;> decide

/-- likewise a literal CR LF in character data (XML 2.11) is one line feed and `&#13;` stays
    (corpus aaa.xlsx; before fix ddd0f34: `C03_text_literal_cr_fails`) -/
theorem C03_text_literal_cr :
    textValue ['a', '\r', '\n', 'b', '\r', '&', '#', '1', '3', ';'] = some ['a', '\n', 'b', '\n', '\r'] ∧
    textRead ['a', '\r', '\n', 'b', '\r', '&', '#', '1', '3', ';'] = some ['a', '\n', 'b', '\n', '\r'] := by
  constructor <;> decide

/-! ## `<col min max>` -/

/-- **Column spans.**  After `Columns::set_attributes` column `i` carries facts `f` exactly when
    some `<col>` element with `min ≤ i ≤ max` carries them — for any number of elements and any span
    (`max = 16384` included). -/
theorem C03_cols {α : Type} (cs : List (ColSpec α)) (i : Nat) (f : α) :
    (i, f) ∈ expandCols cs ↔ ∃ c ∈ cs, c.min ≤ i ∧ i ≤ c.max ∧ f = c.facts := by
  simp only [expandCols, expandCol, List.mem_flatMap, List.mem_map, List.mem_range'_1, Prod.mk.injEq]
  constructor
  · rintro ⟨c, hc, j, ⟨h1, h2⟩, rfl, rfl⟩
    exact ⟨c, hc, h1, by omega, rfl⟩
  · rintro ⟨c, hc, h1, h2, rfl⟩
    exact ⟨c, hc, i, ⟨h1, by omega⟩, rfl, rfl⟩

example : (16384, "w") ∈ expandCols [⟨1, 3, "a"⟩, ⟨5, 16384, "w"⟩] := by
  rw [C03_cols]; exact ⟨⟨5, 16384, "w"⟩, by simp, by decide, by decide, rfl⟩

/-! ## shared formulas -/

open Umya.Formula Umya.Spec in
/-- the piece the spec's shared-formula translator makes of a reference -/
def pieceOfRef (r : Spec.CRef) : Spec.SharedF.Piece :=
  match r.sheet with
  | none => .area r.area
  | some q => .qarea (if q.quoted then '\'' :: (Umya.Coord.replaceApos q.name ++ ['\'']) else q.name) r.area

open Umya.Formula Umya.Spec in
/-- **Shared-formula expansion, reference level, full strength.**  For every well-formed reference
    (cell, range, whole columns / rows, any `$` flags, any position in the grid, unqualified or
    qualified by any sheet name, quoted or not) and every offset `(dc, dr)` between a child and its
    master — negative offsets (children left of / above the master) included —, the code translates
    the reference token without panic, and the text it renders is exactly what the spec's
    shared-formula translator (`Spec.SharedF.renderPiece`, i.e. `Spec.trArea`) prints for that
    reference: `dc`/`dr` added to the relative parts, `$` parts unchanged, `#REF!` outside the grid.
    Not covered by a theorem: that the library's tokenizer and the spec's scanner cut a whole formula
    text into the same references (validated per file by the oracle; C09_identity_partial). -/
theorem C03_shared_formula (r : Spec.CRef) (hw : r.WF) (dc dr : Int) :
    ∃ t', translateTok dc dr (refTok r) = .ok t' ∧
      renderTok t' = Spec.SharedF.renderPiece dc dr (pieceOfRef r) := by
  refine ⟨exprTok (Spec.translateRef r dc dr), Umya.Thm.C09.C09_translate_ref r hw dc dr, ?_⟩
  unfold Spec.translateRef pieceOfRef
  cases hr : Spec.trArea r.area dc dr with
  | none =>
    cases hs : r.sheet <;>
      simp [Spec.refOr, exprTok, renderTok, Spec.SharedF.renderPiece, hr, Spec.SharedF.refError, Spec.ErrLit.text]
  | some a =>
    cases hs : r.sheet with
    | none =>
      simp [Spec.refOr, exprTok, refTok, renderTok, Spec.SharedF.renderPiece, hr, Spec.CRef.text, hs]
    | some q =>
      cases hq : q.quoted <;>
        simp [Spec.refOr, exprTok, refTok, renderTok, Spec.SharedF.renderPiece, hr, Spec.CRef.text, hs,
          Spec.Qual.text, hq]

/-- non-vacuity: `'It''s'!$B3:XFD$1048576` moved one column left and two rows down -/
example : Umya.Thm.C09.exampleRef.WF ∧
    Spec.SharedF.renderPiece (-1) 2 (pieceOfRef Umya.Thm.C09.exampleRef) = "'It''s'!$B5:XFC$1048576".toList := by
  refine ⟨Umya.Thm.C09.exampleRef_wf, ?_⟩
  simp [pieceOfRef, Umya.Thm.C09.exampleRef, Spec.SharedF.renderPiece, Spec.trArea, Spec.trCorner, Spec.trOpt,
    Spec.trPart, Spec.maxCol, Spec.maxRow, Spec.Area.text, Spec.Corner.text, Umya.Coord.optText,
    Umya.Coord.colRefText, Umya.Coord.rowRefText, Umya.Coord.replaceApos, Umya.Coord.indexToAlpha,
    Umya.Coord.alphaRev, Umya.Coord.letter, Umya.Dec.decDigits, Umya.Dec.digitChar]

/-! ## one cell element -/
section Cell
open Umya.Spec.Sml Umya.Coord

/-- guess_typed_data on the `<v>` texts of the valid grammar -/
theorem C03_value_number (v : Text) (h1 : v ≠ []) (h2 : v.map upcase ≠ ['T', 'R', 'U', 'E'])
    (h3 : v.map upcase ≠ ['F', 'A', 'L', 'S', 'E']) (h4 : v.map upcase ∉ errorLits)
    (h5 : Umya.Formula.parseF64Ok v = true) : guessTyped v = .num v := by
  simp [guessTyped, h1, h2, h3, h4, h5]

theorem C03_value_error (v : Text)
    (h : v ∈ ["#DIV/0!".toList, "#N/A".toList, "#NAME?".toList, "#NULL!".toList, "#NUM!".toList, "#REF!".toList, "#VALUE!".toList]) :
    guessTyped v = .err v := by
  simp only [List.mem_cons, List.not_mem_nil, or_false] at h
  rcases h with h | h | h | h | h | h | h <;> subst h <;> decide

/-- non-vacuity -/
example : guessTyped "1.50E+3".toList = .num "1.50E+3".toList := by decide

/-! ### string items -/

/-- **String items** (`si` of the shared-string table with `trim = false`, `is` of an inline-string
    cell with `trim = true`).  For every element `si` that is a valid string item (`validRst`: either at
    most one plain `t` or runs `r` with at most one `t` each; every `t` holds character data only, and
    where the reader trims, blanks at its ends only under `xml:space="preserve"`), the text the library
    keeps (`SharedStringItem::set_attributes` + `set_shared_string_item`: the last `t`, replaced by the
    joined run texts when there are runs; phonetic runs `rPh` skipped) is the text ECMA-376 18.4.8
    assigns (`rstText`: the `t` plus the `t` of every run; `rPh` is not part of the value).
    `none` (no text at all) stands for the empty text. -/
theorem C03_string_item (trim : Bool) (si : Node) (h : validRst trim si = true) :
    (stringItem trim si).getD [] = rstText si :=
  stringItem_valid trim si h

/-- non-vacuity: `<is><r><t>ab</t></r><r><rPr><b/></rPr><t xml:space="preserve"> c</t></r><rPh><t>x</t></rPh></is>`
    means `ab c` (two runs, a preserved blank, a phonetic run that is ignored) -/
example :
    let is_ : Node := .elem ['i', 's'] []
      [.elem ['r'] [] [.elem ['t'] [] [.text ['a', 'b']]],
       .elem ['r'] [] [.elem ['r', 'P', 'r'] [] [.elem ['b'] [] []],
                       .elem ['t'] [⟨"xml:space".toList, "preserve".toList⟩] [.text [' ', 'c']]],
       .elem ['r', 'P', 'h'] [] [.elem ['t'] [] [.text ['x']]]]
    validRst true is_ = true ∧ rstText is_ = ['a', 'b', ' ', 'c'] := by decide

/-! ### the valid cell elements -/

/-- what is shown for a value: an empty text is not distinguished from no value (the driver's and the
    harness' views do the same; DESIGN.md / props file: "below the abstraction") -/
def shownKind (kind : String) (value : Text) : String := if kind = "s" ∧ value = [] then "" else kind

/-- what `<v>` may hold for a cell type `t` (ECMA-376 18.18.11 ST_CellType):
    `str` any text; `s` a decimal index (fitting `usize`) of an item of the table that is a valid string
    item; `b` a lexical form of xsd:boolean; `e` an error code; absent / `n` a number (`numberOk`) -/
def vOk (sis : List Node) (t v : Text) : Bool :=
  if t = "str".toList then true
  else if t = "s".toList then
    (match natOf v with
     | some i => decide (i < usizeBound) && (match sis[i]? with | some si => validRst false si | none => false)
     | none => false)
  else if t = "b".toList then boolOk v
  else if t = "e".toList then errorCodes.contains v
  else if t = [] ∨ t = "n".toList then numberOk v
  else false

/-- the value part of a cell: for `inlineStr` the `is` child (if any) is a valid string item (`<v>` is
    read by neither side); for the other types `<v>` (if any) holds character data only — without blanks
    at its ends unless the type is `str`, because the sheet reader trims them — and fits the type -/
def valueOk (sis : List Node) (c : Node) : Bool :=
  let t := (c.attr? "t".toList).getD []
  if t = "inlineStr".toList then (match c.kid? "is" with | some i => validRst true i | none => true)
  else match c.kid? "v" with
    | some v => plainText (t ≠ "str".toList) v && vOk sis t v.ownText
    | none => true

/-- `t` is absent or one of the cell types of ST_CellType (`d`, ISO 8601 dates of the strict
    conformance class, is outside: neither side decodes it) -/
def tOk (t : Option Text) : Bool :=
  match t with
  | none => true
  | some t => t = "n".toList || t = "s".toList || t = "str".toList || t = "b".toList || t = "e".toList || t = "inlineStr".toList

/-- `s` is an unsigned decimal (the library parses it as `usize` and unwraps) -/
def styleOk (c : Node) : Bool :=
  match c.attr? "s".toList with
  | some s => uintOk usizeBound s
  | none => true

/-- `<f>` holds character data only (blanks at its ends are kept by both sides); its `si` is an unsigned
    decimal that fits `u32` (the library parses every `si` and unwraps); a `t="shared"` formula carries
    `si` (18.3.1.40; the library would put a shared formula without `si` into group 0) -/
def formulaOk (c : Node) : Bool :=
  match c.kid? "f" with
  | some f => plainText false f &&
      (match f.attr? "si".toList with
       | some s => uintOk u32Bound s
       | none => f.attr? "t".toList ≠ some "shared".toList)
  | none => true

/-- the cell elements of the valid grammar (CT_Cell, 18.3.1.4), relative to the `si` elements of the
    shared-string table: a known cell type; at most one `v`, one `f`, one `is` (the schema's
    `f? v? is?`; the model takes the last, the spec the first); `styleOk`; `formulaOk`; `valueOk` -/
def validCell (sis : List Node) (c : Node) : Bool :=
  tOk (c.attr? "t".toList) && decide ((c.kids "v").length ≤ 1) && decide ((c.kids "f").length ≤ 1)
  && decide ((c.kids "is").length ≤ 1) && styleOk c && formulaOk c && valueOk sis c

/-- the statement of the per-type lemmas: the raw value the library ends up with does not panic, its
    text is the spec's value and its kind the spec's kind -/
def ValueAgrees (sis : List Node) (c : Node) : Prop :=
  ∃ raw, rawOf (sis.map (stringItem false)) c = some raw ∧
    raw.text = (decodeCell (sis.map rstText) c).1.value ∧
    shownKind raw.kind raw.text =
      shownKind (decodeCell (sis.map rstText) c).1.kind (decodeCell (sis.map rstText) c).1.value

/-- what `valueOk` says for a cell type other than `inlineStr` -/
theorem valueOk_v (sis : List Node) (c : Node) (t : Text) (ht : (c.attr? "t".toList).getD [] = t)
    (hne : t ≠ "inlineStr".toList) (v : Node) (hk : c.kid? "v" = some v) (h : valueOk sis c = true) :
    plainText (t ≠ "str".toList) v = true ∧ vOk sis t v.ownText = true := by
  unfold valueOk at h
  simp only [ht, hk, if_neg hne, Bool.and_eq_true] at h
  exact h

/-! ### one lemma per cell type -/

/-- numbers: `t` absent or `t="n"`; `<v>` goes through `guess_typed_data` (`C03_value_number`) -/
theorem C03_cell_number (sis : List Node) (c : Node) (ht : c.attr? "t".toList = none ∨ c.attr? "t".toList = some "n".toList)
    (hv : (c.kids "v").length ≤ 1) (h : valueOk sis c = true) : ValueAgrees sis c := by
  obtain ⟨t, ht', htt, hd⟩ : ∃ t, (c.attr? "t".toList).getD [] = t ∧ (t = [] ∨ t = "n".toList) ∧
      ((decodeCell (sis.map rstText) c).1.kind = (if (vText c).isSome then "n" else "") ∧
       (decodeCell (sis.map rstText) c).1.value = (vText c).getD []) := by
    rcases ht with e | e
    · exact ⟨[], by rw [e]; rfl, Or.inl rfl, decode_absent _ c e⟩
    · exact ⟨"n".toList, by rw [e]; rfl, Or.inr rfl, decode_n _ c e⟩
  have hne : t ≠ "inlineStr".toList := by rcases htt with e | e <;> subst e <;> decide
  unfold ValueAgrees
  rw [rawOf_not_inline _ c (by rw [ht']; exact hne), lastKid_eq c "v" hv, hd.1, hd.2, ht']
  unfold vText
  cases hk : c.kid? "v" with
  | none => exact ⟨.empty, rfl, rfl, rfl⟩
  | some v =>
    obtain ⟨hp, hn⟩ := valueOk_v sis c t ht' hne v hk h
    have hp : plainText true v = true := by
      rcases htt with e | e <;> subst e <;> simpa using hp
    have hn : numberOk v.ownText = true := by
      rcases htt with e | e <;> subst e <;> simpa [vOk] using hn
    refine ⟨.num v.ownText, ?_, rfl, rfl⟩
    rcases htt with e | e <;> subst e <;> simp [afterV, lastText_plain true v hp, guess_number _ hn]

/-- errors: `t="e"` with one of the seven error codes of 18.17.3 (`C03_value_error`) -/
theorem C03_cell_error (sis : List Node) (c : Node) (ht : c.attr? "t".toList = some "e".toList)
    (hv : (c.kids "v").length ≤ 1) (h : valueOk sis c = true) : ValueAgrees sis c := by
  have hd := decode_e (sis.map rstText) c ht
  have ht' : (c.attr? "t".toList).getD [] = "e".toList := by rw [ht]; rfl
  unfold ValueAgrees
  rw [rawOf_not_inline _ c (by rw [ht']; decide), lastKid_eq c "v" hv, hd.1, hd.2, ht']
  unfold vText
  cases hk : c.kid? "v" with
  | none => exact ⟨.empty, rfl, rfl, rfl⟩
  | some v =>
    obtain ⟨hp, hn⟩ := valueOk_v sis c _ ht' (by decide) v hk h
    have hp : plainText true v = true := by simpa using hp
    have hn : errorCodes.contains v.ownText = true := by simpa [vOk] using hn
    refine ⟨.err v.ownText, ?_, rfl, rfl⟩
    simp [afterV, lastText_plain true v hp, guess_error _ hn]

/-- formula strings: `t="str"`, the text as it stands (blanks at the ends included) -/
theorem C03_cell_str (sis : List Node) (c : Node) (ht : c.attr? "t".toList = some "str".toList)
    (hv : (c.kids "v").length ≤ 1) (h : valueOk sis c = true) : ValueAgrees sis c := by
  have hd := decode_str (sis.map rstText) c ht
  have ht' : (c.attr? "t".toList).getD [] = "str".toList := by rw [ht]; rfl
  unfold ValueAgrees
  rw [rawOf_not_inline _ c (by rw [ht']; decide), lastKid_eq c "v" hv, hd.1, hd.2, ht']
  unfold vText
  cases hk : c.kid? "v" with
  | none => exact ⟨.empty, rfl, rfl, rfl⟩
  | some v =>
    obtain ⟨hp, _⟩ := valueOk_v sis c _ ht' (by decide) v hk h
    have hp : plainText false v = true := by simpa using hp
    refine ⟨.str v.ownText, ?_, rfl, rfl⟩
    simp [afterV, lastText_plain false v hp]

/-- booleans: `t="b"` with `1`, `0`, `true`, `false` (xsd:boolean) -/
theorem C03_cell_bool (sis : List Node) (c : Node) (ht : c.attr? "t".toList = some "b".toList)
    (hv : (c.kids "v").length ≤ 1) (h : valueOk sis c = true) : ValueAgrees sis c := by
  have hd := decode_b (sis.map rstText) c ht
  have ht' : (c.attr? "t".toList).getD [] = "b".toList := by rw [ht]; rfl
  unfold ValueAgrees
  rw [rawOf_not_inline _ c (by rw [ht']; decide), lastKid_eq c "v" hv, hd.1, hd.2, ht']
  unfold vText
  cases hk : c.kid? "v" with
  | none => exact ⟨.empty, rfl, rfl, rfl⟩
  | some v =>
    obtain ⟨hp, hn⟩ := valueOk_v sis c _ ht' (by decide) v hk h
    have hp : plainText true v = true := by simpa using hp
    have hn : boolOk v.ownText = true := by simpa [vOk] using hn
    simp only [boolOk, Bool.or_eq_true, decide_eq_true_eq] at hn
    refine ⟨.bool (v.ownText = ['1'] ∨ v.ownText = "true".toList), ?_, ?_, ?_⟩
    · simp [afterV, lastText_plain true v hp]
    · rcases hn with ((e | e) | e) | e <;> simp [e, Raw.text]
    · rcases hn with ((e | e) | e) | e <;> simp [e, Raw.text, Raw.kind, shownKind]

/-- shared strings: `t="s"`, `<v>` an index into the table; the item is read by `stringItem` (plain `t`,
    rich runs joined, phonetic runs ignored: `C03_string_item`).  Indices outside the table and
    non-numeric `<v>` are NOT in `validCell`: the library panics there (`unwrap`), the spec reports a
    file outside the domain -/
theorem C03_cell_shared_string (sis : List Node) (c : Node) (ht : c.attr? "t".toList = some "s".toList)
    (hv : (c.kids "v").length ≤ 1) (h : valueOk sis c = true) : ValueAgrees sis c := by
  have hd := decode_s (sis.map rstText) c ht
  have ht' : (c.attr? "t".toList).getD [] = "s".toList := by rw [ht]; rfl
  unfold ValueAgrees
  rw [rawOf_not_inline _ c (by rw [ht']; decide), lastKid_eq c "v" hv, hd.1, hd.2, ht']
  unfold vText
  cases hk : c.kid? "v" with
  | none => exact ⟨.empty, rfl, rfl, rfl⟩
  | some v =>
    obtain ⟨hp, hn⟩ := valueOk_v sis c _ ht' (by decide) v hk h
    have hp : plainText true v = true := by simpa using hp
    have hn' : (match natOf v.ownText with
        | some i => decide (i < usizeBound) && (match sis[i]? with | some si => validRst false si | none => false)
        | none => false) = true := by
      unfold vOk at hn; rw [if_neg (by decide), if_pos rfl] at hn; exact hn
    cases hi : natOf v.ownText with
    | none => rw [hi] at hn'; cases hn'
    | some i =>
      rw [hi] at hn'
      simp only [Bool.and_eq_true, decide_eq_true_eq] at hn'
      cases hs : sis[i]? with
      | none => rw [hs] at hn'; exact absurd hn'.2 (by simp)
      | some si =>
        rw [hs] at hn'
        have hval := stringItem_valid false si hn'.2
        have hp' : parseUsize (lastText true v) = some i := by
          rw [lastText_plain true v hp]; exact parseUInt_of_natOf _ _ _ hi hn'.1
        have hsp : (sis.map rstText)[i]? = some (rstText si) := by simp [hs]
        simp only [Option.map_some, Option.bind_some, hi, hsp, Option.getD_some]
        cases hsi : stringItem false si with
        | none =>
          rw [hsi] at hval
          refine ⟨.empty, ?_, ?_, ?_⟩
          · simp [afterV, hp', hs, hsi]
          · exact hval
          · rw [← hval]; rfl
        | some s =>
          rw [hsi] at hval
          refine ⟨.str s, ?_, ?_, ?_⟩
          · simp [afterV, hp', hs, hsi]
          · exact hval
          · rw [← hval]; rfl

theorem afterV_inline (sst : List (Option Text)) (v : Option Node) : afterV sst "inlineStr".toList v = some .empty := by
  cases v with
  | none => rfl
  | some v => simp [afterV]

/-- inline strings: `t="inlineStr"`, the `<is>` child read as a string item (`C03_string_item` with
    trimming): plain `t`, rich runs `<r><t>`, phonetic runs `<rPh>` ignored; always text, whatever it
    looks like -/
theorem C03_cell_inline_string (sis : List Node) (c : Node) (ht : c.attr? "t".toList = some "inlineStr".toList)
    (hi : (c.kids "is").length ≤ 1) (h : valueOk sis c = true) : ValueAgrees sis c := by
  have hd := decode_inline (sis.map rstText) c ht
  have ht' : (c.attr? "t".toList).getD [] = "inlineStr".toList := by rw [ht]; rfl
  unfold valueOk at h
  simp only [ht', if_true] at h
  unfold ValueAgrees rawOf
  simp only [ht', afterV_inline, Option.map_some, lastKid_eq c "is" hi, hd.1, hd.2, if_true]
  cases hk : c.kid? "is" with
  | none => exact ⟨.empty, rfl, rfl, rfl⟩
  | some is_ =>
    rw [hk] at h
    have hval := stringItem_valid true is_ h
    simp only [Option.map_some, Option.getD_some]
    cases hsi : stringItem true is_ with
    | none => rw [hsi] at hval; exact ⟨.empty, rfl, hval, by rw [← hval]; rfl⟩
    | some s => rw [hsi] at hval; exact ⟨.str s, rfl, hval, by rw [← hval]; rfl⟩

theorem cell_style (sst : List Text) (c : Node) (h : styleOk c = true) :
    styleOf c = some (decodeCell sst c).1.style := by
  rw [decode_style]
  unfold styleOk at h
  unfold styleOf
  cases hs : c.attr? "s".toList with
  | none => rfl
  | some s =>
    rw [hs] at h
    obtain ⟨n, h1, h2⟩ := uintOk_parse _ s h
    simp only [Option.bind_some, h1, Option.getD_some]
    exact h2

theorem cell_formula (sst : List Text) (c : Node) (hf : (c.kids "f").length ≤ 1) (h : formulaOk c = true) :
    (lastKid? c "f").map (lastText false) = (decodeCell sst c).1.formula ∧
    groupOf c = some (decodeCell sst c).1.shared := by
  rw [decode_formula, decode_shared]
  unfold groupOf
  rw [lastKid_eq c "f" hf]
  unfold formulaOk at h
  cases hk : c.kid? "f" with
  | none => exact ⟨rfl, rfl⟩
  | some f =>
    rw [hk] at h
    simp only [Bool.and_eq_true] at h
    refine ⟨by simp [lastText_plain false f h.1], ?_⟩
    unfold sharedOf
    cases hsi : f.attr? "si".toList with
    | none =>
      have h2 := h.2
      rw [hsi] at h2
      have h3 : f.attr? ['t'] ≠ some ['s', 'h', 'a', 'r', 'e', 'd'] := by simpa using h2
      have hsi' : f.attr? ['s', 'i'] = none := hsi
      simp [h3, hsi']
    | some s =>
      have h2 := h.2
      rw [hsi] at h2
      obtain ⟨n, h1, h2⟩ := uintOk_parse _ s h2
      have h2' : parseU32 s = some n := h2
      have hsi' : f.attr? ['s', 'i'] = some s := hsi
      simp [h1, h2', hsi']

/-- **One cell element, every cell type.**  For every `<c>` element `c` of the valid grammar
    (`validCell`, relative to the `si` elements `sis` of the shared-string table) the model of
    `Cell::set_attributes`, run with the table as the library reads it (`stringItem false` per item),
    does not panic, and the cell it builds shows what `Spec.decodeCell`, run with the table as the
    spec reads it (`rstText` per item), assigns: formula text, shared-formula group, style index,
    reference, VALUE TEXT and KIND — for `t` absent / `n` (numbers), `s` (index into the table), `str`,
    `b` (`1`/`0`/`true`/`false`), `e` and `inlineStr` (`<is>` with `<t>`, rich runs, phonetic runs
    ignored), with and without `<v>`, with and without `<f>`.
    The kind is compared through `shownKind` (an empty text = no value); `C03_cell_kind` gives plain
    equality of the kinds whenever the value is not empty. -/
theorem C03_cell (sis : List Node) (c : Node) (h : validCell sis c = true) :
    ∃ r, readCell (sis.map (stringItem false)) c = some r ∧
      r.formula = (decodeCell (sis.map rstText) c).1.formula ∧
      r.shared = (decodeCell (sis.map rstText) c).1.shared ∧
      r.style = (decodeCell (sis.map rstText) c).1.style ∧
      r.ref = (decodeCell (sis.map rstText) c).1.ref ∧
      r.raw.text = (decodeCell (sis.map rstText) c).1.value ∧
      shownKind r.raw.kind r.raw.text =
        shownKind (decodeCell (sis.map rstText) c).1.kind (decodeCell (sis.map rstText) c).1.value := by
  simp only [validCell, Bool.and_eq_true, decide_eq_true_eq] at h
  obtain ⟨⟨⟨⟨⟨⟨ht, hv⟩, hf⟩, hi⟩, hs⟩, hfo⟩, hvo⟩ := h
  have hst := cell_style (sis.map rstText) c hs
  obtain ⟨hform, hgrp⟩ := cell_formula (sis.map rstText) c hf hfo
  have hval : ValueAgrees sis c := by
    unfold tOk at ht
    cases hta : c.attr? "t".toList with
    | none => exact C03_cell_number sis c (Or.inl hta) hv hvo
    | some t =>
      rw [hta] at ht
      simp only [Bool.or_eq_true, decide_eq_true_eq] at ht
      rcases ht with ((((e | e) | e) | e) | e) | e <;> subst e
      · exact C03_cell_number sis c (Or.inr hta) hv hvo
      · exact C03_cell_shared_string sis c hta hv hvo
      · exact C03_cell_str sis c hta hv hvo
      · exact C03_cell_bool sis c hta hv hvo
      · exact C03_cell_error sis c hta hv hvo
      · exact C03_cell_inline_string sis c hta hi hvo
  obtain ⟨raw, hr1, hr2, hr3⟩ := hval
  refine ⟨{ ref := (c.attr? "r".toList).getD [], style := (decodeCell (sis.map rstText) c).1.style, raw := raw,
            formula := (lastKid? c "f").map (lastText false),
            shared := (decodeCell (sis.map rstText) c).1.shared }, ?_, hform, rfl, rfl, rfl, hr2, hr3⟩
  unfold readCell
  rw [hst, hgrp, hr1]

/-- the kinds are equal as they stand whenever the cell has a non-empty value -/
theorem C03_cell_kind (sis : List Node) (c : Node) (h : validCell sis c = true)
    (hne : (decodeCell (sis.map rstText) c).1.value ≠ []) :
    ∃ r, readCell (sis.map (stringItem false)) c = some r ∧
      r.raw.kind = (decodeCell (sis.map rstText) c).1.kind ∧
      r.raw.text = (decodeCell (sis.map rstText) c).1.value := by
  obtain ⟨r, h1, _, _, _, _, h6, h7⟩ := C03_cell sis c h
  refine ⟨r, h1, ?_, h6⟩
  have hne' : r.raw.text ≠ [] := by rw [h6]; exact hne
  simpa [shownKind, hne, hne'] using h7

/-- the shared-string table of the non-vacuity examples: `<si><t>x</t></si>`,
    `<si><r><t>a</t></r><r><t>b</t></r><rPh><t>y</t></rPh></si>` -/
def exampleSis : List Node :=
  [.elem ['s', 'i'] [] [.elem ['t'] [] [.text ['x']]],
   .elem ['s', 'i'] [] [.elem ['r'] [] [.elem ['t'] [] [.text ['a']]], .elem ['r'] [] [.elem ['t'] [] [.text ['b']]],
                        .elem ['r', 'P', 'h'] [] [.elem ['t'] [] [.text ['y']]]]]

/-- non-vacuity of `validCell`, one cell per type:
    `<c r="B2" s="1" t="s"><f t="shared" si="0">A1</f><v>1</v></c>` (rich shared string),
    `<c t="inlineStr"><is><r><t>12</t></r><rPh><t>z</t></rPh></is></c>` (inline, looks like a number, no `r`),
    `<c t="b"><v>true</v></c>`, `<c t="e"><v>#N/A</v></c>`, `<c t="str"><f> A1 </f><v> x </v></c>`,
    `<c><v>1.5E+3</v></c>`, `<c t="n"/>` -/
example :
    validCell exampleSis (.elem ['c'] [⟨['r'], ['B', '2']⟩, ⟨['s'], ['1']⟩, ⟨['t'], ['s']⟩]
      [.elem ['f'] [⟨['t'], "shared".toList⟩, ⟨['s', 'i'], ['0']⟩] [.text ['A', '1']], .elem ['v'] [] [.text ['1']]]) = true ∧
    validCell exampleSis (.elem ['c'] [⟨['t'], "inlineStr".toList⟩]
      [.elem ['i', 's'] [] [.elem ['r'] [] [.elem ['t'] [] [.text ['1', '2']]],
                            .elem ['r', 'P', 'h'] [] [.elem ['t'] [] [.text ['z']]]]]) = true ∧
    validCell exampleSis (.elem ['c'] [⟨['t'], ['b']⟩] [.elem ['v'] [] [.text "true".toList]]) = true ∧
    validCell exampleSis (.elem ['c'] [⟨['t'], ['e']⟩] [.elem ['v'] [] [.text "#N/A".toList]]) = true ∧
    validCell exampleSis (.elem ['c'] [⟨['t'], "str".toList⟩]
      [.elem ['f'] [] [.text [' ', 'A', '1', ' ']], .elem ['v'] [] [.text [' ', 'x', ' ']]]) = true ∧
    validCell exampleSis (.elem ['c'] [] [.elem ['v'] [] [.text "1.5E+3".toList]]) = true ∧
    validCell exampleSis (.elem ['c'] [⟨['t'], ['n']⟩] []) = true := by
  refine ⟨?_, ?_, ?_, ?_, ?_, ?_, ?_⟩ <;> decide

/-- … and what the first two mean: `ab` (text, group 0, style 1, B2) and the text `12` -/
example :
    (readCell (exampleSis.map (stringItem false)) (.elem ['c'] [⟨['r'], ['B', '2']⟩, ⟨['s'], ['1']⟩, ⟨['t'], ['s']⟩]
      [.elem ['f'] [⟨['t'], "shared".toList⟩, ⟨['s', 'i'], ['0']⟩] [.text ['A', '1']], .elem ['v'] [] [.text ['1']]])).map
        (fun r => (r.raw, r.formula, r.shared, r.style, r.ref))
      = some (.str ['a', 'b'], some ['A', '1'], some 0, 1, ['B', '2']) ∧
    (readCell [] (.elem ['c'] [⟨['t'], "inlineStr".toList⟩]
      [.elem ['i', 's'] [] [.elem ['r'] [] [.elem ['t'] [] [.text ['1', '2']]],
                            .elem ['r', 'P', 'h'] [] [.elem ['t'] [] [.text ['z']]]]])).map (·.raw)
      = some (.str ['1', '2']) := by
  constructor <;> decide

/-! ### the conjuncts of `validCell` that are there because the code deviates (concrete cells; each was
     run against the real reader as a hand-written package, `c03 reset edge 7` / `edge 9`) -/

/-- The "blanks at the ends of a `t` need `xml:space="preserve"`" clause (`validT`) is needed: the sheet
    reader trims every text event (`trim_text(true)`), so `<c t="inlineStr"><is><t> a </t></is></c>` is
    loaded as `a` where an XML reader passes ` a ` (known finding C03-edge-inline-t-blanks-trimmed; every
    producer writes the attribute; the shared-strings part is read without trimming). -/
theorem C03_cell_edge_blanks_fails :
    let c : Node := .elem ['c'] [⟨['t'], "inlineStr".toList⟩] [.elem ['i', 's'] [] [.elem ['t'] [] [.text [' ', 'a', ' ']]]]
    (readCell [] c).map (·.raw.text) = some ['a'] ∧ (decodeCell [] c).1.value = [' ', 'a', ' '] := by
  constructor
  · decide
  · simp [decodeCell, str, rstText, Node.kid?, Node.kids, Node.children, Node.isElem, localName, Node.name, Node.attr?,
      Node.attrs, Node.ownText]

/-- The "either a plain `t` or runs" clause (`validRst`) is needed: for
    `<c t="inlineStr"><is><t>a</t><r><t>b</t></r></is></c>` (schema-valid: CT_Rst is `t? r* rPh*`) the
    library shows `b` (the rich text replaces the plain text in `set_shared_string_item`), the spec `ab`
    (known finding C03-edge-rst-t-and-runs; no known producer writes both). -/
theorem C03_cell_t_and_runs_fails :
    let c : Node := .elem ['c'] [⟨['t'], "inlineStr".toList⟩]
      [.elem ['i', 's'] [] [.elem ['t'] [] [.text ['a']], .elem ['r'] [] [.elem ['t'] [] [.text ['b']]]]]
    (readCell [] c).map (·.raw.text) = some ['b'] ∧ (decodeCell [] c).1.value = ['a', 'b'] := by
  constructor
  · decide
  · simp [decodeCell, str, rstText, Node.kid?, Node.kids, Node.children, Node.isElem, localName, Node.name, Node.attr?,
      Node.attrs, Node.ownText]

end Cell

/-! ## positions of rows and cells that omit `r` (fix 8281a0c) -/
section Positions
open Umya.Spec.Sml Umya.Coord

/-- the rows of a `<sheetData>` whose positions are well defined:
    * `rowRefsOk`: a row's `r`, when present, is an unsigned decimal that fits `u32` (ST: xsd:unsignedInt;
      the library parses it with `unwrap`);
    * every `<c>`'s `r`, when present, is a `validRef`: 1–3 upper-case letters and a decimal row number
      that fits `u32` (ST_CellRef; the library's regex knows no other form, and unwraps);
    * `inGrid`: the positions the spec assigns are inside the grid (rows ≤ 1048576, columns ≤ 16384) —
      beyond column ZZZ / row 2^32 - 1 the library panics, the spec reports a file outside the domain.
    Nothing is asked about the ORDER of rows or cells, nor that a cell's reference names its row. -/
def validPositions (sst : List Text) (rows : List Node) : Bool :=
  rowRefsOk rows && rows.all (fun r => cellRefsOk (r.kids "c")) && inGrid sst 0 rows

/-- **Positions.**  For every list of `<row>` elements with `validPositions` — any mixture of rows and
    cells with and without `r`, any number of them — the model of the library's position rule
    (`Row::set_attributes`: a row without `r` is `last_row_num + 1`; `Cell::set_attributes`: a cell
    without `r` gets `coordinate_from_index(last_col_num + 1, row_num)`, parsed back by
    `set_coordinate`; `last_col_num` follows the cell just read) does not panic and puts every row and
    every cell where ECMA-376 18.3.1.73 / 18.3.1.4 put them, i.e. where the spec's `rowNumbers` /
    `fillRefs` do (`specPositions`: per row its number and the (column, row) of each of its cells, in
    document order). -/
theorem C03_positions (sst : List Text) (rows : List Node) (h : validPositions sst rows = true) :
    sheetPositions 0 rows = some (specPositions sst 0 rows) := by
  simp only [validPositions, Bool.and_eq_true] at h
  exact rows_agree sst rows 0 h.1.1 h.1.2 h.2

/-- `<row><c/><c r="D1"/><c/></row><row r="5"><c/><c r="B5"/></row><row><c r="AA6"/><c/></row>` -/
def exampleRows : List Node :=
  [.elem ['r', 'o', 'w'] [] [.elem ['c'] [] [], .elem ['c'] [⟨['r'], ['D', '1']⟩] [], .elem ['c'] [] []],
   .elem ['r', 'o', 'w'] [⟨['r'], ['5']⟩] [.elem ['c'] [] [], .elem ['c'] [⟨['r'], ['B', '5']⟩] []],
   .elem ['r', 'o', 'w'] [] [.elem ['c'] [⟨['r'], ['A', 'A', '6']⟩] [], .elem ['c'] [] []]]

/-- non-vacuity, mixing present and absent `r` on rows and cells: `exampleRows` is valid and means
    rows 1, 5, 6 with the cells A1 D1 E1 / A5 B5 / AA6 AB6 (`alphaRev` / `decDigits` are defined by
    well-founded recursion, hence kernel evaluation) -/
example : validPositions [] exampleRows = true ∧
    sheetPositions 0 exampleRows =
      some [(1, [(1, 1), (4, 1), (5, 1)]), (5, [(1, 5), (2, 5)]), (6, [(27, 6), (28, 6)])] := by
  constructor <;> decide +kernel

end Positions

/-- **Tie to the source (T).**  The white-space normalisation chains of reader/driver.rs as regenerated on
    this run (`unescape_text`, `get_attribute_value`) are the model's `normEol` / `attrNorm`, and the reader's
    error-literal table is `CellErrorType`'s. -/
theorem C03_channels_match_source (s : List Char) :
    Umya.Gen.applySteps Umya.Gen.unescape_text_normalise s = Umya.Xml.normEol s ∧
    Umya.Gen.applySteps Umya.Gen.get_attribute_value_normalise s = attrNorm s ∧
    Umya.Gen.cell_error_display.map (fun p => p.2.toList) = Umya.Reader.errorLits :=
  ⟨Umya.Gen.gen_unescape_text s, Umya.Gen.gen_get_attribute_value s, Umya.Gen.gen_cell_errors.2.2⟩

end Umya.Thm.C03
