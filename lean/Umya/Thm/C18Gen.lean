/-
  C18 — tie to the source (T), part 3: `convert_date_crate`, `excel_to_date_time_object_checked` and `excel_to_date_time_object` of
  src/helper/date.rs, compiled to Lean from the CURRENT source on every run (tools/extract_fns.py →
  Umya/Model/Gen/Fns.lean), equal the hand model the C18 theorems are about, for all arguments.
-/
import Umya.Lemmas.FnsGenDate
import Umya.Lemmas.DateFmt
namespace Umya.Thm.C18
open Umya.Date

/-- **Tie to the source (T).**
    (1) `convert_date_crate` as it is in the source — the two base-date constants, the 1900 leap flag, the
    `month > 2` adjustment, `year.to_string()[0..2]` / `[2..4]` parsed as century / decade, the checked `i32` sum
    and the seconds — returns, for every float interface `F`, exactly `serialOf F date secs` of the model's
    `convertDateCrate` (and panics exactly when the model says `none`).
    (2) `excel_to_date_time_object` as it is in the source after fix d30eec7 —
    `excel_to_date_time_object_checked(..).expect(..)`, the checked function being compiled from the source too: the
    three base dates with the thresholds 1 and 60, the floor / subtract / ×24 / floor / ×60 / floor / ×60 / round
    chain, the saturating `as i64`, `Duration::try_days/hours/minutes/seconds` and `checked_add_signed` with `?` —
    is the model's `excelToEpochSecondsChecked` over the same interface, `none` = the Rust panics (chrono's
    calendar = the reference calendar and chrono's `TimeDelta` / `NaiveDateTime` bounds as in the model);
    (3) seen as a date-time it is the model's `excelToDateTimeObject`;
    (4) whenever it returns, the value is the unguarded sum `excelToEpochSeconds` the C18 theorems are about. -/
theorem C18_date_fns_match_source :
    (∀ (F : Type) [FloatOps F] (y m d h mi s : Int) (w : Bool),
      Umya.Gen.convert_date_crate F y m d h mi s w =
        (convertDateCrate y m d h mi s w).map (fun p => serialOf F p.1 p.2)) ∧
    (∀ (F : Type) [FloatOps F] (ts : F) (tz : Option (List Char)),
      Umya.Gen.excel_to_date_time_object F Umya.Gen.refChrono ts tz = excelToEpochSecondsChecked ts) ∧
    (∀ (F : Type) [FloatOps F] (ts : F) (tz : Option (List Char)),
      (Umya.Gen.excel_to_date_time_object F Umya.Gen.refChrono ts tz).map ofEpochSeconds = excelToDateTimeObject ts) ∧
    (∀ (F : Type) [FloatOps F] (ts : F) (tz : Option (List Char)) (t : Int),
      Umya.Gen.excel_to_date_time_object F Umya.Gen.refChrono ts tz = some t → t = excelToEpochSeconds ts) :=
  ⟨fun F _ y m d h mi s w => Umya.Gen.gen_convert_date_crate F y m d h mi s w,
   fun F _ ts tz => Umya.Gen.gen_excel_to_date_time_object F ts tz,
   fun F _ ts tz => by rw [Umya.Gen.gen_excel_to_date_time_object]; rfl,
   fun F _ ts tz t h => (Umya.Lemmas.DateFmt.checked_agrees ts t (by rw [← Umya.Gen.gen_excel_to_date_time_object F ts tz]; exact h)).1⟩

/-- instance: the exact fixed-point interface of `C18_time_exact`, a concrete date -/
example : Umya.Gen.convert_date_crate Fix 2021 6 2 5 4 2 true =
    (convertDateCrate 2021 6 2 5 4 2 true).map (fun p => serialOf Fix p.1 p.2) :=
  C18_date_fns_match_source.1 Fix 2021 6 2 5 4 2 true

/-- instances: a serial inside chrono's range and one beyond it (the Rust panics) -/
example : Umya.Gen.excel_to_date_time_object Fix Umya.Gen.refChrono ⟨86400 * 45435 + 3600⟩ none = some 1716426000 := by decide
example : Umya.Gen.excel_to_date_time_object Fix Umya.Gen.refChrono ⟨86400 * 100000000⟩ none = none := by decide

end Umya.Thm.C18
